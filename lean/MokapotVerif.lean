import MokapotVerif.Wire
import MokapotVerif.OpsAll
import MokapotVerif.Model.Qvalues
import MokapotVerif.Ops.Qvalues
import MokapotVerif.Lemmas.Qvalues
import MokapotVerif.Lemmas.QvaluesSort
import MokapotVerif.Props.C01
