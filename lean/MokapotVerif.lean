import MokapotVerif.Wire
import MokapotVerif.Model.Qvalues
import MokapotVerif.Ops.Qvalues
