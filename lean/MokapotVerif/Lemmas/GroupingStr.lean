import MokapotVerif.Model.GroupingStr
import MokapotVerif.Lemmas.GroupingExt
import Mathlib.Data.List.Perm.Basic
/-! Helper lemmas for the string level of C16: group names list their members in processing
order, `str.join` is injective on blank-free names, `sorted` is canonical. -/
set_option linter.unusedSectionVars false
namespace Mk.Grouping
variable {α β : Type} [DecidableEq α] [DecidableEq β]

/-! ## a group key is a subsequence of the processed names -/

/-- a subsequence of a duplicate-free list is that list filtered by membership -/
theorem sublist_eq_filter_mem {γ : Type} [DecidableEq γ] {k l : List γ} (h : k.Sublist l) (hl : l.Nodup) :
    k = l.filter (fun x => decide (x ∈ k)) := by
  induction h with
  | slnil => rfl
  | @cons k l a hs ih =>
    rw [List.nodup_cons] at hl
    have ha : a ∉ k := fun hk => hl.1 (hs.subset hk)
    rw [List.filter_cons]
    simp only [ha, decide_false, Bool.false_eq_true, if_false]
    exact ih hl.2
  | @cons_cons k l a hs ih =>
    rw [List.nodup_cons] at hl
    rw [List.filter_cons]
    simp only [List.mem_cons, true_or, decide_true, if_true]
    congr 1
    have : l.filter (fun x => decide (x = a ∨ x ∈ k)) = l.filter (fun x => decide (x ∈ k)) := by
      apply List.filter_congr
      intro x hx
      have hxa : x ≠ a := fun e => hl.1 (e ▸ hx)
      simp [hxa]
    rw [this]
    exact ih hl.2

theorem fold_keys_sublist (c : α) (D : List α) :
    ∀ (ms : List (GKey α)) (st : St α β), (∀ m ∈ ms, m.Sublist D) →
      (∀ k S, (k, S) ∈ st.grouped → k.Sublist (D ++ [c])) →
      ∀ k S, (k, S) ∈ (ms.foldl (applyMatch c) st).grouped → k.Sublist (D ++ [c]) := by
  intro ms
  induction ms with
  | nil => intro st _ h; exact h
  | cons m ms ih =>
    intro st hms hst
    rw [List.foldl_cons]
    apply ih
    · intro m' hm'; exact hms m' (List.mem_cons_of_mem _ hm')
    · intro k S hk
      rcases (mem_applyMatch_grouped c st m k S).mp hk with ⟨h1, _⟩ | ⟨h1, _⟩
      · exact hst k S h1
      · rw [h1]
        exact List.Sublist.append (hms m (by simp)) (List.Sublist.refl _)

theorem mem_matchesOf_key (st : St α β) (peps : List β) (m : GKey α) (h : m ∈ matchesOf st peps) :
    ∃ S, (m, S) ∈ st.grouped := by
  unfold matchesOf at h
  rw [List.mem_filter, List.any_eq_true] at h
  obtain ⟨_, ⟨k, S⟩, hg, he⟩ := h
  simp only [decide_eq_true_eq] at he
  subst he
  exact ⟨S, hg⟩

theorem step_keys_sublist (enum : List (GKey α) → List (GKey α)) (henum : ∀ s, (enum s).Perm s)
    (st : St α β) (c : α) (Sq : List β) (D : List α)
    (hst : ∀ k S, (k, S) ∈ st.grouped → k.Sublist D) :
    ∀ k S, (k, S) ∈ (step enum st (c, Sq)).grouped → k.Sublist (D ++ [c]) := by
  have hold : ∀ k S, (k, S) ∈ st.grouped → k.Sublist (D ++ [c]) := fun k S hk =>
    (hst k S hk).trans (List.sublist_append_left _ _)
  have hadd : ∀ k S, (k, S) ∈ (addGroup st (c, Sq)).grouped → k.Sublist (D ++ [c]) := by
    intro k S hk
    simp only [addGroup, List.mem_append, List.mem_singleton, Prod.mk.injEq] at hk
    rcases hk with hk | ⟨rfl, _⟩
    · exact hold k S hk
    · exact List.sublist_append_right _ _
  unfold step
  split
  · exact hadd
  · split
    · exact hadd
    · apply fold_keys_sublist c D _ st _ hold
      intro m hm
      obtain ⟨S, hS⟩ := mem_matchesOf_key st Sq m ((henum _).mem_iff.mp hm)
      exact hst m S hS

theorem groupGo_keys_sublist (enum : Nat → List (GKey α) → List (GKey α)) (henum : ∀ n s, (enum n s).Perm s) :
    ∀ (todo done : List (Prot α β)) (st : St α β),
      (∀ k S, (k, S) ∈ st.grouped → k.Sublist (done.map (·.1))) →
      ∀ k S, (k, S) ∈ (groupGo enum st todo).grouped → k.Sublist ((done ++ todo).map (·.1)) := by
  intro todo
  induction todo with
  | nil => intro done st h; simpa [groupGo] using h
  | cons pr rest ih =>
    intro done st h
    obtain ⟨c, Sq⟩ := pr
    simp only [groupGo]
    have hassoc : done ++ (c, Sq) :: rest = (done ++ [(c, Sq)]) ++ rest := by simp
    rw [hassoc]
    apply ih (done ++ [(c, Sq)])
    intro k S hk
    have := step_keys_sublist (enum rest.length) (henum rest.length) st c Sq (done.map (·.1)) h k S hk
    simpa using this

/-- **a group name lists its members in processing order**: from the loop invariant at the end of
the run and the subsequence property -/
theorem key_eq_membersInOrder {g : List (Group α β)} {srt : List (Prot α β)}
    (hG : GI g srt [] []) (hnames : (srt.map (·.1)).Nodup)
    (hsub : ∀ k S, (k, S) ∈ g → k.Sublist (srt.map (·.1)))
    (k : GKey α) (S : List β) (hk : (k, S) ∈ g) : k = membersInOrder srt S := by
  have h1 := sublist_eq_filter_mem (hsub k S hk) hnames
  unfold membersInOrder
  refine h1.trans ?_
  rw [List.filter_map]
  congr 1
  apply List.filter_congr
  intro e he
  have := hG.members k S hk e.1 e.2 he
  simp only [Function.comp]
  by_cases hm : e.1 ∈ k
  · simp [hm, (subsetB_iff _ _).mpr (this.mp hm)]
  · have : subsetB e.2 S = false := by
      cases hb : subsetB e.2 S with
      | false => rfl
      | true => exact absurd (this.mpr ((subsetB_iff _ _).mp hb)) hm
    simp [hm, this]

/-- `membersInOrder` only looks at the set `S` as a set -/
theorem membersInOrder_congr (srt : List (Prot α β)) {S S' : List β} (h : ∀ p, p ∈ S ↔ p ∈ S') :
    membersInOrder srt S = membersInOrder srt S' := by
  unfold membersInOrder
  congr 1
  apply List.filter_congr
  intro e _
  have : (subsetB e.2 S = true) ↔ (subsetB e.2 S' = true) := by
    rw [subsetB_iff, subsetB_iff]
    constructor
    · intro hs p hp; exact (h p).mp (hs hp)
    · intro hs p hp; exact (h p).mpr (hs hp)
  cases h1 : subsetB e.2 S <;> cases h2 : subsetB e.2 S' <;> simp_all

/-! ## two runs that differ only in the enumeration of the match sets -/

/-- the key of every group of a run of `_group_proteins` is `membersInOrder` of its peptide set -/
theorem groupProteinsOf_key (enum : Nat → List (GKey α) → List (GKey α)) (henum : ∀ n s, (enum n s).Perm s)
    (P srt : List (Prot α β)) (pmW : List (PepEntry α β)) (hwf : WF P) (hidx : IsPepIndex P pmW)
    (hperm : srt.Perm P) (hsorted : srt.Pairwise (fun a b => b.2.length ≤ a.2.length))
    (k : GKey α) (S : List β) (hk : (k, S) ∈ (groupProteinsOf enum pmW srt).grouped) :
    k = membersInOrder srt S := by
  obtain ⟨hG, _, _⟩ := groupProteinsOf_inv enum henum P srt pmW hwf hidx hperm hsorted
  have hnames : (srt.map (·.1)).Nodup := (hperm.map (·.1)).nodup_iff.mpr hwf.names
  have hsub := groupGo_keys_sublist enum henum srt [] ⟨[], pmW⟩ (by intro k S hk; simp at hk)
  simp only [List.nil_append] at hsub
  exact key_eq_membersInOrder hG hnames hsub k S hk

theorem groupProteinsOf_grouped_sub (enum enum' : Nat → List (GKey α) → List (GKey α))
    (henum : ∀ n s, (enum n s).Perm s) (henum' : ∀ n s, (enum' n s).Perm s)
    (P srt : List (Prot α β)) (pmW : List (PepEntry α β)) (hwf : WF P) (hidx : IsPepIndex P pmW)
    (hperm : srt.Perm P) (hsorted : srt.Pairwise (fun a b => b.2.length ≤ a.2.length))
    (k : GKey α) (S : List β) (hk : (k, S) ∈ (groupProteinsOf enum pmW srt).grouped) :
    (k, S) ∈ (groupProteinsOf enum' pmW srt).grouped := by
  obtain ⟨hG, _, _⟩ := groupProteinsOf_inv enum henum P srt pmW hwf hidx hperm hsorted
  obtain ⟨hG', _, _⟩ := groupProteinsOf_inv enum' henum' P srt pmW hwf hidx hperm hsorted
  have hnames : (srt.map (·.1)).Nodup := (hperm.map (·.1)).nodup_iff.mpr hwf.names
  have hg := isGrouping_of_GI hG (fun e => hperm.mem_iff)
  have hg' := isGrouping_of_GI hG' (fun e => hperm.mem_iff)
  have hsg := isGrouping_unique hwf hwf (SameInput.of_perm (List.Perm.refl _)) hg hg'
  obtain ⟨k', S', hk', _, hSS'⟩ := hsg.1 k S hk
  have e1 := groupProteinsOf_key enum henum P srt pmW hwf hidx hperm hsorted k S hk
  have e2 := groupProteinsOf_key enum' henum' P srt pmW hwf hidx hperm hsorted k' S' hk'
  have ekk : k' = k := by rw [e1, e2]; exact (membersInOrder_congr srt hSS').symm
  rw [ekk] at hk'
  obtain ⟨q, hq1, hq2⟩ := hG.founder k S hk
  obtain ⟨q', hq1', hq2'⟩ := hG'.founder k S' hk'
  rw [hq1] at hq1'
  simp only [Option.some.injEq] at hq1'
  rw [← hq1'] at hq2'
  have : S = S' := val_unique _ hnames _ _ _ hq2 hq2'
  rw [this]; exact hk'

/-- the enumeration of the match sets changes neither the group names nor the peptide sets
stored under them, keeps the keys of the returned `peptides` dict in place, and permutes
the set stored under a peptide -/
theorem groupProteinsOf_enum_exact (enum enum' : Nat → List (GKey α) → List (GKey α))
    (henum : ∀ n s, (enum n s).Perm s) (henum' : ∀ n s, (enum' n s).Perm s)
    (P srt : List (Prot α β)) (pmW : List (PepEntry α β)) (hwf : WF P) (hidx : IsPepIndex P pmW)
    (hperm : srt.Perm P) (hsorted : srt.Pairwise (fun a b => b.2.length ≤ a.2.length)) :
    (∀ k S, (k, S) ∈ (groupProteinsOf enum pmW srt).grouped ↔ (k, S) ∈ (groupProteinsOf enum' pmW srt).grouped) ∧
    (groupProteinsOf enum pmW srt).pepmap.map (·.1) = (groupProteinsOf enum' pmW srt).pepmap.map (·.1) ∧
    ∀ p ks ks', (p, ks) ∈ (groupProteinsOf enum pmW srt).pepmap →
      (p, ks') ∈ (groupProteinsOf enum' pmW srt).pepmap → ks.Perm ks' := by
  have hiff : ∀ k S, (k, S) ∈ (groupProteinsOf enum pmW srt).grouped ↔
      (k, S) ∈ (groupProteinsOf enum' pmW srt).grouped := fun k S =>
    ⟨groupProteinsOf_grouped_sub enum enum' henum henum' P srt pmW hwf hidx hperm hsorted k S,
     groupProteinsOf_grouped_sub enum' enum henum' henum P srt pmW hwf hidx hperm hsorted k S⟩
  refine ⟨hiff, ?_, ?_⟩
  · unfold groupProteinsOf
    rw [groupGo_keys, groupGo_keys]
  · intro p ks ks' h1 h2
    obtain ⟨_, hP, _⟩ := groupProteinsOf_inv enum henum P srt pmW hwf hidx hperm hsorted
    obtain ⟨_, hP', _⟩ := groupProteinsOf_inv enum' henum' P srt pmW hwf hidx hperm hsorted
    have hi := isGroupIndex_of_PI hP
    have hi' := isGroupIndex_of_PI hP'
    obtain ⟨n1, m1⟩ := hi.sets p ks h1
    obtain ⟨n2, m2⟩ := hi'.sets p ks' h2
    rw [List.perm_ext_iff_of_nodup n1 n2]
    intro key
    rw [m1 key, m2 key]
    constructor
    · rintro ⟨S, hS, hp⟩; exact ⟨S, (hiff key S).mp hS, hp⟩
    · rintro ⟨S, hS, hp⟩; exact ⟨S, (hiff key S).mpr hS, hp⟩

/-! ## values computed key by key from two dicts with the same keys -/

/-- two association lists with the same duplicate-free key list, and a function of an item that
agrees on items with the same key: the mapped lists are equal -/
theorem map_eq_of_same_keys {κ ν δ : Type} (f : κ × ν → δ) :
    ∀ (l l' : List (κ × ν)), l.map (·.1) = l'.map (·.1) → (l.map (·.1)).Nodup →
      (∀ p v v', (p, v) ∈ l → (p, v') ∈ l' → f (p, v) = f (p, v')) → l.map f = l'.map f := by
  intro l
  induction l with
  | nil =>
    intro l' hk _ _
    cases l' with
    | nil => rfl
    | cons a t => simp at hk
  | cons e t ih =>
    intro l' hk hnd hf
    cases l' with
    | nil => simp at hk
    | cons e' t' =>
      simp only [List.map_cons, List.cons.injEq] at hk
      obtain ⟨p, v⟩ := e
      obtain ⟨p', v'⟩ := e'
      simp only at hk
      obtain ⟨rfl, hk2⟩ := hk
      simp only [List.map_cons, List.nodup_cons] at hnd
      simp only [List.map_cons, List.cons.injEq]
      refine ⟨hf p v v' (by simp) (by simp), ih t' hk2 hnd.2 ?_⟩
      intro q w w' hw hw'
      exact hf q w w' (List.mem_cons_of_mem _ hw) (List.mem_cons_of_mem _ hw')

theorem uniquePeps_eq_filterMap (pm : List (PepEntry α β)) :
    uniquePeps pm = pm.filterMap (fun e => if e.2.length = 1 then some (e.1, e.2.headD []) else none) := by
  unfold uniquePeps
  induction pm with
  | nil => rfl
  | cons e t ih =>
    rw [List.filter_cons, List.filterMap_cons]
    by_cases h : e.2.length = 1
    · simp only [h, decide_true, if_true, List.map_cons]; rw [ih]
    · simp only [h, decide_false, Bool.false_eq_true, if_false]; rw [ih]

theorem sharedPeps_map_eq_filterMap {δ : Type} (f : PepEntry α β → δ) (pm : List (PepEntry α β)) :
    (sharedPeps pm).map f = pm.filterMap (fun e => if e.2.length = 1 then none else some (f e)) := by
  unfold sharedPeps
  induction pm with
  | nil => rfl
  | cons e t ih =>
    rw [List.filter_cons, List.filterMap_cons]
    by_cases h : e.2.length = 1
    · simp only [h, decide_true, Bool.not_true, Bool.false_eq_true, if_false, if_true]; rw [ih]
    · simp only [h, decide_false, Bool.not_false, if_true, if_false, List.map_cons]; rw [ih]

theorem filterMap_eq_of_same_keys {κ ν δ : Type} (f : κ × ν → Option δ)
    (l l' : List (κ × ν)) (hk : l.map (·.1) = l'.map (·.1)) (hnd : (l.map (·.1)).Nodup)
    (hf : ∀ p v v', (p, v) ∈ l → (p, v') ∈ l' → f (p, v) = f (p, v')) :
    l.filterMap f = l'.filterMap f := by
  have := map_eq_of_same_keys f l l' hk hnd hf
  have e1 : l.filterMap f = (l.map f).filterMap id := by rw [List.filterMap_map]; rfl
  have e2 : l'.filterMap f = (l'.map f).filterMap id := by rw [List.filterMap_map]; rfl
  rw [e1, e2, this]

theorem headD_of_perm_singleton {γ : Type} {ks ks' : List γ} (h : ks.Perm ks') (hl : ks.length = 1) (d : γ) :
    ks.headD d = ks'.headD d := by
  obtain ⟨a, rfl⟩ := List.length_eq_one_iff.mp hl
  have : ks' = [a] := List.perm_singleton.mp h.symm
  rw [this]

/-! ## `str.join` -/

theorem joinTail_append (sep : List Char) (l r : List (List Char)) :
    joinTail sep (l ++ r) = joinTail sep l ++ joinTail sep r := by
  induction l with
  | nil => rfl
  | cons a t ih => simp [joinTail, ih]

/-- the code's incremental construction of a group name: joining the old name and the new
member gives the name of the extended member list -/
theorem nameOf_append_singleton (m : GKey (List Char)) (c : List Char) (hm : m ≠ []) :
    nameOf (m ++ [c]) = newProt (nameOf m) c := by
  cases m with
  | nil => exact absurd rfl hm
  | cons a t =>
    simp [nameOf, newProt, joinWith, joinTail, joinTail_append]

theorem append_blank_inj : ∀ (l1 l2 r1 r2 : List Char), ' ' ∉ l1 → ' ' ∉ l2 →
    l1 ++ ' ' :: r1 = l2 ++ ' ' :: r2 → l1 = l2 ∧ r1 = r2 := by
  intro l1
  induction l1 with
  | nil =>
    intro l2 r1 r2 _ h2 h
    cases l2 with
    | nil => simpa using h
    | cons b t =>
      simp only [List.nil_append, List.cons_append, List.cons.injEq] at h
      exact absurd (h.1 ▸ List.mem_cons_self) h2
  | cons a t ih =>
    intro l2 r1 r2 h1 h2 h
    cases l2 with
    | nil =>
      simp only [List.nil_append, List.cons_append, List.cons.injEq] at h
      exact absurd (h.1 ▸ List.mem_cons_self) h1
    | cons b t2 =>
      simp only [List.cons_append, List.cons.injEq] at h
      obtain ⟨rfl, h'⟩ := h
      obtain ⟨e1, e2⟩ := ih t2 r1 r2 (fun hh => h1 (List.mem_cons_of_mem _ hh))
        (fun hh => h2 (List.mem_cons_of_mem _ hh)) h'
      exact ⟨by rw [e1], e2⟩

theorem joinG_inj_aux : ∀ (r r' : List (List Char)) (a a' : List Char),
    ' ' ∉ a → ' ' ∉ a' → (∀ x ∈ r, ' ' ∉ x) → (∀ x ∈ r', ' ' ∉ x) →
    a ++ joinTail sepG r = a' ++ joinTail sepG r' → a = a' ∧ r = r' := by
  intro r
  induction r with
  | nil =>
    intro r' a a' ha _ _ _ h
    cases r' with
    | nil => simpa [joinTail] using h
    | cons b' t' =>
      exfalso
      apply ha
      simp only [joinTail, List.append_nil, sepG] at h
      rw [h]; simp
  | cons b t ih =>
    intro r' a a' ha ha' hr hr' h
    cases r' with
    | nil =>
      exfalso
      apply ha'
      simp only [joinTail, List.append_nil, sepG] at h
      rw [← h]; simp
    | cons b' t' =>
      simp only [joinTail, sepG] at h
      have h' : (a ++ [',']) ++ ' ' :: (b ++ joinTail sepG t) = (a' ++ [',']) ++ ' ' :: (b' ++ joinTail sepG t') := by
        simpa [sepG] using h
      have hc : ' ' ∉ a ++ [','] := by
        intro hm; rcases List.mem_append.mp hm with hm | hm
        · exact ha hm
        · simp at hm
      have hc' : ' ' ∉ a' ++ [','] := by
        intro hm; rcases List.mem_append.mp hm with hm | hm
        · exact ha' hm
        · simp at hm
      obtain ⟨e1, e2⟩ := append_blank_inj _ _ _ _ hc hc' h'
      have ea : a = a' := List.append_cancel_right e1
      obtain ⟨eb, et⟩ := ih t' b b' (hr b (by simp)) (hr' b' (by simp))
        (fun x hx => hr x (List.mem_cons_of_mem _ hx)) (fun x hx => hr' x (List.mem_cons_of_mem _ hx)) e2
      exact ⟨ea, by rw [eb, et]⟩

/-- `", ".join` is injective on non-empty lists of blank-free names -/
theorem nameOf_injective (k k' : GKey (List Char)) (hk : k ≠ []) (hk' : k' ≠ [])
    (hb : ∀ x ∈ k, ' ' ∉ x) (hb' : ∀ x ∈ k', ' ' ∉ x) (h : nameOf k = nameOf k') : k = k' := by
  cases k with
  | nil => exact absurd rfl hk
  | cons a r =>
    cases k' with
    | nil => exact absurd rfl hk'
    | cons a' r' =>
      obtain ⟨e1, e2⟩ := joinG_inj_aux r r' a a' (hb a (by simp)) (hb' a' (by simp))
        (fun x hx => hb x (List.mem_cons_of_mem _ hx)) (fun x hx => hb' x (List.mem_cons_of_mem _ hx)) h
      rw [e1, e2]

/-! ## the order of `sorted` on strings -/

theorem strLe_refl (a : List Char) : strLe a a = true := by
  induction a with
  | nil => simp [strLe]
  | cons x xs ih => simp [strLe, ih]

theorem strLe_total (a b : List Char) : strLe a b = true ∨ strLe b a = true := by
  induction a generalizing b with
  | nil => left; simp [strLe]
  | cons x xs ih =>
    cases b with
    | nil => right; simp [strLe]
    | cons y ys =>
      by_cases hxy : x = y
      · subst hxy; simpa [strLe] using ih ys
      · have hyx : ¬ y = x := fun h => hxy h.symm
        simp only [strLe, hxy, hyx, if_false, decide_eq_true_eq]
        exact Char.le_total x y

theorem strLe_antisymm (a b : List Char) (h1 : strLe a b = true) (h2 : strLe b a = true) : a = b := by
  induction a generalizing b with
  | nil =>
    cases b with
    | nil => rfl
    | cons y ys => simp [strLe] at h2
  | cons x xs ih =>
    cases b with
    | nil => simp [strLe] at h1
    | cons y ys =>
      by_cases hxy : x = y
      · subst hxy
        simp only [strLe, if_true] at h1 h2
        rw [ih ys h1 h2]
      · have hyx : ¬ y = x := fun h => hxy h.symm
        simp only [strLe, hxy, hyx, if_false, decide_eq_true_eq] at h1 h2
        exact absurd (Char.le_antisymm h1 h2) hxy

theorem strLe_trans (a b c : List Char) (h1 : strLe a b = true) (h2 : strLe b c = true) :
    strLe a c = true := by
  induction a generalizing b c with
  | nil => simp [strLe]
  | cons x xs ih =>
    cases b with
    | nil => simp [strLe] at h1
    | cons y ys =>
      cases c with
      | nil => simp [strLe] at h2
      | cons z zs =>
        by_cases hxy : x = y
        · subst hxy
          by_cases hxz : x = z
          · subst hxz
            simp only [strLe, if_true] at h1 h2 ⊢
            exact ih ys zs h1 h2
          · simp only [strLe, if_true, hxz, if_false] at h1 h2 ⊢
            exact h2
        · by_cases hyz : y = z
          · subst hyz
            simp only [strLe, hxy, if_false] at h1 ⊢
            exact h1
          · simp only [strLe, hxy, hyz, if_false, decide_eq_true_eq] at h1 h2
            have hxz : x ≠ z := by
              intro e; subst e
              exact hxy (Char.le_antisymm h1 h2)
            simp only [strLe, hxz, if_false, decide_eq_true_eq]
            exact Char.le_trans h1 h2

theorem sortStrs_perm (l : List (List Char)) : (sortStrs l).Perm l := List.mergeSort_perm _ _

theorem sortStrs_sorted (l : List (List Char)) : (sortStrs l).Pairwise (fun a b => strLe a b = true) :=
  List.pairwise_mergeSort (fun a b c => strLe_trans a b c)
    (fun a b => by rcases strLe_total a b with h | h <;> simp [h]) l

/-- `sorted` is canonical: it depends on the *set* handed to it only, not on its enumeration -/
theorem sortStrs_congr {l l' : List (List Char)} (h : l.Perm l') : sortStrs l = sortStrs l' :=
  List.Perm.eq_of_pairwise (fun a b _ _ h1 h2 => strLe_antisymm a b h1 h2)
    (sortStrs_sorted l) (sortStrs_sorted l')
    ((sortStrs_perm l).trans (h.trans (sortStrs_perm l').symm))

/-! ## repeated entries with the same peptide set -/

theorem dictSet_same (d : List (Prot α β)) (hnd : (d.map (·.1)).Nodup) (k : α) (v : List β)
    (h : (k, v) ∈ d) : dictSet d k v = d := by
  unfold dictSet
  have hany : d.any (fun e => decide (e.1 = k)) = true := by
    rw [List.any_eq_true]; exact ⟨(k, v), h, by simp⟩
  simp only [hany, if_true]
  have : ∀ e ∈ d, (if e.1 = k then (k, v) else e) = e := by
    intro e he
    split
    · rename_i hk
      obtain ⟨q, S⟩ := e
      simp only at hk
      subst hk
      rw [val_unique d hnd q S v he h]
    · rfl
  calc d.map (fun e => if e.1 = k then (k, v) else e) = d.map id := List.map_congr_left this
    _ = d := List.map_id _

theorem foldl_dictSet_consistent (l : List (Prot α β)) : ∀ (acc : List (Prot α β)),
    (acc.map (·.1)).Nodup →
    (∀ q S S', (q, S) ∈ acc ++ l → (q, S') ∈ acc ++ l → S = S') →
    ((l.foldl (fun d e => dictSet d e.1 e.2) acc).map (·.1)).Nodup ∧
      ∀ e, e ∈ l.foldl (fun d e => dictSet d e.1 e.2) acc ↔ e ∈ acc ∨ e ∈ l := by
  induction l with
  | nil => intro acc h _; simp [h]
  | cons e l ih =>
    intro acc hnd hc
    obtain ⟨q, S⟩ := e
    simp only [List.foldl_cons]
    by_cases hk : q ∈ acc.map (·.1)
    · obtain ⟨S', hS'⟩ := exists_mem_of_mem_map_fst _ _ hk
      have e1 : S' = S := hc q S' S (List.mem_append_left _ hS') (by simp)
      subst e1
      rw [dictSet_same acc hnd q S' hS']
      obtain ⟨h1, h2⟩ := ih acc hnd (by
        intro q' A B hA hB
        apply hc q' A B
        · rcases List.mem_append.mp hA with h | h
          · exact List.mem_append_left _ h
          · exact List.mem_append_right _ (List.mem_cons_of_mem _ h)
        · rcases List.mem_append.mp hB with h | h
          · exact List.mem_append_left _ h
          · exact List.mem_append_right _ (List.mem_cons_of_mem _ h))
      refine ⟨h1, fun e => ?_⟩
      rw [h2 e, List.mem_cons]
      constructor
      · rintro (h | h)
        · exact Or.inl h
        · exact Or.inr (Or.inr h)
      · rintro (h | rfl | h)
        · exact Or.inl h
        · exact Or.inl hS'
        · exact Or.inr h
    · rw [dictSet_new _ _ _ hk]
      obtain ⟨h1, h2⟩ := ih (acc ++ [(q, S)]) (by
          rw [List.map_append, List.nodup_append]
          refine ⟨hnd, by simp, ?_⟩
          intro a ha b hb
          simp only [List.map_cons, List.map_nil, List.mem_singleton] at hb
          subst hb
          intro e; exact hk (e ▸ ha))
        (by
          intro q' A B hA hB
          apply hc q' A B
          · simpa using hA
          · simpa using hB)
      refine ⟨h1, fun e => ?_⟩
      rw [h2 e]
      simp only [List.mem_append, List.mem_cons, List.not_mem_nil, or_false]
      constructor
      · rintro ((h | h) | h)
        · exact Or.inl h
        · exact Or.inr (Or.inl h)
        · exact Or.inr (Or.inr h)
      · rintro (h | h | h)
        · exact Or.inl (Or.inl h)
        · exact Or.inl (Or.inr h)
        · exact Or.inr h

/-- entries of the same name carry the same peptide set: the `proteins` dict holds every protein
with peptides once -/
theorem buildProteins_consistent (entries : List (Prot α β))
    (hc : ∀ q S S', (q, S) ∈ protsOf entries → (q, S') ∈ protsOf entries → S = S') :
    ((buildProteins entries).map (·.1)).Nodup ∧
      ∀ e, e ∈ buildProteins entries ↔ e ∈ protsOf entries := by
  have := foldl_dictSet_consistent (protsOf entries) [] (by simp) (by simpa using hc)
  have e : buildProteins entries = (protsOf entries).foldl (fun d e => dictSet d e.1 e.2) [] := rfl
  rw [e]
  refine ⟨this.1, fun x => ?_⟩
  rw [this.2 x]
  simp

theorem IsPepIndex.congr {P P' : List (Prot α β)} {pmW : List (PepEntry α β)}
    (hmem : ∀ e, e ∈ P ↔ e ∈ P') (h : IsPepIndex P pmW) : IsPepIndex P' pmW := by
  refine ⟨h.keys_nodup, ?_, ?_⟩
  · intro q S hq; exact h.complete q S ((hmem _).mpr hq)
  · intro p ks hp
    obtain ⟨h1, h2⟩ := h.sets p ks hp
    refine ⟨h1, fun key => ?_⟩
    rw [h2 key]
    constructor
    · rintro ⟨q, S, hq, r⟩; exact ⟨q, S, (hmem _).mp hq, r⟩
    · rintro ⟨q, S, hq, r⟩; exact ⟨q, S, (hmem _).mpr hq, r⟩

theorem consistent_of_B (entries : List (Prot α β)) (h : consistentB entries = true) :
    ∀ q S S', (q, S) ∈ protsOf entries → (q, S') ∈ protsOf entries → S = S' := by
  intro q S S' h1 h2
  obtain ⟨m1, n1⟩ := (mem_protsOf _ _).mp h1
  obtain ⟨m2, n2⟩ := (mem_protsOf _ _).mp h2
  unfold consistentB at h
  rw [List.all_eq_true] at h
  have := h _ m1
  rw [List.all_eq_true] at this
  have := this _ m2
  simp only [decide_true, Bool.not_true, Bool.false_or, Bool.or_eq_true, List.isEmpty_iff,
    decide_eq_true_eq] at this
  simp only at n1 n2
  rcases this with (h | h) | h
  · exact absurd h n1
  · exact absurd h n2
  · exact h

/-! ## the observable values of two runs that differ in the enumeration only -/

section
variable {pm pm' : List (PepEntry α β)}
  (hk : pm.map (·.1) = pm'.map (·.1)) (hnd : (pm.map (·.1)).Nodup)
  (hp : ∀ p ks ks', (p, ks) ∈ pm → (p, ks') ∈ pm' → ks.Perm ks')
include hk hnd hp

theorem uniquePeps_enum_eq : uniquePeps pm = uniquePeps pm' := by
  rw [uniquePeps_eq_filterMap, uniquePeps_eq_filterMap]
  apply filterMap_eq_of_same_keys _ pm pm' hk hnd
  intro p ks ks' h1 h2
  have hperm := hp p ks ks' h1 h2
  have hl := hperm.length_eq
  simp only
  by_cases h : ks.length = 1
  · have h' : ks'.length = 1 := hl ▸ h
    simp only [h, h', if_true]
    rw [headD_of_perm_singleton hperm h]
  · have h' : ¬ ks'.length = 1 := fun e => h (hl ▸ e)
    simp only [h, h', if_false]

theorem sharedPeps_map_enum_eq {δ : Type} (f : PepEntry α β → δ)
    (hf : ∀ p ks ks', ks.Perm ks' → f (p, ks) = f (p, ks')) :
    (sharedPeps pm).map f = (sharedPeps pm').map f := by
  rw [sharedPeps_map_eq_filterMap, sharedPeps_map_eq_filterMap]
  apply filterMap_eq_of_same_keys _ pm pm' hk hnd
  intro p ks ks' h1 h2
  have hperm := hp p ks ks' h1 h2
  have hl := hperm.length_eq
  simp only
  by_cases h : ks.length = 1
  · have h' : ks'.length = 1 := hl ▸ h
    simp only [h, h', if_true]
  · have h' : ¬ ks'.length = 1 := fun e => h (hl ▸ e)
    simp only [h, h', if_false]
    rw [hf p ks ks' hperm]

end

theorem renderShared_enum_eq {pm pm' : List (PepEntry (List Char) β)}
    (hk : pm.map (·.1) = pm'.map (·.1)) (hnd : (pm.map (·.1)).Nodup)
    (hp : ∀ p ks ks', (p, ks) ∈ pm → (p, ks') ∈ pm' → ks.Perm ks')
    (sortS : List (List Char) → List (List Char)) (hcanon : ∀ l l', l.Perm l' → sortS l = sortS l') :
    renderShared sortS (sharedPeps pm) = renderShared sortS (sharedPeps pm') := by
  unfold renderShared
  apply sharedPeps_map_enum_eq hk hnd hp
  intro p ks ks' hperm
  simp only [sharedValue]
  rw [hcanon _ _ (hperm.map nameOf)]

/-! ## two runs on two `peptides` dicts of the same proteins (any key order, any set enumeration) -/

theorem groupProteinsOf_grouped_sub2 (enum enum' : Nat → List (GKey α) → List (GKey α))
    (henum : ∀ n s, (enum n s).Perm s) (henum' : ∀ n s, (enum' n s).Perm s)
    (P srt : List (Prot α β)) (pmW pmW' : List (PepEntry α β)) (hwf : WF P)
    (hidx : IsPepIndex P pmW) (hidx' : IsPepIndex P pmW')
    (hperm : srt.Perm P) (hsorted : srt.Pairwise (fun a b => b.2.length ≤ a.2.length))
    (k : GKey α) (S : List β) (hk : (k, S) ∈ (groupProteinsOf enum pmW srt).grouped) :
    (k, S) ∈ (groupProteinsOf enum' pmW' srt).grouped := by
  obtain ⟨hG, _, _⟩ := groupProteinsOf_inv enum henum P srt pmW hwf hidx hperm hsorted
  obtain ⟨hG', _, _⟩ := groupProteinsOf_inv enum' henum' P srt pmW' hwf hidx' hperm hsorted
  have hnames : (srt.map (·.1)).Nodup := (hperm.map (·.1)).nodup_iff.mpr hwf.names
  have hg := isGrouping_of_GI hG (fun e => hperm.mem_iff)
  have hg' := isGrouping_of_GI hG' (fun e => hperm.mem_iff)
  have hsg := isGrouping_unique hwf hwf (SameInput.of_perm (List.Perm.refl _)) hg hg'
  obtain ⟨k', S', hk', _, hSS'⟩ := hsg.1 k S hk
  have e1 := groupProteinsOf_key enum henum P srt pmW hwf hidx hperm hsorted k S hk
  have e2 := groupProteinsOf_key enum' henum' P srt pmW' hwf hidx' hperm hsorted k' S' hk'
  have ekk : k' = k := by rw [e1, e2]; exact (membersInOrder_congr srt hSS').symm
  rw [ekk] at hk'
  obtain ⟨q, hq1, hq2⟩ := hG.founder k S hk
  obtain ⟨q', hq1', hq2'⟩ := hG'.founder k S' hk'
  rw [hq1] at hq1'
  simp only [Option.some.injEq] at hq1'
  rw [← hq1'] at hq2'
  have : S = S' := val_unique _ hnames _ _ _ hq2 hq2'
  rw [this]; exact hk'

theorem groupProteinsOf_index_exact (enum enum' : Nat → List (GKey α) → List (GKey α))
    (henum : ∀ n s, (enum n s).Perm s) (henum' : ∀ n s, (enum' n s).Perm s)
    (P srt : List (Prot α β)) (pmW pmW' : List (PepEntry α β)) (hwf : WF P)
    (hidx : IsPepIndex P pmW) (hidx' : IsPepIndex P pmW')
    (hperm : srt.Perm P) (hsorted : srt.Pairwise (fun a b => b.2.length ≤ a.2.length)) :
    (∀ k S, (k, S) ∈ (groupProteinsOf enum pmW srt).grouped ↔ (k, S) ∈ (groupProteinsOf enum' pmW' srt).grouped) ∧
    ∀ p ks ks', (p, ks) ∈ (groupProteinsOf enum pmW srt).pepmap →
      (p, ks') ∈ (groupProteinsOf enum' pmW' srt).pepmap → ks.Perm ks' := by
  have hiff : ∀ k S, (k, S) ∈ (groupProteinsOf enum pmW srt).grouped ↔
      (k, S) ∈ (groupProteinsOf enum' pmW' srt).grouped := fun k S =>
    ⟨groupProteinsOf_grouped_sub2 enum enum' henum henum' P srt pmW pmW' hwf hidx hidx' hperm hsorted k S,
     groupProteinsOf_grouped_sub2 enum' enum henum' henum P srt pmW' pmW hwf hidx' hidx hperm hsorted k S⟩
  refine ⟨hiff, ?_⟩
  intro p ks ks' h1 h2
  obtain ⟨_, hP, _⟩ := groupProteinsOf_inv enum henum P srt pmW hwf hidx hperm hsorted
  obtain ⟨_, hP', _⟩ := groupProteinsOf_inv enum' henum' P srt pmW' hwf hidx' hperm hsorted
  obtain ⟨n1, m1⟩ := (isGroupIndex_of_PI hP).sets p ks h1
  obtain ⟨n2, m2⟩ := (isGroupIndex_of_PI hP').sets p ks' h2
  rw [List.perm_ext_iff_of_nodup n1 n2]
  intro key
  rw [m1 key, m2 key]
  constructor
  · rintro ⟨S, hS, hp⟩; exact ⟨S, (hiff key S).mp hS, hp⟩
  · rintro ⟨S, hS, hp⟩; exact ⟨S, (hiff key S).mpr hS, hp⟩

theorem mem_renderShared (sortS : List (List Char) → List (List Char)) (pm : List (PepEntry (List Char) β))
    (p : β) (v : List Char) :
    (p, v) ∈ renderShared sortS (sharedPeps pm) ↔
      ∃ ks, (p, ks) ∈ pm ∧ ks.length ≠ 1 ∧ v = sharedValue sortS ks := by
  unfold renderShared
  simp only [List.mem_map, Prod.mk.injEq]
  constructor
  · rintro ⟨⟨p', ks⟩, he, rfl, rfl⟩
    obtain ⟨h1, h2⟩ := (mem_sharedPeps _ _).mp he
    exact ⟨ks, h1, h2, rfl⟩
  · rintro ⟨ks, h1, h2, rfl⟩
    exact ⟨(p, ks), (mem_sharedPeps _ _).mpr ⟨h1, h2⟩, rfl, rfl⟩

/-- the two peptide dicts, *as dicts* (key ↦ value), computed from two index dicts that hold the same
keys and, under each key, permutations of the same set -/
theorem peptide_dicts_eq_of_perm {pm pm' : List (PepEntry (List Char) β)}
    (hkeys : ∀ p, p ∈ pm.map (·.1) → p ∈ pm'.map (·.1))
    (hp : ∀ p ks ks', (p, ks) ∈ pm → (p, ks') ∈ pm' → ks.Perm ks')
    (sortS : List (List Char) → List (List Char)) (hcanon : ∀ l l', l.Perm l' → sortS l = sortS l') :
    (∀ p k, (p, k) ∈ uniquePeps pm → (p, k) ∈ uniquePeps pm') ∧
    (∀ p v, (p, v) ∈ renderShared sortS (sharedPeps pm) → (p, v) ∈ renderShared sortS (sharedPeps pm')) := by
  constructor
  · intro p k h
    rw [mem_uniquePeps] at h ⊢
    obtain ⟨ks', hks'⟩ := exists_mem_of_mem_map_fst _ _ (hkeys p (List.mem_map.mpr ⟨(p, [k]), h, rfl⟩))
    have := hp p [k] ks' h hks'
    rw [List.perm_singleton.mp this.symm] at hks'
    exact hks'
  · intro p v h
    rw [mem_renderShared] at h ⊢
    obtain ⟨ks, h1, h2, rfl⟩ := h
    obtain ⟨ks', hks'⟩ := exists_mem_of_mem_map_fst _ _ (hkeys p (List.mem_map.mpr ⟨(p, ks), h1, rfl⟩))
    have hperm := hp p ks ks' h1 hks'
    refine ⟨ks', hks', fun e => h2 (hperm.length_eq ▸ e), ?_⟩
    simp only [sharedValue]
    rw [hcanon _ _ (hperm.map nameOf)]

end Mk.Grouping
