import MokapotVerif.Lemmas.FitLabels
/-!
# Lemmas for the re-fit entry point: `runFrom` / `refitFrom` under another shuffle switch or draw
-/
namespace Mk.Fit
variable {α β ρ θ ν : Type}

/-- the part of `Model.fit` after the start labels (zero-iteration check, loop, final check) has the
same outcome for any two shuffle settings / draws when `fit` ignores the order of its examples -/
theorem runFrom_shuffle_invariant (est : Est ρ α θ) (hfit : PermInvariant est) (le : α → α → Bool) (thr : Rat)
    (cfg1 cfg2 : FitCfg) (hit : cfg1.maxIter = cfg2.maxIter) (hov : cfg1.override = cfg2.override) (th0 : θ)
    (rows : List ρ) (targets : List Bool) (st : Start) (hr : rows.length = targets.length)
    (hlen : st.labels.length = rows.length)
    (hp1 : cfg1.perm.Perm (List.range rows.length)) (hp2 : cfg2.perm.Perm (List.range rows.length)) :
    (runFrom est le thr cfg1 th0 rows targets st).status = (runFrom est le thr cfg2 th0 rows targets st).status ∧
    (runFrom est le thr cfg1 th0 rows targets st).theta = (runFrom est le thr cfg2 th0 rows targets st).theta ∧
    List.Forall₂ List.Perm (runFrom est le thr cfg1 th0 rows targets st).trace
      (runFrom est le thr cfg2 th0 rows targets st).trace := by
  have hrel : ∀ sc : List α, sc.length = rows.length → (tdcRelabel le thr targets sc).length = rows.length := by
    intro sc hsc; rw [tdcRelabel_length, hsc, hr]; simp
  simp only [runFrom, ← hit, ← hov]
  split
  · exact ⟨rfl, rfl, List.Forall₂.nil⟩
  rw [fitLoop_eq_specGo est _ cfg1.shuffle cfg1.perm cfg1.maxIter th0 rows st.labels hp1 hlen hrel,
    fitLoop_eq_specGo est _ cfg2.shuffle cfg2.perm cfg1.maxIter th0 rows st.labels hp2 hlen hrel]
  have h1 : (if cfg1.shuffle = true then cfg1.perm else List.range rows.length).Perm (List.range rows.length) := by
    split; exact hp1; exact List.Perm.refl _
  have h2 : (if cfg2.shuffle = true then cfg2.perm else List.range rows.length).Perm (List.range rows.length) := by
    split; exact hp2; exact List.Perm.refl _
  obtain ⟨hf, ht⟩ := specGo_order_invariant est hfit (tdcRelabel le thr targets) _ _ (h1.trans h2.symm) rows
    cfg1.maxIter th0 st.labels
  unfold afterLoop
  rw [← hf]
  cases (specGo est (tdcRelabel le thr targets) (if cfg1.shuffle = true then cfg1.perm else List.range rows.length) rows
      cfg1.maxIter th0 st.labels).final with
  | none => exact ⟨rfl, rfl, ht⟩
  | some res =>
    simp only [Option.map_some, Option.getD_some, finish]
    split
    · exact ⟨rfl, rfl, ht⟩
    · exact ⟨rfl, rfl, ht⟩

/-- the start labels of a re-fit have one entry per PSM -/
theorem trainedStart_length (le : α → α → Bool) (thr : Rat) (targets : List Bool) (scores : List α) (st : Start)
    (hs : scores.length = targets.length) (h : trainedStart le thr targets scores = some st) :
    st.labels.length = targets.length := by
  unfold trainedStart at h
  split at h
  · simp at h
  · simp only [Option.some.injEq] at h
    subst h
    rw [tdcRelabel_length, hs]
    simp

theorem rowsOf_length {γ : Type} (n : Nat) (cols : List (List γ)) : (rowsOf n cols).length = n := by
  simp [rowsOf]

theorem predictByName_length [DecidableEq ν] (score : List β → α) (stored : List ν) (n : Nat)
    (cols : List (ν × List β)) (sc : List α) (h : predictByName score stored n cols = some sc) : sc.length = n := by
  unfold predictByName at h
  cases hsel : selectByName stored cols with
  | none => simp [hsel] at h
  | some sel =>
    simp only [hsel, Option.map_some, Option.some.injEq] at h
    subst h
    simp [rowsOf_length]

end Mk.Fit
