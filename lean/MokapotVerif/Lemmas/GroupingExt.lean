import MokapotVerif.Lemmas.GroupingSpec
import MokapotVerif.Lemmas.DigestSpec
import MokapotVerif.Model.GroupingExt
/-! Helper lemmas for the extensions of the grouping model (C16): `_group_proteins` as an
entry point, the digest loop, decoy names by prefix. -/
set_option linter.unusedSectionVars false
namespace Mk.Grouping
variable {α β : Type} [DecidableEq α] [DecidableEq β]

/-! ### A. `_group_proteins` as an entry point -/

theorem PI_of_isPepIndex {P srt : List (Prot α β)} {pmW : List (PepEntry α β)}
    (h : IsPepIndex P pmW) (hmem : ∀ e, e ∈ srt ↔ e ∈ P) : PI ⟨[], pmW⟩ srt := by
  constructor
  · exact h.keys_nodup
  · intro p ks hp
    obtain ⟨h1, h2⟩ := h.sets p ks hp
    refine ⟨h1, fun key => ?_⟩
    rw [h2 key]
    unfold InG InT
    constructor
    · rintro ⟨q, S, hq, rfl, hpS⟩; exact Or.inr ⟨q, S, (hmem _).mpr hq, rfl, hpS⟩
    · rintro (⟨S, hk, _⟩ | ⟨q, S, hq, rfl, hpS⟩)
      · simp at hk
      · exact ⟨q, S, (hmem _).mp hq, rfl, hpS⟩

theorem groupProteinsOf_inv (enum : Nat → List (GKey α) → List (GKey α)) (henum : ∀ n s, (enum n s).Perm s)
    (P srt : List (Prot α β)) (pmW : List (PepEntry α β)) (hwf : WF P) (hidx : IsPepIndex P pmW)
    (hperm : srt.Perm P) (hsorted : srt.Pairwise (fun a b => b.2.length ≤ a.2.length)) :
    GI (groupProteinsOf enum pmW srt).grouped srt [] [] ∧ PI (groupProteinsOf enum pmW srt) [] ∧
      groupGoSafe enum ⟨[], pmW⟩ srt = true := by
  have := groupGo_inv enum henum srt [] ⟨[], pmW⟩
    (by simpa using (hperm.map (·.1)).nodup_iff.mpr hwf.names)
    (by
      intro q S hq
      simp only [List.nil_append] at hq
      exact hwf.peps q S (hperm.mem_iff.mp hq))
    (by simpa using hsorted)
    (by
      intro q S hq p hp
      simp only [List.nil_append] at hq
      exact hidx.complete q S (hperm.mem_iff.mp hq) p hp)
    GI_nil (PI_of_isPepIndex hidx (fun e => hperm.mem_iff))
  simpa [groupProteinsOf] using this

theorem isGroupIndex_of_PI {st : St α β} (h : PI st []) : IsGroupIndex st.grouped st.pepmap := by
  refine ⟨h.keys, fun p ks hp => ?_⟩
  obtain ⟨h1, h2⟩ := h.pm p ks hp
  refine ⟨h1, fun k => ?_⟩
  rw [h2 k]
  unfold InG InT
  constructor
  · rintro (h | ⟨q, S, hq, _⟩)
    · exact h
    · simp at hq
  · intro h; exact Or.inl h

theorem isPepIndex_pepmap0 (entries : List (Prot α β)) :
    IsPepIndex (protsOf entries) (pepmap0 entries) := by
  have hP := PI_init entries (protsOf entries) (fun e => mem_protsOf entries e)
  refine ⟨hP.keys, ?_, ?_⟩
  · intro q S hq p hp
    rw [pepmap0_keys, mem_allPeps]
    exact ⟨q, S, ((mem_protsOf _ _).mp hq).1, hp⟩
  · intro p ks hp
    obtain ⟨h1, h2⟩ := hP.pm p ks hp
    refine ⟨h1, fun key => ?_⟩
    rw [h2 key]
    unfold InG InT
    constructor
    · rintro (⟨S, hk, _⟩ | h)
      · simp at hk
      · exact h
    · intro h; exact Or.inr h

theorem wrapIndex_keys (pm : List (β × List α)) : (wrapIndex pm).map (·.1) = pm.map (·.1) := by
  simp [wrapIndex, List.map_map, Function.comp_def]

theorem isPepIndex_wrapIndex {P : List (Prot α β)} {pm : List (β × List α)} (h : IsRawIndex P pm) :
    IsPepIndex P (wrapIndex pm) := by
  refine ⟨by rw [wrapIndex_keys]; exact h.keys_nodup, ?_, ?_⟩
  · intro q S hq p hp; rw [wrapIndex_keys]; exact h.complete q S hq p hp
  · intro p ks hp
    simp only [wrapIndex, List.mem_map, Prod.mk.injEq] at hp
    obtain ⟨⟨p', qs⟩, hmem, rfl, rfl⟩ := hp
    obtain ⟨h1, h2⟩ := h.sets p' qs hmem
    refine ⟨h1.map (fun a b hab => by simpa using hab), fun key => ?_⟩
    simp only [List.mem_map]
    constructor
    · rintro ⟨q, hq, rfl⟩
      obtain ⟨S, hS, hp⟩ := (h2 q).mp hq
      exact ⟨q, S, hS, rfl, hp⟩
    · rintro ⟨q, S, hS, rfl, hp⟩
      exact ⟨q, (h2 q).mpr ⟨S, hS, hp⟩, rfl⟩

theorem isRawIndex_of_B {P : List (Prot α β)} {pm : List (β × List α)} (h : isRawIndexB P pm = true) :
    IsRawIndex P pm := by
  unfold isRawIndexB at h
  simp only [Bool.and_eq_true, decide_eq_true_eq, List.all_eq_true, List.any_eq_true, Bool.or_eq_true,
    Bool.not_eq_true', decide_eq_false_iff_not] at h
  obtain ⟨⟨h1, h2⟩, h3⟩ := h
  refine ⟨h1, ?_, ?_⟩
  · intro q S hq p hp
    obtain ⟨x, hx, rfl⟩ := h2 (q, S) hq p hp
    exact List.mem_map.mpr ⟨x, hx, rfl⟩
  · intro p qs hp
    obtain ⟨⟨h4, h5⟩, h6⟩ := h3 (p, qs) hp
    refine ⟨h4, fun q => ⟨fun hq => ?_, ?_⟩⟩
    · obtain ⟨⟨q', S⟩, he, rfl, hpS⟩ := h5 q hq
      exact ⟨S, he, hpS⟩
    · rintro ⟨S, he, hpS⟩
      rcases h6 (q, S) he with h | h
      · exact absurd hpS h
      · exact h

theorem sortDesc_perm (P : List (Prot α β)) : (sortDesc P).Perm P := List.mergeSort_perm _ _

theorem sortDesc_sorted (P : List (Prot α β)) :
    (sortDesc P).Pairwise (fun a b => b.2.length ≤ a.2.length) := by
  have h := List.pairwise_mergeSort
    (le := fun (a b : Prot α β) => decide (b.2.length ≤ a.2.length))
    (fun a b c hab hbc => by
      simp only [decide_eq_true_eq] at *
      omega)
    (fun a b => by
      simp only [Bool.or_eq_true, decide_eq_true_eq]
      omega) P
  exact h.imp (fun hab => by simpa using hab)

theorem mem_groupIndexOf (gs : List (Group α β)) (keys : List β) (p : β) (ks : List (GKey α)) :
    (p, ks) ∈ groupIndexOf gs keys ↔ p ∈ keys ∧ ks = (groupsOf gs p).map (·.1) := by
  simp only [groupIndexOf, List.mem_map, Prod.mk.injEq]
  constructor
  · rintro ⟨p', hp', rfl, rfl⟩; exact ⟨hp', rfl⟩
  · rintro ⟨hp, rfl⟩; exact ⟨p, hp, rfl, rfl⟩

/-! ### B. the digest loop -/

theorem toSet_isEmpty {γ : Type} [DecidableEq γ] (l : List γ) : (toSet l).isEmpty = l.isEmpty := by
  cases l with
  | nil => rfl
  | cons a t =>
    have h : a ∈ toSet (a :: t) := (mem_toSet _ _).mpr List.mem_cons_self
    cases hs : toSet (a :: t) with
    | nil => rw [hs] at h; cases h
    | cons _ _ => rfl

theorem protsOf_digestEntries {σ : Type} (dig : σ → List β) (fasta : List (α × σ)) :
    protsOf (digestEntries dig fasta) =
      (fasta.filter (fun e => !(dig e.2).isEmpty)).map (fun e => (e.1, toSet (dig e.2))) := by
  unfold protsOf digestEntries
  rw [List.filter_map]
  congr 1
  apply List.filter_congr
  intro e _
  simp [toSet_isEmpty]

theorem mem_protsOf_digestEntries {σ : Type} (dig : σ → List β) (fasta : List (α × σ)) (q : α) (S : List β) :
    (q, S) ∈ protsOf (digestEntries dig fasta) ↔
      ∃ seq, (q, seq) ∈ fasta ∧ dig seq ≠ [] ∧ S = toSet (dig seq) := by
  rw [protsOf_digestEntries]
  simp only [List.mem_map, List.mem_filter, Prod.mk.injEq, Bool.not_eq_true', List.isEmpty_eq_false_iff]
  constructor
  · rintro ⟨⟨q', seq⟩, ⟨he, hne⟩, rfl, rfl⟩; exact ⟨seq, he, hne, rfl⟩
  · rintro ⟨seq, he, hne, rfl⟩; exact ⟨(q, seq), ⟨he, hne⟩, rfl, rfl⟩

theorem wf_digestEntries {σ : Type} (dig : σ → List β) (fasta : List (α × σ))
    (hnames : ((fasta.filter (fun e => !(dig e.2).isEmpty)).map (·.1)).Nodup) :
    WF (protsOf (digestEntries dig fasta)) := by
  constructor
  · rw [protsOf_digestEntries, List.map_map]
    exact hnames
  · intro q S hq
    obtain ⟨seq, _, hne, rfl⟩ := (mem_protsOf_digestEntries dig fasta q S).mp hq
    refine ⟨?_, nodup_toSet _⟩
    intro h0
    have := toSet_isEmpty (dig seq)
    rw [h0] at this
    cases hd : dig seq with
    | nil => exact hne hd
    | cons _ _ => rw [hd] at this; cases this

theorem protsOf_digestEntries_perm {σ : Type} (dig : σ → List β) {fasta fasta' : List (α × σ)}
    (h : fasta.Perm fasta') :
    (protsOf (digestEntries dig fasta)).Perm (protsOf (digestEntries dig fasta')) := by
  rw [protsOf_digestEntries, protsOf_digestEntries]
  exact (h.filter _).map _

/-! ### C. decoy names by prefix -/

theorem isDecoyPre_iff (pre name : List Char) : isDecoyPre pre name = true ↔ pre <+: name := by
  unfold isDecoyPre
  exact List.isPrefixOf_iff_prefix

theorem isDecoyPre_mkDecoyPre (pre name : List Char) : isDecoyPre pre (mkDecoyPre pre name) = true := by
  rw [isDecoyPre_iff]
  exact List.prefix_append _ _

theorem mkDecoyPre_injective (pre : List Char) {a b : List Char} (h : mkDecoyPre pre a = mkDecoyPre pre b) :
    a = b := List.append_cancel_left h

theorem isDecoyPre_nil (name : List Char) : isDecoyPre [] name = true := by
  rw [isDecoyPre_iff]; exact List.nil_prefix

end Mk.Grouping
