import MokapotVerif.Model.Qvalues
import Mathlib.Order.Lattice
import Mathlib.Algebra.Order.Field.Rat
import Mathlib.Tactic.Linarith
/-! Helper lemmas for C01: the sweep `go` equals the defining formula on every
best-first sorted list. -/
namespace Mk
variable {α : Type}

theorem le_minOver_iff (r : Rat) (ys : List Rat) :
    r ≤ minOver ys ↔ r ≤ 1 ∧ ∀ y ∈ ys, r ≤ y := by
  induction ys with
  | nil => simp [minOver]
  | cons y ys ih =>
    have : minOver (y :: ys) = min y (minOver ys) := rfl
    rw [this, le_min_iff, ih]
    constructor
    · rintro ⟨h1, h2, h3⟩; exact ⟨h2, by intro z hz; rcases List.mem_cons.mp hz with rfl | hz; exact h1; exact h3 z hz⟩
    · rintro ⟨h1, h2⟩; exact ⟨h2 y (by simp), h1, fun z hz => h2 z (by simp [hz])⟩

theorem minOver_congr_set {ys zs : List Rat} (h1 : ∀ y ∈ ys, ∃ z ∈ zs, z ≤ y) (h2 : ∀ z ∈ zs, ∃ y ∈ ys, y ≤ z) :
    minOver ys = minOver zs := by
  apply le_antisymm
  · rw [le_minOver_iff]; refine ⟨((le_minOver_iff _ _).mp le_rfl).1, fun z hz => ?_⟩
    obtain ⟨y, hy, hyz⟩ := h2 z hz
    exact le_trans (((le_minOver_iff _ _).mp le_rfl).2 y hy) hyz
  · rw [le_minOver_iff]; refine ⟨((le_minOver_iff _ _).mp le_rfl).1, fun y hy => ?_⟩
    obtain ⟨z, hz, hzy⟩ := h1 y hy
    exact le_trans (((le_minOver_iff _ _).mp le_rfl).2 z hz) hzy

def netails {β : Type} : List β → List (List β)
  | [] => []
  | x :: xs => (x :: xs) :: netails xs

theorem mem_of_mem_netails {β : Type} {l tl : List β} (h : tl ∈ netails l) : ∀ y ∈ tl, y ∈ l := by
  induction l with
  | nil => simp [netails] at h
  | cons x xs ih =>
    simp only [netails, List.mem_cons] at h
    rcases h with rfl | h
    · intro y hy; exact hy
    · intro y hy; exact List.mem_cons_of_mem _ (ih h y hy)

def G (le : α → α → Bool) (T D : Nat) (suf : List (α × Bool)) (y : α × Bool) : Rat :=
  fdrRaw (T + cntT le suf y.1) (D + cntD le suf y.1)

structure TotalPre (le : α → α → Bool) : Prop where
  total : ∀ a b, le a b = true ∨ le b a = true
  trans : ∀ a b c, le a b = true → le b c = true → le a c = true

theorem TotalPre.refl {le : α → α → Bool} (h : TotalPre le) (a : α) : le a a = true := by
  rcases h.total a a with h | h <;> exact h

/-- best-first sorted -/
def SortedDesc (le : α → α → Bool) (l : List (α × Bool)) : Prop :=
  l.Pairwise (fun a b => le b.1 a.1 = true)

theorem cnt_cons_T (le : α → α → Bool) (x : α × Bool) (rest : List (α × Bool)) (t : α) :
    cntT le (x :: rest) t = cntT le rest t + (if le t x.1 && x.2 then 1 else 0) := by
  simp [cntT, List.countP_cons]

theorem cnt_cons_D (le : α → α → Bool) (x : α × Bool) (rest : List (α × Bool)) (t : α) :
    cntD le (x :: rest) t = cntD le rest t + (if le t x.1 && !x.2 then 1 else 0) := by
  simp [cntD, List.countP_cons]

theorem G_cons_of_le (le : α → α → Bool) (T D : Nat) (s : α) (b : Bool) (rest : List (α × Bool))
    (y : α × Bool) (hy : le y.1 s = true) :
    G le (step b T D).1 (step b T D).2 rest y = G le T D ((s, b) :: rest) y := by
  unfold G
  rw [cnt_cons_T, cnt_cons_D]
  cases b <;> simp [step, hy] <;> congr 1 <;> omega

theorem go_eq (le : α → α → Bool) (hle : TotalPre le) (suf : List (α × Bool)) :
    ∀ T D, SortedDesc le suf →
      go le T D suf = (netails suf).map (fun tl => minOver (tl.map (G le T D suf))) := by
  induction suf with
  | nil => intro T D _; simp [go, netails]
  | cons x rest ih =>
    intro T D hs
    obtain ⟨s, b⟩ := x
    have hs' : SortedDesc le rest := (List.pairwise_cons.mp hs).2
    have hhead : ∀ y ∈ rest, le y.1 s = true := (List.pairwise_cons.mp hs).1
    have ihr := ih (step b T D).1 (step b T D).2 hs'
    -- rewrite the tail with the outer G
    have htail : (netails rest).map (fun tl => minOver (tl.map (G le (step b T D).1 (step b T D).2 rest)))
        = (netails rest).map (fun tl => minOver (tl.map (G le T D ((s, b) :: rest)))) := by
      apply List.map_congr_left
      intro tl htl
      congr 1
      apply List.map_congr_left
      intro y hy
      exact G_cons_of_le le T D s b rest y (hhead y (mem_of_mem_netails htl y hy))
    have hm : (go le (step b T D).1 (step b T D).2 rest).headD 1
        = minOver (rest.map (G le T D ((s, b) :: rest))) := by
      rw [ihr, htail]
      cases rest with
      | nil => simp [netails, minOver]
      | cons x' r' => simp [netails]
    simp only [go, netails, List.map_cons]
    rw [hm]
    congr 1
    · -- head
      have hmin : minOver (G le T D ((s, b) :: rest) (s, b) :: rest.map (G le T D ((s, b) :: rest)))
          = min (G le T D ((s, b) :: rest) (s, b)) (minOver (rest.map (G le T D ((s, b) :: rest)))) := rfl
      rw [hmin]
      cases rest with
      | nil =>
        simp only [isEnd, if_true]
        congr 1
        unfold G
        rw [cnt_cons_T, cnt_cons_D]
        cases b <;> simp [step, cntT, cntD, hle.refl s]
      | cons x' r' =>
        obtain ⟨s', b'⟩ := x'
        by_cases hend : le s s' = true
        · -- tie: not a group end
          simp only [isEnd, hend, Bool.not_true, Bool.false_eq_true, if_false]
          have hs's : le s' s = true := hhead (s', b') (by simp)
          have hGeq : G le T D ((s, b) :: (s', b') :: r') (s, b) = G le T D ((s, b) :: (s', b') :: r') (s', b') := by
            unfold G cntT cntD
            have : ∀ y : α × Bool, le s y.1 = le s' y.1 := by
              intro y
              cases h1 : le s y.1 <;> cases h2 : le s' y.1 <;> try rfl
              · have := hle.trans _ _ _ hend h2; simp [h1] at this
              · have := hle.trans _ _ _ hs's h1; simp [h2] at this
            simp only [this]
          have hle' : minOver (((s', b') :: r').map (G le T D ((s, b) :: (s', b') :: r')))
              ≤ G le T D ((s, b) :: (s', b') :: r') (s, b) := by
            rw [hGeq]
            exact ((le_minOver_iff _ _).mp le_rfl).2 _ (by simp)
          exact (min_eq_right hle').symm
        · -- group end
          have hend' : le s s' = false := by simpa using hend
          simp only [isEnd, hend', Bool.not_false, if_true]
          congr 1
          unfold G
          rw [cnt_cons_T, cnt_cons_D]
          have hnone : ∀ y ∈ (s', b') :: r', le s y.1 = false := by
            intro y hy
            cases h : le s y.1 with
            | false => rfl
            | true =>
              have hys' : le y.1 s' = true := by
                rcases List.mem_cons.mp hy with rfl | hy
                · exact hle.refl _
                · exact (List.pairwise_cons.mp hs').1 y hy
              have := hle.trans _ _ _ h hys'
              simp [hend'] at this
          have h0T : cntT le ((s', b') :: r') s = 0 := by
            unfold cntT; rw [List.countP_eq_zero]; intro y hy; simp [hnone y hy]
          have h0D : cntD le ((s', b') :: r') s = 0 := by
            unfold cntD; rw [List.countP_eq_zero]; intro y hy; simp [hnone y hy]
          rw [h0T, h0D]
          cases b <;> simp [step, hle.refl s]
    · rw [ihr, htail]

theorem le_congr_of_tie {le : α → α → Bool} (hle : TotalPre le) {s s' : α}
    (h1 : le s s' = true) (h2 : le s' s = true) (y : α) : le s y = le s' y := by
  cases h3 : le s y <;> cases h4 : le s' y <;> try rfl
  · have := hle.trans _ _ _ h1 h4; simp [h3] at this
  · have := hle.trans _ _ _ h2 h3; simp [h4] at this

theorem G_tie {le : α → α → Bool} (hle : TotalPre le) (T D : Nat) (l : List (α × Bool))
    {a b : α × Bool} (h1 : le a.1 b.1 = true) (h2 : le b.1 a.1 = true) :
    G le T D l a = G le T D l b := by
  unfold G cntT cntD
  simp only [le_congr_of_tie hle h1 h2]

theorem G_zero (le : α → α → Bool) (l : List (α × Bool)) (y : α × Bool) :
    G le 0 0 l y = fdrRaw (cntT le l y.1) (cntD le l y.1) := by
  simp [G]

theorem tails_eq_filter (le : α → α → Bool) (hle : TotalPre le) (g : α × Bool → Rat)
    (hg : ∀ a b : α × Bool, le a.1 b.1 = true → le b.1 a.1 = true → g a = g b)
    (suf : List (α × Bool)) : ∀ pre : List (α × Bool), SortedDesc le (pre ++ suf) →
      (netails suf).map (fun tl => minOver (tl.map g))
        = suf.map (fun x => minOver (((pre ++ suf).filter (fun t => le t.1 x.1)).map g)) := by
  induction suf with
  | nil => intro pre _; simp [netails]
  | cons x rest ih =>
    intro pre hs
    simp only [netails, List.map_cons]
    congr 1
    · apply minOver_congr_set
      · intro y hy
        obtain ⟨z, hz, rfl⟩ := List.mem_map.mp (show y ∈ (x :: rest).map g by simpa using hy)
        refine ⟨g z, ?_, le_rfl⟩
        apply List.mem_map.mpr
        refine ⟨z, ?_, rfl⟩
        rw [List.mem_filter]
        refine ⟨by simp only [List.mem_append]; exact Or.inr hz, ?_⟩
        rcases List.mem_cons.mp hz with rfl | hz'
        · exact hle.refl _
        · have := (List.pairwise_append.mp hs).2.1
          exact (List.pairwise_cons.mp this).1 z hz'
      · intro y hy
        obtain ⟨z, hz, rfl⟩ := List.mem_map.mp hy
        rw [List.mem_filter] at hz
        obtain ⟨hzmem, hzle⟩ := hz
        rcases List.mem_append.mp hzmem with hzpre | hzsuf
        · -- z before x: tie
          have hxz : le x.1 z.1 = true := (List.pairwise_append.mp hs).2.2 z hzpre x (by simp)
          exact ⟨g x, by simp, le_of_eq (hg x z hxz (by simpa using hzle))⟩
        · exact ⟨g z, by rw [← List.map_cons]; exact List.mem_map.mpr ⟨z, hzsuf, rfl⟩, le_rfl⟩
    · have h := ih (pre ++ [x]) (by simpa using hs)
      simpa using h

theorem go_eq_spec_sorted (le : α → α → Bool) (hle : TotalPre le) (l : List (α × Bool))
    (hs : SortedDesc le l) : go le 0 0 l = l.map (fun x => qSpec le l x.1) := by
  rw [go_eq le hle l 0 0 hs]
  have h := tails_eq_filter le hle (G le 0 0 l) (fun a b h1 h2 => G_tie hle 0 0 l h1 h2) l [] (by simpa using hs)
  simp only [List.nil_append] at h
  rw [h]
  apply List.map_congr_left
  intro x _
  unfold qSpec
  congr 1
  apply List.map_congr_left
  intro y _
  exact G_zero le l y
end Mk
