import MokapotVerif.Lemmas.CalibrateFolds
/-! Helper lemmas for C11 (brew level, second part): the loop combinator `mapE`, the
decision-function gate of `_predict` (`predictFoldsDF`), the loop over collections
(`predictColls`) and the row-wise reading of `restrictTo`. -/
namespace Mk.Calibrate

/-! ## `mapE` -/

theorem mapE_ok {α β ε : Type} (g : α → Except ε β) : ∀ (L : List α) (vs : List β),
    mapE g L = Except.ok vs ↔ List.Forall₂ (fun a v => g a = Except.ok v) L vs := by
  intro L
  induction L with
  | nil =>
    intro vs
    simp only [mapE, Except.ok.injEq, List.forall₂_nil_left_iff]
    exact eq_comm
  | cons a rest ih =>
    intro vs
    simp only [mapE]
    cases ha : g a with
    | error e =>
      simp only [Except.bind]
      constructor
      · intro h; cases h
      · intro h
        cases h with
        | cons h1 _ => rw [ha] at h1; cases h1
    | ok v =>
      cases hr : mapE g rest with
      | error e =>
        simp only [Except.bind]
        constructor
        · intro h; cases h
        · intro h
          cases h with
          | cons _ h2 => rw [← ih, hr] at h2; cases h2
      | ok vs0 =>
        simp only [Except.bind, Except.ok.injEq]
        constructor
        · intro h
          subst h
          exact List.Forall₂.cons ha ((ih vs0).mp hr)
        · intro h
          cases h with
          | cons h1 h2 =>
            rw [ha] at h1
            rw [← ih, hr] at h2
            simp only [Except.ok.injEq] at h1 h2
            rw [h1, h2]

/-- a failing loop fails at its *first* failing element, with that element's error -/
theorem mapE_error {α β ε : Type} (g : α → Except ε β) (e : ε) : ∀ (L : List α),
    mapE g L = Except.error e →
      ∃ pre a post, L = pre ++ a :: post ∧ (∀ b ∈ pre, ∃ v, g b = Except.ok v) ∧ g a = Except.error e := by
  intro L
  induction L with
  | nil => intro h; simp [mapE] at h
  | cons a rest ih =>
    intro h
    simp only [mapE] at h
    cases ha : g a with
    | error e' =>
      rw [ha] at h
      simp only [Except.bind, Except.error.injEq] at h
      exact ⟨[], a, rest, rfl, by simp, by rw [ha, h]⟩
    | ok v =>
      rw [ha] at h
      cases hr : mapE g rest with
      | error e' =>
        rw [hr] at h
        simp only [Except.bind, Except.error.injEq] at h
        obtain ⟨pre, a', post, hL, hpre, ha'⟩ := ih (by rw [hr, h])
        refine ⟨a :: pre, a', post, by rw [hL]; rfl, ?_, ha'⟩
        intro b hb
        rcases List.mem_cons.mp hb with rfl | hb
        · exact ⟨v, ha⟩
        · exact hpre b hb
      | ok vs0 =>
        rw [hr] at h
        simp [Except.bind] at h

theorem mapE_error_of {α β ε : Type} (g : α → Except ε β) (e : ε) (a : α) (post : List α) :
    ∀ (pre : List α), (∀ b ∈ pre, ∃ v, g b = Except.ok v) → g a = Except.error e →
      mapE g (pre ++ a :: post) = Except.error e := by
  intro pre
  induction pre with
  | nil => intro _ ha; simp [mapE, ha, Except.bind]
  | cons b pre ih =>
    intro hpre ha
    obtain ⟨v, hv⟩ := hpre b (by simp)
    have := ih (fun x hx => hpre x (List.mem_cons_of_mem _ hx)) ha
    simp only [List.cons_append, mapE, hv, this, Except.bind]

theorem mapE_total {α β ε : Type} (g : α → Except ε β) (L : List α) :
    (∃ vs, mapE g L = Except.ok vs) ↔ ∀ a ∈ L, ∃ v, g a = Except.ok v := by
  constructor
  · rintro ⟨vs, h⟩ a ha
    have h2 := (mapE_ok g L vs).mp h
    clear h
    induction h2 with
    | nil => simp at ha
    | @cons x y l1 l2 hxy _ ih =>
      rcases List.mem_cons.mp ha with rfl | ha
      · exact ⟨y, hxy⟩
      · exact ih ha
  · intro h
    cases hc : mapE g L with
    | ok vs => exact ⟨vs, rfl⟩
    | error e =>
      obtain ⟨pre, a, post, hL, _, ha⟩ := mapE_error g e L hc
      obtain ⟨v, hv⟩ := h a (by rw [hL]; simp)
      rw [hv] at ha
      cases ha

theorem mapE_map {α β γ ε : Type} (g : β → Except ε γ) (h : α → β) (L : List α) :
    mapE g (L.map h) = mapE (fun a => g (h a)) L := by
  induction L with
  | nil => rfl
  | cons a rest ih => simp only [List.map_cons, mapE, ih]

theorem mapE_congr {α β ε : Type} (g g' : α → Except ε β) (L : List α) (h : ∀ a ∈ L, g a = g' a) :
    mapE g L = mapE g' L := by
  induction L with
  | nil => rfl
  | cons a rest ih =>
    simp only [mapE]
    rw [h a (by simp), ih (fun b hb => h b (List.mem_cons_of_mem _ hb))]

theorem calibrateAll_eq_mapE (thr : Rat) (L : List (List (FRow × Nat))) :
    calibrateAll thr L = mapE (calibrateFold thr) L := by
  induction L with
  | nil => rfl
  | cons fr rest ih => simp only [calibrateAll, mapE, ih]

/-! ## the flags paired with the fold numbers -/

theorem zipIdx_eq_map_range (l : List Bool) :
    l.zipIdx = (List.range l.length).map (fun f => (l.getD f true, f)) := by
  apply List.ext_getElem
  · simp
  · intro i h1 h2
    have hi : i < l.length := by simpa using h1
    simp [List.getD_eq_getElem?_getD, hi]

theorem getD_replicate_true (k f : Nat) : (List.replicate k true).getD f true = true := by
  simp only [List.getD_eq_getElem?_getD, List.getElem?_replicate]
  split <;> rfl

/-! ## the gate -/

theorem predictFoldsDF_replicate (c k : Nat) (thr : Rat) (rows : List FRow) :
    predictFoldsDF c (List.replicate k true) thr rows = predictFolds c k thr rows := by
  unfold predictFoldsDF predictFolds
  simp only [List.length_replicate]
  by_cases hk : k = 0
  · simp [hk]
  · simp only [hk, if_false]
    have : mapE (fun p => calibrateFoldDF thr p.1 (foldRowsChunked c p.2 rows.zipIdx))
          (List.replicate k true).zipIdx
        = calibrateAll thr ((List.range k).map (fun f => foldRowsChunked c f rows.zipIdx)) := by
      rw [zipIdx_eq_map_range, mapE_map, calibrateAll_eq_mapE, mapE_map, List.length_replicate]
      apply mapE_congr
      intro f _
      simp only [getD_replicate_true, calibrateFoldDF, if_true]
    rw [this]

theorem foldSpecDF_length {thr : Rat} {df : Bool} {xs : List (Rat × Bool)} {v : List XR}
    (h : foldSpecDF thr df xs = Except.ok v) : v.length = xs.length := by
  unfold foldSpecDF at h
  cases df with
  | true => simpa using calibrate_length h
  | false =>
    simp only [Bool.false_eq_true, if_false, Except.ok.injEq] at h
    rw [← h]; simp

theorem calibrateFoldDF_ok_iff (thr : Rat) (df : Bool) (fr : List (FRow × Nat)) (v : List XR) :
    calibrateFoldDF thr df fr = Except.ok v ↔
      fr ≠ [] ∧ foldSpecDF thr df (fr.map (fun r => (r.1.raw, r.1.target))) = Except.ok v := by
  unfold calibrateFoldDF foldSpecDF
  cases df with
  | true => simp only [if_true]; exact calibrateFold_ok_iff thr fr v
  | false =>
    simp only [Bool.false_eq_true, if_false, List.map_map]
    cases fr with
    | nil => simp
    | cons a rest => simp [Function.comp_def]

theorem predictFoldsDF_ok (c : Nat) (dfs : List Bool) (thr : Rat) (rows : List FRow) (out : List XR)
    (hc : 1 ≤ c) (h : predictFoldsDF c dfs thr rows = Except.ok out) :
    out.length = rows.length ∧
      ∀ f (hf : f < dfs.length), foldOf f rows ≠ [] ∧
        foldSpecDF thr dfs[f] (foldOf f rows) = Except.ok (restrictTo f rows out) := by
  unfold predictFoldsDF at h
  by_cases hk : dfs.length = 0
  · simp [hk] at h
  simp only [hk, if_false, foldRowsChunked_eq c hc] at h
  rw [zipIdx_eq_map_range, mapE_map] at h
  cases hcal : mapE (fun f => calibrateFoldDF thr (dfs.getD f true) (sliceOf f rows.zipIdx))
      (List.range dfs.length) with
  | error e => rw [hcal] at h; simp [Except.bind] at h
  | ok cal =>
    rw [hcal] at h
    simp only [Except.bind, Except.ok.injEq] at h
    have hkeys : ((List.range dfs.length).flatMap (fun f => sliceOf f rows.zipIdx)).map (fun r => r.2) =
        ((List.range dfs.length).map (foldKeys rows)).flatten := by
      rw [List.flatMap_def, List.map_flatten, List.map_map]
      rfl
    rw [hkeys] at h
    have F2 := (mapE_ok _ _ cal).mp hcal
    have F2len : List.Forall₂ (fun K V => V.length = K.length)
        ((List.range dfs.length).map (foldKeys rows)) cal := by
      rw [List.forall₂_map_left_iff]
      apply F2.imp
      intro f v hv
      have := foldSpecDF_length ((calibrateFoldDF_ok_iff thr _ _ v).mp hv).2
      simpa [foldKeys] using this
    have hlen : cal.length = dfs.length := by simpa using F2.length_eq.symm
    refine ⟨by rw [← h]; simp, fun f hf => ?_⟩
    have hfc : f < cal.length := by omega
    have hR : calibrateFoldDF thr (dfs.getD f true) (sliceOf f rows.zipIdx) = Except.ok cal[f] := by
      have := (List.forall₂_iff_get.mp F2).2 f (by simpa using hf) hfc
      simpa using this
    have hget : dfs.getD f true = dfs[f] := by simp [List.getD_eq_getElem?_getD, hf]
    rw [hget] at hR
    obtain ⟨hne, hcalf⟩ := (calibrateFoldDF_ok_iff thr _ _ _).mp hR
    rw [sliceOf_map_fst] at hcalf
    refine ⟨?_, ?_⟩
    · intro h0
      apply hne
      have := sliceOf_map_fst f rows
      rw [h0] at this
      simpa using this
    · rw [hcalf, ← h, restrictTo_map]
      congr 1
      symm
      apply lookup_parts _ _ F2len (allKeys_nodup rows dfs.length)
      have hmem : (((List.range dfs.length).map (foldKeys rows)).zip cal)[f]'(by simp; omega) ∈
          ((List.range dfs.length).map (foldKeys rows)).zip cal := List.getElem_mem _
      simpa using hmem

theorem predictFoldsDF_error (c : Nat) (dfs : List Bool) (thr : Rat) (rows : List FRow) (e : CalErr)
    (hc : 1 ≤ c) (h : predictFoldsDF c dfs thr rows = Except.error e) :
    (e = CalErr.empty ∧ (dfs.length = 0 ∨ ∃ f, f < dfs.length ∧ foldOf f rows = [])) ∨
    (e = CalErr.noPositive ∧ ∃ f, ∃ hf : f < dfs.length, dfs[f] = true ∧ foldOf f rows ≠ [] ∧
      accepted true thr (foldOf f rows) = []) := by
  unfold predictFoldsDF at h
  by_cases hk : dfs.length = 0
  · simp only [hk, if_true, Except.error.injEq] at h
    exact Or.inl ⟨h.symm, Or.inl hk⟩
  simp only [hk, if_false, foldRowsChunked_eq c hc] at h
  rw [zipIdx_eq_map_range, mapE_map] at h
  cases hcal : mapE (fun f => calibrateFoldDF thr (dfs.getD f true) (sliceOf f rows.zipIdx))
      (List.range dfs.length) with
  | ok cal => rw [hcal] at h; simp [Except.bind] at h
  | error e' =>
    rw [hcal] at h
    simp only [Except.bind, Except.error.injEq] at h
    subst h
    obtain ⟨pre, f, post, hL, _, hfr⟩ := mapE_error _ e' _ hcal
    have hf : f < dfs.length := by
      have : f ∈ List.range dfs.length := by rw [hL]; simp
      exact List.mem_range.mp this
    have hget : dfs.getD f true = dfs[f] := by simp [List.getD_eq_getElem?_getD, hf]
    rw [hget] at hfr
    unfold calibrateFoldDF calibrateFold at hfr
    by_cases hemp : (sliceOf f rows.zipIdx).isEmpty = true
    · simp only [hemp, if_true, ite_self, Except.error.injEq] at hfr
      exact Or.inl ⟨hfr.symm, Or.inr ⟨f, hf, (slice_eq_nil_iff f rows).mp (List.isEmpty_iff.mp hemp)⟩⟩
    · simp only [hemp, Bool.false_eq_true, if_false] at hfr
      by_cases hdf : dfs[f] = true
      · simp only [hdf, if_true] at hfr
        rw [sliceOf_map_fst] at hfr
        obtain ⟨he, hacc⟩ := calibrate_error_kind hfr
        refine Or.inr ⟨he, f, hf, hdf, ?_, hacc⟩
        intro h0
        exact hemp (List.isEmpty_iff.mpr ((slice_eq_nil_iff f rows).mpr h0))
      · simp [hdf] at hfr

theorem predictFoldsDF_ok_iff (c : Nat) (dfs : List Bool) (thr : Rat) (rows : List FRow) (hc : 1 ≤ c)
    (hk : 1 ≤ dfs.length) :
    (∃ out, predictFoldsDF c dfs thr rows = Except.ok out) ↔
      ∀ f (hf : f < dfs.length), foldOf f rows ≠ [] ∧
        (dfs[f] = true → accepted true thr (foldOf f rows) ≠ []) := by
  constructor
  · rintro ⟨out, h⟩ f hf
    obtain ⟨_, h2⟩ := predictFoldsDF_ok c dfs thr rows out hc h
    refine ⟨(h2 f hf).1, fun hdf => ?_⟩
    have := (h2 f hf).2
    rw [hdf] at this
    exact (calibrate_ok_iff true thr _).mp ⟨_, this⟩
  · intro hall
    cases hp : predictFoldsDF c dfs thr rows with
    | ok out => exact ⟨out, rfl⟩
    | error e =>
      exfalso
      rcases predictFoldsDF_error c dfs thr rows e hc hp with ⟨_, h | ⟨f, hf, h0⟩⟩ | ⟨_, f, hf, hdf, _, h0⟩
      · omega
      · exact (hall f hf).1 h0
      · exact (hall f hf).2 hdf h0

/-! ## row-wise reading of `restrictTo` -/

theorem restrict_pointwise {α : Type} (p : α → Bool) (g : α → XR) : ∀ (rows : List α) (out : List XR),
    out.length = rows.length →
    ((rows.zip out).filter (fun q => p q.1)).map (fun q => q.2) = (rows.filter p).map g →
    ∀ i (hi : i < rows.length), p rows[i] = true → out[i]? = some (g rows[i]) := by
  intro rows
  induction rows with
  | nil => intro out _ _ i hi; simp at hi
  | cons r rows ih =>
    intro out hlen heq i hi hp
    cases out with
    | nil => simp at hlen
    | cons o out =>
      have hlen' : out.length = rows.length := by simpa using hlen
      simp only [List.zip_cons_cons, List.filter_cons] at heq
      by_cases hr : p r = true
      · simp only [hr, if_true, List.map_cons, List.cons.injEq] at heq
        cases i with
        | zero => simp [heq.1]
        | succ i =>
          simp only [List.getElem_cons_succ] at hp ⊢
          simpa using ih out hlen' heq.2 i (by simpa using hi) hp
      · simp only [hr, Bool.false_eq_true, if_false] at heq
        cases i with
        | zero => simp only [List.getElem_cons_zero] at hp; exact absurd hp hr
        | succ i =>
          simp only [List.getElem_cons_succ] at hp ⊢
          simpa using ih out hlen' heq i (by simpa using hi) hp

/-- if the scores of fold `f` are `h` applied to the fold's raw scores, then every row of fold
`f` carries `h` of its own raw score -/
theorem restrictTo_pointwise (f : Nat) (rows : List FRow) (out : List XR) (h : Rat → XR)
    (hlen : out.length = rows.length)
    (heq : restrictTo f rows out = (foldOf f rows).map (fun x => h x.1)) :
    ∀ i (hi : i < rows.length), rows[i].fold = f → out[i]? = some (h rows[i].raw) := by
  intro i hi hf
  unfold restrictTo foldOf at heq
  rw [List.map_map] at heq
  exact restrict_pointwise (fun r => r.fold == f) (fun r => h r.raw) rows out hlen heq i hi (by simpa using hf)

end Mk.Calibrate
