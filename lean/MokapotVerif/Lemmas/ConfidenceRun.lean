import MokapotVerif.Model.ConfidenceRun
import MokapotVerif.Lemmas.ConfidenceBatch
/-! Helper lemmas for the loop over collections of `assign_confidence` (C03). -/
namespace Mk

theorem ConfFName.eq_iff (n : ConfFName) (p : Option Nat) (d : Bool) (l : Nat) :
    n = ⟨p, d, l⟩ ↔ n.pre = p ∧ n.decoy = d ∧ n.level = l := by
  rcases n with ⟨a, b, e⟩
  simp

theorem confOwnFile_iff (decoys : Bool) (m : Nat) (pre : Option Nat) (n : ConfFName) :
    confOwnFile decoys m pre n = true ↔ n.pre = pre ∧ n.level < m ∧ (n.decoy = true → decoys = true) := by
  unfold confOwnFile
  cases hd : n.decoy <;> cases decoys <;> simp

/-! ### opening the writers -/

theorem confOpenLevel_apply (app decoys : Bool) (pre : Option Nat) (fs : ConfFS) (lv : Nat) (n : ConfFName) :
    confOpenLevel app decoys pre fs lv n
      = if (n.pre = pre ∧ n.level = lv ∧ (n.decoy = true → decoys = true)) ∧ app = false
        then some [] else fs n := by
  unfold confOpenLevel
  rcases n with ⟨p, d, l⟩
  cases app <;> cases decoys <;> cases d <;> simp [confFsInit] <;> grind

theorem confOpenOutputs_apply (app decoys : Bool) (pre : Option Nat) (fs : ConfFS) (n : ConfFName) :
    ∀ m, confOpenOutputs app decoys pre m fs n
      = if confOwnFile decoys m pre n = true ∧ app = false then some [] else fs n := by
  intro m
  induction m with
  | zero => simp [confOpenOutputs, confOwnFile]
  | succ k ih =>
    unfold confOpenOutputs at ih ⊢
    rw [List.range_succ, List.foldl_append, List.foldl_cons, List.foldl_nil, confOpenLevel_apply, ih]
    simp only [confOwnFile_iff]
    by_cases h1 : n.pre = pre <;> by_cases h2 : n.level = k <;> by_cases h3 : app = false <;>
      by_cases h4 : (n.decoy = true → decoys = true) <;> simp [h1, h2, h3, h4] <;> grind

/-! ### writing the levels -/

theorem conf_foldlM_some {σ β : Type} (g : σ → β → σ) : ∀ (l : List β) (init : σ),
    l.foldlM (fun a b => some (g a b)) init = some (l.foldl g init) := by
  intro l
  induction l with
  | nil => intro init; rfl
  | cons b rest ih => intro init; simp only [List.foldlM_cons, List.foldl_cons]; exact ih _

/-- what `confWriteLevel` does to the directory (for a positive chunk size) -/
def confWriteLevelPure (decoys : Bool) (pre : Option Nat) (lvs : List (List Row)) (fs : ConfFS)
    (lv : Nat) : ConfFS :=
  let fs1 := confFsAppend fs ⟨pre, false, lv⟩ (splitTD (lvs.getD lv [])).1
  if decoys then confFsAppend fs1 ⟨pre, true, lv⟩ (splitTD (lvs.getD lv [])).2 else fs1

theorem confWriteLevel_eq (c : Nat) (hc : 0 < c) (decoys : Bool) (pre : Option Nat)
    (lvs : List (List Row)) (fs : ConfFS) (lv : Nat) :
    confWriteLevel c decoys pre lvs fs lv = some (confWriteLevelPure decoys pre lvs fs lv) := by
  unfold confWriteLevel confWriteLevelPure
  rw [confWriteLevelFile_eq c hc]
  cases decoys <;> simp

theorem confWriteLevelPure_apply (decoys : Bool) (pre : Option Nat) (lvs : List (List Row))
    (fs : ConfFS) (lv : Nat) (n : ConfFName) :
    confWriteLevelPure decoys pre lvs fs lv n
      = if n.pre = pre ∧ n.level = lv ∧ (n.decoy = true → decoys = true)
        then some ((fs n).getD [] ++ confTdPart n.decoy (lvs.getD lv [])) else fs n := by
  unfold confWriteLevelPure confTdPart
  rcases n with ⟨p, d, l⟩
  cases decoys <;> cases d <;> simp [confFsAppend] <;> grind

theorem confWriteLevels_apply (decoys : Bool) (pre : Option Nat) (lvs : List (List Row))
    (fs : ConfFS) (n : ConfFName) :
    ∀ m, (List.range m).foldl (confWriteLevelPure decoys pre lvs) fs n
      = if confOwnFile decoys m pre n = true
        then some ((fs n).getD [] ++ confTdPart n.decoy (lvs.getD n.level [])) else fs n := by
  intro m
  induction m with
  | zero => simp [confOwnFile]
  | succ k ih =>
    rw [List.range_succ, List.foldl_append, List.foldl_cons, List.foldl_nil, confWriteLevelPure_apply, ih]
    simp only [confOwnFile_iff]
    by_cases h1 : n.pre = pre <;> by_cases h2 : n.level = k <;>
      by_cases h4 : (n.decoy = true → decoys = true) <;> simp [h1, h2, h4] <;> grind

/-- one pass of the collection loop, pointwise -/
theorem confWriteColl_eq (c : Nat) (hc : 0 < c) (decoys : Bool) (m : Nat) (app : Bool)
    (st : ConfFS × Bool) (k : Option Nat × List (List Row)) :
    confWriteColl c decoys m app st k
      = some (collSpec decoys m (confAppendHere app st.2 k.1) k st.1, st.2 || k.1.isNone) := by
  unfold confWriteColl
  have hf : confWriteLevel c decoys k.1 k.2
      = fun fs lv => some (confWriteLevelPure decoys k.1 k.2 fs lv) := by
    funext fs lv; exact confWriteLevel_eq c hc decoys k.1 k.2 fs lv
  rw [hf, conf_foldlM_some]
  simp only [Option.map_some, Option.some.injEq, Prod.mk.injEq, and_true]
  funext n
  rw [confWriteLevels_apply, confOpenOutputs_apply]
  unfold collSpec
  by_cases ho : confOwnFile decoys m k.1 n = true
  · cases ha : confAppendHere app st.2 k.1 <;> simp [ho]
  · simp [ho]

/-- the loop as a pure fold (`u` = `unprefixed_written`) -/
def collsSpec (decoys : Bool) (m : Nat) (app : Bool) :
    Bool → List (Option Nat × List (List Row)) → ConfFS → ConfFS × Bool
  | u, [], fs => (fs, u)
  | u, k :: rest, fs =>
    collsSpec decoys m app (u || k.1.isNone) rest (collSpec decoys m (confAppendHere app u k.1) k fs)

theorem confRunFold_eq (c : Nat) (hc : 0 < c) (decoys : Bool) (m : Nat) (app : Bool) :
    ∀ (colls : List (Option Nat × List (List Row))) (u : Bool) (fs0 : ConfFS),
      colls.foldlM (confWriteColl c decoys m app) (fs0, u) = some (collsSpec decoys m app u colls fs0) := by
  intro colls
  induction colls with
  | nil => intro u fs0; rfl
  | cons k rest ih =>
    intro u fs0
    simp only [List.foldlM_cons, confWriteColl_eq c hc, collsSpec]
    exact ih _ _

theorem confRunAllWith_eq (c : Nat) (hc : 0 < c) (decoys : Bool) (m : Nat) (app : Bool)
    (colls : List (Option Nat × List (List Row))) (fs0 : ConfFS) :
    confRunAllWith c decoys m app colls fs0 = some (collsSpec decoys m app false colls fs0) :=
  confRunFold_eq c hc decoys m app colls false fs0

/-! ### properties of the fold -/

theorem collsSpec_frame (decoys : Bool) (m : Nat) (app : Bool) (n : ConfFName) :
    ∀ (colls : List (Option Nat × List (List Row))) (u : Bool) (fs : ConfFS),
      (∀ k ∈ colls, confOwnFile decoys m k.1 n = false) →
      (collsSpec decoys m app u colls fs).1 n = fs n := by
  intro colls
  induction colls with
  | nil => intro u fs _; rfl
  | cons k rest ih =>
    intro u fs h
    simp only [collsSpec]
    rw [ih _ _ (fun k' hk' => h k' (List.mem_cons_of_mem _ hk'))]
    simp [collSpec, h k (by simp)]

/-- the prefixes of the collections that have one -/
def confPrefixes (colls : List (Option Nat × List (List Row))) : List (Option Nat) :=
  (colls.filter (fun k => k.1.isSome)).map (fun k => k.1)

/-- a collection with a prefix of its own that no other collection uses: its files hold its rows
and nothing else — whatever the other collections (prefixed or not) and the directory are -/
theorem collsSpec_prefixed (decoys : Bool) (m : Nat) :
    ∀ (colls : List (Option Nat × List (List Row))) (u : Bool) (fs : ConfFS),
      (confPrefixes colls).Nodup →
      ∀ k ∈ colls, k.1 ≠ none → ∀ n, confOwnFile decoys m k.1 n = true →
        (collsSpec decoys m false u colls fs).1 n = some (confTdPart n.decoy (k.2.getD n.level [])) := by
  intro colls
  induction colls with
  | nil => intro u fs _ k hk; simp at hk
  | cons k0 rest ih =>
    intro u fs hnd k hk hsome n hown
    simp only [collsSpec]
    rcases List.mem_cons.mp hk with rfl | hk'
    · have hk0 : k.1.isSome = true := by
        cases hk1 : k.1 <;> simp_all
      have hk0n : k.1.isNone = false := by
        cases hk1 : k.1 <;> simp_all
      rw [collsSpec_frame]
      · simp [collSpec, hown, confAppendHere, hk0n]
      · intro k' hk'
        cases ho : confOwnFile decoys m k'.1 n
        · rfl
        · exfalso
          have hp := ((confOwnFile_iff decoys m k.1 n).mp hown).1
          have hp' := ((confOwnFile_iff decoys m k'.1 n).mp ho).1
          have he : k'.1 = k.1 := hp'.symm.trans hp
          unfold confPrefixes at hnd
          rw [List.filter_cons, if_pos hk0, List.map_cons, List.nodup_cons] at hnd
          apply hnd.1
          refine List.mem_map.mpr ⟨k', List.mem_filter.mpr ⟨hk', ?_⟩, he⟩
          rw [he]; exact hk0
    · apply ih _ _ ?_ k hk' hsome n hown
      unfold confPrefixes at hnd ⊢
      rw [List.filter_cons] at hnd
      split at hnd
      · rw [List.map_cons, List.nodup_cons] at hnd; exact hnd.2
      · exact hnd

/-- the collections without prefix -/
def confUnprefixed (colls : List (Option Nat × List (List Row))) : List (Option Nat × List (List Row)) :=
  colls.filter (fun k => k.1.isNone)

/-- the shared files hold the rows of the collections without prefix, one collection after the
other, whatever prefixed collections come in between -/
theorem collsSpec_unprefixed (decoys : Bool) (m : Nat) (app : Bool) (n : ConfFName)
    (hown : confOwnFile decoys m none n = true) :
    ∀ (colls : List (Option Nat × List (List Row))) (u : Bool) (fs : ConfFS),
      (collsSpec decoys m app u colls fs).1 n
        = if confUnprefixed colls = [] then fs n
          else some ((if app || u then (fs n).getD [] else []) ++
            (confUnprefixed colls).flatMap (fun k => confTdPart n.decoy (k.2.getD n.level []))) := by
  have hpre : n.pre = none := ((confOwnFile_iff decoys m none n).mp hown).1
  intro colls
  induction colls with
  | nil => intro u fs; simp [collsSpec, confUnprefixed]
  | cons k rest ih =>
    intro u fs
    simp only [collsSpec]
    rw [ih]
    cases hk : k.1 with
    | some p =>
      have hno : confOwnFile decoys m (some p) n = false := by
        cases ho : confOwnFile decoys m (some p) n
        · rfl
        · have := ((confOwnFile_iff decoys m (some p) n).mp ho).1
          rw [hpre] at this; cases this
      have hu : confUnprefixed (k :: rest) = confUnprefixed rest := by
        simp [confUnprefixed, List.filter_cons, hk]
      rw [hu]
      simp [collSpec, hk, hno]
    | none =>
      have hu : confUnprefixed (k :: rest) = k :: confUnprefixed rest := by
        simp [confUnprefixed, List.filter_cons, hk]
      rw [hu]
      have hk' : k = (none, k.2) := by rw [← hk]
      by_cases hr : confUnprefixed rest = []
      · simp [hr, collSpec, hk, hown, confAppendHere]
      · simp [hr, collSpec, hk, hown, confAppendHere, List.flatMap_cons]

/-! ### the executable run is the run on its own level files -/

theorem confRunAll_eq (c : Nat) (dedup decoys : Bool) (nLevels : Nat) (app : Bool) :
    ∀ (colls : List ConfColl) (st : ConfFS × Bool),
      colls.foldlM (confRunColl c dedup decoys nLevels app) st
        = (colls.mapM (fun k => (confidenceLevelFiles c dedup nLevels k.rows).map
              (fun lvs => (k.pre, lvs)))).bind
            (fun cl => cl.foldlM (confWriteColl c decoys (nLevels + 1) app) st) := by
  intro colls
  induction colls with
  | nil => intro st; rfl
  | cons k rest ih =>
    intro st
    simp only [List.foldlM_cons, List.mapM_cons, confRunColl]
    cases hk : confidenceLevelFiles c dedup nLevels k.rows with
    | none => simp
    | some lvs =>
      cases hw : confWriteColl c decoys (nLevels + 1) app st (k.pre, lvs) with
      | none =>
        cases hm : List.mapM (fun k => (confidenceLevelFiles c dedup nLevels k.rows).map
            (fun lvs => (k.pre, lvs))) rest <;> simp [hw]
      | some st' =>
        cases hm : List.mapM (fun k => (confidenceLevelFiles c dedup nLevels k.rows).map
            (fun lvs => (k.pre, lvs))) rest <;> simp [hw, ih, hm]

end Mk
