import MokapotVerif.Lemmas.Calibrate
import Mathlib.Data.List.Nodup
import Mathlib.Data.List.Forall2
/-! Helper lemmas for C11 (brew level): chunked accumulation per fold, calibration of every
fold, restoring the original row order. -/
namespace Mk.Calibrate

/-! ## chunks -/

theorem chunksFuel_flatten {β : Type} (c : Nat) (hc : 1 ≤ c) :
    ∀ (fuel : Nat) (l : List β), l.length ≤ fuel → (chunksFuel c fuel l).flatten = l := by
  intro fuel
  induction fuel with
  | zero =>
    intro l h
    have : l = [] := List.eq_nil_of_length_eq_zero (by omega)
    subst this
    simp [chunksFuel]
  | succ n ih =>
    intro l h
    by_cases he : l.isEmpty = true
    · have : l = [] := List.isEmpty_iff.mp he
      subst this
      simp [chunksFuel]
    · simp only [chunksFuel, he, Bool.false_eq_true, if_false]
      rw [List.flatten_cons, ih (l.drop c) (by simp; omega), List.take_append_drop]

theorem chunks_flatten {β : Type} (c : Nat) (hc : 1 ≤ c) (l : List β) : (chunks c l).flatten = l :=
  chunksFuel_flatten c hc _ l (le_refl _)

theorem foldRowsChunked_eq (c : Nat) (hc : 1 ≤ c) (f : Nat) (rows : List (FRow × Nat)) :
    foldRowsChunked c f rows = sliceOf f rows := by
  unfold foldRowsChunked
  rw [List.flatMap_def]
  have : List.map (sliceOf f) (chunks c rows) = List.map (List.filter (fun r => r.1.fold == f)) (chunks c rows) := rfl
  rw [this, ← List.filter_flatten, chunks_flatten c hc]
  rfl

theorem sliceOf_map_fst (f : Nat) (rows : List FRow) :
    (sliceOf f rows.zipIdx).map (fun r => (r.1.raw, r.1.target)) = foldOf f rows := by
  unfold sliceOf foldOf
  have h : rows.filter (fun r => r.fold == f) = ((rows.zipIdx).filter (fun r => r.1.fold == f)).map (fun r => r.1) := by
    conv_lhs => rw [← List.zipIdx_map_fst 0 rows]
    rw [List.filter_map]
    rfl
  rw [h, List.map_map]
  rfl

/-! ## lookup in the concatenated per-fold results -/

theorem lookupX_append_left (i : Nat) (L R : List (Nat × XR)) (h : i ∈ L.map (fun p => p.1)) :
    lookupX i (L ++ R) = lookupX i L := by
  induction L with
  | nil => simp at h
  | cons p L ih =>
    obtain ⟨j, v⟩ := p
    simp only [List.cons_append, lookupX]
    by_cases hj : j = i
    · simp [hj]
    · simp only [hj, if_false]
      apply ih
      simp only [List.map_cons, List.mem_cons] at h
      rcases h with h | h
      · exact absurd h.symm hj
      · exact h

theorem lookupX_append_right (i : Nat) (L R : List (Nat × XR)) (h : i ∉ L.map (fun p => p.1)) :
    lookupX i (L ++ R) = lookupX i R := by
  induction L with
  | nil => simp
  | cons p L ih =>
    obtain ⟨j, v⟩ := p
    simp only [List.map_cons, List.mem_cons, not_or] at h
    simp only [List.cons_append, lookupX]
    have hj : ¬ j = i := fun e => h.1 e.symm
    simp only [hj, if_false]
    exact ih h.2

theorem map_lookupX_self : ∀ (K : List Nat) (V : List XR), V.length = K.length → K.Nodup →
    K.map (fun i => lookupX i (K.zip V)) = V := by
  intro K
  induction K with
  | nil => intro V hl _; simp at hl; simp [hl]
  | cons i K ih =>
    intro V hl hnd
    cases V with
    | nil => simp at hl
    | cons v V =>
      rw [List.nodup_cons] at hnd
      simp only [List.zip_cons_cons, List.map_cons, lookupX, if_true]
      congr 1
      rw [← ih V (by simpa using hl) hnd.2]
      apply List.map_congr_left
      intro e he
      have : ¬ i = e := fun h => hnd.1 (h ▸ he)
      simp only [this, if_false]
      rw [ih V (by simpa using hl) hnd.2]

theorem zip_map_fst_subset (K : List Nat) (V : List XR) : ∀ i ∈ (K.zip V).map (fun p => p.1), i ∈ K := by
  intro i hi
  obtain ⟨p, hp, rfl⟩ := List.mem_map.mp hi
  exact (List.of_mem_zip hp).1

/-- looking every key of one part up in the zipped concatenation returns that part's values -/
theorem lookup_parts : ∀ (Ks : List (List Nat)) (Vs : List (List XR)),
    List.Forall₂ (fun K V => V.length = K.length) Ks Vs → Ks.flatten.Nodup →
    ∀ K V, (K, V) ∈ Ks.zip Vs → K.map (fun i => lookupX i (Ks.flatten.zip Vs.flatten)) = V := by
  intro Ks Vs hall
  induction hall with
  | nil => intro _ K V h; simp at h
  | @cons K0 V0 Ks Vs hlen _ ih =>
    intro hnd K V hmem
    rw [List.flatten_cons, List.nodup_append] at hnd
    obtain ⟨hnd0, hndr, hdisj⟩ := hnd
    rw [List.flatten_cons, List.flatten_cons, List.zip_append hlen.symm]
    simp only [List.zip_cons_cons, List.mem_cons, Prod.mk.injEq] at hmem
    rcases hmem with ⟨rfl, rfl⟩ | hmem
    · rw [← map_lookupX_self K V hlen hnd0]
      apply List.map_congr_left
      intro e he
      rw [map_lookupX_self K V hlen hnd0]
      apply lookupX_append_left
      rw [List.map_fst_zip (by omega)]
      exact he
    · rw [← ih hndr K V hmem]
      apply List.map_congr_left
      intro e he
      apply lookupX_append_right
      intro hin
      have h1 : e ∈ K0 := zip_map_fst_subset K0 V0 e hin
      have h2 : e ∈ Ks.flatten := List.mem_flatten.mpr ⟨K, (List.of_mem_zip hmem).1, he⟩
      exact hdisj e h1 e h2 rfl

/-! ## calibrating every fold -/

theorem calibrate_length {desc : Bool} {thr : Rat} {xs : List (Rat × Bool)} {out : List XR}
    (h : calibrate desc thr xs = Except.ok out) : out.length = xs.length := by
  rw [calibrate_unfold] at h
  cases hm : minList (accepted desc thr xs) with
  | none => rw [hm] at h; cases h
  | some t =>
    rw [hm] at h
    simp only [Option.elim, Except.ok.injEq] at h
    rw [← h]; simp

theorem calibrateAll_ok (thr : Rat) : ∀ (L : List (List (FRow × Nat))) (vs : List (List XR)),
    calibrateAll thr L = Except.ok vs ↔
      List.Forall₂ (fun fr v => calibrateFold thr fr = Except.ok v) L vs := by
  intro L
  induction L with
  | nil =>
    intro vs
    simp only [calibrateAll, Except.ok.injEq, List.forall₂_nil_left_iff]
    exact eq_comm
  | cons fr rest ih =>
    intro vs
    simp only [calibrateAll]
    cases hfr : calibrateFold thr fr with
    | error e =>
      simp only [Except.bind]
      constructor
      · intro h; cases h
      · intro h
        cases h with
        | cons h1 _ => rw [hfr] at h1; cases h1
    | ok v =>
      cases hr : calibrateAll thr rest with
      | error e =>
        simp only [Except.bind]
        constructor
        · intro h; cases h
        · intro h
          cases h with
          | cons _ h2 => rw [← ih, hr] at h2; cases h2
      | ok vs0 =>
        simp only [Except.bind, Except.ok.injEq]
        constructor
        · intro h
          subst h
          exact List.Forall₂.cons hfr ((ih vs0).mp hr)
        · intro h
          cases h with
          | cons h1 h2 =>
            rw [hfr] at h1
            rw [← ih, hr] at h2
            simp only [Except.ok.injEq] at h1 h2
            rw [h1, h2]

theorem calibrateAll_error (thr : Rat) (e : CalErr) : ∀ (L : List (List (FRow × Nat))),
    calibrateAll thr L = Except.error e → ∃ fr ∈ L, calibrateFold thr fr = Except.error e := by
  intro L
  induction L with
  | nil => intro h; simp [calibrateAll] at h
  | cons fr rest ih =>
    intro h
    simp only [calibrateAll] at h
    cases hfr : calibrateFold thr fr with
    | error e' =>
      rw [hfr] at h
      simp only [Except.bind, Except.error.injEq] at h
      exact ⟨fr, by simp, by rw [hfr, h]⟩
    | ok v =>
      rw [hfr] at h
      cases hr : calibrateAll thr rest with
      | error e' =>
        rw [hr] at h
        simp only [Except.bind, Except.error.injEq] at h
        obtain ⟨fr', hmem, hfr'⟩ := ih (by rw [hr, h])
        exact ⟨fr', List.mem_cons_of_mem _ hmem, hfr'⟩
      | ok vs0 =>
        rw [hr] at h
        simp [Except.bind] at h

theorem calibrateAll_total (thr : Rat) (L : List (List (FRow × Nat))) :
    (∃ vs, calibrateAll thr L = Except.ok vs) ↔ ∀ fr ∈ L, ∃ v, calibrateFold thr fr = Except.ok v := by
  constructor
  · rintro ⟨vs, h⟩ fr hfr
    have h2 := (calibrateAll_ok thr L vs).mp h
    clear h
    induction h2 with
    | nil => simp at hfr
    | @cons a b l1 l2 hab _ ih =>
      rcases List.mem_cons.mp hfr with rfl | hfr
      · exact ⟨b, hab⟩
      · exact ih hfr
  · intro h
    cases hc : calibrateAll thr L with
    | ok vs => exact ⟨vs, rfl⟩
    | error e =>
      obtain ⟨fr, hmem, hfr⟩ := calibrateAll_error thr e L hc
      obtain ⟨v, hv⟩ := h fr hmem
      rw [hv] at hfr
      cases hfr

theorem calibrateFold_ok_iff (thr : Rat) (fr : List (FRow × Nat)) (v : List XR) :
    calibrateFold thr fr = Except.ok v ↔
      fr ≠ [] ∧ calibrate true thr (fr.map (fun r => (r.1.raw, r.1.target))) = Except.ok v := by
  unfold calibrateFold
  cases fr with
  | nil => simp
  | cons a rest => simp

/-! ## the row numbers collected per fold are pairwise distinct -/

/-- row numbers of fold `f` -/
def foldKeys (rows : List FRow) (f : Nat) : List Nat := (sliceOf f rows.zipIdx).map (fun r => r.2)

theorem mem_foldKeys {rows : List FRow} {f i : Nat} (h : i ∈ foldKeys rows f) :
    ∃ r, (r, i) ∈ rows.zipIdx ∧ r.fold = f := by
  unfold foldKeys sliceOf at h
  obtain ⟨e, he, rfl⟩ := List.mem_map.mp h
  rw [List.mem_filter] at he
  exact ⟨e.1, he.1, by simpa using he.2⟩

theorem foldKeys_nodup (rows : List FRow) (f : Nat) : (foldKeys rows f).Nodup := by
  unfold foldKeys sliceOf
  have hsub : ((rows.zipIdx.filter (fun r => r.1.fold == f)).map (fun r => r.2)).Sublist
      (rows.zipIdx.map (fun r => r.2)) := (List.filter_sublist).map _
  apply hsub.nodup
  have : rows.zipIdx.map (fun r => r.2) = List.range' 0 rows.length := List.zipIdx_map_snd 0 rows
  rw [this]
  exact List.nodup_range'

theorem allKeys_nodup (rows : List FRow) (k : Nat) : ((List.range k).map (foldKeys rows)).flatten.Nodup := by
  rw [List.nodup_flatten]
  constructor
  · intro l hl
    obtain ⟨f, _, rfl⟩ := List.mem_map.mp hl
    exact foldKeys_nodup rows f
  · rw [List.pairwise_map]
    apply List.Nodup.pairwise_of_forall_ne List.nodup_range
    intro a _ b _ hab
    rw [List.disjoint_left]
    intro i hia hib
    obtain ⟨r, hr, hra⟩ := mem_foldKeys hia
    obtain ⟨r', hr', hrb⟩ := mem_foldKeys hib
    have := mem_zipIdx_snd_eq rows (r, i) (r', i) hr hr' rfl
    simp only [Prod.mk.injEq, and_true] at this
    subst this
    exact hab (hra.symm.trans hrb)

/-! ## `_predict` returns, for every fold, the calibration of that fold's rows -/

theorem restrictTo_map (f : Nat) (rows : List FRow) (g : Nat → XR) :
    restrictTo f rows ((List.range rows.length).map g) = (foldKeys rows f).map g := by
  unfold restrictTo foldKeys sliceOf
  have hz : rows.zip ((List.range rows.length).map g) = rows.zipIdx.map (fun e => (e.1, g e.2)) := by
    rw [List.zipIdx_eq_zip_range', List.range_eq_range', List.zip_map_right]
    rfl
  rw [hz, List.filter_map, List.map_map, List.map_map]
  rfl

theorem predictFolds_ok (c k : Nat) (thr : Rat) (rows : List FRow) (out : List XR) (hc : 1 ≤ c)
    (h : predictFolds c k thr rows = Except.ok out) :
    out.length = rows.length ∧
      ∀ f, f < k → foldOf f rows ≠ [] ∧ calibrate true thr (foldOf f rows) = Except.ok (restrictTo f rows out) := by
  unfold predictFolds at h
  by_cases hk : k = 0
  · simp [hk] at h
  simp only [hk, if_false, foldRowsChunked_eq c hc] at h
  cases hcal : calibrateAll thr ((List.range k).map (fun f => sliceOf f rows.zipIdx)) with
  | error e => rw [hcal] at h; simp [Except.bind] at h
  | ok cal =>
    rw [hcal] at h
    simp only [Except.bind, Except.ok.injEq] at h
    have hkeys : ((List.range k).flatMap (fun f => sliceOf f rows.zipIdx)).map (fun r => r.2) =
        ((List.range k).map (foldKeys rows)).flatten := by
      rw [List.flatMap_def, List.map_flatten, List.map_map]
      rfl
    rw [hkeys] at h
    have F2 := (calibrateAll_ok thr _ cal).mp hcal
    rw [List.forall₂_map_left_iff] at F2
    have F2len : List.Forall₂ (fun K V => V.length = K.length) ((List.range k).map (foldKeys rows)) cal := by
      rw [List.forall₂_map_left_iff]
      apply F2.imp
      intro f v hv
      have := calibrate_length ((calibrateFold_ok_iff thr _ v).mp hv).2
      simpa [foldKeys] using this
    have hlen : cal.length = k := by simpa using F2.length_eq.symm
    refine ⟨by rw [← h]; simp, fun f hf => ?_⟩
    have hfc : f < cal.length := by omega
    have hR : calibrateFold thr (sliceOf f rows.zipIdx) = Except.ok cal[f] := by
      have := (List.forall₂_iff_get.mp F2).2 f (by simpa using hf) hfc
      simpa using this
    obtain ⟨hne, hcalf⟩ := (calibrateFold_ok_iff thr _ _).mp hR
    rw [sliceOf_map_fst] at hcalf
    refine ⟨?_, ?_⟩
    · intro h0
      apply hne
      have := sliceOf_map_fst f rows
      rw [h0] at this
      simpa using this
    · rw [hcalf, ← h, restrictTo_map]
      congr 1
      symm
      apply lookup_parts _ _ F2len (allKeys_nodup rows k)
      have hmem : (((List.range k).map (foldKeys rows)).zip cal)[f]'(by simp; omega) ∈
          ((List.range k).map (foldKeys rows)).zip cal := List.getElem_mem _
      simpa using hmem

theorem slice_eq_nil_iff (f : Nat) (rows : List FRow) : sliceOf f rows.zipIdx = [] ↔ foldOf f rows = [] := by
  rw [← sliceOf_map_fst]
  simp

theorem predictFolds_error (c k : Nat) (thr : Rat) (rows : List FRow) (e : CalErr) (hc : 1 ≤ c)
    (h : predictFolds c k thr rows = Except.error e) :
    (e = CalErr.empty ∧ (k = 0 ∨ ∃ f, f < k ∧ foldOf f rows = [])) ∨
    (e = CalErr.noPositive ∧ ∃ f, f < k ∧ foldOf f rows ≠ [] ∧ accepted true thr (foldOf f rows) = []) := by
  unfold predictFolds at h
  by_cases hk : k = 0
  · simp only [hk, if_true, Except.error.injEq] at h
    exact Or.inl ⟨h.symm, Or.inl hk⟩
  simp only [hk, if_false, foldRowsChunked_eq c hc] at h
  cases hcal : calibrateAll thr ((List.range k).map (fun f => sliceOf f rows.zipIdx)) with
  | ok cal => rw [hcal] at h; simp [Except.bind] at h
  | error e' =>
    rw [hcal] at h
    simp only [Except.bind, Except.error.injEq] at h
    subst h
    obtain ⟨fr, hmem, hfr⟩ := calibrateAll_error thr e' _ hcal
    obtain ⟨f, hf, rfl⟩ := List.mem_map.mp hmem
    rw [List.mem_range] at hf
    unfold calibrateFold at hfr
    by_cases hemp : (sliceOf f rows.zipIdx).isEmpty = true
    · simp only [hemp, if_true, Except.error.injEq] at hfr
      exact Or.inl ⟨hfr.symm, Or.inr ⟨f, hf, (slice_eq_nil_iff f rows).mp (List.isEmpty_iff.mp hemp)⟩⟩
    · simp only [hemp, Bool.false_eq_true, if_false] at hfr
      rw [sliceOf_map_fst] at hfr
      obtain ⟨he, hacc⟩ := calibrate_error_kind hfr
      refine Or.inr ⟨he, f, hf, ?_, hacc⟩
      intro h0
      exact hemp (List.isEmpty_iff.mpr ((slice_eq_nil_iff f rows).mpr h0))

theorem predictFolds_ok_iff (c k : Nat) (thr : Rat) (rows : List FRow) (hc : 1 ≤ c) (hk : 1 ≤ k) :
    (∃ out, predictFolds c k thr rows = Except.ok out) ↔
      ∀ f, f < k → foldOf f rows ≠ [] ∧ accepted true thr (foldOf f rows) ≠ [] := by
  constructor
  · rintro ⟨out, h⟩ f hf
    obtain ⟨_, h2⟩ := predictFolds_ok c k thr rows out hc h
    exact ⟨(h2 f hf).1, (calibrate_ok_iff true thr _).mp ⟨_, (h2 f hf).2⟩⟩
  · intro hall
    cases hp : predictFolds c k thr rows with
    | ok out => exact ⟨out, rfl⟩
    | error e =>
      exfalso
      rcases predictFolds_error c k thr rows e hc hp with ⟨_, h | ⟨f, hf, h0⟩⟩ | ⟨_, f, hf, _, h0⟩
      · omega
      · exact (hall f hf).1 h0
      · exact (hall f hf).2 h0

end Mk.Calibrate
