import MokapotVerif.Lemmas.GroupingBasic
/-! The loop invariant of `_group_proteins` and its preservation (C16). -/
set_option linter.unusedSectionVars false
namespace Mk.Grouping
variable {α β : Type} [DecidableEq α] [DecidableEq β]

/-- `key` names a group of `grouped` that contains peptide `p` -/
def InG (grouped : List (Group α β)) (p : β) (key : GKey α) : Prop :=
  ∃ S, (key, S) ∈ grouped ∧ p ∈ S

/-- `key` is the one-element key of a not yet processed protein of `T` that contains `p` -/
def InT (T : List (Prot α β)) (p : β) (key : GKey α) : Prop :=
  ∃ q S, (q, S) ∈ T ∧ key = [q] ∧ p ∈ S

/-- invariant of the `grouped` dict: `done` = proteins completely processed, `cur` = the
protein being added to its matches (at most one), `ms` = matches still to be applied -/
structure GI (g : List (Group α β)) (done cur : List (Prot α β)) (ms : List (GKey α)) : Prop where
  key_ne : ∀ k S, (k, S) ∈ g → k ≠ []
  heads : (g.map (fun e => e.1.head?)).Nodup
  founder : ∀ k S, (k, S) ∈ g → ∃ q, k.head? = some q ∧ (q, S) ∈ done
  members : ∀ k S, (k, S) ∈ g → ∀ q Sq, (q, Sq) ∈ done → (q ∈ k ↔ Sq ⊆ S)
  named : ∀ k S, (k, S) ∈ g → ∀ x ∈ k, x ∈ (done ++ cur).map (·.1)
  covered : ∀ q Sq, (q, Sq) ∈ done → ∃ k S, (k, S) ∈ g ∧ q ∈ k
  anti : ∀ k1 S1 k2 S2, (k1, S1) ∈ g → (k2, S2) ∈ g → S1 ⊆ S2 → k1 = k2
  cur1 : ∀ k S, (k, S) ∈ g → ∀ q Sq, (q, Sq) ∈ cur → q ∈ k → Sq ⊆ S
  cur2 : ∀ k S, (k, S) ∈ g → ∀ q Sq, (q, Sq) ∈ cur → Sq ⊆ S → q ∈ k ∨ k ∈ ms
  cur3 : ∀ m ∈ ms, (∃ S, (m, S) ∈ g) ∧ ∀ q Sq, (q, Sq) ∈ cur → q ∉ m ∧ ∀ S, (m, S) ∈ g → Sq ⊆ S
  cur4 : ∀ q Sq, (q, Sq) ∈ cur → ∃ k S, (k, S) ∈ g ∧ Sq ⊆ S
  ms_nodup : ms.Nodup
  knd : ∀ k S, (k, S) ∈ g → k.Nodup

/-- invariant of the `peptides` dict w.r.t. the proteins `T` still to be processed -/
structure PI (st : St α β) (T : List (Prot α β)) : Prop where
  keys : (st.pepmap.map (·.1)).Nodup
  pm : ∀ p ks, (p, ks) ∈ st.pepmap →
    ks.Nodup ∧ ∀ key, key ∈ ks ↔ InG st.grouped p key ∨ InT T p key

theorem GI.keys_nodup {g : List (Group α β)} {done cur ms} (h : GI g done cur ms) :
    (g.map (·.1)).Nodup := by
  have := h.heads
  have e : g.map (fun e => e.1.head?) = (g.map (·.1)).map List.head? := by simp
  rw [e] at this
  exact List.Nodup.of_map _ this

theorem mem_applyMatch_grouped (c : α) (st : St α β) (m k : GKey α) (S' : List β) :
    (k, S') ∈ (applyMatch c st m).grouped ↔
      ((k, S') ∈ st.grouped ∧ k ≠ m) ∨ (k = m ++ [c] ∧ S' = gGet st.grouped m) := by
  simp [applyMatch, List.mem_filter]

theorem head?_append_singleton (m : List α) (c : α) (h : m ≠ []) : (m ++ [c]).head? = m.head? := by
  cases m with
  | nil => exact absurd rfl h
  | cons a t => simp


theorem heads_rename (g : List (Group α β)) (hn : (g.map (fun e => e.1.head?)).Nodup)
    (m : GKey α) (S : List β) (hm : (m, S) ∈ g) (c : α) (hne : m ≠ []) :
    ((g.filter (fun e => !decide (e.1 = m)) ++ [(m ++ [c], S)]).map (fun e => e.1.head?)).Nodup := by
  rw [List.map_append, List.nodup_append]
  refine ⟨hn.sublist (List.Sublist.map _ List.filter_sublist), by simp, ?_⟩
  intro a ha b hb
  simp only [List.map_cons, List.map_nil, List.mem_singleton] at hb
  subst hb
  rw [head?_append_singleton m c hne]
  obtain ⟨e, he, rfl⟩ := List.mem_map.mp ha
  rw [List.mem_filter] at he
  intro heq
  have := List.inj_on_of_nodup_map hn he.1 hm heq
  have h2 : e.1 = m := by rw [this]
  simp [h2] at he

theorem GI_applyMatch {st : St α β} {done : List (Prot α β)} {c : α} {Sq : List β} {m : GKey α}
    {ms : List (GKey α)} (h : GI st.grouped done [(c, Sq)] (m :: ms)) (hc : c ∉ done.map (·.1)) :
    GI (applyMatch c st m).grouped done [(c, Sq)] ms := by
  obtain ⟨⟨S, hmS⟩, hcm⟩ := h.cur3 m (by simp)
  obtain ⟨hcm1, hcm2⟩ := hcm c Sq (by simp)
  have hkn := h.keys_nodup
  have hget : gGet st.grouped m = S := gGet_of_mem _ hkn _ _ hmS
  have hne : m ≠ [] := h.key_ne m S hmS
  have hmem : ∀ k S', (k, S') ∈ (applyMatch c st m).grouped ↔
      ((k, S') ∈ st.grouped ∧ k ≠ m) ∨ (k = m ++ [c] ∧ S' = S) := by
    intro k S'; rw [mem_applyMatch_grouped, hget]
  have hnod := List.nodup_cons.mp h.ms_nodup
  constructor
  · -- key_ne
    intro k S' hk
    rcases (hmem k S').mp hk with ⟨hk, _⟩ | ⟨rfl, _⟩
    · exact h.key_ne k S' hk
    · simp
  · -- heads
    have := heads_rename st.grouped h.heads m S hmS c hne
    simpa [applyMatch, hget] using this
  · -- founder
    intro k S' hk
    rcases (hmem k S').mp hk with ⟨hk, _⟩ | ⟨rfl, rfl⟩
    · exact h.founder k S' hk
    · rw [head?_append_singleton m c hne]; exact h.founder m _ hmS
  · -- members
    intro k S' hk q Sq' hq
    rcases (hmem k S').mp hk with ⟨hk, _⟩ | ⟨rfl, rfl⟩
    · exact h.members k S' hk q Sq' hq
    · have hqc : q ≠ c := by
        rintro rfl
        exact hc (List.mem_map.mpr ⟨(q, Sq'), hq, rfl⟩)
      rw [← h.members m _ hmS q Sq' hq]
      simp [hqc]
  · -- named
    intro k S' hk x hx
    rcases (hmem k S').mp hk with ⟨hk, _⟩ | ⟨rfl, rfl⟩
    · exact h.named k S' hk x hx
    · rcases List.mem_append.mp hx with hx | hx
      · exact h.named m _ hmS x hx
      · simp at hx; subst hx; simp
  · -- covered
    intro q Sq' hq
    obtain ⟨k, S', hk, hqk⟩ := h.covered q Sq' hq
    by_cases hkm : k = m
    · subst hkm
      exact ⟨k ++ [c], S, (hmem _ _).mpr (Or.inr ⟨rfl, rfl⟩), by simp [hqk]⟩
    · exact ⟨k, S', (hmem _ _).mpr (Or.inl ⟨hk, hkm⟩), hqk⟩
  · -- anti
    intro k1 S1 k2 S2 h1 h2 hsub
    rcases (hmem k1 S1).mp h1 with ⟨h1, hk1⟩ | ⟨rfl, rfl⟩ <;>
      rcases (hmem k2 S2).mp h2 with ⟨h2, hk2⟩ | ⟨rfl, rfl⟩
    · exact h.anti k1 S1 k2 S2 h1 h2 hsub
    · exact absurd (h.anti k1 S1 m _ h1 hmS hsub) hk1
    · exact absurd (h.anti m _ k2 S2 hmS h2 hsub).symm hk2
    · rfl
  · -- cur1
    intro k S' hk q Sq' hq hqk
    simp only [List.mem_singleton, Prod.mk.injEq] at hq
    obtain ⟨rfl, rfl⟩ := hq
    rcases (hmem k S').mp hk with ⟨hk, _⟩ | ⟨rfl, rfl⟩
    · exact h.cur1 k S' hk q Sq' (by simp) hqk
    · exact hcm2 _ hmS
  · -- cur2
    intro k S' hk q Sq' hq hsub
    simp only [List.mem_singleton, Prod.mk.injEq] at hq
    obtain ⟨rfl, rfl⟩ := hq
    rcases (hmem k S').mp hk with ⟨hk, hkm⟩ | ⟨rfl, rfl⟩
    · rcases h.cur2 k S' hk q Sq' (by simp) hsub with h1 | h1
      · exact Or.inl h1
      · rcases List.mem_cons.mp h1 with h1 | h1
        · exact absurd h1 hkm
        · exact Or.inr h1
    · exact Or.inl (by simp)
  · -- cur3
    intro m' hm'
    obtain ⟨⟨S'', hm''⟩, hrest⟩ := h.cur3 m' (List.mem_cons_of_mem _ hm')
    have hmm : m' ≠ m := by rintro rfl; exact hnod.1 hm'
    refine ⟨⟨S'', (hmem _ _).mpr (Or.inl ⟨hm'', hmm⟩)⟩, ?_⟩
    intro q Sq' hq
    obtain ⟨hq1, hq2⟩ := hrest q Sq' hq
    refine ⟨hq1, ?_⟩
    intro S3 hS3
    rcases (hmem m' S3).mp hS3 with ⟨hS3, _⟩ | ⟨rfl, rfl⟩
    · exact hq2 S3 hS3
    · simp only [List.mem_singleton, Prod.mk.injEq] at hq
      obtain ⟨rfl, rfl⟩ := hq
      exact absurd (by simp) hq1
  · -- cur4
    intro q Sq' hq
    obtain ⟨k, S', hk, hsub⟩ := h.cur4 q Sq' hq
    by_cases hkm : k = m
    · subst hkm
      have : S' = S := val_unique _ hkn _ _ _ hk hmS
      subst this
      exact ⟨k ++ [c], S', (hmem _ _).mpr (Or.inr ⟨rfl, rfl⟩), hsub⟩
    · exact ⟨k, S', (hmem _ _).mpr (Or.inl ⟨hk, hkm⟩), hsub⟩
  · exact hnod.2
  · intro k S' hk
    rcases (hmem k S').mp hk with ⟨hk, _⟩ | ⟨rfl, _⟩
    · exact h.knd k S' hk
    · rw [List.nodup_append]
      refine ⟨h.knd m S hmS, List.nodup_singleton c, ?_⟩
      intro a ha b hb
      simp only [List.mem_singleton] at hb
      rw [hb]
      intro hac
      rw [hac] at ha
      exact hcm1 ha


theorem PI_applyMatch {st : St α β} {T : List (Prot α β)} {c : α} {m : GKey α} {S : List β}
    (hkn : (st.grouped.map (·.1)).Nodup) (hmS : (m, S) ∈ st.grouped) (hne : m ≠ [])
    (hT : ∀ S', (c, S') ∈ T → S' ⊆ S)
    (hGc : ∀ S', ([c], S') ∉ st.grouped)
    (hTm : ∀ q S', (q, S') ∈ T → [q] ≠ m)
    (h : PI st T) : PI (applyMatch c st m) (T.filter (fun e => !decide (e.1 = c))) := by
  have hget : gGet st.grouped m = S := gGet_of_mem _ hkn _ _ hmS
  have hmem : ∀ k S', (k, S') ∈ (applyMatch c st m).grouped ↔
      ((k, S') ∈ st.grouped ∧ k ≠ m) ∨ (k = m ++ [c] ∧ S' = S) := by
    intro k S'; rw [mem_applyMatch_grouped, hget]
  constructor
  · have : (applyMatch c st m).pepmap.map (·.1) = st.pepmap.map (·.1) := by
      simp only [applyMatch, List.map_map]
      apply List.map_congr_left
      intro e _
      simp only [Function.comp, renameIn]
      split <;> rfl
    rw [this]; exact h.keys
  · intro p ks' hp
    simp only [applyMatch, List.mem_map] at hp
    obtain ⟨⟨p0, ks⟩, he, heq⟩ := hp
    obtain ⟨hnd, hiff⟩ := h.pm p0 ks he
    rw [hget] at heq
    have hG' : ∀ key, InG (applyMatch c st m).grouped p key ↔
        (∃ S', (key, S') ∈ st.grouped ∧ key ≠ m ∧ p ∈ S') ∨ (key = m ++ [c] ∧ p ∈ S) := by
      intro key
      unfold InG
      constructor
      · rintro ⟨S', hk, hpS⟩
        rcases (hmem key S').mp hk with ⟨hk, hkm⟩ | ⟨rfl, rfl⟩
        · exact Or.inl ⟨S', hk, hkm, hpS⟩
        · exact Or.inr ⟨rfl, hpS⟩
      · rintro (⟨S', hk, hkm, hpS⟩ | ⟨rfl, hpS⟩)
        · exact ⟨S', (hmem _ _).mpr (Or.inl ⟨hk, hkm⟩), hpS⟩
        · exact ⟨S, (hmem _ _).mpr (Or.inr ⟨rfl, rfl⟩), hpS⟩
    have hT' : ∀ key, InT (T.filter (fun e => !decide (e.1 = c))) p key ↔
        ∃ q S', (q, S') ∈ T ∧ q ≠ c ∧ key = [q] ∧ p ∈ S' := by
      intro key
      unfold InT
      simp only [List.mem_filter, Bool.not_eq_true', decide_eq_false_iff_not]
      constructor
      · rintro ⟨q, S', ⟨h1, h2⟩, h3, h4⟩; exact ⟨q, S', h1, h2, h3, h4⟩
      · rintro ⟨q, S', h1, h2, h3, h4⟩; exact ⟨q, S', ⟨h1, h2⟩, h3, h4⟩
    simp only [renameIn] at heq
    by_cases hpS : p0 ∈ S
    · simp only [hpS, if_true, Prod.mk.injEq] at heq
      obtain ⟨rfl, rfl⟩ := heq
      refine ⟨nodup_setAdd _ _ ((hnd.erase _).erase _), ?_⟩
      intro key
      rw [mem_setAdd, (hnd.erase m).mem_erase_iff, hnd.mem_erase_iff, hiff key, hG', hT']
      unfold InG InT
      constructor
      · rintro (⟨hkc, hkm, (⟨S', hk, hpS'⟩ | ⟨q, S', hq, rfl, hpS'⟩)⟩ | rfl)
        · exact Or.inl (Or.inl ⟨S', hk, hkm, hpS'⟩)
        · refine Or.inr ⟨q, S', hq, ?_, rfl, hpS'⟩
          rintro rfl; exact hkc rfl
        · exact Or.inl (Or.inr ⟨rfl, hpS⟩)
      · rintro ((⟨S', hk, hkm, hpS'⟩ | ⟨rfl, _⟩) | ⟨q, S', hq, hqc, rfl, hpS'⟩)
        · refine Or.inl ⟨?_, hkm, Or.inl ⟨S', hk, hpS'⟩⟩
          rintro rfl; exact hGc S' hk
        · exact Or.inr rfl
        · refine Or.inl ⟨?_, hTm q S' hq, Or.inr ⟨q, S', hq, rfl, hpS'⟩⟩
          intro h1; simp at h1; exact hqc h1
    · simp only [hpS, if_false, Prod.mk.injEq] at heq
      obtain ⟨rfl, rfl⟩ := heq
      refine ⟨hnd, ?_⟩
      intro key
      rw [hiff key, hG', hT']
      unfold InG InT
      constructor
      · rintro (⟨S', hk, hpS'⟩ | ⟨q, S', hq, rfl, hpS'⟩)
        · refine Or.inl (Or.inl ⟨S', hk, ?_, hpS'⟩)
          rintro rfl
          have : S' = S := val_unique _ hkn _ _ _ hk hmS
          subst this; exact hpS hpS'
        · refine Or.inr ⟨q, S', hq, ?_, rfl, hpS'⟩
          rintro rfl
          exact hpS (hT S' hq hpS')
      · rintro ((⟨S', hk, hkm, hpS'⟩ | ⟨rfl, h2⟩) | ⟨q, S', hq, hqc, rfl, hpS'⟩)
        · exact Or.inl ⟨S', hk, hpS'⟩
        · exact absurd h2 hpS
        · exact Or.inr ⟨q, S', hq, rfl, hpS'⟩


/-! ### the peptide keys of the `peptides` dict never change -/

theorem applyMatch_keys (c : α) (st : St α β) (m : GKey α) :
    (applyMatch c st m).pepmap.map (·.1) = st.pepmap.map (·.1) := by
  simp only [applyMatch, List.map_map]
  apply List.map_congr_left
  intro e _
  simp only [Function.comp, renameIn]
  split <;> rfl

theorem foldl_applyMatch_keys (c : α) (ms : List (GKey α)) : ∀ st : St α β,
    (ms.foldl (applyMatch c) st).pepmap.map (·.1) = st.pepmap.map (·.1) := by
  induction ms with
  | nil => intro st; rfl
  | cons m ms ih => intro st; simp only [List.foldl_cons]; rw [ih, applyMatch_keys]

theorem step_keys (enum : List (GKey α) → List (GKey α)) (st : St α β) (pr : Prot α β) :
    (step enum st pr).pepmap.map (·.1) = st.pepmap.map (·.1) := by
  unfold step
  split
  · rfl
  · split
    · rfl
    · exact foldl_applyMatch_keys _ _ _

/-! ### the matches are exactly the groups whose peptide set contains the protein's -/

theorem mem_matchesOf {st : St α β} {T : List (Prot α β)} {Sq : List β} (h : PI st T)
    (hkn : (st.grouped.map (·.1)).Nodup) (hSq : Sq ≠ [])
    (hcomp : ∀ p ∈ Sq, p ∈ st.pepmap.map (·.1))
    (hTg : ∀ k S, (k, S) ∈ st.grouped → ∀ q S', (q, S') ∈ T → [q] ≠ k) (m : GKey α) :
    m ∈ matchesOf st Sq ↔ ∃ S, (m, S) ∈ st.grouped ∧ Sq ⊆ S := by
  unfold matchesOf
  rw [List.mem_filter, mem_interAll _ (by simpa using hSq)]
  simp only [List.any_eq_true, decide_eq_true_eq, List.mem_map, forall_exists_index, and_imp,
    forall_apply_eq_imp_iff₂]
  constructor
  · rintro ⟨hall, ⟨k, S⟩, hg, rfl⟩
    refine ⟨S, hg, ?_⟩
    intro p hp
    obtain ⟨ks, hks⟩ := exists_mem_of_mem_map_fst _ _ (hcomp p hp)
    have := hall p hp
    rw [pmGet_of_mem _ h.keys _ _ hks] at this
    rcases ((h.pm p ks hks).2 _).mp this with ⟨S', hk', hpS'⟩ | ⟨q, S', hq, hkq, _⟩
    · have : S' = S := val_unique _ hkn _ _ _ hk' hg
      subst this; exact hpS'
    · exact absurd hkq.symm (hTg _ S hg q S' hq)
  · rintro ⟨S, hg, hsub⟩
    refine ⟨?_, (m, S), hg, rfl⟩
    intro p hp
    obtain ⟨ks, hks⟩ := exists_mem_of_mem_map_fst _ _ (hcomp p hp)
    rw [pmGet_of_mem _ h.keys _ _ hks]
    exact ((h.pm p ks hks).2 _).mpr (Or.inl ⟨S, hg, hsub hp⟩)

theorem nodup_matchesOf {st : St α β} {T : List (Prot α β)} {Sq : List β} (h : PI st T)
    (hcomp : ∀ p ∈ Sq, p ∈ st.pepmap.map (·.1)) : (matchesOf st Sq).Nodup := by
  unfold matchesOf
  apply List.Nodup.filter
  apply nodup_interAll
  intro t ht
  obtain ⟨p, hp, rfl⟩ := List.mem_map.mp ht
  obtain ⟨ks, hks⟩ := exists_mem_of_mem_map_fst _ _ (hcomp p hp)
  rw [pmGet_of_mem _ h.keys _ _ hks]
  exact (h.pm p ks hks).1

/-! ### start / finish of the inner loop, and the new-group branch -/

theorem eq_of_mem_single {a c : α} {b Sq : List β} (h : (a, b) ∈ [(c, Sq)]) : c = a ∧ Sq = b := by
  simp only [List.mem_singleton, Prod.mk.injEq] at h
  exact ⟨h.1.symm, h.2.symm⟩


theorem GI_start {g : List (Group α β)} {done : List (Prot α β)} {c : α} {Sq : List β}
    {ms : List (GKey α)} (h : GI g done [] []) (hc : c ∉ done.map (·.1))
    (hms : ∀ m, m ∈ ms ↔ ∃ S, (m, S) ∈ g ∧ Sq ⊆ S) (hnd : ms.Nodup) (hne : ms ≠ []) :
    GI g done [(c, Sq)] ms := by
  have hkn := h.keys_nodup
  have hck : ∀ k S, (k, S) ∈ g → c ∉ k := by
    intro k S hk hck
    have := h.named k S hk c hck
    simp only [List.append_nil] at this
    exact hc this
  constructor
  · exact h.key_ne
  · exact h.heads
  · exact h.founder
  · exact h.members
  · intro k S hk x hx
    have := h.named k S hk x hx
    simp only [List.append_nil] at this
    simp only [List.map_append, List.mem_append]
    exact Or.inl this
  · exact h.covered
  · exact h.anti
  · intro k S hk q Sq' hq hqk
    simp only [List.mem_singleton, Prod.mk.injEq] at hq
    obtain ⟨rfl, rfl⟩ := hq
    exact absurd hqk (hck k S hk)
  · intro k S hk q Sq' hq hsub
    simp only [List.mem_singleton, Prod.mk.injEq] at hq
    obtain ⟨rfl, rfl⟩ := hq
    exact Or.inr ((hms k).mpr ⟨S, hk, hsub⟩)
  · intro m hm
    obtain ⟨S, hmS, hsub⟩ := (hms m).mp hm
    refine ⟨⟨S, hmS⟩, ?_⟩
    intro q Sq' hq
    simp only [List.mem_singleton, Prod.mk.injEq] at hq
    obtain ⟨rfl, rfl⟩ := hq
    refine ⟨hck m S hmS, ?_⟩
    intro S' hS'
    have : S' = S := val_unique _ hkn _ _ _ hS' hmS
    subst this; exact hsub
  · intro q Sq' hq
    simp only [List.mem_singleton, Prod.mk.injEq] at hq
    obtain ⟨rfl, rfl⟩ := hq
    obtain ⟨m, hm⟩ := List.exists_mem_of_ne_nil ms hne
    obtain ⟨S, hmS, hsub⟩ := (hms m).mp hm
    exact ⟨m, S, hmS, hsub⟩
  · exact hnd
  · exact h.knd

theorem GI_finish {g : List (Group α β)} {done : List (Prot α β)} {c : α} {Sq : List β}
    (h : GI g done [(c, Sq)] []) : GI g (done ++ [(c, Sq)]) [] [] := by
  constructor
  · exact h.key_ne
  · exact h.heads
  · intro k S hk
    obtain ⟨q, hq1, hq2⟩ := h.founder k S hk
    exact ⟨q, hq1, List.mem_append_left _ hq2⟩
  · intro k S hk q Sq' hq
    rcases List.mem_append.mp hq with hq | hq
    · exact h.members k S hk q Sq' hq
    · simp only [List.mem_singleton, Prod.mk.injEq] at hq
      obtain ⟨rfl, rfl⟩ := hq
      constructor
      · exact h.cur1 k S hk q Sq' (by simp)
      · intro hsub
        rcases h.cur2 k S hk q Sq' (by simp) hsub with h1 | h1
        · exact h1
        · simp at h1
  · intro k S hk x hx
    simpa using h.named k S hk x hx
  · intro q Sq' hq
    rcases List.mem_append.mp hq with hq | hq
    · exact h.covered q Sq' hq
    · simp only [List.mem_singleton, Prod.mk.injEq] at hq
      obtain ⟨rfl, rfl⟩ := hq
      obtain ⟨k, S, hk, hsub⟩ := h.cur4 q Sq' (by simp)
      rcases h.cur2 k S hk q Sq' (by simp) hsub with h1 | h1
      · exact ⟨k, S, hk, h1⟩
      · simp at h1
  · exact h.anti
  · intro k S _ q Sq' hq; simp at hq
  · intro k S _ q Sq' hq; simp at hq
  · intro m hm; simp at hm
  · intro q Sq' hq; simp at hq
  · exact List.nodup_nil
  · exact h.knd

theorem GI_addGroup {g : List (Group α β)} {done : List (Prot α β)} {c : α} {Sq : List β}
    (h : GI g done [] []) (hc : c ∉ done.map (·.1))
    (hnomatch : ∀ k S, (k, S) ∈ g → ¬ Sq ⊆ S)
    (hsize : ∀ q S, (q, S) ∈ done → Sq.length ≤ S.length)
    (hnd : ∀ q S, (q, S) ∈ done → S.Nodup) :
    GI (g ++ [([c], Sq)]) (done ++ [(c, Sq)]) [] [] := by
  have hck : ∀ k S, (k, S) ∈ g → c ∉ k := by
    intro k S hk hck
    have := h.named k S hk c hck
    simp only [List.append_nil] at this
    exact hc this
  have hnosub : ∀ q S', (q, S') ∈ done → ¬ S' ⊆ Sq := by
    intro q S' hq hsub
    have h1 : Sq ⊆ S' := subset_of_subset_of_length_le S' Sq (hnd q S' hq) hsub (hsize q S' hq)
    obtain ⟨k, S, hk, hqk⟩ := h.covered q S' hq
    have h2 : S' ⊆ S := (h.members k S hk q S' hq).mp hqk
    exact hnomatch k S hk (fun x hx => h2 (h1 hx))
  have hmem : ∀ k S, (k, S) ∈ g ++ [([c], Sq)] → (k, S) ∈ g ∨ (k = [c] ∧ S = Sq) := by
    intro k S; simp
  have hdone : ∀ q S, (q, S) ∈ done ++ [(c, Sq)] → (q, S) ∈ done ∨ (q = c ∧ S = Sq) := by
    intro q S; simp
  constructor
  · intro k S hk
    rcases hmem k S hk with hk' | ⟨h1, h2⟩
    · exact h.key_ne k S hk'
    · rw [h1]; simp
  · rw [List.map_append, List.nodup_append]
    refine ⟨h.heads, by simp, ?_⟩
    intro a ha b hb
    simp only [List.map_cons, List.map_nil, List.mem_singleton, List.head?_cons] at hb
    subst hb
    obtain ⟨⟨k, S⟩, he, rfl⟩ := List.mem_map.mp ha
    intro heq
    obtain ⟨q, hq1, hq2⟩ := h.founder k S he
    simp only at heq
    rw [heq] at hq1
    simp only [Option.some.injEq] at hq1
    rw [← hq1] at hq2
    exact hc (List.mem_map.mpr ⟨(c, S), hq2, rfl⟩)
  · intro k S hk
    rcases hmem k S hk with hk' | ⟨h1, h2⟩
    · obtain ⟨q, hq1, hq2⟩ := h.founder k S hk'
      exact ⟨q, hq1, List.mem_append_left _ hq2⟩
    · rw [h1, h2]; exact ⟨c, rfl, by simp⟩
  · intro k S hk q Sq' hq
    rcases hmem k S hk with hk' | ⟨h1, h2⟩
    · rcases hdone q Sq' hq with hq' | ⟨h3, h4⟩
      · exact h.members k S hk' q Sq' hq'
      · rw [h3, h4]
        constructor
        · intro hqk; exact absurd hqk (hck k S hk')
        · intro hsub; exact absurd hsub (hnomatch k S hk')
    · rw [h1, h2]
      rcases hdone q Sq' hq with hq' | ⟨h3, h4⟩
      · constructor
        · intro hqc
          simp only [List.mem_singleton] at hqc
          rw [hqc] at hq'
          exact absurd (List.mem_map.mpr ⟨(c, Sq'), hq', rfl⟩) hc
        · intro hsub; exact absurd hsub (hnosub q Sq' hq')
      · rw [h3, h4]; simp
  · intro k S hk x hx
    simp only [List.append_nil, List.map_append, List.mem_append, List.map_cons, List.map_nil,
      List.mem_singleton]
    rcases hmem k S hk with hk' | ⟨h1, h2⟩
    · have := h.named k S hk' x hx
      simp only [List.append_nil] at this
      exact Or.inl this
    · rw [h1] at hx
      simp only [List.mem_singleton] at hx
      exact Or.inr hx
  · intro q Sq' hq
    rcases hdone q Sq' hq with hq' | ⟨h3, h4⟩
    · obtain ⟨k, S, hk, hqk⟩ := h.covered q Sq' hq'
      exact ⟨k, S, List.mem_append_left _ hk, hqk⟩
    · exact ⟨[c], Sq, by simp, by simp [h3]⟩
  · intro k1 S1 k2 S2 h1 h2 hsub
    rcases hmem k1 S1 h1 with h1' | ⟨e1, e2⟩ <;>
      rcases hmem k2 S2 h2 with h2' | ⟨e3, e4⟩
    · exact h.anti k1 S1 k2 S2 h1' h2' hsub
    · obtain ⟨q, _, hq2⟩ := h.founder k1 S1 h1'
      rw [e4] at hsub
      exact absurd hsub (hnosub q S1 hq2)
    · rw [e2] at hsub
      exact absurd hsub (hnomatch k2 S2 h2')
    · rw [e1, e3]
  · intro k S _ q Sq' hq; simp at hq
  · intro k S _ q Sq' hq; simp at hq
  · intro m hm; simp at hm
  · intro q Sq' hq; simp at hq
  · exact List.nodup_nil
  · intro k S hk
    rcases hmem k S hk with hk' | ⟨h1, h2⟩
    · exact h.knd k S hk'
    · rw [h1]; exact List.nodup_singleton c

theorem PI_addGroup {st : St α β} {c : α} {Sq : List β} {rest : List (Prot α β)}
    (h : PI st ((c, Sq) :: rest)) : PI (addGroup st (c, Sq)) rest := by
  constructor
  · exact h.keys
  · intro p ks hp
    obtain ⟨hnd, hiff⟩ := h.pm p ks hp
    refine ⟨hnd, ?_⟩
    intro key
    have hG : InG (addGroup st (c, Sq)).grouped p key ↔ InG st.grouped p key ∨ (key = [c] ∧ p ∈ Sq) := by
      unfold InG addGroup
      constructor
      · rintro ⟨S, hk, hpS⟩
        rcases List.mem_append.mp hk with hk' | hk'
        · exact Or.inl ⟨S, hk', hpS⟩
        · simp only [List.mem_singleton, Prod.mk.injEq] at hk'
          rw [hk'.2] at hpS
          exact Or.inr ⟨hk'.1, hpS⟩
      · rintro (⟨S, hk, hpS⟩ | ⟨h1, h2⟩)
        · exact ⟨S, List.mem_append_left _ hk, hpS⟩
        · exact ⟨Sq, by rw [h1]; simp, h2⟩
    have hT : InT ((c, Sq) :: rest) p key ↔ (key = [c] ∧ p ∈ Sq) ∨ InT rest p key := by
      unfold InT
      constructor
      · rintro ⟨q, S, hq, h1, h2⟩
        rcases List.mem_cons.mp hq with hq' | hq'
        · simp only [Prod.mk.injEq] at hq'
          rw [hq'.1] at h1; rw [hq'.2] at h2
          exact Or.inl ⟨h1, h2⟩
        · exact Or.inr ⟨q, S, hq', h1, h2⟩
      · rintro (⟨h1, h2⟩ | ⟨q, S, hq, h1, h2⟩)
        · exact ⟨c, Sq, by simp, h1, h2⟩
        · exact ⟨q, S, List.mem_cons_of_mem _ hq, h1, h2⟩
    rw [hiff key, hG, hT]
    constructor
    · rintro (h1 | h1 | h1)
      · exact Or.inl (Or.inl h1)
      · exact Or.inl (Or.inr h1)
      · exact Or.inr h1
    · rintro ((h1 | h1) | h1)
      · exact Or.inl h1
      · exact Or.inr (Or.inl h1)
      · exact Or.inr (Or.inr h1)


/-! ### the inner loop `for match in matches` -/

theorem filter_ne_name (c : α) (rest : List (Prot α β)) (hcr : c ∉ rest.map (·.1)) :
    rest.filter (fun e => !decide (e.1 = c)) = rest := by
  rw [List.filter_eq_self]
  intro e he
  simp only [Bool.not_eq_true', decide_eq_false_iff_not]
  intro hec
  exact hcr (List.mem_map.mpr ⟨e, he, hec⟩)

theorem applyMatchSafe_of_inv {st : St α β} {T done cur : List (Prot α β)} {ms : List (GKey α)}
    {m : GKey α} (hG : GI st.grouped done cur ms) (hP : PI st T) (S : List β) (hmS : (m, S) ∈ st.grouped)
    (hcompd : ∀ q S, (q, S) ∈ done → ∀ p ∈ S, p ∈ st.pepmap.map (·.1)) :
    applyMatchSafe st m = true := by
  unfold applyMatchSafe
  rw [Bool.and_eq_true, List.any_eq_true, List.all_eq_true]
  refine ⟨⟨(m, S), hmS, by simp⟩, ?_⟩
  rw [gGet_of_mem _ hG.keys_nodup _ _ hmS]
  intro p hp
  simp only [decide_eq_true_eq]
  obtain ⟨q, _, hq⟩ := hG.founder m S hmS
  obtain ⟨ks, hks⟩ := exists_mem_of_mem_map_fst _ _ (hcompd q S hq p hp)
  rw [pmGet_of_mem _ hP.keys _ _ hks]
  exact ((hP.pm p ks hks).2 m).mpr (Or.inl ⟨S, hmS, hp⟩)

theorem fold_inv (c : α) (Sq : List β) (done rest : List (Prot α β))
    (hc : c ∉ done.map (·.1)) (hcr : c ∉ rest.map (·.1))
    (hdr : ∀ d ∈ done, ∀ t ∈ rest, d.1 ≠ t.1) :
    ∀ (ms : List (GKey α)) (st : St α β) (T : List (Prot α β)),
      (T = (c, Sq) :: rest ∨ T = rest) → GI st.grouped done [(c, Sq)] ms → PI st T →
      (ms ≠ [] ∨ T = rest) →
      (∀ q S, (q, S) ∈ done → ∀ p ∈ S, p ∈ st.pepmap.map (·.1)) →
      GI (ms.foldl (applyMatch c) st).grouped done [(c, Sq)] [] ∧
        PI (ms.foldl (applyMatch c) st) rest ∧ foldSafe c st ms = true := by
  intro ms
  induction ms with
  | nil =>
    intro st T _ hG hP hne _
    rcases hne with hne | hne
    · exact absurd rfl hne
    · subst hne; exact ⟨hG, hP, rfl⟩
  | cons m ms ih =>
    intro st T hT hG hP _ hcompd
    simp only [List.foldl_cons, foldSafe, Bool.and_eq_true]
    obtain ⟨⟨S, hmS⟩, hcm⟩ := hG.cur3 m (by simp)
    obtain ⟨_, hcm2⟩ := hcm c Sq (by simp)
    have hne : m ≠ [] := hG.key_ne m S hmS
    have hTfilter : T.filter (fun e => !decide (e.1 = c)) = rest := by
      rcases hT with h | h
      · rw [h, List.filter_cons]
        simp only [decide_true, Bool.not_true, Bool.false_eq_true, if_false]
        exact filter_ne_name c rest hcr
      · rw [h]; exact filter_ne_name c rest hcr
    have hTnames : ∀ q S', (q, S') ∈ T → q = c ∧ S' = Sq ∨ (q, S') ∈ rest := by
      intro q S' hq
      rcases hT with h | h
      · rw [h] at hq
        rcases List.mem_cons.mp hq with hq' | hq'
        · simp only [Prod.mk.injEq] at hq'; exact Or.inl hq'
        · exact Or.inr hq'
      · rw [h] at hq; exact Or.inr hq
    have hP' := PI_applyMatch (c := c) hG.keys_nodup hmS hne
      (by
        intro S' hS'
        rcases hTnames c S' hS' with ⟨_, h2⟩ | h2
        · rw [h2]; exact hcm2 S hmS
        · exact absurd (List.mem_map.mpr ⟨(c, S'), h2, rfl⟩) hcr)
      (by
        intro S' hS'
        obtain ⟨q, hq1, hq2⟩ := hG.founder _ _ hS'
        simp only [List.head?_cons, Option.some.injEq] at hq1
        rw [← hq1] at hq2
        exact hc (List.mem_map.mpr ⟨(c, S'), hq2, rfl⟩))
      (by
        intro q S' hq hqm
        obtain ⟨q', hq1, hq2⟩ := hG.founder _ _ hmS
        rw [← hqm] at hq1
        simp only [List.head?_cons, Option.some.injEq] at hq1
        rw [← hq1] at hq2
        rcases hTnames q S' hq with ⟨h1, _⟩ | h2
        · rw [h1] at hq2
          exact hc (List.mem_map.mpr ⟨(c, S), hq2, rfl⟩)
        · exact hdr _ hq2 _ h2 rfl)
      hP
    rw [hTfilter] at hP'
    obtain ⟨h1, h2, h3⟩ := ih _ rest (Or.inr rfl) (GI_applyMatch hG hc) hP' (Or.inr rfl)
      (by rw [applyMatch_keys]; exact hcompd)
    exact ⟨h1, h2, applyMatchSafe_of_inv hG hP S hmS hcompd, h3⟩

/-! ### one iteration of the outer loop -/

theorem step_inv (enum : List (GKey α) → List (GKey α)) (henum : ∀ s, (enum s).Perm s)
    (st : St α β) (done rest : List (Prot α β)) (c : α) (Sq : List β)
    (hc : c ∉ done.map (·.1)) (hcr : c ∉ rest.map (·.1))
    (hdr : ∀ d ∈ done, ∀ t ∈ rest, d.1 ≠ t.1)
    (hsize : ∀ q S, (q, S) ∈ done → Sq.length ≤ S.length)
    (hnd : ∀ q S, (q, S) ∈ done → S.Nodup) (hSq : Sq ≠ [])
    (hcomp : ∀ p ∈ Sq, p ∈ st.pepmap.map (·.1))
    (hcompd : ∀ q S, (q, S) ∈ done → ∀ p ∈ S, p ∈ st.pepmap.map (·.1))
    (hG : GI st.grouped done [] []) (hP : PI st ((c, Sq) :: rest)) :
    GI (step enum st (c, Sq)).grouped (done ++ [(c, Sq)]) [] [] ∧ PI (step enum st (c, Sq)) rest ∧
      stepSafe enum st (c, Sq) = true := by
  have hkn := hG.keys_nodup
  have hTg : ∀ k S, (k, S) ∈ st.grouped → ∀ q S', (q, S') ∈ (c, Sq) :: rest → [q] ≠ k := by
    intro k S hk q S' hq hqk
    obtain ⟨q', hq1, hq2⟩ := hG.founder k S hk
    rw [← hqk] at hq1
    simp only [List.head?_cons, Option.some.injEq] at hq1
    rw [← hq1] at hq2
    rcases List.mem_cons.mp hq with hq' | hq'
    · simp only [Prod.mk.injEq] at hq'
      rw [hq'.1] at hq2
      exact hc (List.mem_map.mpr ⟨(c, S), hq2, rfl⟩)
    · exact hdr _ hq2 _ hq' rfl
  have hmatch := mem_matchesOf hP hkn hSq hcomp hTg
  have hadd : (∀ k S, (k, S) ∈ st.grouped → ¬ Sq ⊆ S) →
      GI (addGroup st (c, Sq)).grouped (done ++ [(c, Sq)]) [] [] ∧ PI (addGroup st (c, Sq)) rest :=
    fun hno => ⟨GI_addGroup hG hc hno hsize hnd, PI_addGroup hP⟩
  unfold step stepSafe
  split
  · rename_i hemp
    have hno : ∀ k S, (k, S) ∈ st.grouped → ¬ Sq ⊆ S := by
      intro k S hk
      rw [List.isEmpty_iff] at hemp
      rw [hemp] at hk
      simp at hk
    exact ⟨(hadd hno).1, (hadd hno).2, rfl⟩
  · split
    · rename_i hemp
      have hno : ∀ k S, (k, S) ∈ st.grouped → ¬ Sq ⊆ S := by
        intro k S hk hsub
        rw [List.isEmpty_iff] at hemp
        have := (hmatch k).mpr ⟨S, hk, hsub⟩
        rw [hemp] at this
        simp at this
      exact ⟨(hadd hno).1, (hadd hno).2, rfl⟩
    · rename_i hne
      have hne' : matchesOf st Sq ≠ [] := by
        intro h0; rw [h0] at hne; simp at hne
      have hperm := henum (matchesOf st Sq)
      have hms : ∀ m, m ∈ enum (matchesOf st Sq) ↔ ∃ S, (m, S) ∈ st.grouped ∧ Sq ⊆ S := by
        intro m; rw [hperm.mem_iff]; exact hmatch m
      have hndm : (enum (matchesOf st Sq)).Nodup := hperm.nodup_iff.mpr (nodup_matchesOf hP hcomp)
      have hnem : enum (matchesOf st Sq) ≠ [] := by
        intro h0
        rw [h0] at hperm
        exact hne' (List.nil_perm.mp hperm)
      have hstart := GI_start (c := c) (Sq := Sq) hG hc hms hndm hnem
      obtain ⟨h1, h2, h3⟩ :=
        fold_inv c Sq done rest hc hcr hdr _ st _ (Or.inl rfl) hstart hP (Or.inl hnem) hcompd
      exact ⟨GI_finish h1, h2, h3⟩

theorem groupGo_keys (enum : Nat → List (GKey α) → List (GKey α)) :
    ∀ (todo : List (Prot α β)) (st : St α β),
      (groupGo enum st todo).pepmap.map (·.1) = st.pepmap.map (·.1) := by
  intro todo
  induction todo with
  | nil => intro st; rfl
  | cons pr rest ih => intro st; simp only [groupGo]; rw [ih, step_keys]

/-! ### the whole loop -/

theorem groupGo_inv (enum : Nat → List (GKey α) → List (GKey α)) (henum : ∀ n s, (enum n s).Perm s) :
    ∀ (todo done : List (Prot α β)) (st : St α β),
      ((done ++ todo).map (·.1)).Nodup →
      (∀ q S, (q, S) ∈ done ++ todo → S ≠ [] ∧ S.Nodup) →
      (done ++ todo).Pairwise (fun a b => b.2.length ≤ a.2.length) →
      (∀ q S, (q, S) ∈ done ++ todo → ∀ p ∈ S, p ∈ st.pepmap.map (·.1)) →
      GI st.grouped done [] [] → PI st todo →
      GI (groupGo enum st todo).grouped (done ++ todo) [] [] ∧ PI (groupGo enum st todo) [] ∧
        groupGoSafe enum st todo = true := by
  intro todo
  induction todo with
  | nil =>
    intro done st _ _ _ _ hG hP
    simpa [groupGo, groupGoSafe] using And.intro hG hP
  | cons pr rest ih =>
    intro done st hnames hwf hsort hcomp hG hP
    obtain ⟨c, Sq⟩ := pr
    have hassoc : done ++ (c, Sq) :: rest = (done ++ [(c, Sq)]) ++ rest := by simp
    simp only [groupGo]
    rw [List.map_append, List.map_cons, List.nodup_append] at hnames
    obtain ⟨_, hn2, hn3⟩ := hnames
    rw [List.nodup_cons] at hn2
    have hc : c ∉ done.map (·.1) := fun h => hn3 _ h _ (by simp) rfl
    have hdr : ∀ d ∈ done, ∀ t ∈ rest, d.1 ≠ t.1 := by
      intro d hd t ht
      exact hn3 _ (List.mem_map.mpr ⟨d, hd, rfl⟩) _
        (List.mem_cons_of_mem _ (List.mem_map.mpr ⟨t, ht, rfl⟩))
    rw [List.pairwise_append] at hsort
    have hstep := step_inv (enum rest.length) (henum rest.length) st done rest c Sq hc hn2.1 hdr
      (fun q S hq => hsort.2.2 (q, S) hq (c, Sq) (by simp))
      (fun q S hq => (hwf q S (List.mem_append_left _ hq)).2)
      (hwf c Sq (by simp)).1
      (hcomp c Sq (by simp)) (fun q S hq => hcomp q S (List.mem_append_left _ hq)) hG hP
    simp only [groupGoSafe, Bool.and_eq_true]
    rw [hassoc]
    suffices h : GI (groupGo enum (step (enum rest.length) st (c, Sq)) rest).grouped
        (done ++ [(c, Sq)] ++ rest) [] [] ∧ PI (groupGo enum (step (enum rest.length) st (c, Sq)) rest) [] ∧
        groupGoSafe enum (step (enum rest.length) st (c, Sq)) rest = true from
      ⟨h.1, h.2.1, hstep.2.2, h.2.2⟩
    apply ih (done ++ [(c, Sq)]) _
    · rw [← hassoc, List.map_append, List.map_cons, List.nodup_append]
      exact ⟨by assumption, List.nodup_cons.mpr hn2, hn3⟩
    · rw [← hassoc]; exact hwf
    · rw [← hassoc, List.pairwise_append]; exact hsort
    · rw [← hassoc, step_keys]; exact hcomp
    · exact hstep.1
    · exact hstep.2.1

end Mk.Grouping
