import MokapotVerif.Model.QvaluesArr
import MokapotVerif.Lemmas.QvaluesSort
/-! Helper lemmas for the array-level model of C01: run lengths (`np.unique` counts),
`np.argmax`, and what the `_fdr2qvalue` loop does when one more (better) PSM is appended to
the worst-first arrays. -/
namespace Mk.Qv
open Mk
variable {α : Type}

/-! ### run lengths -/

/-- one more member for the last run (proof device) -/
def bumpLast : List Nat → List Nat
  | [] => [1]
  | [c] => [c + 1]
  | c :: c2 :: cs => c :: bumpLast (c2 :: cs)

theorem bumpLast_cons (c : Nat) {L : List Nat} (h : L ≠ []) : bumpLast (c :: L) = c :: bumpLast L := by
  cases L with
  | nil => exact absurd rfl h
  | cons d L' => rfl

theorem bumpLast_snoc (M : List Nat) (c : Nat) : bumpLast (M ++ [c]) = M ++ [c + 1] := by
  induction M with
  | nil => rfl
  | cons d M' ih =>
    have hne : M' ++ [c] ≠ [] := by simp
    rw [List.cons_append, bumpLast_cons d hne, ih, List.cons_append]

theorem bumpHead_bumpLast_comm {L : List Nat} (h : L ≠ []) :
    bumpHead (bumpLast L) = bumpLast (bumpHead L) := by
  cases L with
  | nil => exact absurd rfl h
  | cons c L' =>
    cases L' with
    | nil => rfl
    | cons d L'' => rfl

theorem bumpHead_append {L : List Nat} (h : L ≠ []) (M : List Nat) :
    bumpHead (L ++ M) = bumpHead L ++ M := by
  cases L with
  | nil => exact absurd rfl h
  | cons c L' => rfl

theorem bumpHead_ne_nil (L : List Nat) : bumpHead L ≠ [] := by
  cases L <;> simp [bumpHead]

theorem reverse_bumpHead (L : List Nat) : (bumpHead L).reverse = bumpLast L.reverse := by
  cases L with
  | nil => rfl
  | cons c cs => simp only [bumpHead, List.reverse_cons]; rw [bumpLast_snoc]

theorem sum_bumpHead (L : List Nat) : (bumpHead L).sum = L.sum + 1 := by
  cases L with
  | nil => rfl
  | cons c cs => simp [bumpHead]; omega

theorem runLengths_ne_nil (tie : α → α → Bool) {xs : List α} (h : xs ≠ []) :
    runLengths tie xs ≠ [] := by
  cases xs with
  | nil => exact absurd rfl h
  | cons x xs' =>
    simp only [runLengths]
    split
    · exact bumpHead_ne_nil _
    · simp

theorem runLengths_sum (tie : α → α → Bool) (xs : List α) : (runLengths tie xs).sum = xs.length := by
  induction xs with
  | nil => rfl
  | cons x xs ih =>
    simp only [runLengths]
    split
    · rw [sum_bumpHead, ih]; rfl
    · simp [ih]; omega

theorem tiesHead_append_of_ne_nil (f : α → α → Bool) (y : α) {R : List α} (h : R ≠ []) (S : List α) :
    tiesHead f y (R ++ S) = tiesHead f y R := by
  cases R with
  | nil => exact absurd rfl h
  | cons r R' => rfl

/-- appending one element at the end either extends the last run or opens a new one -/
theorem runLengths_snoc (tie : α → α → Bool) (w : List α) (y : α) :
    runLengths tie (w ++ [y]) =
      if tiesHead (fun a b => tie b a) y w.reverse then bumpLast (runLengths tie w)
      else runLengths tie w ++ [1] := by
  induction w with
  | nil => simp [runLengths, tiesHead]
  | cons a w' ih =>
    cases w' with
    | nil =>
      simp only [List.cons_append, List.nil_append, runLengths, tiesHead, List.reverse_cons,
        List.reverse_nil]
      by_cases h : tie a y = true
      · simp [h, bumpHead, bumpLast]
      · simp [h]
    | cons b w'' =>
      have hne : runLengths tie (b :: w'') ≠ [] := runLengths_ne_nil tie (by simp)
      have hrev : (b :: w'').reverse ≠ [] := by simp
      have hcond : tiesHead (fun a b => tie b a) y (a :: b :: w'').reverse
          = tiesHead (fun a b => tie b a) y (b :: w'').reverse := by
        rw [List.reverse_cons (a := a)]
        exact tiesHead_append_of_ne_nil _ y hrev [a]
      rw [hcond]
      have hstep : runLengths tie ((a :: b :: w'') ++ [y])
          = if tie a b then bumpHead (runLengths tie ((b :: w'') ++ [y]))
            else 1 :: runLengths tie ((b :: w'') ++ [y]) := rfl
      have hstep' : runLengths tie (a :: b :: w'')
          = if tie a b then bumpHead (runLengths tie (b :: w'')) else 1 :: runLengths tie (b :: w'') := rfl
      rw [hstep, hstep', ih]
      by_cases h1 : tie a b = true <;>
        by_cases h2 : tiesHead (fun a b => tie b a) y (b :: w'').reverse = true
      · simp only [h1, h2, if_true]; exact bumpHead_bumpLast_comm hne
      · simp only [h1, h2, if_true]; exact bumpHead_append hne [1]
      · simp only [h1, h2, if_true]; simp only [Bool.false_eq_true, if_false]
        exact (bumpLast_cons 1 hne).symm
      · simp only [h1, h2]; simp

theorem tiesHead_symm (tie : α → α → Bool) (hsymm : ∀ a b, tie a b = tie b a) (x : α) (xs : List α) :
    tiesHead (fun a b => tie b a) x xs = tiesHead tie x xs := by
  cases xs with
  | nil => rfl
  | cons y ys => simp only [tiesHead]; exact hsymm y x

/-- run lengths of the reversed list are the reversed run lengths (symmetric tie) -/
theorem runLengths_reverse (tie : α → α → Bool) (hsymm : ∀ a b, tie a b = tie b a) (l : List α) :
    runLengths tie l.reverse = (runLengths tie l).reverse := by
  induction l with
  | nil => rfl
  | cons x xs ih =>
    rw [List.reverse_cons, runLengths_snoc, List.reverse_reverse, tiesHead_symm tie hsymm, ih]
    simp only [runLengths]
    split
    · rw [reverse_bumpHead]
    · simp

/-! ### `np.argmax` -/

theorem argmaxGo_snoc (n : Nat) (xs : List Nat) : ∀ best bi i, n ≤ best →
    argmaxGo best bi i (xs ++ [n]) = argmaxGo best bi i xs := by
  induction xs with
  | nil =>
    intro best bi i h
    simp only [List.nil_append, argmaxGo]
    rw [if_neg (by omega)]
  | cons x xs ih =>
    intro best bi i h
    simp only [List.cons_append, argmaxGo]
    split
    · exact ih _ _ _ (by omega)
    · exact ih _ _ _ h

theorem argmaxNat_snoc (n : Nat) {N : List Nat} (hne : N ≠ []) (h : ∀ y ∈ N, n ≤ y) :
    argmaxNat (N ++ [n]) = argmaxNat N := by
  cases N with
  | nil => exact absurd rfl hne
  | cons x xs =>
    simp only [List.cons_append, argmaxNat]
    exact argmaxGo_snoc n xs x 0 1 (h x (by simp))

theorem argmaxGo_lt (xs : List Nat) : ∀ best bi i, bi < i → argmaxGo best bi i xs < i + xs.length := by
  induction xs with
  | nil => intro best bi i h; simpa [argmaxGo] using h
  | cons x xs ih =>
    intro best bi i h
    simp only [argmaxGo, List.length_cons]
    split
    · have := ih x i (i + 1) (by omega); omega
    · have := ih best bi (i + 1) (by omega); omega

theorem argmaxNat_lt {N : List Nat} (hne : N ≠ []) : argmaxNat N < N.length := by
  cases N with
  | nil => exact absurd rfl hne
  | cons x xs =>
    simp only [argmaxNat, List.length_cons]
    have := argmaxGo_lt xs x 0 1 (by omega); omega

/-! ### the loop -/

/-- last element, or `d` for the empty list: the loop's `min_q` after the groups written so far -/
def lastOr (d : Rat) : List Rat → Rat
  | [] => d
  | x :: xs => lastOr x xs

theorem lastOr_append_singleton (d : Rat) (Q : List Rat) (y : Rat) : lastOr d (Q ++ [y]) = y := by
  induction Q generalizing d with
  | nil => rfl
  | cons x xs ih => exact ih x

theorem lastOr_replicate_append (d v : Rat) (k : Nat) (hk : 1 ≤ k) (Q : List Rat) :
    lastOr d (List.replicate k v ++ Q) = lastOr v Q := by
  induction k generalizing d with
  | zero => omega
  | succ k ih =>
    cases k with
    | zero => rfl
    | succ k' =>
      rw [List.replicate_succ, List.cons_append]
      exact ih v (by omega)

theorem lastOr_reverse (L : List Rat) : lastOr 1 L.reverse = L.headD 1 := by
  cases L with
  | nil => rfl
  | cons x xs => rw [List.reverse_cons, lastOr_append_singleton]; rfl

theorem ite_lt_eq_min (f m : Rat) : (if f < m then f else m) = min f m := by
  by_cases h : f < m
  · rw [if_pos h, min_eq_left (le_of_lt h)]
  · rw [if_neg h, min_eq_right (not_lt.mp h)]

theorem getD_append_left' (l l' : List Rat) (d : Rat) (n : Nat) (h : n < l.length) :
    (l ++ l').getD n d = l.getD n d := by
  simp only [List.getD_eq_getElem?_getD, List.getElem?_append_left h]

/-- what a successful first step of the loop looks like -/
theorem fdr2qLoop_cons_some {m : Rat} {A : List Rat} {N : List Nat} {c : Nat} {cs : List Nat}
    {Q : List Rat} (h : fdr2qLoop m A N (c :: cs) = some Q) :
    (N.take c).isEmpty = false ∧
      ∃ Q', fdr2qLoop (grpMin m (A.take c) (N.take c)) (A.drop c) (N.drop c) cs = some Q' ∧
        Q = List.replicate (A.take c).length (grpMin m (A.take c) (N.take c)) ++ Q' := by
  simp only [fdr2qLoop] at h
  by_cases he : (N.take c).isEmpty = true
  · simp [he] at h
  · have he' : (N.take c).isEmpty = false := by simpa using he
    refine ⟨he', ?_⟩
    rw [if_neg he] at h
    cases hq : fdr2qLoop (grpMin m (A.take c) (N.take c)) (A.drop c) (N.drop c) cs with
    | none => rw [hq] at h; simp at h
    | some Q' =>
      rw [hq] at h
      simp only [Option.map_some, Option.some.injEq] at h
      exact ⟨Q', rfl, h.symm⟩

theorem take_nonempty_pos {β : Type} {N : List β} {c : Nat} (h : (N.take c).isEmpty = false) :
    1 ≤ c ∧ N ≠ [] := by
  constructor
  · cases c with
    | zero => simp at h
    | succ c => omega
  · rintro rfl; simp at h

/-- a new (better) score that ties with nothing: one more group of one member -/
theorem fdr2qLoop_snoc_new (f : Rat) (n : Nat) (cs : List Nat) : ∀ (m : Rat) (A : List Rat) (N : List Nat)
    (Q : List Rat), cs.sum = A.length → A.length = N.length → fdr2qLoop m A N cs = some Q →
    fdr2qLoop m (A ++ [f]) (N ++ [n]) (cs ++ [1]) = some (Q ++ [min f (lastOr m Q)]) := by
  induction cs with
  | nil =>
    intro m A N Q hs hl h
    have hA : A = [] := List.eq_nil_of_length_eq_zero (by simpa using hs.symm)
    have hN : N = [] := List.eq_nil_of_length_eq_zero (by rw [← hl, hA]; rfl)
    subst hA; subst hN
    simp only [fdr2qLoop, List.map_nil, Option.some.injEq] at h
    subst h
    simp [fdr2qLoop, grpMin, argmaxNat, argmaxGo, lastOr, ite_lt_eq_min]
  | cons c cs' ih =>
    intro m A N Q hs hl h
    obtain ⟨hne, Q', hq, rfl⟩ := fdr2qLoop_cons_some h
    obtain ⟨hc1, hNne⟩ := take_nonempty_pos hne
    have hcA : c ≤ A.length := by simp at hs; omega
    have hcN : c ≤ N.length := by omega
    have hAne : A ≠ [] := by
      rintro rfl
      exact hNne (List.eq_nil_of_length_eq_zero (by rw [← hl]; rfl))
    have hk : 1 ≤ (A.take c).length := by
      rw [List.length_take]
      have : 0 < A.length := List.length_pos_iff.mpr hAne
      omega
    have ih' := ih (grpMin m (A.take c) (N.take c)) (A.drop c) (N.drop c) Q'
      (by rw [List.length_drop]; simp at hs; omega)
      (by rw [List.length_drop, List.length_drop, hl]) hq
    simp only [List.cons_append, fdr2qLoop]
    rw [List.take_append_of_le_length hcA, List.take_append_of_le_length hcN,
      List.drop_append_of_le_length hcA, List.drop_append_of_le_length hcN, if_neg (by simp [hne]), ih']
    simp only [Option.map_some, List.append_assoc]
    rw [lastOr_replicate_append _ _ _ hk]

/-- a new (better) score that ties with the best group so far: that group grows by one
member whose `num_total` is smaller, so the group's FDR and `min_q` stay -/
theorem fdr2qLoop_snoc_bump (f : Rat) (n : Nat) (cs : List Nat) : ∀ (m : Rat) (A : List Rat) (N : List Nat)
    (Q : List Rat), cs ≠ [] → cs.sum = A.length → A.length = N.length → (∀ y ∈ N, n ≤ y) →
    fdr2qLoop m A N cs = some Q →
    fdr2qLoop m (A ++ [f]) (N ++ [n]) (bumpLast cs) = some (Q ++ [lastOr m Q]) := by
  induction cs with
  | nil => intro m A N Q h; exact absurd rfl h
  | cons c cs' ih =>
    intro m A N Q _ hs hl hn h
    obtain ⟨hne, Q', hq, rfl⟩ := fdr2qLoop_cons_some h
    obtain ⟨hc1, hNne⟩ := take_nonempty_pos hne
    have hcA : c ≤ A.length := by simp at hs; omega
    have hcN : c ≤ N.length := by omega
    have hAne : A ≠ [] := by
      rintro rfl
      exact hNne (List.eq_nil_of_length_eq_zero (by rw [← hl]; rfl))
    have hk : 1 ≤ (A.take c).length := by
      rw [List.length_take]
      have : 0 < A.length := List.length_pos_iff.mpr hAne
      omega
    cases cs' with
    | nil =>
      -- the last group: it is the whole of what is left
      have hcA' : c = A.length := by simpa using hs
      have hcN' : c = N.length := by omega
      have htA : A.take c = A := by rw [hcA']; exact List.take_length
      have htN : N.take c = N := by rw [hcN']; exact List.take_length
      have hdA : A.drop c = [] := by rw [hcA']; exact List.drop_length
      have hdN : N.drop c = [] := by rw [hcN']; exact List.drop_length
      rw [htA, htN, hdA, hdN] at hq
      simp only [fdr2qLoop, List.map_nil, Option.some.injEq] at hq
      subst hq
      rw [htA, htN]
      have htA2 : (A ++ [f]).take (c + 1) = A ++ [f] := by
        rw [hcA']; exact List.take_of_length_le (by simp)
      have htN2 : (N ++ [n]).take (c + 1) = N ++ [n] := by
        rw [hcN']; exact List.take_of_length_le (by simp)
      have hdA2 : (A ++ [f]).drop (c + 1) = [] := by
        rw [hcA']; exact List.drop_of_length_le (by simp)
      have hdN2 : (N ++ [n]).drop (c + 1) = [] := by
        rw [hcN']; exact List.drop_of_length_le (by simp)
      have hg : grpMin m (A ++ [f]) (N ++ [n]) = grpMin m A N := by
        unfold grpMin
        rw [argmaxNat_snoc n hNne hn]
        have hlt : argmaxNat N < A.length := by rw [hl]; exact argmaxNat_lt hNne
        rw [getD_append_left' _ _ _ _ hlt]
      simp only [bumpLast, fdr2qLoop]
      rw [htA2, htN2, hdA2, if_neg (by simp), hg]
      simp only [List.map_nil, Option.map_some, List.append_nil, List.length_append,
        List.length_cons, List.length_nil, Option.some.injEq]
      have hA1 : 1 ≤ A.length := by omega
      have hlast : lastOr m (List.replicate A.length (grpMin m A N)) = grpMin m A N := by
        have := lastOr_replicate_append m (grpMin m A N) A.length hA1 []
        simpa [lastOr] using this
      rw [hlast, Nat.zero_add, List.replicate_succ']
    | cons c2 cs'' =>
      have ih' := ih (grpMin m (A.take c) (N.take c)) (A.drop c) (N.drop c) Q' (by simp)
        (by rw [List.length_drop]; simp at hs ⊢; omega)
        (by rw [List.length_drop, List.length_drop, hl])
        (fun y hy => hn y (List.mem_of_mem_drop hy)) hq
      rw [bumpLast_cons c (by simp)]
      simp only [fdr2qLoop]
      rw [List.take_append_of_le_length hcA, List.take_append_of_le_length hcN,
        List.drop_append_of_le_length hcA, List.drop_append_of_le_length hcN, if_neg (by simp [hne]), ih']
      simp only [Option.map_some, List.append_assoc]
      rw [lastOr_replicate_append _ _ _ hk]

end Mk.Qv
