import MokapotVerif.Lemmas.DigestSites
/-!
`digest` = `DigestSpec`: pairs of indices `(i, i+d)` into the list of sites with
`1 ≤ d ≤ mc+1` and a non-empty slice are exactly the pairs of cleavage positions
`a < b` with at most `mc` cleavage positions strictly between.
-/
namespace Mk

/-! ## slices -/

theorem slice_length (seq : List Char) (a b : Nat) : (slice seq a b).length = min b seq.length - a := by
  simp [slice]

theorem slice_head (seq : List Char) (b : Nat) (hb : 0 < b) : (slice seq 0 b).head? = seq.head? := by
  cases seq with
  | nil => simp [slice]
  | cons c rest =>
    obtain ⟨b', rfl⟩ : ∃ b', b = b' + 1 := ⟨b - 1, by omega⟩
    simp [slice]

theorem slice_drop (seq : List Char) (a b k : Nat) : (slice seq a b).drop k = slice seq (a + k) b := by
  simp [slice, List.drop_drop]

theorem slice_take (seq : List Char) (a b k : Nat) (hk : a + k ≤ b) :
    (slice seq a b).take (b - a - k) = slice seq a (b - k) := by
  unfold slice
  rw [List.take_drop, List.take_take]
  congr 2
  omega

/-! ## index pairs ↔ position pairs -/

/-- from indices to positions -/
theorem sites_pair_to_pos (e : Enzyme) (seq : List Char) (i d a b : Nat)
    (ha : (cleavageSites e seq)[i]? = some a) (hb : (cleavageSites e seq)[i + d]? = some b)
    (hab : a < b) (hd : 1 ≤ d) :
    b ≤ seq.length ∧ isSite e seq a = true ∧ isSite e seq b = true ∧ missed e seq a b ≤ d - 1
      ∧ (i = 0 ↔ a = 0) := by
  rw [sites_getElem?] at ha hb
  have hbn : b ≤ seq.length := by
    rcases hb with ⟨h, -, -⟩ | ⟨-, h⟩ <;> omega
  -- `a < seq.length`, so `a` is an inner site and `i` is its rank
  have ha' : innerSite e seq a = true ∧ rank (innerSite e seq) a = i := by
    rcases ha with ⟨-, h2, h3⟩ | ⟨-, h⟩
    · exact ⟨h2, h3⟩
    · omega
  obtain ⟨ha1, ha2⟩ := ha'
  have hm := missed_rank e seq a b hab hbn
  rw [rank_succ, ha1] at hm
  simp only [if_true] at hm
  refine ⟨hbn, ?_, ?_, ?_, ?_⟩
  · rw [isSite_eq_inner e seq a (by omega)]; exact ha1
  · rcases hb with ⟨-, h2, -⟩ | ⟨-, h⟩
    · unfold isSite; unfold innerSite at h2
      simp only [Bool.or_eq_true] at h2 ⊢
      rcases h2 with h2 | h2
      · exact Or.inl (Or.inl h2)
      · exact Or.inr h2
    · subst h; simp [isSite]
  · rcases hb with ⟨-, -, h3⟩ | ⟨h, hbe⟩
    · omega
    · subst hbe
      have := rank_mono (innerSite e seq) (Nat.le_add_right seq.length 1)
      omega
  · constructor
    · intro hi
      apply Decidable.byContradiction
      intro hne
      have := rank_pos e seq (show 0 < a by omega)
      omega
    · intro h0
      subst h0
      rw [← ha2]; rfl

/-- from positions to indices -/
theorem pos_pair_to_sites (e : Enzyme) (seq : List Char) (a b : Nat)
    (hab : a < b) (hbn : b ≤ seq.length) (ha : isSite e seq a = true) (hb : isSite e seq b = true) :
    ∃ i d, (cleavageSites e seq)[i]? = some a ∧ (cleavageSites e seq)[i + d]? = some b
      ∧ 1 ≤ d ∧ d ≤ missed e seq a b + 1 ∧ (a = 0 → i = 0) := by
  have ha1 : innerSite e seq a = true := by
    rw [← isSite_eq_inner e seq a (by omega)]; exact ha
  have hm := missed_rank e seq a b hab hbn
  rw [rank_succ, ha1] at hm
  simp only [if_true] at hm
  refine ⟨rank (innerSite e seq) a, missed e seq a b + 1, ?_, ?_, by omega, by omega, ?_⟩
  · rw [sites_getElem?]; exact Or.inl ⟨by omega, ha1, rfl⟩
  · rw [sites_getElem?]
    by_cases hbi : innerSite e seq b = true
    · exact Or.inl ⟨hbn, hbi, by omega⟩
    · have hbe : b = seq.length := by
        apply Decidable.byContradiction
        intro hne
        rw [isSite_eq_inner e seq b hne] at hb
        exact hbi hb
      subst hbe
      refine Or.inr ⟨?_, rfl⟩
      rw [rank_succ]
      simp only [hbi]
      simp only [Bool.false_eq_true, if_false]
      omega
  · intro h0; subst h0; rfl

/-! ## main equivalence -/

theorem mem_digest_iff_spec (e : Enzyme) (seq : List Char) (mc lo hi : Nat) (clip semi : Bool)
    (hlo : 1 ≤ lo) (p : Pep) :
    p ∈ digest e seq mc lo hi clip semi ↔ DigestSpec e seq mc lo hi clip semi p := by
  unfold digest DigestSpec
  rw [mem_cleave]
  constructor
  · rintro ⟨i, d, a, b, ha, d1, d2, hb, hp⟩
    rw [mem_pepsOf, slice_length] at hp
    obtain ⟨l1, l2, hp⟩ := hp
    have hab : a < b := by omega
    obtain ⟨hbn, sa, sb, hm, hi0⟩ := sites_pair_to_pos e seq i d a b ha hb hab d1
    have hmin : min b seq.length = b := Nat.min_eq_left hbn
    rw [hmin] at l1 l2 hp
    refine ⟨a, b, ⟨hab, hbn, sa, sb, by omega, l1, l2⟩, ?_⟩
    rcases hp with hp | ⟨c1, c2, c3, c4, c5⟩ | ⟨s1, k, k1, k2, k3, k4⟩
    · exact Or.inl hp
    · have ha0 : a = 0 := hi0.mp c2
      subst ha0
      rw [slice_head seq b hab] at c3
      rw [slice_drop] at c5
      exact Or.inr (Or.inl ⟨c1, rfl, c3, by omega, by simpa using c5⟩)
    · refine Or.inr (Or.inr ⟨s1, k, k1, k2, k3, ?_⟩)
      rw [slice_drop, slice_take seq a b k (by omega)] at k4
      exact k4
  · rintro ⟨a, b, ⟨hab, hbn, sa, sb, hm, l1, l2⟩, hp⟩
    obtain ⟨i, d, ha, hb, d1, d2, hi0⟩ := pos_pair_to_sites e seq a b hab hbn sa sb
    refine ⟨i, d, a, b, ha, d1, by omega, hb, ?_⟩
    rw [mem_pepsOf, slice_length]
    have hmin : min b seq.length = b := Nat.min_eq_left hbn
    rw [hmin]
    refine ⟨l1, l2, ?_⟩
    rcases hp with hp | ⟨c1, c2, c3, c4, c5⟩ | ⟨s1, k, k1, k2, k3, k4⟩
    · exact Or.inl hp
    · subst c2
      refine Or.inr (Or.inl ⟨c1, hi0 rfl, ?_, by omega, ?_⟩)
      · rw [slice_head seq b hab]; exact c3
      · rw [slice_drop]; simpa using c5
    · refine Or.inr (Or.inr ⟨s1, k, k1, k2, k3, ?_⟩)
      rw [slice_drop, slice_take seq a b k (by omega)]
      exact k4

/-! ## the executable enumeration of the specification is the specification -/

theorem mem_specList (e : Enzyme) (seq : List Char) (mc lo hi : Nat) (clip semi : Bool) (p : Pep) :
    p ∈ specList e seq mc lo hi clip semi ↔ DigestSpec e seq mc lo hi clip semi p := by
  unfold specList DigestSpec
  simp only [List.mem_flatMap, List.mem_range]
  constructor
  · rintro ⟨a, -, b, -, hp⟩
    unfold specAt at hp
    by_cases hE : Enzymatic e seq mc lo hi a b
    · rw [if_pos hE] at hp
      refine ⟨a, b, hE, ?_⟩
      simp only [List.mem_cons, List.mem_append] at hp
      rcases hp with hp | hp | hp
      · exact Or.inl hp
      · by_cases hc : (clip && a == 0 && seq.head? == some 'M' && decide (lo ≤ b - 1)) = true
        · rw [if_pos hc] at hp
          simp only [Bool.and_eq_true, beq_iff_eq, decide_eq_true_eq] at hc
          obtain ⟨⟨⟨c1, c2⟩, c3⟩, c4⟩ := hc
          exact Or.inr (Or.inl ⟨c1, c2, c3, c4, by simpa using hp⟩)
        · rw [if_neg hc] at hp; simp at hp
      · cases semi
        · simp at hp
        · simp only [if_true, List.mem_flatMap, List.mem_range] at hp
          obtain ⟨k, hk, hp⟩ := hp
          by_cases hc : (decide (1 ≤ k) && decide (lo ≤ b - a - k)) = true
          · rw [if_pos hc] at hp
            simp only [Bool.and_eq_true, decide_eq_true_eq] at hc
            simp only [List.mem_cons, List.not_mem_nil, or_false] at hp
            exact Or.inr (Or.inr ⟨rfl, k, hc.1, hk, hc.2, hp⟩)
          · rw [if_neg hc] at hp; simp at hp
    · rw [if_neg hE] at hp; simp at hp
  · rintro ⟨a, b, hE, hp⟩
    have hE' := hE
    obtain ⟨hab, hbn, -⟩ := hE'
    refine ⟨a, by omega, b, by omega, ?_⟩
    unfold specAt
    rw [if_pos hE]
    simp only [List.mem_cons, List.mem_append]
    rcases hp with hp | ⟨c1, c2, c3, c4, c5⟩ | ⟨s1, k, k1, k2, k3, k4⟩
    · exact Or.inl hp
    · refine Or.inr (Or.inl ?_)
      have hc : (clip && a == 0 && seq.head? == some 'M' && decide (lo ≤ b - 1)) = true := by
        simp [c1, c2, c3, c4]
      rw [if_pos hc]; simp [c5]
    · refine Or.inr (Or.inr ?_)
      subst s1
      simp only [if_true, List.mem_flatMap, List.mem_range]
      refine ⟨k, k2, ?_⟩
      have hc : (decide (1 ≤ k) && decide (lo ≤ b - a - k)) = true := by simp [k1, k3]
      rw [if_pos hc]
      simpa using k4

end Mk
