import MokapotVerif.Model.TabularShared
import MokapotVerif.Lemmas.TabularJoined
/-!
Lemmas for `Model/TabularShared.lean`: every reader class leaves the caller's
objects alone (`Quiet`), and looking at a store it is the reader of
`Model/Tabular.lean` over the frames in that store (`…_on`).
-/
namespace Mk.Tabular
variable {β : Type}

theorem Reader.ext' {a b : Reader β} (h1 : a.names = b.names) (h2 : a.read = b.read)
    (h3 : a.chunked = b.chunked) : a = b := by
  cases a; cases b; simp_all

/-! ## the view of a reader on a store -/

theorem srcE_on (k : Nat) (st : Store β) : (srcE k).on st = frameReader (st.at k) := by
  apply Reader.ext'
  · rfl
  · funext cols
    simp [EReader.on, srcE, frameReader, Option.map_map, Function.comp_def]
  · rfl

theorem extE_on (r : Reader β) (st : Store β) : (extE r).on st = r := by
  apply Reader.ext'
  · rfl
  · funext cols
    simp [EReader.on, extE, Option.map_map, Function.comp_def]
  · rfl

theorem mappedE_on (e : EReader β) (m : List (Name × Name)) (st : Store β) :
    (mappedE e m).on st = mappedReader (e.on st) m := by
  apply Reader.ext'
  · rfl
  · funext cols
    simp only [EReader.on, mappedE, mappedReader]
    cases origCols m (e.names st) cols with
    | none => rfl
    | some oc => simp [Option.map_map, Function.comp_def]
  · rfl

theorem computedE_on (e : EReader β) (col : Name) (fn : Nat → Row β → β) (st : Store β) :
    (computedE e col fn).on st = computedReader (e.on st) col fn := by
  apply Reader.ext'
  · rfl
  · funext cols
    cases cols with
    | none => rfl
    | some cs =>
      simp only [EReader.on, computedE, computedReader, Option.elim_some]
      cases e.read st (some (readerCols col cs)) with
      | none => rfl
      | some p => simp [setItem, Option.map_map, Function.comp_def]
  · rfl

theorem computedPE_on (e : EReader β) (col : Name) (fn : Nat → Row β → β) (st : Store β) :
    (computedPE e col fn).on st = computedReaderP (e.on st) col fn := by
  apply Reader.ext'
  · rfl
  · funext cols
    simp only [EReader.on, computedPE, computedReaderP]
    cases e.read st (cols.map (readerCols col)) with
    | none => rfl
    | some p => simp [Option.map_map, Function.comp_def]
  · rfl

/-! ## no write reaches the caller's objects -/

theorem srcE_quiet (k : Nat) : Quiet (srcE k : EReader β) := by
  intro st cols p hp
  simp only [srcE] at hp
  cases hr : frameRead (st.at k) cols with
  | none => simp [hr] at hp
  | some d =>
    simp only [hr, Option.map_some, Option.some.injEq] at hp
    subst hp
    refine ⟨rfl, ?_⟩
    intro h
    cases cols with
    | none => rfl
    | some cs => simp [srcObj] at h

theorem extE_quiet (r : Reader β) : Quiet (extE r) := by
  intro st cols p hp
  simp only [extE] at hp
  cases hr : r.read cols with
  | none => simp [hr] at hp
  | some d =>
    simp only [hr, Option.map_some, Option.some.injEq] at hp
    subst hp
    exact ⟨rfl, fun h => absurd rfl h⟩

theorem mappedE_quiet (e : EReader β) (m : List (Name × Name)) (h : Quiet e) : Quiet (mappedE e m) := by
  intro st cols p hp
  simp only [mappedE] at hp
  cases ho : origCols m (e.names st) cols with
  | none => simp [ho] at hp
  | some oc =>
    simp only [ho, Option.bind_some] at hp
    cases hr : e.read st oc with
    | none => simp [hr] at hp
    | some q =>
      simp only [hr, Option.map_some, Option.some.injEq] at hp
      subst hp
      exact ⟨(h st oc q hr).1, fun hh => absurd rfl hh⟩

/-- the write `df[col] = …` of the computed-column reader only ever meets a new
object: the wrapped reader is asked for an explicit selection -/
theorem computedE_quiet (e : EReader β) (col : Name) (fn : Nat → Row β → β) (h : Quiet e) :
    Quiet (computedE e col fn) := by
  intro st cols p hp
  cases cols with
  | none => simp [computedE] at hp
  | some cs =>
    simp only [computedE, Option.elim_some] at hp
    cases hr : e.read st (some (readerCols col cs)) with
    | none => simp [hr] at hp
    | some q =>
      simp only [hr, Option.bind_some] at hp
      have hq := h st _ q hr
      have hobj : q.1.obj = none := by
        cases ho : q.1.obj with
        | none => rfl
        | some k => exact absurd (hq.2 (by simp [ho])) (by simp)
      cases hf : frameRead (setItem q.2 q.1 col fn).1.df (some cs) with
      | none => simp [hf] at hp
      | some d =>
        simp only [hf, Option.map_some, Option.some.injEq] at hp
        subst hp
        refine ⟨?_, fun hh => absurd rfl hh⟩
        simp [setItem, hobj, hq.1]

theorem computedPE_quiet (e : EReader β) (col : Name) (fn : Nat → Row β → β) (h : Quiet e) :
    Quiet (computedPE e col fn) := by
  intro st cols p hp
  simp only [computedPE] at hp
  cases hr : e.read st (cols.map (readerCols col)) with
  | none => simp [hr] at hp
  | some q =>
    simp only [hr, Option.bind_some] at hp
    cases hf : frameRead (addCol col fn q.1.df) cols with
    | none => simp [hf] at hp
    | some d =>
      simp only [hf, Option.map_some, Option.some.injEq] at hp
      subst hp
      exact ⟨(h st _ q hr).1, fun hh => absurd rfl hh⟩

/-- reading quiet readers one after the other is reading each on the same store -/
theorem readSeqE_quiet (l : List (EReader β × Option (List Name))) (h : ∀ x ∈ l, Quiet x.1) (st : Store β) :
    readSeqE l st = (optAll (l.map (fun x => (x.1.on st).read x.2))).map (fun ds => (ds, st)) := by
  induction l with
  | nil => rfl
  | cons x rest ih =>
    obtain ⟨e, cols⟩ := x
    have he : Quiet e := h (e, cols) (by simp)
    have ih' := ih (fun y hy => h y (by simp [hy]))
    have hon : ((e.on st).read cols) = (e.read st cols).map (fun p => p.1.df) := rfl
    simp only [readSeqE, List.map_cons, optAll, hon]
    cases hr : e.read st cols with
    | none => rfl
    | some p =>
      have hp := (he st cols p hr).1
      simp only [Option.bind_some, Option.map_some, hp, ih']
      generalize optAll (rest.map (fun x => (x.1.on st).read x.2)) = o
      cases o with
      | none => rfl
      | some ds => rfl

theorem joinedE_read (es : List (EReader β)) (h : ∀ e ∈ es, Quiet e) (st : Store β) (cols : Option (List Name)) :
    (joinedE es).read st cols = ((joinedReader (es.map (fun e => e.on st))).read cols).map (fun d => (⟨d, none⟩, st)) := by
  simp only [joinedE, joinedReader, joinedRead]
  rw [readSeqE_quiet _ (by
    intro x hx
    obtain ⟨e, he, rfl⟩ := List.mem_map.mp hx
    exact h e he)]
  simp only [List.map_map, Function.comp_def, EReader.on]
  cases optAll (es.map (fun e => (e.read st (subsetCols (e.names st) cols)).map (fun p => p.1.df))) with
  | none => rfl
  | some ds =>
    simp only [Option.map_some, Option.bind_some]

theorem joinedE_quiet (es : List (EReader β)) (h : ∀ e ∈ es, Quiet e) : Quiet (joinedE es) := by
  intro st cols p hp
  rw [joinedE_read es h] at hp
  cases hr : (joinedReader (es.map (fun e => e.on st))).read cols with
  | none => simp [hr] at hp
  | some d =>
    simp only [hr, Option.map_some, Option.some.injEq] at hp
    subst hp
    exact ⟨rfl, fun hh => absurd rfl hh⟩

theorem joinedE_on (es : List (EReader β)) (h : ∀ e ∈ es, Quiet e) (st : Store β) :
    (joinedE es).on st = joinedReader (es.map (fun e => e.on st)) := by
  apply Reader.ext'
  · simp [EReader.on, joinedE, joinedReader, List.map_map, Function.comp_def]
  · funext cols
    show ((joinedE es).read st cols).map (fun p => p.1.df) = _
    rw [joinedE_read es h, Option.map_map]
    generalize (joinedReader (es.map (fun e => e.on st))).read cols = o
    cases o <;> rfl
  · rfl

/-! ## the computed-column reader as it is (columns=None answered) -/

theorem computedReaderP_some (r : Reader β) (col : Name) (fn : Nat → Row β → β) (cs : List Name) :
    (computedReaderP r col fn).read (some cs) = (computedReader r col fn).read (some cs)
      ∧ ∀ c, (computedReaderP r col fn).chunked c (some cs) = (computedReader r col fn).chunked c (some cs) :=
  ⟨rfl, fun _ => rfl⟩

theorem computedP_chunkOK (r : Reader β) (col : Name) (fn : Nat → Row β → β) (h : ChunkOK r) :
    ChunkOK (computedReaderP r col fn) := by
  intro c hc cols F hF
  simp only [computedReaderP] at hF ⊢
  cases hr : r.read (cols.map (readerCols col)) with
  | none => simp [hr] at hF
  | some G =>
    simp only [hr, Option.bind_some, frameRead] at hF
    split at hF
    · rename_i hok
      cases hF
      obtain ⟨e, he⟩ := h c hc _ G hr
      refine ⟨e, ?_⟩
      rw [he, Option.bind_some]
      have hall : ∀ d ∈ splitDF e c G,
          frameRead (addCol col fn d) cols = some (selectDF cols (addCol col fn d)) := by
        intro d hd
        have hn : (addCol col fn d).names = (addCol col fn G).names := by
          simp [addCol, splitDF_names e c G d hd]
        simp [frameRead, hn, hok]
      rw [optAll_congr_some _ hall]
      congr 1
      have := splitDF_mapRows e c hc G (outNames (G.names ++ [col]) cols)
        ((fun ir => (ir.1, pick cols ir.2)) ∘ (fun ir => (ir.1, ir.2 ++ [(col, fn ir.1 ir.2)])))
      simp only [selectDF, addCol, List.map_map]
      rw [this]
      apply List.map_congr_left
      intro d hd
      simp [splitDF_names e c G d hd, Function.comp_def]
    · cases hF

/-- the repaired reader reads the whole extended table for `columns=None`: the
function sees the complete rows -/
theorem computedP_readNone (r : Reader β) (col : Name) (fn : Nat → Row β → β) (t : DF β)
    (h : ReadsTable r t true) : (computedReaderP r col fn).read none = some (addCol col fn t) := by
  have := h.read none rfl (fun _ => rfl)
  simp [computedReaderP, this, selectDF_none, frameRead, colsOK]

/-! ## readers built from the classes of the package -/

/-- a reader object built from the reader classes: in-memory frames of the caller
(`src`), files (`ext`: any reader of `Model/Tabular.lean` whose chunks concatenate
to its `read`), renamed, with a computed column (the class as it is, and as it was
before c6f4cd0), joined -/
inductive Built : EReader β → Prop
  | src (k : Nat) : Built (srcE k)
  | ext (r : Reader β) (h : ChunkOK r) : Built (extE r)
  | mapped (e : EReader β) (m : List (Name × Name)) (h : Built e) : Built (mappedE e m)
  | computed (e : EReader β) (col : Name) (fn : Nat → Row β → β) (h : Built e) : Built (computedPE e col fn)
  | computedOld (e : EReader β) (col : Name) (fn : Nat → Row β → β) (h : Built e) : Built (computedE e col fn)
  | joined (es : List (EReader β)) (h : ∀ e ∈ es, Built e) : Built (joinedE es)

theorem built_quiet {e : EReader β} (h : Built e) : Quiet e := by
  induction h with
  | src k => exact srcE_quiet k
  | ext r _ => exact extE_quiet r
  | mapped e m _ ih => exact mappedE_quiet e m ih
  | computed e col fn _ ih => exact computedPE_quiet e col fn ih
  | computedOld e col fn _ ih => exact computedE_quiet e col fn ih
  | joined es _ ih => exact joinedE_quiet es ih

theorem built_chunkOK {e : EReader β} (h : Built e) (st : Store β) : ChunkOK (e.on st) := by
  induction h with
  | src k => rw [srcE_on]; exact frameReader_chunkOK _
  | ext r hr => rw [extE_on]; exact hr
  | mapped e m _ ih => rw [mappedE_on]; exact mapped_chunkOK _ m ih
  | computed e col fn _ ih => rw [computedPE_on]; exact computedP_chunkOK _ col fn ih
  | computedOld e col fn _ ih => rw [computedE_on]; exact computed_chunkOK _ col fn ih
  | joined es hb ih =>
    rw [joinedE_on es (fun e he => built_quiet (hb e he))]
    apply joined_chunkOK
    intro r hr
    obtain ⟨e, he, rfl⟩ := List.mem_map.mp hr
    exact ih e he

/-! ## histories -/

theorem useE_quiet (e : EReader β) (h : Quiet e) (st : Store β) (u : RUse) : (useE e st u).2 = st := by
  cases u with
  | names => rfl
  | read cols =>
    simp only [useE, obsRead]
    cases hr : e.read st cols with
    | none => rfl
    | some p => exact (h st cols p hr).1
  | chunked c cols => rfl

theorem runUses_quiet (es : List (EReader β)) (h : ∀ i, Quiet (readerAt es i)) (st : Store β)
    (prog : List (Nat × RUse)) :
    runUses es st prog = (prog.map (fun iu => (useE (readerAt es iu.1) st iu.2).1), st) := by
  induction prog with
  | nil => rfl
  | cons iu rest ih =>
    obtain ⟨i, u⟩ := iu
    simp only [runUses, useE_quiet _ (h i), ih, List.map_cons]

theorem readerAt_quiet (es : List (EReader β)) (h : ∀ e ∈ es, Quiet e) (i : Nat) : Quiet (readerAt es i) := by
  unfold readerAt
  by_cases hi : i < es.length
  · have : es.getD i (extE ⟨[], fun _ => none, fun _ _ => none⟩) = es[i] := by simp [List.getD, hi]
    rw [this]
    exact h _ (List.getElem_mem hi)
  · have : es.getD i (extE ⟨[], fun _ => none, fun _ _ => none⟩) = extE ⟨[], fun _ => none, fun _ _ => none⟩ := by
      simp [List.getD, Nat.le_of_not_lt hi]
    rw [this]
    exact extE_quiet _

end Mk.Tabular
