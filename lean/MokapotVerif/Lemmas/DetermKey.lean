import MokapotVerif.Model.DetermKey
import MokapotVerif.Props.C02Multi
/-! Helper lemmas for `Props/C08Key.lean`: `np.split` of two permutation-equal arrays, the tail of a hash-sorted
array from a group start, two argsorts of one key column, range of the CRC-32 register. -/
namespace Mk.Determ
open Mk.Brew

theorem npSplit_perm {α : Type} : ∀ (cuts : List Nat) (xs ys : List α) (off : Nat),
    cuts.Pairwise (· ≤ ·) → (∀ c ∈ cuts, off ≤ c) → xs.Perm ys →
    (∀ c ∈ cuts, (xs.drop (c - off)).Perm (ys.drop (c - off))) →
    List.Forall₂ List.Perm (npSplit xs off cuts) (npSplit ys off cuts) := by
  intro cuts
  induction cuts with
  | nil => intro xs ys off _ _ h _; exact List.Forall₂.cons h List.Forall₂.nil
  | cons c cs ih =>
    intro xs ys off hpw hoff hxy hdrop
    rw [List.pairwise_cons] at hpw
    have hc : off ≤ c := hoff c (by simp)
    have hd : (xs.drop (c - off)).Perm (ys.drop (c - off)) := hdrop c (by simp)
    simp only [npSplit]
    refine List.Forall₂.cons ?_ (ih _ _ c hpw.2 hpw.1 hd ?_)
    · have h1 : (xs.take (c - off) ++ xs.drop (c - off)).Perm (ys.take (c - off) ++ ys.drop (c - off)) := by
        rw [List.take_append_drop, List.take_append_drop]; exact hxy
      have h2 : (ys.take (c - off) ++ ys.drop (c - off)).Perm (ys.take (c - off) ++ xs.drop (c - off)) :=
        (List.perm_append_left_iff _).mpr hd.symm
      exact (List.perm_append_right_iff _).mp (h1.trans h2)
    · intro c' hc'
      have hcc' : c ≤ c' := hpw.1 c' hc'
      rw [List.drop_drop, List.drop_drop]
      have : c - off + (c' - c) = c' - off := by omega
      rw [this]
      exact hdrop c' (List.mem_cons_of_mem _ hc')

/-- in a hash-sorted array the part from a group start on is exactly the part with hash ≥ the hash at that position -/
theorem drop_groupStart_eq_filter (sorted : List (Nat × Nat)) (hs : SortedByHash sorted) (c : Nat)
    (hc : c ∈ groupStarts (sorted.map (·.1))) :
    sorted.drop c = sorted.filter (fun p => decide (((sorted.map (·.1)).getD c 0) ≤ p.1)) := by
  have hlen : c < (sorted.map (·.1)).length := (groupStarts_mem _ c hc).1
  have hsorted : (sorted.map (·.1)).Pairwise (· ≤ ·) := by
    rw [List.pairwise_map]; exact hs
  have hsep := groupStarts_separates _ hsorted c hc
  have hsepc : ∀ i (hi : i < c), (sorted.map (·.1))[i]'(by omega) < (sorted.map (·.1))[c] :=
    fun i hi => hsep i c hi (Nat.le_refl _) hlen
  have hge : ∀ j (hj : c ≤ j) (hjl : j < (sorted.map (·.1)).length), (sorted.map (·.1))[c] ≤ (sorted.map (·.1))[j] := by
    intro j hj hjl
    rw [List.pairwise_iff_getElem] at hsorted
    by_cases h0 : c = j
    · subst h0; exact Nat.le_refl _
    · exact hsorted c j hlen hjl (by omega)
  have hv : (sorted.map (·.1)).getD c 0 = (sorted.map (·.1))[c] := by
    simp [List.getD, List.getElem?_eq_getElem hlen]
  rw [hv]
  generalize (sorted.map (·.1))[c] = v at *
  have h1 : (sorted.take c).filter (fun p => decide (v ≤ p.1)) = [] := by
    rw [List.filter_eq_nil_iff]
    intro p hp
    obtain ⟨i, hi, rfl⟩ := List.mem_iff_getElem.mp hp
    rw [List.length_take] at hi
    have := hsepc i (by omega)
    simp only [List.getElem_take, decide_eq_true_eq, Nat.not_le]
    simpa using this
  have h2 : (sorted.drop c).filter (fun p => decide (v ≤ p.1)) = sorted.drop c := by
    rw [List.filter_eq_self]
    intro p hp
    obtain ⟨i, hi, rfl⟩ := List.mem_iff_getElem.mp hp
    rw [List.length_drop] at hi
    simp only [List.getElem_drop, decide_eq_true_eq]
    have := hge (c + i) (by omega) (by rw [List.length_map]; omega)
    simpa using this
  calc sorted.drop c = (sorted.take c).filter (fun p => decide (v ≤ p.1)) ++ (sorted.drop c).filter (fun p => decide (v ≤ p.1)) := by
        rw [h1, h2, List.nil_append]
    _ = sorted.filter (fun p => decide (v ≤ p.1)) := by
        rw [← List.filter_append, List.take_append_drop]

end Mk.Determ
namespace Mk.Determ
open Mk.Brew

/-- two argsorts of the same hashes carry the same hash column -/
theorem argsort_hashes_eq (hashes : List Nat) (s s' : List (Nat × Nat)) (h : IsArgsort hashes s)
    (h' : IsArgsort hashes s') : s.map (·.1) = s'.map (·.1) := by
  have hp : (s.map (·.1)).Perm (s'.map (·.1)) := (h.2.trans h'.2.symm).map _
  refine List.Perm.eq_of_pairwise (le := (· ≤ ·)) (fun a b _ _ hab hba => Nat.le_antisymm hab hba) ?_ ?_ hp
  · rw [List.pairwise_map]; exact h.1
  · rw [List.pairwise_map]; exact h'.1

/-- `_split` for any two argsorts of the same keys: the same cuts, and piece by piece the same rows -/
theorem splitWith_two_argsorts (hashes : List Nat) (s s' : List (Nat × Nat)) (h : IsArgsort hashes s)
    (h' : IsArgsort hashes s') (folds : Nat) (fs : List (List Nat)) (hfs : splitWith s folds = some fs) :
    ∃ fs', splitWith s' folds = some fs' ∧ List.Forall₂ List.Perm fs fs' := by
  have hh := argsort_hashes_eq hashes s s' h h'
  have hlen : s.length = s'.length := by simpa using congrArg List.length hh
  have hperm : s.Perm s' := h.2.trans h'.2.symm
  unfold splitWith at hfs ⊢
  simp only [] at hfs ⊢
  rw [← hh, ← hlen]
  cases hc : (splitPoints s.length folds).mapM (firstGE (groupStarts (s.map (·.1)))) with
  | none => rw [hc] at hfs; simp at hfs
  | some cuts =>
    rw [hc] at hfs
    simp only [Option.map_some, Option.some.injEq] at hfs
    subst hfs
    refine ⟨_, rfl, ?_⟩
    obtain ⟨_, hmem, hpw⟩ := cuts_props _ (groupStarts_pairwise _) _ cuts (splitPoints_pairwise _ _) hc
    refine npSplit_perm cuts _ _ 0 hpw (fun _ _ => Nat.zero_le _) (hperm.map _) ?_
    intro c hcm
    have hg := hmem c hcm
    rw [Nat.sub_zero, ← List.map_drop, ← List.map_drop]
    refine List.Perm.map _ ?_
    rw [drop_groupStart_eq_filter s h.1 c hg, drop_groupStart_eq_filter s' h'.1 c (hh ▸ hg), ← hh]
    exact hperm.filter _

end Mk.Determ
namespace Mk.Determ

theorem crcBit_lt (c : Nat) (h : c < 2 ^ 32) : crcBit c < 2 ^ 32 := by
  unfold crcBit
  split
  · exact Nat.xor_lt_two_pow (by omega) (by decide)
  · omega

theorem crcByte_lt (c b : Nat) (h : c < 2 ^ 32) : crcByte c b < 2 ^ 32 := by
  unfold crcByte crcBits8
  have h0 : c ^^^ (b % 256) < 2 ^ 32 := Nat.xor_lt_two_pow h (by omega)
  exact crcBit_lt _ (crcBit_lt _ (crcBit_lt _ (crcBit_lt _ (crcBit_lt _ (crcBit_lt _ (crcBit_lt _ (crcBit_lt _ h0)))))))

theorem crcFold_lt (bytes : List Nat) : ∀ c, c < 2 ^ 32 → bytes.foldl crcByte c < 2 ^ 32 := by
  induction bytes with
  | nil => intro c h; exact h
  | cons b bs ih => intro c h; exact ih _ (crcByte_lt c b h)

theorem crc32_lt (bytes : List Nat) : crc32 bytes < 2 ^ 32 :=
  Nat.xor_lt_two_pow (crcFold_lt bytes _ (by decide)) (by decide)

end Mk.Determ
namespace Mk.Determ

theorem forall₂_perm_refl {α : Type} : ∀ (a : List (List α)), List.Forall₂ List.Perm a a
  | [] => List.Forall₂.nil
  | x :: xs => List.Forall₂.cons (List.Perm.refl x) (forall₂_perm_refl xs)

theorem forall₂_perm_symm {α : Type} {a b : List (List α)} (h : List.Forall₂ List.Perm a b) :
    List.Forall₂ List.Perm b a := by
  induction h with
  | nil => exact List.Forall₂.nil
  | cons hp _ ih => exact List.Forall₂.cons hp.symm ih

theorem forall₂_perm_trans {α : Type} {a b c : List (List α)} (h : List.Forall₂ List.Perm a b)
    (h' : List.Forall₂ List.Perm b c) : List.Forall₂ List.Perm a c := by
  induction h generalizing c with
  | nil => cases h'; exact List.Forall₂.nil
  | cons hp _ ih =>
    cases h' with
    | cons hq hrest => exact List.Forall₂.cons (hp.trans hq) (ih hrest)

end Mk.Determ

namespace Mk.Determ
open Mk.Brew

/-- the key column is a function of the first two cell texts of every row, in any session -/
theorem foldKeyIn_cols_eq (S S' : Session) (rows rows' : List (List String))
    (h : rows.map (·.take 2) = rows'.map (·.take 2)) :
    rows.map (foldKeyIn S) = rows'.map (foldKeyIn S') := by
  have e : ∀ (T : Session) (r : List (List String)), r.map (foldKeyIn T) = (r.map (·.take 2)).map keyHash := by
    intro T r; simp [foldKeyIn, foldKey, Function.comp_def]
  rw [e, e, h]

/-- all collections of a `brew` call, two sessions, two presentations, any argsorts: the same folds everywhere -/
theorem splitAllWith_two_sessions (S S' : Session) (folds : Nat) :
    ∀ (tables tables' : List (List (List String))) (sorteds sorteds' : List (List (Nat × Nat))),
    List.Forall₂ (fun r r' => r.map (·.take 2) = r'.map (·.take 2)) tables tables' →
    List.Forall₂ (fun r s => IsArgsort (r.map (foldKeyIn S)) s) tables sorteds →
    List.Forall₂ (fun r s => IsArgsort (r.map (foldKeyIn S')) s) tables' sorteds' →
    ∀ fss, splitAllWith sorteds folds = some fss →
    ∃ fss', splitAllWith sorteds' folds = some fss' ∧ List.Forall₂ (List.Forall₂ List.Perm) fss fss' := by
  intro tables tables' sorteds sorteds' h
  induction h generalizing sorteds sorteds' with
  | nil =>
    intro hs hs' fss hfs
    cases hs; cases hs'
    simp only [splitAllWith, List.mapM_nil] at hfs ⊢
    cases hfs
    exact ⟨[], rfl, List.Forall₂.nil⟩
  | cons hrr _ ih =>
    intro hs hs' fss hfs
    cases hs with
    | cons hrs hrest =>
      cases hs' with
      | cons hrs' hrest' =>
        simp only [splitAllWith, List.mapM_cons] at hfs ⊢
        simp only [bind, Option.bind_eq_some_iff, pure, Option.some.injEq] at hfs
        obtain ⟨fs, hfs1, fsr, hfsr, rfl⟩ := hfs
        rw [← foldKeyIn_cols_eq S S' _ _ hrr] at hrs'
        obtain ⟨fs', h1, h2⟩ := splitWith_two_argsorts _ _ _ hrs hrs' folds fs hfs1
        obtain ⟨fsr', h3, h4⟩ := ih _ _ hrest hrest' fsr hfsr
        refine ⟨fs' :: fsr', ?_, List.Forall₂.cons h2 h4⟩
        simp only [splitAllWith] at h3
        simp [h1, h3]

end Mk.Determ
