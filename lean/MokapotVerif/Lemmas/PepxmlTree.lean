import MokapotVerif.Model.PepxmlTree
/-! Lemmas on the element-tree layer (`Model/PepxmlTree.lean`): pre- and post-order of nodes, `iter` and `iterparse` on the
tree of an abstract document, reading the attributes back, inversion of the `Except` binds. -/
namespace Mk.Pepxml

theorem preList_eq (ks : List Elem) : Elem.preList ks = ks.flatMap Elem.pre := by
  induction ks with
  | nil => simp [Elem.preList]
  | cons e es ih => simp [Elem.preList, ih]

theorem postList_eq (ks : List Elem) : Elem.postList ks = ks.flatMap Elem.post := by
  induction ks with
  | nil => simp [Elem.postList]
  | cons e es ih => simp [Elem.postList, ih]

theorem filter_pre_node (p : Elem → Bool) (t : String) (a : List (String × AVal)) (ks : List Elem) :
    (Elem.node t a ks).pre.filter p
      = (if p (.node t a ks) then [.node t a ks] else []) ++ ks.flatMap (fun k => k.pre.filter p) := by
  simp only [Elem.pre, preList_eq, List.filter_cons, List.filter_flatMap]
  split <;> simp

theorem filter_post_node (p : Elem → Bool) (t : String) (a : List (String × AVal)) (ks : List Elem) :
    (Elem.node t a ks).post.filter p
      = ks.flatMap (fun k => k.post.filter p) ++ (if p (.node t a ks) then [.node t a ks] else []) := by
  simp only [Elem.post, postList_eq, List.filter_append, List.filter_flatMap]
  congr 1
  simp only [List.filter_cons, List.filter_nil]

theorem flatMap_single {α β : Type} (f : α → β) (xs : List α) : xs.flatMap (fun x => [f x]) = xs.map f := by
  induction xs with
  | nil => rfl
  | cons x xs ih => simp [ih]

theorem flatMap_none {α β : Type} (xs : List α) : xs.flatMap (fun _ => ([] : List β)) = [] := by
  induction xs with
  | nil => rfl
  | cons x xs ih => simp

/-- filtering the pre-order of a mapped list of children, when every child contributes exactly itself -/
theorem flatMap_filter_self {α : Type} (p : Elem → Bool) (f : α → Elem) (xs : List α)
    (h : ∀ x, (f x).pre.filter p = [f x]) : (xs.map f).flatMap (fun k => k.pre.filter p) = xs.map f := by
  rw [List.flatMap_map]
  simp only [h]
  exact flatMap_single f xs

theorem flatMap_filter_nil {α : Type} (p : Elem → Bool) (f : α → Elem) (xs : List α)
    (h : ∀ x, (f x).pre.filter p = []) : (xs.map f).flatMap (fun k => k.pre.filter p) = [] := by
  rw [List.flatMap_map]
  simp only [h]
  exact flatMap_none xs

def tagIn (tags : List String) : Elem → Bool := fun x => tags.contains x.tag

theorem iter_def (tags : List String) (e : Elem) : e.iter tags = e.pre.filter (tagIn tags) := rfl

/-! ### `mod_aminoacid_mass` -/
theorem filter_modElem (tags : List String) (m : Mod) :
    (modElem m).pre.filter (tagIn tags) = if tags.contains "mod_aminoacid_mass" then [modElem m] else [] := by
  unfold modElem
  rw [filter_pre_node]
  simp [tagIn, Elem.tag]

theorem filter_childElem_mods (tags : List String) (ms : List Mod) :
    (childElem (.mods ms)).pre.filter (tagIn tags)
      = (if tags.contains "modification_info" then [childElem (.mods ms)] else [])
        ++ (if tags.contains "mod_aminoacid_mass" then ms.map modElem else []) := by
  unfold childElem
  rw [filter_pre_node]
  congr 1
  by_cases h : tags.contains "mod_aminoacid_mass"
  · rw [if_pos h]; exact flatMap_filter_self _ _ _ (fun m => by rw [filter_modElem, if_pos h])
  · rw [if_neg h]; exact flatMap_filter_nil _ _ _ (fun m => by rw [filter_modElem, if_neg h])

theorem filter_childElem_score (tags : List String) (n : String) (v : Num) :
    (childElem (.score n v)).pre.filter (tagIn tags)
      = if tags.contains "search_score" then [childElem (.score n v)] else [] := by
  unfold childElem
  rw [filter_pre_node]
  simp [tagIn, Elem.tag]

theorem filter_childElem_alt (tags : List String) (a : Str) :
    (childElem (.alt a)).pre.filter (tagIn tags)
      = if tags.contains "alternative_protein" then [childElem (.alt a)] else [] := by
  unfold childElem
  rw [filter_pre_node]
  simp [tagIn, Elem.tag]

theorem filter_childElem_queries (c : Child) : (childElem c).pre.filter (tagIn hitQueries) = [childElem c] := by
  cases c with
  | mods ms => rw [filter_childElem_mods]; simp [hitQueries]
  | score n v => rw [filter_childElem_score]; simp [hitQueries]
  | alt a => rw [filter_childElem_alt]; simp [hitQueries]

theorem filter_childElem_other (tags : List String) (c : Child)
    (h1 : tags.contains "modification_info" = false) (h2 : tags.contains "mod_aminoacid_mass" = false)
    (h3 : tags.contains "search_score" = false) (h4 : tags.contains "alternative_protein" = false) :
    (childElem c).pre.filter (tagIn tags) = [] := by
  cases c with
  | mods ms => rw [filter_childElem_mods, h1, h2]; rfl
  | score n v => rw [filter_childElem_score, h3]; rfl
  | alt a => rw [filter_childElem_alt, h4]; rfl

/-! ### `search_hit` and above -/
theorem filter_hitElem (tags : List String) (h : Hit)
    (h1 : tags.contains "modification_info" = false) (h2 : tags.contains "mod_aminoacid_mass" = false)
    (h3 : tags.contains "search_score" = false) (h4 : tags.contains "alternative_protein" = false) :
    (hitElem h).pre.filter (tagIn tags) = if tags.contains "search_hit" then [hitElem h] else [] := by
  unfold hitElem
  rw [filter_pre_node, flatMap_filter_nil _ _ _ (fun c => filter_childElem_other tags c h1 h2 h3 h4)]
  simp [tagIn, Elem.tag]

theorem iter_hitElem_queries (h : Hit) : (hitElem h).iter hitQueries = h.children.map childElem := by
  rw [iter_def]
  unfold hitElem
  rw [filter_pre_node, flatMap_filter_self _ _ _ filter_childElem_queries]
  simp [tagIn, Elem.tag, hitQueries]

theorem iter_modinfo (ms : List Mod) : (childElem (.mods ms)).iter ["mod_aminoacid_mass"] = ms.map modElem := by
  rw [iter_def, filter_childElem_mods]
  simp

theorem filter_resultElem (tags : List String) (hs : List Hit)
    (h1 : tags.contains "modification_info" = false) (h2 : tags.contains "mod_aminoacid_mass" = false)
    (h3 : tags.contains "search_score" = false) (h4 : tags.contains "alternative_protein" = false) :
    (resultElem hs).pre.filter (tagIn tags)
      = (if tags.contains "search_result" then [resultElem hs] else [])
        ++ (if tags.contains "search_hit" then hs.map hitElem else []) := by
  unfold resultElem
  rw [filter_pre_node]
  congr 1
  by_cases h : tags.contains "search_hit"
  · rw [if_pos h]; exact flatMap_filter_self _ _ _ (fun x => by rw [filter_hitElem tags x h1 h2 h3 h4, if_pos h])
  · rw [if_neg h]; exact flatMap_filter_nil _ _ _ (fun x => by rw [filter_hitElem tags x h1 h2 h3 h4, if_neg h])

theorem iter_resultElem (hs : List Hit) : (resultElem hs).iter ["search_hit"] = hs.map hitElem := by
  rw [iter_def, filter_resultElem _ _ rfl rfl rfl rfl]
  simp

theorem filter_resultElem_self (hs : List Hit) :
    (resultElem hs).pre.filter (tagIn ["search_result"]) = [resultElem hs] := by
  rw [filter_resultElem _ _ rfl rfl rfl rfl]
  simp

theorem filter_resultElem_none (hs : List Hit) :
    (resultElem hs).pre.filter (tagIn ["spectrum_query"]) = [] := by
  rw [filter_resultElem _ _ rfl rfl rfl rfl]
  simp


theorem iter_spectrumElem (s : Spectrum) : (spectrumElem s).iter ["search_result"] = s.results.map resultElem := by
  rw [iter_def]
  unfold spectrumElem
  rw [filter_pre_node, flatMap_filter_self _ _ _ filter_resultElem_self]
  simp [tagIn, Elem.tag]

theorem filter_spectrumElem_self (s : Spectrum) :
    (spectrumElem s).pre.filter (tagIn ["spectrum_query"]) = [spectrumElem s] := by
  unfold spectrumElem
  rw [filter_pre_node, flatMap_filter_nil _ _ _ filter_resultElem_none]
  simp [tagIn, Elem.tag]

theorem iter_runElem (r : Run) : (runElem r).iter ["spectrum_query"] = r.spectra.map spectrumElem := by
  rw [iter_def]
  unfold runElem
  rw [filter_pre_node, flatMap_filter_self _ _ _ filter_spectrumElem_self]
  simp [tagIn, Elem.tag]

/-! ### end-tag order (`iterparse`) -/
def isRun : Elem → Bool := fun x => x.tag == "msms_run_summary"

theorem iterparse_def (root : Elem) : root.iterparse "msms_run_summary" = root.post.filter isRun := rfl

theorem flatMap_post_nil {α : Type} (f : α → Elem) (xs : List α)
    (h : ∀ x, (f x).post.filter isRun = []) : (xs.map f).flatMap (fun k => k.post.filter isRun) = [] := by
  rw [List.flatMap_map]
  simp only [h]
  exact flatMap_none xs

theorem post_modElem (m : Mod) : (modElem m).post.filter isRun = [] := by
  unfold modElem
  rw [filter_post_node]
  simp [isRun, Elem.tag]

theorem post_childElem (c : Child) : (childElem c).post.filter isRun = [] := by
  cases c with
  | mods ms =>
    unfold childElem
    rw [filter_post_node, flatMap_post_nil _ _ post_modElem]
    simp [isRun, Elem.tag]
  | score n v => unfold childElem; rw [filter_post_node]; simp [isRun, Elem.tag]
  | alt a => unfold childElem; rw [filter_post_node]; simp [isRun, Elem.tag]

theorem post_hitElem (h : Hit) : (hitElem h).post.filter isRun = [] := by
  unfold hitElem
  rw [filter_post_node, flatMap_post_nil _ _ post_childElem]
  simp [isRun, Elem.tag]

theorem post_resultElem (hs : List Hit) : (resultElem hs).post.filter isRun = [] := by
  unfold resultElem
  rw [filter_post_node, flatMap_post_nil _ _ post_hitElem]
  simp [isRun, Elem.tag]

theorem post_spectrumElem (s : Spectrum) : (spectrumElem s).post.filter isRun = [] := by
  unfold spectrumElem
  rw [filter_post_node, flatMap_post_nil _ _ post_resultElem]
  simp [isRun, Elem.tag]

theorem post_runElem (r : Run) : (runElem r).post.filter isRun = [runElem r] := by
  unfold runElem
  rw [filter_post_node, flatMap_post_nil _ _ post_spectrumElem]
  simp [isRun, Elem.tag]

theorem iterparse_docElem (runs : List Run) : (docElem runs).iterparse "msms_run_summary" = runs.map runElem := by
  rw [iterparse_def]
  unfold docElem
  rw [filter_post_node, List.flatMap_map]
  simp only [post_runElem]
  rw [flatMap_single]
  simp [isRun, Elem.tag]

/-! ### reading the attributes back -/
theorem mapM_map_ok {α β : Type} (f : β → Except TErr α) (g : α → β) (xs : List α)
    (h : ∀ x ∈ xs, f (g x) = .ok x) : (xs.map g).mapM f = .ok xs := by
  induction xs with
  | nil => rfl
  | cons x xs ih =>
    rw [List.map_cons, List.mapM_cons, h x (List.mem_cons_self ..), ih (fun y hy => h y (List.mem_cons_of_mem _ hy))]
    rfl

theorem modOfElem_modElem (m : Mod) : modOfElem (modElem m) = .ok m := by
  simp [List.lookup, modOfElem, modElem, Elem.get, Elem.attrs, need, avInt, avText, natOfInt, Except.bind]

theorem childOfElem_childElem (c : Child) : childOfElem (childElem c) = .ok c := by
  cases c with
  | mods ms =>
    have : (childElem (.mods ms)).tag = "modification_info" := rfl
    rw [childOfElem, if_pos this, modInfoOfElem, iter_modinfo, mapM_map_ok _ _ _ (fun m _ => modOfElem_modElem m)]
    rfl
  | score n v =>
    simp [List.lookup, childOfElem, childElem, Elem.tag, scoreOfElem, Elem.get, Elem.attrs, keep, avText, avNum, Except.bind,
      scoreName]
  | alt a =>
    simp [childOfElem, childElem, Elem.tag, altOfElem, Elem.get, Elem.attrs, need, avText, Except.map]

theorem hitOfElem_hitElem (h : Hit) : hitOfElem (hitElem h) = .ok h := by
  have hc : ((hitElem h).iter hitQueries).mapM childOfElem = .ok h.children := by
    rw [iter_hitElem_queries, mapM_map_ok _ _ _ (fun c _ => childOfElem_childElem c)]
  rw [hitOfElem, hc]
  obtain ⟨cm, pep, prot, mc, ntt, nm, ch⟩ := h
  cases mc <;> cases ntt <;> cases nm <;>
    simp [List.lookup, hitElem, Elem.get, Elem.attrs, need, keep, optional, avRat, avText, avInt, optAttr, natOfInt,
      Except.bind, Except.map]

theorem resultsOfElem_spectrumElem (s : Spectrum) : resultsOfElem (spectrumElem s) = .ok s.results := by
  rw [resultsOfElem, iter_spectrumElem]
  apply mapM_map_ok
  intro hs _
  rw [iter_resultElem]
  exact mapM_map_ok _ _ _ (fun h _ => hitOfElem_hitElem h)

theorem spectrumOfElem_spectrumElem (s : Spectrum) : spectrumOfElem (spectrumElem s) = .ok s := by
  rw [spectrumOfElem, resultsOfElem_spectrumElem]
  simp [List.lookup, spectrumElem, Elem.get, Elem.attrs, need, avInt, avRat, Except.bind]

theorem runOfElem_runElem (r : Run) : runOfElem (runElem r) = .ok r := by
  rw [runOfElem, iter_runElem, mapM_map_ok _ _ _ (fun s _ => spectrumOfElem_spectrumElem s)]
  simp [List.lookup, runElem, Elem.get, Elem.attrs, need, avText, Except.bind]

theorem runsOfTree_docElem (runs : List Run) : runsOfTree (docElem runs) = .ok runs := by
  rw [runsOfTree, iterparse_docElem]
  exact mapM_map_ok _ _ _ (fun r _ => runOfElem_runElem r)

/-! ### wrappers: foreign elements between a node and its children -/
theorem filter_wrapElem (tags : List String) (w : String) (a : List (String × AVal)) (e : Elem)
    (hw : tags.contains w = false) : (wrapElem w a e).pre.filter (tagIn tags) = e.pre.filter (tagIn tags) := by
  have hw' : ¬ w ∈ tags := by simpa using hw
  unfold wrapElem
  rw [filter_pre_node]
  simp [tagIn, Elem.tag, hw']

theorem iter_wrapped_kids (tags : List String) (w : String) (b : List (String × AVal)) (t : String)
    (a : List (String × AVal)) (ks : List Elem) (hw : tags.contains w = false) (ht : tags.contains t = false) :
    (Elem.node t a (ks.map (wrapElem w b))).iter tags = (Elem.node t a ks).iter tags := by
  have h1 : ∀ ks', tagIn tags (Elem.node t a ks') = false := fun ks' => ht
  rw [iter_def, iter_def, filter_pre_node, filter_pre_node, List.flatMap_map, h1, h1]
  simp only [filter_wrapElem tags w b _ hw]
  rfl

/-! ### inversion of the binds -/
/-- pointwise relation of two lists (core has no `Forall₂`) -/
inductive Rel₂ {α β : Type} (R : α → β → Prop) : List α → List β → Prop
  | nil : Rel₂ R [] []
  | cons {x y xs ys} : R x y → Rel₂ R xs ys → Rel₂ R (x :: xs) (y :: ys)

theorem bind_eq_ok {α β : Type} (x : Except TErr α) (f : α → Except TErr β) (b : β) :
    x.bind f = .ok b ↔ ∃ a, x = .ok a ∧ f a = .ok b := by
  cases x with
  | error e => simp [Except.bind]
  | ok a => simp [Except.bind]

theorem map_eq_ok {α β : Type} (x : Except TErr α) (f : α → β) (b : β) :
    x.map f = .ok b ↔ ∃ a, x = .ok a ∧ f a = b := by
  cases x with
  | error e => simp [Except.map]
  | ok a => simp [Except.map]

theorem mapM_ok_forall₂ {α β : Type} (f : α → Except TErr β) :
    ∀ (xs : List α) (ys : List β), xs.mapM f = .ok ys → Rel₂ (fun x y => f x = .ok y) xs ys
  | [], ys, h => by
    have : ys = [] := by simpa [List.mapM_nil, pure, Except.pure] using h.symm
    subst this; exact .nil
  | x :: xs, ys, h => by
    rw [List.mapM_cons] at h
    cases hx : f x with
    | error e => rw [hx] at h; cases h
    | ok y =>
      cases hxs : xs.mapM f with
      | error e => rw [hx, hxs] at h; cases h
      | ok ys' =>
        rw [hx, hxs] at h
        have : ys = y :: ys' := by injection h with h; exact h.symm
        subst this
        exact .cons hx (mapM_ok_forall₂ f xs ys' hxs)

theorem sum_map_forall₂ {α β : Type} (R : α → β → Prop) (g : α → Nat) (h : β → Nat)
    (hR : ∀ x y, R x y → g x = h y) :
    ∀ (xs : List α) (ys : List β), Rel₂ R xs ys → (xs.map g).sum = (ys.map h).sum
  | _, _, .nil => rfl
  | _, _, .cons hxy rest => by
    simp only [List.map_cons, List.sum_cons, hR _ _ hxy, sum_map_forall₂ R g h hR _ _ rest]

theorem length_forall₂ {α β : Type} (R : α → β → Prop) :
    ∀ (xs : List α) (ys : List β), Rel₂ R xs ys → xs.length = ys.length
  | _, _, .nil => rfl
  | _, _, .cons _ rest => by simp [length_forall₂ R _ _ rest]

/-- hits counted on the tree = hits of the spectrum read off it -/
theorem hits_spectrumOfElem (e : Elem) (s : Spectrum) (h : spectrumOfElem e = .ok s) :
    ((e.iter ["search_result"]).map (fun res => (res.iter ["search_hit"]).length)).sum = hitsOfSpectrum s := by
  simp only [spectrumOfElem, bind_eq_ok] at h
  obtain ⟨sc, _, z, _, rt, _, em, _, rs, hrs, hs⟩ := h
  injection hs with hs
  subst hs
  exact sum_map_forall₂ _ _ _ (fun r hs hr => length_forall₂ _ _ _ (mapM_ok_forall₂ _ _ _ hr)) _ _
    (mapM_ok_forall₂ _ _ _ hrs)

theorem hits_runOfElem (e : Elem) (r : Run) (h : runOfElem e = .ok r) :
    ((e.iter ["spectrum_query"]).map (fun s =>
      ((s.iter ["search_result"]).map (fun res => (res.iter ["search_hit"]).length)).sum)).sum = hitsOfRun r := by
  simp only [runOfElem, bind_eq_ok] at h
  obtain ⟨b, _, x, _, ss, hss, hr⟩ := h
  injection hr with hr
  subst hr
  exact sum_map_forall₂ _ _ _ (fun e s hs => hits_spectrumOfElem e s hs) _ _ (mapM_ok_forall₂ _ _ _ hss)

theorem hits_runsOfTree (root : Elem) (runs : List Run) (h : runsOfTree root = .ok runs) :
    treeHitCount root = hitsOfRuns runs :=
  sum_map_forall₂ _ _ _ (fun e r hr => hits_runOfElem e r hr) _ _ (mapM_ok_forall₂ _ _ _ h)

end Mk.Pepxml
