import MokapotVerif.Model.ConfidenceBatch
import MokapotVerif.Lemmas.Confidence
/-! Helper lemmas for the batched scan and the chunk-wise result writer (C03). -/
namespace Mk

/-! ### batches -/

theorem ConfBatch.close_push (c : Nat) (b : ConfBatch) (r : Row) : (b.push c r).close = b.close ++ [r] := by
  unfold ConfBatch.push ConfBatch.flushFull ConfBatch.close
  split <;> simp

/-- what the scan without batches sees of a level -/
def absLvl (p : BLvl) : LvlState := (p.1, p.2.close.reverse)

/-- forget the batches: the state of `scan` -/
def absB (st : BScanState) : ScanState :=
  { seenPsm := st.seenPsm, outPsm := st.psm.close.reverse, lvls := st.lvls.map absLvl }

theorem absLvl_step (c l : Nat) (p : BLvl) (r : Row) :
    absLvl (blevelStep c l p r) = levelStep l (absLvl p) r := by
  unfold blevelStep levelStep absLvl
  split
  · rfl
  · simp [ConfBatch.close_push]

theorem absB_step (c : Nat) (dedup : Bool) (st : BScanState) (r : Row) :
    absB (bscanStep c dedup st r) = scanStep dedup (absB st) r := by
  unfold bscanStep scanStep
  have hs : (absB st).seenPsm = st.seenPsm := rfl
  rw [hs]
  split
  · rfl
  · simp only [absB, ConfBatch.close_push, List.reverse_append, List.reverse_cons, List.reverse_nil,
      List.nil_append, List.cons_append, ScanState.mk.injEq, true_and]
    apply List.ext_getElem
    · simp
    · intro i h1 h2
      simp [absLvl_step]

theorem absB_foldl (c : Nat) (dedup : Bool) : ∀ (xs : List Row) (st : BScanState),
    absB (xs.foldl (bscanStep c dedup) st) = xs.foldl (scanStep dedup) (absB st) := by
  intro xs
  induction xs with
  | nil => intro st; rfl
  | cons x rest ih => intro st; simp only [List.foldl_cons]; rw [ih, absB_step]

theorem absB_init (n : Nat) : absB (bscanInit n) = scanInit n := by
  simp [absB, bscanInit, scanInit, absLvl, ConfBatch.empty, ConfBatch.close]

/-- the batches are invisible: whatever the batch size (even one that is never reached), the
level files hold exactly the rows, in the order, the row-by-row scan appends -/
theorem bscan_eq_scan (c : Nat) (dedup : Bool) (n : Nat) (merged : List Row) :
    bscan c dedup n merged = scan dedup n merged := by
  unfold bscan scan
  have h := absB_foldl c dedup merged (bscanInit n)
  rw [absB_init] at h
  rw [← h]
  simp [absB, absLvl, List.map_map, Function.comp_def]

/-! ### chunk-wise writing -/

theorem conf_take_zip {β γ : Type} (c : Nat) (xs : List β) (ys : List γ) :
    (xs.zip ys).take c = (xs.take c).zip (ys.take c) := by
  simp [List.zip, List.take_zipWith]

theorem conf_drop_zip {β γ : Type} (c : Nat) (xs : List β) (ys : List γ) :
    (xs.zip ys).drop c = (xs.drop c).zip (ys.drop c) := by
  simp [List.zip, List.drop_zipWith]

theorem confMaskSel_take_drop {β : Type} (c : Nat) (xs : List β) (m : List Bool) :
    confMaskSel (xs.take c) (m.take c) ++ confMaskSel (xs.drop c) (m.drop c) = confMaskSel xs m := by
  unfold confMaskSel
  rw [← conf_take_zip, ← conf_drop_zip, ← List.map_append, ← List.filter_append,
    List.take_append_drop]

theorem confMaskSel_targets : ∀ (rows : List Row) (qs : List Rat),
    confMaskSel (rows.zip qs) (rows.map (fun r => r.target))
      = (rows.zip qs).filter (fun p => p.1.target) := by
  intro rows
  induction rows with
  | nil => intro qs; simp [confMaskSel]
  | cons r rest ih =>
    intro qs
    cases qs with
    | nil => simp [confMaskSel]
    | cons q qs =>
      have := ih qs
      unfold confMaskSel at this ⊢
      simp only [List.zip_cons_cons, List.map_cons, List.filter_cons]
      split <;> simp_all

theorem confMaskSel_decoys : ∀ (rows : List Row) (qs : List Rat),
    confMaskSel (rows.zip qs) ((rows.map (fun r => r.target)).map (fun b => !b))
      = (rows.zip qs).filter (fun p => !p.1.target) := by
  intro rows
  induction rows with
  | nil => intro qs; simp [confMaskSel]
  | cons r rest ih =>
    intro qs
    cases qs with
    | nil => simp [confMaskSel]
    | cons q qs =>
      have := ih qs
      unfold confMaskSel at this ⊢
      simp only [List.zip_cons_cons, List.map_cons, List.filter_cons]
      split <;> simp_all

/-- the `zip` of the three separately chunked iterators delivers every row with its own
q-value and its own mask bit -/
theorem writeChunksGo_chunks (c : Nat) (hc : 0 < c) (decoys : Bool) :
    ∀ (fuel : Nat) (rows : List Row) (qs : List Rat) (tg : List Bool) (acc : List ConfLine × List ConfLine),
      rows.length = qs.length → rows.length = tg.length → rows.length ≤ fuel →
      writeChunksGo decoys (chunksFuel c fuel rows) (chunksFuel c fuel qs) (chunksFuel c fuel tg) acc
        = some (acc.1 ++ confMaskSel (rows.zip qs) tg,
            if decoys then acc.2 ++ confMaskSel (rows.zip qs) (tg.map (fun b => !b)) else acc.2) := by
  intro fuel
  induction fuel with
  | zero =>
    intro rows qs tg acc h1 h2 h3
    have hr : rows = [] := List.eq_nil_of_length_eq_zero (by omega)
    subst hr
    have hq : qs = [] := List.eq_nil_of_length_eq_zero (by simpa using h1.symm)
    have ht : tg = [] := List.eq_nil_of_length_eq_zero (by simpa using h2.symm)
    subst hq ht
    cases decoys <;> simp [chunksFuel, writeChunksGo, confMaskSel]
  | succ n ih =>
    intro rows qs tg acc h1 h2 h3
    cases rows with
    | nil =>
      have hq : qs = [] := List.eq_nil_of_length_eq_zero (by simpa using h1.symm)
      have ht : tg = [] := List.eq_nil_of_length_eq_zero (by simpa using h2.symm)
      subst hq ht
      cases decoys <;> simp [chunksFuel, writeChunksGo, confMaskSel]
    | cons r rest =>
      cases qs with
      | nil => simp at h1
      | cons q qs' =>
        cases tg with
        | nil => simp at h2
        | cons t tg' =>
          simp only [chunksFuel, writeChunksGo]
          have hl : chunkLines (List.take c (r :: rest)) (List.take c (q :: qs')) (List.take c (t :: tg'))
              = some ((List.take c (r :: rest)).zip (List.take c (q :: qs'))) := by
            unfold chunkLines
            rw [if_pos]
            simp only [List.length_take]
            omega
          rw [hl]
          simp only [Option.bind_some]
          rw [ih]
          · have e1 := confMaskSel_take_drop c ((r :: rest).zip (q :: qs')) (t :: tg')
            have e2 := confMaskSel_take_drop c ((r :: rest).zip (q :: qs')) ((t :: tg').map (fun b => !b))
            rw [conf_take_zip, conf_drop_zip] at e1 e2
            rw [← List.map_take, ← List.map_drop] at e2
            cases decoys
            · simp only [Bool.false_eq_true, if_false, List.append_assoc, e1]
            · simp only [if_true, List.append_assoc, e1, e2]
          · simp only [List.length_drop]; omega
          · simp only [List.length_drop]; omega
          · simp only [List.length_drop, List.length_cons] at *; omega

theorem levelQvalues_length (rows : List Row) : (levelQvalues rows).length = rows.length := by
  simp [levelQvalues, tdc, tdcOf]

/-- writing a level file chunk by chunk appends to the targets file exactly the target rows of
the level, each with its own q-value, in level order; to the decoys file (when written) exactly
the decoy rows — for every chunk size -/
theorem confWriteLevelFile_eq (c : Nat) (hc : 0 < c) (decoys : Bool) (rows : List Row) :
    confWriteLevelFile c decoys rows
      = some ((splitTD rows).1, if decoys then (splitTD rows).2 else []) := by
  unfold confWriteLevelFile writeChunked chunksOf
  have hq := levelQvalues_length rows
  rw [hq, List.length_map]
  rw [writeChunksGo_chunks c hc decoys rows.length rows (levelQvalues rows) _ ([], [])
    hq.symm (by simp) (le_refl _)]
  simp only [List.nil_append, confMaskSel_targets, confMaskSel_decoys, splitTD]

/-! ### the chunk files of the executable pipeline -/

theorem chunksFuel_ne_nil {β : Type} (c : Nat) (hc : 0 < c) : ∀ (fuel : Nat) (xs : List β),
    ∀ ch ∈ chunksFuel c fuel xs, ch ≠ [] := by
  intro fuel
  induction fuel with
  | zero => intro xs ch h; simp [chunksFuel] at h
  | succ n ih =>
    intro xs ch h
    cases xs with
    | nil => simp [chunksFuel] at h
    | cons x rest =>
      simp only [chunksFuel, List.mem_cons] at h
      rcases h with rfl | h
      · cases c with
        | zero => omega
        | succ k => simp
      · exact ih _ ch h

theorem chunksOf_ne_nil {β : Type} (c : Nat) (hc : 0 < c) (xs : List β) :
    ∀ ch ∈ chunksOf c xs, ch ≠ [] := chunksFuel_ne_nil c hc xs.length xs

theorem chunksOf_eq_nil_iff {β : Type} (c : Nat) (xs : List β) : chunksOf c xs = [] ↔ xs = [] := by
  cases xs with
  | nil => simp [chunksOf, chunksFuel]
  | cons x rest => simp [chunksOf, chunksFuel]

theorem chunkFile_ne_nil (dedup : Bool) (s : List Row) (h : s ≠ []) : chunkFile dedup s ≠ [] := by
  cases s with
  | nil => exact absurd rfl h
  | cons x rest => cases dedup <;> simp [chunkFile, dedupFirst]

theorem rowBetter_trans (a b c : Row) : rowBetter a b = true → rowBetter b c = true →
    rowBetter a c = true := by
  simp only [rowBetter, decide_eq_true_eq]; intro h1 h2; exact le_trans h2 h1

theorem rowBetter_total (a b : Row) : (rowBetter a b || rowBetter b a) = true := by
  simp only [rowBetter, Bool.or_eq_true, decide_eq_true_eq]; exact le_total _ _

theorem mergeSort_sortedRows (l : List Row) : SortedRows (l.mergeSort rowBetter) := by
  have := List.pairwise_mergeSort rowBetter_trans rowBetter_total l
  unfold SortedRows
  refine this.imp ?_
  intro a b h
  simpa [rowBetter] using h

/-- the stable merge sort the executable pipeline uses is one admissible `sort_values` -/
theorem isChunkFile_mergeSort (dedup : Bool) (ch : List Row) :
    IsChunkFile dedup ch (chunkFile dedup (ch.mergeSort rowBetter)) :=
  ⟨ch.mergeSort rowBetter, List.mergeSort_perm ch rowBetter, mergeSort_sortedRows ch, rfl⟩

theorem conf_forall₂_map_self {β γ : Type} (R : β → γ → Prop) (f : β → γ) :
    ∀ (l : List β), (∀ a ∈ l, R a (f a)) → List.Forall₂ R l (l.map f) := by
  intro l
  induction l with
  | nil => intro _; exact List.Forall₂.nil
  | cons a rest ih =>
    intro h
    exact List.Forall₂.cons (h a (by simp)) (ih (fun b hb => h b (List.mem_cons_of_mem _ hb)))

end Mk
