import MokapotVerif.Model.ConfidenceKey
import Mathlib.Tactic.Linarith
/-! Helper lemmas for the entity key (C03). -/
namespace Mk

theorem confStripZeros_spec : ∀ (fuel : Nat) (m e : Int), m ≠ 0 → m.toNat + (-m).toNat ≤ fuel →
    (confStripZeros fuel m e).1 ≠ 0 ∧ (confStripZeros fuel m e).1 % 10 ≠ 0 := by
  intro fuel
  induction fuel with
  | zero => intro m e h0 hf; omega
  | succ n ih =>
    intro m e h0 hf
    unfold confStripZeros
    split
    · rename_i h
      apply ih
      · omega
      · omega
    · rename_i h
      refine ⟨h0, ?_⟩
      intro h10
      exact h ⟨h0, h10⟩

theorem confStripZeros_fix (fuel : Nat) (m e : Int) (h : m % 10 ≠ 0) :
    confStripZeros fuel m e = (m, e) := by
  cases fuel with
  | zero => rfl
  | succ n =>
    unfold confStripZeros
    rw [if_neg]
    intro hc
    exact h hc.2

/-- a normal form is its own normal form -/
theorem confNormNum_idem (m e : Int) (z : Bool) (m' e' : Int) (z' : Bool)
    (h : confNormNum m e z = .num m' e' z') : confNormNum m' e' z' = .num m' e' z' := by
  unfold confNormNum at h
  split at h
  · cases h
    simp [confNormNum]
  · rename_i h0
    cases h
    have hs := confStripZeros_spec (m.toNat + (-m).toNat) m e h0 (le_refl _)
    unfold confNormNum
    rw [if_neg hs.1, confStripZeros_fix _ _ _ hs.2]

theorem confNormNum_isNum (m e : Int) (z : Bool) : ∃ m' e' z', confNormNum m e z = .num m' e' z' := by
  unfold confNormNum
  split
  · exact ⟨_, _, _, rfl⟩
  · exact ⟨_, _, _, rfl⟩

/-- `confPlainNumber` only ever returns normal forms -/
theorem confPlainNumber_normal (s : List Char) (a : ConfKeyAtom) (h : confPlainNumber s = some a) :
    ∃ m e z, a = confNormNum m e z := by
  unfold confPlainNumber at h
  simp only [] at h
  obtain ⟨p, _, h2⟩ := Option.bind_eq_some_iff.mp h
  obtain ⟨df, _, h3⟩ := Option.map_eq_some_iff.mp h2
  exact ⟨_, _, _, h3.symm⟩

end Mk
