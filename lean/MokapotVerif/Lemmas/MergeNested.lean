import MokapotVerif.Lemmas.MergeStable
import MokapotVerif.Lemmas.MergeFrames
import Mathlib.Data.List.Perm.Subperm
/-! C14, second pass: a table merger whose inputs are table mergers (`kmergeNested`) — the order
extended by the marker "the inner merger raises here", and: stably sorting pieces first and the
whole afterwards is stably sorting the whole. -/
namespace Mk.Merge
variable {α β : Type}

/-! ## stable sort of stably sorted pieces -/

/-- the rows that tie with `t` (the score class of `t`) -/
def tieP (le : α → α → Bool) (t : α) : α → Bool := fun r => le t r && le r t

/-- two non-increasing arrangements of the same rows that agree on every score class are equal -/
theorem nonIncr_unique (le : α → α → Bool) (hle : TotalPre le) :
    ∀ (ys zs : List α), ys.Perm zs → NonIncr le ys → NonIncr le zs →
      (∀ t, ys.filter (tieP le t) = zs.filter (tieP le t)) → ys = zs := by
  intro ys
  induction ys with
  | nil => intro zs hp _ _ _; exact (List.nil_perm.mp hp).symm
  | cons y ys ih =>
    intro zs hp hy hz hf
    cases zs with
    | nil => exact absurd (List.perm_nil.mp hp) (by simp)
    | cons z zs =>
      have hzy : le z y = true := by
        have : z ∈ y :: ys := hp.symm.subset (by simp)
        rcases List.mem_cons.mp this with rfl | h
        · exact hle.refl _
        · exact (List.pairwise_cons.mp hy).1 z h
      have hyz : le y z = true := by
        have : y ∈ z :: zs := hp.subset (by simp)
        rcases List.mem_cons.mp this with rfl | h
        · exact hle.refl _
        · exact (List.pairwise_cons.mp hz).1 y h
      have h0 := hf y
      have e1 : tieP le y y = true := by simp [tieP, hle.refl]
      have e2 : tieP le y z = true := by simp [tieP, hyz, hzy]
      rw [List.filter_cons, List.filter_cons, e1, e2] at h0
      simp only [if_true] at h0
      have hyz' : y = z := (List.cons.inj h0).1
      subst hyz'
      congr 1
      refine ih zs ((List.perm_cons y).mp hp) (List.pairwise_cons.mp hy).2
        (List.pairwise_cons.mp hz).2 ?_
      intro t
      have := hf t
      rw [List.filter_cons, List.filter_cons] at this
      split at this
      · exact (List.cons.inj this).2
      · exact this

theorem flatten_map_sort_perm (le : α → α → Bool) (pieces : List (List α)) :
    (pieces.map (stableSortDesc le)).flatten.Perm pieces.flatten := by
  induction pieces with
  | nil => simp
  | cons p ps ih =>
    simp only [List.map_cons, List.flatten_cons]
    exact (stableSortDesc_perm le p).append ih

theorem flatten_map_sort_filter (le : α → α → Bool) (hle : TotalPre le) (t : α)
    (pieces : List (List α)) :
    (pieces.map (stableSortDesc le)).flatten.filter (tieP le t) = pieces.flatten.filter (tieP le t) := by
  induction pieces with
  | nil => simp
  | cons p ps ih =>
    simp only [List.map_cons, List.flatten_cons, List.filter_append, ih]
    congr 1
    exact stableSortDesc_filter le hle t p

/-- stably sorting the pieces first and their concatenation afterwards is stably sorting the
concatenation of the pieces -/
theorem stableSortDesc_pieces (le : α → α → Bool) (hle : TotalPre le) (pieces : List (List α)) :
    stableSortDesc le (pieces.map (stableSortDesc le)).flatten = stableSortDesc le pieces.flatten := by
  refine nonIncr_unique le hle _ _ ?_ (stableSortDesc_sorted le hle _) (stableSortDesc_sorted le hle _) ?_
  · exact (stableSortDesc_perm le _).trans
      ((flatten_map_sort_perm le pieces).trans (stableSortDesc_perm le _).symm)
  · intro t
    have h1 := stableSortDesc_filter le hle t (pieces.map (stableSortDesc le)).flatten
    have h2 := stableSortDesc_filter le hle t pieces.flatten
    exact h1.trans ((flatten_map_sort_filter le hle t pieces).trans h2.symm)

theorem stableSortAs_pieces (le : α → α → Bool) (hle : TotalPre le) (desc : Bool)
    (pieces : List (List α)) :
    stableSortAs le desc (pieces.map (stableSortAs le desc)).flatten
      = stableSortAs le desc pieces.flatten := by
  cases desc
  · have hf : stableSortAs le false = stableSortDesc (fun a b => le b a) := by
      funext xs; simp [stableSortAs]
    rw [hf]
    exact stableSortDesc_pieces (fun a b => le b a) (totalPre_dual hle) pieces
  · have hf : stableSortAs le true = stableSortDesc le := by
      funext xs; simp [stableSortAs]
    rw [hf]
    exact stableSortDesc_pieces le hle pieces

theorem stableSortAs_perm (le : α → α → Bool) (desc : Bool) (xs : List α) :
    (stableSortAs le desc xs).Perm xs := by
  cases desc <;> simp [stableSortAs, stableSortDesc_perm]

theorem stableSortAs_sorted (le : α → α → Bool) (hle : TotalPre le) (desc : Bool) (xs : List α) :
    SortedAs le desc (stableSortAs le desc xs) := by
  cases desc
  · simpa [stableSortAs, SortedAs] using stableSortDesc_sorted _ (totalPre_dual hle) xs
  · simpa [stableSortAs, SortedAs] using stableSortDesc_sorted le hle xs

/-! ## the order extended by "the inner merger raises here" -/

theorem leRaise_totalPre {le : α → α → Bool} (hle : TotalPre le) (desc : Bool) :
    TotalPre (leRaise le desc) := by
  constructor
  · intro a b
    cases a <;> cases b <;> cases desc <;> simp [leRaise]
    all_goals exact hle.total _ _
  · intro a b c
    cases a <;> cases b <;> cases c <;> cases desc <;> simp [leRaise]
    all_goals exact hle.trans _ _ _

theorem sortedAs_map_some (le : α → α → Bool) (desc : Bool) (xs : List α) :
    SortedAs (leRaise le desc) desc (xs.map some) ↔ SortedAs le desc xs := by
  cases desc <;> simp [SortedAs, NonIncr, List.pairwise_map, leRaise]

theorem not_sortedAs_raise (le : α → α → Bool) (desc : Bool) (xs : List α) (h : xs ≠ []) :
    ¬ SortedAs (leRaise le desc) desc (xs.map some ++ [none]) := by
  obtain ⟨x, hx⟩ := List.exists_mem_of_ne_nil xs h
  intro hs
  cases desc
  · simp only [SortedAs, Bool.false_eq_true, if_false, NonIncr] at hs
    have := (List.pairwise_append.mp hs).2.2 (some x) (List.mem_map.mpr ⟨x, hx, rfl⟩) none (by simp)
    simp [leRaise] at this
  · simp only [SortedAs, if_true, NonIncr] at hs
    have := (List.pairwise_append.mp hs).2.2 (some x) (List.mem_map.mpr ⟨x, hx, rfl⟩) none (by simp)
    simp [leRaise] at this

theorem sortedAs_filterMap_id (le : α → α → Bool) (desc : Bool) (ys : List (Option α))
    (h : SortedAs (leRaise le desc) desc ys) : SortedAs le desc (ys.filterMap id) := by
  cases desc
  · simp only [SortedAs, Bool.false_eq_true, if_false, NonIncr] at h ⊢
    rw [List.pairwise_filterMap]
    refine h.imp ?_
    intro a a' haa b hb b' hb'
    simp only [id] at hb hb'
    subst hb; subst hb'
    simpa [leRaise] using haa
  · simp only [SortedAs, if_true, NonIncr] at h ⊢
    rw [List.pairwise_filterMap]
    refine h.imp ?_
    intro a a' haa b hb b' hb'
    simp only [id] at hb hb'
    subst hb; subst hb'
    simpa [leRaise] using haa

theorem filterMap_id_map_some (xs : List α) : (xs.map some).filterMap id = xs := by
  induction xs with
  | nil => rfl
  | cons x xs ih => simp

theorem nestedInput_filterMap (r : List (List α) × Bool) :
    (nestedInput r).filterMap id = r.1.flatten := by
  unfold nestedInput
  rw [List.filterMap_append, filterMap_id_map_some]
  cases r.2 <;> simp

theorem startsRaised_map_some (xs : List α) (tl : List (Option α)) (h : xs ≠ []) :
    startsRaised (xs.map some ++ tl) = false := by
  cases xs with
  | nil => exact absurd rfl h
  | cons x xs => rfl

theorem startsRaised_nestedInput (r : List (List α) × Bool) :
    startsRaised (nestedInput r) = true ↔ r.1.flatten = [] ∧ r.2 = true := by
  unfold nestedInput
  cases hf : r.1.flatten with
  | nil => cases r.2 <;> simp [startsRaised]
  | cons x xs => simp [startsRaised]

theorem nestedInput_ne_nil (r : List (List α) × Bool) (h : r.2 = false → r.1.flatten ≠ []) :
    nestedInput r ≠ [] := by
  unfold nestedInput
  cases h2 : r.2 with
  | true => simp
  | false =>
    have := h h2
    simpa using this

theorem subperm_filterMap_id {l₁ l₂ : List (Option α)} (h : l₁.Subperm l₂) :
    (l₁.filterMap id).Subperm (l₂.filterMap id) := by
  obtain ⟨l, hp, hs⟩ := h
  exact ⟨l.filterMap id, hp.filterMap id, hs.filterMap id⟩

/-- piecewise sub-multisets of the members that `F` keeps add up to a sub-multiset of the whole -/
theorem flatten_filterMap_subperm (F : List (List α) → Option β) (proj : β → List α)
    (groups : List (List (List α)))
    (h : ∀ g ∈ groups, ∀ d, F g = some d → (proj d).Subperm g.flatten) :
    ((groups.filterMap F).map proj).flatten.Subperm groups.flatten.flatten := by
  induction groups with
  | nil => simp
  | cons g gs ih =>
    have ih' := ih (fun g' hg' => h g' (List.mem_cons_of_mem _ hg'))
    simp only [List.flatten_cons, List.flatten_append]
    cases hF : F g with
    | none =>
      rw [List.filterMap_cons_none hF]
      exact ih'.trans (List.sublist_append_right _ _).subperm
    | some d =>
      rw [List.filterMap_cons_some hF]
      simp only [List.map_cons, List.flatten_cons]
      exact (h g (by simp) d hF).append ih'

end Mk.Merge
