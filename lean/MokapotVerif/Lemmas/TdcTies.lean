import MokapotVerif.Model.TdcTies
import MokapotVerif.Lemmas.TdcFdrSum
/-!
# Optional stopping when only some prefixes may be accepted (tied scores)

`stopWith a cuts L` = the longest prefix `p` of the labelled ranking `L` that (i) ends where
`cuts` allows a cut and (ii) passes `(D + 1) ≤ a · T`.  The set of possible cuts is fixed before
the labels are drawn (tie groups of a label-independent ranking).  The induction of
`Lemmas/TdcFdrCore.lean` (peel off the worst item) goes through unchanged: whether a cut is
possible at the current length is a label-independent side condition of the "stop here" case.
-/
namespace Mk.TdcX
open Mk Mk.Tdc
variable {κ : Type}

/-! ## `lastTrue` -/

theorem lastTrue_le (P : Nat → Bool) : ∀ n, lastTrue P n ≤ n
  | 0 => Nat.le_refl 0
  | n + 1 => by
    unfold lastTrue
    split
    · exact Nat.le_refl _
    · exact Nat.le_succ_of_le (lastTrue_le P n)

theorem lastTrue_spec (P : Nat → Bool) : ∀ n, lastTrue P n ≠ 0 → P (lastTrue P n) = true
  | 0 => fun h => absurd rfl h
  | n + 1 => by
    intro h
    unfold lastTrue at h ⊢
    split
    · rename_i hp; exact hp
    · rename_i hp; rw [if_neg hp] at h; exact lastTrue_spec P n h

theorem le_lastTrue (P : Nat → Bool) : ∀ n p, p ≤ n → P p = true → p ≤ lastTrue P n
  | 0, p, hp, _ => by
    have : p = 0 := by omega
    subst this; exact Nat.zero_le _
  | n + 1, p, hp, hP => by
    unfold lastTrue
    split
    · exact hp
    · rename_i hn
      have hne : p ≠ n + 1 := by
        intro e; rw [e] at hP; exact hn hP
      exact le_lastTrue P n p (by omega) hP

theorem lastTrue_congr (P Q : Nat → Bool) : ∀ n, (∀ p, p ≤ n → P p = Q p) → lastTrue P n = lastTrue Q n
  | 0, _ => rfl
  | n + 1, h => by
    unfold lastTrue
    rw [h (n + 1) (Nat.le_refl _), lastTrue_congr P Q n (fun p hp => h p (Nat.le_succ_of_le hp))]

/-! ## counts -/

theorem cntTargets_eq_Tc (L : List (κ × Bool)) (p : Nat) : cntTargets L p = Tc L p := rfl
theorem cntDecoys_eq_Dc (L : List (κ × Bool)) (p : Nat) : cntDecoys L p = Dc L p := rfl

theorem cutOk_iff (a : Rat) (cuts : List Bool) (L : List (κ × Bool)) (p : Nat) :
    cutOk a cuts L p = true ↔ cuts.getD (p - 1) false = true ∧ 0 < p ∧ okAt a L p := by
  unfold cutOk okAt
  rw [Bool.and_eq_true, Bool.and_eq_true, decide_eq_true_iff, decide_eq_true_iff, and_assoc]
  rfl

/-- the stop depends on the labels only -/
theorem stopWith_congr {κ' : Type} (a : Rat) (cuts : List Bool) (L : List (κ × Bool))
    (L' : List (κ' × Bool)) (h : L.map (·.2) = L'.map (·.2)) :
    stopWith a cuts L = stopWith a cuts L' := by
  have hlen : L.length = L'.length := by simpa using congrArg List.length h
  have hT : ∀ p, cntTargets L p = cntTargets L' p := by
    intro p
    unfold cntTargets
    have : (L.take p).map (·.2) = (L'.take p).map (·.2) := by rw [List.map_take, List.map_take, h]
    have e1 : (L.take p).countP (fun x => x.2) = ((L.take p).map (·.2)).countP id := by
      rw [List.countP_map]; rfl
    have e2 : (L'.take p).countP (fun x => x.2) = ((L'.take p).map (·.2)).countP id := by
      rw [List.countP_map]; rfl
    rw [e1, e2, this]
  have hD : ∀ p, cntDecoys L p = cntDecoys L' p := by
    intro p
    unfold cntDecoys
    have : (L.take p).map (·.2) = (L'.take p).map (·.2) := by rw [List.map_take, List.map_take, h]
    have e1 : (L.take p).countP (fun x => !x.2) = ((L.take p).map (·.2)).countP (fun b => !b) := by
      rw [List.countP_map]; rfl
    have e2 : (L'.take p).countP (fun x => !x.2) = ((L'.take p).map (·.2)).countP (fun b => !b) := by
      rw [List.countP_map]; rfl
    rw [e1, e2, this]
  unfold stopWith
  rw [hlen]
  apply lastTrue_congr
  intro p _
  unfold cutOk
  rw [hT, hD]

/-! ## the backward scan with cut flags -/

/-- backward scan over a worst-first list; `bs` (worst-first as well) says whether a cut is
possible after the whole current list -/
def stopB (a : Rat) (val : List (κ × Bool) → Rat) : List Bool → List (κ × Bool) → Rat
  | b :: bs, x :: R => if b = true ∧ okR a (x :: R) then val (x :: R) else stopB a val bs R
  | _, _ => 0

/-- value of the accepted prefix, generic in the value function -/
def atStopB (a : Rat) (cuts : List Bool) (val : List (κ × Bool) → Rat) (L : List (κ × Bool)) : Rat :=
  if stopWith a cuts L = 0 then 0 else val (L.take (stopWith a cuts L))

/-- `V / T` at the accepted prefix: the false discovery proportion -/
def FDPB (a : Rat) (cuts : List Bool) (L : List (Kind × Bool)) : Rat := atStopB a cuts valF L
/-- `V / (1 + D)` at the accepted prefix -/
def MDPB (a : Rat) (cuts : List Bool) (L : List (Kind × Bool)) : Rat := atStopB a cuts valM L

theorem stopB_nil_left (a : Rat) (val : List (κ × Bool) → Rat) (R : List (κ × Bool)) :
    stopB a val [] R = 0 := by
  cases R <;> rfl

theorem stopB_nil_right (a : Rat) (val : List (κ × Bool) → Rat) (bs : List Bool) :
    stopB a val bs [] = 0 := by
  cases bs <;> rfl

theorem stopB_cons (a : Rat) (val : List (κ × Bool) → Rat) (b : Bool) (bs : List Bool) (x : κ × Bool)
    (R : List (κ × Bool)) :
    stopB a val (b :: bs) (x :: R) = if b = true ∧ okR a (x :: R) then val (x :: R) else stopB a val bs R :=
  rfl

theorem cutOk_snoc (a : Rat) (cuts : List Bool) (b : Bool) (L : List (κ × Bool)) (x : κ × Bool)
    (hc : cuts.length = L.length) (p : Nat) (hp : p ≤ L.length) :
    cutOk a (cuts ++ [b]) (L ++ [x]) p = cutOk a cuts L p := by
  unfold cutOk cntDecoys cntTargets
  rw [List.take_append_of_le_length hp]
  rcases Nat.eq_zero_or_pos p with h0 | hpos
  · subst h0; simp
  · have hlt : p - 1 < cuts.length := by omega
    have : (cuts ++ [b]).getD (p - 1) false = cuts.getD (p - 1) false := by
      simp [List.getD_eq_getElem?_getD, List.getElem?_append_left hlt]
    rw [this]

theorem cutOk_full (a : Rat) (cuts : List Bool) (b : Bool) (L : List (κ × Bool)) (x : κ × Bool)
    (hc : cuts.length = L.length) :
    cutOk a (cuts ++ [b]) (L ++ [x]) (L.length + 1) = true ↔ b = true ∧ okR a (x :: L.reverse) := by
  rw [cutOk_iff]
  have h1 : (cuts ++ [b]).getD (L.length + 1 - 1) false = b := by
    simp [List.getD_eq_getElem?_getD, ← hc]
  have h2 : okAt a (L ++ [x]) (L.length + 1) ↔ okR a (x :: L.reverse) := by
    have := okAt_length_reverse a (x :: L.reverse)
    simp only [List.reverse_cons, List.reverse_reverse, List.length_append, List.length_cons,
      List.length_nil, Nat.zero_add] at this
    exact this
  rw [h1, h2]
  constructor
  · rintro ⟨hb, _, hok⟩; exact ⟨hb, hok⟩
  · rintro ⟨hb, hok⟩; exact ⟨hb, Nat.succ_pos _, hok⟩

/-- the accepted prefix of a best-first list is found by the backward scan of its reversal -/
theorem atStopB_reverse (a : Rat) (val : List (κ × Bool) → Rat) (hval : ∀ R, val R.reverse = val R) :
    ∀ (bs : List Bool) (R : List (κ × Bool)), bs.length = R.length →
      atStopB a bs.reverse val R.reverse = stopB a val bs R
  | [], [], _ => by
    unfold atStopB stopWith
    simp [lastTrue, stopB]
  | [], _ :: _, h => by simp at h
  | _ :: _, [], h => by simp at h
  | b :: bs, x :: R, h => by
    have hlen : bs.length = R.length := by simpa using h
    have hc : bs.reverse.length = R.reverse.length := by simp [hlen]
    have ih := atStopB_reverse a val hval bs R hlen
    rw [List.reverse_cons, List.reverse_cons, stopB_cons]
    have hL : (R.reverse ++ [x]).length = R.reverse.length + 1 := by simp
    by_cases hok : b = true ∧ okR a (x :: R)
    · have hfull : cutOk a (bs.reverse ++ [b]) (R.reverse ++ [x]) (R.reverse.length + 1) = true := by
        rw [cutOk_full a bs.reverse b R.reverse x hc, List.reverse_reverse]; exact hok
      have hP : stopWith a (bs.reverse ++ [b]) (R.reverse ++ [x]) = R.reverse.length + 1 := by
        unfold stopWith
        rw [hL, lastTrue, if_pos hfull]
      unfold atStopB
      rw [hP, if_neg (Nat.succ_ne_zero _), if_pos hok, ← hL, List.take_length]
      have := hval (x :: R)
      rw [List.reverse_cons] at this
      exact this
    · have hfull : ¬ cutOk a (bs.reverse ++ [b]) (R.reverse ++ [x]) (R.reverse.length + 1) = true := by
        rw [cutOk_full a bs.reverse b R.reverse x hc, List.reverse_reverse]; exact hok
      have hP : stopWith a (bs.reverse ++ [b]) (R.reverse ++ [x]) = stopWith a bs.reverse R.reverse := by
        unfold stopWith
        rw [hL, lastTrue, if_neg hfull]
        apply lastTrue_congr
        intro p hp
        exact cutOk_snoc a bs.reverse b R.reverse x hc p hp
      have hle : stopWith a bs.reverse R.reverse ≤ R.reverse.length := lastTrue_le _ _
      have : atStopB a (bs.reverse ++ [b]) val (R.reverse ++ [x]) = atStopB a bs.reverse val R.reverse := by
        unfold atStopB
        rw [hP, List.take_append_of_le_length hle]
      rw [this, ih, if_neg hok]

theorem FDPB_eq_stopB (a : Rat) (cuts : List Bool) (L : List (Kind × Bool)) (h : cuts.length = L.length) :
    FDPB a cuts L = stopB a valF cuts.reverse L.reverse := by
  have := atStopB_reverse a valF valF_reverse cuts.reverse L.reverse (by simp [h])
  rw [List.reverse_reverse, List.reverse_reverse] at this
  exact this

theorem MDPB_eq_stopB (a : Rat) (cuts : List Bool) (L : List (Kind × Bool)) (h : cuts.length = L.length) :
    MDPB a cuts L = stopB a valM cuts.reverse L.reverse := by
  have := atStopB_reverse a valM valM_reverse cuts.reverse L.reverse (by simp [h])
  rw [List.reverse_reverse, List.reverse_reverse] at this
  exact this

/-- Stage 2 on the backward scan with cut flags -/
theorem stopB_valF_le (a : Rat) : ∀ (bs : List Bool) (R : List (Kind × Bool)),
    stopB a valF bs R ≤ a * stopB a valM bs R
  | [], R => by rw [stopB_nil_left, stopB_nil_left]; simp
  | _ :: _, [] => by rw [stopB_nil_right, stopB_nil_right]; simp
  | b :: bs, x :: R => by
    rw [stopB_cons, stopB_cons]
    by_cases hok : b = true ∧ okR a (x :: R)
    · rw [if_pos hok, if_pos hok]; exact valF_le_of_ok a _ hok.2
    · rw [if_neg hok, if_neg hok]; exact stopB_valF_le a bs R

theorem FDPB_le_mul_MDPB (a : Rat) (cuts : List Bool) (L : List (Kind × Bool)) (h : cuts.length = L.length) :
    FDPB a cuts L ≤ a * MDPB a cuts L := by
  rw [FDPB_eq_stopB a cuts L h, MDPB_eq_stopB a cuts L h]; exact stopB_valF_le a _ _

/-! ## Stage 4 with cut flags -/

theorem Bnd_cast_nonneg (v d : Nat) : (0 : Rat) ≤ ((Bnd v d : Nat) : Rat) := Nat.cast_nonneg _

theorem sum_map_zero {β : Type} (l : List β) (f : β → Rat) (h : ∀ x ∈ l, f x = 0) : (l.map f).sum = 0 := by
  rw [sum_map_const l f 0 h]; simp

/-- **optional stopping with a fixed set of possible cuts**: stopping early, and only where a
cut is possible, never gains over the value `v/(d+1)` of the whole list -/
theorem sum_stopB_le_Bnd (a : Rat) : ∀ (rs : List Kind) (bs : List Bool) (v d : Nat), v + d = nulls rs →
    ((W rs v d).map (stopB a valM bs)).sum ≤ ((Bnd v d : Nat) : Rat)
  | [], bs, v, d, h => by
    have : v = 0 ∧ d = 0 := by simp [nulls] at h; omega
    obtain ⟨rfl, rfl⟩ := this
    simp [W, stopB_nil_right, Bnd]
  | k :: rs, [], v, d, _ => by
    rw [sum_map_zero _ _ (fun R _ => stopB_nil_left a valM R)]
    exact Bnd_cast_nonneg v d
  | k :: rs, b :: bs, v, d, h => by
    by_cases hc : b = true ∧ ((d + 1 : Nat) : Rat) ≤ a * ((v + tts (k :: rs) : Nat) : Rat)
    · -- a cut is possible here and the whole list is acceptable for every arrangement
      have hall : ∀ R ∈ W (k :: rs) v d,
          stopB a valM (b :: bs) R = ((v : Nat) : Rat) / ((d + 1 : Nat) : Rat) := by
        intro R hR
        obtain ⟨h1, h2, h3⟩ := W_counts _ _ _ R hR
        have hok : okR a R := by unfold okR; rw [h2, h3]; exact hc.2
        have hne := W_ne_nil k rs v d R hR
        obtain ⟨x, R', rfl⟩ := List.exists_cons_of_ne_nil hne
        rw [stopB_cons, if_pos ⟨hc.1, hok⟩]
        unfold valM; rw [h1, h2]
      rw [sum_map_const _ _ _ hall, W_length _ _ _ h]
      exact le_of_eq (choose_mul_eq_Bnd v d)
    · -- no stop at this length: drop the worst item
      have hall : ∀ R ∈ W (k :: rs) v d, stopB a valM (b :: bs) R = stopB a valM bs R.tail := by
        intro R hR
        obtain ⟨h1, h2, h3⟩ := W_counts _ _ _ R hR
        have hne := W_ne_nil k rs v d R hR
        obtain ⟨x, R', rfl⟩ := List.exists_cons_of_ne_nil hne
        have hok : ¬ (b = true ∧ okR a (x :: R')) := by
          intro hh
          apply hc
          refine ⟨hh.1, ?_⟩
          have := hh.2
          unfold okR at this; rw [h2, h3] at this; exact this
        rw [stopB_cons, if_neg hok, List.tail_cons]
      rw [sum_map_congr _ _ _ hall]
      have hcomp : (W (k :: rs) v d).map (fun R => stopB a valM bs R.tail)
          = ((W (k :: rs) v d).map List.tail).map (stopB a valM bs) := by
        rw [List.map_map]; rfl
      rw [hcomp]
      cases k with
      | trueTarget =>
        rw [W_tail_tt]
        rw [nulls_cons_tt] at h
        exact sum_stopB_le_Bnd a rs bs v d h
      | null =>
        rw [W_tail_null]
        rw [nulls_cons_null] at h
        rcases v with _ | v
        · rcases d with _ | d
          · omega
          · have ih := sum_stopB_le_Bnd a rs bs 0 d (by omega)
            simpa [Bnd] using ih
        · rcases d with _ | d
          · have ih := sum_stopB_le_Bnd a rs bs v 0 (by omega)
            simp only [Nat.succ_ne_zero, if_false, if_true, Nat.add_sub_cancel, List.append_nil]
            refine le_trans ih ?_
            rw [Bnd_zero_right, Bnd_zero_right]
            exact_mod_cast Nat.le_succ v
          · have ih1 := sum_stopB_le_Bnd a rs bs v (d + 1) (by omega)
            have ih2 := sum_stopB_le_Bnd a rs bs (v + 1) d (by omega)
            simp only [Nat.succ_ne_zero, if_false, Nat.add_sub_cancel, List.map_append,
              List.sum_append]
            rw [← Bnd_pascal v d]
            push_cast
            linarith

/-! ## Stage 5 with cut flags -/

theorem allLab_length : ∀ (ks : List Kind) (L : List (Kind × Bool)), L ∈ allLab ks → L.length = ks.length
  | [], L, h => by simp [allLab] at h; subst h; rfl
  | Kind.trueTarget :: ks, L, h => by
    simp only [allLab, List.mem_map] at h
    obtain ⟨L', hL', rfl⟩ := h
    simp [allLab_length ks L' hL']
  | Kind.null :: ks, L, h => by
    simp only [allLab, List.mem_append, List.mem_map] at h
    rcases h with ⟨L', hL', rfl⟩ | ⟨L', hL', rfl⟩ <;> simp [allLab_length ks L' hL']

open Finset in
theorem sum_MDPB_le (ks : List Kind) (cuts : List Bool) (hc : cuts.length = ks.length) (a : Rat) :
    (∑ ω : Fin (nulls ks) → Bool, MDPB a cuts (lab ks (List.ofFn ω))) ≤ 2 ^ nulls ks - 1 := by
  rw [sum_ofFn_eq (nulls ks) (fun ω => MDPB a cuts (lab ks ω)), sum_allBools_lab ks (MDPB a cuts)]
  have h1 : (allLab ks).map (MDPB a cuts) = (allLab ks).map (fun L => stopB a valM cuts.reverse L.reverse) :=
    List.map_congr_left (fun L hL => MDPB_eq_stopB a cuts L (by rw [hc, allLab_length ks L hL]))
  rw [h1, sum_allLab_reverse ks (stopB a valM cuts.reverse), sum_allLab_eq_sum_W]
  have hn : nulls ks.reverse = nulls ks := by simp [nulls]
  rw [hn]
  have hle : ∀ v ∈ range (nulls ks + 1),
      ((W ks.reverse v (nulls ks - v)).map (stopB a valM cuts.reverse)).sum
        ≤ ((Bnd v (nulls ks - v) : Nat) : Rat) := by
    intro v hv
    have hv' : v < nulls ks + 1 := Finset.mem_range.mp hv
    exact sum_stopB_le_Bnd a ks.reverse cuts.reverse v (nulls ks - v) (by rw [hn]; omega)
  refine le_trans (Finset.sum_le_sum hle) (le_of_eq ?_)
  have h2 : (((∑ v ∈ range (nulls ks + 1), Bnd v (nulls ks - v)) + 1 : Nat) : Rat)
      = ((2 ^ nulls ks : Nat) : Rat) := by rw [sum_Bnd]
  push_cast at h2
  linarith

theorem lab_length : ∀ (ks : List Kind) (ω : List Bool), (lab ks ω).length = ks.length
  | [], _ => rfl
  | Kind.trueTarget :: ks, ω => by simp [lab, lab_length ks ω]
  | Kind.null :: ks, ω => by simp [lab, lab_length ks ω.tail]

open Finset in
/-- `E[FDP] ≤ a` when only the prefixes named by `cuts` can be accepted -/
theorem sum_FDPB_le (ks : List Kind) (cuts : List Bool) (hc : cuts.length = ks.length) (a : Rat)
    (ha : 0 < a) :
    (∑ ω : Fin (nulls ks) → Bool, FDPB a cuts (lab ks (List.ofFn ω))) ≤ a * 2 ^ nulls ks := by
  have hlab : ∀ ω : List Bool, (lab ks ω).length = ks.length := lab_length ks
  have h1 : (∑ ω : Fin (nulls ks) → Bool, FDPB a cuts (lab ks (List.ofFn ω)))
      ≤ ∑ ω : Fin (nulls ks) → Bool, a * MDPB a cuts (lab ks (List.ofFn ω)) :=
    Finset.sum_le_sum (fun ω _ => FDPB_le_mul_MDPB a cuts _ (by rw [hc, hlab]))
  rw [← Finset.mul_sum] at h1
  have h2 := sum_MDPB_le ks cuts hc a
  have h3 : a * (∑ ω : Fin (nulls ks) → Bool, MDPB a cuts (lab ks (List.ofFn ω)))
      ≤ a * (2 ^ nulls ks - 1) := mul_le_mul_of_nonneg_left h2 ha.le
  have h4 : a * (2 ^ nulls ks - 1) ≤ a * 2 ^ nulls ks := by
    rw [mul_sub]; linarith
  linarith

end Mk.TdcX
