import MokapotVerif.Model.Picked
import MokapotVerif.Lemmas.Picked
import Mathlib.Data.List.Perm.Basic
/-!
# Lemmas about the model of `match_decoy` / `group_without_decoys` (C15, target-only FASTA)
-/
namespace Mk.Picked
variable {α : Type}

/-! ## `popFirst` -/

theorem popFirst_some {k : Str} {pool : List Str} {t : Str} {pool' : List Str}
    (h : popFirst k pool = some (t, pool')) : targetComp t = k ∧ pool.Perm (t :: pool') := by
  induction pool generalizing pool' with
  | nil => simp [popFirst] at h
  | cons a as ih =>
    unfold popFirst at h
    by_cases hk : targetComp a = k
    · rw [if_pos hk] at h
      simp only [Option.some.injEq, Prod.mk.injEq] at h
      obtain ⟨h1, h2⟩ := h
      rw [← h1, ← h2]
      exact ⟨hk, List.Perm.refl _⟩
    · rw [if_neg hk] at h
      cases hp : popFirst k as with
      | none => rw [hp] at h; simp at h
      | some x =>
        obtain ⟨t0, p0⟩ := x
        rw [hp] at h
        simp only [Option.map_some, Option.some.injEq, Prod.mk.injEq] at h
        obtain ⟨h1, h2⟩ := h
        rw [h1] at hp
        obtain ⟨hc, hperm⟩ := ih hp
        rw [← h2]
        exact ⟨hc, (hperm.cons a).trans (List.Perm.swap _ _ _)⟩

theorem popFirst_none {k : Str} {pool : List Str} (h : popFirst k pool = none) :
    ∀ t ∈ pool, targetComp t ≠ k := by
  induction pool with
  | nil => intro t ht; simp at ht
  | cons a as ih =>
    unfold popFirst at h
    by_cases hk : targetComp a = k
    · rw [if_pos hk] at h; simp at h
    · rw [if_neg hk] at h
      have hp : popFirst k as = none := by
        cases hq : popFirst k as with
        | none => rfl
        | some x => rw [hq] at h; simp at h
      intro t ht
      rcases List.mem_cons.mp ht with rfl | ht
      · exact hk
      · exact ih hp t ht

/-! ## `dictSet` -/

theorem mem_dictSet {k v : Str} {l : List (Str × Str)} {x : Str × Str} (h : x ∈ dictSet k v l) :
    x = (k, v) ∨ x ∈ l := by
  induction l with
  | nil => left; simpa [dictSet] using h
  | cons kv rest ih =>
    unfold dictSet at h
    by_cases hk : kv.1 = k
    · rw [if_pos hk] at h
      rcases List.mem_cons.mp h with h | h
      · left; exact h
      · right; exact List.mem_cons_of_mem _ h
    · rw [if_neg hk] at h
      rcases List.mem_cons.mp h with h | h
      · right; rw [h]; exact List.mem_cons_self
      · rcases ih h with h | h
        · left; exact h
        · right; exact List.mem_cons_of_mem _ h

theorem dictSet_of_not_mem {k v : Str} {l : List (Str × Str)} (h : k ∉ l.map Prod.fst) :
    dictSet k v l = l ++ [(k, v)] := by
  induction l with
  | nil => rfl
  | cons kv rest ih =>
    simp only [List.map_cons, List.mem_cons, not_or] at h
    unfold dictSet
    rw [if_neg (fun e => h.1 e.symm), ih h.2]
    rfl

theorem dictSet_keys_of_mem {k v : Str} {l : List (Str × Str)} (h : k ∈ l.map Prod.fst) :
    (dictSet k v l).map Prod.fst = l.map Prod.fst := by
  induction l with
  | nil => simp at h
  | cons kv rest ih =>
    unfold dictSet
    by_cases hk : kv.1 = k
    · rw [if_pos hk]; simp [hk]
    · rw [if_neg hk]
      simp only [List.map_cons, List.mem_cons] at h
      rcases h with h | h
      · exact absurd h.symm hk
      · simp [ih h]

theorem dictSet_keys_nodup {k v : Str} {l : List (Str × Str)} (h : (l.map Prod.fst).Nodup) :
    ((dictSet k v l).map Prod.fst).Nodup := by
  by_cases hk : k ∈ l.map Prod.fst
  · rw [dictSet_keys_of_mem hk]; exact h
  · rw [dictSet_of_not_mem hk, List.map_append]
    simp only [List.map_cons, List.map_nil]
    rw [List.nodup_append]
    refine ⟨h, by simp, ?_⟩
    intro a ha b hb
    simp only [List.mem_singleton] at hb
    rw [hb]
    rintro rfl
    exact hk ha

theorem dictSet_keys_subset {k v : Str} {l : List (Str × Str)} :
    ∀ a ∈ l.map Prod.fst, a ∈ (dictSet k v l).map Prod.fst := by
  intro a ha
  by_cases hk : k ∈ l.map Prod.fst
  · rw [dictSet_keys_of_mem hk]; exact ha
  · rw [dictSet_of_not_mem hk, List.map_append]
    exact List.mem_append_left _ ha

theorem dictSet_key_mem {k v : Str} {l : List (Str × Str)} : k ∈ (dictSet k v l).map Prod.fst := by
  by_cases hk : k ∈ l.map Prod.fst
  · rw [dictSet_keys_of_mem hk]; exact hk
  · rw [dictSet_of_not_mem hk, List.map_append]
    exact List.mem_append_right _ (by simp)

theorem dictSet_vals_count {k v : Str} {l : List (Str × Str)} (x : Str) :
    ((dictSet k v l).map Prod.snd).count x ≤ (v :: l.map Prod.snd).count x := by
  induction l with
  | nil => simp [dictSet]
  | cons kv rest ih =>
    unfold dictSet
    by_cases hk : kv.1 = k
    · rw [if_pos hk]
      simp only [List.map_cons, List.count_cons]
      omega
    · rw [if_neg hk]
      simp only [List.map_cons, List.count_cons] at ih ⊢
      omega

/-! ## the loop of `match_decoy`: soundness and injectivity (any decoys, any arrangement) -/

/-- invariant of the loop state after the decoys `seen` -/
structure MatchInv (shuffled seen : List Str) (st : List Str × List (Str × Str)) : Prop where
  sound : ∀ dt ∈ st.2, dt.1 ∈ seen ∧ dt.2 ∈ shuffled ∧ targetComp dt.2 = decoyComp dt.1
  keys : (st.2.map Prod.fst).Nodup
  pool : ∀ t ∈ st.1, t ∈ shuffled
  count : ∀ x, (st.2.map Prod.snd).count x + st.1.count x ≤ shuffled.count x

theorem MatchInv.mono {shuffled seen seen' : List Str} {st : List Str × List (Str × Str)}
    (h : MatchInv shuffled seen st) (hs : ∀ d ∈ seen, d ∈ seen') : MatchInv shuffled seen' st :=
  ⟨fun dt hdt => ⟨hs _ (h.sound dt hdt).1, (h.sound dt hdt).2⟩, h.keys, h.pool, h.count⟩

theorem matchStep_inv {shuffled seen : List Str} {st : List Str × List (Str × Str)} (d : Str)
    (h : MatchInv shuffled seen st) : MatchInv shuffled (seen ++ [d]) (matchStep st d) := by
  unfold matchStep
  cases hp : popFirst (decoyComp d) st.1 with
  | none =>
    simp only [Option.map_none, Option.getD_none]
    exact h.mono (fun x hx => List.mem_append_left _ hx)
  | some x =>
    obtain ⟨t, pool'⟩ := x
    simp only [Option.map_some, Option.getD_some]
    obtain ⟨hc, hperm⟩ := popFirst_some hp
    have ht : t ∈ st.1 := hperm.symm.subset List.mem_cons_self
    refine ⟨?_, dictSet_keys_nodup h.keys, ?_, ?_⟩
    · intro dt hdt
      rcases mem_dictSet hdt with rfl | hdt
      · exact ⟨List.mem_append_right _ (by simp), h.pool t ht, hc⟩
      · exact ⟨List.mem_append_left _ (h.sound dt hdt).1, (h.sound dt hdt).2⟩
    · intro t' ht'
      exact h.pool t' (hperm.symm.subset (List.mem_cons_of_mem _ ht'))
    · intro x
      have h1 := dictSet_vals_count (k := d) (v := t) (l := st.2) x
      have h2 := hperm.count_eq x
      have h3 := h.count x
      simp only [List.count_cons] at h1 h2
      dsimp only
      omega

theorem foldl_matchStep_inv {shuffled : List Str} (ds : List Str) :
    ∀ (seen : List Str) (st : List Str × List (Str × Str)), MatchInv shuffled seen st →
      MatchInv shuffled (seen ++ ds) (ds.foldl matchStep st) := by
  induction ds with
  | nil => intro seen st h; simpa using h
  | cons d ds ih =>
    intro seen st h
    have := ih (seen ++ [d]) (matchStep st d) (matchStep_inv d h)
    simpa [List.append_assoc] using this

theorem matchInv_init (shuffled : List Str) : MatchInv shuffled [] (shuffled.reverse, []) :=
  ⟨by simp, by simp, fun t ht => List.mem_reverse.mp ht, fun x => by simp⟩

theorem matchDecoy_inv (shuffled decoys : List Str) :
    MatchInv shuffled decoys (decoys.foldl matchStep (shuffled.reverse, [])) := by
  simpa using foldl_matchStep_inv decoys [] _ (matchInv_init shuffled)

theorem matchDecoy_vals_nodup (shuffled decoys : List Str) (hnd : shuffled.Nodup) :
    ((matchDecoy shuffled decoys).map Prod.snd).Nodup := by
  rw [List.nodup_iff_count]
  intro a
  have h1 := (matchDecoy_inv shuffled decoys).count a
  have h2 := List.nodup_iff_count.mp hnd a
  unfold matchDecoy
  omega

/-! ## completeness when the decoys are distinct (as `.unique()` makes them) -/

structure MatchInvC (shuffled seen : List Str) (st : List Str × List (Str × Str)) : Prop where
  keysSeen : ∀ k ∈ st.2.map Prod.fst, k ∈ seen
  cover : ∀ t ∈ shuffled, t ∈ st.2.map Prod.snd ∨ t ∈ st.1
  exhausted : ∀ d ∈ seen, d ∉ st.2.map Prod.fst → ∀ t ∈ st.1, targetComp t ≠ decoyComp d

theorem matchStep_invC {shuffled seen : List Str} {st : List Str × List (Str × Str)} (d : Str)
    (hd : d ∉ seen) (h : MatchInvC shuffled seen st) : MatchInvC shuffled (seen ++ [d]) (matchStep st d) := by
  unfold matchStep
  cases hp : popFirst (decoyComp d) st.1 with
  | none =>
    simp only [Option.map_none, Option.getD_none]
    refine ⟨fun k hk => List.mem_append_left _ (h.keysSeen k hk), h.cover, ?_⟩
    intro d' hd' hnk
    rcases List.mem_append.mp hd' with hd' | hd'
    · exact h.exhausted d' hd' hnk
    · simp only [List.mem_singleton] at hd'
      rw [hd']
      exact popFirst_none hp
  | some x =>
    obtain ⟨t, pool'⟩ := x
    simp only [Option.map_some, Option.getD_some]
    obtain ⟨hc, hperm⟩ := popFirst_some hp
    have hdk : d ∉ st.2.map Prod.fst := fun hk => hd (h.keysSeen d hk)
    rw [dictSet_of_not_mem hdk]
    refine ⟨?_, ?_, ?_⟩
    · intro k hk
      simp only [List.map_append, List.map_cons, List.map_nil, List.mem_append, List.mem_singleton] at hk
      rcases hk with hk | hk
      · exact List.mem_append_left _ (h.keysSeen k hk)
      · rw [hk]; exact List.mem_append_right _ (by simp)
    · intro t' ht'
      simp only [List.map_append, List.map_cons, List.map_nil, List.mem_append, List.mem_singleton]
      rcases h.cover t' ht' with hv | hpool
      · left; left; exact hv
      · rcases List.mem_cons.mp (hperm.subset hpool) with rfl | hpool'
        · left; right; rfl
        · right; exact hpool'
    · intro d' hd' hnk t' ht'
      simp only [List.map_append, List.map_cons, List.map_nil, List.mem_append, List.mem_singleton, not_or] at hnk
      rcases List.mem_append.mp hd' with hd' | hd'
      · exact h.exhausted d' hd' hnk.1 t' (hperm.symm.subset (List.mem_cons_of_mem _ ht'))
      · simp only [List.mem_singleton] at hd'
        exact absurd hd' hnk.2

theorem foldl_matchStep_invC {shuffled : List Str} (ds : List Str) :
    ∀ (seen : List Str) (st : List Str × List (Str × Str)), (seen ++ ds).Nodup → MatchInvC shuffled seen st →
      MatchInvC shuffled (seen ++ ds) (ds.foldl matchStep st) := by
  induction ds with
  | nil => intro seen st _ h; simpa using h
  | cons d ds ih =>
    intro seen st hnd h
    have hd : d ∉ seen := by
      intro hmem
      have := (List.nodup_append.mp hnd).2.2 d hmem d List.mem_cons_self
      exact this rfl
    have hnd' : (seen ++ [d] ++ ds).Nodup := by simpa [List.append_assoc] using hnd
    have := ih (seen ++ [d]) (matchStep st d) hnd' (matchStep_invC d hd h)
    simpa [List.append_assoc] using this

theorem matchDecoy_invC (shuffled decoys : List Str) (hnd : decoys.Nodup) :
    MatchInvC shuffled decoys (decoys.foldl matchStep (shuffled.reverse, [])) := by
  have h0 : MatchInvC shuffled [] (shuffled.reverse, []) :=
    ⟨by simp, fun t ht => Or.inr (List.mem_reverse.mpr ht), by simp⟩
  simpa using foldl_matchStep_invC decoys [] _ (by simpa using hnd) h0

/-! ## `uniqueFirst` -/

theorem mem_uniqueFirst (l : List Str) (x : Str) : x ∈ uniqueFirst l ↔ x ∈ l := by
  induction l with
  | nil => simp [uniqueFirst]
  | cons a as ih =>
    simp only [uniqueFirst, List.mem_cons, List.mem_filter, ih, bne_iff_ne, ne_eq]
    constructor
    · rintro (h | ⟨h, _⟩)
      · exact Or.inl h
      · exact Or.inr h
    · rintro (h | h)
      · exact Or.inl h
      · by_cases hx : x = a
        · exact Or.inl hx
        · exact Or.inr ⟨h, hx⟩

theorem uniqueFirst_nodup (l : List Str) : (uniqueFirst l).Nodup := by
  induction l with
  | nil => simp [uniqueFirst]
  | cons a as ih =>
    simp only [uniqueFirst, List.nodup_cons, List.mem_filter, bne_iff_ne, ne_eq, not_and, not_not]
    exact ⟨fun _ => trivial, ih.sublist List.filter_sublist⟩

/-! ## composition keys of upper-case sequences -/

theorem insertBy_perm {β : Type} (le : β → β → Bool) (x : β) (l : List β) : (insertBy le x l).Perm (x :: l) := by
  induction l with
  | nil => exact List.Perm.refl _
  | cons y ys ih =>
    unfold insertBy
    split
    · exact List.Perm.refl _
    · exact (ih.cons y).trans (List.Perm.swap _ _ _)

theorem sortBy_perm {β : Type} (le : β → β → Bool) (l : List β) : (sortBy le l).Perm l := by
  induction l with
  | nil => exact List.Perm.refl _
  | cons x xs ih =>
    unfold sortBy
    exact (insertBy_perm le x _).trans (ih.cons x)

theorem insertBy_pairwise {β : Type} (le : β → β → Bool) (htot : ∀ a b, le a b = true ∨ le b a = true)
    (htr : ∀ a b c, le a b = true → le b c = true → le a c = true) (x : β) (l : List β)
    (h : l.Pairwise (fun a b => le a b = true)) : (insertBy le x l).Pairwise (fun a b => le a b = true) := by
  induction l with
  | nil => simp [insertBy]
  | cons y ys ih =>
    unfold insertBy
    have hy := List.pairwise_cons.mp h
    by_cases hxy : le x y = true
    · rw [if_pos hxy]
      refine List.pairwise_cons.mpr ⟨?_, h⟩
      intro b hb
      rcases List.mem_cons.mp hb with rfl | hb
      · exact hxy
      · exact htr _ _ _ hxy (hy.1 b hb)
    · rw [if_neg hxy]
      have hyx : le y x = true := (htot x y).resolve_left hxy
      refine List.pairwise_cons.mpr ⟨?_, ih hy.2⟩
      intro b hb
      rcases List.mem_cons.mp ((insertBy_perm le x ys).subset hb) with rfl | hb
      · exact hyx
      · exact hy.1 b hb

theorem sortBy_pairwise {β : Type} (le : β → β → Bool) (htot : ∀ a b, le a b = true ∨ le b a = true)
    (htr : ∀ a b c, le a b = true → le b c = true → le a c = true) (l : List β) :
    (sortBy le l).Pairwise (fun a b => le a b = true) := by
  induction l with
  | nil => simp [sortBy]
  | cons x xs ih => unfold sortBy; exact insertBy_pairwise le htot htr x _ ih

theorem charLe_total (a b : Char) : charLe a b = true ∨ charLe b a = true := by
  simp only [charLe, decide_eq_true_eq]; exact Char.le_total a b

theorem charLe_trans (a b c : Char) : charLe a b = true → charLe b c = true → charLe a c = true := by
  simp only [charLe, decide_eq_true_eq]; exact Char.le_trans

/-- the key of a target peptide identifies its residue multiset -/
theorem targetComp_eq_iff_perm (s t : Str) : targetComp s = targetComp t ↔ s.Perm t := by
  unfold targetComp
  constructor
  · intro h
    exact ((sortBy_perm charLe s).symm.trans (h ▸ List.Perm.refl _)).trans (sortBy_perm charLe t)
  · intro h
    apply List.Perm.eq_of_pairwise (le := fun a b => charLe a b = true)
    · intro a b _ _ h1 h2
      simp only [charLe, decide_eq_true_eq] at h1 h2
      exact Char.le_antisymm h1 h2
    · exact sortBy_pairwise charLe charLe_total charLe_trans s
    · exact sortBy_pairwise charLe charLe_total charLe_trans t
    · exact ((sortBy_perm charLe s).trans h).trans (sortBy_perm charLe t).symm

theorem startsUpper_of_all {s : Str} (h : ∀ c ∈ s, c.isUpper = true) : startsUpper s = true := by
  cases s with
  | nil => rfl
  | cons c cs => exact h c List.mem_cons_self

theorem splitUpper_upper (s : Str) (h : ∀ c ∈ s, c.isUpper = true) : splitUpper s = s.map (fun c => [c]) := by
  induction s with
  | nil => rfl
  | cons c cs ih =>
    have hcs : ∀ c ∈ cs, c.isUpper = true := fun x hx => h x (List.mem_cons_of_mem _ hx)
    unfold splitUpper
    rw [if_pos (startsUpper_of_all hcs), ih hcs]
    rfl

theorem insertBy_singletons (x : Char) (l : List Char) :
    insertBy strLe [x] (l.map (fun c => [c])) = (insertBy charLe x l).map (fun c => [c]) := by
  induction l with
  | nil => rfl
  | cons y ys ih =>
    simp only [List.map_cons, insertBy]
    have : strLe [x] [y] = charLe x y := by
      simp only [strLe, charLe]
      by_cases hxy : x = y
      · subst hxy; simp
      · simp [hxy]
    rw [this]
    split
    · rfl
    · rw [ih]; rfl

theorem sortBy_singletons (l : List Char) :
    sortBy strLe (l.map (fun c => [c])) = (sortBy charLe l).map (fun c => [c]) := by
  induction l with
  | nil => rfl
  | cons x xs ih =>
    simp only [List.map_cons, sortBy]
    rw [ih, insertBy_singletons]

theorem flatten_singletons (l : List Char) : (l.map (fun c => [c])).flatten = l := by
  induction l with
  | nil => rfl
  | cons x xs ih => simp [ih]

/-- on an upper-case sequence the decoy key is the target key: sorted residues -/
theorem decoyComp_upper (s : Str) (h : ∀ c ∈ s, c.isUpper = true) : decoyComp s = targetComp s := by
  unfold decoyComp targetComp
  rw [splitUpper_upper s h, sortBy_singletons, flatten_singletons]

/-! ## lookups -/

theorem lookup_isSome_of_mem_keys (l : List (Str × Str)) (k : Str) (h : k ∈ l.map Prod.fst) :
    (l.lookup k).isNone = false := by
  induction l with
  | nil => simp at h
  | cons x xs ih =>
    obtain ⟨a, b⟩ := x
    rw [List.lookup_cons]
    by_cases hk : (k == a) = true
    · rw [hk]; rfl
    · have hk' : (k == a) = false := by simpa using hk
      rw [hk']
      simp only [List.map_cons, List.mem_cons] at h
      rcases h with h | h
      · exact absurd (by simpa using h) hk
      · exact ih h

theorem pair_fst_eq_of_snd_nodup {l : List (Str × Str)} (h : (l.map Prod.snd).Nodup) {a b t : Str}
    (ha : (a, t) ∈ l) (hb : (b, t) ∈ l) : a = b := by
  induction l with
  | nil => simp at ha
  | cons x xs ih =>
    simp only [List.map_cons, List.nodup_cons] at h
    rcases List.mem_cons.mp ha with ha | ha <;> rcases List.mem_cons.mp hb with hb | hb
    · rw [← hb] at ha; exact congrArg Prod.fst ha
    · exact absurd (List.mem_map.mpr ⟨(b, t), hb, by rw [← ha]⟩) h.1
    · exact absurd (List.mem_map.mpr ⟨(a, t), ha, by rw [← hb]⟩) h.1
    · exact ih h.2 ha hb

end Mk.Picked
