import MokapotVerif.Lemmas.TdcExt
import MokapotVerif.Props.C04Fdr
/-!
# From the fixed-ranking bound to the level files of the pipeline model

`level_fdr_sum`: for a level `S` (rows in strictly decreasing score order) whose survivors do not
depend on the labels, and labels of the incorrect survivors given by fair coins, the false
discovery proportions of the sets accepted through the *q-value column* (`acceptedRows`, i.e.
`levelQvalues` = the model of `tdc`) sum to at most `a · 2^m` over the `2^m` outcomes.
-/
namespace Mk.TdcX
open Mk Mk.Tdc

/-- ground truth of a PSM as a `Kind`: incorrect = null, correct = true target -/
def kindOf (incorrect : Bool) : Kind := if incorrect then Kind.null else Kind.trueTarget

/-- the ranking of a level as a list of kinds, best first -/
def levelKinds (incorrect : Nat → Bool) (S : List Row) : List Kind :=
  S.map (fun r => kindOf (incorrect r.id))

/-- the pairs the q-value formula looks at -/
def scoreLabels (S : List Row) : List (Int × Bool) := S.map (fun r => (r.score, r.target))

theorem zip_filter_map_fst (a : Rat) (g : Row → Rat) : ∀ (S : List Row),
    ((S.zip (S.map g)).filter (fun p => decide (p.2 ≤ a))).map (·.1)
      = S.filter (fun r => decide (g r ≤ a)) := by
  intro S
  induction S with
  | nil => rfl
  | cons r rest ih =>
    simp only [List.map_cons, List.zip_cons_cons, List.filter_cons]
    split
    · simp only [List.map_cons]; rw [ih]
    · exact ih

theorem acceptedRows_eq_filter (a : Rat) (S : List Row) :
    acceptedRows a S = S.filter (fun r => decide (qSpec (leInt true) (scoreLabels S) r.score ≤ a)) := by
  unfold acceptedRows
  rw [C03_qvalues_are_C01]
  exact zip_filter_map_fst a _ S

theorem strictBestFirst_of_strict (S : List Row) (h : S.Pairwise (fun a b => b.score < a.score)) :
    StrictBestFirst (leInt true) (scoreLabels S) := by
  unfold StrictBestFirst scoreLabels
  rw [List.pairwise_map]
  refine List.Pairwise.imp ?_ h
  intro x y hxy
  simp only [leInt, if_true, decide_eq_false_iff_not, not_le]
  exact hxy

theorem acceptedRows_eq_take (a : Rat) (ha : a < 1) (S : List Row)
    (h : S.Pairwise (fun a b => b.score < a.score)) :
    acceptedRows a S = S.take (Pstop a (scoreLabels S)) := by
  rw [acceptedRows_eq_filter]
  apply filter_eq_take
  intro j hj
  rw [decide_eq_true_iff]
  have hj' : j < (scoreLabels S).length := by simpa [scoreLabels] using hj
  have := qSpec_le_iff_lt_Pstop (leInt true) (leInt_totalPre true) (scoreLabels S)
    (strictBestFirst_of_strict S h) a ha j hj'
  have e : (scoreLabels S)[j].1 = S[j].score := by simp [scoreLabels]
  rw [e] at this
  exact this

/-- the accepted prefix depends on the labels only -/
theorem Pstop_congr {κ κ' : Type} (a : Rat) (L : List (κ × Bool)) (L' : List (κ' × Bool))
    (h : L.map (·.2) = L'.map (·.2)) : Pstop a L = Pstop a L' := by
  have hlen : L.length = L'.length := by simpa using congrArg List.length h
  have hT : ∀ p, Tc L p = Tc L' p := by
    intro p
    unfold Tc
    have : (L.take p).map (·.2) = (L'.take p).map (·.2) := by rw [List.map_take, List.map_take, h]
    have e1 : (L.take p).countP isT = ((L.take p).map (·.2)).countP id := by
      rw [List.countP_map]; rfl
    have e2 : (L'.take p).countP isT = ((L'.take p).map (·.2)).countP id := by
      rw [List.countP_map]; rfl
    rw [e1, e2, this]
  have hD : ∀ p, Dc L p = Dc L' p := by
    intro p
    unfold Dc
    have : (L.take p).map (·.2) = (L'.take p).map (·.2) := by rw [List.map_take, List.map_take, h]
    have e1 : (L.take p).countP isD = ((L.take p).map (·.2)).countP (fun b => !b) := by
      rw [List.countP_map]; rfl
    have e2 : (L'.take p).countP isD = ((L'.take p).map (·.2)).countP (fun b => !b) := by
      rw [List.countP_map]; rfl
    rw [e1, e2, this]
  unfold Pstop
  rw [hlen]
  apply findGreatest_congr
  intro p _
  unfold okAt
  rw [hT, hD]

/-- FDP of the level file read through its q-value column = FDP of the abstract labelled ranking -/
theorem levelFDP_eq_FDP (incorrect : Nat → Bool) (a : Rat) (ha : a < 1) (S : List Row)
    (h : S.Pairwise (fun a b => b.score < a.score)) :
    levelFDP incorrect a S = FDP a (S.map (fun r => (kindOf (incorrect r.id), r.target))) := by
  set L := S.map (fun r => (kindOf (incorrect r.id), r.target)) with hL
  have hP : Pstop a (scoreLabels S) = Pstop a L := by
    apply Pstop_congr
    simp [scoreLabels, hL]
  unfold levelFDP
  rw [acceptedRows_eq_take a ha S h, hP]
  have hV : (S.take (Pstop a L)).countP (fun r => r.target && incorrect r.id) = Vc L (Pstop a L) := by
    unfold Vc
    rw [hL, ← List.map_take, List.countP_map]
    apply List.countP_congr
    intro r _
    cases hi : incorrect r.id <;> cases ht : r.target <;> simp [isV, kindOf, hi, ht]
  have hT : (S.take (Pstop a L)).countP (fun r => r.target) = Tc L (Pstop a L) := by
    unfold Tc
    rw [hL, ← List.map_take, List.countP_map]
    rfl
  rw [hV, hT]
  unfold FDP
  split
  · rename_i h0
    rw [h0]
    simp [Vc]
  · rfl

/-- **the bound on a level file**: survivors `S` (label-independent, strictly ranked), labels of
the survivors produced by `F ω` from `m` fair coins as in `lab`, threshold `0 < a < 1`. -/
theorem level_fdr_sum (S : List Row) (h : S.Pairwise (fun a b => b.score < a.score))
    (incorrect : Nat → Bool) (a : Rat) (ha0 : 0 < a) (ha1 : a < 1)
    (F : (Fin (nulls (levelKinds incorrect S)) → Bool) → Nat → Bool)
    (hF : ∀ ω, S.map (fun r => (kindOf (incorrect r.id), F ω r.id))
      = lab (levelKinds incorrect S) (List.ofFn ω)) :
    (∑ ω : Fin (nulls (levelKinds incorrect S)) → Bool,
        levelFDP incorrect a (S.map (Row.relabel (F ω))))
      ≤ a * 2 ^ nulls (levelKinds incorrect S) := by
  have key : ∀ ω : Fin (nulls (levelKinds incorrect S)) → Bool,
      levelFDP incorrect a (S.map (Row.relabel (F ω)))
        = FDP a (lab (levelKinds incorrect S) (List.ofFn ω)) := by
    intro ω
    have hs : (S.map (Row.relabel (F ω))).Pairwise (fun a b => b.score < a.score) := by
      rw [List.pairwise_map]
      exact h
    rw [levelFDP_eq_FDP incorrect a ha1 _ hs, ← hF ω, List.map_map]
    rfl
  simp only [key]
  exact C04_tdc_fdr_fixed_ranking (levelKinds incorrect S) a ha0

/-! ## the canonical coin labelling (discharges `hF` when the survivors' ids are distinct) -/

/-- `(id, label)` for every row of the ranking: correct PSMs are targets, the `j`-th incorrect one
(best first) is a target iff the `j`-th coin is `true` -/
def coinTable (incorrect : Nat → Bool) : List Row → List Bool → List (Nat × Bool)
  | [], _ => []
  | r :: rs, ω =>
    if incorrect r.id then (r.id, ω.headD false) :: coinTable incorrect rs ω.tail
    else (r.id, true) :: coinTable incorrect rs ω

/-- the labelling of *all* PSM ids induced by the coins (ids outside the ranking: target) -/
def coinLabels (incorrect : Nat → Bool) (S : List Row) (ω : List Bool) (i : Nat) : Bool :=
  ((coinTable incorrect S ω).lookup i).getD true

theorem coinTable_keys (incorrect : Nat → Bool) : ∀ (S : List Row) (ω : List Bool),
    (coinTable incorrect S ω).map (·.1) = S.map Row.id := by
  intro S
  induction S with
  | nil => intro ω; rfl
  | cons r rs ih =>
    intro ω
    unfold coinTable
    split <;> simp [ih]

theorem lookup_cons_ne {β : Type} (k k' : Nat) (v : β) (l : List (Nat × β)) (h : k ≠ k') :
    ((k', v) :: l).lookup k = l.lookup k := by
  have hb : (k == k') = false := by simpa using h
  simp [List.lookup, hb]

theorem lookup_cons_self {β : Type} (k : Nat) (v : β) (l : List (Nat × β)) :
    ((k, v) :: l).lookup k = some v := by
  simp [List.lookup]

theorem coinLabels_spec (incorrect : Nat → Bool) : ∀ (S : List Row) (ω : List Bool),
    (S.map Row.id).Nodup →
    S.map (fun r => (kindOf (incorrect r.id), coinLabels incorrect S ω r.id))
      = lab (levelKinds incorrect S) ω := by
  intro S
  induction S with
  | nil => intro ω _; rfl
  | cons r rs ih =>
    intro ω hnd
    rw [List.map_cons, List.nodup_cons] at hnd
    obtain ⟨hnot, hnd'⟩ := hnd
    have htail : ∀ (tbl : List (Nat × Bool)) (v : Bool) (ω' : List Bool),
        tbl = coinTable incorrect rs ω' →
        rs.map (fun x => (kindOf (incorrect x.id), (((r.id, v) :: tbl).lookup x.id).getD true))
          = rs.map (fun x => (kindOf (incorrect x.id), coinLabels incorrect rs ω' x.id)) := by
      intro tbl v ω' htbl
      apply List.map_congr_left
      intro x hx
      have hne : x.id ≠ r.id := by
        intro e; exact hnot (e ▸ List.mem_map.mpr ⟨x, hx, rfl⟩)
      rw [lookup_cons_ne _ _ _ _ hne, htbl]
      rfl
    by_cases hi : incorrect r.id
    · have hk : levelKinds incorrect (r :: rs) = Kind.null :: levelKinds incorrect rs := by
        simp [levelKinds, kindOf, hi]
      rw [hk]
      show _ = (Kind.null, ω.headD false) :: lab (levelKinds incorrect rs) ω.tail
      rw [← ih ω.tail hnd', List.map_cons]
      have hct : coinTable incorrect (r :: rs) ω = (r.id, ω.headD false) :: coinTable incorrect rs ω.tail := by
        rw [coinTable]; simp [hi]
      congr 1
      · simp [coinLabels, hct, lookup_cons_self, kindOf, hi]
      · unfold coinLabels
        rw [hct]
        exact htail _ _ ω.tail rfl
    · have hk : levelKinds incorrect (r :: rs) = Kind.trueTarget :: levelKinds incorrect rs := by
        simp [levelKinds, kindOf, hi]
      rw [hk]
      show _ = (Kind.trueTarget, true) :: lab (levelKinds incorrect rs) ω
      rw [← ih ω hnd', List.map_cons]
      have hct : coinTable incorrect (r :: rs) ω = (r.id, true) :: coinTable incorrect rs ω := by
        rw [coinTable]; simp [hi]
      congr 1
      · simp [coinLabels, hct, lookup_cons_self, kindOf, hi]
      · unfold coinLabels
        rw [hct]
        exact htail _ _ ω rfl

/-! ## generic form used by the property theorems -/

open Finset in
theorem strict_sublist {l l' : List Row} (h : l'.Sublist l)
    (hs : l.Pairwise (fun a b => b.score < a.score)) : l'.Pairwise (fun a b => b.score < a.score) :=
  hs.sublist h

/-- generic form: any competition `comp` that commutes with relabelling and returns a sublist -/
theorem level_bound_of_blind (comp : List Row → List Row)
    (hblind : ∀ (f : Nat → Bool) rows, comp (rows.map (Row.relabel f)) = (comp rows).map (Row.relabel f))
    (hsub : ∀ rows, (comp rows).Sublist rows)
    (merged : List Row) (hs : merged.Pairwise (fun a b => b.score < a.score))
    (hid : (merged.map Row.id).Nodup) (incorrect : Nat → Bool) (a : Rat) (ha0 : 0 < a) (ha1 : a < 1) :
    (∑ ω : Fin (nulls (levelKinds incorrect (comp merged))) → Bool,
        levelFDP incorrect a
          (comp (merged.map (Row.relabel (coinLabels incorrect (comp merged) (List.ofFn ω))))))
      ≤ a * 2 ^ nulls (levelKinds incorrect (comp merged)) := by
  simp only [hblind]
  have hnd : ((comp merged).map Row.id).Nodup := ((hsub merged).map Row.id).nodup hid
  exact level_fdr_sum (comp merged) (strict_sublist (hsub merged) hs) incorrect a ha0 ha1
    (fun ω => coinLabels incorrect (comp merged) (List.ofFn ω))
    (fun ω => coinLabels_spec incorrect (comp merged) (List.ofFn ω) hnd)


end Mk.TdcX
