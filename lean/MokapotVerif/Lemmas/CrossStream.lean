import MokapotVerif.Lemmas.Cross
import MokapotVerif.Lemmas.Tabular
import MokapotVerif.Lemmas.ConfidenceBatch
/-! Helper lemmas for the second pass of the C05 extension (`Model/Cross.lean` §4–§5): the three
chunking functions of the models coincide, the labelled stream of the reader model of C13 is the
chunk list the `_predict` / `parse_in_chunks` models start from, the profile (first label, size) of
the chunks, per-chunk dtype inference on a uniformly spelled column. -/
namespace Mk.Cross
open Mk Mk.Brew

/-! ## the chunking functions of `Model/Brew`, `Model/Confidence` and `Model/Tabular` coincide -/

theorem brewFuel_eq {β : Type} (c : Nat) : ∀ (fuel : Nat) (xs : List β),
    Brew.chunksFuel c fuel xs = Mk.chunksFuel c fuel xs := by
  intro fuel
  induction fuel with
  | zero => intro xs; simp [Brew.chunksFuel, Mk.chunksFuel]
  | succ f ih =>
    intro xs
    cases xs with
    | nil => simp [Brew.chunksFuel, Mk.chunksFuel]
    | cons x xs => simp only [Brew.chunksFuel, Mk.chunksFuel, ih]

theorem brewChunks_eq {β : Type} (c : Nat) (xs : List β) : Brew.chunks c xs = chunksOf c xs :=
  brewFuel_eq c xs.length xs

theorem fuel_eq_tabular {β : Type} (c : Nat) : ∀ (fuel : Nat) (xs : List β),
    Mk.chunksFuel c fuel xs = Tabular.chunksFuel c fuel xs := by
  intro fuel
  induction fuel with
  | zero => intro xs; simp [Mk.chunksFuel, Tabular.chunksFuel]
  | succ f ih =>
    intro xs
    cases xs with
    | nil => simp [Mk.chunksFuel, Tabular.chunksFuel]
    | cons x xs => simp [Mk.chunksFuel, Tabular.chunksFuel, ih]

theorem chunksOf_eq_tabular {β : Type} (c : Nat) (xs : List β) : chunksOf c xs = Tabular.chunks c xs :=
  fuel_eq_tabular c xs.length xs

/-! ## index labels -/

theorem indexFrom_eq_zipIdx {β : Type} : ∀ (xs : List β) (s : Nat),
    Tabular.indexFrom s xs = (xs.zipIdx s).map (fun x => (x.2, x.1)) := by
  intro xs
  induction xs with
  | nil => intro s; rfl
  | cons x xs ih => intro s; simp [Tabular.indexFrom, List.zipIdx_cons, ih]

/-- the reader's chunks (local labels plus running offset) are the chunks of the rows labelled
with their global row numbers -/
theorem pqLabel_chunksOf {β : Type} (c : Nat) (xs : List β) :
    Tabular.pqLabel 0 (chunksOf c xs) = chunksOf c (xs.zipIdx.map (fun x => (x.2, x.1))) := by
  rw [chunksOf_eq_tabular, Tabular.pqLabel_chunks, ← chunksOf_eq_tabular, indexFrom_eq_zipIdx]

theorem pqLabel_lengths {β : Type} : ∀ (bs : List (List β)) (off : Nat),
    (Tabular.pqLabel off bs).map List.length = bs.map List.length := by
  intro bs
  induction bs with
  | nil => intro off; rfl
  | cons b bs ih => intro off; simp [Tabular.pqLabel, Tabular.indexFrom_length, ih]

/-! ## the profile of a chunk stream -/

theorem chunksOf_lengths {β : Type} (c : Nat) (xs : List β) :
    (chunksOf c xs).map List.length = (chunksOf c (List.replicate xs.length ())).map List.length := by
  have h := chunksOf_map c (fun _ : β => ()) xs
  have e : xs.map (fun _ : β => ()) = List.replicate xs.length () := by
    simp
  rw [e] at h
  rw [h, List.map_map]
  apply List.map_congr_left
  intro ch _
  simp

theorem chunkSpans_sizes (c n : Nat) :
    (chunkSpans c n).map (fun s => s.2) = (chunksOf c (List.replicate n ())).map List.length := by
  unfold chunkSpans
  rw [List.map_map]
  have := pqLabel_lengths (chunksOf c (List.replicate n ())) 0
  rw [← this]
  apply List.map_congr_left
  intro b _
  rfl

/-- two lists of lists with the same concatenation and the same sizes are equal -/
theorem eq_of_flatten_eq_of_lengths {β : Type} : ∀ (as bs : List (List β)),
    as.flatten = bs.flatten → as.map List.length = bs.map List.length → as = bs := by
  intro as
  induction as with
  | nil =>
    intro bs _ hl
    cases bs with
    | nil => rfl
    | cons b bs => simp at hl
  | cons a as ih =>
    intro bs hf hl
    cases bs with
    | nil => simp at hl
    | cons b bs =>
      simp only [List.map_cons, List.cons.injEq] at hl
      simp only [List.flatten_cons] at hf
      obtain ⟨h1, h2⟩ := List.append_inj hf hl.1
      rw [h1, ih bs h2 hl.2]

theorem lt_of_lt_ceil (c n k : Nat) (hc : 0 < c) (hk : k < (n + c - 1) / c) : k * c < n := by
  by_contra hn
  have hle : n ≤ k * c := by omega
  have h2 : n + c - 1 < c * (k + 1) := by
    rw [Nat.mul_succ, Nat.mul_comm c k]; omega
  have := Nat.div_lt_of_lt_mul h2
  omega

theorem chunkSpans_eq (c : Nat) (hc : 0 < c) (n : Nat) : chunkSpans c n = chunkSpansSpec c n := by
  unfold chunkSpans chunkSpansSpec
  rw [chunksOf_eq_tabular, Tabular.pqLabel_chunks, Tabular.chunks_eq_slices c hc, List.map_map,
    Tabular.indexFrom_length, List.length_replicate]
  apply List.map_congr_left
  intro k hk
  have hk' : k < (n + c - 1) / c := by simpa using hk
  have hlt : k * c < n := lt_of_lt_ceil c n k hc hk'
  simp only [Function.comp, Tabular.indexFrom_drop, Tabular.indexFrom_take, Tabular.indexFrom_map_fst,
    Tabular.indexFrom_length, List.length_take, List.length_drop, List.length_replicate, Nat.zero_add]
  have h1 : min (k * c) n = k * c := by omega
  rw [h1]
  have hpos : 0 < min c (n - k * c) := by omega
  obtain ⟨m, hm⟩ : ∃ m, min c (n - k * c) = m + 1 := ⟨min c (n - k * c) - 1, by omega⟩
  rw [hm]
  simp [List.range'_succ]

/-! ## `_predict` and `parse_in_chunks` fed by the reader's stream -/

theorem stream_tagged {ρ : Type} (c : Nat) (rows : List ρ) (routing : List Nat)
    (hlen : routing.length = rows.length) :
    List.zipWith List.zip (Tabular.pqLabel 0 (chunks c rows)) (chunks c routing)
      = chunks c ((rows.zipIdx.map (fun x => (x.2, x.1))).zip routing) := by
  rw [brewChunks_eq, brewChunks_eq, brewChunks_eq, pqLabel_chunksOf, ← chunksOf_zip]
  simp [hlen]

theorem predictStream_eq {ρ σ : Type} [Inhabited σ] (c nfolds : Nat) (rows : List ρ) (routing : List Nat)
    (hlen : routing.length = rows.length)
    (score : Nat → ρ → σ) (target : ρ → Bool) (cal : List (σ × Bool) → σ → σ) :
    predictStream c nfolds rows routing score target cal = predict c nfolds rows routing score target cal := by
  unfold predictStream
  rw [stream_tagged c rows routing hlen]
  rfl

theorem streamPieces_eq {ρ : Type} (c : Nat) (rows : List ρ) (train : List Nat) :
    streamPieces c rows train
      = (chunks c (rows.zipIdx.map (fun x => (x.2, x.1)))).map (chunkPiece train) := by
  unfold streamPieces
  rw [brewChunks_eq, brewChunks_eq, pqLabel_chunksOf]

/-! ## per-chunk dtype inference -/

theorem chunkDtypes_length (c : Nat) (hc : 0 < c) (cls : List Nat) : (chunkDtypes c cls).length = cls.length := by
  unfold chunkDtypes
  have h : ((chunksOf c cls).flatMap (fun ch => List.replicate ch.length (ch.foldl max 0))).length
      = ((chunksOf c cls).flatMap id).length := by
    rw [List.length_flatMap, List.length_flatMap]
    congr 1
    apply List.map_congr_left
    intro ch _
    simp
  rw [h, List.flatMap_id, chunksOf_flatten c hc]

theorem foldl_max_uniform (k : Nat) : ∀ (ch : List Nat) (a : Nat), (∀ x ∈ ch, x = k) → ch ≠ [] →
    ch.foldl max a = max a k := by
  intro ch
  induction ch with
  | nil => intro a _ h; exact absurd rfl h
  | cons x xs ih =>
    intro a h _
    have hx : x = k := h x (by simp)
    subst hx
    by_cases hxs : xs = []
    · subst hxs; rfl
    · rw [List.foldl_cons, ih (max a x) (fun y hy => h y (List.mem_cons_of_mem _ hy)) hxs]
      omega

/-- a column whose cells all have one class travels under that dtype in every chunk, for every
chunk size: the reason why the dependence of the old keys on the chunk size needed a *mixed* column -/
theorem chunkDtypes_uniform (c : Nat) (hc : 0 < c) (cls : List Nat) (k : Nat) (h : ∀ x ∈ cls, x = k) :
    chunkDtypes c cls = cls := by
  unfold chunkDtypes
  have hmem : ∀ ch ∈ chunksOf c cls, ∀ x ∈ ch, x = k := by
    intro ch hch x hx
    apply h
    rw [← chunksOf_flatten c hc cls]
    exact List.mem_flatten.mpr ⟨ch, hch, hx⟩
  have e : (chunksOf c cls).flatMap (fun ch => List.replicate ch.length (ch.foldl max 0))
      = (chunksOf c cls).flatMap id := by
    apply List.flatMap_congr
    intro ch hch
    have hne : ch ≠ [] := chunksOf_ne_nil c hc cls ch hch
    rw [foldl_max_uniform k ch 0 (hmem ch hch) hne, Nat.zero_max]
    exact (List.eq_replicate_iff.mpr ⟨rfl, hmem ch hch⟩).symm
  rw [e, List.flatMap_id, chunksOf_flatten c hc]

theorem canonKey_cellClass (isText : Nat → Bool) (d : Nat) (f : Bool) (v : Nat) :
    canonKey d (cellClass isText f v) v = canonOf isText v := by
  unfold canonKey cellClass canonOf
  by_cases h : isText v = true
  · simp [h]
  · have hf : f.toNat ≠ 2 := by cases f <;> simp
    simp [h, hf]

/-- the canonical key does not look at the dtype: the re-keyed table is the table with every key
replaced by its canonical value -/
theorem rekeyAt_canon (w : KeyCol) (isText : Nat → Bool) (frac : List Bool) (md : List Row) (ds : List Nat)
    (hfl : frac.length = md.length) (hds : ds.length = md.length) :
    rekeyAt w canonKey ds (classesAt w isText frac md) md = md.map (mapKeyAt w (canonOf isText)) := by
  unfold rekeyAt classesAt
  apply List.ext_getElem
  · simp [hfl, hds]
  · intro i h1 h2
    simp only [List.getElem_zipWith, List.getElem_zip, List.getElem_map, canonKey_cellClass]
    rfl

theorem classesAt_length (w : KeyCol) (isText : Nat → Bool) (frac : List Bool) (md : List Row)
    (hfl : frac.length = md.length) : (classesAt w isText frac md).length = md.length := by
  simp [classesAt, hfl]

/-- on a column whose cells all have the class `k` every key function sees `d = k` everywhere -/
theorem rekeyAt_uniform (w : KeyCol) (key : Nat → Nat → Nat → Nat) (cls : List Nat) (md : List Row) (k : Nat)
    (h : ∀ x ∈ cls, x = k) (hl : cls.length = md.length) :
    rekeyAt w key cls cls md = md.map (mapKeyAt w (key k k)) := by
  unfold rekeyAt
  apply List.ext_getElem
  · simp [hl]
  · intro i h1 h2
    have hi : i < cls.length := by simp at h1; omega
    have hk : cls[i] = k := h _ (List.getElem_mem hi)
    simp only [List.getElem_zipWith, List.getElem_zip, List.getElem_map, hk]
    rfl

/-- pairwise distinct scores: the hypothesis of the tie-free theorems for any metadata -/
theorem hinj_of_nodup (md : List Row) (sc : List Int) (hnd : sc.Nodup) :
    ∀ a ∈ scoredRows md sc, ∀ b ∈ scoredRows md sc, a.score = b.score → a = b := by
  intro a ha b hb hab
  unfold scoredRows at ha hb
  obtain ⟨⟨ra, sa⟩, hma, rfl⟩ := List.mem_map.mp ha
  obtain ⟨⟨rb, sb⟩, hmb, rfl⟩ := List.mem_map.mp hb
  simp only [withScore] at hab
  subst hab
  obtain ⟨i, hi, hia⟩ := List.mem_iff_getElem.mp hma
  obtain ⟨j, hj, hjb⟩ := List.mem_iff_getElem.mp hmb
  simp only [List.getElem_zip, Prod.mk.injEq] at hia hjb
  simp only [List.length_zip] at hi hj
  have hij : i = j := by
    have h1 : sc[i]'(by omega) = sc[j]'(by omega) := by rw [hia.2, hjb.2]
    exact (List.Nodup.getElem_inj_iff hnd).mp h1
  subst hij
  rw [← hia.1, ← hjb.1]

end Mk.Cross
