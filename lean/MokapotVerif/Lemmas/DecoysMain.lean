import MokapotVerif.Lemmas.DecoysSites
import MokapotVerif.Lemmas.DecoysFasta
/-! Helper lemmas for C18: whole-file statements and the executable checker. -/
namespace Mk.Decoys
variable {α β : Type}

theorem shuffleProtein_closed {perms : Nat → List Nat} (hp : PermFamily perms) (pre : List Char)
    (cut block : Char → Bool) (t : List Char × List Char) :
    shuffleProtein perms pre cut block t = some (decoySpec perms pre cut block t) := by
  unfold shuffleProtein decoySpec
  have := shuffleLoop_sites hp (matchEnds cut block 0 t.2 ++ [t.2.length]) t.2 (cleavageSites_ok cut block t.2)
  unfold cleavageSites
  rw [this]; rfl

theorem shuffleProteins_closed {perms : Nat → List Nat} (hp : PermFamily perms) (pre : List Char)
    (cut block : Char → Bool) (ts : List (List Char × List Char)) :
    shuffleProteins perms pre cut block ts = some (ts.map (decoySpec perms pre cut block)) := by
  unfold shuffleProteins
  have : ts.map (shuffleProtein perms pre cut block)
      = ts.map (fun t => some (decoySpec perms pre cut block t)) := by
    apply List.map_congr_left
    intro t _
    exact shuffleProtein_closed hp pre cut block t
  rw [this, sequenceOpt_map_some]

theorem interior_slice (l : List α) (a b : Nat) (hb : b ≤ l.length) :
    interior (slice l a b) = slice l (a + 1) (b - 1) := by
  unfold interior slice
  rw [List.dropLast_eq_take, List.drop_take, List.drop_drop, List.take_take]
  congr 1
  simp only [List.length_take, List.length_drop]
  omega

theorem mem_pairs {l : List Nat} {p : Nat × Nat} (h : p ∈ pairs l) :
    ∃ i, ∃ hi : i + 1 < l.length, p = (l[i], l[i + 1]) := by
  induction l with
  | nil => simp [pairs] at h
  | cons s rest ih =>
    cases rest with
    | nil => simp [pairs] at h
    | cons e rest2 =>
      simp only [pairs, List.mem_cons] at h
      rcases h with rfl | h
      · exact ⟨0, by simp, rfl⟩
      · obtain ⟨i, hi, rfl⟩ := ih h
        exact ⟨i + 1, by simpa using hi, rfl⟩

/-- the peptide-wise statement for the sites of the sequence itself -/
theorem decoy_slice {perms : Nat → List Nat} (hp : PermFamily perms) (cut block : α → Bool) (seq : List α)
    (i : Nat) (hi : i + 1 < (cleavageSites cut block seq).length) :
    slice (specLoop perms (cleavageSites cut block seq) seq)
        (cleavageSites cut block seq)[i] (cleavageSites cut block seq)[i + 1]
      = shufflePeptide perms
          (slice seq (cleavageSites cut block seq)[i] (cleavageSites cut block seq)[i + 1]) := by
  have := specLoop_slice hp (matchEnds cut block 0 seq ++ [seq.length]) 0 [] seq
    (by simp only [List.length_nil, Nat.zero_add]; exact cleavageSites_ok cut block seq) rfl i hi
  simp only [List.nil_append] at this
  exact this

theorem decoy_sites_eq {perms : Nat → List Nat} (hp : PermFamily perms) (cut : α → Bool) (seq : List α) :
    cleavageSites cut noBlock (specLoop perms (cleavageSites cut noBlock seq) seq)
      = cleavageSites cut noBlock seq := by
  apply cleavageSites_congr
  have := specLoop_map_cut hp cut seq.length seq 0 (Nat.le_refl _)
  simpa [cleavageSites] using this

theorem pepOK_shuffle [BEq α] [LawfulBEq α] {drawn : Nat → List Nat} (hp : PermFamily drawn) (reverse : Bool)
    (pep : List α) : pepOK reverse pep (shufflePeptide (permsOf reverse drawn) pep) = true := by
  have hp' := permsOf_family reverse hp
  unfold pepOK
  simp only [Bool.and_eq_true, beq_iff_eq, Bool.or_eq_true, Bool.not_eq_true']
  refine ⟨⟨⟨⟨shufflePeptide_length hp' pep, shufflePeptide_head? pep⟩, shufflePeptide_getLast? pep⟩, ?_⟩, ?_⟩
  · exact List.isPerm_iff.mpr (shufflePeptide_perm hp' pep)
  · cases reverse with
    | false => left; rfl
    | true => right; exact shufflePeptide_interior_rev pep

/-- the executable checker accepts every decoy sequence the model can produce -/
theorem pepsOK_spec [BEq α] [LawfulBEq α] {drawn : Nat → List Nat} (hp : PermFamily drawn) (reverse : Bool)
    (cut block : α → Bool) (seq : List α) :
    pepsOK cut block reverse seq
      (specLoop (permsOf reverse drawn) (cleavageSites cut block seq) seq) = true := by
  have hp' := permsOf_family reverse hp
  unfold pepsOK
  simp only [Bool.and_eq_true, beq_iff_eq, List.all_eq_true]
  refine ⟨⟨specLoop_length hp' _ _, List.isPerm_iff.mpr (specLoop_perm hp' _ _)⟩, ?_⟩
  intro p hpair
  obtain ⟨i, hi, rfl⟩ := mem_pairs hpair
  simp only
  rw [decoy_slice hp' cut block seq i hi]
  exact pepOK_shuffle hp reverse _

theorem seqOK_spec [BEq α] [LawfulBEq α] {drawn : Nat → List Nat} (hp : PermFamily drawn) (reverse : Bool)
    (cut : α → Bool) (seq : List α) :
    seqOK cut reverse seq
      (specLoop (permsOf reverse drawn) (cleavageSites cut noBlock seq) seq) = true := by
  unfold seqOK
  simp only [Bool.and_eq_true, beq_iff_eq]
  exact ⟨pepsOK_spec hp reverse cut noBlock seq, decoy_sites_eq (permsOf_family reverse hp) cut seq⟩

end Mk.Decoys
