import MokapotVerif.Lemmas.DecoysFasta
/-! Lemmas for the reader on declaratively described FASTA inputs (C18, second pass):
several files, record layouts, newline conventions. -/
namespace Mk.Decoys

/-! ### `split("\n>")` distributes over a separator, unconditionally -/

theorem consHead_append (c : Char) (L M : List (List Char)) (hL : L ≠ []) :
    consHead c (L ++ M) = consHead c L ++ M := by
  cases L with
  | nil => exact absurd rfl hL
  | cons l ls => rfl

/-- the separator `\n>` cannot overlap itself, so an occurrence placed between two texts
splits exactly there whatever the texts contain -/
theorem splitRecords_append_sep (x y : List Char) :
    splitRecords (x ++ '\n' :: '>' :: y) = splitRecords x ++ splitRecords y := by
  induction x using splitRecords.induct with
  | case1 =>
    simp only [List.nil_append]
    rw [splitRecords_cons_cons, if_pos ⟨rfl, rfl⟩]
    rfl
  | case2 c =>
    simp only [List.cons_append, List.nil_append]
    rw [splitRecords_cons_cons, if_neg (by intro h; exact absurd h.2 (by decide))]
    rw [splitRecords_cons_cons, if_pos ⟨rfl, rfl⟩]
    rfl
  | case3 c d rest h ih =>
    simp only [List.cons_append]
    rw [splitRecords_cons_cons, if_pos h, ih, splitRecords_cons_cons, if_pos h]
    rfl
  | case4 c d rest h ih =>
    simp only [List.cons_append] at ih ⊢
    rw [splitRecords_cons_cons, if_neg h, ih, splitRecords_cons_cons c d rest, if_neg h]
    exact consHead_append c _ _ (splitRecords_ne_nil _)

theorem joinWith_cons_head (sep : List Char) (c : Char) (b : List Char) (rest : List (List Char)) :
    joinWith sep ((c :: b) :: rest) = c :: joinWith sep (b :: rest) := by
  cases rest with
  | nil => rfl
  | cons y ys => simp [joinWith]

/-- texts that all begin with `>`: the records of the joined text are the records of each -/
theorem splitRecords_joined (gs : List (List Char)) (hne : gs ≠ [])
    (h : ∀ g ∈ gs, g.head? = some '>') :
    splitRecords ((joinWith ['\n'] gs).drop 1) = (gs.map (fun g => splitRecords (g.drop 1))).flatten := by
  induction gs with
  | nil => exact absurd rfl hne
  | cons g rest ih =>
    cases rest with
    | nil => simp [joinWith]
    | cons g2 rest2 =>
      have ih' := ih (by simp) (fun x hx => h x (by simp [hx]))
      have hg := h g (by simp)
      have hg2 := h g2 (by simp)
      cases g with
      | nil => simp at hg
      | cons c b =>
        cases g2 with
        | nil => simp at hg2
        | cons c2 b2 =>
          simp only [List.head?_cons, Option.some.injEq] at hg hg2
          subst hg hg2
          have e1 : joinWith ['\n'] (('>' :: b) :: ('>' :: b2) :: rest2)
              = '>' :: (b ++ '\n' :: '>' :: joinWith ['\n'] (b2 :: rest2)) := by
            rw [joinWith, joinWith_cons_head]; simp
          have e2 : (joinWith ['\n'] (('>' :: b2) :: rest2)).drop 1 = joinWith ['\n'] (b2 :: rest2) := by
            rw [joinWith_cons_head]; rfl
          rw [e1]
          simp only [List.drop_succ_cons, List.drop_zero, List.map_cons, List.flatten_cons]
          rw [splitRecords_append_sep]
          rw [e2] at ih'
          rw [ih']
          simp

/-! ### `sequenceOpt` over concatenations -/

theorem sequenceOpt_append {β : Type} (a b : List (Option β)) :
    sequenceOpt (a ++ b)
      = (sequenceOpt a).bind (fun x => (sequenceOpt b).map (fun y => x ++ y)) := by
  induction a with
  | nil => cases h : sequenceOpt b <;> simp [sequenceOpt, h]
  | cons o rest ih =>
    simp only [List.cons_append, sequenceOpt, ih]
    cases o with
    | none => simp [optCons]
    | some v =>
      cases sequenceOpt rest with
      | none => simp [optCons]
      | some r =>
        cases sequenceOpt b with
        | none => simp [optCons]
        | some s => simp [optCons]

/-- per-file results that all exist concatenate -/
theorem sequenceOpt_flatten_some {β γ δ : Type} (f : γ → Option β) (src : δ → List γ) (res : δ → List β)
    (xs : List δ) (h : ∀ x ∈ xs, sequenceOpt ((src x).map f) = some (res x)) :
    sequenceOpt ((xs.map src).flatten.map f) = some (xs.map res).flatten := by
  induction xs with
  | nil => rfl
  | cons x rest ih =>
    simp only [List.map_cons, List.flatten_cons, List.map_append]
    rw [sequenceOpt_append, h x (by simp), ih (fun y hy => h y (by simp [hy]))]
    rfl

/-! ### newline conventions -/

theorem univNL_cons_ne (c : Char) (l : List Char) (hc : c ≠ '\r') : univNL (c :: l) = c :: univNL l := by
  cases l with
  | nil => simp [univNL, hc]
  | cons d rest => simp [univNL, hc]

theorem univNL_cr_cons (l : List Char) (h : l.head? ≠ some '\n') : univNL ('\r' :: l) = '\n' :: univNL l := by
  cases l with
  | nil => simp [univNL]
  | cons d rest =>
    have hd : d ≠ '\n' := fun h0 => h (by simp [h0])
    simp [univNL, hd]

theorem univNL_crlf (t : List Char) (h : '\r' ∉ t) : univNL (t.flatMap crlfChar) = t := by
  induction t with
  | nil => rfl
  | cons c rest ih =>
    have hc : c ≠ '\r' := fun h0 => h (by simp [h0])
    have hr : '\r' ∉ rest := fun h0 => h (by simp [h0])
    rw [List.flatMap_cons]
    by_cases hn : c = '\n'
    · subst hn
      simp only [crlfChar, if_true, List.cons_append, List.nil_append]
      rw [univNL]
      simp only [and_self, if_true]
      rw [ih hr]
    · simp only [crlfChar, if_neg hn, List.cons_append, List.nil_append]
      rw [univNL_cons_ne _ _ hc, ih hr]

theorem univNL_cr (t : List Char) (h : '\r' ∉ t) : univNL (t.map crChar) = t := by
  induction t with
  | nil => rfl
  | cons c rest ih =>
    have hc : c ≠ '\r' := fun h0 => h (by simp [h0])
    have hr : '\r' ∉ rest := fun h0 => h (by simp [h0])
    rw [List.map_cons]
    by_cases hn : c = '\n'
    · subst hn
      have hh : (rest.map crChar).head? ≠ some '\n' := by
        cases rest with
        | nil => simp
        | cons d u =>
          simp only [List.map_cons, List.head?_cons, ne_eq, Option.some.injEq]
          unfold crChar
          split
          · decide
          · assumption
      simp only [crChar, if_true]
      rw [univNL_cr_cons _ hh, ih hr]
    · have : crChar c = c := by simp [crChar, hn]
      rw [this, univNL_cons_ne _ _ hc, ih hr]

theorem univNL_encodeEol (e : Eol) (t : List Char) (h : '\r' ∉ t) : univNL (encodeEol e t) = t := by
  cases e with
  | lf => exact univNL_id t h
  | crlf => exact univNL_crlf t h
  | cr => exact univNL_cr t h

/-! ### one record -/

theorem parseEntry_cons (h : List Char) (L : List (List Char)) :
    parseEntry (h :: L) = some (firstToken h, L.flatten) := by
  cases L with
  | nil => rfl
  | cons x xs => rfl

/-- `splitlines` of a header line followed by sequence lines (empty lines allowed): the header,
then lines with the same concatenation (a final empty line is not reported by `splitlines`) -/
theorem splitLines_layout (lines : List (List Char)) (hl : ∀ l ∈ lines, BreakFree l) :
    ∀ hd : List Char, BreakFree hd →
      ∃ L, splitLines (hd ++ linesText lines) = (if hd = [] ∧ lines = [] then [] else hd :: L) ∧
        L.flatten = lines.flatten := by
  induction lines with
  | nil =>
    intro hd hh
    refine ⟨[], ?_, rfl⟩
    by_cases h0 : hd = []
    · subst h0; simp [linesText, splitLines]
    · simp only [linesText, List.map_nil, List.flatten_nil, List.append_nil, h0, false_and, if_false]
      exact splitLines_single hd hh h0
  | cons l rest ih =>
    intro hd hh
    have hlb : BreakFree l := hl l (by simp)
    obtain ⟨L', h1, h2⟩ := ih (fun x hx => hl x (by simp [hx])) l hlb
    refine ⟨if l = [] ∧ rest = [] then [] else l :: L', ?_, ?_⟩
    · have e : hd ++ linesText (l :: rest) = hd ++ '\n' :: (l ++ linesText rest) := by
        simp [linesText]
      rw [e, splitLines_line _ _ hh, h1]
      simp
    · by_cases hc : l = [] ∧ rest = []
      · obtain ⟨ha, hb⟩ := hc
        subst ha hb
        simp
      · rw [if_neg hc]
        simp [h2]

theorem firstToken_header (n : List Char) (d : Option (List Char)) (hn : ∀ c ∈ n, c ≠ ' ') :
    firstToken (n ++ descText d) = n := by
  unfold firstToken
  induction n with
  | nil =>
    cases d with
    | none => rfl
    | some x => simp [descText]
  | cons c t ih =>
    have hc : c ≠ ' ' := hn c (by simp)
    simp only [List.cons_append, List.takeWhile_cons, bne_iff_ne, ne_eq, hc, not_false_eq_true, if_true]
    rw [ih (fun x hx => hn x (by simp [hx]))]

/-- what is asked of a record: name without blank/line break, description and lines without
line break, no `>` in a sequence line, and not the degenerate record that is a bare `>` -/
def RecOK (r : FastaRec) : Prop :=
  NameOK r.name ∧ (∀ d, r.desc = some d → BreakFree d) ∧ (∀ l ∈ r.lines, SeqOK l) ∧
  (r.header ≠ [] ∨ r.lines ≠ [])

theorem header_breakFree (r : FastaRec) (h : RecOK r) : BreakFree r.header := by
  intro c hc
  unfold FastaRec.header at hc
  rcases List.mem_append.mp hc with hc | hc
  · exact (h.1 c hc).2
  · cases hd : r.desc with
    | none => rw [hd] at hc; simp [descText] at hc
    | some d =>
      rw [hd] at hc
      simp only [descText, List.mem_cons] at hc
      rcases hc with hc | hc
      · subst hc; decide
      · exact h.2.1 d hd c hc

theorem parseProtein_record (r : FastaRec) (h : RecOK r) : parseProtein r.body = some r.entry := by
  unfold parseProtein FastaRec.body
  obtain ⟨L, h1, h2⟩ := splitLines_layout r.lines (fun l hl c hc => (h.2.2.1 l hl c hc).1) r.header
    (header_breakFree r h)
  rw [h1]
  have hne : ¬ (r.header = [] ∧ r.lines = []) := by
    intro hh
    rcases h.2.2.2 with h0 | h0
    · exact h0 hh.1
    · exact h0 hh.2
  rw [if_neg hne, parseEntry_cons, h2]
  unfold FastaRec.entry FastaRec.header
  rw [firstToken_header _ _ (fun c hc => (h.1 c hc).1)]

theorem not_mem_linesText {x : Char} (hx : x ≠ '\n') (ls : List (List Char)) (h : ∀ l ∈ ls, x ∉ l) :
    x ∉ linesText ls := by
  unfold linesText
  intro hm
  obtain ⟨l', hl', hxl⟩ := List.mem_flatten.mp hm
  obtain ⟨l, hl, rfl⟩ := List.mem_map.mp hl'
  simp only [List.mem_cons] at hxl
  rcases hxl with hxl | hxl
  · exact hx hxl
  · exact h l hl hxl

theorem record_parts_ok (r : FastaRec) (h : RecOK r) :
    '\n' ∉ r.header ∧ '>' ∉ linesText r.lines ∧ '\r' ∉ r.text := by
  have hb := header_breakFree r h
  refine ⟨?_, ?_, ?_⟩
  · intro hm
    have := hb _ hm
    simp [isBreak] at this
  · exact not_mem_linesText (by decide) _ (fun l hl hm => (h.2.2.1 l hl _ hm).2 rfl)
  · unfold FastaRec.text FastaRec.body
    simp only [List.mem_cons, List.mem_append, not_or]
    refine ⟨by decide, ?_, ?_⟩
    · intro hm
      have := hb _ hm
      simp [isBreak] at this
    · apply not_mem_linesText (by decide)
      intro l hl hm
      have := (h.2.2.1 l hl _ hm).1
      simp [isBreak] at this

/-! ### one file, several files -/

theorem fastaFileText_no_cr (rs : List FastaRec) (h : ∀ r ∈ rs, RecOK r) : '\r' ∉ fastaFileText rs := by
  unfold fastaFileText
  apply not_mem_joinWith _ (by decide)
  intro c hc
  obtain ⟨r, hr, rfl⟩ := List.mem_map.mp hc
  exact (record_parts_ok r (h r hr)).2.2

theorem fastaFileText_head (rs : List FastaRec) (hne : rs ≠ []) : (fastaFileText rs).head? = some '>' := by
  unfold fastaFileText
  cases rs with
  | nil => exact absurd rfl hne
  | cons r rest =>
    rw [List.map_cons]
    unfold FastaRec.text
    rw [joinWith_cons_head]
    rfl

theorem sequenceOpt_records (rs : List FastaRec) (h : ∀ r ∈ rs, RecOK r) :
    sequenceOpt ((rs.map FastaRec.body).map parseProtein) = some (rs.map FastaRec.entry) := by
  induction rs with
  | nil => rfl
  | cons r rest ih =>
    simp only [List.map_cons, sequenceOpt]
    rw [parseProtein_record r (h r (by simp)), ih (fun x hx => h x (by simp [hx]))]
    rfl

/-- the records of one laid-out file (line ends `\n`) -/
theorem splitRecords_file (rs : List FastaRec) (hne : rs ≠ []) (h : ∀ r ∈ rs, RecOK r) :
    splitRecords ((fastaFileText rs).drop 1) = rs.map FastaRec.body := by
  unfold fastaFileText
  have e : rs.map FastaRec.text
      = ((rs.map (fun r => (r.header, linesText r.lines))).map (fun b => b.1 ++ b.2)).map (fun b => '>' :: b) := by
    simp [List.map_map, Function.comp_def, FastaRec.text, FastaRec.body]
  rw [e, joinWith_gt _ (by simpa using hne)]
  simp only [List.drop_succ_cons, List.drop_zero]
  rw [splitRecords_join]
  · simp [List.map_map, Function.comp_def, FastaRec.body]
  · intro b hb
    obtain ⟨r, hr, rfl⟩ := List.mem_map.mp hb
    exact ⟨(record_parts_ok r (h r hr)).1, (record_parts_ok r (h r hr)).2.1⟩
  · simpa using hne

theorem joinWith_head_of_headed (gs : List (List Char)) (hne : gs ≠ [])
    (h : ∀ g ∈ gs, g.head? = some '>') : (joinWith ['\n'] gs).head? = some '>' := by
  cases gs with
  | nil => exact absurd rfl hne
  | cons g rest =>
    have hg := h g (by simp)
    cases g with
    | nil => simp at hg
    | cons c b => rw [joinWith_cons_head]; simpa using hg

/-- a reader input whose joined text begins with `>`: `parseFastaFiles` drops that `>` and splits
(this is literally what the line did before the repair f95d0dc) -/
theorem parseFastaFiles_headed (files : List (List Char))
    (h : (joinWith ['\n'] (files.map univNL)).head? = some '>') :
    parseFastaFiles files = splitRecords ((joinWith ['\n'] (files.map univNL)).drop 1) := by
  unfold parseFastaFiles
  exact splitRecords_nl_headed _ h

/-- several files whose text (after newline translation) begins with `>` -/
theorem parseFastaFiles_several (files : List (List Char)) (hne : files ≠ [])
    (h : ∀ f ∈ files, (univNL f).head? = some '>') :
    parseFastaFiles files = (files.map (fun f => parseFastaFiles [f])).flatten := by
  have hh : ∀ g ∈ files.map univNL, g.head? = some '>' := by
    intro g hg
    obtain ⟨f, hf, rfl⟩ := List.mem_map.mp hg
    exact h f hf
  rw [parseFastaFiles_headed files (joinWith_head_of_headed _ (by simpa using hne) hh)]
  rw [splitRecords_joined (files.map univNL) (by simpa using hne) hh]
  congr 1
  rw [List.map_map]
  apply List.map_congr_left
  intro f hf
  simp only [Function.comp]
  rw [parseFastaFiles_headed [f] (by simpa [joinWith] using h f hf)]
  simp [joinWith]

/-- one laid-out file with at least one record (line ends `\n`) -/
theorem parseFastaFiles_file (rs : List FastaRec) (hne : rs ≠ []) (h : ∀ r ∈ rs, RecOK r) :
    parseFastaFiles [fastaFileText rs] = rs.map FastaRec.body := by
  have hu := univNL_id _ (fastaFileText_no_cr rs h)
  rw [parseFastaFiles_headed _ (by simpa [joinWith, hu] using fastaFileText_head rs hne)]
  simp only [List.map_cons, List.map_nil, joinWith]
  rw [hu, splitRecords_file rs hne h]

end Mk.Decoys
