import MokapotVerif.Lemmas.DecoysDraws
/-! Lemmas on the keys of the `perms` dict and on the number of generator calls (C18, second
pass): which lengths get an entry, how many calls that costs, what a generator that only
returns the identity (retry loop exhausted) or never returns it leads to. -/
namespace Mk.Decoys
variable {α : Type}

/-- keys of the dict, newest first -/
def dkeys (d : PermDict) : List Nat := d.map Prod.fst

theorem lookup_none_iff (d : PermDict) (n : Nat) : d.lookup n = none ↔ n ∉ dkeys d := by
  induction d with
  | nil => simp [dkeys]
  | cons kp rest ih =>
    obtain ⟨k, p⟩ := kp
    by_cases h : n = k
    · subst h
      rw [lookup_cons_eq]
      simp [dkeys]
    · rw [lookup_cons_ne _ _ h, ih]
      simp [dkeys, h]

theorem permFor_keys (reverse : Bool) (rng : Nat → Nat → List Nat) (n : Nat) (st : DrawState) :
    dkeys (permFor reverse rng n st).2.1 = if n ∈ dkeys st.1 then dkeys st.1 else n :: dkeys st.1 := by
  unfold permFor
  cases h : st.1.lookup n with
  | some p =>
    have : n ∈ dkeys st.1 := Decidable.byContradiction (fun hc => by
      rw [(lookup_none_iff _ _).mpr hc] at h
      cases h)
    rw [if_pos this]; rfl
  | none =>
    rw [if_neg ((lookup_none_iff _ _).mp h)]; rfl

theorem permFor_count_old (reverse : Bool) (rng : Nat → Nat → List Nat) (n : Nat) (st : DrawState)
    (h : n ∈ dkeys st.1) : (permFor reverse rng n st).2.2 = st.2 := by
  unfold permFor
  cases hl : st.1.lookup n with
  | some p => rfl
  | none => exact absurd h ((lookup_none_iff _ _).mp hl)

theorem permFor_count_new (reverse : Bool) (rng : Nat → Nat → List Nat) (n : Nat) (st : DrawState)
    (h : n ∉ dkeys st.1) : (permFor reverse rng n st).2.2 = (newPerm reverse rng n st.2).2 := by
  unfold permFor
  rw [(lookup_none_iff _ _).mpr h]; rfl

/-! ### `keysAfter` -/

theorem keysAfter_append (a b keys : List Nat) : keysAfter (a ++ b) keys = keysAfter b (keysAfter a keys) := by
  induction a generalizing keys with
  | nil => rfl
  | cons n rest ih => simp only [List.cons_append, keysAfter, ih]

theorem mem_keysAfter (lens keys : List Nat) (m : Nat) : m ∈ keysAfter lens keys ↔ m ∈ keys ∨ m ∈ lens := by
  induction lens generalizing keys with
  | nil => simp [keysAfter]
  | cons n rest ih =>
    simp only [keysAfter, ih, List.mem_cons]
    by_cases hn : n ∈ keys
    · rw [if_pos hn]
      constructor
      · rintro (h | h)
        · exact Or.inl h
        · exact Or.inr (Or.inr h)
      · rintro (h | h | h)
        · exact Or.inl h
        · exact Or.inl (h ▸ hn)
        · exact Or.inr h
    · rw [if_neg hn]
      simp only [List.mem_cons]
      constructor
      · rintro ((h | h) | h)
        · exact Or.inr (Or.inl h)
        · exact Or.inl h
        · exact Or.inr (Or.inr h)
      · rintro (h | h | h)
        · exact Or.inl (Or.inr h)
        · exact Or.inl (Or.inl h)
        · exact Or.inr h

theorem keysAfter_nodup (lens keys : List Nat) (h : keys.Nodup) : (keysAfter lens keys).Nodup := by
  induction lens generalizing keys with
  | nil => exact h
  | cons n rest ih =>
    simp only [keysAfter]
    apply ih
    by_cases hn : n ∈ keys
    · rw [if_pos hn]; exact h
    · rw [if_neg hn]; exact List.nodup_cons.mpr ⟨hn, h⟩

/-! ### keys of the dict after the loops -/

theorem stateAfterLoop_keys (reverse : Bool) (rng : Nat → Nat → List Nat) (sites : List Nat) :
    ∀ st : DrawState,
      dkeys (stateAfterLoop reverse rng sites st).1 = keysAfter (neededLens sites) (dkeys st.1) := by
  induction sites with
  | nil => intro st; rfl
  | cons s tl ih =>
    intro st
    cases tl with
    | nil => rfl
    | cons e rest =>
      simp only [stateAfterLoop, neededLens]
      rw [ih]
      unfold stateAfterPair
      by_cases hc : e - 1 - (s + 1) ≤ 1
      · rw [if_pos hc, if_pos hc]
      · rw [if_neg hc, if_neg hc, permFor_keys]
        rfl

theorem stateAfterProteins_keys (reverse : Bool) (rng : Nat → Nat → List Nat) (ends : List Char → List Nat)
    (ps : List (List Char × List Char)) :
    ∀ st : DrawState,
      dkeys (stateAfterProteins reverse rng ends ps st).1 = keysAfter (neededLensAll ends ps) (dkeys st.1) := by
  induction ps with
  | nil => intro st; rfl
  | cons p ps ih =>
    intro st
    simp only [stateAfterProteins, neededLensAll]
    rw [ih, stateAfterLoop_keys, keysAfter_append]

/-! ### number of calls -/

/-- a new entry for a length `≥ 2` costs between `lo` and `hi` calls -/
def CostBetween (reverse : Bool) (rng : Nat → Nat → List Nat) (lo hi : Nat) : Prop :=
  ∀ n k, 2 ≤ n → k + lo ≤ (newPerm reverse rng n k).2 ∧ (newPerm reverse rng n k).2 ≤ k + hi

theorem stateAfterLoop_calls {reverse : Bool} {rng : Nat → Nat → List Nat} {lo hi : Nat}
    (H : CostBetween reverse rng lo hi) (sites : List Nat) :
    ∀ st : DrawState, ∃ Δ,
      (keysAfter (neededLens sites) (dkeys st.1)).length = (dkeys st.1).length + Δ ∧
      st.2 + lo * Δ ≤ (stateAfterLoop reverse rng sites st).2 ∧
      (stateAfterLoop reverse rng sites st).2 ≤ st.2 + hi * Δ := by
  induction sites with
  | nil => intro st; exact ⟨0, by simp [neededLens, keysAfter, stateAfterLoop]⟩
  | cons s tl ih =>
    intro st
    cases tl with
    | nil => exact ⟨0, by simp [neededLens, keysAfter, stateAfterLoop]⟩
    | cons e rest =>
      simp only [stateAfterLoop, neededLens]
      unfold stateAfterPair
      by_cases hc : e - 1 - (s + 1) ≤ 1
      · rw [if_pos hc, if_pos hc]
        exact ih st
      · rw [if_neg hc, if_neg hc]
        simp only [keysAfter]
        have h2 : 2 ≤ e - 1 - (s + 1) := by omega
        obtain ⟨Δ, hΔ1, hΔ2, hΔ3⟩ := ih (permFor reverse rng (e - 1 - (s + 1)) st).2
        rw [permFor_keys] at hΔ1
        by_cases hk : e - 1 - (s + 1) ∈ dkeys st.1
        · rw [if_pos hk] at hΔ1 ⊢
          rw [permFor_count_old _ _ _ _ hk] at hΔ2 hΔ3
          exact ⟨Δ, hΔ1, hΔ2, hΔ3⟩
        · rw [if_neg hk] at hΔ1 ⊢
          rw [permFor_count_new _ _ _ _ hk] at hΔ2 hΔ3
          obtain ⟨hlo, hhi⟩ := H (e - 1 - (s + 1)) st.2 h2
          refine ⟨Δ + 1, ?_, ?_, ?_⟩
          · rw [hΔ1]; simp only [List.length_cons]; omega
          · rw [Nat.mul_succ]; omega
          · rw [Nat.mul_succ]; omega

theorem stateAfterProteins_calls {reverse : Bool} {rng : Nat → Nat → List Nat} {lo hi : Nat}
    (H : CostBetween reverse rng lo hi) (ends : List Char → List Nat) (ps : List (List Char × List Char)) :
    ∀ st : DrawState, ∃ Δ,
      (keysAfter (neededLensAll ends ps) (dkeys st.1)).length = (dkeys st.1).length + Δ ∧
      st.2 + lo * Δ ≤ (stateAfterProteins reverse rng ends ps st).2 ∧
      (stateAfterProteins reverse rng ends ps st).2 ≤ st.2 + hi * Δ := by
  induction ps with
  | nil => intro st; exact ⟨0, by simp [neededLensAll, keysAfter, stateAfterProteins]⟩
  | cons p ps ih =>
    intro st
    simp only [stateAfterProteins, neededLensAll]
    obtain ⟨Δ1, a1, a2, a3⟩ := stateAfterLoop_calls H (cleavageSitesOf ends p.2) st
    obtain ⟨Δ2, b1, b2, b3⟩ := ih (stateAfterLoop reverse rng (cleavageSitesOf ends p.2) st)
    rw [stateAfterLoop_keys] at b1
    refine ⟨Δ1 + Δ2, ?_, ?_, ?_⟩
    · rw [keysAfter_append, b1, a1]; omega
    · rw [Nat.mul_add]; omega
    · rw [Nat.mul_add]; omega

/-- from the empty dict of a fresh call -/
theorem calls_between {reverse : Bool} {rng : Nat → Nat → List Nat} {lo hi : Nat}
    (H : CostBetween reverse rng lo hi) (ends : List Char → List Nat) (ts : List (List Char × List Char)) :
    lo * distinctLens (neededLensAll ends ts) ≤ (stateAfterProteins reverse rng ends ts drawState0).2 ∧
    (stateAfterProteins reverse rng ends ts drawState0).2 ≤ hi * distinctLens (neededLensAll ends ts) := by
  obtain ⟨Δ, h1, h2, h3⟩ := stateAfterProteins_calls H ends ts drawState0
  simp only [drawState0, dkeys, List.map_nil, List.length_nil, Nat.zero_add] at h1 h2 h3
  unfold distinctLens
  rw [h1]
  exact ⟨h2, h3⟩

theorem cost_reverse (rng : Nat → Nat → List Nat) : CostBetween true rng 0 0 :=
  fun _ _ _ => ⟨Nat.le_refl _, Nat.le_refl _⟩

theorem newPerm_shuffle_step (rng : Nat → Nat → List Nat) (n k : Nat) :
    newPerm false rng n k = retryLoop rng n 99 (k + 1) (rng k n) := by
  unfold newPerm
  simp only [Bool.false_eq_true, if_false]
  rw [retryLoop]
  simp

theorem cost_shuffle (rng : Nat → Nat → List Nat) : CostBetween false rng 1 100 := by
  intro n k _
  rw [newPerm_shuffle_step]
  have := retryLoop_count rng n 99 (k + 1) (rng k n)
  omega

theorem retryLoop_all_id {rng : Nat → Nat → List Nat} (hid : ∀ k n, rng k n = List.range n) (n : Nat) :
    ∀ fuel k, retryLoop rng n fuel k (List.range n) = (List.range n, k + fuel) := by
  intro fuel
  induction fuel with
  | zero => intro k; rfl
  | succ f ih =>
    intro k
    rw [retryLoop]
    simp only [if_true]
    rw [hid k n, ih (k + 1)]
    congr 1
    omega

theorem cost_all_id {rng : Nat → Nat → List Nat} (hid : ∀ k n, rng k n = List.range n) :
    CostBetween false rng 100 100 := by
  intro n k _
  unfold newPerm
  simp only [Bool.false_eq_true, if_false]
  rw [retryLoop_all_id hid]
  exact ⟨Nat.le_refl _, Nat.le_refl _⟩

theorem cost_never_id {rng : Nat → Nat → List Nat} (hne : ∀ k n, 2 ≤ n → rng k n ≠ List.range n) :
    CostBetween false rng 1 1 := by
  intro n k h2
  have := retryLoop_first rng n 100 k 0 (by omega) (fun i hi => absurd hi (Nat.not_lt_zero _))
    (by simpa using hne k n h2)
  unfold newPerm
  simp only [Bool.false_eq_true, if_false]
  rw [this]
  simp

/-! ### a property of all entries of the dict -/

theorem permFor_inv (reverse : Bool) (rng : Nat → Nat → List Nat) (Q : Nat → List Nat → Prop)
    (hnew : ∀ n k, Q n (newPerm reverse rng n k).1) (n : Nat) (st : DrawState)
    (hv : ∀ m p, st.1.lookup m = some p → Q m p) :
    ∀ m p, (permFor reverse rng n st).2.1.lookup m = some p → Q m p := by
  unfold permFor
  cases h : st.1.lookup n with
  | some p => exact hv
  | none =>
    intro m q hm
    simp only [permForAux] at hm
    by_cases hmn : m = n
    · subst hmn
      rw [lookup_cons_eq] at hm
      cases hm
      exact hnew _ _
    · rw [lookup_cons_ne _ _ hmn] at hm
      exact hv m q hm

theorem stateAfterLoop_inv (reverse : Bool) (rng : Nat → Nat → List Nat) (Q : Nat → List Nat → Prop)
    (hnew : ∀ n k, Q n (newPerm reverse rng n k).1) (sites : List Nat) :
    ∀ st : DrawState, (∀ m p, st.1.lookup m = some p → Q m p) →
      ∀ m p, (stateAfterLoop reverse rng sites st).1.lookup m = some p → Q m p := by
  induction sites with
  | nil => intro st hv; exact hv
  | cons s tl ih =>
    intro st hv
    cases tl with
    | nil => exact hv
    | cons e rest =>
      simp only [stateAfterLoop]
      apply ih
      unfold stateAfterPair
      split
      · exact hv
      · exact permFor_inv reverse rng Q hnew _ st hv

theorem stateAfterProteins_inv (reverse : Bool) (rng : Nat → Nat → List Nat) (Q : Nat → List Nat → Prop)
    (hnew : ∀ n k, Q n (newPerm reverse rng n k).1) (ends : List Char → List Nat)
    (ps : List (List Char × List Char)) :
    ∀ st : DrawState, (∀ m p, st.1.lookup m = some p → Q m p) →
      ∀ m p, (stateAfterProteins reverse rng ends ps st).1.lookup m = some p → Q m p := by
  induction ps with
  | nil => intro st hv; exact hv
  | cons p ps ih =>
    intro st hv
    simp only [stateAfterProteins]
    exact ih _ (stateAfterLoop_inv reverse rng Q hnew _ st hv)

/-- the identity family -/
def idFam : Nat → List Nat := fun n => List.range n

theorem idFam_family : PermFamily idFam := fun _ => List.Perm.refl _

/-- a generator that only returns the identity leaves the identity family in the dict -/
theorem famOfDict_all_id {rng : Nat → Nat → List Nat} (hid : ∀ k n, rng k n = List.range n)
    (ends : List Char → List Nat) (ts : List (List Char × List Char)) :
    famOfDict false (stateAfterProteins false rng ends ts drawState0).1 = idFam := by
  funext n
  unfold famOfDict
  cases h : (stateAfterProteins false rng ends ts drawState0).1.lookup n with
  | none => rfl
  | some p =>
    have := stateAfterProteins_inv false rng (fun m q => q = List.range m)
      (fun m k => by
        unfold newPerm
        simp only [Bool.false_eq_true, if_false]
        rw [retryLoop_all_id hid])
      ends ts drawState0 (by intro m q hm; simp [drawState0] at hm) n p h
    simp [this, idFam]

theorem shufflePeptide_id (pep : List α) : shufflePeptide idFam pep = pep := by
  rcases peptide_cases pep with h | ⟨x, I, y, rfl, hI⟩
  · exact shufflePeptide_short _ _ h
  · rw [shufflePeptide_decomp _ _ _ _ hI]
    unfold idFam
    rw [permuteBy_range]

theorem specLoop_id (sites : List Nat) (r : List α) : specLoop idFam sites r = r := by
  induction sites generalizing r with
  | nil => rfl
  | cons s rest ih =>
    cases rest with
    | nil => rfl
    | cons e rest =>
      simp only [specLoop, shufflePeptide_id, ih, List.take_append_drop]

end Mk.Decoys
