import MokapotVerif.Lemmas.PinChecks
import MokapotVerif.Model.PinWarn
/-! Helper lemmas for `Model/PinWarn.lean`: the flattened task results are a
re-arrangement of the data columns with a missing value. -/
namespace Mk.Pin

theorem flattenDrops_eq (drops : List (List Name)) : flattenDrops drops = drops.flatten := by
  unfold flattenDrops
  induction drops with
  | nil => rfl
  | cons d ds ih =>
    rw [List.filter_cons]
    cases d with
    | nil => simpa using ih
    | cons x xs => simp [ih]

/-- a chunk that holds only data columns, or all identifier columns: the scanned columns are
the chunk without the identifier columns -/
theorem scannedCols_eq_filter {ids chunk : List Name}
    (h : (∀ x ∈ chunk, x ∉ ids) ∨ (∀ x ∈ ids, x ∈ chunk)) :
    scannedCols ids chunk = chunk.filter (fun c => !ids.contains c) := by
  unfold scannedCols
  split
  · rfl
  · rename_i hh
    rcases h with h | h
    · symm; rw [List.filter_eq_self]; intro x hx; simpa using h x hx
    · exfalso; apply hh; unfold hasIds; rw [List.all_eq_true]; intro x hx; simpa using h x hx

theorem flatMap_scannedCols_idChunks {c : Nat} (hc : 0 < c) (data ids : List Name) (hne : ids ≠ [])
    (hdisj : ∀ x ∈ ids, x ∉ data) :
    (idChunks data ids c).flatMap (scannedCols ids) = data := by
  have hall : ∀ ch ∈ idChunks data ids c,
      scannedCols ids ch = ch.filter (fun c => !ids.contains c) := by
    obtain ⟨init, last, heq, hinit, hlast⟩ := idChunks_struct hc data ids hne
    intro ch hch
    rw [heq, List.mem_append, List.mem_singleton] at hch
    rcases hch with hch | rfl
    · exact scannedCols_eq_filter (Or.inl fun x hx hxi => hdisj x hxi (hinit ch hch x hx))
    · exact scannedCols_eq_filter (Or.inr hlast)
  rw [List.flatMap_def, List.map_congr_left hall, ← List.flatMap_def, ← List.filter_flatMap, List.flatMap_id', idChunks_flatten hc, List.filter_append]
  have h1 : data.filter (fun c => !ids.contains c) = data := by
    rw [List.filter_eq_self]; intro x hx
    have : x ∉ ids := fun hxi => hdisj x hxi hx
    simpa using this
  have h2 : ids.filter (fun c => !ids.contains c) = [] := by
    rw [List.filter_eq_nil_iff]; intro x hx; simpa using hx
  rw [h1, h2, List.append_nil]

theorem perm_flatMap_of_forall {β γ : Type} (l : List β) {f g : β → List γ}
    (h : ∀ a ∈ l, (f a).Perm (g a)) : (l.flatMap f).Perm (l.flatMap g) := by
  induction l with
  | nil => exact List.Perm.refl _
  | cons a as ih =>
    rw [List.flatMap_cons, List.flatMap_cons]
    exact (h a (List.mem_cons_self)).append (ih fun b hb => h b (List.mem_cons_of_mem _ hb))

/-- the flattened task results: a re-arrangement of the data columns for which the scan
finds a missing value -/
theorem flatten_scanDropOrd_perm {σ : List Name → List Name} (hσ : ∀ l, (σ l).Perm l)
    (t : Table) {c : Nat} (hc : 0 < c) (r m : Nat) (data ids : List Name) (hne : ids ≠ [])
    (hdisj : ∀ x ∈ ids, x ∉ data) :
    (flattenDrops ((idChunks data ids c).map (scanDropOrd σ t ids r m))).Perm
      (data.filter (naInColumn t r m)) := by
  rw [flattenDrops_eq, ← List.flatMap_def]
  have h1 : ((idChunks data ids c).flatMap (scanDropOrd σ t ids r m)).Perm
      ((idChunks data ids c).flatMap (fun ch => (scannedCols ids ch).filter (naInColumn t r m))) := by
    apply perm_flatMap_of_forall
    intro ch _
    exact (hσ _).filter _
  refine h1.trans ?_
  rw [← List.filter_flatMap, flatMap_scannedCols_idChunks hc data ids hne hdisj]

end Mk.Pin
