import MokapotVerif.Lemmas.TabularReaders
/-!
# Lemmas on the reader combinators (C13): renaming and computed column
-/
namespace Mk.Tabular
variable {α β γ : Type}

/-! ## renaming reader reads the renamed table -/

theorem inj_of_nodup_map (f : Name → Name) (l : List Name) (h : (l.map f).Nodup) (a b : Name)
    (ha : a ∈ l) (hb : b ∈ l) (hab : f a = f b) : a = b := by
  induction l with
  | nil => simp at ha
  | cons x xs ih =>
    have h' : f x ∉ xs.map f ∧ (xs.map f).Nodup := by simpa using h
    rcases List.mem_cons.mp ha with rfl | ha' <;> rcases List.mem_cons.mp hb with rfl | hb'
    · rfl
    · exact absurd (List.mem_map.mpr ⟨b, hb', hab.symm⟩) h'.1
    · exact absurd (List.mem_map.mpr ⟨a, ha', hab⟩) h'.1
    · exact ih h'.2 ha' hb'

/-- looking a renamed column up in the renamed row -/
theorem lookup_rename (f : Name → Name) (r : Row β) (o : Name)
    (hinj : ∀ k ∈ rowKeys r, f k = f o → k = o) :
    (r.map (fun p => (f p.1, p.2))).lookup (f o) = r.lookup o := by
  induction r with
  | nil => rfl
  | cons p r ih =>
    obtain ⟨k, v⟩ := p
    have hrest : ∀ k' ∈ rowKeys r, f k' = f o → k' = o :=
      fun k' hk' => hinj k' (by simp only [rowKeys, List.map_cons, List.mem_cons] at hk' ⊢; exact Or.inr hk')
    simp only [List.map_cons]
    by_cases hk : o = k
    · subst hk; simp
    · have hne : f o ≠ f k := by
        intro e
        exact hk (hinj k (by simp [rowKeys]) e.symm).symm
      rw [lookup_cons_ne' (f o) (f k) v _ hne, lookup_cons_ne' o k v r hk]
      exact ih hrest

theorem reorder_rename (f : Name → Name) (r : Row β) (ocs : List Name)
    (hinj : ∀ o ∈ ocs, ∀ k ∈ rowKeys r, f k = f o → k = o) :
    (reorder ocs r).map (fun p => (f p.1, p.2)) = reorder (ocs.map f) (r.map (fun p => (f p.1, p.2))) := by
  unfold reorder
  induction ocs with
  | nil => rfl
  | cons o os ih =>
    have ih' := ih (fun o' ho' => hinj o' (List.mem_cons_of_mem _ ho'))
    simp only [List.map_cons, List.filterMap_cons, lookup_rename f r o (hinj o (by simp))]
    cases r.lookup o with
    | none => simpa using ih'
    | some v => simp only [Option.map_some, List.map_cons]; rw [ih']

/-- `_get_orig_columns` succeeds on renamed column names and inverts the renaming -/
theorem origCols_spec (m : List (Name × Name)) (orig : List Name) (hinj : (orig.map (newName m)).Nodup)
    (cs : List Name) (h : ∀ c ∈ cs, c ∈ orig.map (newName m)) :
    ∃ ocs, optAll (cs.map (revLookup m orig)) = some ocs ∧ ocs.map (newName m) = cs ∧ ∀ o ∈ ocs, o ∈ orig := by
  induction cs with
  | nil => exact ⟨[], rfl, rfl, by simp⟩
  | cons c cs ih =>
    obtain ⟨ocs, h1, h2, h3⟩ := ih (fun d hd => h d (List.mem_cons_of_mem _ hd))
    obtain ⟨o, ho, rfl⟩ := List.mem_map.mp (h c (by simp))
    refine ⟨o :: ocs, ?_, by simp [h2], ?_⟩
    · simp [optAll, revLookup_newName m orig hinj o ho, h1]
    · intro x hx
      rcases List.mem_cons.mp hx with rfl | hx
      · exact ho
      · exact h3 x hx

theorem mapped_readsTable (r : Reader β) (m : List (Name × Name)) (t : DF β) (an : Bool)
    (h : ReadsTable r t an) (hwf : t.WF) (hinj : (t.names.map (newName m)).Nodup) :
    ReadsTable (mappedReader r m) (renameDF m t) an where
  names := by simp [mappedReader, renameDF, h.names]
  read := by
    intro cols hok han
    cases cols with
    | none =>
      simp only [mappedReader, origCols, Option.elim_none, Option.bind_some]
      rw [h.read none (by simp [colsOK]) han]
      simp [selectDF_none]
    | some cs =>
      have hcs : ∀ c ∈ cs, c ∈ t.names.map (newName m) := by
        have := (hasAll_iff _ _).mp hok
        simpa [renameDF] using this
      obtain ⟨ocs, h1, h2, h3⟩ := origCols_spec m t.names hinj cs hcs
      simp only [mappedReader, origCols, Option.elim_some, h.names, h1, Option.map_some, Option.bind_some]
      rw [h.read (some ocs) ((hasAll_iff _ _).mpr h3) (by simp)]
      simp only [Option.map_some, Option.some.injEq]
      simp only [renameDF, selectDF, outNames, pick, Option.elim_some, id, List.map_map, h2]
      congr 1
      apply List.map_congr_left
      intro ir hir
      simp only [Function.comp]
      congr 1
      rw [← h2]
      apply reorder_rename
      intro o ho k hk hfk
      have hkeys : rowKeys ir.2 = t.names := hwf.2 ir hir
      rw [hkeys] at hk
      exact inj_of_nodup_map (newName m) t.names hinj k o hk (h3 o ho) hfk
  readNone := by
    intro han
    simp [mappedReader, origCols, h.readNone han]

/-! ## computed-column reader -/

theorem computed_chunkOK (r : Reader β) (col : Name) (fn : Nat → Row β → β) (h : ChunkOK r) :
    ChunkOK (computedReader r col fn) := by
  intro c hc cols F hF
  cases cols with
  | none => simp [computedReader] at hF
  | some cs =>
    simp only [computedReader, Option.elim_some] at hF ⊢
    cases hr : r.read (some (readerCols col cs)) with
    | none => simp [hr] at hF
    | some G =>
      simp only [hr, Option.bind_some, frameRead] at hF
      split at hF
      · rename_i hok
        cases hF
        obtain ⟨e, he⟩ := h c hc _ G hr
        refine ⟨e, ?_⟩
        rw [he, Option.bind_some]
        have hall : ∀ d ∈ splitDF e c G,
            frameRead (addCol col fn d) (some cs) = some (selectDF (some cs) (addCol col fn d)) := by
          intro d hd
          have hn : (addCol col fn d).names = (addCol col fn G).names := by
            simp [addCol, splitDF_names e c G d hd]
          simp [frameRead, hn, hok]
        rw [optAll_congr_some _ hall]
        congr 1
        have := splitDF_mapRows e c hc G cs
          (fun ir => (ir.1, reorder cs (ir.2 ++ [(col, fn ir.1 ir.2)])))
        simp only [selectDF, addCol, outNames, pick, Option.elim_some, id, List.map_map] at this ⊢
        exact this.symm
      · cases hF

theorem computed_readsTable (r : Reader β) (col : Name) (fn : Nat → Row β → β) (t : DF β) (an : Bool)
    (h : ReadsTable r t an) (hwf : t.WF) (hcol : col ∉ t.names)
    (hfn : ∀ i r r', fn i r = fn i r') :
    ReadsTable (computedReader r col fn) (addCol col fn t) false where
  names := by simp [computedReader, addCol, h.names]
  read := by
    intro cols hok han
    cases cols with
    | none => simp at han
    | some cs =>
      have hcs : ∀ c ∈ cs, c ∈ t.names ∨ c = col := by
        have := (hasAll_iff _ _).mp hok
        simpa [addCol] using this
      have hrc : ∀ c ∈ readerCols col cs, c ∈ t.names := by
        intro c hc
        simp only [readerCols, List.mem_filter, bne_iff_ne, ne_eq] at hc
        rcases hcs c hc.1 with h1 | h1
        · exact h1
        · exact absurd h1 hc.2
      simp only [computedReader, Option.elim_some]
      rw [h.read (some (readerCols col cs)) ((hasAll_iff _ _).mpr hrc) (by simp)]
      have hok2 : colsOK (addCol col fn (selectDF (some (readerCols col cs)) t)).names (some cs) = true := by
        apply (hasAll_iff _ _).mpr
        intro c hc
        simp only [addCol, selectDF, outNames, Option.elim_some, id, List.mem_append, List.mem_singleton]
        by_cases hcc : c = col
        · exact Or.inr hcc
        · left
          simp only [readerCols, List.mem_filter, bne_iff_ne, ne_eq]
          exact ⟨hc, hcc⟩
      simp only [Option.bind_some, frameRead, hok2, if_true, Option.some.injEq]
      simp only [selectDF, addCol, outNames, pick, Option.elim_some, id, List.map_map]
      congr 1
      apply List.map_congr_left
      intro ir hir
      simp only [Function.comp]
      congr 1
      apply reorder_congr
      intro c hc
      have hkeys : rowKeys ir.2 = t.names := hwf.2 ir hir
      rw [List.lookup_append, List.lookup_append, hfn ir.1 (reorder (readerCols col cs) ir.2) ir.2]
      by_cases hcc : c = col
      · subst hcc
        rw [lookup_reorder_not_mem _ _ _ (by simp [readerCols]),
          lookup_of_not_mem_keys ir.2 c (by rw [hkeys]; exact hcol)]
      · rw [lookup_reorder _ _ _ (by
          simp only [readerCols, List.mem_filter, bne_iff_ne, ne_eq]; exact ⟨hc, hcc⟩)]
  readNone := by intro _; simp [computedReader]

end Mk.Tabular
