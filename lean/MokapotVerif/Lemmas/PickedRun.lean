import MokapotVerif.Model.PickedRun
import MokapotVerif.Lemmas.Picked
import MokapotVerif.Lemmas.Cross
/-! Helper lemmas for the second extension of C15 (`Model/PickedRun.lean`): first member of a joined
group name, the chunk-wise writer at the protein level, the loop over collections. -/
namespace Mk.Picked
variable {α : Type}

/-! ## group names -/

theorem firstMember_self (m : Str) (h : commaFree m) : firstMember m = m := by
  unfold commaFree at h
  induction m with
  | nil => rfl
  | cons c cs ih =>
    simp only [hasSep, Bool.or_eq_false_iff] at h
    rw [firstMember, h.1]
    simp only [Bool.false_eq_true, if_false]
    rw [ih h.2]

theorem firstMember_append_sep (m rest : Str) (h : commaFree m) :
    firstMember (m ++ ',' :: ' ' :: rest) = m := by
  unfold commaFree at h
  induction m with
  | nil => simp [firstMember, startsSep]
  | cons c cs ih =>
    simp only [hasSep, Bool.or_eq_false_iff] at h
    have hs : startsSep (c :: (cs ++ ',' :: ' ' :: rest)) = false := by
      cases cs with
      | nil =>
        rw [List.nil_append, startsSep_cons_cons]
        simp
      | cons d r =>
        have := h.1
        rw [startsSep_cons_cons] at this
        rw [List.cons_append, startsSep_cons_cons]
        exact this
    rw [List.cons_append, firstMember, hs]
    simp only [Bool.false_eq_true, if_false]
    rw [ih h.2]

/-- the first member read back by `.str.split(", ")[0]` is the first member that was joined —
provided its name does not hold the separator itself -/
theorem firstMember_joinGroup (m : Str) (ms : List Str) (h : commaFree m) :
    firstMember (joinGroup (m :: ms)) = m := by
  cases ms with
  | nil => exact firstMember_self m h
  | cons m' ms => exact firstMember_append_sep m _ h

/-! ## the chunk-wise writer -/

theorem zip_mask_filter {β γ : Type} (f : β → Bool) (g : Bool → Bool) :
    ∀ (rows : List β) (X : List γ),
      (((rows.zip X).zip (rows.map f)).filter (fun x => g x.2)).map (fun x => x.1)
        = (rows.zip X).filter (fun a => g (f a.1)) := by
  intro rows
  induction rows with
  | nil => intro X; simp
  | cons r rest ih =>
    intro X
    cases X with
    | nil => simp
    | cons x xs =>
      simp only [List.zip_cons_cons, List.map_cons, List.filter_cons]
      by_cases hg : g (f r) = true
      · simp only [hg, if_true, List.map_cons]
        rw [ih xs]
      · simp only [hg]
        exact ih xs

theorem bne_false_eq (b : Bool) : (b != false) = b := by cases b <;> rfl
theorem bne_true_eq (b : Bool) : (b != true) = !b := by cases b <;> rfl

/-- whatever the chunk size `c ≥ 1`, the two files of one collection are its target rows / decoy rows
with the q-values and PEPs of the whole table -/
theorem proteinFilesChunked_eq (c : Nat) (hc : 0 < c) (qv : List (α × Bool) → List Rat)
    (pep : List (Entry α) → List Rat) (decoys : Bool) (arr : List (Entry α))
    (hq : (qv (entryLabels arr)).length = arr.length) (hp : (pep arr).length = arr.length) :
    proteinFilesChunked c qv pep decoys arr
      = (protPart qv pep false ⟨none, arr⟩, if decoys then some (protPart qv pep true ⟨none, arr⟩) else none) := by
  unfold proteinFilesChunked
  rw [Cross.writeChunked_eq c hc arr _ _ _ hq hp (by simp)]
  unfold Cross.writeWhole protPart
  simp only
  have h1 := zip_mask_filter (fun e : Entry α => e.target) (fun b => b) arr ((qv (entryLabels arr)).zip (pep arr))
  have h2 := zip_mask_filter (fun e : Entry α => e.target) (fun b => !b) arr ((qv (entryLabels arr)).zip (pep arr))
  simp only [bne_false_eq, bne_true_eq]
  rw [h1, h2]

theorem protPart_pre (qv : List (α × Bool) → List Rat) (pep : List (Entry α) → List Rat) (d : Bool)
    (k : ProtColl α) : protPart qv pep d ⟨none, k.arr⟩ = protPart qv pep d k := rfl

/-! ## the loop over collections -/

/-- the lengths the q-value routine and the PEP kernel return (true of `tdc` and of every kernel) -/
def LenOk (qv : List (α × Bool) → List Rat) (pep : List (Entry α) → List Rat) : Prop :=
  (∀ l, (qv l).length = l.length) ∧ (∀ a, (pep a).length = a.length)

theorem entryLabels_length (arr : List (Entry α)) : (entryLabels arr).length = arr.length := by
  simp [entryLabels]

/-- what one pass of the loop does to one file -/
theorem protStep_apply (c : Nat) (hc : 0 < c) (qv : List (α × Bool) → List Rat)
    (pep : List (Entry α) → List Rat) (hl : LenOk qv pep) (decoys app : Bool)
    (fs : ProtFS α) (uw : Bool) (k : ProtColl α) (n : ProtName) :
    (protStep c qv pep decoys app (fs, uw) k).1 n
      = if n.1 = k.pre ∧ (n.2 = false ∨ decoys = true) then
          (if protAppendHere app uw k.pre = true then some ((fs n).getD [] ++ protPart qv pep n.2 k)
           else some (protPart qv pep n.2 k))
        else fs n := by
  have hch := proteinFilesChunked_eq c hc qv pep decoys k.arr
    (by rw [hl.1, entryLabels_length]) (hl.2 _)
  obtain ⟨p, b⟩ := n
  unfold protStep protWrite protOpen
  simp only [hch, protPart_pre]
  generalize protAppendHere app uw k.pre = A
  by_cases hp : p = k.pre
  · subst hp
    cases decoys <;> cases b <;> cases A <;> simp [protAppend, protInit]
  · have hne : ∀ b' : Bool, ((p, b) : ProtName) ≠ (k.pre, b') := by
      intro b' h; exact hp (congrArg Prod.fst h)
    cases decoys <;> cases A <;> simp [protAppend, protInit, hne, hp]

theorem lastColl_cons_of_ne (k : ProtColl α) (l : List (ProtColl α)) (h : l ≠ []) :
    lastColl (k :: l) = lastColl l := by
  cases l with
  | nil => exact absurd rfl h
  | cons a as => rfl

/-- the specification with an arbitrary starting value of `unprefixed_written` (needed for the
induction; the call starts with `False`) -/
def protRunSpecFrom (qv : List (α × Bool) → List Rat) (pep : List (Entry α) → List Rat)
    (decoys app uw : Bool) (colls : List (ProtColl α)) (fs0 : ProtFS α) : ProtFS α := fun n =>
  if (colls.filter (fun k => k.pre == n.1)).isEmpty || (n.2 && !decoys) then fs0 n
  else if app || (uw && n.1.isNone) then
    some ((fs0 n).getD [] ++ (colls.filter (fun k => k.pre == n.1)).flatMap (protPart qv pep n.2))
  else if n.1.isNone then some ((colls.filter (fun k => k.pre == n.1)).flatMap (protPart qv pep n.2))
  else (lastColl (colls.filter (fun k => k.pre == n.1))).map (protPart qv pep n.2)

theorem protRunSpecFrom_false (qv : List (α × Bool) → List Rat) (pep : List (Entry α) → List Rat)
    (decoys app : Bool) (colls : List (ProtColl α)) (fs0 : ProtFS α) :
    protRunSpecFrom qv pep decoys app false colls fs0 = protRunSpec qv pep decoys app colls fs0 := by
  funext n
  simp [protRunSpecFrom, protRunSpec]

theorem protRun_fold (c : Nat) (hc : 0 < c) (qv : List (α × Bool) → List Rat)
    (pep : List (Entry α) → List Rat) (hl : LenOk qv pep) (decoys app : Bool) :
    ∀ (colls : List (ProtColl α)) (fs : ProtFS α) (uw : Bool),
      (colls.foldl (protStep c qv pep decoys app) (fs, uw)).1
        = protRunSpecFrom qv pep decoys app uw colls fs := by
  intro colls
  induction colls with
  | nil =>
    intro fs uw
    funext n
    simp [protRunSpecFrom]
  | cons k rest ih =>
    intro fs uw
    rw [List.foldl_cons]
    have hst : protStep c qv pep decoys app (fs, uw) k
        = ((protStep c qv pep decoys app (fs, uw) k).1, uw || k.pre.isNone) := rfl
    rw [hst, ih]
    funext n
    have hap := protStep_apply c hc qv pep hl decoys app fs uw k n
    obtain ⟨p, b⟩ := n
    simp only [protRunSpecFrom] at *
    rw [hap]
    by_cases hp : p = k.pre
    · -- the collection owns the files with prefix `p`
      subst hp
      have hkk : (k.pre == k.pre) = true := by simp
      simp only [List.filter_cons, hkk, if_true, true_and]
      by_cases hown : (b = false ∨ decoys = true)
      · simp only [hown, if_true]
        have hbd : (b && !decoys) = false := by
          rcases hown with h | h <;> simp [h]
        cases hr : (rest.filter (fun k' => k'.pre == k.pre)) with
        | nil =>
          simp only [hbd, List.isEmpty_nil, List.isEmpty_cons, Bool.or_false, if_true,
            List.flatMap_cons, List.flatMap_nil, List.append_nil, lastColl, Option.map_some]
          cases app <;> cases uw <;> cases hk : k.pre <;>
            simp [protAppendHere]
        | cons a as =>
          have hne : (a :: as) ≠ [] := by simp
          simp only [hbd, List.isEmpty_cons, Bool.or_false, List.flatMap_cons,
            lastColl_cons_of_ne k (a :: as) hne]
          cases app <;> cases uw <;> cases hk : k.pre <;>
            simp [protAppendHere, List.append_assoc]
      · have hb : b = true := by
          cases b
          · exact absurd (Or.inl rfl) hown
          · rfl
        have hd : decoys = false := by
          cases decoys
          · rfl
          · exact absurd (Or.inr rfl) hown
        subst hb; subst hd
        simp
    · have hkp : (k.pre == p) = false := by
        simp only [beq_eq_false_iff_ne, ne_eq]
        exact fun h => hp h.symm
      have hcond : ((uw || k.pre.isNone) && p.isNone) = (uw && p.isNone) := by
        cases hk : k.pre with
        | none =>
          cases hpp : p with
          | none => exact absurd (by rw [hk, hpp]) hp
          | some _ => simp
        | some _ => simp
      simp only [List.filter_cons, hkp, hp, false_and, if_false, Bool.false_eq_true, hcond]

theorem protRun_eq_spec (c : Nat) (hc : 0 < c) (qv : List (α × Bool) → List Rat)
    (pep : List (Entry α) → List Rat) (hl : LenOk qv pep) (decoys app : Bool)
    (colls : List (ProtColl α)) (fs0 : ProtFS α) :
    protRun c qv pep decoys app colls fs0 = protRunSpec qv pep decoys app colls fs0 := by
  unfold protRun
  rw [protRun_fold c hc qv pep hl decoys app colls fs0 false, protRunSpecFrom_false]

/-! ## outcome of `candidates`, lengths, the PEP column -/

theorem annotate_length (P : Proteins) (dmap : List (List Char × List Char)) (rows : List (Row α)) :
    (annotate P dmap rows).length = rows.length := by
  unfold annotate
  simp [stripCol_length]

theorem outcome_aux (b1 b2 b3 : Bool) (R0 : List (Entry α)) (e : Except Err (List (Entry α)))
    (he : e = if b1 = true then .error .unmapped else if b2 = true then .error .decoys
              else if b3 = true then .error .empty else .ok R0) :
    (e = .error .unmapped ↔ b1 = true) ∧ (e = .error .decoys ↔ b1 = false ∧ b2 = true) ∧
    (e = .error .empty ↔ b1 = false ∧ b2 = false ∧ b3 = true) ∧
    ∀ R, e = .ok R ↔ b1 = false ∧ b2 = false ∧ b3 = false ∧ R = R0 := by
  subst he
  cases b1 <;> cases b2 <;> cases b3 <;> simp [eq_comm]

theorem tdc_lenOk (le : α → α → Bool) (hle : TotalPre le) (pep : List (Entry α) → List Rat)
    (hp : ∀ a, (pep a).length = a.length) : LenOk (tdc le) pep := by
  refine ⟨fun l => ?_, hp⟩
  rw [tdc_eq_spec_aux le hle]
  simp

theorem dropPep_zip : ∀ (arr : List (Entry α)) (q p : List Rat), arr.length ≤ p.length →
    (arr.zip (q.zip p)).map dropPep = arr.zip q := by
  intro arr
  induction arr with
  | nil => intro q p _; simp
  | cons a rest ih =>
    intro q p hp
    cases q with
    | nil => simp
    | cons x xs =>
      cases p with
      | nil => simp at hp
      | cons y ys =>
        simp only [List.zip_cons_cons, List.map_cons, dropPep]
        rw [← ih xs ys (by simpa using hp)]

theorem protPart_dropPep (qv : List (α × Bool) → List Rat) (pep : List (Entry α) → List Rat) (d : Bool)
    (k : ProtColl α) (hp : (pep k.arr).length = k.arr.length) :
    (protPart qv pep d k).map dropPep = (proteinLevel qv k.arr).filter (fun x => x.1.target != d) := by
  unfold protPart proteinLevel
  rw [← dropPep_zip k.arr (qv (entryLabels k.arr)) (pep k.arr) (by omega), List.filter_map]
  rfl

end Mk.Picked
