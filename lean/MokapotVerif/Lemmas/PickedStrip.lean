import MokapotVerif.Model.Picked
import Mathlib.Data.List.Perm.Basic
/-! Helper lemmas for C15: `strip_peptides` on well-formed annotated peptides. -/
namespace Mk.Picked

/-! ## character classes -/

theorem upper_not_open (c : Char) (h : c.isUpper = true) : isOpen c = false := by
  unfold isOpen
  rw [Bool.or_eq_false_iff]
  constructor <;> (rw [beq_eq_false_iff_ne]; rintro rfl; revert h; decide)

theorem lower_not_open (c : Char) (h : c.isLower = true) : isOpen c = false := by
  unfold isOpen
  rw [Bool.or_eq_false_iff]
  constructor <;> (rw [beq_eq_false_iff_ne]; rintro rfl; revert h; decide)

theorem upper_ne_dot (c : Char) (h : c.isUpper = true) : c ≠ '.' := by
  rintro rfl; revert h; decide

theorem lower_ne_dot (c : Char) (h : c.isLower = true) : c ≠ '.' := by
  rintro rfl; revert h; decide

theorem upper_not_lower (c : Char) (h : c.isUpper = true) : c.isLower = false := by
  have h1 : 'A'.val.toNat = 65 := rfl
  have h2 : 'Z'.val.toNat = 90 := rfl
  have h3 : 'a'.val.toNat = 97 := rfl
  simp only [Char.isUpper, Char.isLower, decide_eq_true_eq, UInt32.le_iff_toNat_le, ge_iff_le,
    Bool.and_eq_false_iff, decide_eq_false_iff_not] at *
  omega

theorem lower_not_upper (c : Char) (h : c.isLower = true) : c.isUpper = false := by
  cases h' : c.isUpper
  · rfl
  · rw [upper_not_lower c h'] at h; exact absurd h (by decide)

/-! ## `stripMods` -/

theorem stripMods_noopen (pre rest : List Char) (h : ∀ c ∈ pre, isOpen c = false) :
    stripMods false (pre ++ rest) = pre ++ stripMods false rest := by
  induction pre with
  | nil => rfl
  | cons c cs ih =>
    have hc : isOpen c = false := h c List.mem_cons_self
    simp only [List.cons_append, stripMods, hc, Bool.false_and, Bool.false_eq_true, if_false]
    rw [ih (fun d hd => h d (List.mem_cons_of_mem _ hd))]

theorem stripMods_inside (body : List Char) (cl : Char) (rest : List Char)
    (hb : ∀ c ∈ body, isClose c = false) (hcl : isClose cl = true) :
    stripMods true (body ++ cl :: rest) = stripMods false rest := by
  induction body with
  | nil => simp [stripMods, hcl]
  | cons c cs ih =>
    have hc : isClose c = false := hb c List.mem_cons_self
    simp only [List.cons_append, stripMods, hc, Bool.false_eq_true, if_false]
    exact ih (fun d hd => hb d (List.mem_cons_of_mem _ hd))

theorem stripMods_mod (o : Char) (body : List Char) (cl : Char) (rest : List Char)
    (ho : isOpen o = true) (hb : ∀ c ∈ body, isClose c = false) (hcl : isClose cl = true) :
    stripMods false (o :: (body ++ cl :: rest)) = stripMods false rest := by
  have hany : (body ++ cl :: rest).any isClose = true := by
    rw [List.any_eq_true]
    exact ⟨cl, by simp, hcl⟩
  simp only [stripMods, ho, hany, Bool.and_self, if_true]
  exact stripMods_inside body cl rest hb hcl

theorem stripMods_toks (toks : List Tok) (rest : List Char) (hwf : ∀ t ∈ toks, t.wf) :
    stripMods false (toks.flatMap Tok.render ++ rest) = toks.flatMap Tok.plain ++ stripMods false rest := by
  induction toks with
  | nil => rfl
  | cons t ts ih =>
    have ht := hwf t List.mem_cons_self
    have ih' := ih (fun u hu => hwf u (List.mem_cons_of_mem _ hu))
    rw [List.flatMap_cons, List.flatMap_cons, List.append_assoc]
    cases t with
    | res c =>
      have : isOpen c = false := upper_not_open c ht
      simp only [Tok.render, Tok.plain]
      rw [stripMods_noopen [c] _ (by intro d hd; rw [List.mem_singleton.mp hd]; exact this), ih']
      simp
    | low c =>
      have : isOpen c = false := lower_not_open c ht
      simp only [Tok.render, Tok.plain]
      rw [stripMods_noopen [c] _ (by intro d hd; rw [List.mem_singleton.mp hd]; exact this), ih']
      simp
    | mod o body cl =>
      obtain ⟨ho, hcl, hb⟩ := ht
      simp only [Tok.render, Tok.plain, List.nil_append, List.cons_append, List.append_assoc,
        List.nil_append]
      rw [stripMods_mod o body cl _ ho hb hcl, ih']

theorem plain_no_dot (toks : List Tok) (hwf : ∀ t ∈ toks, t.wf) : ∀ c ∈ toks.flatMap Tok.plain, c ≠ '.' := by
  intro c hc
  obtain ⟨t, ht, hct⟩ := List.mem_flatMap.mp hc
  have hw := hwf t ht
  cases t with
  | res d => simp only [Tok.plain, List.mem_singleton] at hct; subst hct; exact upper_ne_dot _ hw
  | low d => simp only [Tok.plain, List.mem_singleton] at hct; subst hct; exact lower_ne_dot _ hw
  | mod o b cl => simp [Tok.plain] at hct

/-! ## flanks -/

theorem afterDot_append (l x : List Char) (h : ∀ c ∈ l, c ≠ '.') : afterDot (l ++ '.' :: x) = some x := by
  induction l with
  | nil => simp [afterDot]
  | cons c cs ih =>
    have hc : c ≠ '.' := h c List.mem_cons_self
    simp only [List.cons_append, afterDot, beq_iff_eq, hc, if_false]
    exact ih (fun d hd => h d (List.mem_cons_of_mem _ hd))

theorem afterDot_none (l : List Char) (h : ∀ c ∈ l, c ≠ '.') : afterDot l = none := by
  induction l with
  | nil => rfl
  | cons c cs ih =>
    have hc : c ≠ '.' := h c List.mem_cons_self
    simp only [afterDot, beq_iff_eq, hc, if_false]
    exact ih (fun d hd => h d (List.mem_cons_of_mem _ hd))

theorem dropRight_append (l x : List Char) (h : ∀ c ∈ l, c ≠ '.') : dropRight (l ++ '.' :: x) = l := by
  unfold dropRight
  rw [List.takeWhile_append_of_pos (by intro a ha; simpa using h a ha)]
  simp

theorem dropRight_id (l : List Char) (h : ∀ c ∈ l, c ≠ '.') : dropRight l = l := by
  unfold dropRight
  induction l with
  | nil => rfl
  | cons c cs ih =>
    have hc : (c != '.') = true := by simpa using h c List.mem_cons_self
    rw [List.takeWhile_cons, hc, if_pos rfl, ih (fun d hd => h d (List.mem_cons_of_mem _ hd))]

/-- the three substitutions leave exactly the unbracketed characters of `SEQ` -/
theorem stripRaw_render (fl : Option (List Char × List Char)) (toks : List Tok)
    (hwf : ∀ t ∈ toks, t.wf) (hfl : flanksOk fl) :
    stripRaw (renderPeptide fl toks) = toks.flatMap Tok.plain := by
  have hnd := plain_no_dot toks hwf
  unfold stripRaw
  cases fl with
  | none =>
    have h := stripMods_toks toks [] hwf
    simp only [List.append_nil, stripMods] at h
    simp only [renderPeptide, h]
    unfold dropLeft
    rw [afterDot_none _ hnd]
    exact dropRight_id _ hnd
  | some lr =>
    obtain ⟨l, r⟩ := lr
    obtain ⟨hl, hr⟩ := hfl
    have hdot : isOpen '.' = false := by decide
    have e1 : renderPeptide (some (l, r)) toks
        = (l ++ ['.']) ++ (toks.flatMap Tok.render ++ ('.' :: r ++ [])) := by
      simp [renderPeptide]
    rw [e1, stripMods_noopen (l ++ ['.']) _ (by
      intro c hc
      rcases List.mem_append.mp hc with hc | hc
      · exact (hl c hc).2.1
      · rw [List.mem_singleton.mp hc]; exact hdot)]
    rw [stripMods_toks toks _ hwf, stripMods_noopen ('.' :: r) [] (by
      intro c hc
      rcases List.mem_cons.mp hc with rfl | hc
      · exact hdot
      · exact (hr c hc).2.1)]
    simp only [stripMods, List.append_nil, List.append_assoc, List.cons_append, List.nil_append]
    unfold dropLeft
    rw [afterDot_append l _ (fun c hc => (hl c hc).1)]
    simp only [Option.getD_some]
    exact dropRight_append _ _ hnd

/-! ## the case rule -/

theorem filter_plain (toks : List Tok) (hwf : ∀ t ∈ toks, t.wf) :
    (toks.flatMap Tok.plain).filter (fun c => !c.isLower) = toks.flatMap Tok.residues := by
  induction toks with
  | nil => rfl
  | cons t ts ih =>
    have ht := hwf t List.mem_cons_self
    rw [List.flatMap_cons, List.flatMap_cons, List.filter_append,
      ih (fun u hu => hwf u (List.mem_cons_of_mem _ hu))]
    congr 1
    cases t with
    | res c => simp [Tok.plain, Tok.residues, upper_not_lower c ht]
    | low c =>
      have : c.isLower = true := ht
      simp [Tok.plain, Tok.residues, this]
    | mod o b cl => simp [Tok.plain, Tok.residues]

theorem caseRule_getElem?_of_not_lower (col : List (List Char)) (i : Nat) (s : List Char)
    (hs : col[i]? = some s) (hnl : isLowerStr s = false) :
    (caseRule col)[i]? = some (s.filter (fun c => !c.isLower)) := by
  unfold caseRule
  have : col.all isLowerStr = false := by
    rw [List.all_eq_false]
    exact ⟨s, List.mem_of_getElem? hs, by simp [hnl]⟩
  simp [this, hs]

theorem strip_wellformed (col : List (List Char)) (i : Nat)
    (fl : Option (List Char × List Char)) (toks : List Tok)
    (hcol : col[i]? = some (renderPeptide fl toks))
    (hwf : ∀ t ∈ toks, t.wf) (hfl : flanksOk fl) (hres : ∃ c, Tok.res c ∈ toks) :
    (stripCol col)[i]? = some (toks.flatMap Tok.residues) := by
  unfold stripCol
  have h1 : (col.map stripRaw)[i]? = some (toks.flatMap Tok.plain) := by
    rw [List.getElem?_map, hcol, Option.map_some, stripRaw_render fl toks hwf hfl]
  have hnl : isLowerStr (toks.flatMap Tok.plain) = false := by
    obtain ⟨c, hc⟩ := hres
    unfold isLowerStr
    have : (toks.flatMap Tok.plain).any Char.isUpper = true := by
      rw [List.any_eq_true]
      exact ⟨c, List.mem_flatMap.mpr ⟨_, hc, by simp [Tok.plain]⟩, hwf _ hc⟩
    simp [this]
  rw [caseRule_getElem?_of_not_lower _ i _ h1 hnl, filter_plain toks hwf]

/-- lower-case notation: a column in which every peptide is written in lower case -/
def LowerSpec (s : Option (List Char × List Char) × List Tok) : Prop :=
  (∀ t ∈ s.2, t.wf) ∧ flanksOk s.1 ∧ (∀ t ∈ s.2, ∀ c, t ≠ Tok.res c) ∧ (∃ c, Tok.low c ∈ s.2)

theorem strip_all_lower (specs : List (Option (List Char × List Char) × List Tok))
    (h : ∀ s ∈ specs, LowerSpec s) :
    stripCol (specs.map (fun s => renderPeptide s.1 s.2))
      = specs.map (fun s => (s.2.flatMap Tok.plain).map Char.toUpper) := by
  unfold stripCol
  have h1 : (specs.map (fun s => renderPeptide s.1 s.2)).map stripRaw
      = specs.map (fun s => s.2.flatMap Tok.plain) := by
    rw [List.map_map]
    apply List.map_congr_left
    intro s hs
    exact stripRaw_render s.1 s.2 (h s hs).1 (h s hs).2.1
  rw [h1]
  unfold caseRule
  have hall : (specs.map (fun s => s.2.flatMap Tok.plain)).all isLowerStr = true := by
    rw [List.all_eq_true]
    intro x hx
    obtain ⟨s, hs, rfl⟩ := List.mem_map.mp hx
    obtain ⟨hwf, _, hnores, ⟨c, hc⟩⟩ := h s hs
    unfold isLowerStr
    have hlow : (s.2.flatMap Tok.plain).any Char.isLower = true := by
      rw [List.any_eq_true]
      exact ⟨c, List.mem_flatMap.mpr ⟨_, hc, by simp [Tok.plain]⟩, hwf _ hc⟩
    have hup : (s.2.flatMap Tok.plain).any Char.isUpper = false := by
      rw [List.any_eq_false]
      intro d hd
      obtain ⟨t, ht, hdt⟩ := List.mem_flatMap.mp hd
      cases t with
      | res e => exact absurd rfl (hnores _ ht e)
      | low e =>
        simp only [Tok.plain, List.mem_singleton] at hdt
        subst hdt
        simp [lower_not_upper d (hwf _ ht)]
      | mod o b cl => simp [Tok.plain] at hdt
    simp [hlow, hup]
  simp [hall]

end Mk.Picked
