import MokapotVerif.Lemmas.PepxmlFeat
import Mathlib.Tactic.Linarith
/-!
# Options of `read_pepxml`: `exclude_features`, `open_modification_bin_size`, `feat_cols`
-/
namespace Mk.Pepxml

/-! ### floor, rounding -/

theorem ratAbs_le_iff (x d : Rat) : ratAbs x ≤ d ↔ -d ≤ x ∧ x ≤ d := by
  unfold ratAbs
  by_cases hx : x < 0
  · rw [if_pos hx]
    constructor
    · intro h; constructor <;> linarith
    · intro h; linarith [h.1, h.2]
  · rw [if_neg hx]
    have hx' : 0 ≤ x := not_lt.mp hx
    constructor
    · intro h; constructor <;> linarith
    · intro h; linarith [h.1, h.2]

theorem cast_floor_add_one (x : Rat) : ((x.floor + 1 : Int) : Rat) = (x.floor : Rat) + 1 := by
  push_cast; ring

theorem lt_floor_add_one' (x : Rat) : x < (x.floor : Rat) + 1 := by
  have := Rat.lt_floor_add_one x
  rwa [cast_floor_add_one] at this

/-- the rounded value is within one half -/
theorem roundHalfEven_close (x : Rat) :
    (roundHalfEven x : Rat) - 1 / 2 ≤ x ∧ x ≤ (roundHalfEven x : Rat) + 1 / 2 := by
  have h1 := Rat.floor_le x
  have h2 := lt_floor_add_one' x
  unfold roundHalfEven
  split_ifs with a b c
  · constructor <;> linarith
  · constructor <;> (push_cast; linarith)
  · constructor <;> linarith
  · constructor <;> (push_cast; linarith)

/-- an integer strictly within one half of `x` is the rounded value -/
theorem roundHalfEven_of_near (x : Rat) (z : Int) (h1 : (z : Rat) - 1 / 2 < x) (h2 : x < (z : Rat) + 1 / 2) :
    roundHalfEven x = z := by
  have hc := roundHalfEven_close x
  have ha : ((roundHalfEven x : Int) : Rat) < (z : Rat) + 1 := by linarith [hc.1]
  have hb : (z : Rat) < ((roundHalfEven x : Int) : Rat) + 1 := by linarith [hc.2]
  have ha' : roundHalfEven x < z + 1 := by exact_mod_cast ha
  have hb' : z < roundHalfEven x + 1 := by exact_mod_cast hb
  omega

theorem roundHalfEven_mono (x y : Rat) (h : x ≤ y) : roundHalfEven x ≤ roundHalfEven y := by
  by_contra hlt
  have hlt' : roundHalfEven y + 1 ≤ roundHalfEven x := by omega
  have hq : ((roundHalfEven y : Int) : Rat) + 1 ≤ (roundHalfEven x : Rat) := by exact_mod_cast hlt'
  have hx := (roundHalfEven_close x).1
  have hy := (roundHalfEven_close y).2
  have hxy : x = y := by linarith
  subst hxy
  omega

theorem round4_close (x : Rat) : round4 x - 1 / 20000 ≤ x ∧ x ≤ round4 x + 1 / 20000 := by
  have h := roundHalfEven_close (x * 10000)
  unfold round4
  constructor <;> linarith [h.1, h.2]

theorem round4_mono (x y : Rat) (h : x ≤ y) : round4 x ≤ round4 y := by
  unfold round4
  have : roundHalfEven (x * 10000) ≤ roundHalfEven (y * 10000) :=
    roundHalfEven_mono _ _ (by linarith)
  have hq : ((roundHalfEven (x * 10000) : Int) : Rat) ≤ (roundHalfEven (y * 10000) : Rat) := by
    exact_mod_cast this
  linarith

/-! ### bins -/

theorem binIdx_spec (lo b md : Rat) (hb : 0 < b) :
    binStart lo b (binIdx lo b md) ≤ md ∧ md < binStart lo b (binIdx lo b md + 1) := by
  unfold binStart binIdx
  have h1 := Rat.floor_le ((md - lo) / b)
  have h2 := lt_floor_add_one' ((md - lo) / b)
  rw [le_div_iff₀ hb] at h1
  rw [div_lt_iff₀ hb] at h2
  constructor
  · linarith
  · push_cast; linarith

theorem binIdx_unique (lo b md : Rat) (hb : 0 < b) (j : Int)
    (h1 : binStart lo b j ≤ md) (h2 : md < binStart lo b (j + 1)) : j = binIdx lo b md := by
  unfold binStart at h1 h2
  unfold binIdx
  have ha : (j : Rat) ≤ (md - lo) / b := by rw [le_div_iff₀ hb]; linarith
  have hc : (md - lo) / b < ((j + 1 : Int) : Rat) := by rw [div_lt_iff₀ hb]; linarith
  have h3 : j ≤ ((md - lo) / b).floor := Rat.le_floor_iff.mpr ha
  have h4 : ((md - lo) / b).floor < j + 1 := Rat.floor_lt_iff.mpr hc
  omega

theorem binIdx_mono (lo b x y : Rat) (hb : 0 < b) (h : x ≤ y) : binIdx lo b x ≤ binIdx lo b y := by
  unfold binIdx
  apply Rat.le_floor_iff.mpr
  have h1 := Rat.floor_le ((x - lo) / b)
  have : (x - lo) / b ≤ (y - lo) / b := by
    rw [div_le_div_iff_of_pos_right hb]; linarith
  linarith

theorem binIdx_nonneg (lo b md : Rat) (hb : 0 < b) (h : lo ≤ md) : 0 ≤ binIdx lo b md := by
  unfold binIdx
  apply Rat.le_floor_iff.mpr
  have : 0 ≤ (md - lo) / b := div_nonneg (by linarith) hb.le
  simpa using this

theorem binIdx_lt_nBins (lo hi b md : Rat) (hb : 0 < b) (h : md ≤ hi) : binIdx lo b md < nBins lo hi b := by
  unfold binIdx nBins
  have h1 := Rat.floor_le ((md - lo) / b)
  have h2 : (hi + b - lo) / b ≤ (((hi + b - lo) / b).ceil : Rat) := Rat.le_ceil
  have h3 : (md - lo) / b < (hi + b - lo) / b := by
    rw [div_lt_div_iff_of_pos_right hb]; linarith
  have : ((((md - lo) / b).floor : Int) : Rat) < (((hi + b - lo) / b).ceil : Rat) := by linarith
  exact_mod_cast this

/-- the bin centre is within half a bin of the mass difference -/
theorem centre_close (lo b md : Rat) (hb : 0 < b) :
    ratAbs (md - (binStart lo b (binIdx lo b md) + b / 2)) ≤ b / 2 := by
  obtain ⟨h1, h2⟩ := binIdx_spec lo b md hb
  rw [ratAbs_le_iff]
  unfold binStart at *
  push_cast at h2
  constructor <;> linarith

theorem openModTag_close (b : Rat) (mds : List Rat) (md : Rat) (hb : 0 < b) :
    ratAbs (md - openModTag b mds md) ≤ b / 2 + 1 / 20000 := by
  have hc := centre_close (minRat mds) b md hb
  rw [ratAbs_le_iff] at hc ⊢
  unfold openModTag
  have hr := round4_close (binStart (minRat mds) b (binIdx (minRat mds) b md) + b / 2)
  constructor <;> linarith [hc.1, hc.2, hr.1, hr.2]

theorem openModTag_mono (b : Rat) (mds : List Rat) (x y : Rat) (hb : 0 < b) (h : x ≤ y) :
    openModTag b mds x ≤ openModTag b mds y := by
  unfold openModTag
  apply round4_mono
  have := binIdx_mono (minRat mds) b x y hb h
  have hq : ((binIdx (minRat mds) b x : Int) : Rat) ≤ (binIdx (minRat mds) b y : Rat) := by exact_mod_cast this
  unfold binStart
  have := mul_le_mul_of_nonneg_right hq hb.le
  linarith

/-! ### feature list -/

theorem charge_name_not_fixed (s : String) : "charge_" ++ s ∉ fixedCols := by
  intro h
  have key : ∀ t : String, "charge_" ++ s = t → ("charge_" ++ s).toList = t.toList := fun t e => by rw [e]
  simp only [fixedCols, List.mem_cons, List.not_mem_nil, or_false] at h
  rcases h with h | h | h | h | h | h | h | h | h <;>
    · have := key _ h
      simp [String.toList_append] at this

theorem mass_names_not_fixed : "mass_diff" ∉ fixedCols ∧ "abs_mz_diff" ∉ fixedCols := by decide

theorem isFeat_eq (excl : List String) (k : String) (hk : k ∉ fixedCols) :
    isFeat excl k = !excl.contains k := by
  simp [isFeat, nonfeatCols, hk]

theorem isFeat_nil (k : String) (hk : k ∉ fixedCols) : isFeat [] k = true := by
  rw [isFeat_eq [] k hk]; rfl

theorem isFeat_fixed (excl : List String) (k : String) (hk : k ∈ fixedCols) : isFeat excl k = false := by
  simp [isFeat, nonfeatCols, hk]

theorem isFeat_iff (excl : List String) (k : String) :
    isFeat excl k = true ↔ k ∉ nonfeatCols excl := by
  simp [isFeat]

theorem filter_fixed_nil (excl : List String) : fixedCols.filter (isFeat excl) = [] := by
  rw [List.filter_eq_nil_iff]
  intro k hk
  simp [isFeat_fixed excl k hk]

theorem postProcessX_featCols (excl : List String) (bin : Option Rat) (fr : Frame) :
    (postProcessX excl bin fr).featCols = (featNames fr).filter (isFeat excl) := by
  simp [postProcessX, List.filter_append, filter_fixed_nil]

theorem postProcessX_names (excl : List String) (bin : Option Rat) (fr : Frame) :
    (postProcessX excl bin fr).feats.map (·.1) = featNames fr := by
  simp [postProcessX, featNames, featColX, massColX, chargeColX, List.map_map, Function.comp_def]

theorem featNames_eq (fr : Frame) : featNames fr = (postProcess fr).feats.map (·.1) :=
  (postProcess_names fr).symm

/-! ### column by column -/

/-- what the option does to one column of the default table -/
def ColRel (excl : List String) (kc : String × List FV) (kx : String × List XV) : Prop :=
  kx.1 = kc.1 ∧ (isFeat excl kc.1 = true → kx.2 = kc.2.map XV.fv)

theorem forall₂_map_map {α β γ : Type} (R : β → γ → Prop) (f : α → β) (g : α → γ) (l : List α)
    (h : ∀ a ∈ l, R (f a) (g a)) : List.Forall₂ R (l.map f) (l.map g) := by
  induction l with
  | nil => exact List.Forall₂.nil
  | cons a l ih =>
    exact List.Forall₂.cons (h a (by simp)) (ih (fun b hb => h b (by simp [hb])))

theorem forall₂_append' {β γ : Type} (R : β → γ → Prop) (a₁ a₂ : List β) (b₁ b₂ : List γ)
    (h1 : List.Forall₂ R a₁ b₁) (h2 : List.Forall₂ R a₂ b₂) : List.Forall₂ R (a₁ ++ a₂) (b₁ ++ b₂) := by
  induction h1 with
  | nil => exact h2
  | cons h _ ih => exact List.Forall₂.cons h ih

theorem forall₂_imp' {β γ : Type} (R S : β → γ → Prop) (h : ∀ a b, R a b → S a b) (l₁ : List β) (l₂ : List γ)
    (h2 : List.Forall₂ R l₁ l₂) : List.Forall₂ S l₁ l₂ := by
  induction h2 with
  | nil => exact List.Forall₂.nil
  | cons hab _ ih => exact List.Forall₂.cons (h _ _ hab) ih

theorem postProcessX_columnwise (excl : List String) (bin : Option Rat) (fr : Frame) :
    List.Forall₂ (ColRel excl) (postProcess fr).feats (postProcessX excl bin fr).feats := by
  unfold postProcess postProcessX
  simp only []
  apply forall₂_append'
  · apply forall₂_map_map
    intro k _
    refine ⟨rfl, ?_⟩
    intro hf
    simp only [featColX, featCol] at hf ⊢
    rw [if_pos hf]
  · apply forall₂_append'
    · refine List.Forall₂.cons ⟨rfl, ?_⟩ (List.Forall₂.cons ⟨rfl, ?_⟩ List.Forall₂.nil)
      · intro hf
        simp only [massColX] at hf ⊢
        rw [if_pos hf, List.map_map]; rfl
      · intro hf
        simp only [massColX] at hf ⊢
        rw [if_pos hf, List.map_map]; rfl
    · apply forall₂_map_map
      intro z _
      refine ⟨rfl, ?_⟩
      intro hf
      simp only [chargeColX, chargeCol] at hf ⊢
      rw [if_pos hf]

/-- with the default options the extended post-processing is the default one -/
theorem postProcessX_default (fr : Frame) (hfix : ∀ k ∈ fr.cols, k ∉ fixedCols) :
    (postProcessX [] none fr).feats = (postProcess fr).feats.map liftCol ∧
    (postProcessX [] none fr).rows = fr.rows.map (fun r => { row := r, tag := none }) := by
  constructor
  · have h1 : fr.cols.map (featColX [] fr.rows) = (fr.cols.map (featCol fr.rows)).map liftCol := by
      rw [List.map_map]
      apply List.map_congr_left
      intro k hk
      simp [featColX, isFeat_nil k (hfix k hk), liftCol, featCol]
    have h2 : (chargeLevels (fr.rows.map (·.charge))).map (chargeColX [] fr.rows)
        = ((chargeLevels (fr.rows.map (·.charge))).map (chargeCol fr.rows)).map liftCol := by
      rw [List.map_map]
      apply List.map_congr_left
      intro z _
      have hz := isFeat_nil _ (charge_name_not_fixed (toString z))
      simp only [chargeColX, hz, if_true, liftCol, chargeCol, Function.comp_apply]
    have h3 : ∀ (name : String) (vals : List Rat), name ∉ fixedCols →
        massColX [] name vals = liftCol (name, logFeature (vals.map (fun v => some (reprNum v)))) := by
      intro name vals hn
      simp [massColX, isFeat_nil name hn, liftCol]
    unfold postProcess postProcessX
    simp only [List.map_append, List.map_cons, List.map_nil]
    rw [h1, h2, h3 _ _ mass_names_not_fixed.1, h3 _ _ mass_names_not_fixed.2]
    simp [List.map_map, Function.comp_def]
  · simp [postProcessX, tagRows]

theorem postProcessX_rows (excl : List String) (bin : Option Rat) (fr : Frame) :
    (postProcessX excl bin fr).rows.map (·.row) = fr.rows := by
  simp [postProcessX, tagRows, List.map_map, Function.comp_def]

/-- an excluded dict-made column keeps the values of the PSM dicts -/
theorem postProcessX_excluded (excl : List String) (bin : Option Rat) (fr : Frame) (k : String)
    (hk : k ∈ fr.cols) (hx : isFeat excl k = false) (hnm : k ≠ "num_matched_peptides") :
    (k, fr.rows.map (fun r => XV.cell (r.feats.lookup k))) ∈ (postProcessX excl bin fr).feats := by
  simp only [postProcessX, List.mem_append, List.mem_map]
  left
  exact ⟨k, hk, by simp [featColX, hx, rawFeat, hnm]⟩

/-! ### the reader with options -/

/-- the frame both variants post-process (or the error both raise) -/
def readFrame (pfx : Str) (files : List File) : Except Err Frame :=
  (parseFiles pfx files).bind (fun frs =>
    if frs.isEmpty then .error .noFiles
    else if illegalCols.any (fun c => (concatFrames frs).cols.contains c) then .error .percolator
    else .ok (concatFrames frs))

theorem readPepxml_eq_readFrame (pfx : Str) (files : List File) :
    readPepxml pfx files = (readFrame pfx files).map postProcess := by
  unfold readPepxml readFrame checkFrames
  cases parseFiles pfx files with
  | error e => rfl
  | ok frs =>
    simp only [Except.bind]
    split_ifs <;> rfl

theorem readPepxmlX_eq_readFrame (pfx : Str) (excl : List String) (bin : Option Rat) (files : List File) :
    readPepxmlX pfx excl bin files = (readFrame pfx files).map (postProcessX excl bin) := by
  unfold readPepxmlX readFrame checkFramesX
  cases parseFiles pfx files with
  | error e => rfl
  | ok frs =>
    simp only [Except.bind]
    split_ifs <;> rfl

end Mk.Pepxml
