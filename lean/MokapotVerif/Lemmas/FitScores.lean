import MokapotVerif.Lemmas.FitPredict
/-!
# Lemmas about `_get_scores` (`getScores`) and `Model.decision_function` with a scaler (`predictScaled`)
-/
namespace Mk.Fit
variable {α β γ ν : Type}

/-- a `filterMap` whose function succeeds on every element keeps the positions -/
theorem filterMap_getElem?_of_isSome (g : β → Option γ) :
    ∀ (rows : List β), (∀ r ∈ rows, (g r).isSome) → ∀ i : Nat, (rows.filterMap g)[i]? = (rows[i]?).bind g := by
  intro rows
  induction rows with
  | nil => intro _ i; simp
  | cons r rest ih =>
    intro h i
    obtain ⟨v, hv⟩ := Option.isSome_iff_exists.mp (h r (by simp))
    rw [List.filterMap_cons_some hv]
    cases i with
    | zero => simp [hv]
    | succ k =>
      simp only [List.getElem?_cons_succ]
      exact ih (fun r' hr' => h r' (by simp [hr'])) k

theorem filterMap_length_of_isSome (g : β → Option γ) :
    ∀ (rows : List β), (∀ r ∈ rows, (g r).isSome) → (rows.filterMap g).length = rows.length := by
  intro rows
  induction rows with
  | nil => intro _; rfl
  | cons r rest ih =>
    intro h
    obtain ⟨v, hv⟩ := Option.isSome_iff_exists.mp (h r (by simp))
    rw [List.filterMap_cons_some hv]
    simp [ih (fun r' hr' => h r' (by simp [hr']))]

/-- taking rows commutes with taking a column that every row has -/
theorem colOf_gather (j : Nat) (rows : List (List α)) (idx : List Nat) (h : ∀ r ∈ rows, j < r.length) :
    colOf j (gather rows idx) = gather (colOf j rows) idx := by
  have hs : ∀ r ∈ rows, (r[j]?).isSome := by
    intro r hr
    rw [List.getElem?_eq_getElem (h r hr)]
    rfl
  unfold colOf gather
  rw [List.filterMap_filterMap]
  apply List.filterMap_congr
  intro i _
  rw [filterMap_getElem?_of_isSome _ rows hs i]

theorem colOf_length (j : Nat) (rows : List (List α)) (h : ∀ r ∈ rows, j < r.length) :
    (colOf j rows).length = rows.length := by
  apply filterMap_length_of_isSome
  intro r hr
  rw [List.getElem?_eq_getElem (h r hr)]
  rfl

theorem colOf_getElem? (j : Nat) (rows : List (List α)) (h : ∀ r ∈ rows, j < r.length) (i : Nat) :
    (colOf j rows)[i]? = (rows[i]?).bind (fun r => r[j]?) := by
  apply filterMap_getElem?_of_isSome
  intro r hr
  rw [List.getElem?_eq_getElem (h r hr)]
  rfl

theorem colOf_map_cons2 (feat : List β) (neg pos : β → α) (extra : β → List α) :
    colOf 1 (feat.map (fun r => neg r :: pos r :: extra r)) = feat.map pos := by
  unfold colOf
  induction feat with
  | nil => rfl
  | cons r rest ih => simp [ih]

theorem colOf_map_single (feat : List β) (pos : β → α) :
    colOf 0 (feat.map (fun r => [pos r])) = feat.map pos := by
  unfold colOf
  induction feat with
  | nil => rfl
  | cons r rest ih => simp [ih]

/-- the result of the `predict_proba` branch, entry by entry -/
theorem probaScores_spec (n : Nat) (p : ProbaOut α) (hwf : p.WF n) (s : List α) (h : probaScores p = .ok s) :
    s.length = n ∧ ∀ i : Nat, s[i]? = scoreAt.probaAt p i := by
  cases p with
  | vec v =>
    simp only [probaScores, Except.ok.injEq] at h
    subst h
    exact ⟨hwf, fun i => rfl⟩
  | mat w rows =>
    obtain ⟨hn, hw⟩ := hwf
    simp only [probaScores] at h
    split at h
    · rename_i h1
      simp only [Except.ok.injEq] at h
      subst h
      have hlt : ∀ r ∈ rows, 0 < r.length := fun r hr => by rw [hw r hr, h1]; omega
      refine ⟨by rw [colOf_length 0 rows hlt, hn], fun i => ?_⟩
      rw [colOf_getElem? 0 rows hlt i]
      simp [scoreAt.probaAt, h1]
    · rename_i h1
      split at h
      · simp at h
      · rename_i h0
        simp only [Except.ok.injEq] at h
        subst h
        have hlt : ∀ r ∈ rows, 1 < r.length := fun r hr => by rw [hw r hr]; omega
        refine ⟨by rw [colOf_length 1 rows hlt, hn], fun i => ?_⟩
        rw [colOf_getElem? 1 rows hlt i]
        simp [scoreAt.probaAt, h1]
  | higher => simp [probaScores] at h

theorem probaScores_gatherRows (n : Nat) (p : ProbaOut α) (hwf : p.WF n) (idx : List Nat) :
    probaScores (p.gatherRows idx) = (probaScores p).map (fun s => gather s idx) := by
  cases p with
  | vec v => rfl
  | mat w rows =>
    obtain ⟨_, hw⟩ := hwf
    simp only [ProbaOut.gatherRows, probaScores]
    split
    · rename_i h1
      rw [colOf_gather 0 rows idx (fun r hr => by rw [hw r hr, h1]; omega)]
      rfl
    · split
      · rfl
      · rw [colOf_gather 1 rows idx (fun r hr => by rw [hw r hr]; omega)]
        rfl
  | higher => rfl

/-! ### the scaler -/

theorem predictScaled_perm [DecidableEq ν] (trained : Bool) (transform : List (List β) → List (List β))
    (score : List β → α) (stored : List ν) (n : Nat) {cols cols' : List (ν × List β)} (h : cols'.Perm cols)
    (hnd : (cols.map (·.1)).Nodup) :
    predictScaled trained transform score stored n cols' = predictScaled trained transform score stored n cols := by
  unfold predictScaled
  rw [selectByName_perm stored h hnd]

end Mk.Fit
