import MokapotVerif.Lemmas.TabularWriter
/-!
# Lemmas on the readers (C13): base readers, renaming, computed column
-/
namespace Mk.Tabular
variable {α β γ : Type}

/-! ## rows -/

theorem mem_keys_of_lookup {r : Row β} {c : Name} {v : β} (h : r.lookup c = some v) : c ∈ rowKeys r := by
  induction r with
  | nil => simp at h
  | cons p r ih =>
    obtain ⟨k, w⟩ := p
    by_cases hk : c = k
    · subst hk; simp [rowKeys]
    · rw [lookup_cons_ne' c k w r hk] at h
      have := ih h
      simp only [rowKeys, List.map_cons, List.mem_cons] at this ⊢
      exact Or.inr this

theorem lookup_isSome_of_mem_keys {r : Row β} {c : Name} (h : c ∈ rowKeys r) : ∃ v, r.lookup c = some v := by
  induction r with
  | nil => simp [rowKeys] at h
  | cons p r ih =>
    obtain ⟨k, w⟩ := p
    by_cases hk : c = k
    · subst hk; exact ⟨w, by simp⟩
    · rw [lookup_cons_ne' c k w r hk]
      apply ih
      simp only [rowKeys, List.map_cons, List.mem_cons] at h
      rcases h with h | h
      · exact absurd h hk
      · exact h

/-- `usecols` does not change what a requested column holds -/
theorem lookup_usecols (cs : List Name) (r : Row β) (c : Name) (hc : c ∈ cs) :
    (usecols cs r).lookup c = r.lookup c := by
  induction r with
  | nil => rfl
  | cons p r ih =>
    obtain ⟨k, w⟩ := p
    unfold usecols at ih ⊢
    by_cases hk : c = k
    · subst hk
      simp [List.filter_cons, hc]
    · rw [lookup_cons_ne' c k w r hk, List.filter_cons]
      split
      · rw [lookup_cons_ne' c k w _ hk]; exact ih
      · exact ih

theorem reorder_congr (cs : List Name) (r r' : Row β) (h : ∀ c ∈ cs, r.lookup c = r'.lookup c) :
    reorder cs r = reorder cs r' := by
  unfold reorder
  induction cs with
  | nil => rfl
  | cons c cs ih =>
    simp only [List.filterMap_cons, h c (by simp)]
    rw [ih (fun d hd => h d (List.mem_cons_of_mem _ hd))]

/-- `usecols=columns` followed by `[columns]` is `[columns]` -/
theorem reorder_csvUse (cs : List Name) (r : Row β) : reorder cs (csvUse cs r) = reorder cs r := by
  unfold csvUse
  split
  · rename_i h
    have : cs = [] := by simpa using h
    subst this; rfl
  · exact reorder_congr cs _ _ (fun c hc => lookup_usecols cs r c hc)

theorem csvPick_eq_pick (cols : Option (List Name)) (r : Row β) : csvPick cols r = pick cols r := by
  cases cols with
  | none => rfl
  | some cs => exact reorder_csvUse cs r

/-- keys of a selection are the selection, when every column is present -/
theorem reorder_keys (cs : List Name) (r : Row β) (h : ∀ c ∈ cs, c ∈ rowKeys r) :
    rowKeys (reorder cs r) = cs := by
  unfold reorder rowKeys
  induction cs with
  | nil => rfl
  | cons c cs ih =>
    obtain ⟨v, hv⟩ := lookup_isSome_of_mem_keys (h c (by simp))
    simp only [List.filterMap_cons, hv, Option.map_some, List.map_cons]
    rw [ih (fun d hd => h d (List.mem_cons_of_mem _ hd))]

/-- a selected column holds what it held in the row -/
theorem lookup_reorder (cs : List Name) (r : Row β) (c : Name) (hc : c ∈ cs) :
    (reorder cs r).lookup c = r.lookup c := by
  unfold reorder
  induction cs with
  | nil => simp at hc
  | cons d cs ih =>
    simp only [List.filterMap_cons]
    by_cases hd : c = d
    · subst hd
      cases hv : r.lookup c with
      | none =>
        simp only [Option.map_none]
        by_cases hc' : c ∈ cs
        · rw [ih hc', hv]
        · rw [List.lookup_eq_none_iff]
          intro p hp
          obtain ⟨e, he, hpe⟩ := List.mem_filterMap.mp hp
          cases hl : r.lookup e with
          | none => simp [hl] at hpe
          | some v =>
            simp only [hl, Option.map_some, Option.some.injEq] at hpe
            subst hpe
            simp only [bne_iff_ne, ne_eq]
            rintro rfl
            exact hc' he
      | some v => simp
    · have hc' : c ∈ cs := by
        rcases List.mem_cons.mp hc with h | h
        · exact absurd h hd
        · exact h
      cases hv : r.lookup d with
      | none => simpa using ih hc'
      | some v =>
        simp only [Option.map_some]
        rw [lookup_cons_ne' c d v _ hd]
        exact ih hc'

theorem lookup_reorder_not_mem (cs : List Name) (r : Row β) (c : Name) (hc : c ∉ cs) :
    (reorder cs r).lookup c = none := by
  rw [List.lookup_eq_none_iff]
  intro p hp
  obtain ⟨e, he, hpe⟩ := List.mem_filterMap.mp hp
  cases hl : r.lookup e with
  | none => simp [hl] at hpe
  | some v =>
    simp only [hl, Option.map_some, Option.some.injEq] at hpe
    subst hpe
    simp only [bne_iff_ne, ne_eq]
    rintro rfl
    exact hc he

/-- selecting all columns of a row with distinct keys, in order, is the identity -/
theorem reorder_self (r : Row β) (h : (rowKeys r).Nodup) : reorder (rowKeys r) r = r := by
  induction r with
  | nil => rfl
  | cons p r ih =>
    obtain ⟨k, v⟩ := p
    have h' : k ∉ rowKeys r ∧ (rowKeys r).Nodup := by simpa [rowKeys] using h
    have hk : rowKeys ((k, v) :: r) = k :: rowKeys r := rfl
    rw [hk]
    unfold reorder
    simp only [List.filterMap_cons, List.lookup_cons_self, Option.map_some]
    congr 1
    have := reorder_congr (rowKeys r) ((k, v) :: r) r (fun c hc => by
      apply lookup_cons_ne'
      rintro rfl
      exact h'.1 hc)
    unfold reorder at this ih
    rw [this, ih h'.2]

theorem hasAll_iff (names cs : List Name) : hasAll names cs = true ↔ ∀ c ∈ cs, c ∈ names := by
  simp [hasAll]

theorem filter_contains_self (names cs : List Name) (h : hasAll names cs = true) :
    cs.filter (fun c => names.contains c) = cs := by
  rw [List.filter_eq_self]
  intro c hc
  simpa using (hasAll_iff names cs).mp h c hc

/-- selecting twice is selecting once -/
theorem reorder_idem (cs : List Name) (r : Row β) : reorder cs (reorder cs r) = reorder cs r :=
  reorder_congr cs _ _ (fun c hc => lookup_reorder cs r c hc)

theorem pqPick_eq_pick (header : List Name) (cols : Option (List Name)) (r : Row β)
    (h : colsOK header cols = true) : pqPick header cols r = pick cols r := by
  cases cols with
  | none => rfl
  | some cs =>
    simp only [pqPick, pick, Option.elim_some, pqBatchCols]
    split
    · rename_i he
      have : cs = [] := by simpa using he
      subst this; rfl
    · rw [filter_contains_self header cs h, reorder_idem]

theorem mem_zip_self (l : List α) (q : α × α) (hq : q ∈ l.zip l) : q.1 = q.2 := by
  induction l with
  | nil => simp at hq
  | cons x xs ih =>
    simp only [List.zip_cons_cons, List.mem_cons] at hq
    rcases hq with rfl | hq
    · rfl
    · exact ih hq

/-! ## `splitDF` -/

theorem splitDF_flatten (e : Bool) (c : Nat) (hc : 1 ≤ c) (d : DF β) :
    (splitDF e c d).flatMap (fun ch => ch.rows) = d.rows := by
  unfold splitDF
  by_cases h : d.rows = []
  · simp only [h, List.isEmpty_nil, if_true]
    cases e <;> simp [h]
  · have : d.rows.isEmpty = false := by
      cases hh : d.rows with
      | nil => exact absurd hh h
      | cons _ _ => rfl
    simp only [this, Bool.false_eq_true, if_false, List.flatMap_def, List.map_map]
    have := chunks_flatten c hc d.rows
    simpa [Function.comp_def] using this

theorem splitDF_names (e : Bool) (c : Nat) (d : DF β) : ∀ ch ∈ splitDF e c d, ch.names = d.names := by
  unfold splitDF
  intro ch hch
  split at hch
  · split at hch
    · simp at hch; rw [hch]
    · simp at hch
  · obtain ⟨x, _, rfl⟩ := List.mem_map.mp hch
    rfl

theorem splitDF_sizes (e : Bool) (c : Nat) (hc : 1 ≤ c) (d : DF β) :
    ∀ ch ∈ splitDF e c d, ch.rows.length ≤ c := by
  unfold splitDF
  intro ch hch
  split at hch
  · rename_i h
    split at hch
    · simp at hch
      have : d.rows = [] := by simpa using h
      rw [hch, this]; simp
    · simp at hch
  · obtain ⟨x, hx, rfl⟩ := List.mem_map.mp hch
    exact (chunks_length_bounds c hc d.rows x hx).2

/-- splitting commutes with any row-wise transformation and change of header -/
theorem splitDF_mapRows (e : Bool) (c : Nat) (hc : 1 ≤ c) (d : DF β) (ns : List Name) (g : IRow β → IRow β) :
    splitDF e c ⟨ns, d.rows.map g⟩ = (splitDF e c d).map (fun ch => ⟨ns, ch.rows.map g⟩) := by
  unfold splitDF
  by_cases h : d.rows = []
  · simp only [h, List.map_nil, List.isEmpty_nil, if_true]
    cases e <;> simp [h]
  · have : d.rows.isEmpty = false := by
      cases hh : d.rows with
      | nil => exact absurd hh h
      | cons _ _ => rfl
    simp only [List.isEmpty_map, this, Bool.false_eq_true, if_false, chunks_map c hc, List.map_map]
    rfl

/-! ## the in-memory reader -/

theorem selectDF_none (t : DF β) : selectDF none t = t := by
  unfold selectDF outNames pick
  cases t
  simp

theorem frameReader_readsTable (d : DF β) : ReadsTable (frameReader d) d true where
  names := rfl
  read := by
    intro cols h _
    simp [frameReader, frameRead, h]
  readNone := by simp

theorem frameReader_chunkOK (d : DF β) : ChunkOK (frameReader d) := by
  intro c hc cols F hF
  refine ⟨false, ?_⟩
  simp only [frameReader, frameRead] at hF ⊢
  split at hF
  · rename_i hok
    cases hF
    have hc0 : c ≠ 0 := by omega
    simp only [frameChunked, hc0, if_false, hok, if_true]
    by_cases hr : d.rows = []
    · simp [hr, splitDF, selectDF]
    · have : d.rows.isEmpty = false := by
        cases hh : d.rows with
        | nil => exact absurd hh hr
        | cons _ _ => rfl
      simp only [this, Bool.false_eq_true, if_false, splitDF, selectDF, List.isEmpty_map,
        chunks_map c hc, chunks_eq_slices c hc d.rows, framePositions, List.map_map]
      rfl
  · cases hF

/-! ## the text reader -/

/-- the table held by a text file: header, rows labelled `0, 1, …` -/
def CsvFile.table (f : CsvFile β) : DF β := ⟨f.header, indexFrom 0 f.rows⟩

theorem csvRead_eq (f : CsvFile β) (hne : f.header ≠ []) (cols : Option (List Name)) :
    csvRead f cols = if colsOK f.header cols then some (selectDF cols f.table) else none := by
  have : f.header.isEmpty = false := by
    cases hh : f.header with
    | nil => exact absurd hh hne
    | cons _ _ => rfl
  simp only [csvRead, csvOK, this, Bool.not_false, Bool.true_and, selectDF, CsvFile.table, csvPick_eq_pick]

theorem csvReader_readsTable (f : CsvFile β) (hne : f.header ≠ []) :
    ReadsTable (csvReader f) f.table true where
  names := rfl
  read := by
    intro cols h _
    simp only [csvReader, csvRead_eq f hne, CsvFile.table] at h ⊢
    simp [h]
  readNone := by simp

theorem csvReader_chunkOK (f : CsvFile β) : ChunkOK (csvReader f) := by
  intro c hc cols F hF
  refine ⟨true, ?_⟩
  simp only [csvReader, csvRead] at hF ⊢
  split at hF
  · rename_i hok
    cases hF
    have hc0 : c ≠ 0 := by omega
    simp only [csvChunked, hc0, if_false, hok, if_true, csvChunkRows_eq c hc]
    by_cases hr : f.rows = []
    · simp [hr, splitDF, indexFrom]
    · have h1 : f.rows.isEmpty = false := by
        cases hh : f.rows with
        | nil => exact absurd hh hr
        | cons _ _ => rfl
      have h2 : (indexFrom 0 f.rows).isEmpty = false := by
        cases hh : f.rows with
        | nil => exact absurd hh hr
        | cons _ _ => rfl
      simp only [h1, Bool.false_eq_true, if_false, splitDF, List.isEmpty_map, h2, chunks_map c hc,
        List.map_map]
      rfl
  · cases hF

/-! ## the Parquet reader -/

def PqFile.table (f : PqFile β) : DF β := ⟨f.header, indexFrom 0 f.rows⟩

theorem pqReader_readsTable (f : PqFile β) : ReadsTable (pqReader f) f.table true where
  names := rfl
  read := by
    intro cols h _
    simp only [PqFile.table] at h
    simp [pqReader, pqRead, h, selectDF, PqFile.table]
  readNone := by simp

/-- for *any* batching that loses and reorders nothing, the concatenated chunks
of the Parquet reader are the rows `read` returns, labels included -/
theorem pqChunkedWith_flatten (f : PqFile β) (c : Nat) (hc : 1 ≤ c) (batches : List (List (Row β)))
    (hb : batches.flatten = f.rows) (cols : Option (List Name)) (F : DF β)
    (hF : pqRead f cols = some F) :
    ∃ chs, pqChunkedWith batches f c cols = some chs ∧ chs.flatMap (fun ch => ch.rows) = F.rows
      ∧ ∀ ch ∈ chs, ch.names = F.names := by
  simp only [pqRead] at hF
  split at hF
  · rename_i hok
    cases hF
    have hc0 : c ≠ 0 := by omega
    simp only [pqChunkedWith, hc0, if_false, hok, if_true]
    by_cases hbe : batches = []
    · subst hbe
      refine ⟨[], by simp, ?_, by simp⟩
      have : f.rows = [] := by rw [← hb]; rfl
      simp [this, indexFrom]
    · have hne : batches.isEmpty = false := by
        cases hh : batches with
        | nil => exact absurd hh hbe
        | cons _ _ => rfl
      simp only [hne, Bool.false_eq_true, if_false]
      refine ⟨_, rfl, ?_, ?_⟩
      · simp only [List.flatMap_def, List.map_map, Function.comp_def]
        rw [← List.map_flatten, pqLabel_flatten, hb]
        apply List.map_congr_left
        intro ir _
        rw [pqPick_eq_pick _ _ _ hok]
      · intro ch hch
        obtain ⟨x, _, rfl⟩ := List.mem_map.mp hch
        rfl
  · cases hF

theorem pqChunkedWith_chunkOK (f : PqFile β) (c : Nat) (hc : 1 ≤ c) (batches : List (List (Row β)))
    (hb : IsChunking c f.rows batches) (cols : Option (List Name)) (F : DF β)
    (hF : pqRead f cols = some F) :
    pqChunkedWith batches f c cols = some (splitDF false c F) := by
  have hbe := isChunking_unique c hc batches f.rows hb
  subst hbe
  simp only [pqRead] at hF
  split at hF
  · rename_i hok
    cases hF
    have hc0 : c ≠ 0 := by omega
    simp only [pqChunkedWith, hc0, if_false, hok, if_true, splitDF]
    by_cases hr : f.rows = []
    · simp [hr, indexFrom, chunks_nil]
    · have h1 : (chunks c f.rows).isEmpty = false := by
        cases hh : chunks c f.rows with
        | nil => exact absurd hh (chunks_ne_nil c hc f.rows hr)
        | cons _ _ => rfl
      have h2 : (indexFrom 0 f.rows).isEmpty = false := by
        cases hh : f.rows with
        | nil => exact absurd hh hr
        | cons _ _ => rfl
      simp only [h1, List.isEmpty_map, h2, Bool.false_eq_true, if_false, pqLabel_chunks, chunks_map c hc,
        List.map_map]
      congr 1
      apply List.map_congr_left
      intro ch _
      simp only [Function.comp]
      congr 1
      apply List.map_congr_left
      intro ir _
      rw [pqPick_eq_pick _ _ _ hok]
  · cases hF

theorem pqReader_chunkOK (f : PqFile β) : ChunkOK (pqReader f) := by
  intro c hc cols F hF
  exact ⟨false, pqChunkedWith_chunkOK f c hc _ (chunks_isChunking c hc f.rows) cols F hF⟩

/-! ## the renaming reader -/

theorem renameDF_eq (m : List (Name × Name)) (d : DF β) :
    renameDF m d = ⟨d.names.map (newName m), d.rows.map (fun ir => (ir.1, ir.2.map (fun p => (newName m p.1, p.2))))⟩ :=
  rfl

theorem mapped_chunkOK (r : Reader β) (m : List (Name × Name)) (h : ChunkOK r) : ChunkOK (mappedReader r m) := by
  intro c hc cols F hF
  simp only [mappedReader] at hF ⊢
  cases ho : origCols m r.names cols with
  | none => simp [ho] at hF
  | some oc =>
    simp only [ho, Option.bind_some] at hF ⊢
    cases hr : r.read oc with
    | none => simp [hr] at hF
    | some G =>
      simp only [hr, Option.map_some, Option.some.injEq] at hF
      subst hF
      obtain ⟨e, he⟩ := h c hc oc G hr
      refine ⟨e, ?_⟩
      rw [he, Option.map_some, renameDF_eq, splitDF_mapRows e c hc G]
      congr 1
      apply List.map_congr_left
      intro ch hch
      rw [renameDF_eq, splitDF_names e c G ch hch]

theorem mem_lookup_of_nodup (l : List (Name × Name)) (h : (l.map (fun p => p.1)).Nodup) (k v : Name)
    (hm : (k, v) ∈ l) : l.lookup k = some v := by
  induction l with
  | nil => simp at hm
  | cons p l ih =>
    obtain ⟨k', v'⟩ := p
    have h' : k' ∉ l.map (fun p => p.1) ∧ (l.map (fun p => p.1)).Nodup := by simpa using h
    rcases List.mem_cons.mp hm with heq | hm'
    · cases heq; simp
    · have hne : k ≠ k' := by
        rintro rfl
        exact h'.1 (List.mem_map.mpr ⟨(k, v), hm', rfl⟩)
      rw [List.lookup_cons]
      have : (k == k') = false := by simpa using hne
      simp only [this]
      exact ih h'.2 hm'

theorem nodup_reverse' {l : List α} (h : l.Nodup) : l.reverse.Nodup := by
  unfold List.Nodup at *
  rw [List.pairwise_reverse]
  exact h.imp (fun hab => fun e => hab e.symm)

theorem mem_zip_map_self (f : Name → Name) (orig : List Name) (o : Name) (ho : o ∈ orig) :
    (f o, o) ∈ (orig.map f).zip orig := by
  induction orig with
  | nil => simp at ho
  | cons x xs ih =>
    simp only [List.map_cons, List.zip_cons_cons, List.mem_cons]
    rcases List.mem_cons.mp ho with rfl | h
    · exact Or.inl rfl
    · exact Or.inr (ih h)

/-- the reverse dictionary finds the original of a renamed column, when renaming
is injective on the reader's columns -/
theorem revLookup_newName (m : List (Name × Name)) (orig : List Name)
    (hinj : (orig.map (newName m)).Nodup) (o : Name) (ho : o ∈ orig) :
    revLookup m orig (newName m o) = some o := by
  unfold revLookup
  apply mem_lookup_of_nodup
  · rw [List.map_reverse]
    apply nodup_reverse'
    have : ((orig.map (newName m)).zip orig).map (fun p => p.1) = orig.map (newName m) :=
      List.map_fst_zip (by simp)
    rw [this]
    exact hinj
  · rw [List.mem_reverse]
    exact mem_zip_map_self (newName m) orig o ho

end Mk.Tabular
