import MokapotVerif.Lemmas.TdcFdrDefs
import Mathlib.Tactic.Linarith
import Mathlib.Tactic.FieldSimp
import Mathlib.Tactic.Ring
/-!
# The accepted prefix as a backward scan

`Pstop` (largest acceptable prefix, best-first ranking) is the same as scanning the ranking
from the WORST item: stop at the first suffix-free list whose own counts satisfy the condition.
On the reversed (worst-first) list this is a structural recursion (`stopG`), which is what the
optional-stopping induction works with.  Also Stage 2: `FDP ≤ a · V/(1+D)` at the stop.
-/
namespace Mk.Tdc
variable {κ : Type}

/-- acceptance condition of a whole list (order-free: it only reads counts) -/
def okR (a : Rat) (R : List (κ × Bool)) : Prop :=
  ((R.countP isD + 1 : Nat) : Rat) ≤ a * ((R.countP isT : Nat) : Rat)

instance (a : Rat) : DecidablePred (okR (κ := κ) a) := fun R => by unfold okR; infer_instance

/-- backward scan over a worst-first list: the value of the first (longest) acceptable list -/
def stopG (a : Rat) (val : List (κ × Bool) → Rat) : List (κ × Bool) → Rat
  | [] => 0
  | x :: R => if okR a (x :: R) then val (x :: R) else stopG a val R

/-- `V / T` of a list -/
def valF (R : List (Kind × Bool)) : Rat := ((R.countP isV : Nat) : Rat) / ((R.countP isT : Nat) : Rat)
/-- `V / (1 + D)` of a list -/
def valM (R : List (Kind × Bool)) : Rat := ((R.countP isV : Nat) : Rat) / ((R.countP isD + 1 : Nat) : Rat)

/-- value of the accepted prefix, generic in the value function -/
def atStop (a : Rat) (val : List (κ × Bool) → Rat) (L : List (κ × Bool)) : Rat :=
  if Pstop a L = 0 then 0 else val (L.take (Pstop a L))

theorem FDP_eq_atStop (a : Rat) (L : List (Kind × Bool)) : FDP a L = atStop a valF L := rfl
theorem MDP_eq_atStop (a : Rat) (L : List (Kind × Bool)) : MDP a L = atStop a valM L := rfl

theorem findGreatest_congr {P Q : Nat → Prop} [DecidablePred P] [DecidablePred Q] :
    ∀ n, (∀ p, p ≤ n → (P p ↔ Q p)) → Nat.findGreatest P n = Nat.findGreatest Q n
  | 0, _ => rfl
  | n + 1, h => by
    rw [Nat.findGreatest_succ, Nat.findGreatest_succ,
      findGreatest_congr n (fun p hp => h p (Nat.le_succ_of_le hp))]
    by_cases hP : P (n + 1)
    · rw [if_pos hP, if_pos ((h _ (Nat.le_refl _)).mp hP)]
    · rw [if_neg hP, if_neg (fun hq => hP ((h _ (Nat.le_refl _)).mpr hq))]

theorem okAt_length_reverse (a : Rat) (R : List (κ × Bool)) :
    okAt a R.reverse R.reverse.length ↔ okR a R := by
  unfold okAt okR Dc Tc
  rw [List.take_length, List.countP_reverse, List.countP_reverse]

theorem okAt_snoc (a : Rat) (L : List (κ × Bool)) (x : κ × Bool) (p : Nat) (hp : p ≤ L.length) :
    okAt a (L ++ [x]) p ↔ okAt a L p := by
  unfold okAt Dc Tc
  rw [List.take_append_of_le_length hp]

/-- the accepted prefix of a best-first list is found by the backward scan of its reversal -/
theorem atStop_reverse (a : Rat) (val : List (κ × Bool) → Rat) (hval : ∀ R, val R.reverse = val R) :
    ∀ R : List (κ × Bool), atStop a val R.reverse = stopG a val R
  | [] => by
    have h0 : Pstop a ([] : List (κ × Bool)).reverse = 0 := rfl
    unfold atStop; rw [if_pos h0]; rfl
  | x :: R => by
    have ih := atStop_reverse a val hval R
    have hlen : (x :: R).reverse.length = R.reverse.length + 1 := by simp
    by_cases hok : okR a (x :: R)
    · have h1 : okAt a (x :: R).reverse (R.reverse.length + 1) := by
        rw [← hlen]; exact (okAt_length_reverse a (x :: R)).mpr hok
      have hP : Pstop a (x :: R).reverse = R.reverse.length + 1 := by
        unfold Pstop; rw [hlen, Nat.findGreatest_succ, if_pos h1]
      unfold atStop
      rw [hP, if_neg (Nat.succ_ne_zero _), ← hlen, List.take_length, hval]
      simp only [stopG, if_pos hok]
    · have h1 : ¬ okAt a (x :: R).reverse (R.reverse.length + 1) := by
        rw [← hlen]; exact fun h => hok ((okAt_length_reverse a (x :: R)).mp h)
      have hP : Pstop a (x :: R).reverse = Pstop a R.reverse := by
        unfold Pstop
        rw [hlen, Nat.findGreatest_succ, if_neg h1]
        apply findGreatest_congr
        intro p hp
        rw [List.reverse_cons]
        exact okAt_snoc a R.reverse x p hp
      have hle : Pstop a R.reverse ≤ R.reverse.length := Nat.findGreatest_le _
      have : atStop a val (x :: R).reverse = atStop a val R.reverse := by
        unfold atStop
        rw [hP, List.reverse_cons, List.take_append_of_le_length hle]
      rw [this, ih]
      simp only [stopG, if_neg hok]

theorem valF_reverse (R : List (Kind × Bool)) : valF R.reverse = valF R := by
  unfold valF; rw [List.countP_reverse, List.countP_reverse]
theorem valM_reverse (R : List (Kind × Bool)) : valM R.reverse = valM R := by
  unfold valM; rw [List.countP_reverse, List.countP_reverse]

theorem FDP_eq_stopG (a : Rat) (L : List (Kind × Bool)) : FDP a L = stopG a valF L.reverse := by
  rw [FDP_eq_atStop, ← atStop_reverse a valF valF_reverse, List.reverse_reverse]
theorem MDP_eq_stopG (a : Rat) (L : List (Kind × Bool)) : MDP a L = stopG a valM L.reverse := by
  rw [MDP_eq_atStop, ← atStop_reverse a valM valM_reverse, List.reverse_reverse]

/-- at an acceptable list, `V/T ≤ a · V/(1+D)` -/
theorem valF_le_of_ok (a : Rat) (R : List (Kind × Bool)) (hok : okR a R) :
    valF R ≤ a * valM R := by
  unfold okR at hok
  unfold valF valM
  set V : Rat := ((R.countP isV : Nat) : Rat) with hV
  set T : Rat := ((R.countP isT : Nat) : Rat) with hT
  set D1 : Rat := ((R.countP isD + 1 : Nat) : Rat) with hD
  have hV0 : 0 ≤ V := by rw [hV]; exact Nat.cast_nonneg _
  have hT0 : 0 ≤ T := by rw [hT]; exact Nat.cast_nonneg _
  have hD1 : 1 ≤ D1 := by rw [hD]; exact_mod_cast Nat.succ_le_succ (Nat.zero_le _)
  have hTpos : 0 < T := by
    rcases hT0.lt_or_eq with h | h
    · exact h
    · rw [← h] at hok; linarith
  have hD0 : 0 < D1 := by linarith
  rw [div_le_iff₀ hTpos, ← sub_nonneg]
  have : a * (V / D1) * T - V = V * (a * T - D1) / D1 := by
    field_simp
  rw [this]
  exact div_nonneg (mul_nonneg hV0 (sub_nonneg.mpr hok)) hD0.le

/-- Stage 2 on the backward scan -/
theorem stopG_valF_le (a : Rat) : ∀ R : List (Kind × Bool), stopG a valF R ≤ a * stopG a valM R
  | [] => by simp [stopG]
  | x :: R => by
    by_cases hok : okR a (x :: R)
    · simp only [stopG, if_pos hok]; exact valF_le_of_ok a _ hok
    · simp only [stopG, if_neg hok]; exact stopG_valF_le a R

/-- **Stage 2** — deterministic inequality: `FDP ω ≤ a · V(P ω) / (1 + D(P ω))` -/
theorem FDP_le_mul_MDP (a : Rat) (L : List (Kind × Bool)) : FDP a L ≤ a * MDP a L := by
  rw [FDP_eq_stopG, MDP_eq_stopG]; exact stopG_valF_le a _

end Mk.Tdc
