import MokapotVerif.Model.FitFull
import MokapotVerif.Lemmas.FitPredict
import MokapotVerif.Lemmas.FitStart
import MokapotVerif.Lemmas.FitRefit
/-!
# Lemmas for the dataset level of C12 (`Model/FitFull.lean`): feature frame, stored names, scaler
-/
namespace Mk.Fit
variable {α γ θ ν σ : Type}

/-! ### `featureFrame`: the columns called `names`, in that order -/

theorem featureFrame_eq_some [DecidableEq ν] (frame : List (ν × γ)) (names : List ν) (feats : List (ν × γ)) :
    featureFrame frame names = some feats ↔
      (∀ nm ∈ names, (lookupCol frame nm).isSome = true) ∧ feats = names.filterMap (namedCol frame) := by
  unfold featureFrame
  split
  · rename_i h
    rw [List.all_eq_true] at h
    constructor
    · intro e; simp only [Option.some.injEq] at e; exact ⟨h, e.symm⟩
    · rintro ⟨_, e⟩; rw [e]
  · rename_i h
    constructor
    · intro e; simp at e
    · rintro ⟨h', _⟩
      exact absurd (List.all_eq_true.mpr h') h

theorem featureFrame_eq_none [DecidableEq ν] (frame : List (ν × γ)) (names : List ν) :
    featureFrame frame names = none ↔ ¬ ∀ nm ∈ names, (lookupCol frame nm).isSome = true := by
  unfold featureFrame
  split
  · rename_i h
    rw [List.all_eq_true] at h
    constructor
    · intro e; cases e
    · intro hn; exact absurd h hn
  · rename_i h
    rw [List.all_eq_true] at h
    constructor
    · intro _; exact h
    · intro _; rfl

/-- the names of the feature frame are the requested names, in the requested order -/
theorem namedCols_fst [DecidableEq ν] (frame : List (ν × γ)) :
    ∀ names : List ν, (∀ nm ∈ names, (lookupCol frame nm).isSome = true) →
      (names.filterMap (namedCol frame)).map (·.1) = names := by
  intro names
  induction names with
  | nil => intro _; rfl
  | cons nm names ih =>
    intro h
    have h0 := h nm (by simp)
    rw [Option.isSome_iff_exists] at h0
    obtain ⟨c, hc⟩ := h0
    have hn : namedCol frame nm = some (nm, c) := by simp only [namedCol, hc, Option.map_some]
    rw [List.filterMap_cons, hn]
    simp only [List.map_cons]
    rw [ih (fun x hx => h x (by simp [hx]))]

/-- … and its columns are the frame's columns of those names -/
theorem namedCols_snd [DecidableEq ν] (frame : List (ν × γ)) (names : List ν) :
    (names.filterMap (namedCol frame)).map (·.2) = names.filterMap (lookupCol frame) := by
  induction names with
  | nil => rfl
  | cons nm names ih =>
    rw [List.filterMap_cons, List.filterMap_cons]
    cases hc : lookupCol frame nm with
    | none => simp only [namedCol, hc, Option.map_none]; exact ih
    | some c => simp only [namedCol, hc, Option.map_some, List.map_cons]; rw [← ih]

/-- looking a name up in the feature frame is looking it up in the DataFrame -/
theorem lookupCol_namedCols [DecidableEq ν] (frame : List (ν × γ)) :
    ∀ names : List ν, (∀ nm ∈ names, (lookupCol frame nm).isSome = true) → ∀ nm ∈ names,
      lookupCol (names.filterMap (namedCol frame)) nm = lookupCol frame nm := by
  intro names
  induction names with
  | nil => intro _ nm h; simp at h
  | cons x names ih =>
    intro h nm hnm
    have h0 := h x (by simp)
    rw [Option.isSome_iff_exists] at h0
    obtain ⟨c, hc⟩ := h0
    rw [List.filterMap_cons]
    simp only [namedCol, hc, Option.map_some]
    rw [lookupCol_cons]
    by_cases hx : x = nm
    · subst hx; simp [hc]
    · simp only [hx, if_false]
      have hmem : nm ∈ names := by
        rcases List.mem_cons.mp hnm with e | e
        · exact absurd e.symm hx
        · exact e
      exact ih (fun y hy => h y (by simp [hy])) nm hmem

theorem featureFrame_fst [DecidableEq ν] (frame : List (ν × γ)) (names : List ν) (feats : List (ν × γ))
    (h : featureFrame frame names = some feats) : feats.map (·.1) = names := by
  obtain ⟨h1, h2⟩ := (featureFrame_eq_some frame names feats).mp h
  rw [h2]; exact namedCols_fst frame names h1

theorem featureFrame_snd [DecidableEq ν] (frame : List (ν × γ)) (names : List ν) (feats : List (ν × γ))
    (h : featureFrame frame names = some feats) : feats.map (·.2) = names.filterMap (lookupCol frame) := by
  obtain ⟨_, h2⟩ := (featureFrame_eq_some frame names feats).mp h
  rw [h2]; exact namedCols_snd frame names

theorem featureFrame_lookup [DecidableEq ν] (frame : List (ν × γ)) (names : List ν) (feats : List (ν × γ))
    (h : featureFrame frame names = some feats) (nm : ν) (hnm : nm ∈ names) :
    lookupCol feats nm = lookupCol frame nm := by
  obtain ⟨h1, h2⟩ := (featureFrame_eq_some frame names feats).mp h
  rw [h2]; exact lookupCol_namedCols frame names h1 nm hnm

/-- the feature frame depends on the DataFrame only through the look-ups of the requested names -/
theorem featureFrame_congr [DecidableEq ν] (frame frame' : List (ν × γ)) (names : List ν)
    (h : ∀ nm ∈ names, lookupCol frame' nm = lookupCol frame nm) :
    featureFrame frame' names = featureFrame frame names := by
  unfold featureFrame
  have h1 : names.all (fun nm => (lookupCol frame' nm).isSome) = names.all (fun nm => (lookupCol frame nm).isSome) := by
    rw [Bool.eq_iff_iff, List.all_eq_true, List.all_eq_true]
    constructor
    · intro hx nm hm; rw [← h nm hm]; exact hx nm hm
    · intro hx nm hm; rw [h nm hm]; exact hx nm hm
  have h2 : names.filterMap (namedCol frame') = names.filterMap (namedCol frame) := by
    apply List.filterMap_congr
    intro nm hm
    simp only [namedCol, h nm hm]
  rw [h1, h2]

/-! ### selecting by the stored names from any presentation of the same columns -/

/-- **the core of "by name".**  Select the stored names from the feature frame of a dataset whose
feature names are the stored names as a set: the result is the DataFrame's columns of the stored
names in the *stored* order — whatever the order of that dataset's `feature_columns` and whatever
the physical order of its frame. -/
theorem selectByName_featureFrame [DecidableEq ν] (stored names2 : List ν) (frame2 : List (ν × γ))
    (feats2 : List (ν × γ)) (h2 : featureFrame frame2 names2 = some feats2)
    (hset : ∀ x, x ∈ names2 ↔ x ∈ stored) :
    selectByName stored feats2 = some (stored.filterMap (lookupCol frame2)) := by
  unfold selectByName
  rw [featureFrame_fst frame2 names2 feats2 h2, (sameNameSet_iff names2 stored).mpr hset, if_pos rfl]
  congr 1
  apply List.filterMap_congr
  intro nm hm
  exact featureFrame_lookup frame2 names2 feats2 h2 nm ((hset nm).mpr hm)

/-! ### rows of a row-permuted table -/

theorem gather_range_self (n : Nat) : ∀ p : List Nat, (∀ i ∈ p, i < n) → gather (List.range n) p = p := by
  intro p
  induction p with
  | nil => intro _; rfl
  | cons i p ih =>
    intro h
    have hi : i < n := h i (by simp)
    rw [gather_cons, ih (fun j hj => h j (by simp [hj])), List.getElem?_range hi]
    rfl

/-- the row matrix of the row-permuted columns is the row-permuted row matrix -/
theorem rowsOf_gather (n : Nat) (cols : List (List γ)) (hc : ∀ c ∈ cols, c.length = n) (p : List Nat)
    (hp : p.Perm (List.range n)) :
    rowsOf n (cols.map (fun c => gather c p)) = gather (rowsOf n cols) p := by
  have hlt := perm_range_lt hp
  have hpl : p.length = n := by simpa using hp.length_eq
  have hR : gather (rowsOf n cols) p = p.map (fun i => cols.filterMap (fun c => c[i]?)) := by
    unfold rowsOf
    rw [gather_map, gather_range_self n p hlt]
  rw [hR]
  apply List.ext_getElem?
  intro i
  unfold rowsOf
  rw [List.getElem?_map, List.getElem?_map]
  by_cases hi : i < n
  · rw [List.getElem?_range hi, List.getElem?_eq_getElem (by omega : i < p.length)]
    simp only [Option.map_some]
    congr 1
    rw [List.filterMap_map]
    apply List.filterMap_congr
    intro c hcm
    simp only [Function.comp]
    rw [(gather_eq_map c p (by rw [hc c hcm]; exact hlt)).2 i, List.getElem?_eq_getElem (by omega : i < p.length)]
    rfl
  · rw [List.getElem?_eq_none (by simp; omega), List.getElem?_eq_none (by omega)]
    rfl

theorem lookupCol_permuteRows [DecidableEq ν] (frame : List (ν × List α)) (p : List Nat) (nm : ν) :
    lookupCol (permuteRows frame p) nm = (lookupCol frame nm).map (fun c => gather c p) := by
  induction frame with
  | nil => rfl
  | cons c frame ih =>
    unfold permuteRows at ih ⊢
    rw [List.map_cons, lookupCol_cons, lookupCol_cons]
    by_cases h : c.1 = nm
    · simp [h]
    · simp only [h, if_false]; exact ih

theorem permuteRows_names (frame : List (ν × List α)) (p : List Nat) :
    (permuteRows frame p).map (·.1) = frame.map (·.1) := by
  unfold permuteRows
  rw [List.map_map]
  rfl

theorem featureFrame_permuteRows [DecidableEq ν] (frame : List (ν × List α)) (p : List Nat) (names : List ν) :
    featureFrame (permuteRows frame p) names = (featureFrame frame names).map (fun f => permuteRows f p) := by
  unfold featureFrame
  have h1 : names.all (fun nm => (lookupCol (permuteRows frame p) nm).isSome)
      = names.all (fun nm => (lookupCol frame nm).isSome) := by
    congr 1
    funext nm
    rw [lookupCol_permuteRows]
    cases lookupCol frame nm <;> rfl
  rw [h1]
  split
  · simp only [Option.map_some]
    congr 1
    unfold permuteRows
    rw [List.map_filterMap]
    apply List.filterMap_congr
    intro nm _
    have := lookupCol_permuteRows frame p nm
    unfold permuteRows at this
    simp only [namedCol, this]
    cases lookupCol frame nm <;> rfl
  · rfl

/-! ### the outcome of `Model.fit`: a learned state exists exactly when the status is `ok` -/

theorem afterLoop_theta_iff {ρ : Type} (override : Bool) (st : Start) (r : FitRes ρ θ) :
    (afterLoop override st r).theta.isSome = true ↔ (afterLoop override st r).status = .ok := by
  unfold afterLoop
  cases r.final with
  | none => simp
  | some res =>
    simp only [Option.map_some, Option.getD_some, finish]
    split <;> simp

theorem fitModel_theta_iff {ρ : Type} (est : Est ρ α θ) (le : α → α → Bool) (thr : Rat) (cfg : FitCfg) (th0 : θ)
    (rows : List ρ) (cols : List (List α)) (targets : List Bool) :
    (fitModel est le thr cfg th0 rows cols targets).theta.isSome = true ↔
      (fitModel est le thr cfg th0 rows cols targets).status = .ok := by
  unfold fitModel
  split
  · simp
  split
  · simp
  cases startLabels le thr targets cols cfg.direction with
  | none => simp
  | some st =>
    simp only [Option.map_some, Option.getD_some, runFrom]
    split
    · simp
    · exact afterLoop_theta_iff _ _ _

/-! ### the scaler contract used by the row-order theorems -/

/-- the transform acts on every row separately (every scikit-learn scaler does) -/
def RowWise (sc : Scaler α σ) : Prop := ∃ row : σ → List α → List α, ∀ s M, sc.transform s M = M.map (row s)

/-- what the scaler learns does not depend on the order of the rows (column statistics) -/
def ScalerFitPermInvariant (sc : Scaler α σ) : Prop := ∀ M M' : List (List α), M.Perm M' → sc.fit M = sc.fit M'

/-! ### `fitFull` taken apart -/

/-- a successful `fitFull`, read backwards: the stored names are the dataset's feature names, every
one of them is a column of the frame, the scaler was fitted on the matrix whose `j`-th column is the
frame column *called* `features[j]`, and the rest is `fitModel` on the scaled rows of that matrix. -/
theorem fitFull_inv [DecidableEq ν] (sc : Scaler α σ) (est : Est (List α) α θ) (le : α → α → Bool) (thr : Rat)
    (cfg : FullCfg ν) (th0 : θ) (frame : List (ν × List α)) (used : List ν) (fc : Option (List ν))
    (targets : List Bool) (o : FullOut ν σ θ α) (h : fitFull sc est le thr cfg th0 frame used fc targets = some o)
    (t : Trained ν σ θ) (ht : o.model = some t) :
    t.features = featureNames (frame.map (·.1)) used fc ∧
    (∀ nm ∈ t.features, (lookupCol frame nm).isSome = true) ∧
    t.scaler = sc.fit (rowsOf targets.length (t.features.filterMap (lookupCol frame))) ∧
    ∃ dir, dirIndex t.features cfg.direction = some dir ∧
      o.out = fitModel est le thr (cfg.toCfg dir) th0
        (sc.transform t.scaler (rowsOf targets.length (t.features.filterMap (lookupCol frame))))
        (t.features.filterMap (lookupCol frame)) targets ∧
      o.out.theta = some t.theta := by
  unfold fitFull at h
  split at h
  · simp only [Option.some.injEq] at h; subst h; simp at ht
  split at h
  · simp only [Option.some.injEq] at h; subst h; simp at ht
  cases hff : featureFrame frame (featureNames (frame.map (·.1)) used fc) with
  | none => rw [hff] at h; simp at h
  | some feats =>
    rw [hff] at h
    simp only [Option.bind_some] at h
    have hfst := featureFrame_fst frame _ feats hff
    have hsnd := featureFrame_snd frame _ feats hff
    have hall := ((featureFrame_eq_some frame _ feats).mp hff).1
    cases hd : dirIndex (feats.map (·.1)) cfg.direction with
    | none => rw [hd] at h; simp at h
    | some dir =>
      rw [hd] at h
      simp only [Option.map_some, Option.some.injEq] at h
      subst h
      simp only [fitFullCore] at ht ⊢
      cases hth : (fitModel est le thr (cfg.toCfg dir) th0
          (sc.transform (sc.fit (rowsOf targets.length (feats.map (·.2)))) (rowsOf targets.length (feats.map (·.2))))
          (feats.map (·.2)) targets).theta with
      | none => rw [hth] at ht; simp at ht
      | some th =>
        rw [hth] at ht
        simp only [Option.map_some, Option.some.injEq] at ht
        subst ht
        simp only
        rw [hfst] at hd ⊢
        rw [hsnd]
        refine ⟨rfl, hall, rfl, dir, hd, rfl, ?_⟩
        trivial

/-- `fitFull` depends on the dataset only through the ordered list of feature names and the frame
columns of those names -/
theorem fitFull_congr [DecidableEq ν] (sc : Scaler α σ) (est : Est (List α) α θ) (le : α → α → Bool) (thr : Rat)
    (cfg : FullCfg ν) (th0 : θ) (frame frame' : List (ν × List α)) (used used' : List ν) (fc fc' : Option (List ν))
    (targets : List Bool)
    (hnames : featureNames (frame'.map (·.1)) used' fc' = featureNames (frame.map (·.1)) used fc)
    (hlook : ∀ nm ∈ featureNames (frame.map (·.1)) used fc, lookupCol frame' nm = lookupCol frame nm) :
    fitFull sc est le thr cfg th0 frame' used' fc' targets = fitFull sc est le thr cfg th0 frame used fc targets := by
  unfold fitFull
  rw [hnames, featureFrame_congr frame frame' _ hlook]

end Mk.Fit
