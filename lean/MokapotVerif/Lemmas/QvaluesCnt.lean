import MokapotVerif.Model.QvaluesCnt
import MokapotVerif.Lemmas.QvaluesKey
import MokapotVerif.Lemmas.QvaluesSort
import Mathlib.Data.List.Perm.Basic
/-! Count type of `tdc` (a dtype that is exact up to `N` gives the natural-number sweep on every
input shorter than `N`), and the defining formula on a histogram. -/
namespace Mk.Qv
open Mk
variable {α : Type}

/-! ### count type -/

theorem cumsumByR_nil (ρ : Nat → Nat) (f : Bool → Nat) (acc : Nat) : cumsumByR ρ f acc [] = [] := rfl

/-- the three arrays of the sweep, jointly: exact counts as long as nothing exceeds `N` -/
theorem sweep_arrays_exact (ρ : Nat → Nat) (N : Nat) (hρ : ∀ n, n ≤ N → ρ n = n) (bs : List Bool) :
    ∀ T D, T + D + bs.length + 1 ≤ N →
      cumsumByR ρ targetInd T bs = cumsumBy targetInd T bs ∧
      cumsumByR ρ decoyInd D bs = cumsumBy decoyInd D bs ∧
      List.zipWith (fun a b => ρ (a + b)) (cumsumBy targetInd T bs) (cumsumBy decoyInd D bs)
        = List.zipWith (· + ·) (cumsumBy targetInd T bs) (cumsumBy decoyInd D bs) ∧
      List.zipWith (fdrRawR ρ) (cumsumBy targetInd T bs) (cumsumBy decoyInd D bs)
        = List.zipWith fdrRaw (cumsumBy targetInd T bs) (cumsumBy decoyInd D bs) := by
  induction bs with
  | nil => intro T D _; simp [cumsumByR, cumsumBy]
  | cons b bs ih =>
    intro T D h
    simp only [List.length_cons] at h
    have hT : ρ (T + targetInd b) = T + targetInd b := hρ _ (by cases b <;> simp [targetInd] <;> omega)
    have hD : ρ (D + decoyInd b) = D + decoyInd b := hρ _ (by cases b <;> simp [decoyInd] <;> omega)
    have hsum : ρ (T + targetInd b + (D + decoyInd b)) = T + targetInd b + (D + decoyInd b) :=
      hρ _ (by cases b <;> simp [targetInd, decoyInd] <;> omega)
    have hD1 : ρ (D + decoyInd b + 1) = D + decoyInd b + 1 :=
      hρ _ (by cases b <;> simp [decoyInd] <;> omega)
    have h' : (T + targetInd b) + (D + decoyInd b) + bs.length + 1 ≤ N := by
      cases b <;> simp [targetInd, decoyInd] <;> omega
    obtain ⟨i1, i2, i3, i4⟩ := ih (T + targetInd b) (D + decoyInd b) h'
    refine ⟨?_, ?_, ?_, ?_⟩
    · simp only [cumsumByR, cumsumBy, hT, i1]
    · simp only [cumsumByR, cumsumBy, hD, i2]
    · simp only [cumsumBy, List.zipWith_cons_cons, hsum, i3]
    · simp only [cumsumBy, List.zipWith_cons_cons, i4]
      congr 1
      simp only [fdrRawR, fdrRaw, hD1]

theorem sweepCountsR_eq (ρ : Nat → Nat) (N : Nat) (hρ : ∀ n, n ≤ N → ρ n = n) (counts : List Nat)
    (l : List (α × Bool)) (h : l.length + 1 ≤ N) :
    sweepCountsR ρ counts 0 0 l = sweepCounts counts 0 0 l := by
  obtain ⟨i1, i2, i3, i4⟩ := sweep_arrays_exact ρ N hρ (l.map (·.2)) 0 0 (by simpa using h)
  unfold sweepCountsR sweepCounts
  simp only [i1, i2, i3, i4]

theorem tdcArrR_eq (ρ : Nat → Nat) (N : Nat) (hρ : ∀ n, n ≤ N → ρ n = n) (leq : α → α → Bool)
    (desc : Bool) (xs : List (α × Bool)) (h : xs.length + 1 ≤ N) :
    tdcArrR ρ leq desc xs = tdcArr leq desc xs := by
  unfold tdcArrR tdcArr tdcArrOfR tdcArrOf sweepArrR sweepArr
  rw [sweepCountsR_eq ρ N hρ]
  simpa using h

/-- once a running count of ones has reached a value that adding 1 does not change, it stays -/
theorem cumsumByR_stall (ρ : Nat → Nat) (B : Nat) (h : ρ (B + 1) = B) (k : Nat) :
    cumsumByR ρ targetInd B (List.replicate k true) = List.replicate k B := by
  induction k with
  | zero => rfl
  | succ k ih => simp [List.replicate_succ, cumsumByR, targetInd, h, ih]

/-! ### histogram -/

theorem mem_expandBlock {b : Blk α} {x : α × Bool} (h : x ∈ expandBlock b) : x.1 = b.1 := by
  unfold expandBlock at h
  rcases List.mem_append.mp h with h | h <;> rw [(List.mem_replicate.mp h).2]

theorem exists_mem_expandBlock (b : Blk α) (h : 0 < b.2.1 + b.2.2) : ∃ x ∈ expandBlock b, x.1 = b.1 := by
  unfold expandBlock
  by_cases h1 : b.2.1 = 0
  · refine ⟨(b.1, false), ?_, rfl⟩
    apply List.mem_append_right
    exact List.mem_replicate.mpr ⟨by omega, rfl⟩
  · refine ⟨(b.1, true), ?_, rfl⟩
    apply List.mem_append_left
    exact List.mem_replicate.mpr ⟨h1, rfl⟩

theorem expandBlocks_cons (b : Blk α) (bs : List (Blk α)) :
    expandBlocks (b :: bs) = expandBlock b ++ expandBlocks bs := by
  simp [expandBlocks]

theorem cntT_expandBlocks (le : α → α → Bool) (t : α) (bs : List (Blk α)) :
    cntT le (expandBlocks bs) t = blkT le bs t := by
  induction bs with
  | nil => simp [expandBlocks, cntT, blkT]
  | cons b bs ih =>
    rw [expandBlocks_cons]
    unfold cntT at ih ⊢
    rw [List.countP_append, ih]
    unfold blkT expandBlock
    simp only [List.countP_append, List.countP_replicate, List.filter_cons]
    by_cases hb : le t b.1 = true <;> simp [hb]

theorem cntD_expandBlocks (le : α → α → Bool) (t : α) (bs : List (Blk α)) :
    cntD le (expandBlocks bs) t = blkD le bs t := by
  induction bs with
  | nil => simp [expandBlocks, cntD, blkD]
  | cons b bs ih =>
    rw [expandBlocks_cons]
    unfold cntD at ih ⊢
    rw [List.countP_append, ih]
    unfold blkD expandBlock
    simp only [List.countP_append, List.countP_replicate, List.filter_cons]
    by_cases hb : le t b.1 = true <;> simp [hb]

/-- the defining formula of the expanded PSM list is the formula on the histogram -/
theorem qSpec_expandBlocks (le : α → α → Bool) (bs : List (Blk α))
    (hne : ∀ b ∈ bs, 0 < b.2.1 + b.2.2) (s : α) :
    qSpec le (expandBlocks bs) s = qBlocksAt le bs s := by
  unfold qSpec qBlocksAt minAtOrWorse blkFdrTable
  simp only [cntT_expandBlocks, cntD_expandBlocks]
  apply minOver_congr_set
  · intro y hy
    obtain ⟨x, hx, rfl⟩ := List.mem_map.mp hy
    obtain ⟨hxm, hxs⟩ := List.mem_filter.mp hx
    obtain ⟨b, hb, hxb⟩ := List.mem_flatMap.mp hxm
    have e := mem_expandBlock hxb
    refine ⟨fdrRaw (blkT le bs b.1) (blkD le bs b.1), ?_, by rw [e]⟩
    apply List.mem_map.mpr
    refine ⟨(b.1, fdrRaw (blkT le bs b.1) (blkD le bs b.1)), ?_, rfl⟩
    apply List.mem_filter.mpr
    refine ⟨List.mem_map.mpr ⟨b, hb, rfl⟩, ?_⟩
    simpa [e] using hxs
  · intro z hz
    obtain ⟨p, hp, rfl⟩ := List.mem_map.mp hz
    obtain ⟨hpm, hps⟩ := List.mem_filter.mp hp
    obtain ⟨b, hb, rfl⟩ := List.mem_map.mp hpm
    obtain ⟨x, hx, e⟩ := exists_mem_expandBlock b (hne b hb)
    refine ⟨fdrRaw (blkT le bs x.1) (blkD le bs x.1), ?_, by rw [e]⟩
    apply List.mem_map.mpr
    refine ⟨x, ?_, rfl⟩
    apply List.mem_filter.mpr
    refine ⟨List.mem_flatMap.mpr ⟨b, hb, hx⟩, ?_⟩
    simpa [e] using hps

theorem qBlocks_eq (le : α → α → Bool) (bs : List (Blk α)) :
    qBlocks le bs = bs.map (fun b => qBlocksAt le bs b.1) := rfl

end Mk.Qv
