import MokapotVerif.Model.FitStore
import MokapotVerif.Lemmas.FitFull
/-! Helper lemmas for `Props/C12Store.lean`: the file store of `save_model` / `load_model`. -/
namespace Mk.Fit
variable {π β μ : Type}

theorem lookup_write [DecidableEq π] (fs : Store π β) (q p : π) (b : β) :
    (fs.write q b).lookup p = if p = q then some b else fs.lookup p := by
  unfold Store.write
  by_cases h : p = q
  · subst h; simp [List.lookup]
  · have hb : (p == q) = false := by simp [h]
    simp [List.lookup, hb, h]

theorem loadDispatch_ok_iff (c : CsvProbe) (r : Except LoadErr μ) (m : μ) :
    loadDispatch c r = .ok m ↔ (c = .keyError ∨ c = .unicodeError) ∧ r = .ok m := by
  cases c <;> simp [loadDispatch]

theorem unpickle_ok_iff (pk : Pickle β μ) (b : β) (m : μ) : unpickle pk b = .ok m ↔ pk.load b = some m := by
  unfold unpickle
  cases pk.load b <;> simp

theorem loadBody_dump (pk : Pickle β μ) (hrt : ∀ m, pk.load (pk.dump m) = some m)
    (hbin : ∀ m, pk.probe (pk.dump m) = .keyError ∨ pk.probe (pk.dump m) = .unicodeError) (m : μ) :
    loadBody pk (pk.dump m) = .ok m := by
  unfold loadBody
  exact (loadDispatch_ok_iff _ _ m).mpr ⟨hbin m, (unpickle_ok_iff pk _ m).mpr (hrt m)⟩

theorem storeRun_append [BEq π] (pk : Pickle β μ) (fs : Store π β) (a b : List (StoreOp π β μ)) :
    storeRun pk fs (a ++ b) = storeRun pk fs a ++ storeRun pk (storeAfter pk fs a) b := by
  induction a generalizing fs with
  | nil => simp [storeRun, storeAfter]
  | cons op r ih => cases op <;> simp [storeRun, storeAfter, ih]

theorem storeAfter_append (pk : Pickle β μ) (fs : Store π β) (a b : List (StoreOp π β μ)) :
    storeAfter pk fs (a ++ b) = storeAfter pk (storeAfter pk fs a) b := by
  induction a generalizing fs with
  | nil => simp [storeAfter]
  | cons op r ih => cases op <;> simp [storeAfter, ih]

theorem storeAfter_lookup_of_no_write [DecidableEq π] (pk : Pickle β μ) (fs : Store π β) (p : π)
    (ops : List (StoreOp π β μ)) (h : ∀ op ∈ ops, op.writes ≠ some p) :
    (storeAfter pk fs ops).lookup p = fs.lookup p := by
  induction ops generalizing fs with
  | nil => simp [storeAfter]
  | cons op r ih =>
    have hr : ∀ op ∈ r, op.writes ≠ some p := fun o ho => h o (List.mem_cons_of_mem _ ho)
    have h0 := h op List.mem_cons_self
    cases op with
    | save m q =>
      have hq : p ≠ q := fun e => h0 (by simp [StoreOp.writes, e])
      simp only [storeAfter, saveModel]
      rw [ih _ hr, lookup_write, if_neg hq]
    | put b q =>
      have hq : p ≠ q := fun e => h0 (by simp [StoreOp.writes, e])
      simp only [storeAfter]
      rw [ih _ hr, lookup_write, if_neg hq]
    | load q => simpa [storeAfter] using ih fs hr

/-- loads leave the files alone -/
theorem storeAfter_filter_writes (pk : Pickle β μ) (fs : Store π β) (ops : List (StoreOp π β μ)) :
    storeAfter pk fs (ops.filter (fun op => op.writes.isSome)) = storeAfter pk fs ops := by
  induction ops generalizing fs with
  | nil => rfl
  | cons op r ih =>
    cases op with
    | save m q => rw [List.filter_cons_of_pos (by simp [StoreOp.writes])]; simp only [storeAfter]; exact ih _
    | put b q => rw [List.filter_cons_of_pos (by simp [StoreOp.writes])]; simp only [storeAfter]; exact ih _
    | load q => rw [List.filter_cons_of_neg (by simp [StoreOp.writes])]; simp only [storeAfter]; exact ih _

theorem lastWritten_snoc [DecidableEq π] (pk : Pickle β μ) (hist : List (StoreOp π β μ)) (op : StoreOp π β μ) (p : π) :
    lastWritten pk (hist ++ [op]) p
      = ((op.written pk).bind (fun w => if w.1 = p then some w.2 else none)).or (lastWritten pk hist p) := by
  unfold lastWritten
  rw [List.reverse_append]
  cases hw : op.written pk with
  | none => simp [List.filterMap_cons, hw]
  | some w =>
    simp only [List.reverse_cons, List.reverse_nil, List.nil_append, List.cons_append, List.filterMap_cons, hw,
      List.find?_cons]
    by_cases e : w.1 = p
    · have hb : (w.1 == p) = true := by simp [e]
      simp [hb, e]
    · have hb : (w.1 == p) = false := by simp [e]
      simp [hb, e]

/-- the invariant of a session: the store answers like "what was written last" -/
theorem storeRun_eq_spec [DecidableEq π] (pk : Pickle β μ) (fs : Store π β) (hist ops : List (StoreOp π β μ))
    (h : ∀ p, fs.lookup p = lastWritten pk hist p) :
    storeRun pk fs ops = storeSpecFrom pk hist ops := by
  induction ops generalizing fs hist with
  | nil => simp [storeRun, storeSpecFrom]
  | cons op r ih =>
    cases op with
    | save m q =>
      simp only [storeRun, storeSpecFrom]
      apply ih
      intro p
      rw [saveModel, lookup_write, lastWritten_snoc, ← h p]
      by_cases e : p = q
      · simp [StoreOp.written, e]
      · have : ¬ q = p := fun x => e x.symm
        simp [StoreOp.written, e, this]
    | put b q =>
      simp only [storeRun, storeSpecFrom]
      apply ih
      intro p
      rw [lookup_write, lastWritten_snoc, ← h p]
      by_cases e : p = q
      · simp [StoreOp.written, e]
      · have : ¬ q = p := fun x => e x.symm
        simp [StoreOp.written, e, this]
    | load q =>
      simp only [storeRun, storeSpecFrom, loadModel, h q]
      congr 1
      apply ih
      intro p
      rw [lastWritten_snoc, ← h p]
      simp [StoreOp.written]

end Mk.Fit
