import MokapotVerif.Lemmas.Tabular
/-!
# Lemmas on the writers (C13)
-/
namespace Mk.Tabular
variable {α β σ : Type}

/-! ## generic helpers -/

theorem foldOpt_append (f : σ → α → Option σ) (s : σ) (xs ys : List α) :
    foldOpt f s (xs ++ ys) = (foldOpt f s xs).bind (fun s' => foldOpt f s' ys) := by
  induction xs generalizing s with
  | nil => rfl
  | cons x xs ih =>
    simp only [List.cons_append, foldOpt]
    cases f s x with
    | none => rfl
    | some s' => simp [ih]

theorem optAll_map_some (f : α → β) (xs : List α) : optAll (xs.map (fun x => some (f x))) = some (xs.map f) := by
  induction xs with
  | nil => rfl
  | cons x xs ih => simp [optAll, ih]

theorem optAll_congr_some {f : α → Option β} {g : α → β} (xs : List α) (h : ∀ x ∈ xs, f x = some (g x)) :
    optAll (xs.map f) = some (xs.map g) := by
  induction xs with
  | nil => rfl
  | cons x xs ih =>
    simp only [List.map_cons, optAll, h x (by simp), Option.bind_some,
      ih (fun y hy => h y (List.mem_cons_of_mem _ hy)), Option.map_some]

/-! ## cutting full batches -/

theorem cutFull_spec (size : Nat) (hs : 1 ≤ size) :
    ∀ (fuel : Nat) (xs : List α), xs.length ≤ fuel →
      (cutFull size fuel xs).1.flatten ++ (cutFull size fuel xs).2 = xs
      ∧ (∀ b ∈ (cutFull size fuel xs).1, b.length = size)
      ∧ (cutFull size fuel xs).2.length < size := by
  intro fuel
  induction fuel with
  | zero =>
    intro xs h
    have : xs = [] := List.eq_nil_of_length_eq_zero (by omega)
    subst this
    simp [cutFull]; omega
  | succ fuel ih =>
    intro xs h
    by_cases hle : size ≤ xs.length
    · have ih' := ih (xs.drop size) (by simp only [List.length_drop]; omega)
      simp only [cutFull, hle, if_true]
      refine ⟨?_, ?_, ih'.2.2⟩
      · rw [List.flatten_cons, List.append_assoc, ih'.1, List.take_append_drop]
      · intro b hb
        rcases List.mem_cons.mp hb with rfl | hb
        · simp only [List.length_take]; omega
        · exact ih'.2.1 b hb
    · simp only [cutFull, hle, if_false]
      refine ⟨by simp, by simp, by omega⟩

/-- a buffer shorter than the batch size is left alone -/
theorem cutFull_short (size fuel : Nat) (xs : List α) (h : xs.length < size) :
    cutFull size fuel xs = ([], xs) := by
  cases fuel with
  | zero => rfl
  | succ f => simp [cutFull, Nat.not_le.mpr h]

theorem emittedAppends_spec (size : Nat) (hs : 1 ≤ size) :
    ∀ (args : List (List α)) (buf : List α),
      (emittedAppends size buf args).1.flatten ++ (emittedAppends size buf args).2 = buf ++ args.flatten
      ∧ (∀ b ∈ (emittedAppends size buf args).1, b.length = size)
      ∧ (buf.length < size → (emittedAppends size buf args).2.length < size) := by
  intro args
  induction args with
  | nil => intro buf; simp [emittedAppends]
  | cons a as ih =>
    intro buf
    have hc := cutFull_spec size hs (buf ++ a).length (buf ++ a) (Nat.le_refl _)
    have ih' := ih (cutFull size (buf ++ a).length (buf ++ a)).2
    simp only [emittedAppends]
    refine ⟨?_, ?_, fun _ => ih'.2.2 hc.2.2⟩
    · rw [List.flatten_append, List.append_assoc, ih'.1, ← List.append_assoc, hc.1]
      simp
    · intro b hb
      rcases List.mem_append.mp hb with hb | hb
      · exact hc.2.1 b hb
      · exact ih'.2.1 b hb

/-- **what a buffered writer hands on is the reference chunking of everything
appended** -/
theorem emitted_isChunking (size : Nat) (hs : 1 ≤ size) (args : List (List α)) :
    IsChunking size args.flatten (emitted size args) := by
  have h := emittedAppends_spec size hs args []
  simp only [List.nil_append, List.length_nil] at h
  unfold emitted
  by_cases he : (emittedAppends size [] args).2 = []
  · simp only [he, List.isEmpty_nil, if_true]
    rw [he, List.append_nil] at h
    refine ⟨h.1, fun b hb => ?_, fun b hb => h.2.1 b (List.dropLast_subset _ hb)⟩
    have := h.2.1 b hb; omega
  · have hne : (emittedAppends size [] args).2.isEmpty = false := by
      cases hh : (emittedAppends size [] args).2 with
      | nil => exact absurd hh he
      | cons _ _ => rfl
    simp only [hne, Bool.false_eq_true, if_false]
    refine ⟨by simpa using h.1, ?_, ?_⟩
    · intro b hb
      rcases List.mem_append.mp hb with hb | hb
      · have := h.2.1 b hb; omega
      · have hb : b = (emittedAppends size [] args).2 := by simpa using hb
        have hlt := h.2.2 (by omega)
        have hpos : 0 < (emittedAppends size [] args).2.length := List.length_pos_iff.mpr he
        rw [hb]; omega
    · intro b hb
      rw [List.dropLast_concat] at hb
      exact h.2.1 b hb

theorem emitted_eq_chunks (size : Nat) (hs : 1 ≤ size) (args : List (List α)) :
    emitted size args = chunks size args.flatten :=
  isChunking_unique size hs _ _ (emitted_isChunking size hs args)

/-! ## rows and their keys -/

theorem lookup_of_not_mem_keys (r : Row β) (c : Name) (h : c ∉ rowKeys r) : r.lookup c = none := by
  induction r with
  | nil => rfl
  | cons p r ih =>
    obtain ⟨k, v⟩ := p
    simp only [rowKeys, List.map_cons, List.mem_cons, not_or] at h
    have hne : (c == k) = false := by simpa using h.1
    simp only [List.lookup, hne]
    exact ih h.2

theorem lookup_cons_ne' (c k : Name) (v : β) (r : Row β) (h : c ≠ k) :
    List.lookup c ((k, v) :: r) = List.lookup c r := by
  rw [List.lookup_cons]
  have : (c == k) = false := by simpa using h
  simp [this]

/-- looking every key up gives back the cells, when keys are distinct -/
theorem optAll_lookup_keys (r : Row β) (h : (rowKeys r).Nodup) :
    optAll ((rowKeys r).map (fun c => r.lookup c)) = some (rowVals r) := by
  induction r with
  | nil => rfl
  | cons p r ih =>
    obtain ⟨k, v⟩ := p
    have h' : k ∉ rowKeys r ∧ (rowKeys r).Nodup := by
      simpa [rowKeys] using h
    have hrest : (rowKeys r).map (fun c => List.lookup c ((k, v) :: r)) = (rowKeys r).map (fun c => r.lookup c) := by
      apply List.map_congr_left
      intro c hc
      apply lookup_cons_ne'
      rintro rfl
      exact h'.1 hc
    have hk : rowKeys ((k, v) :: r) = k :: rowKeys r := rfl
    have hv : rowVals ((k, v) :: r) = v :: rowVals r := rfl
    rw [hk, hv, List.map_cons, hrest]
    simp only [optAll, List.lookup_cons_self, Option.bind_some, ih h'.2, Option.map_some]

theorem zip_keys_vals (r : Row β) : (rowKeys r).zip (rowVals r) = r := by
  induction r with
  | nil => rfl
  | cons p r ih => simp only [rowKeys, rowVals] at ih; simp [rowKeys, rowVals, ih]

/-! ## delimited-text writer -/

theorem csv_fold (cols : List Name) (frames : List (WFrame β)) (h : ∀ f ∈ frames, f.names = cols)
    (file : CsvFile β) :
    foldOpt (csvAppend cols) (some file) frames
      = some (some ⟨file.header, file.lines ++ frames.flatMap (fun f => f.rows.map rowVals)⟩) := by
  induction frames generalizing file with
  | nil => simp [foldOpt]
  | cons f fs ih =>
    have hf := h f (by simp)
    simp only [foldOpt, csvAppend, hf, if_true, Option.elim_some, Option.bind_some]
    rw [ih (fun g hg => h g (List.mem_cons_of_mem _ hg))]
    simp [List.flatMap_cons, List.append_assoc]

/-- the text writer, run over any previous file content, leaves exactly the
header and the appended lines -/
theorem csv_run (cols : List Name) (old : Option (CsvFile β)) (frames : List (WFrame β))
    (h : ∀ f ∈ frames, f.names = cols) :
    runWriter (csvWriter cols) old frames
      = some (some ⟨cols, frames.flatMap (fun f => f.rows.map rowVals)⟩) := by
  simp only [runWriter, csvWriter, csvInit, Option.bind_some]
  rw [csv_fold cols frames h]
  simp

/-! ## Parquet writer -/

theorem pq_fold (cols : List Name) (hn : cols.Nodup) (frames : List (WFrame β))
    (h : ∀ f ∈ frames, ∀ r ∈ f.rows, rowKeys r = cols) (file : PqFile β) :
    foldOpt (pqAppend cols) (some ⟨file, true⟩) frames
      = some (some ⟨⟨file.header, file.groups ++ frames.map (fun f => f.rows.map rowVals)⟩, true⟩) := by
  induction frames generalizing file with
  | nil => simp [foldOpt]
  | cons f fs ih =>
    have hrows : optAll (f.rows.map (bySchema cols)) = some (f.rows.map rowVals) := by
      apply optAll_congr_some
      intro r hr
      have hk := h f (by simp) r hr
      unfold bySchema
      rw [← hk]
      exact optAll_lookup_keys r (by rw [hk]; exact hn)
    simp only [foldOpt, pqAppend, Option.elim_some, if_true, hrows, Option.map_some, Option.bind_some]
    rw [ih (fun g hg => h g (List.mem_cons_of_mem _ hg))]
    simp [List.append_assoc]

theorem pq_run (cols : List Name) (hn : cols.Nodup) (old : Option (PqDisk β)) (frames : List (WFrame β))
    (h : ∀ f ∈ frames, ∀ r ∈ f.rows, rowKeys r = cols) :
    runWriter (pqWriter cols) old frames
      = some (some ⟨⟨cols, frames.map (fun f => f.rows.map rowVals)⟩, false⟩) := by
  simp only [runWriter, pqWriter, pqInit, Option.bind_some]
  rw [pq_fold cols hn frames h]
  simp [pqFinalize]

/-! ## buffered writer -/

/-- well-formed argument of `append_data` for a writer with columns `cols` -/
def ArgWF (cols : List Name) (k : Kind) (a : Arg β) : Prop :=
  argOK k a = true ∧ (∀ r ∈ a.rows, rowKeys r = cols) ∧ (k ≠ Kind.dicts → a.names = cols)

/-- invariant of the buffer -/
def BufWF (cols : List Name) (k : Kind) (b : WFrame β) : Prop :=
  (∀ r ∈ b.rows, rowKeys r = cols) ∧ (k ≠ Kind.dicts → b.names = cols)

theorem emitFrame_wf (cols : List Name) (k : Kind) (b : WFrame β) (hb : BufWF cols k b)
    (slice : List (Row β)) (hne : slice ≠ []) (hs : ∀ r ∈ slice, r ∈ b.rows) :
    emitFrame k b slice = ⟨cols, slice⟩ := by
  unfold emitFrame
  congr 1
  by_cases hk : k = Kind.dicts
  · simp only [hk, if_true]
    cases slice with
    | nil => exact absurd rfl hne
    | cons r rs => simp [hb.1 r (hs r (by simp))]
  · simp only [hk, if_false]; exact hb.2 hk

/-- the flush loop hands on the full batches cut from the buffer -/
theorem flushLoop_eq (w : Writer σ β) (cols : List Name) (k : Kind) (size : Nat) (hs : 1 ≤ size) :
    ∀ (fuel : Nat) (b : WFrame β) (s : σ), BufWF cols k b →
      flushLoop w k size fuel b s
        = (foldOpt w.append s ((cutFull size fuel b.rows).1.map (fun rows => ⟨cols, rows⟩))).map
            (fun s' => (⟨b.names, (cutFull size fuel b.rows).2⟩, s')) := by
  intro fuel
  induction fuel with
  | zero => intro b s _; simp [flushLoop, cutFull, foldOpt]
  | succ fuel ih =>
    intro b s hb
    by_cases hle : size ≤ b.rows.length
    · have hne : b.rows.take size ≠ [] := by
        intro h
        have := congrArg List.length h
        simp only [List.length_take, List.length_nil] at this; omega
      have hb' : BufWF cols k ⟨b.names, b.rows.drop size⟩ :=
        ⟨fun r hr => hb.1 r (List.mem_of_mem_drop hr), hb.2⟩
      simp only [flushLoop, cutFull, hle, if_true, List.map_cons, foldOpt]
      rw [emitFrame_wf cols k b hb _ hne (fun r hr => List.mem_of_mem_take hr)]
      cases w.append s ⟨cols, b.rows.take size⟩ with
      | none => rfl
      | some s' => simp only [Option.bind_some]; rw [ih _ s' hb']
    · simp [flushLoop, cutFull, hle, foldOpt]

/-- rows currently buffered -/
def bufRows (buf : Option (WFrame β)) : List (Row β) := buf.elim [] (fun b => b.rows)

theorem bufAdd_wf (cols : List Name) (k : Kind) (buf : Option (WFrame β))
    (hbuf : ∀ b, buf = some b → BufWF cols k b) (a : Arg β) (ha : ArgWF cols k a) :
    BufWF cols k (bufAdd buf a) ∧ (bufAdd buf a).rows = bufRows buf ++ a.rows := by
  cases buf with
  | none => exact ⟨⟨ha.2.1, ha.2.2⟩, rfl⟩
  | some b =>
    have hb := hbuf b rfl
    refine ⟨⟨?_, hb.2⟩, rfl⟩
    intro r hr
    rcases List.mem_append.mp hr with h | h
    · exact hb.1 r h
    · exact ha.2.1 r h

/-- appending through the buffer = handing the cut batches to the wrapped writer -/
theorem bufFold_eq (w : Writer σ β) (cols : List Name) (k : Kind) (size : Nat) (hs : 1 ≤ size) :
    ∀ (args : List (Arg β)) (buf : Option (WFrame β)) (s : σ),
      (∀ b, buf = some b → BufWF cols k b) → (∀ a ∈ args, ArgWF cols k a) →
      ∃ buf', (∀ b, buf' = some b → BufWF cols k b)
        ∧ bufRows buf' = (emittedAppends size (bufRows buf) (args.map Arg.rows)).2
        ∧ (buf' = none → buf = none ∧ args = [])
        ∧ foldOpt (bufAppend w k size) (buf, s) args
          = (foldOpt w.append s
              ((emittedAppends size (bufRows buf) (args.map Arg.rows)).1.map (fun rows => ⟨cols, rows⟩))).map
              (fun s' => (buf', s')) := by
  intro args
  induction args with
  | nil =>
    intro buf s hbuf _
    refine ⟨buf, hbuf, rfl, ?_, by simp [foldOpt, emittedAppends]⟩
    intro h; subst h; exact ⟨rfl, rfl⟩
  | cons a as ih =>
    intro buf s hbuf hargs
    have ha := hargs a (by simp)
    obtain ⟨hwf, hrows⟩ := bufAdd_wf cols k buf hbuf a ha
    have hloop := flushLoop_eq w cols k size hs (bufAdd buf a).rows.length (bufAdd buf a) s hwf
    simp only [foldOpt, bufAppend, ha.1, if_true, List.map_cons, emittedAppends]
    rw [hloop, hrows, List.map_append, foldOpt_append]
    have hcut := cutFull_spec size hs _ (bufRows buf ++ a.rows) (Nat.le_refl _)
    have hwf' : ∀ b, some (⟨(bufAdd buf a).names,
        (cutFull size (bufRows buf ++ a.rows).length (bufRows buf ++ a.rows)).2⟩ : WFrame β) = some b →
        BufWF cols k b := by
      intro b hb
      cases hb
      refine ⟨fun r hr => hwf.1 r ?_, hwf.2⟩
      rw [hrows, ← hcut.1]
      exact List.mem_append_right _ hr
    cases hfo : foldOpt w.append s
        ((cutFull size (bufRows buf ++ a.rows).length (bufRows buf ++ a.rows)).1.map
          (fun rows => (⟨cols, rows⟩ : WFrame β))) with
    | none =>
      obtain ⟨buf', h1, h2, h3, _⟩ := ih _ s hwf' (fun x hx => hargs x (List.mem_cons_of_mem _ hx))
      refine ⟨buf', h1, by simpa [bufRows] using h2, ?_, by simp⟩
      intro hnone
      exact absurd (h3 hnone).1 (by simp)
    | some s1 =>
      simp only [Option.map_some, Option.bind_some]
      obtain ⟨buf', h1, h2, h3, h4⟩ := ih _ s1 hwf' (fun x hx => hargs x (List.mem_cons_of_mem _ hx))
      refine ⟨buf', h1, ?_, ?_, ?_⟩
      · simpa [bufRows] using h2
      · intro hnone
        exact absurd (h3 hnone).1 (by simp)
      · simpa [bufRows] using h4

/-- **a buffered writer does to the wrapped writer exactly what appending the
reference chunking of all rows would do** (any wrapped writer, any buffer kind,
any buffer size ≥ 1, any sequence of well-formed appends) -/
theorem runBuffered_eq (w : Writer σ β) (cols : List Name) (k : Kind) (size : Nat) (hs : 1 ≤ size)
    (s0 : σ) (args : List (Arg β)) (hargs : ∀ a ∈ args, ArgWF cols k a) :
    runBuffered w k size s0 args
      = runWriter w s0 ((emitted size (args.map Arg.rows)).map (fun rows => ⟨cols, rows⟩)) := by
  unfold runBuffered runWriter
  cases w.init s0 with
  | none => rfl
  | some s =>
    simp only [Option.bind_some]
    obtain ⟨buf', h1, h2, h3, h4⟩ := bufFold_eq w cols k size hs args none s (by simp) hargs
    have hspec := emittedAppends_spec size hs (args.map Arg.rows) []
    simp only [bufRows, Option.elim_none, List.length_nil] at h2 h4 hspec
    rw [h4]
    unfold emitted
    cases hfo : foldOpt w.append s ((emittedAppends size [] (args.map Arg.rows)).1.map
        (fun rows => (⟨cols, rows⟩ : WFrame β))) with
    | none =>
      simp only [Option.map_none, Option.bind_none]
      split
      · rw [hfo]; rfl
      · rw [List.map_append, foldOpt_append, hfo]; rfl
    | some s1 =>
      simp only [Option.map_some, Option.bind_some, bufFinalize, forceFlush]
      cases buf' with
      | none =>
        have := h3 rfl
        simp only [this.2, List.map_nil, emittedAppends, List.isEmpty_nil, if_true] at hfo ⊢
        simp only [foldOpt] at hfo ⊢
        cases hfo
        simp only [Option.elim_none, Option.bind_some]
        cases w.fin s <;> rfl
      | some b =>
        have hb := h1 b rfl
        simp only [bufRows, Option.elim_some] at h2
        have hlt : b.rows.length < size := by rw [h2]; exact hspec.2.2 (by omega)
        have hloop := flushLoop_eq w cols k size hs b.rows.length b s1 hb
        rw [cutFull_short size _ _ hlt] at hloop
        simp only [List.map_nil, foldOpt, Option.map_some] at hloop
        simp only [Option.elim_some, hloop, Option.bind_some]
        by_cases he : b.rows = []
        · have he2 : (emittedAppends size [] (args.map Arg.rows)).2 = [] := by rw [← h2, he]
          simp only [he, List.isEmpty_nil, if_true, he2, hfo, Option.bind_some]
          cases w.fin s1 <;> rfl
        · have he2 : (emittedAppends size [] (args.map Arg.rows)).2.isEmpty = false := by
            rw [← h2]
            cases hh : b.rows with
            | nil => exact absurd hh he
            | cons _ _ => rfl
          have he3 : b.rows.isEmpty = false := by
            cases hh : b.rows with
            | nil => exact absurd hh he
            | cons _ _ => rfl
          simp only [he3, he2, Bool.false_eq_true, if_false, List.map_append, foldOpt_append, hfo,
            Option.bind_some, List.map_cons, List.map_nil, foldOpt]
          rw [emitFrame_wf cols k b hb b.rows he (fun r hr => hr), h2]
          cases w.append s1 ⟨cols, (emittedAppends size [] (args.map Arg.rows)).2⟩ with
          | none => rfl
          | some s2 =>
            simp only [Option.map_some, Option.bind_some]
            cases w.fin s2 <;> rfl

end Mk.Tabular
