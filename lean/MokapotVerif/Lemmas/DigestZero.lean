import MokapotVerif.Lemmas.DigestPat
import MokapotVerif.Model.DigestZero
/-!
Zero-width enzyme rules: the scan `matchEndsZ` as a filtered range, the shape of
the list of sites (`sitesOf …`, with a second 0 in front when the rule matches at
position 0), the double loop of `_cleave` over a list of sites that starts with a
duplicated 0, and the resulting characterisation of `digestZ`.
-/
namespace Mk

/-! ## the clip branch is dead for `start_idx ≠ 0` -/

theorem clipPeps_off (lo : Nat) (clip : Bool) (i : Nat) (pep : Pep) (h : clip = false ∨ i ≠ 0) :
    clipPeps lo clip i pep = [] := by
  unfold clipPeps
  rcases h with h | h
  · subst h; simp
  · have : (i == 0) = false := by simpa using h
    simp [this]

theorem pepsOf_off (lo hi : Nat) (semi clip : Bool) (i : Nat) (pep : Pep) (h : clip = false ∨ i ≠ 0) :
    pepsOf lo hi semi clip i pep = pepsOf lo hi semi false 0 pep := by
  unfold pepsOf
  rw [clipPeps_off lo clip i pep h, clipPeps_off lo false 0 pep (Or.inl rfl)]

theorem mem_pepsOf_nil (lo hi : Nat) (semi clip : Bool) (i : Nat) (p : Pep) :
    p ∈ pepsOf lo hi semi clip i [] ↔ lo = 0 ∧ p = [] := by
  rw [mem_pepsOf]
  constructor
  · rintro ⟨h1, -, h | ⟨-, -, c3, -⟩ | ⟨-, k, -, k2, -⟩⟩
    · simp only [List.length_nil] at h1
      exact ⟨by omega, h⟩
    · simp at c3
    · simp only [List.length_nil] at k2; omega
  · rintro ⟨h1, h2⟩
    subst h1 h2
    exact ⟨Nat.zero_le _, Nat.zero_le _, Or.inl rfl⟩

theorem slice_zero_zero (seq : List Char) : slice seq 0 0 = [] := by
  unfold slice; simp

/-! ## `_cleave` over a list of sites whose first entry is repeated -/

/-- the double loop over `0 :: T` where `T` itself starts with 0: the pairs with
`start_idx ≥ 1` are the pairs of `T` with the clip branch dead; the pairs with
`start_idx = 0` are the pair (0, 0) — the empty peptide — and the N-terminal pairs
of `T` reached one `diff_idx` later. -/
theorem mem_cleave_cons_zero (seq : List Char) (T : List Nat) (mc lo hi : Nat) (semi clip : Bool)
    (p : Pep) (hT : T[0]? = some 0) :
    p ∈ cleave seq (0 :: T) mc lo hi semi clip ↔
      p ∈ cleave seq T mc lo hi semi false ∨ (lo = 0 ∧ p = [])
        ∨ (1 ≤ mc ∧ p ∈ cleave seq T (mc - 1) lo hi semi clip) := by
  rw [mem_cleave, mem_cleave, mem_cleave]
  constructor
  · rintro ⟨i, d, s, t, hs, d1, d2, ht, hp⟩
    cases i with
    | zero =>
      simp only [List.getElem?_cons_zero, Option.some.injEq] at hs
      subst hs
      obtain ⟨d', rfl⟩ : ∃ d', d = d' + 1 := ⟨d - 1, by omega⟩
      rw [Nat.zero_add, List.getElem?_cons_succ] at ht
      by_cases hd : d' = 0
      · subst hd
        rw [hT] at ht
        cases ht
        right; left
        rw [slice_zero_zero] at hp
        exact (mem_pepsOf_nil _ _ _ _ _ _).mp hp
      · right; right
        refine ⟨by omega, 0, d', 0, t, hT, by omega, by omega, ?_, hp⟩
        rw [Nat.zero_add]; exact ht
    | succ j =>
      left
      rw [List.getElem?_cons_succ] at hs
      rw [show j + 1 + d = (j + d) + 1 by omega, List.getElem?_cons_succ] at ht
      refine ⟨j, d, s, t, hs, d1, d2, ht, ?_⟩
      rw [pepsOf_off _ _ _ _ _ _ (Or.inr (Nat.succ_ne_zero j))] at hp
      rw [pepsOf_off _ _ _ _ _ _ (Or.inl rfl)]
      exact hp
  · rintro (⟨j, d, s, t, hs, d1, d2, ht, hp⟩ | ⟨hlo, hp⟩ | ⟨hmc, j, d, s, t, hs, d1, d2, ht, hp⟩)
    · refine ⟨j + 1, d, s, t, ?_, d1, d2, ?_, ?_⟩
      · rw [List.getElem?_cons_succ]; exact hs
      · rw [show j + 1 + d = (j + d) + 1 by omega, List.getElem?_cons_succ]; exact ht
      · rw [pepsOf_off _ _ _ _ _ _ (Or.inl rfl)] at hp
        rw [pepsOf_off _ _ _ _ _ _ (Or.inr (Nat.succ_ne_zero j))]
        exact hp
    · refine ⟨0, 1, 0, 0, by simp, Nat.le_refl _, by omega, ?_, ?_⟩
      · rw [Nat.zero_add, List.getElem?_cons_succ]; exact hT
      · rw [slice_zero_zero]
        exact (mem_pepsOf_nil _ _ _ _ _ _).mpr ⟨hlo, hp⟩
    · cases j with
      | zero =>
        rw [hT] at hs
        cases hs
        refine ⟨0, d + 1, 0, t, by simp, by omega, by omega, ?_, hp⟩
        rw [Nat.zero_add] at ht
        rw [Nat.zero_add, List.getElem?_cons_succ]; exact ht
      | succ j' =>
        refine ⟨j' + 1 + 1, d, s, t, ?_, d1, by omega, ?_, ?_⟩
        · rw [List.getElem?_cons_succ]; exact hs
        · rw [show j' + 1 + 1 + d = (j' + 1 + d) + 1 by omega, List.getElem?_cons_succ]; exact ht
        · rw [pepsOf_off _ _ _ _ _ _ (Or.inr (Nat.succ_ne_zero j'))] at hp
          rw [pepsOf_off _ _ _ _ _ _ (Or.inr (Nat.succ_ne_zero (j' + 1)))]
          exact hp

/-! ## the scan reports the positions where both assertions hold -/

/-- the residue left of position `j` of a suffix whose left neighbour is `prev` -/
def prevFrom (prev : Option Char) (suf : List Char) : Nat → Option Char
  | 0 => prev
  | q + 1 => suf[q]?

theorem prevFrom_cons (prev : Option Char) (c : Char) (rest : List Char) (j : Nat) :
    prevFrom prev (c :: rest) (j + 1) = prevFrom (some c) rest j := by
  cases j <;> simp [prevFrom]

theorem matchEndsZ_eq_filter (e : EnzymeZ) (off : Nat) (prev : Option Char) (suf : List Char) :
    matchEndsZ e off prev suf
      = ((List.range (suf.length + 1)).filter
          (fun j => zeroOk e (prevFrom prev suf j) (suf.drop j))).map (· + off) := by
  induction suf generalizing off prev with
  | nil =>
    simp only [matchEndsZ, List.length_nil, Nat.zero_add, List.range_one, List.filter_cons,
      List.filter_nil, prevFrom, List.drop_nil]
    split <;> simp
  | cons c rest ih =>
    have hf : ((fun j => zeroOk e (prevFrom prev (c :: rest) j) ((c :: rest).drop j)) ∘ Nat.succ)
        = (fun j => zeroOk e (prevFrom (some c) rest j) (rest.drop j)) := by
      funext j
      simp only [Function.comp, Nat.succ_eq_add_one, prevFrom_cons, List.drop_succ_cons]
    have hm : ((fun x => x + off) ∘ Nat.succ) = (fun x => x + (off + 1)) := by
      funext j; simp only [Function.comp, Nat.succ_eq_add_one]; omega
    rw [List.length_cons, List.range_succ_eq_map, List.filter_cons, List.filter_map, hf]
    simp only [matchEndsZ, prevFrom, List.drop_zero, ih (off + 1) (some c)]
    split <;> simp [List.map_map, hm]

theorem prevFrom_none (seq : List Char) : prevFrom none seq = prevAt seq := by
  funext j; cases j <;> rfl

theorem matchEndsZ_top (e : EnzymeZ) (seq : List Char) :
    matchEndsZ e 0 none seq = (List.range (seq.length + 1)).filter (isEndZ e seq) := by
  rw [matchEndsZ_eq_filter]
  simp only [Nat.add_zero, List.map_id']
  apply List.filter_congr
  intro j hj
  rw [List.mem_range] at hj
  have hle : decide (j ≤ seq.length) = true := by simp; omega
  unfold isEndZ zeroOk
  rw [prevFrom_none, List.head?_drop, hle, Bool.true_and]

/-! ## the list of sites -/

/-- cleavage positions other than the C-terminal end -/
def innerSiteZ (e : EnzymeZ) (seq : List Char) (p : Nat) : Bool := p == 0 || isEndZ e seq p

theorem innerSiteZ_zero (e : EnzymeZ) (seq : List Char) : innerSiteZ e seq 0 = true := by
  simp [innerSiteZ]

theorem siteOf_innerSiteZ (e : EnzymeZ) (seq : List Char) :
    siteOf (innerSiteZ e seq) seq.length = isSiteZ e seq := by
  funext p
  unfold siteOf innerSiteZ isSiteZ
  cases (p == 0) <;> cases (p == seq.length) <;> cases (isEndZ e seq p) <;> rfl

theorem innerSiteZ_length (e : EnzymeZ) (seq : List Char) :
    innerSiteZ e seq seq.length = endDupZ e seq := rfl

/-- no match at position 0: the sites have the shape of `Lemmas/DigestGen.lean` -/
theorem cleavageSitesZ_eq_of_noDup (e : EnzymeZ) (seq : List Char) (h : startDupZ e seq = false) :
    cleavageSitesZ e seq = sitesOf (innerSiteZ e seq) seq.length := by
  unfold cleavageSitesZ sitesOf
  rw [matchEndsZ_top, ← List.cons_append]
  congr 1
  have h0 : isEndZ e seq 0 = false := h
  rw [List.range_succ_eq_map, List.filter_cons, List.filter_cons, h0, innerSiteZ_zero]
  simp only [Bool.false_eq_true, if_false, if_true, List.cons.injEq, true_and]
  apply List.filter_congr
  intro x hx
  rw [List.mem_map] at hx
  obtain ⟨y, -, rfl⟩ := hx
  simp [innerSiteZ]

/-- a match at position 0: one more 0 in front -/
theorem cleavageSitesZ_eq_of_dup (e : EnzymeZ) (seq : List Char) (h : startDupZ e seq = true) :
    cleavageSitesZ e seq = 0 :: sitesOf (innerSiteZ e seq) seq.length := by
  unfold cleavageSitesZ sitesOf
  rw [matchEndsZ_top]
  congr 2
  have h0 : isEndZ e seq 0 = true := h
  apply List.filter_congr
  intro x _
  by_cases hx : x = 0
  · subst hx; rw [h0, innerSiteZ_zero]
  · simp [innerSiteZ, hx]

theorem sitesOf_head (P : Nat → Bool) (h0 : P 0 = true) (n : Nat) : (sitesOf P n)[0]? = some 0 := by
  rw [sitesOf_getElem?]
  exact Or.inl ⟨Nat.zero_le _, h0, rfl⟩

/-! ## the specification with a duplicated first site -/

theorem digestSpecSD_false (S : Nat → Bool) (seq : List Char) (mc lo hi : Nat) (clip semi : Bool)
    (p : Pep) :
    DigestSpecSD S false seq mc lo hi clip semi p ↔ DigestSpecS S seq mc lo hi clip semi p := by
  unfold DigestSpecSD DigestSpecS
  constructor
  · rintro ⟨a, b, hE, h | ⟨c1, c2, c3, c4, -, c6⟩ | h⟩
    · exact ⟨a, b, hE, Or.inl h⟩
    · exact ⟨a, b, hE, Or.inr (Or.inl ⟨c1, c2, c3, c4, c6⟩)⟩
    · exact ⟨a, b, hE, Or.inr (Or.inr h)⟩
  · rintro ⟨a, b, hE, h | ⟨c1, c2, c3, c4, c6⟩ | h⟩
    · exact ⟨a, b, hE, Or.inl h⟩
    · exact ⟨a, b, hE, Or.inr (Or.inl ⟨c1, c2, c3, c4, fun h => (by cases h), c6⟩)⟩
    · exact ⟨a, b, hE, Or.inr (Or.inr h)⟩

theorem digestSpecSD_true (S : Nat → Bool) (seq : List Char) (mc lo hi : Nat) (clip semi : Bool)
    (p : Pep) :
    DigestSpecSD S true seq mc lo hi clip semi p ↔
      DigestSpecS S seq mc lo hi false semi p
        ∨ (1 ≤ mc ∧ DigestSpecS S seq (mc - 1) lo hi clip semi p) := by
  unfold DigestSpecSD DigestSpecS EnzymaticS
  constructor
  · rintro ⟨a, b, hE, h | ⟨c1, c2, c3, c4, c5, c6⟩ | h⟩
    · exact Or.inl ⟨a, b, hE, Or.inl h⟩
    · have c5 := c5 rfl
      subst c2
      obtain ⟨e1, e2, e3, e4, e5, e6, e7⟩ := hE
      exact Or.inr ⟨by omega, 0, b, ⟨e1, e2, e3, e4, by omega, e6, e7⟩,
        Or.inr (Or.inl ⟨c1, rfl, c3, c4, c6⟩)⟩
    · exact Or.inl ⟨a, b, hE, Or.inr (Or.inr h)⟩
  · rintro (⟨a, b, hE, h | ⟨c1, -⟩ | h⟩ | ⟨hmc, a, b, ⟨e1, e2, e3, e4, e5, e6, e7⟩, h⟩)
    · exact ⟨a, b, hE, Or.inl h⟩
    · cases c1
    · exact ⟨a, b, hE, Or.inr (Or.inr h)⟩
    · refine ⟨a, b, ⟨e1, e2, e3, e4, by omega, e6, e7⟩, ?_⟩
      rcases h with h | ⟨c1, c2, c3, c4, c6⟩ | h
      · exact Or.inl h
      · subst c2
        exact Or.inr (Or.inl ⟨c1, rfl, c3, c4, fun _ => (by omega), c6⟩)
      · exact Or.inr (Or.inr h)

/-- weakening: whatever `DigestSpecSD` allows, `DigestSpecS` allows -/
theorem digestSpecSD_sub (S : Nat → Bool) (dup : Bool) (seq : List Char) (mc lo hi : Nat)
    (clip semi : Bool) (p : Pep) (h : DigestSpecSD S dup seq mc lo hi clip semi p) :
    DigestSpecS S seq mc lo hi clip semi p := by
  unfold DigestSpecSD at h
  unfold DigestSpecS
  obtain ⟨a, b, hE, h | ⟨c1, c2, c3, c4, -, c6⟩ | h⟩ := h
  · exact ⟨a, b, hE, Or.inl h⟩
  · exact ⟨a, b, hE, Or.inr (Or.inl ⟨c1, c2, c3, c4, c6⟩)⟩
  · exact ⟨a, b, hE, Or.inr (Or.inr h)⟩

/-- … and without clipping the two coincide -/
theorem digestSpecSD_noclip (S : Nat → Bool) (dup : Bool) (seq : List Char) (mc lo hi : Nat)
    (semi : Bool) (p : Pep) :
    DigestSpecSD S dup seq mc lo hi false semi p ↔ DigestSpecS S seq mc lo hi false semi p := by
  constructor
  · exact digestSpecSD_sub S dup seq mc lo hi false semi p
  · unfold DigestSpecSD DigestSpecS
    rintro ⟨a, b, hE, h | ⟨c1, -⟩ | h⟩
    · exact ⟨a, b, hE, Or.inl h⟩
    · cases c1
    · exact ⟨a, b, hE, Or.inr (Or.inr h)⟩

/-! ## main equivalence -/

theorem mem_digestZ_iff_spec (e : EnzymeZ) (seq : List Char) (mc lo hi : Nat) (clip semi : Bool)
    (p : Pep) :
    p ∈ digestZ e seq mc lo hi clip semi ↔ DigestSpecZ e seq mc lo hi clip semi p := by
  unfold digestZ DigestSpecZ
  cases hd : startDupZ e seq with
  | false =>
    rw [cleavageSitesZ_eq_of_noDup e seq hd,
      mem_cleave_sitesOf (innerSiteZ e seq) (innerSiteZ_zero e seq) seq mc lo hi clip semi p,
      siteOf_innerSiteZ, innerSiteZ_length, digestSpecSD_false]
    simp
  | true =>
    rw [cleavageSitesZ_eq_of_dup e seq hd,
      mem_cleave_cons_zero seq _ mc lo hi semi clip p
        (sitesOf_head _ (innerSiteZ_zero e seq) _),
      mem_cleave_sitesOf (innerSiteZ e seq) (innerSiteZ_zero e seq) seq mc lo hi false semi p,
      mem_cleave_sitesOf (innerSiteZ e seq) (innerSiteZ_zero e seq) seq (mc - 1) lo hi clip semi p,
      siteOf_innerSiteZ, innerSiteZ_length, digestSpecSD_true]
    constructor
    · rintro ((h | ⟨h1, h2, -⟩) | ⟨h1, h2⟩ | ⟨hmc, h | ⟨h1, h2, -⟩⟩)
      · exact Or.inl (Or.inl h)
      · exact Or.inr ⟨h1, h2, Or.inl rfl⟩
      · exact Or.inr ⟨h1, h2, Or.inl rfl⟩
      · exact Or.inl (Or.inr ⟨hmc, h⟩)
      · exact Or.inr ⟨h1, h2, Or.inl rfl⟩
    · rintro ((h | ⟨hmc, h⟩) | ⟨h1, h2, -⟩)
      · exact Or.inl (Or.inl h)
      · exact Or.inr (Or.inr ⟨hmc, Or.inl h⟩)
      · exact Or.inr (Or.inl ⟨h1, h2⟩)

/-! ## the enumerations -/

theorem mem_specListZS (S : Nat → Bool) (dup : Bool) (seq : List Char) (mc lo hi : Nat)
    (clip semi : Bool) (p : Pep) :
    p ∈ specListZS S dup seq mc lo hi clip semi ↔ DigestSpecSD S dup seq mc lo hi clip semi p := by
  unfold specListZS DigestSpecSD
  simp only [List.mem_flatMap, List.mem_range]
  constructor
  · rintro ⟨a, -, b, -, hp⟩
    unfold specAtZ at hp
    by_cases hE : EnzymaticS S seq.length mc lo hi a b
    · rw [if_pos hE] at hp
      refine ⟨a, b, hE, ?_⟩
      simp only [List.mem_cons, List.mem_append] at hp
      rcases hp with hp | hp | hp
      · exact Or.inl hp
      · by_cases hc : (clip && a == 0 && seq.head? == some 'M' && decide (lo ≤ b - 1)
            && (!dup || decide (missedS S 0 b + 1 ≤ mc))) = true
        · rw [if_pos hc] at hp
          simp only [Bool.and_eq_true, beq_iff_eq, decide_eq_true_eq, Bool.or_eq_true,
            Bool.not_eq_true'] at hc
          obtain ⟨⟨⟨⟨c1, c2⟩, c3⟩, c4⟩, c5⟩ := hc
          refine Or.inr (Or.inl ⟨c1, c2, c3, c4, ?_, by simpa using hp⟩)
          intro hdup
          rcases c5 with c5 | c5
          · rw [hdup] at c5; cases c5
          · exact c5
        · rw [if_neg hc] at hp; simp at hp
      · cases semi
        · simp at hp
        · simp only [if_true, List.mem_flatMap, List.mem_range] at hp
          obtain ⟨k, hk, hp⟩ := hp
          by_cases hc : (decide (1 ≤ k) && decide (lo ≤ b - a - k)) = true
          · rw [if_pos hc] at hp
            simp only [Bool.and_eq_true, decide_eq_true_eq] at hc
            simp only [List.mem_cons, List.not_mem_nil, or_false] at hp
            exact Or.inr (Or.inr ⟨rfl, k, hc.1, hk, hc.2, hp⟩)
          · rw [if_neg hc] at hp; simp at hp
    · rw [if_neg hE] at hp; simp at hp
  · rintro ⟨a, b, hE, hp⟩
    have hE' := hE
    obtain ⟨hab, hbn, -⟩ := hE'
    refine ⟨a, by omega, b, by omega, ?_⟩
    unfold specAtZ
    rw [if_pos hE]
    simp only [List.mem_cons, List.mem_append]
    rcases hp with hp | ⟨c1, c2, c3, c4, c5, c6⟩ | ⟨s1, k, k1, k2, k3, k4⟩
    · exact Or.inl hp
    · refine Or.inr (Or.inl ?_)
      have hc : (clip && a == 0 && seq.head? == some 'M' && decide (lo ≤ b - 1)
            && (!dup || decide (missedS S 0 b + 1 ≤ mc))) = true := by
        cases dup
        · simp [c1, c2, c3, c4]
        · simp [c1, c2, c3, c4, c5 rfl]
      rw [if_pos hc]; simp [c6]
    · refine Or.inr (Or.inr ?_)
      subst s1
      simp only [if_true, List.mem_flatMap, List.mem_range]
      refine ⟨k, k2, ?_⟩
      have hc : (decide (1 ≤ k) && decide (lo ≤ b - a - k)) = true := by simp [k1, k3]
      rw [if_pos hc]
      simpa using k4

theorem endsTableZ_contains (e : EnzymeZ) (seq : List Char) (p : Nat) :
    (endsTableZ e seq).contains p = isEndZ e seq p := by
  rw [Bool.eq_iff_iff, List.contains_iff_mem]
  unfold endsTableZ
  rw [List.mem_filter, List.mem_range]
  constructor
  · exact fun h => h.2
  · intro h
    refine ⟨?_, h⟩
    unfold isEndZ at h
    simp only [Bool.and_eq_true, decide_eq_true_eq] at h
    omega

theorem siteTableZ_eq (e : EnzymeZ) (seq : List Char) :
    (fun p => p == 0 || p == seq.length || (endsTableZ e seq).contains p) = isSiteZ e seq := by
  funext p
  rw [endsTableZ_contains]; rfl

theorem emptyFlagZ_eq (e : EnzymeZ) (seq : List Char) :
    ((endsTableZ e seq).contains 0 || seq.length == 0 || (endsTableZ e seq).contains seq.length)
      = (startDupZ e seq || endDupZ e seq) := by
  rw [endsTableZ_contains, endsTableZ_contains]
  unfold startDupZ endDupZ
  rw [Bool.or_assoc]

theorem mem_specListZ (e : EnzymeZ) (seq : List Char) (mc lo hi : Nat) (clip semi : Bool) (p : Pep) :
    p ∈ specListZ e seq mc lo hi clip semi ↔ DigestSpecZ e seq mc lo hi clip semi p := by
  show p ∈ specListZS (fun p => p == 0 || p == seq.length || (endsTableZ e seq).contains p)
        ((endsTableZ e seq).contains 0) seq mc lo hi clip semi
      ++ (if lo == 0 && ((endsTableZ e seq).contains 0 || seq.length == 0
            || (endsTableZ e seq).contains seq.length) then [[]] else []) ↔ _
  unfold DigestSpecZ
  rw [siteTableZ_eq, emptyFlagZ_eq, endsTableZ_contains, List.mem_append, mem_specListZS]
  have hs : isEndZ e seq 0 = startDupZ e seq := rfl
  rw [hs]
  by_cases hc : (lo == 0 && (startDupZ e seq || endDupZ e seq)) = true
  · rw [if_pos hc]
    simp only [Bool.and_eq_true, beq_iff_eq, Bool.or_eq_true] at hc
    simp [hc.1, hc.2]
  · rw [if_neg hc]
    simp only [Bool.and_eq_true, beq_iff_eq, Bool.or_eq_true] at hc
    simp only [List.not_mem_nil, or_false]
    constructor
    · exact Or.inl
    · rintro (h | ⟨h1, -, h3⟩)
      · exact h
      · exact absurd ⟨h1, h3⟩ hc

theorem mem_specListZI (e : EnzymeZ) (seq : List Char) (mc lo hi : Nat) (clip semi : Bool) (p : Pep) :
    p ∈ specListZI e seq mc lo hi clip semi ↔ DigestSpecZI e seq mc lo hi clip semi p := by
  show p ∈ specListS (fun p => p == 0 || p == seq.length || (endsTableZ e seq).contains p)
        seq mc lo hi clip semi
      ++ (if lo == 0 && ((endsTableZ e seq).contains 0 || seq.length == 0
            || (endsTableZ e seq).contains seq.length) then [[]] else []) ↔ _
  unfold DigestSpecZI
  rw [siteTableZ_eq, emptyFlagZ_eq, List.mem_append, mem_specListS]
  by_cases hc : (lo == 0 && (startDupZ e seq || endDupZ e seq)) = true
  · rw [if_pos hc]
    simp only [Bool.and_eq_true, beq_iff_eq, Bool.or_eq_true] at hc
    simp [hc.1, hc.2]
  · rw [if_neg hc]
    simp only [Bool.and_eq_true, beq_iff_eq, Bool.or_eq_true] at hc
    simp only [List.not_mem_nil, or_false]
    constructor
    · exact Or.inl
    · rintro (h | ⟨h1, -, h3⟩)
      · exact h
      · exact absurd ⟨h1, h3⟩ hc

/-! ## the look-behind spelling of a one-residue enzyme marks the same positions -/

theorem isEndZ_toZ (e : Enzyme) (seq : List Char) (p : Nat) :
    isEndZ e.toZ seq p = endsAt e seq p := by
  unfold isEndZ endsAt Enzyme.toZ
  cases p with
  | zero => simp [prevAt]
  | succ q =>
    simp only [prevAt, Nat.add_sub_cancel]
    by_cases hq : q < seq.length
    · have h1 : decide (q + 1 ≤ seq.length) = true := by simp; omega
      have h2 : decide (0 < q + 1) = true := by simp
      rw [h1, h2]
      cases seq[q]? <;> cases seq[q + 1]? <;> simp [ResClass.has]
    · have h1 : decide (q + 1 ≤ seq.length) = false := by simp; omega
      have h3 : seq[q]? = none := List.getElem?_eq_none (by omega)
      rw [h1, h3]
      simp

theorem isSiteZ_toZ (e : Enzyme) (seq : List Char) : isSiteZ e.toZ seq = isSite e seq := by
  funext p
  unfold isSiteZ isSite
  rw [isEndZ_toZ]

theorem startDupZ_toZ (e : Enzyme) (seq : List Char) : startDupZ e.toZ seq = false := by
  unfold startDupZ
  rw [isEndZ_toZ]
  simp [endsAt]

theorem endDupZ_toZ (e : Enzyme) (seq : List Char) : endDupZ e.toZ seq = endDup e seq := by
  unfold endDupZ endDup
  rw [isEndZ_toZ]

end Mk
