import MokapotVerif.Lemmas.Fit
/-! Helper lemmas for C12: the training loop equals its bookkeeping-free specification. -/
namespace Mk.Fit
variable {α β γ ρ θ : Type}

theorem trainSet_gather (rows : List ρ) (L : List Int) (s : List Nat)
    (hr : ∀ i ∈ s, i < rows.length) (hl : ∀ i ∈ s, i < L.length) :
    trainSet (gather rows s) (gather L s) = s.filterMap (pairAt rows L) := by
  unfold trainSet
  rw [gather_zip rows L s hr hl]
  unfold gather
  rw [List.filterMap_filterMap]
  rfl

theorem trainSet_eq_range (rows : List ρ) (L : List Int) (h : rows.length = L.length) :
    trainSet rows L = (List.range rows.length).filterMap (pairAt rows L) := by
  have h1 := trainSet_gather rows L (List.range rows.length)
    (fun i hi => List.mem_range.mp hi) (fun i hi => by rw [← h]; exact List.mem_range.mp hi)
  rw [gather_range] at h1
  have h2 : gather L (List.range rows.length) = L := by rw [h]; exact gather_range L
  rw [h2] at h1
  exact h1

theorem numPos_gather (L : List Int) (s : List Nat) (h : s.Perm (List.range L.length)) :
    numPos (gather L s) = numPos L := (gather_perm L s h).count_eq 1

/-- the loop invariant: features and labels are both in `s`-order of the same PSM-ordered data -/
theorem loopGo_eq_specGo (est : Est ρ α θ) (relabel : List α → List Int) (s : List Nat) (n : Nat)
    (hs : s.Perm (List.range n)) (rows : List ρ) (hr : rows.length = n)
    (hrel : ∀ sc : List α, sc.length = n → (relabel sc).length = n) :
    ∀ (k : Nat) (th : θ) (L : List Int), L.length = n →
      loopGo est relabel s (argsort s) (gather rows s) k th (gather L s) = specGo est relabel s rows k th L := by
  have hlt := perm_range_lt hs
  intro k
  induction k with
  | zero =>
    intro th L hL
    simp only [loopGo, specGo]
    rw [numPos_gather L s (by rw [hL]; exact hs)]
  | succ k ih =>
    intro th L hL
    simp only [loopGo, specGo]
    have hts : trainSet (gather rows s) (gather L s) = s.filterMap (pairAt rows L) :=
      trainSet_gather rows L s (by rw [hr]; exact hlt) (by rw [hL]; exact hlt)
    rw [hts]
    generalize est.fit th (s.filterMap (pairAt rows L)) = th'
    have hsc : gather ((gather rows s).map (est.score th')) (argsort s) = rows.map (est.score th') := by
      rw [← gather_map, gather_gather _ _ _ (by rw [List.length_map, hr]; exact hlt),
        gather_argsort s n hs]
      have : n = (rows.map (est.score th')).length := by simp [hr]
      rw [this]
      exact gather_range _
    rw [hsc]
    have hlen : (relabel (rows.map (est.score th'))).length = n := hrel _ (by simp [hr])
    rw [numPos_gather _ s (by rw [hlen]; exact hs)]
    split
    · rfl
    · rw [ih th' _ hlen]

theorem fitLoop_eq_specGo (est : Est ρ α θ) (relabel : List α → List Int) (shuffle : Bool) (perm : List Nat)
    (k : Nat) (th0 : θ) (rows : List ρ) (start : List Int)
    (hp : perm.Perm (List.range rows.length)) (hst : start.length = rows.length)
    (hrel : ∀ sc : List α, sc.length = rows.length → (relabel sc).length = rows.length) :
    fitLoop est relabel shuffle perm k th0 rows start
      = specGo est relabel (if shuffle then perm else List.range rows.length) rows k th0 start := by
  unfold fitLoop
  cases shuffle with
  | true =>
    simp only [if_true]
    exact loopGo_eq_specGo est relabel perm rows.length hp rows rfl hrel k th0 start hst
  | false =>
    simp only [Bool.false_eq_true, if_false]
    have h := loopGo_eq_specGo est relabel (List.range rows.length) rows.length (List.Perm.refl _) rows rfl hrel
      k th0 start hst
    rw [gather_range] at h
    have h2 : gather start (List.range rows.length) = start := by rw [← hst]; exact gather_range start
    rw [h2] at h
    rw [hst]
    exact h

/-! ### the presentation order does not matter to a permutation-invariant learner -/

/-- `fit` ignores the order of its training examples -/
def PermInvariant (est : Est ρ α θ) : Prop := ∀ (th : θ) (a b : List (ρ × Bool)), a.Perm b → est.fit th a = est.fit th b

theorem specGo_order_invariant (est : Est ρ α θ) (hfit : PermInvariant est) (relabel : List α → List Int)
    (o1 o2 : List Nat) (h : o1.Perm o2) (rows : List ρ) :
    ∀ (k : Nat) (th : θ) (L : List Int),
      (specGo est relabel o1 rows k th L).final = (specGo est relabel o2 rows k th L).final ∧
      List.Forall₂ List.Perm (specGo est relabel o1 rows k th L).trace (specGo est relabel o2 rows k th L).trace := by
  intro k
  induction k with
  | zero => intro th L; simp [specGo]
  | succ k ih =>
    intro th L
    simp only [specGo]
    have hp : (o1.filterMap (pairAt rows L)).Perm (o2.filterMap (pairAt rows L)) := List.Perm.filterMap _ h
    rw [hfit th _ _ hp]
    split
    · exact ⟨rfl, List.Forall₂.cons hp List.Forall₂.nil⟩
    · obtain ⟨h1, h2⟩ := ih (est.fit th (o2.filterMap (pairAt rows L))) (relabel (rows.map (est.score (est.fit th (o2.filterMap (pairAt rows L))))))
      exact ⟨h1, List.Forall₂.cons hp h2⟩

/-! ### number of `fit` calls -/

theorem loopGo_trace_length (est : Est ρ α θ) (relabel : List α → List Int) (s o : List Nat) (feat : List ρ) :
    ∀ (k : Nat) (th : θ) (t : List Int),
      let r := loopGo est relabel s o feat k th t
      (r.final.isSome → r.trace.length = k) ∧ (r.final = none → 1 ≤ r.trace.length ∧ r.trace.length ≤ k) := by
  intro k
  induction k with
  | zero => intro th t; simp [loopGo]
  | succ k ih =>
    intro th t
    simp only [loopGo]
    split
    · simp
    · obtain ⟨h1, h2⟩ := ih (est.fit th (trainSet feat t))
        (gather (relabel (gather (feat.map (est.score (est.fit th (trainSet feat t)))) o)) s)
      simp only [consTrace, List.length_cons]
      constructor
      · intro h; rw [h1 h]
      · intro h; have := h2 h; omega

end Mk.Fit
