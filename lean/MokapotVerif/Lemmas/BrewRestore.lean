import MokapotVerif.Model.BrewRestore
import MokapotVerif.Lemmas.BrewBlocks
/-!
# Helper lemmas for `Model/BrewRestore.lean`: `argsort` + fancy indexing = lookup by label
-/
namespace Mk.Brew

/-! ## generic list facts -/

theorem map_getD_range (keys : List Nat) :
    (List.range keys.length).map (fun j => keys.getD j 0) = keys := by
  apply List.ext_getElem
  · simp
  · intro i h1 h2
    simp at h1
    simp [h1]

/-- the keys read along an `argsort` of a permutation of `0 … n-1` are `0, 1, …, n-1` -/
theorem argsort_keys (keys perm : List Nat) (n : Nat) (hk : keys.Perm (List.range n))
    (hp : ArgsortOf keys perm) : perm.map (fun j => keys.getD j 0) = List.range n := by
  obtain ⟨hperm, hsorted⟩ := hp
  have h1 : (perm.map (fun j => keys.getD j 0)).Perm (List.range n) := by
    have := hperm.map (fun j => keys.getD j 0)
    rw [map_getD_range] at this
    exact this.trans hk
  apply List.Perm.eq_of_pairwise (le := (· ≤ ·)) _ hsorted _ h1
  · intro a b _ _ h1 h2
    exact Nat.le_antisymm h1 h2
  · exact List.pairwise_lt_range.imp (fun h => Nat.le_of_lt h)

/-- in a list of pairs with distinct keys, `lookup` returns the value at the key's position -/
theorem lookup_zip_getD {β : Type} : ∀ (keys : List Nat) (vals : List β) (j : Nat) (d : β),
    keys.Nodup → keys.length = vals.length → j < keys.length →
    (keys.zip vals).lookup (keys.getD j 0) = some (vals.getD j d) := by
  intro keys
  induction keys with
  | nil => intro vals j d _ _ hj; simp at hj
  | cons k ks ih =>
    intro vals j d hnd hlen hj
    cases vals with
    | nil => simp at hlen
    | cons v vs =>
      cases j with
      | zero => simp
      | succ j =>
        have hj' : j < ks.length := by simpa using hj
        have hne : ks.getD j 0 ≠ k := by
          intro h
          have hmem : ks.getD j 0 ∈ ks := by
            rw [List.getD_eq_getElem?_getD, List.getElem?_eq_getElem hj']
            simp
          rw [h] at hmem
          exact (List.nodup_cons.mp hnd).1 hmem
        have hne' : (ks.getD j 0 == k) = false := by simpa using hne
        simp only [List.getD_cons_succ, List.zip_cons_cons, List.lookup_cons, hne']
        exact ih vs j d (List.nodup_cons.mp hnd).2 (by simpa using hlen) hj'

/-- **`a[np.argsort(keys)]` is the lookup by key** when the keys are a permutation of `0 … n-1`:
position `p` of the result holds the value stored next to key `p`, whatever sorting permutation
`argsort` returned -/
theorem gather_argsort {β : Type} [Inhabited β] (keys perm : List Nat) (vals : List β) (n : Nat)
    (hk : keys.Perm (List.range n)) (hlen : keys.length = vals.length) (hp : ArgsortOf keys perm) :
    gather vals perm = (List.range n).map (fun p => ((keys.zip vals).lookup p).getD default) := by
  have hkeys := argsort_keys keys perm n hk hp
  have hnd : keys.Nodup := hk.nodup_iff.mpr List.nodup_range
  have hn : keys.length = n := by simpa using hk.length_eq
  have hpl : perm.length = n := by
    have := hp.1.length_eq
    simpa [hn] using this
  unfold gather
  apply List.ext_getElem
  · simp [hpl]
  · intro i h1 h2
    simp only [List.length_map] at h1
    have hi : i < n := by omega
    have hj : perm[i] < keys.length := by
      have : perm[i] ∈ List.range keys.length := hp.1.mem_iff.mp (List.getElem_mem h1)
      simpa using this
    have hki : keys.getD perm[i] 0 = i := by
      have := congrArg (fun l => l[i]?) hkeys
      simp only [List.getElem?_map, List.getElem?_eq_getElem h1, Option.map_some,
        List.getElem?_range hi] at this
      exact Option.some.inj this
    simp only [List.getElem_map, List.getElem_range]
    have hl := lookup_zip_getD keys vals perm[i] default hnd hlen hj
    rw [hki] at hl
    rw [hl]
    rfl

/-! ## the routing vector -/

theorem foldTags_eq_zip : ∀ (folds : List (List Nat)) (i : Nat),
    (folds.zipIdx i).flatMap (fun fi => fi.1.map (fun p => (p, fi.2))) =
      folds.flatten.zip ((folds.zipIdx i).flatMap (fun fi => List.replicate fi.1.length fi.2)) := by
  intro folds
  induction folds with
  | nil => intro i; simp
  | cons f rest ih =>
    intro i
    simp only [List.zipIdx_cons, List.flatMap_cons, List.flatten_cons, ih]
    rw [List.zip_append (by simp)]
    congr 1
    clear ih
    induction f with
    | nil => simp
    | cons a as iha => simp [List.replicate_succ, iha]

theorem modelIdxFlat_length (folds : List (List Nat)) :
    (modelIdxFlat folds).length = folds.flatten.length := by
  unfold modelIdxFlat
  generalize 0 = i
  induction folds generalizing i with
  | nil => simp
  | cons f rest ih => simp [List.zipIdx_cons, ih]

/-- the routing vector computed with `argsort` + fancy indexing is the lookup `route` -/
theorem routeA_eq_route (folds : List (List Nat)) (n : Nat) (perm : List Nat)
    (hperm : folds.flatten.Perm (List.range n)) (hp : ArgsortOf folds.flatten perm) :
    routeA folds perm = route folds n := by
  unfold routeA route
  rw [gather_argsort folds.flatten perm (modelIdxFlat folds) n hperm (modelIdxFlat_length folds).symm hp]
  unfold foldTags modelIdxFlat
  rw [foldTags_eq_zip]
  rfl

/-! ## restoring the input order in `_predict` -/

theorem foldScores_length {ρ σ : Type} (f : Nat) (chs : List (List ((Nat × ρ) × Nat)))
    (score : Nat → ρ → σ) (target : ρ → Bool) (cal : List (σ × Bool) → σ → σ) :
    (foldScores f chs score target cal).length = (foldLabels f chs).length := by
  simp [foldScores, foldLabels]

theorem flatten_zip_map {β γ : Type} : ∀ (l : List Nat) (a : Nat → List β) (b : Nat → List γ),
    (∀ f, (a f).length = (b f).length) →
    (l.map (fun f => (a f).zip (b f))).flatten = (l.map a).flatten.zip (l.map b).flatten := by
  intro l a b h
  induction l with
  | nil => simp
  | cons x xs ih =>
    simp only [List.map_cons, List.flatten_cons, ih]
    rw [List.zip_append (h x)]

/-- when the collected labels are a permutation of `0 … n-1`, `np.concatenate(scores)[argsort(labels)]`
is the lookup by label of `predictChunks` -/
theorem predictChunksA_eq {ρ σ : Type} [Inhabited σ] (nfolds n : Nat)
    (chs : List (List ((Nat × ρ) × Nat)))
    (score : Nat → ρ → σ) (target : ρ → Bool) (cal : List (σ × Bool) → σ → σ)
    (argsort : List Nat → List Nat)
    (hlab : ((List.range nfolds).map (fun f => foldLabels f chs)).flatten.Perm (List.range n))
    (hp : ArgsortOf ((List.range nfolds).map (fun f => foldLabels f chs)).flatten
      (argsort ((List.range nfolds).map (fun f => foldLabels f chs)).flatten)) :
    predictChunksA nfolds chs score target cal argsort =
      if hstackOk nfolds chs then some (predictChunks nfolds n chs score target cal) else none := by
  unfold predictChunksA
  split
  · congr 1
    rw [gather_argsort _ _ _ n hlab _ hp]
    · unfold predictChunks
      simp only
      rw [← flatten_zip_map (List.range nfolds) (fun f => foldLabels f chs)
        (fun f => foldScores f chs score target cal)
        (fun f => (foldScores_length f chs score target cal).symm)]
      rfl
    · simp only [List.length_flatten, List.map_map]
      congr 1
      apply List.map_congr_left
      intro f _
      simp [foldScores_length]
  · rfl

/-! ## the labels `get_index_values` collects -/

theorem filter_lt_succ_perm {α : Type} (g : α → Nat) (k : Nat) : ∀ l : List α,
    (l.filter (fun x => decide (g x < k + 1))).Perm
      (l.filter (fun x => decide (g x < k)) ++ l.filter (fun x => g x == k)) := by
  intro l
  induction l with
  | nil => simp
  | cons x xs ih =>
    rcases Nat.lt_trichotomy (g x) k with h | h | h
    · have h1 : g x < k + 1 := by omega
      have h2 : (g x == k) = false := by simpa using Nat.ne_of_lt h
      simp only [List.filter_cons, h, h1, h2, decide_true, if_true, List.cons_append]
      exact List.Perm.cons x ih
    · have h1 : g x < k + 1 := by omega
      have h2 : ¬ g x < k := by omega
      have h3 : (g x == k) = true := by simpa using h
      simp only [List.filter_cons, h1, h2, h3, decide_true, decide_false, if_true]
      exact (List.Perm.cons x ih).trans List.perm_middle.symm
    · have h1 : ¬ g x < k + 1 := by omega
      have h2 : ¬ g x < k := by omega
      have h3 : (g x == k) = false := by simpa using Nat.ne_of_gt h
      simp only [List.filter_cons, h1, h2, h3, decide_false]
      exact ih

theorem flatten_filter_perm {α : Type} (g : α → Nat) (l : List α) : ∀ k : Nat,
    ((List.range k).map (fun f => l.filter (fun x => g x == f))).flatten.Perm
      (l.filter (fun x => decide (g x < k))) := by
  intro k
  induction k with
  | zero => simp
  | succ k ih =>
    rw [List.range_succ, List.map_append, List.flatten_append]
    simp only [List.map_cons, List.map_nil, List.flatten_cons, List.flatten_nil, List.append_nil]
    exact (List.Perm.append_right _ ih).trans (filter_lt_succ_perm g k l).symm

/-- cutting a block into its per-fold parts and concatenating the parts fold after fold permutes
the rows (when every routing entry is a valid fold number) -/
theorem foldLabels_perm {ρ : Type} (nfolds : Nat) (chs : List (List ((Nat × ρ) × Nat)))
    (hr : ∀ x ∈ chs.flatten, x.2 < nfolds) :
    ((List.range nfolds).map (fun f => foldLabels f chs)).flatten.Perm
      (chs.flatten.map (fun x => x.1.1)) := by
  have h1 : (List.range nfolds).map (fun f => foldLabels f chs) =
      (List.range nfolds).map (fun f => (chs.flatten.filter (fun x => x.2 == f)).map (fun x => x.1.1)) := by
    apply List.map_congr_left
    intro f _
    unfold foldLabels
    rw [foldRows_eq]
    unfold foldSlice
    rw [List.map_map]
    rfl
  have h2 : ((List.range nfolds).map
      (fun f => (chs.flatten.filter (fun x => x.2 == f)).map (fun x => x.1.1))).flatten =
      (((List.range nfolds).map (fun f => chs.flatten.filter (fun x => x.2 == f))).flatten).map
        (fun x => x.1.1) := by
    rw [List.map_flatten, List.map_map]
    rfl
  rw [h1, h2]
  apply List.Perm.map
  have h3 := flatten_filter_perm (fun x : (Nat × ρ) × Nat => x.2) chs.flatten nfolds
  have h4 : chs.flatten.filter (fun x => decide (x.2 < nfolds)) = chs.flatten := by
    rw [List.filter_eq_self]
    intro x hx
    simpa using hr x hx
  rw [h4] at h3
  exact h3

theorem tagged_labels {ρ : Type} (rows : List ρ) (routing : List Nat)
    (hlen : routing.length = rows.length) :
    (tagged rows routing).map (fun x => x.1.1) = List.range rows.length := by
  unfold tagged
  apply List.ext_getElem
  · simp [hlen]
  · intro i h1 h2
    simp

theorem tagged_folds {ρ : Type} (rows : List ρ) (routing : List Nat)
    (hlen : routing.length = rows.length) :
    (tagged rows routing).map (fun x => x.2) = routing := by
  unfold tagged
  apply List.ext_getElem
  · simp [hlen]
  · intro i h1 h2
    simp


theorem foldRows_nonempty_iff {ρ : Type} (f : Nat) (chs : List (List ((Nat × ρ) × Nat))) (rows : List ρ)
    (routing : List Nat) (hflat : chs.flatten = tagged rows routing)
    (hlen : routing.length = rows.length) :
    (foldRows f chs).isEmpty = false ↔ f ∈ routing := by
  rw [foldRows_eq, hflat]
  unfold foldSlice
  constructor
  · intro h
    cases hfr : (tagged rows routing).filter (fun x => x.2 == f) with
    | nil => rw [hfr] at h; simp at h
    | cons x xs =>
      have hx : x ∈ (tagged rows routing).filter (fun x => x.2 == f) := by rw [hfr]; simp
      rw [List.mem_filter] at hx
      rw [← tagged_folds rows routing hlen]
      have hxf : x.2 = f := by simpa using hx.2
      rw [← hxf]
      exact List.mem_map_of_mem hx.1
  · intro hm
    rw [← tagged_folds rows routing hlen, List.mem_map] at hm
    obtain ⟨x, hx, hxf⟩ := hm
    have hmem : x ∈ (tagged rows routing).filter (fun x => x.2 == f) := by
      rw [List.mem_filter]
      exact ⟨hx, by simpa using hxf⟩
    cases hfr : (tagged rows routing).filter (fun x => x.2 == f) with
    | nil => rw [hfr] at hmem; simp at hmem
    | cons y ys => simp

/-- `np.hstack` goes through iff every model `0 … nfolds-1` occurs in the routing vector -/
theorem hstackOk_iff {ρ : Type} (nfolds : Nat) (chs : List (List ((Nat × ρ) × Nat))) (rows : List ρ)
    (routing : List Nat) (hflat : chs.flatten = tagged rows routing)
    (hlen : routing.length = rows.length) :
    hstackOk nfolds chs = true ↔ ∀ f, f < nfolds → f ∈ routing := by
  unfold hstackOk
  rw [List.all_eq_true]
  constructor
  · intro h f hf
    have := h f (List.mem_range.mpr hf)
    rw [Bool.not_eq_true'] at this
    exact (foldRows_nonempty_iff f chs rows routing hflat hlen).mp this
  · intro h f hf
    rw [Bool.not_eq_true']
    exact (foldRows_nonempty_iff f chs rows routing hflat hlen).mpr (h f (List.mem_range.mp hf))

/-! ## all collections -/

theorem mapM_except_forall₂ {β γ : Type} (g : β → Except String γ) :
    ∀ (l : List β) (out : List γ), l.mapM g = .ok out →
      List.Forall₂ (fun b c => g b = .ok c) l out := by
  intro l
  induction l with
  | nil =>
    intro out h
    simp [pure, Except.pure] at h
    subst h
    exact .nil
  | cons x xs ih =>
    intro out h
    rw [List.mapM_cons] at h
    cases hx : g x with
    | error e => rw [hx] at h; simp [bind, Except.bind] at h
    | ok y =>
      cases hxs : xs.mapM g with
      | error e => rw [hx, hxs] at h; simp [bind, Except.bind] at h
      | ok ys =>
        rw [hx, hxs] at h
        simp [bind, Except.bind, pure, Except.pure] at h
        subst h
        exact .cons hx (ih ys hxs)

theorem zipIdx_zip_getD {ρ : Type} (files : List (List ρ)) (testIdx : List (List (List Nat)))
    (hl : testIdx.length = files.length) (k : Nat) (hk : k < files.length) :
    ((files.zip testIdx).zipIdx).getD k (([], []), 0) = ((files.getD k [], testIdx.getD k []), k) := by
  have hk' : k < testIdx.length := by omega
  have hz : (files.zip testIdx)[k]? = some (files[k], testIdx[k]) := by
    rw [List.getElem?_eq_getElem (by simp; omega)]
    simp
  simp [List.getD_eq_getElem?_getD, hk, hk', hz]

theorem predictAll_getD {ρ σ : Type} [Inhabited σ] (c nfolds : Nat) (files : List (List ρ))
    (routings : List (List Nat)) (score : Nat → ρ → σ) (target : ρ → Bool)
    (cal : List (σ × Bool) → σ → σ) (k : Nat) (hk : k < files.length) (hkr : k < routings.length) :
    (predictAll c nfolds files routings score target cal).getD k [] =
      predict c nfolds (files.getD k []) (routings.getD k []) score target cal := by
  unfold predictAll
  have hz : (files.zip routings)[k]? = some (files[k], routings[k]) := by
    rw [List.getElem?_eq_getElem (by simp; omega)]
    simp
  simp [List.getD_eq_getElem?_getD, hk, hkr, hz]

/-! ## the driver's `argsort` -/

theorem insertByKey_perm (x : Nat × Nat) : ∀ l, (insertByKey x l).Perm (x :: l) := by
  intro l
  induction l with
  | nil => simp [insertByKey]
  | cons y ys ih =>
    unfold insertByKey
    split
    · exact List.Perm.refl _
    · exact (List.Perm.cons y ih).trans (List.Perm.swap x y ys)

theorem insertByKey_pairwise (x : Nat × Nat) : ∀ l, l.Pairwise (fun a b => a.1 ≤ b.1) →
    (insertByKey x l).Pairwise (fun a b => a.1 ≤ b.1) := by
  intro l
  induction l with
  | nil => intro _; simp [insertByKey]
  | cons y ys ih =>
    intro h
    obtain ⟨hy, hys⟩ := List.pairwise_cons.mp h
    unfold insertByKey
    split
    · rename_i hxy
      refine List.pairwise_cons.mpr ⟨?_, h⟩
      intro b hb
      rcases List.mem_cons.mp hb with rfl | hb
      · exact hxy
      · exact Nat.le_trans hxy (hy b hb)
    · rename_i hxy
      refine List.pairwise_cons.mpr ⟨?_, ih hys⟩
      intro b hb
      rcases List.mem_cons.mp ((insertByKey_perm x ys).mem_iff.mp hb) with rfl | hb
      · omega
      · exact hy b hb

theorem insertionSort_props : ∀ l : List (Nat × Nat),
    (l.foldr insertByKey []).Perm l ∧ (l.foldr insertByKey []).Pairwise (fun a b => a.1 ≤ b.1) := by
  intro l
  induction l with
  | nil => simp
  | cons x xs ih =>
    simp only [List.foldr_cons]
    exact ⟨(insertByKey_perm x _).trans (List.Perm.cons x ih.1), insertByKey_pairwise x _ ih.2⟩

/-- the driver's `argsort` is one of the values `np.argsort` may return -/
theorem argsortStable_valid (keys : List Nat) : ArgsortOf keys (argsortStable keys) := by
  obtain ⟨hperm, hsorted⟩ := insertionSort_props keys.zipIdx
  unfold ArgsortOf argsortStable
  constructor
  · have := hperm.map (·.2)
    rw [List.zipIdx_map_snd] at this
    simpa [List.range_eq_range'] using this
  · rw [List.map_map]
    have hfst : ∀ p ∈ keys.zipIdx.foldr insertByKey [], keys.getD p.2 0 = p.1 := by
      intro p hp
      have hp' := hperm.mem_iff.mp hp
      have := List.mem_zipIdx_iff_getElem?.mp hp'
      rw [List.getD_eq_getElem?_getD, this]
      rfl
    rw [List.pairwise_map]
    apply hsorted.imp_of_mem
    intro a b ha hb hab
    simp only [Function.comp]
    rw [hfst a ha, hfst b hb]
    exact hab

end Mk.Brew

namespace Mk.Brew.Ex
open Mk.Brew

/-- the whole run of `Lemmas/BrewRun.lean` (`Ex.ex_run`) through the detailed model, kernel-checked -/
theorem ex_runA : brewRunA 2 3 2 [["f1", "f2"], ["f2", "f1"]] files sorteds shuffle none enum (draw none 2) sched
      List.reverse learner apply (fun r => r % 2 == 0) cal (fun _ => argsortStable) (fun _ => argsortStable)
    = .ok ([(1, 1556), (2, 1653)],
        [[1653102, 1556112, 1653122, 1556132], [1653203, 1556213, 1556223, 1653233, 1556243, 1653253]]) := by
  unfold brewRunA
  rw [if_pos (by decide)]
  rw [show splitAll sorteds 2 shuffle = some [[[1, 3], [2, 0]], [[2, 4, 1], [5, 3, 0]]] by decide]
  simp only [optExcept, Option.elim_some, Except.bind]
  rw [show makeTrainSets [[[1, 3], [2, 0]], [[2, 4, 1], [5, 3, 0]]] none (files.map List.length) enum (draw none 2)
    = some [[[2, 0], [5, 3, 0]], [[3, 1], [4, 2, 1]]] by decide]
  simp only [Option.elim_some]
  rw [sortByFold_fitAll _ _ _ (List.reverse_perm _)]
  decide

end Mk.Brew.Ex
