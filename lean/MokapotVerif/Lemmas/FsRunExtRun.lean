import MokapotVerif.Lemmas.FsRunExt
/-!
# Helper lemmas for the extension of C09: the loop over the collections (`runOps`), the
discipline with declared inputs (`WellInitIn`) and the roll-up tool, the command line run.
-/
namespace Mk.FsRun

/-! ## the loop over the collections -/

section run
variable (prot : Bool) (nl : Nat) (decoys : Bool) (req : Bool)

theorem runOps_nil (seen : Bool) : runOps prot nl decoys req seen [] = [] := rfl

theorem runOps_cons (seen : Bool) (c : Coll) (rest : List Coll) :
    runOps prot nl decoys req seen (c :: rest)
      = collOps prot nl decoys (!(req || (seen && c.pfx.isNone))) c ++
          runOps prot nl decoys req (seen || c.pfx.isNone) rest := rfl

/-- what "the result files without prefix are already known" means -/
def PlainKnown (prot : Bool) (nl : Nat) (decoys : Bool) (known : List Name) : Prop :=
  ∀ l, l < nlp prot nl → Name.target l ∈ known ∧ (decoys = true → Name.decoy l ∈ known)

/-- the result files of all these collections are known (the caller's
`append_to_output_file=True`: they are declared inputs) -/
def ResultsKnown (prot : Bool) (nl : Nat) (decoys : Bool) (colls : List Coll) (known : List Name) :
    Prop :=
  ∀ c ∈ colls, ∀ l, l < nlp prot nl →
    targetOf c.pfx l ∈ known ∧ (decoys = true → decoyOf c.pfx l ∈ known)

theorem PlainKnown.mono {known known' : List Name} (h : PlainKnown prot nl decoys known)
    (hm : ∀ n ∈ known, n ∈ known') : PlainKnown prot nl decoys known' :=
  fun l hl => ⟨hm _ (h l hl).1, fun hd => hm _ ((h l hl).2 hd)⟩

theorem ResultsKnown.mono {colls : List Coll} {known known' : List Name}
    (h : ResultsKnown prot nl decoys colls known) (hm : ∀ n ∈ known, n ∈ known') :
    ResultsKnown prot nl decoys colls known' :=
  fun c hc l hl => ⟨hm _ (h c hc l hl).1, fun hd => hm _ ((h c hc l hl).2 hd)⟩

theorem pfx_none_of_isNone {c : Coll} (h : c.pfx.isNone = true) : c.pfx = none := by
  cases hc : c.pfx with
  | none => rfl
  | some _ => simp [hc] at h

/-- a collection that does not initialise its result files finds them known -/
theorem init_false_known (known : List Name) (seen : Bool) (c : Coll) (rest : List Coll)
    (hreq : req = true → ResultsKnown prot nl decoys (c :: rest) known)
    (hseen : seen = true → PlainKnown prot nl decoys known)
    (hinit : (!(req || (seen && c.pfx.isNone))) = false) {l : Nat} (hl : l < nlp prot nl) :
    targetOf c.pfx l ∈ known ∧ (decoys = true → decoyOf c.pfx l ∈ known) := by
  cases hr : req
  · simp only [hr, Bool.false_or, Bool.not_eq_false', Bool.and_eq_true] at hinit
    rw [pfx_none_of_isNone hinit.2]
    exact hseen hinit.1 l hl
  · exact hreq hr c (by simp) l hl

/-- after a collection the un-prefixed result files are known whenever `unprefixed_written` is set -/
theorem plainKnown_after (known : List Name) (seen : Bool) (c : Coll) (rest : List Coll)
    (hreq : req = true → ResultsKnown prot nl decoys (c :: rest) known)
    (hseen : seen = true → PlainKnown prot nl decoys known)
    (h : (seen || c.pfx.isNone) = true) :
    PlainKnown prot nl decoys
      (knownAfter known (collOps prot nl decoys (!(req || (seen && c.pfx.isNone))) c)) := by
  cases hs : seen
  · simp only [hs, Bool.false_or] at h
    have hp := pfx_none_of_isNone h
    intro l hl
    cases hr : req
    · refine ⟨?_, ?_⟩
      · have := target_known_collOps prot nl decoys (!(false || (false && c.pfx.isNone))) c known hl
          (Or.inl (by simp))
        rw [hp] at this; rw [hp]; exact this
      · intro hd
        have := decoy_known_collOps prot nl decoys (!(false || (false && c.pfx.isNone))) c known hl hd
          (Or.inl (by simp))
        rw [hp] at this; rw [hp]; exact this
    · have hk := hreq hr c (by simp) l hl
      rw [hp] at hk
      exact ⟨mem_knownAfter_of_mem _ _ hk.1, fun hd => mem_knownAfter_of_mem _ _ (hk.2 hd)⟩
  · exact (hseen hs).mono prot nl decoys (fun n hn => mem_knownAfter_of_mem _ n hn)

theorem wellInit_runOps (known : List Name) (seen : Bool) (colls : List Coll)
    (hreq : req = true → ResultsKnown prot nl decoys colls known)
    (hseen : seen = true → PlainKnown prot nl decoys known)
    (hp : prot = true → 2 ≤ nl) :
    wellInit known (runOps prot nl decoys req seen colls) = true := by
  induction colls generalizing known seen with
  | nil => rfl
  | cons c rest ih =>
    rw [runOps_cons, wellInit_append, Bool.and_eq_true]
    refine ⟨?_, ?_⟩
    · apply wellInit_collOps _ _ _ _ _ _ _ hp
      intro hinit l hl
      exact init_false_known prot nl decoys req known seen c rest hreq hseen hinit hl
    · apply ih
      · intro hr c' hc' l' hl'
        have := hreq hr c' (List.mem_cons_of_mem _ hc') l' hl'
        exact ⟨mem_knownAfter_of_mem _ _ this.1, fun hd => mem_knownAfter_of_mem _ _ (this.2 hd)⟩
      · intro h
        exact plainKnown_after prot nl decoys req known seen c rest hreq hseen h

/-- the result files of every collection are known at the end of the run -/
theorem target_known_runOps (known : List Name) (seen : Bool) (colls : List Coll)
    (hreq : req = true → ResultsKnown prot nl decoys colls known)
    (hseen : seen = true → PlainKnown prot nl decoys known)
    {c : Coll} (hc : c ∈ colls) {l : Nat} (hl : l < nlp prot nl) :
    targetOf c.pfx l ∈ knownAfter known (runOps prot nl decoys req seen colls) := by
  induction colls generalizing known seen with
  | nil => simp at hc
  | cons c' rest ih =>
    rw [runOps_cons, knownAfter_append]
    rcases List.mem_cons.mp hc with rfl | hc
    · apply mem_knownAfter_of_mem
      cases hi : (!(req || (seen && c.pfx.isNone)))
      · exact mem_knownAfter_of_mem _ _
          (init_false_known prot nl decoys req known seen c rest hreq hseen hi hl).1
      · exact target_known_collOps prot nl decoys true c known hl (Or.inl rfl)
    · apply ih _ _ _ _ hc
      · intro hr c'' hc'' l' hl'
        have := hreq hr c'' (List.mem_cons_of_mem _ hc'') l' hl'
        exact ⟨mem_knownAfter_of_mem _ _ this.1, fun hd => mem_knownAfter_of_mem _ _ (this.2 hd)⟩
      · intro h
        exact plainKnown_after prot nl decoys req known seen c' rest hreq hseen h

theorem decoy_known_runOps (known : List Name) (seen : Bool) (colls : List Coll)
    (hreq : req = true → ResultsKnown prot nl decoys colls known)
    (hseen : seen = true → PlainKnown prot nl decoys known)
    {c : Coll} (hc : c ∈ colls) {l : Nat} (hl : l < nlp prot nl) (hd : decoys = true) :
    decoyOf c.pfx l ∈ knownAfter known (runOps prot nl decoys req seen colls) := by
  induction colls generalizing known seen with
  | nil => simp at hc
  | cons c' rest ih =>
    rw [runOps_cons, knownAfter_append]
    rcases List.mem_cons.mp hc with rfl | hc
    · apply mem_knownAfter_of_mem
      cases hi : (!(req || (seen && c.pfx.isNone)))
      · exact mem_knownAfter_of_mem _ _
          ((init_false_known prot nl decoys req known seen c rest hreq hseen hi hl).2 hd)
      · exact decoy_known_collOps prot nl decoys true c known hl hd (Or.inl rfl)
    · apply ih _ _ _ _ hc
      · intro hr c'' hc'' l' hl'
        have := hreq hr c'' (List.mem_cons_of_mem _ hc'') l' hl'
        exact ⟨mem_knownAfter_of_mem _ _ this.1, fun hd => mem_knownAfter_of_mem _ _ (this.2 hd)⟩
      · intro h
        exact plainKnown_after prot nl decoys req known seen c' rest hreq hseen h

/-- every name the run writes is a chunk, level or result file of one of its collections -/
theorem writes_runOps (seen : Bool) (colls : List Coll) {m : Name}
    (h : m ∈ writes (runOps prot nl decoys req seen colls)) : runNames prot nl decoys colls m := by
  induction colls generalizing seen with
  | nil => simp [runOps, writes] at h
  | cons c rest ih =>
    rw [runOps_cons, writes_append, List.mem_append] at h
    rcases h with h | h
    · rcases writes_collOps prot nl decoys _ c h with ⟨i, hi, h⟩ | ⟨l, hl, h | h | h⟩
      · exact Or.inl ⟨c, by simp, i, hi, h⟩
      · exact Or.inr (Or.inr ⟨c, by simp, l, hl, Or.inl h⟩)
      · exact Or.inr (Or.inr ⟨c, by simp, l, hl, Or.inr h⟩)
      · exact Or.inr (Or.inl ⟨l, hl, h⟩)
    · rcases ih _ h with ⟨c', hc', h⟩ | h | ⟨c', hc', h⟩
      · exact Or.inl ⟨c', List.mem_cons_of_mem _ hc', h⟩
      · exact Or.inr (Or.inl h)
      · exact Or.inr (Or.inr ⟨c', List.mem_cons_of_mem _ hc', h⟩)

/-! ### absence of the intermediates at the end of the run -/

theorem absent_runOps_keep_chunk (seen : Bool) (colls : List Coll) (q : Option Nat) (i : Nat) :
    absentAfter (chunkOf q i) true (runOps prot nl decoys req seen colls) = true := by
  induction colls generalizing seen with
  | nil => rfl
  | cons c rest ih =>
    rw [runOps_cons, absentAfter_append, absent_collOps_keep_chunk]
    exact ih _

theorem absent_runOps_chunk (seen : Bool) (colls : List Coll) (b : Bool) {c : Coll}
    (hc : c ∈ colls) {i : Nat} (hi : i < c.k) :
    absentAfter (chunkOf c.pfx i) b (runOps prot nl decoys req seen colls) = true := by
  induction colls generalizing seen b with
  | nil => simp at hc
  | cons c' rest ih =>
    rw [runOps_cons, absentAfter_append]
    rcases List.mem_cons.mp hc with rfl | hc
    · rw [absent_collOps_chunk prot nl decoys _ c b hi]
      exact absent_runOps_keep_chunk prot nl decoys req _ rest _ _
    · exact ih _ _ hc

theorem absent_runOps_level (seen : Bool) (colls : List Coll) (b : Bool) (hne : colls ≠ [])
    {l : Nat} (hl : l < nlp prot nl) :
    absentAfter (.level l) b (runOps prot nl decoys req seen colls) = true := by
  induction colls generalizing seen b with
  | nil => exact absurd rfl hne
  | cons c rest ih =>
    rw [runOps_cons, absentAfter_append, absent_collOps_level prot nl decoys _ c b hl]
    cases rest with
    | nil => rfl
    | cons c' rest' => exact ih _ _ (by simp)

/-! ### presence of the result files at the end of the run -/

theorem present_runOps_keep (seen : Bool) (colls : List Coll) (n : Name)
    (hn : (∀ q i, n ≠ chunkOf q i) ∧ (∀ l, n ≠ .level l)) :
    presentAfter n true (runOps prot nl decoys req seen colls) = true := by
  induction colls generalizing seen with
  | nil => rfl
  | cons c rest ih =>
    rw [runOps_cons, presentAfter_append,
      presentAfter_true n _ (present_collOps_keep prot nl decoys _ c n hn)]
    exact ih _

theorem present_runOps_target (seen : Bool) (colls : List Coll) (b : Bool) {c : Coll}
    (hc : c ∈ colls) {l : Nat} (hl : l < nlp prot nl) :
    presentAfter (targetOf c.pfx l) b (runOps prot nl decoys req seen colls) = true := by
  induction colls generalizing seen b with
  | nil => simp at hc
  | cons c' rest ih =>
    rw [runOps_cons, presentAfter_append]
    rcases List.mem_cons.mp hc with rfl | hc
    · rw [present_collOps_target prot nl decoys _ c b hl]
      exact present_runOps_keep prot nl decoys req _ rest _
        ⟨fun _ _ => targetOf_ne_chunkOf _ _ _ _, fun _ => targetOf_ne_level _ _ _⟩
    · exact ih _ _ hc

theorem present_runOps_decoy (seen : Bool) (colls : List Coll) (b : Bool) {c : Coll}
    (hc : c ∈ colls) {l : Nat} (hl : l < nlp prot nl) (hd : decoys = true) :
    presentAfter (decoyOf c.pfx l) b (runOps prot nl decoys req seen colls) = true := by
  induction colls generalizing seen b with
  | nil => simp at hc
  | cons c' rest ih =>
    rw [runOps_cons, presentAfter_append]
    rcases List.mem_cons.mp hc with rfl | hc
    · rw [present_collOps_decoy prot nl decoys _ c b hl hd]
      exact present_runOps_keep prot nl decoys req _ rest _
        ⟨fun _ _ => decoyOf_ne_chunkOf _ _ _ _, fun _ => decoyOf_ne_level _ _ _⟩
    · exact ih _ _ hc

end run

/-! ## declared inputs -/

/-- two directories list the same declared inputs -/
def SameIn (inp : Name → Bool) (fs₁ fs₂ : FS) : Prop := FS.inputs fs₁ inp = FS.inputs fs₂ inp

theorem inputs_set (inp : Name → Bool) (fs : FS) (n : Name) (c : List Nat) (h : inp n = false) :
    FS.inputs (FS.set fs n c) inp = FS.inputs fs inp := by
  induction fs with
  | nil => simp [FS.set, FS.inputs, h]
  | cons e rest ih =>
    simp only [FS.set]
    split
    · rename_i he
      simp [FS.inputs, h, he]
    · simp only [FS.inputs, List.filter_cons] at ih ⊢
      rw [ih]

theorem inputs_del (inp : Name → Bool) (fs : FS) (n : Name) (h : inp n = false) :
    FS.inputs (FS.del fs n) inp = FS.inputs fs inp := by
  induction fs with
  | nil => rfl
  | cons e rest ih =>
    simp only [FS.del]
    split
    · rename_i he
      rw [ih]
      simp [FS.inputs, h, he]
    · simp only [FS.inputs, List.filter_cons] at ih ⊢
      rw [ih]

theorem inputs_moveFs (inp : Name → Bool) (fs : FS) (s d : Name) (hs : inp s = false)
    (hd : inp d = false) : FS.inputs (moveFs fs s d) inp = FS.inputs fs inp := by
  unfold moveFs
  split
  · rfl
  · rw [inputs_del _ _ _ hs, inputs_set _ _ _ _ hd]

theorem globContent_inputs (inp p : Name → Bool) (fs : FS) (h : ∀ n, p n = true → inp n = true) :
    FS.globContent fs p = FS.globContent (FS.inputs fs inp) p := by
  induction fs with
  | nil => rfl
  | cons e rest ih =>
    simp only [FS.globContent, FS.inputs, List.filter_cons]
    by_cases hp : p e.1 = true
    · simp only [hp, if_true, h _ hp, FS.globContent]
      rw [ih]; rfl
    · simp only [hp, if_false, Bool.false_eq_true]
      rw [ih]
      by_cases hi : inp e.1 = true
      · simp [hi, FS.globContent, hp, FS.inputs]
      · simp [hi, FS.inputs]

theorem get_inputs (inp : Name → Bool) (fs : FS) (n : Name) (h : inp n = true) :
    FS.get fs n = FS.get (FS.inputs fs inp) n := by
  induction fs with
  | nil => rfl
  | cons e rest ih =>
    simp only [FS.inputs, List.filter_cons]
    by_cases he : e.1 = n
    · simp [get_cons, he, h]
    · by_cases hi : inp e.1 = true
      · simp only [hi, if_true, get_cons, he, if_false]
        exact ih
      · simp only [hi, Bool.false_eq_true, if_false, get_cons, he]
        exact ih

theorem step_agree_in (inp : Name → Bool) (known : List Name) (op : Op)
    (hok : OkStepIn inp known op) (fs₁ fs₂ : FS) (outs : Outs)
    (hs : SameIn inp fs₁ fs₂) (ha : Agree known fs₁ fs₂) :
    (step fs₁ outs op).2 = (step fs₂ outs op).2 ∧
      SameIn inp (step fs₁ outs op).1 (step fs₂ outs op).1 ∧
      Agree (knownStep known op) (step fs₁ outs op).1 (step fs₂ outs op).1 := by
  cases op with
  | trunc n f =>
    simp only [OkStepIn] at hok
    have := step_agree known (.trunc n f) rfl fs₁ fs₂ outs ha
    refine ⟨this.1, ?_, this.2⟩
    simp only [step, SameIn, inputs_set _ _ _ _ hok]; exact hs
  | append n f =>
    simp only [OkStepIn] at hok
    have := step_agree known (.append n f) (by simp [okStep, hok.2]) fs₁ fs₂ outs ha
    refine ⟨this.1, ?_, this.2⟩
    simp only [step, SameIn, inputs_set _ _ _ _ hok.1]; exact hs
  | read n =>
    simp only [OkStepIn] at hok
    refine ⟨?_, hs, ha⟩
    rcases hok with hok | hok
    · simp only [step, FS.content, get_inputs inp fs₁ n hok, get_inputs inp fs₂ n hok]
      unfold SameIn at hs; rw [hs]
    · simp only [step, content_congr (ha n hok)]
  | unlink n =>
    simp only [OkStepIn] at hok
    have := step_agree known (.unlink n) rfl fs₁ fs₂ outs ha
    refine ⟨this.1, ?_, this.2⟩
    simp only [step, SameIn, inputs_del _ _ _ hok]; exact hs
  | move s d =>
    simp only [OkStepIn] at hok
    have := step_agree known (.move s d) (by simp [okStep, hok.2.2]) fs₁ fs₂ outs ha
    refine ⟨this.1, ?_, this.2⟩
    simp only [step, SameIn, inputs_moveFs _ _ _ _ hok.1 hok.2.1]; exact hs
  | globRead p =>
    simp only [OkStepIn] at hok
    refine ⟨?_, hs, ha⟩
    simp only [step, globContent_inputs inp p fs₁ hok, globContent_inputs inp p fs₂ hok]
    unfold SameIn at hs; rw [hs]

/-- a program that keeps the discipline with declared inputs produces the same outputs, and
the same content of every name it has made known, from any two directories that list the same
declared inputs (and agree on the names known at the start); the declared inputs are listed
unchanged at the end -/
theorem exec_agree_in (inp : Name → Bool) (known : List Name) (prog : List Op)
    (hw : WellInitIn inp known prog) (fs₁ fs₂ : FS) (outs : Outs)
    (hs : SameIn inp fs₁ fs₂) (ha : Agree known fs₁ fs₂) :
    (exec fs₁ outs prog).2 = (exec fs₂ outs prog).2 ∧
      SameIn inp (exec fs₁ outs prog).1 (exec fs₂ outs prog).1 ∧
      Agree (knownAfter known prog) (exec fs₁ outs prog).1 (exec fs₂ outs prog).1 := by
  induction prog generalizing known fs₁ fs₂ outs with
  | nil => exact ⟨rfl, hs, ha⟩
  | cons op rest ih =>
    simp only [WellInitIn] at hw
    obtain ⟨ho, hs', hag⟩ := step_agree_in inp known op hw.1 fs₁ fs₂ outs hs ha
    simp only [exec_cons, knownAfter]
    rw [ho]
    exact ih _ hw.2 _ _ _ hs' hag

/-- the declared inputs are left as they were -/
theorem exec_inputs_unchanged (inp : Name → Bool) (known : List Name) (prog : List Op)
    (hw : WellInitIn inp known prog) (fs : FS) (outs : Outs) :
    FS.inputs (exec fs outs prog).1 inp = FS.inputs fs inp := by
  induction prog generalizing known fs outs with
  | nil => rfl
  | cons op rest ih =>
    simp only [WellInitIn] at hw
    rw [exec_cons, ih _ hw.2]
    cases op with
    | trunc n f => simp only [OkStepIn] at hw; simp only [step, inputs_set _ _ _ _ hw.1]
    | append n f => simp only [OkStepIn] at hw; simp only [step, inputs_set _ _ _ _ hw.1.1]
    | read n => rfl
    | unlink n => simp only [OkStepIn] at hw; simp only [step, inputs_del _ _ _ hw.1]
    | move s d =>
      simp only [OkStepIn] at hw; simp only [step, inputs_moveFs _ _ _ _ hw.1.1 hw.1.2.1]
    | globRead p => rfl

theorem wellInitIn_append (inp : Name → Bool) (known : List Name) (p q : List Op) :
    WellInitIn inp known (p ++ q) ↔ (WellInitIn inp known p ∧ WellInitIn inp (knownAfter known p) q) := by
  induction p generalizing known with
  | nil => simp [WellInitIn, knownAfter]
  | cons op rest ih => simp only [List.cons_append, WellInitIn, knownAfter, ih, and_assoc]

theorem okStepIn_mono (inp : Name → Bool) {k₁ k₂ : List Name} (h : ∀ n ∈ k₁, n ∈ k₂) (op : Op)
    (hok : OkStepIn inp k₁ op) : OkStepIn inp k₂ op := by
  cases op <;> simp only [OkStepIn] at hok ⊢
  · exact hok
  · exact ⟨hok.1, h _ hok.2⟩
  · exact hok.imp id (h _)
  · exact hok
  · exact ⟨hok.1, hok.2.1, h _ hok.2.2⟩
  · exact hok

theorem wellInitIn_of_forall (inp : Name → Bool) (known : List Name) (p : List Op)
    (h : ∀ op ∈ p, OkStepIn inp known op) : WellInitIn inp known p := by
  induction p generalizing known with
  | nil => trivial
  | cons op rest ih =>
    refine ⟨h op (by simp), ih _ ?_⟩
    intro o ho
    exact okStepIn_mono inp (mem_knownStep_self op) o (h o (List.mem_cons_of_mem _ ho))

/-! ## the roll-up tool -/

section rollup
variable (r base : Nat) (levels : List Nat) (thdr tdata rt rd : Nat → Outs → List Nat)

theorem isRollIn_temp (l : Nat) : isRollIn r base (.temp r l) = false := rfl

theorem isRollIn_own_target (l : Nat) : isRollIn r base (.ptarget r l) = false := by
  simp [isRollIn]

theorem isRollIn_own_decoy (l : Nat) : isRollIn r base (.pdecoy r l) = false := by
  simp [isRollIn]

theorem mem_rollOut {op : Op} (h : op ∈ rollOut r levels rt rd) :
    ∃ l ∈ levels, op = .read (.temp r l) ∨ op = .trunc (.ptarget r l) (rt l) ∨
      op = .trunc (.pdecoy r l) (rd l) ∨ op = .unlink (.temp r l) := by
  simp only [rollOut, List.mem_flatMap, rollLevelOps, List.mem_cons, List.not_mem_nil,
    or_false] at h
  exact h

theorem temp_known_after_init (known : List Name) {l : Nat} (hl : l ∈ levels) :
    Name.temp r l ∈ knownAfter known (rollTempInit r levels thdr) :=
  mem_knownAfter_of_op (op := Op.trunc (.temp r l) (thdr l))
    (by simp only [rollTempInit, List.mem_map]; exact ⟨l, hl, rfl⟩) (by simp [knownStep])

/-- the roll-up tool keeps the discipline for its input pattern: it globs nothing but declared
inputs, writes none of them (its own outputs carry its `file_root`, which the pattern excludes),
and reads back only temporary files it has initialised -/
theorem wellInitIn_rollupOps (known : List Name) :
    WellInitIn (isRollIn r base) known (rollupOps r base levels thdr tdata rt rd) := by
  unfold rollupOps rollupOpsWith
  refine ⟨fun n h => h, ?_⟩
  rw [wellInitIn_append, wellInitIn_append]
  refine ⟨?_, ?_, ?_⟩
  · apply wellInitIn_of_forall
    intro op hop
    simp only [rollTempInit, List.mem_map] at hop
    obtain ⟨l, _, rfl⟩ := hop
    exact isRollIn_temp r base l
  · apply wellInitIn_of_forall
    intro op hop
    simp only [rollTempFill, List.mem_map] at hop
    obtain ⟨l, hl, rfl⟩ := hop
    exact ⟨isRollIn_temp r base l, temp_known_after_init r levels thdr _ hl⟩
  · apply wellInitIn_of_forall
    intro op hop
    obtain ⟨l, hl, rfl | rfl | rfl | rfl⟩ := mem_rollOut r levels rt rd hop
    · exact Or.inr (mem_knownAfter_of_mem _ _ (temp_known_after_init r levels thdr _ hl))
    · exact isRollIn_own_target r base l
    · exact isRollIn_own_decoy r base l
    · exact isRollIn_temp r base l

theorem rollup_target_known (known : List Name) {l : Nat} (hl : l ∈ levels) :
    Name.ptarget r l ∈ knownAfter known (rollupOps r base levels thdr tdata rt rd) := by
  apply mem_knownAfter_of_op (op := Op.trunc (.ptarget r l) (rt l)) _ (by simp [knownStep])
  unfold rollupOps rollupOpsWith
  apply List.mem_cons_of_mem
  iterate 2 apply List.mem_append_right
  simp only [rollOut, List.mem_flatMap]
  exact ⟨l, hl, by simp [rollLevelOps]⟩

theorem rollup_decoy_known (known : List Name) {l : Nat} (hl : l ∈ levels) :
    Name.pdecoy r l ∈ knownAfter known (rollupOps r base levels thdr tdata rt rd) := by
  apply mem_knownAfter_of_op (op := Op.trunc (.pdecoy r l) (rd l)) _ (by simp [knownStep])
  unfold rollupOps rollupOpsWith
  apply List.mem_cons_of_mem
  iterate 2 apply List.mem_append_right
  simp only [rollOut, List.mem_flatMap]
  exact ⟨l, hl, by simp [rollLevelOps]⟩

/-- the names the tool writes: its temporary and result files -/
theorem writes_rollupOpsWith (pat : Name → Bool) {m : Name}
    (h : m ∈ writes (rollupOpsWith pat r levels thdr tdata rt rd)) :
    ∃ l ∈ levels, m = .temp r l ∨ m = .ptarget r l ∨ m = .pdecoy r l := by
  rw [mem_writes_iff] at h
  obtain ⟨op, hop, hn⟩ := h
  simp only [rollupOpsWith, List.mem_cons, List.mem_append] at hop
  rcases hop with rfl | hop | hop | hop
  · simp [writesOp] at hn
  · simp only [rollTempInit, List.mem_map] at hop
    obtain ⟨l, hl, rfl⟩ := hop
    simp only [writesOp, List.mem_singleton] at hn
    exact ⟨l, hl, Or.inl hn⟩
  · simp only [rollTempFill, List.mem_map] at hop
    obtain ⟨l, hl, rfl⟩ := hop
    simp only [writesOp, List.mem_singleton] at hn
    exact ⟨l, hl, Or.inl hn⟩
  · obtain ⟨l, hl, rfl | rfl | rfl | rfl⟩ := mem_rollOut r levels rt rd hop
    · simp [writesOp] at hn
    · simp only [writesOp, List.mem_singleton] at hn
      exact ⟨l, hl, Or.inr (Or.inl hn)⟩
    · simp only [writesOp, List.mem_singleton] at hn
      exact ⟨l, hl, Or.inr (Or.inr hn)⟩
    · simp only [writesOp, List.mem_singleton] at hn
      exact ⟨l, hl, Or.inl hn⟩

/-- the only files the tool removes are its temporary files -/
theorem rollup_never_removes (pat : Name → Bool) (n : Name) (hn : ∀ l, n ≠ .temp r l) :
    ∀ op ∈ rollupOpsWith pat r levels thdr tdata rt rd, presentStep n true op = true := by
  intro op hop
  simp only [rollupOpsWith, List.mem_cons, List.mem_append] at hop
  rcases hop with rfl | hop | hop | hop
  · rfl
  · simp only [rollTempInit, List.mem_map] at hop
    obtain ⟨l, _, rfl⟩ := hop
    simp [presentStep]
  · simp only [rollTempFill, List.mem_map] at hop
    obtain ⟨l, _, rfl⟩ := hop
    simp [presentStep]
  · obtain ⟨l, _, rfl | rfl | rfl | rfl⟩ := mem_rollOut r levels rt rd hop
    · rfl
    · simp [presentStep]
    · simp [presentStep]
    · simp [presentStep, Ne.symm (hn l)]

/-- the temporary file of every level is removed, and nothing re-creates it afterwards -/
theorem absent_rollupOpsWith_temp (pat : Name → Bool) (b : Bool) {l : Nat} (hl : l ∈ levels) :
    absentAfter (.temp r l) b (rollupOpsWith pat r levels thdr tdata rt rd) = true := by
  unfold rollupOpsWith
  have happ : ∀ (p q : List Op) (b' : Bool), absentAfter (.temp r l) b' (Op.globRead pat :: (p ++ q))
      = absentAfter (.temp r l) (absentAfter (.temp r l) b' (Op.globRead pat :: p)) q := by
    intro p q b'
    rw [← List.cons_append, absentAfter_append]
  rw [happ, absentAfter_append]
  apply absentAfter_of_unlink _ _ _ (by
    simp only [rollOut, List.mem_flatMap]
    exact ⟨l, hl, by simp [rollLevelOps]⟩)
  intro op hop
  obtain ⟨l', _, rfl | rfl | rfl | rfl⟩ := mem_rollOut r levels rt rd hop <;> simp [absentStep]

theorem mem_rollupOpsWith_temp (pat : Name → Bool) {l : Nat} (hl : l ∈ levels) :
    Op.trunc (.temp r l) (thdr l) ∈ rollupOpsWith pat r levels thdr tdata rt rd := by
  unfold rollupOpsWith
  apply List.mem_cons_of_mem
  apply List.mem_append_left
  simp only [rollTempInit, List.mem_map]
  exact ⟨l, hl, rfl⟩

theorem mem_rollupOpsWith_target (pat : Name → Bool) {l : Nat} (hl : l ∈ levels) :
    Op.trunc (.ptarget r l) (rt l) ∈ rollupOpsWith pat r levels thdr tdata rt rd := by
  unfold rollupOpsWith
  apply List.mem_cons_of_mem
  iterate 2 apply List.mem_append_right
  simp only [rollOut, List.mem_flatMap]
  exact ⟨l, hl, by simp [rollLevelOps]⟩

theorem mem_rollupOpsWith_decoy (pat : Name → Bool) {l : Nat} (hl : l ∈ levels) :
    Op.trunc (.pdecoy r l) (rd l) ∈ rollupOpsWith pat r levels thdr tdata rt rd := by
  unfold rollupOpsWith
  apply List.mem_cons_of_mem
  iterate 2 apply List.mem_append_right
  simp only [rollOut, List.mem_flatMap]
  exact ⟨l, hl, by simp [rollLevelOps]⟩

end rollup

/-! ## the command line run -/

section cli
variable (needs : Nat → Bool) (conv : Nat → Outs → List Nat)

theorem wellInit_verifyOps (known : List Name) (j : Nat) (h : Name.pin j ∈ known) :
    wellInit known (verifyOps needs conv j) = true := by
  cases hn : needs j <;> simp [verifyOps, hn, wellInit, okStep, knownStep, h]

theorem wellInit_verifyAll (verify : Bool) (nf : Nat) (known : List Name)
    (h : ∀ j, j < nf → Name.pin j ∈ known) :
    wellInit known (verifyAll verify nf needs conv) = true := by
  cases verify
  · rfl
  · simp only [verifyAll, if_true]
    apply wellInit_flatMap
    intro j hj
    exact wellInit_verifyOps needs conv known j (h j (List.mem_range.mp hj))

theorem wellInit_readPins (nf : Nat) (known : List Name) (h : ∀ j, j < nf → Name.pin j ∈ known) :
    wellInit known (readPins nf) = true := by
  apply wellInit_of_forall
  intro op hop
  simp only [readPins, List.mem_map, List.mem_range] at hop
  obtain ⟨j, hj, rfl⟩ := hop
  simp [okStep, h j hj]

theorem wellInit_saveModels (nm : Nat) (mdl : Nat → Outs → List Nat) (known : List Name) :
    wellInit known (saveModels nm mdl) = true := by
  apply wellInit_of_forall
  intro op hop
  simp only [saveModels, List.mem_map] at hop
  obtain ⟨i, _, rfl⟩ := hop
  rfl

theorem mem_pinNames {nf j : Nat} : Name.pin j ∈ pinNames nf ↔ j < nf := by
  simp [pinNames]

theorem wellInit_cliMainOps (verify : Bool) (nf : Nat) (prot : Bool) (nl : Nat) (decoys : Bool)
    (colls : List Coll) (nm : Nat) (mdl : Nat → Outs → List Nat)
    (hp : prot = true → 2 ≤ nl) :
    wellInit (pinNames nf)
      (cliMainOps verify nf needs conv prot nl decoys colls nm mdl) = true := by
  unfold cliMainOps
  rw [wellInit_append, wellInit_append, wellInit_append]
  simp only [Bool.and_eq_true]
  refine ⟨?_, ?_, ?_, wellInit_saveModels _ _ _⟩
  · exact wellInit_verifyAll needs conv verify nf _ (fun j hj => mem_pinNames.mpr hj)
  · apply wellInit_readPins
    intro j hj
    exact mem_knownAfter_of_mem _ _ (mem_pinNames.mpr hj)
  · exact wellInit_runOps prot nl decoys false _ false colls (fun h => absurd h (by simp))
      (fun h => absurd h (by simp)) hp

/-- names written by the verify step: the PIN files that need conversion and their `.tsv` -/
theorem writes_verifyAll (verify : Bool) (nf : Nat) {m : Name}
    (h : m ∈ writes (verifyAll verify nf needs conv)) :
    ∃ j, j < nf ∧ needs j = true ∧ (m = .pin j ∨ m = .pinTsv j) := by
  cases verify
  · simp [verifyAll, writes] at h
  · rw [mem_writes_iff] at h
    obtain ⟨op, hop, hn⟩ := h
    simp only [verifyAll, if_true, List.mem_flatMap, List.mem_range] at hop
    obtain ⟨j, hj, hop⟩ := hop
    cases hnj : needs j
    · simp only [verifyOps, hnj, Bool.false_eq_true, if_false, List.mem_singleton] at hop
      subst hop
      simp [writesOp] at hn
    · simp only [verifyOps, hnj, if_true, List.mem_cons, List.not_mem_nil, or_false] at hop
      rcases hop with rfl | rfl | rfl | rfl
      · simp [writesOp] at hn
      · simp [writesOp] at hn
      · simp only [writesOp, List.mem_singleton] at hn
        exact ⟨j, hj, hnj, Or.inr hn⟩
      · simp only [writesOp, List.mem_cons, List.not_mem_nil, or_false] at hn
        exact ⟨j, hj, hnj, hn.symm⟩

theorem writes_readPins (nf : Nat) : writes (readPins nf) = [] := by
  simp [writes, readPins, writesOp]

theorem writes_saveModels (nm : Nat) (mdl : Nat → Outs → List Nat) {m : Name}
    (h : m ∈ writes (saveModels nm mdl)) : ∃ i, i < nm ∧ m = .model i := by
  rw [mem_writes_iff] at h
  obtain ⟨op, hop, hn⟩ := h
  simp only [saveModels, List.mem_map, List.mem_range] at hop
  obtain ⟨i, hi, rfl⟩ := hop
  simp only [writesOp, List.mem_singleton] at hn
  exact ⟨i, hi, hn⟩


/-! ### `<pin>.tsv` is gone after the verify step -/

theorem absentAfter_flatMap_keep {β : Type} (f : β → List Op) (xs : List β) (n : Name)
    (hkeep : ∀ y, absentAfter n true (f y) = true) : absentAfter n true (xs.flatMap f) = true := by
  induction xs with
  | nil => rfl
  | cons z rest ih => rw [List.flatMap_cons, absentAfter_append, hkeep]; exact ih

theorem absentAfter_flatMap_of_mem {β : Type} (f : β → List Op) (xs : List β) (n : Name) (x : β)
    (hx : x ∈ xs) (hself : ∀ b, absentAfter n b (f x) = true)
    (hkeep : ∀ y, absentAfter n true (f y) = true) (b : Bool) :
    absentAfter n b (xs.flatMap f) = true := by
  induction xs generalizing b with
  | nil => simp at hx
  | cons y rest ih =>
    rw [List.flatMap_cons, absentAfter_append]
    rcases List.mem_cons.mp hx with rfl | hx
    · rw [hself]
      exact absentAfter_flatMap_keep f rest n hkeep
    · exact ih hx _

theorem absent_verifyOps_self (j : Nat) (h : needs j = true) (b : Bool) :
    absentAfter (.pinTsv j) b (verifyOps needs conv j) = true := by
  simp [verifyOps, h, absentAfter, absentStep]

theorem absent_verifyOps_keep (j j' : Nat) :
    absentAfter (.pinTsv j) true (verifyOps needs conv j') = true := by
  by_cases hj : j' = j
  · subst hj
    cases hn : needs j' <;> simp [verifyOps, hn, absentAfter, absentStep]
  · cases hn : needs j' <;> simp [verifyOps, hn, absentAfter, absentStep, hj]

theorem absent_cliMainOps_tsv (verify : Bool) (nf : Nat) (prot : Bool) (nl : Nat) (decoys : Bool)
    (colls : List Coll) (nm : Nat) (mdl : Nat → Outs → List Nat) (b : Bool) {j : Nat}
    (hv : verify = true) (hj : j < nf) (hn : needs j = true) :
    absentAfter (.pinTsv j) b
      (cliMainOps verify nf needs conv prot nl decoys colls nm mdl) = true := by
  subst hv
  unfold cliMainOps
  rw [absentAfter_append, absentAfter_of_not_writes _ _ (readPins nf ++ _)]
  · simp only [verifyAll, if_true]
    exact absentAfter_flatMap_of_mem _ _ _ j (List.mem_range.mpr hj)
      (absent_verifyOps_self needs conv j hn) (absent_verifyOps_keep needs conv j) b
  · intro hw
    simp only [writes_append, List.mem_append, writes_readPins, List.not_mem_nil, false_or] at hw
    rcases hw with hw | hw
    · rcases writes_runOps prot nl decoys false false colls hw with
        ⟨c, _, i, _, h⟩ | ⟨l, _, h⟩ | ⟨c, _, l, _, h | ⟨_, h⟩⟩
      · cases hp : c.pfx <;> rw [hp] at h <;> simp [chunkOf] at h
      · exact Name.noConfusion h
      · cases hp : c.pfx <;> rw [hp] at h <;> simp [targetOf] at h
      · cases hp : c.pfx <;> rw [hp] at h <;> simp [decoyOf] at h
    · obtain ⟨i, _, h⟩ := writes_saveModels nm mdl hw
      exact Name.noConfusion h

end cli

end Mk.FsRun
