import MokapotVerif.Model.PinTsv
/-!
# Text-level lemmas for the PIN → TSV model: split/join, lines, chomp
-/
namespace Mk

/-! ## splitOn / joinWith -/

theorem consHead_ne_nil (c : Char) (l : List Str) : consHead c l ≠ [] := by
  cases l <;> simp [consHead]

theorem splitOn_ne_nil (sep : Char) (l : Str) : splitOn sep l ≠ [] := by
  cases l with
  | nil => simp [splitOn]
  | cons c cs =>
    simp only [splitOn]
    split
    · simp
    · exact consHead_ne_nil _ _

theorem splitOn_of_not_mem (sep : Char) (f : Str) (h : sep ∉ f) : splitOn sep f = [f] := by
  induction f with
  | nil => rfl
  | cons c cs ih =>
    have hc : c ≠ sep := fun e => h (by simp [e])
    have hcs : sep ∉ cs := fun e => h (by simp [e])
    simp [splitOn, hc, ih hcs, consHead]

theorem splitOn_append_sep (sep : Char) (f rest : Str) (h : sep ∉ f) :
    splitOn sep (f ++ sep :: rest) = f :: splitOn sep rest := by
  induction f with
  | nil => simp [splitOn]
  | cons c cs ih =>
    have hc : c ≠ sep := fun e => h (by simp [e])
    have hcs : sep ∉ cs := fun e => h (by simp [e])
    simp [splitOn, hc, ih hcs, consHead]

theorem joinWith_cons_cons (sep : Str) (x y : Str) (r : List Str) :
    joinWith sep (x :: y :: r) = x ++ sep ++ joinWith sep (y :: r) := rfl

theorem joinWith_cons_of_ne_nil (sep : Str) (x : Str) (r : List Str) (h : r ≠ []) :
    joinWith sep (x :: r) = x ++ sep ++ joinWith sep r := by
  cases r with
  | nil => exact absurd rfl h
  | cons y r => rfl

theorem splitOn_joinWith (sep : Char) (fs : List Str) (hne : fs ≠ [])
    (h : ∀ f ∈ fs, sep ∉ f) : splitOn sep (joinWith [sep] fs) = fs := by
  induction fs with
  | nil => exact absurd rfl hne
  | cons f r ih =>
    cases r with
    | nil => simpa [joinWith] using splitOn_of_not_mem sep f (h f (by simp))
    | cons g r =>
      rw [joinWith_cons_cons]
      have := ih (by simp) (fun x hx => h x (by simp [hx]))
      simp only [List.append_assoc, List.singleton_append]
      rw [splitOn_append_sep sep f _ (h f (by simp)), this]

theorem length_consHead (c : Char) (l : List Str) (h : l ≠ []) : (consHead c l).length = l.length := by
  cases l with
  | nil => exact absurd rfl h
  | cons x xs => rfl

theorem nFields_eq_count (sep : Char) (l : Str) : nFields sep l = l.count sep + 1 := by
  unfold nFields
  induction l with
  | nil => rfl
  | cons c cs ih =>
    simp only [splitOn]
    by_cases hc : c = sep
    · subst hc; simp [ih]
    · rw [if_neg hc, length_consHead _ _ (splitOn_ne_nil _ _), ih]
      have : (c == sep) = false := by simpa using hc
      simp [List.count_cons, this]

theorem count_joinWith (sep : Char) (fs : List Str) (hne : fs ≠ []) (h : ∀ f ∈ fs, sep ∉ f) :
    (joinWith [sep] fs).count sep + 1 = fs.length := by
  rw [← nFields_eq_count]; unfold nFields; rw [splitOn_joinWith sep fs hne h]

/-! ## lines -/

theorem pyLines_append_nl (l rest : Str) (h : '\n' ∉ l) :
    pyLines (l ++ '\n' :: rest) = (l ++ ['\n']) :: pyLines rest := by
  induction l with
  | nil => simp [pyLines]
  | cons c cs ih =>
    have hc : c ≠ '\n' := fun e => h (by simp [e])
    have hcs : '\n' ∉ cs := fun e => h (by simp [e])
    simp [pyLines, hc, ih hcs, consHead]

theorem pyLines_of_not_mem (l : Str) (h : '\n' ∉ l) (hne : l ≠ []) : pyLines l = [l] := by
  induction l with
  | nil => exact absurd rfl hne
  | cons c cs ih =>
    have hc : c ≠ '\n' := fun e => h (by simp [e])
    have hcs : '\n' ∉ cs := fun e => h (by simp [e])
    cases cs with
    | nil => simp [pyLines, hc, consHead]
    | cons d ds =>
      have := ih hcs (by simp)
      simp only [pyLines, if_neg hc] at this ⊢
      rw [this]; rfl

/-- the lines of a rendered text: each with its terminator -/
def addNl : List Str → Bool → List Str
  | [], _ => []
  | [l], trailing => [l ++ (if trailing then ['\n'] else [])]
  | l :: l' :: r, trailing => (l ++ ['\n']) :: addNl (l' :: r) trailing

theorem pyLines_renderLines (ls : List Str) (tr : Bool) (h : ∀ l ∈ ls, '\n' ∉ l)
    (hlast : tr = true ∨ ls.getLast? ≠ some []) :
    pyLines (renderLines ls tr) = addNl ls tr := by
  induction ls with
  | nil => rfl
  | cons l r ih =>
    cases r with
    | nil =>
      have hl : '\n' ∉ l := h l (by simp)
      cases tr with
      | true =>
        simp only [renderLines, addNl, if_true]
        have := pyLines_append_nl l [] hl
        simpa [pyLines] using this
      | false =>
        have hne : l ≠ [] := by
          rcases hlast with h' | h'
          · cases h'
          · intro e; apply h'; simp [e]
        simp only [renderLines, addNl]
        simpa using pyLines_of_not_mem l hl hne
    | cons l' r =>
      simp only [renderLines, addNl]
      rw [pyLines_append_nl l _ (h l (by simp))]
      rw [ih (fun x hx => h x (by simp [hx])) (by simpa using hlast)]

theorem addNl_true (ls : List Str) : addNl ls true = ls.map (· ++ ['\n']) := by
  induction ls with
  | nil => rfl
  | cons l r ih =>
    cases r with
    | nil => rfl
    | cons l' r => simp only [addNl, List.map_cons] at ih ⊢; rw [ih]

theorem renderLines_true (ls : List Str) : renderLines ls true = (ls.map (· ++ ['\n'])).flatten := by
  induction ls with
  | nil => rfl
  | cons l r ih =>
    cases r with
    | nil => simp [renderLines]
    | cons l' r =>
      simp only [renderLines, List.map_cons, List.flatten_cons] at ih ⊢
      rw [ih]; simp

/-! ## chomp (`rstrip("\r\n")`) -/

theorem dropWhile_append_pad (p : Char → Bool) (a t : Str) (ha : ∀ c ∈ a, p c = true)
    (ht : ∀ c, t.head? = some c → p c = false) : (a ++ t).dropWhile p = t := by
  induction a with
  | nil =>
    cases t with
    | nil => rfl
    | cons c t => simp [ht c rfl]
  | cons c a ih =>
    simp only [List.cons_append, List.dropWhile_cons, ha c (by simp), if_true]
    exact ih (fun x hx => ha x (by simp [hx]))

theorem dropWhile_append_all (p : Char → Bool) (l r : Str) :
    (l ++ r).dropWhile p = if l.all p then r.dropWhile p else l.dropWhile p ++ r := by
  induction l with
  | nil => simp
  | cons c l ih =>
    by_cases hc : p c = true
    · simp only [List.cons_append, List.dropWhile_cons, hc, if_true, List.all_cons, Bool.true_and]
      exact ih
    · simp [hc]

theorem dropWhile_of_all (p : Char → Bool) (l : Str) (h : l.all p = true) : l.dropWhile p = [] := by
  induction l with
  | nil => rfl
  | cons c l ih =>
    simp only [List.all_cons, Bool.and_eq_true] at h
    simp [h.1, ih h.2]

theorem chomp_append_eol (x : Str) (c : Char) (hc : isEol c = true) : chomp (x ++ [c]) = chomp x := by
  simp [chomp, hc]

theorem chomp_append_nl (l : Str) : chomp (l ++ ['\n']) = chomp l := chomp_append_eol l _ (by decide)

/-- `rstrip("\r\n")` removes exactly the carriage returns / newlines that follow a text which does
not itself end with one -/
theorem chomp_pad (t b : Str) (hb : ∀ c ∈ b, isEol c = true)
    (hl : ∀ c, t.getLast? = some c → isEol c = false) : chomp (t ++ b) = t := by
  unfold chomp
  rw [List.reverse_append, dropWhile_append_pad isEol b.reverse t.reverse]
  · simp
  · intro x hx; exact hb x (by simpa using hx)
  · intro x hx
    apply hl
    simpa [List.head?_reverse] using hx

theorem chomp_nil : chomp [] = [] := rfl

/-- what `chomp` leaves is a prefix of the line -/
theorem chomp_prefix (l : Str) : ∃ b, l = chomp l ++ b := by
  refine ⟨(l.reverse.takeWhile isEol).reverse, ?_⟩
  unfold chomp
  rw [← List.reverse_append, List.takeWhile_append_dropWhile, List.reverse_reverse]

end Mk
