import MokapotVerif.Model.PepsKernel
import MokapotVerif.Lemmas.PepsFile
/-! Helper lemmas for `Props/C06Kernel.lean` (kernel-side composition code of C06). -/
namespace Mk.Peps

/-! ## firstReach / ptp -/

theorem firstReach_some (v : Rat) : ∀ (d : List Rat) (k i : Nat), firstReach v k d = some i →
    ∃ j, i = k + j ∧ ∃ h : j < d.length, v ≤ d[j] ∧ ∀ (j' : Nat) (h' : j' < d.length), j' < j → d[j'] < v := by
  intro d
  induction d with
  | nil => intro k i h; simp [firstReach] at h
  | cons x xs ih =>
    intro k i h
    unfold firstReach at h
    split at h
    · rename_i hx
      cases h
      refine ⟨0, rfl, by simp, by simpa using hx, ?_⟩
      intro j' _ hj'
      omega
    · rename_i hx
      obtain ⟨j, hij, hj, hv, hbefore⟩ := ih (k + 1) i h
      refine ⟨j + 1, by omega, by simp; omega, by simpa using hv, ?_⟩
      intro j' h' hj'
      cases j' with
      | zero => simpa using lt_of_not_ge hx
      | succ m =>
        have hm : m < xs.length := by simpa using h'
        simpa using hbefore m hm (by omega)

theorem firstReach_none (v : Rat) : ∀ (d : List Rat) (k : Nat), firstReach v k d = none ↔ ∀ x ∈ d, x < v := by
  intro d
  induction d with
  | nil => intro k; simp [firstReach]
  | cons x xs ih =>
    intro k
    unfold firstReach
    split
    · rename_i hx
      simp only [reduceCtorEq, false_iff]
      intro hall
      exact absurd (hall x (by simp)) (not_lt.mpr hx)
    · rename_i hx
      rw [ih (k + 1)]
      constructor
      · intro hall y hy
        rcases List.mem_cons.mp hy with rfl | hy
        · exact lt_of_not_ge hx
        · exact hall y hy
      · intro hall y hy
        exact hall y (List.mem_cons_of_mem _ hy)

theorem ptpIsZero_iff (xs : List Rat) : ptpIsZero xs = true ↔ ∀ a ∈ xs, ∀ b ∈ xs, a = b := by
  unfold ptpIsZero
  rw [List.all_eq_true]
  constructor
  · intro h a ha b hb
    have h1 := h a ha
    have h2 := h b hb
    simp only [decide_eq_true_eq] at h1 h2
    rw [h1, h2]
  · intro h a ha
    simp only [decide_eq_true_eq]
    cases xs with
    | nil => simp at ha
    | cons x rest => exact h a ha x (by simp)

/-! ## pi0 -/

theorem pi0Floor_pos : 0 < pi0Floor := by
  unfold pi0Floor
  norm_num

theorem pi0Floor_le_one : pi0Floor ≤ 1 := by
  unfold pi0Floor
  norm_num

theorem pi0BySlopeOf_ge (v : Rat) (dpdf : List Rat) (slope : Rat) : pi0Floor ≤ pi0BySlopeOf v dpdf slope := by
  unfold pi0BySlopeOf
  split
  · exact pi0Floor_le_one
  · exact le_max_right _ _

/-! ## the NNLS input of kde_nnls -/

theorem kdeCorrect_nonneg (pi0 t d : Rat) : 0 ≤ kdeCorrect pi0 t d := le_max_right _ _

theorem kdePepEst1_isSome (pi0 t d : Rat) : ∃ y, kdePepEst1 pi0 t d = some y := by
  unfold kdePepEst1
  split
  · exact ⟨_, rfl⟩
  · exact ⟨_, rfl⟩

theorem kdePepEst1_nonpos (pi0 t d : Rat) (ht : t ≤ 0) : kdePepEst1 pi0 t d = some 1 := by
  unfold kdePepEst1
  rw [if_neg (not_lt.mpr ht)]

theorem kdePepEst1_range (pi0 t d y : Rat) (h : kdePepEst1 pi0 t d = some y) : 0 ≤ y ∧ y ≤ 1 := by
  unfold kdePepEst1 at h
  split at h
  · cases h
    exact ⟨le_clip 0 1 _ (by norm_num), clip_le 0 1 _⟩
  · cases h
    exact ⟨by norm_num, le_refl _⟩

/-- on a positive target density: `1 - max(t - d·pi0, 0)/t = min(1, d·pi0/t)` — the ratio
`pi0 · f_D / f_T`, capped at 1 -/
theorem kdePepEst1_pos (pi0 t d : Rat) (ht : 0 < t) (h : 0 ≤ d * pi0) :
    kdePepEst1 pi0 t d = some (min 1 (d * pi0 / t)) := by
  unfold kdePepEst1
  rw [if_pos ht]
  congr 1
  unfold kdeCorrect clip
  have hr : 0 ≤ d * pi0 / t := div_nonneg h (le_of_lt ht)
  rcases le_total (t - d * pi0) 0 with hle | hge
  · rw [max_eq_right hle]
    have h1 : (1 : Rat) ≤ d * pi0 / t := by
      rw [le_div_iff₀ ht]
      linarith
    simp [min_eq_left h1]
  · rw [max_eq_left hge]
    have h1 : d * pi0 / t ≤ 1 := by
      rw [div_le_iff₀ ht]
      linarith
    have he : 1 - (t - d * pi0) / t = d * pi0 / t := by
      rw [sub_div, div_self (ne_of_gt ht)]
      ring
    rw [he, min_eq_right h1, max_eq_left hr, min_eq_left h1]

theorem kdePepEstOf_some (pi0 : Rat) : ∀ (ts ds r : List Rat), kdePepEstOf pi0 ts ds = some r →
    r.length = min ts.length ds.length ∧ ∀ y ∈ r, 0 ≤ y ∧ y ≤ 1 := by
  intro ts
  induction ts with
  | nil => intro ds r h; simp [kdePepEstOf] at h; subst h; simp
  | cons t ts ih =>
    intro ds r h
    cases ds with
    | nil => simp [kdePepEstOf] at h; subst h; simp
    | cons d ds =>
      unfold kdePepEstOf at h
      cases h1 : kdePepEst1 pi0 t d with
      | none => rw [h1] at h; simp at h
      | some y =>
        rw [h1] at h
        simp only [Option.bind_some] at h
        cases h2 : kdePepEstOf pi0 ts ds with
        | none => rw [h2] at h; simp at h
        | some r' =>
          rw [h2] at h
          simp only [Option.map_some, Option.some.injEq] at h
          subst h
          obtain ⟨hl, hr⟩ := ih ds r' h2
          refine ⟨by simp [hl], ?_⟩
          intro z hz
          rcases List.mem_cons.mp hz with rfl | hz
          · exact kdePepEst1_range pi0 t d z h1
          · exact hr z hz

/-- since the repair the vector always exists -/
theorem kdePepEstOf_total (pi0 : Rat) : ∀ (ts ds : List Rat), ∃ r, kdePepEstOf pi0 ts ds = some r := by
  intro ts
  induction ts with
  | nil => intro ds; exact ⟨[], by simp [kdePepEstOf]⟩
  | cons t ts ih =>
    intro ds
    cases ds with
    | nil => exact ⟨[], by simp [kdePepEstOf]⟩
    | cons d ds =>
      obtain ⟨y, hy⟩ := kdePepEst1_isSome pi0 t d
      obtain ⟨r, hr⟩ := ih ds
      exact ⟨y :: r, by unfold kdePepEstOf; rw [hy, hr]; rfl⟩

end Mk.Peps
