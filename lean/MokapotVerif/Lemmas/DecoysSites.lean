import MokapotVerif.Lemmas.Decoys
/-! Helper lemmas for C18: cleavage sites are well-formed, the decoy is the
peptide-wise image of the target at the *positions* of the sites, and a
residue-class enzyme sees the same cut mask in target and decoy. -/
namespace Mk.Decoys
variable {α β : Type}

theorem mem_of_mem_dropLast' {a : α} {l : List α} (h : a ∈ l.dropLast) : a ∈ l := by
  rw [List.dropLast_eq_take] at h
  exact List.mem_of_mem_take h

/-! ### well-formed sites -/

theorem matchEnds_bounds (cut block : α → Bool) (l : List α) (off : Nat) :
    ∀ s ∈ matchEnds cut block off l, off < s ∧ s ≤ off + l.length := by
  induction l generalizing off with
  | nil => intro s hs; simp [matchEnds] at hs
  | cons c rest ih =>
    intro s hs
    simp only [matchEnds] at hs
    split at hs
    · rcases List.mem_cons.mp hs with rfl | hs
      · simp
      · have := ih (off + 1) s hs; simp; omega
    · have := ih (off + 1) s hs; simp; omega

theorem matchEnds_pairwise (cut block : α → Bool) (l : List α) (off : Nat) :
    (matchEnds cut block off l).Pairwise (· < ·) := by
  induction l generalizing off with
  | nil => simp [matchEnds]
  | cons c rest ih =>
    simp only [matchEnds]
    split
    · refine List.pairwise_cons.mpr ⟨?_, ih (off + 1)⟩
      intro s hs
      exact (matchEnds_bounds cut block rest (off + 1) s hs).1
    · exact ih (off + 1)

theorem cleavageSites_ok (cut block : α → Bool) (seq : List α) :
    SitesOK seq.length (cleavageSites cut block seq) := by
  unfold cleavageSites SitesOK
  constructor
  · refine List.pairwise_cons.mpr ⟨fun _ _ => Nat.zero_le _, ?_⟩
    refine List.pairwise_append.mpr ⟨?_, by simp, ?_⟩
    · exact (matchEnds_pairwise cut block seq 0).imp (fun h => Nat.le_of_lt h)
    · intro a ha b hb
      have := (matchEnds_bounds cut block seq 0 a ha).2
      simp at hb; omega
  · intro s hs
    rcases List.mem_cons.mp hs with rfl | hs
    · exact Nat.zero_le _
    · rcases List.mem_append.mp hs with hs | hs
      · have := (matchEnds_bounds cut block seq 0 s hs).2; omega
      · simp at hs; omega

/-- the whole-sequence statement: on the sites of the sequence itself the loop of
`_shuffle_proteins` never fails and yields the peptide-wise description -/
theorem shuffleLoop_sites {perms : Nat → List Nat} (hp : PermFamily perms) (sites : List Nat) (seq : List α)
    (hok : SitesOK seq.length (0 :: sites)) :
    shuffleLoop perms (0 :: sites) seq = some (specLoop perms (0 :: sites) seq) := by
  have := shuffleLoop_eq_spec hp sites 0 [] seq (by simpa using hok) rfl
  simpa using this

/-! ### slices -/

theorem slice_append_left (P X : List α) (b : Nat) :
    slice (P ++ X) P.length b = X.take (b - P.length) := by
  unfold slice; rw [List.drop_left]

theorem slice_append_ge (X Y R : List α) (a b : Nat) (hxy : X.length = Y.length) (ha : X.length ≤ a) :
    slice (X ++ R) a b = slice (Y ++ R) a b := by
  unfold slice
  rw [List.drop_append_of_le_length' ha, List.drop_append_of_le_length' (hxy ▸ ha), hxy]
where
  List.drop_append_of_le_length' {l₁ l₂ : List α} {n : Nat} (h : l₁.length ≤ n) :
      (l₁ ++ l₂).drop n = l₂.drop (n - l₁.length) := by
    rw [List.drop_append]; simp [List.drop_eq_nil_of_le h]

theorem slice_head? (l : List α) (a b : Nat) (h : a < b) : (slice l a b).head? = l[a]? := by
  unfold slice
  rw [List.head?_take, if_neg (by omega), List.head?_drop]

theorem slice_length (l : List α) (a b : Nat) (h : b ≤ l.length) : (slice l a b).length = b - a := by
  unfold slice; simp; omega

theorem slice_getLast? (l : List α) (a b : Nat) (h : a < b) (hb : b ≤ l.length) :
    (slice l a b).getLast? = l[b - 1]? := by
  rw [List.getLast?_eq_getElem?, slice_length l a b hb]
  unfold slice
  rw [List.getElem?_take_of_lt (by omega), List.getElem?_drop]
  congr 1; omega

/-! ### the decoy at the positions of the sites -/

theorem sitesOK_head_le {n s0 : Nat} {sites : List Nat} (h : SitesOK n (s0 :: sites)) (i : Nat)
    (hi : i < (s0 :: sites).length) : s0 ≤ (s0 :: sites)[i] := by
  cases i with
  | zero => simp
  | succ j =>
    simp only [List.getElem_cons_succ]
    exact (List.pairwise_cons.mp h.1).1 _ (List.getElem_mem _)

/-- every stretch between consecutive sites of the result is the shuffled image of the
same stretch of the input -/
theorem specLoop_slice {perms : Nat → List Nat} (hp : PermFamily perms) (sites : List Nat) :
    ∀ (s0 : Nat) (P R : List α), SitesOK (P.length + R.length) (s0 :: sites) → P.length = s0 →
      ∀ i (hi : i + 1 < (s0 :: sites).length),
        slice (P ++ specLoop perms (s0 :: sites) R) (s0 :: sites)[i] (s0 :: sites)[i + 1]
          = shufflePeptide perms (slice (P ++ R) (s0 :: sites)[i] (s0 :: sites)[i + 1]) := by
  induction sites with
  | nil => intro s0 P R _ _ i hi; simp at hi
  | cons e rest ih =>
    intro s0 P R hok hP i hi
    have hse : s0 ≤ e := (List.pairwise_cons.mp hok.1).1 e (by simp)
    have hen : e ≤ P.length + R.length := hok.2 e (by simp)
    have hpl : (R.take (e - s0)).length = e - s0 := by simp; omega
    have hspl : (shufflePeptide perms (R.take (e - s0))).length = e - s0 := by
      rw [shufflePeptide_length hp, hpl]
    cases i with
    | zero =>
      simp only [List.getElem_cons_zero, List.getElem_cons_succ, Nat.zero_add]
      subst hP
      rw [slice_append_left, slice_append_left]
      simp only [specLoop]
      rw [List.take_left' hspl]
    | succ j =>
      simp only [List.getElem_cons_succ]
      have hj : j + 1 < (e :: rest).length := by simpa using hi
      have hlen' : (P ++ shufflePeptide perms (R.take (e - s0))).length = e := by
        rw [List.length_append, hspl]; omega
      have hok' : SitesOK ((P ++ shufflePeptide perms (R.take (e - s0))).length + (R.drop (e - s0)).length)
          (e :: rest) := by
        have h := hok.tail
        have : (P ++ shufflePeptide perms (R.take (e - s0))).length + (R.drop (e - s0)).length
            = P.length + R.length := by rw [hlen']; simp; omega
        rw [this]; exact h
      have := ih e (P ++ shufflePeptide perms (R.take (e - s0))) (R.drop (e - s0)) hok' hlen' j hj
      have hspec : P ++ specLoop perms (s0 :: e :: rest) R
          = (P ++ shufflePeptide perms (R.take (e - s0))) ++ specLoop perms (e :: rest) (R.drop (e - s0)) := by
        simp [specLoop]
      simp only [List.getElem_cons_succ] at this
      rw [hspec, this]
      congr 1
      have hge : e ≤ (e :: rest)[j] := sitesOK_head_le hok' j (by omega)
      have hR : P ++ R = (P ++ R.take (e - s0)) ++ R.drop (e - s0) := by
        rw [List.append_assoc, List.take_append_drop]
      rw [hR]
      apply slice_append_ge
      · simp only [List.length_append, hspl, hpl]
      · rw [hlen']; exact hge

/-! ### residue-class enzymes: the cut mask is preserved -/

theorem mem_interior_concat {a c : α} {A : List α} (h : a ∈ interior (A ++ [c])) : a ∈ A := by
  cases A with
  | nil => simp [interior] at h
  | cons a0 A' =>
    have : interior (a0 :: A' ++ [c]) = A' := by simp [interior]
    rw [this] at h
    exact List.mem_cons_of_mem _ h

theorem shufflePeptide_map_cut {perms : Nat → List Nat} (hp : PermFamily perms) (cut : α → Bool)
    (pep : List α) (h : ∀ a ∈ interior pep, cut a = false) :
    (shufflePeptide perms pep).map cut = pep.map cut := by
  rcases peptide_cases pep with hs | ⟨x, I, y, rfl, hI⟩
  · rw [shufflePeptide_short _ _ hs]
  · rw [shufflePeptide_decomp _ _ _ _ hI]
    rw [interior_decomp] at h
    have hperm := permuteBy_perm (hp I.length) (I := I)
    have h1 : (permuteBy (perms I.length) I).map cut = List.replicate I.length false := by
      apply List.eq_replicate_iff.mpr
      refine ⟨by simp [hperm.length_eq], ?_⟩
      intro b hb
      obtain ⟨a, ha, rfl⟩ := List.mem_map.mp hb
      exact h a (hperm.mem_iff.mp ha)
    have h2 : I.map cut = List.replicate I.length false := by
      apply List.eq_replicate_iff.mpr
      refine ⟨by simp, ?_⟩
      intro b hb
      obtain ⟨a, ha, rfl⟩ := List.mem_map.mp hb
      exact h a ha
    simp [h1, h2]

/-- shape of the match ends of a residue-class enzyme: none, or the first one sits right
after the first cut residue -/
theorem matchEnds_decomp (cut : α → Bool) (R : List α) (off : Nat) :
    ((∀ a ∈ R, cut a = false) ∧ matchEnds cut noBlock off R = []) ∨
    ∃ A c R', R = A ++ c :: R' ∧ (∀ a ∈ A, cut a = false) ∧ cut c = true ∧
      matchEnds cut noBlock off R = (off + A.length + 1) :: matchEnds cut noBlock (off + A.length + 1) R' := by
  induction R generalizing off with
  | nil => left; simp [matchEnds]
  | cons x t ih =>
    have hnb : nextBlocked (noBlock : α → Bool) t = false := by cases t <;> rfl
    by_cases hx : cut x = true
    · right
      exact ⟨[], x, t, rfl, by simp, hx, by simp [matchEnds, hx, hnb]⟩
    · have hx' : cut x = false := by simpa using hx
      have hm : matchEnds cut noBlock off (x :: t) = matchEnds cut noBlock (off + 1) t := by
        simp [matchEnds, hx']
      rcases ih (off + 1) with ⟨h1, h2⟩ | ⟨A, c, R', rfl, hA, hc, hme⟩
      · left
        refine ⟨?_, by rw [hm, h2]⟩
        intro a ha
        rcases List.mem_cons.mp ha with rfl | ha
        · exact hx'
        · exact h1 a ha
      · right
        refine ⟨x :: A, c, R', rfl, ?_, hc, ?_⟩
        · intro a ha
          rcases List.mem_cons.mp ha with rfl | ha
          · exact hx'
          · exact hA a ha
        · rw [hm, hme]
          have : off + 1 + A.length + 1 = off + (x :: A).length + 1 := by simp; omega
          rw [this]

theorem specLoop_map_cut {perms : Nat → List Nat} (hp : PermFamily perms) (cut : α → Bool) (n : Nat) :
    ∀ (R : List α) (off : Nat), R.length ≤ n →
      (specLoop perms (off :: (matchEnds cut noBlock off R ++ [off + R.length])) R).map cut = R.map cut := by
  induction n with
  | zero =>
    intro R off h
    have : R = [] := List.eq_nil_of_length_eq_zero (by omega)
    subst this
    simp [matchEnds, specLoop, shufflePeptide]
  | succ n ih =>
    intro R off hlen
    rcases matchEnds_decomp cut R off with ⟨h1, h2⟩ | ⟨A, c, R', rfl, hA, hc, hme⟩
    · rw [h2]
      simp only [List.nil_append, specLoop]
      have : off + R.length - off = R.length := by omega
      rw [this, List.take_length, List.drop_length, List.append_nil]
      apply shufflePeptide_map_cut hp
      intro a ha
      apply h1
      unfold interior at ha
      exact List.mem_of_mem_drop (mem_of_mem_dropLast' ha)
    · rw [hme]
      simp only [List.cons_append, specLoop]
      have h1 : off + A.length + 1 - off = (A ++ [c]).length := by simp; omega
      have h2 : A ++ c :: R' = (A ++ [c]) ++ R' := by simp
      rw [h1, h2, List.take_left' rfl, List.drop_left' rfl, List.map_append, List.map_append]
      congr 1
      · apply shufflePeptide_map_cut hp
        intro a ha
        exact hA a (mem_interior_concat ha)
      · have h3 : off + (A ++ [c] ++ R').length = off + A.length + 1 + R'.length := by
          simp; omega
        rw [h3]
        apply ih
        simp at hlen; omega

theorem matchEnds_congr (cut : α → Bool) (l1 l2 : List α) (off : Nat) (h : l1.map cut = l2.map cut) :
    matchEnds cut noBlock off l1 = matchEnds cut noBlock off l2 := by
  induction l1 generalizing l2 off with
  | nil =>
    cases l2 with
    | nil => rfl
    | cons _ _ => simp at h
  | cons x t ih =>
    cases l2 with
    | nil => simp at h
    | cons y u =>
      simp only [List.map_cons, List.cons.injEq] at h
      have hnb1 : nextBlocked (noBlock : α → Bool) t = false := by cases t <;> rfl
      have hnb2 : nextBlocked (noBlock : α → Bool) u = false := by cases u <;> rfl
      simp only [matchEnds, hnb1, hnb2, h.1, ih u (off + 1) h.2]

theorem cleavageSites_congr (cut : α → Bool) (l1 l2 : List α) (h : l1.map cut = l2.map cut) :
    cleavageSites cut noBlock l1 = cleavageSites cut noBlock l2 := by
  unfold cleavageSites
  rw [matchEnds_congr cut l1 l2 0 h]
  have : l1.length = l2.length := by simpa using congrArg List.length h
  rw [this]

end Mk.Decoys
