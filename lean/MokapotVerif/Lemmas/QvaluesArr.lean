import MokapotVerif.Lemmas.QvaluesRuns
/-! The array-level pipeline of `tdc` (`sweepArr`: cumulative sums, guarded division,
`np.unique` counts, flips, the `_fdr2qvalue` loop) computes exactly what the fused sweep
`go` of `Model/Qvalues.lean` computes, on every best-first sorted input, in both directions. -/
namespace Mk.Qv
open Mk
variable {α : Type}

/-- the natural order of the scores: total, transitive, antisymmetric (finite floats) -/
structure LinearLe (leq : α → α → Bool) : Prop where
  total : ∀ a b, leq a b = true ∨ leq b a = true
  trans : ∀ a b c, leq a b = true → leq b c = true → leq a c = true
  antisymm : ∀ a b, leq a b = true → leq b a = true → a = b

theorem LinearLe.totalPre {leq : α → α → Bool} (h : LinearLe leq) (desc : Bool) :
    TotalPre (dirLe leq desc) := by
  constructor
  · intro a b
    cases desc
    · simpa [dirLe] using h.total b a
    · simpa [dirLe] using h.total a b
  · intro a b c
    cases desc
    · simp only [dirLe]; intro h1 h2; exact h.trans _ _ _ h2 h1
    · simp only [dirLe]; intro h1 h2; exact h.trans _ _ _ h1 h2

theorem tieOf_symm (leq : α → α → Bool) (a b : α) : tieOf leq a b = tieOf leq b a := by
  simp [tieOf, Bool.and_comm]

theorem tieOf_dirLe (leq : α → α → Bool) (desc : Bool) : tieOf (dirLe leq desc) = tieOf leq := by
  funext a b
  cases desc <;> simp [tieOf, dirLe, Bool.and_comm]

/-! ### the arrays of `sweepCounts` -/

def fdrs (T D : Nat) (l : List (α × Bool)) : List Rat :=
  List.zipWith fdrRaw (cumsumBy targetInd T (l.map (·.2))) (cumsumBy decoyInd D (l.map (·.2)))

def nts (T D : Nat) (l : List (α × Bool)) : List Nat :=
  List.zipWith (· + ·) (cumsumBy targetInd T (l.map (·.2))) (cumsumBy decoyInd D (l.map (·.2)))

theorem step_eq (b : Bool) (T D : Nat) : step b T D = (T + targetInd b, D + decoyInd b) := by
  cases b <;> simp [step, targetInd, decoyInd]

theorem fdrs_cons (T D : Nat) (s : α) (b : Bool) (rest : List (α × Bool)) :
    fdrs T D ((s, b) :: rest)
      = fdrRaw (step b T D).1 (step b T D).2 :: fdrs (step b T D).1 (step b T D).2 rest := by
  simp [fdrs, cumsumBy, step_eq]

theorem nts_cons (T D : Nat) (s : α) (b : Bool) (rest : List (α × Bool)) :
    nts T D ((s, b) :: rest)
      = ((step b T D).1 + (step b T D).2) :: nts (step b T D).1 (step b T D).2 rest := by
  simp [nts, cumsumBy, step_eq]

theorem length_cumsumBy (f : Bool → Nat) (acc : Nat) (bs : List Bool) :
    (cumsumBy f acc bs).length = bs.length := by
  induction bs generalizing acc with
  | nil => rfl
  | cons b bs ih => simp [cumsumBy, ih]

theorem length_fdrs (T D : Nat) (l : List (α × Bool)) : (fdrs T D l).length = l.length := by
  simp [fdrs, length_cumsumBy]

theorem length_nts (T D : Nat) (l : List (α × Bool)) : (nts T D l).length = l.length := by
  simp [nts, length_cumsumBy]

/-- `num_total` only grows along the sorted array -/
theorem nts_ge (l : List (α × Bool)) : ∀ T D, ∀ y ∈ nts T D l, T + D ≤ y := by
  induction l with
  | nil => intro T D y hy; simp [nts, cumsumBy] at hy
  | cons x rest ih =>
    intro T D y hy
    obtain ⟨s, b⟩ := x
    rw [nts_cons] at hy
    have hst : T + D ≤ (step b T D).1 + (step b T D).2 := by
      cases b <;> simp [step]
    rcases List.mem_cons.mp hy with rfl | hy
    · exact hst
    · exact le_trans hst (ih _ _ y hy)

/-- the next score ties with the head of the rest iff it is not the end of its group -/
theorem tiesHead_eq_not_isEnd (le : α → α → Bool) (s : α) (rest : List (α × Bool))
    (hhead : ∀ y ∈ rest, le y.1 s = true) :
    tiesHead (fun a b => tieOf le b a) s (rest.map (·.1)) = !(isEnd le s rest) := by
  cases rest with
  | nil => rfl
  | cons x r =>
    obtain ⟨s', b'⟩ := x
    simp only [List.map_cons, tiesHead, isEnd, tieOf, Bool.not_not]
    rw [hhead (s', b') (by simp)]
    simp

/-- **the loop computes the fused sweep**: on the flipped arrays, with the groups of the
flipped scores, `_fdr2qvalue`'s loop returns the flipped result of `go`. -/
theorem loop_eq_go (le : α → α → Bool) (l : List (α × Bool)) : ∀ T D, SortedDesc le l →
    fdr2qLoop 1 (fdrs T D l).reverse (nts T D l).reverse
        (runLengths (tieOf le) (l.map (·.1)).reverse)
      = some (go le T D l).reverse := by
  induction l with
  | nil => intro T D _; simp [fdrs, nts, cumsumBy, runLengths, fdr2qLoop, go]
  | cons x rest ih =>
    intro T D hs
    obtain ⟨s, b⟩ := x
    have hs' : SortedDesc le rest := (List.pairwise_cons.mp hs).2
    have hhead : ∀ y ∈ rest, le y.1 s = true := (List.pairwise_cons.mp hs).1
    have ihr := ih (step b T D).1 (step b T D).2 hs'
    have hsum : (runLengths (tieOf le) (rest.map (·.1)).reverse).sum
        = (fdrs (step b T D).1 (step b T D).2 rest).reverse.length := by
      rw [runLengths_sum]; simp [length_fdrs]
    have hlen : (fdrs (step b T D).1 (step b T D).2 rest).reverse.length
        = (nts (step b T D).1 (step b T D).2 rest).reverse.length := by
      simp [length_fdrs, length_nts]
    rw [fdrs_cons, nts_cons, List.map_cons, List.reverse_cons, List.reverse_cons, List.reverse_cons,
      runLengths_snoc, List.reverse_reverse, tiesHead_eq_not_isEnd le s rest hhead]
    simp only [go]
    by_cases hend : isEnd le s rest = true
    · -- a new group
      simp only [hend, Bool.not_true, Bool.false_eq_true, if_false, if_true]
      rw [fdr2qLoop_snoc_new _ _ _ 1 _ _ _ hsum hlen ihr, lastOr_reverse, List.reverse_cons]
    · -- the best group so far grows
      have hend' : isEnd le s rest = false := by simpa using hend
      simp only [hend', Bool.not_false, if_true, Bool.false_eq_true, if_false]
      have hrest : rest ≠ [] := by
        rintro rfl
        simp [isEnd] at hend'
      have hne : runLengths (tieOf le) (rest.map (·.1)).reverse ≠ [] :=
        runLengths_ne_nil _ (by simpa using hrest)
      have hn : ∀ y ∈ (nts (step b T D).1 (step b T D).2 rest).reverse,
          (step b T D).1 + (step b T D).2 ≤ y := by
        intro y hy
        exact nts_ge rest _ _ y (List.mem_reverse.mp hy)
      rw [fdr2qLoop_snoc_bump _ _ _ 1 _ _ _ hne hsum hlen hn ihr, lastOr_reverse, List.reverse_cons]

/-! ### `np.unique` on the gathered scores -/

theorem sorted_scores_desc (leq : α → α → Bool) (l : List (α × Bool))
    (hs : SortedDesc (dirLe leq true) l) : (l.map (·.1)).reverse.Pairwise (fun a b => leq a b = true) := by
  rw [List.pairwise_reverse, List.pairwise_map]
  exact hs.imp (fun h => by simpa [dirLe] using h)

theorem sorted_scores_asc (leq : α → α → Bool) (l : List (α × Bool))
    (hs : SortedDesc (dirLe leq false) l) : (l.map (·.1)).Pairwise (fun a b => leq a b = true) := by
  rw [List.pairwise_map]
  exact hs.imp (fun h => by simpa [dirLe] using h)

/-- the worst-first group sizes the code derives from `np.unique` (with the extra flip when
lower scores are better) are the run lengths of the flipped score array -/
theorem wfCounts_eq (leq : α → α → Bool) (hle : LinearLe leq) (desc : Bool) (l : List (α × Bool))
    (hs : SortedDesc (dirLe leq desc) l) :
    wfCounts leq desc (l.map (·.1)) = runLengths (tieOf (dirLe leq desc)) (l.map (·.1)).reverse := by
  rw [tieOf_dirLe]
  cases desc with
  | true =>
    simp only [wfCounts, if_true, npUniqueCounts]
    congr 1
    have hsorted := List.pairwise_mergeSort (le := leq)
      (fun a b c => hle.trans a b c)
      (fun a b => by rcases hle.total a b with h | h <;> simp [h]) (l.map (·.1))
    apply List.Perm.eq_of_pairwise (le := fun a b => leq a b = true)
      (fun a b _ _ => hle.antisymm a b) hsorted (sorted_scores_desc leq l hs)
    exact (List.mergeSort_perm _ _).trans (List.reverse_perm _).symm
  | false =>
    simp only [wfCounts, Bool.false_eq_true, if_false, npUniqueCounts]
    rw [List.mergeSort_of_pairwise (sorted_scores_asc leq l hs),
      runLengths_reverse _ (tieOf_symm leq)]

/-- the array-level middle of `tdc` equals the fused sweep on every best-first sorted input -/
theorem sweepArr_eq_go (leq : α → α → Bool) (hle : LinearLe leq) (desc : Bool) (l : List (α × Bool))
    (hs : SortedDesc (dirLe leq desc) l) :
    sweepArr leq desc l = some (go (dirLe leq desc) 0 0 l) := by
  unfold sweepArr sweepCounts fdr2qvalue
  rw [wfCounts_eq leq hle desc l hs]
  have hlen : (List.zipWith fdrRaw (cumsumBy targetInd 0 (l.map (·.2)))
      (cumsumBy decoyInd 0 (l.map (·.2)))).reverse.length
      = (List.zipWith (· + ·) (cumsumBy targetInd 0 (l.map (·.2)))
      (cumsumBy decoyInd 0 (l.map (·.2)))).reverse.length := by
    simp [length_cumsumBy]
  simp only [hlen, if_true]
  have h := loop_eq_go (dirLe leq desc) l 0 0 hs
  unfold fdrs nts at h
  rw [h]
  simp

/-- … so the whole array-level `tdc`, for any admissible `argsort`, is the fused one -/
theorem tdcArrOf_eq_tdcOf (leq : α → α → Bool) (hle : LinearLe leq) (desc : Bool) (n : Nat)
    (sorted : List ((α × Bool) × Nat)) (hs : SortedDesc (dirLe leq desc) (sorted.map (·.1))) :
    tdcArrOf leq desc n sorted = some (tdcOf (dirLe leq desc) n sorted) := by
  unfold tdcArrOf tdcOf
  rw [sweepArr_eq_go leq hle desc _ hs]
  rfl

theorem sorted_mergeSort_better (le : α → α → Bool) (hle : TotalPre le) (xs : List (α × Bool)) :
    SortedDesc le ((xs.zipIdx.mergeSort (better le)).map (·.1)) := by
  have hsorted := List.pairwise_mergeSort (le := better le)
    (fun a b c => better_trans le hle a b c) (fun a b => better_total le hle a b) xs.zipIdx
  unfold SortedDesc
  rw [List.pairwise_map]
  exact hsorted.imp (fun h => h)

theorem tdcArr_eq_tdc (leq : α → α → Bool) (hle : LinearLe leq) (desc : Bool) (xs : List (α × Bool)) :
    tdcArr leq desc xs = some (tdc (dirLe leq desc) xs) := by
  unfold tdcArr tdc
  exact tdcArrOf_eq_tdcOf leq hle desc _ _ (sorted_mergeSort_better _ (hle.totalPre desc) xs)

end Mk.Qv
