import MokapotVerif.Lemmas.GroupingFinal
/-! The executable declarative spec (`specGroups`, `uniqueOf`, `sharedOf`) satisfies the
relational specification (C16). -/
set_option linter.unusedSectionVars false
namespace Mk.Grouping
variable {α β : Type} [DecidableEq α] [DecidableEq β]

theorem isMaxB_iff (P : List (Prot α β)) (S : List β) :
    isMaxB P S = true ↔ ∀ q Sq, (q, Sq) ∈ P → S ⊆ Sq → Sq ⊆ S := by
  unfold isMaxB
  rw [List.all_eq_true]
  constructor
  · intro h q Sq hq hsub
    have := h (q, Sq) hq
    simp only [Bool.or_eq_true, Bool.not_eq_true'] at this
    rcases this with h1 | h1
    · have h2 := (subsetB_iff S Sq).mpr hsub
      rw [h1] at h2
      exact absurd h2 (by simp)
    · exact (subsetB_iff _ _).mp h1
  · intro h e he
    simp only [Bool.or_eq_true, Bool.not_eq_true']
    by_cases h1 : subsetB S e.2 = true
    · exact Or.inr ((subsetB_iff _ _).mpr (h e.1 e.2 he ((subsetB_iff _ _).mp h1)))
    · exact Or.inl (by simpa using h1)

theorem mem_membersOf (P : List (Prot α β)) (S : List β) (q : α) :
    q ∈ membersOf P S ↔ ∃ Sq, (q, Sq) ∈ P ∧ Sq ⊆ S := by
  unfold membersOf
  simp only [List.mem_map, List.mem_filter, subsetB_iff]
  constructor
  · rintro ⟨⟨q', Sq⟩, ⟨he, hsub⟩, rfl⟩; exact ⟨Sq, he, hsub⟩
  · rintro ⟨Sq, he, hsub⟩; exact ⟨(q, Sq), ⟨he, hsub⟩, rfl⟩

theorem specCons_eq (P : List (Prot α β)) (e : Prot α β) (reps : List (Prot α β)) :
    (isMaxB P e.2 = true ∧ (∀ r ∈ reps, ¬ (r.2 ⊆ e.2 ∧ e.2 ⊆ r.2)) ∧ specCons P e reps = e :: reps) ∨
    ((isMaxB P e.2 = false ∨ ∃ r ∈ reps, r.2 ⊆ e.2 ∧ e.2 ⊆ r.2) ∧ specCons P e reps = reps) := by
  unfold specCons
  by_cases h1 : isMaxB P e.2 = true
  · by_cases h2 : reps.any (fun r => subsetB r.2 e.2 && subsetB e.2 r.2) = true
    · right
      rw [List.any_eq_true] at h2
      obtain ⟨r, hr, hc⟩ := h2
      simp only [Bool.and_eq_true, subsetB_iff] at hc
      refine ⟨Or.inr ⟨r, hr, hc⟩, ?_⟩
      have : reps.any (fun r => subsetB r.2 e.2 && subsetB e.2 r.2) = true :=
        List.any_eq_true.mpr ⟨r, hr, by simpa [subsetB_iff] using hc⟩
      simp [h1, this]
    · left
      have h2' : reps.any (fun r => subsetB r.2 e.2 && subsetB e.2 r.2) = false := by simpa using h2
      refine ⟨h1, ?_, by simp [h1, h2']⟩
      intro r hr hc
      apply h2
      exact List.any_eq_true.mpr ⟨r, hr, by simpa [subsetB_iff] using hc⟩
  · right
    have h1' : isMaxB P e.2 = false := by simpa using h1
    exact ⟨Or.inl h1', by simp [h1']⟩

theorem specReps_sub (P : List (Prot α β)) : ∀ (L : List (Prot α β)) (r : Prot α β),
    r ∈ specReps P L → r ∈ L ∧ isMaxB P r.2 = true := by
  intro L
  induction L with
  | nil => intro r h; simp [specReps] at h
  | cons e rest ih =>
    intro r h
    simp only [specReps] at h
    rcases specCons_eq P e (specReps P rest) with ⟨h1, _, h3⟩ | ⟨_, h3⟩
    · rw [h3] at h
      rcases List.mem_cons.mp h with rfl | h'
      · exact ⟨by simp, h1⟩
      · exact ⟨List.mem_cons_of_mem _ (ih r h').1, (ih r h').2⟩
    · rw [h3] at h
      exact ⟨List.mem_cons_of_mem _ (ih r h).1, (ih r h).2⟩

theorem specReps_complete (P : List (Prot α β)) : ∀ (L : List (Prot α β)) (e : Prot α β),
    e ∈ L → isMaxB P e.2 = true → ∃ r ∈ specReps P L, r.2 ⊆ e.2 ∧ e.2 ⊆ r.2 := by
  intro L
  induction L with
  | nil => intro e h; simp at h
  | cons x rest ih =>
    intro e he hmax
    simp only [specReps]
    rcases specCons_eq P x (specReps P rest) with ⟨_, _, h3⟩ | ⟨h1, h3⟩
    · rw [h3]
      rcases List.mem_cons.mp he with rfl | he'
      · exact ⟨e, by simp, fun _ h => h, fun _ h => h⟩
      · obtain ⟨r, hr, hc⟩ := ih e he' hmax
        exact ⟨r, List.mem_cons_of_mem _ hr, hc⟩
    · rw [h3]
      rcases List.mem_cons.mp he with rfl | he'
      · rcases h1 with h1 | ⟨r, hr, hc⟩
        · rw [hmax] at h1; simp at h1
        · exact ⟨r, hr, hc⟩
      · exact ih e he' hmax

theorem specReps_pairwise (P : List (Prot α β)) : ∀ (L : List (Prot α β)),
    (specReps P L).Pairwise (fun a b => ¬ (a.2 ⊆ b.2 ∧ b.2 ⊆ a.2)) := by
  intro L
  induction L with
  | nil => simp [specReps]
  | cons x rest ih =>
    simp only [specReps]
    rcases specCons_eq P x (specReps P rest) with ⟨_, h2, h3⟩ | ⟨_, h3⟩
    · rw [h3, List.pairwise_cons]
      refine ⟨?_, ih⟩
      intro r hr hc
      exact h2 r hr ⟨hc.2, hc.1⟩
    · rw [h3]; exact ih

theorem pairwise_forall_symm {γ : Type} {R : γ → γ → Prop} (hsym : ∀ a b, R a b → R b a) :
    ∀ l : List γ, l.Pairwise R → ∀ a ∈ l, ∀ b ∈ l, a ≠ b → R a b := by
  intro l
  induction l with
  | nil => intro _ a ha; simp at ha
  | cons x t ih =>
    intro h a ha b hb hab
    rw [List.pairwise_cons] at h
    rcases List.mem_cons.mp ha with rfl | ha' <;> rcases List.mem_cons.mp hb with rfl | hb'
    · exact absurd rfl hab
    · exact h.1 b hb'
    · exact hsym _ _ (h.1 a ha')
    · exact ih h.2 a ha' b hb' hab

theorem exists_max_length (L : List (Prot α β)) (hL : L ≠ []) :
    ∃ x ∈ L, ∀ y ∈ L, y.2.length ≤ x.2.length := by
  induction L with
  | nil => exact absurd rfl hL
  | cons a t ih =>
    by_cases ht : t = []
    · subst ht
      exact ⟨a, by simp, by simp⟩
    · obtain ⟨x, hx, hmax⟩ := ih ht
      by_cases hax : x.2.length ≤ a.2.length
      · refine ⟨a, by simp, ?_⟩
        intro y hy
        rcases List.mem_cons.mp hy with rfl | hy'
        · exact Nat.le_refl _
        · exact Nat.le_trans (hmax y hy') hax
      · refine ⟨x, List.mem_cons_of_mem _ hx, ?_⟩
        intro y hy
        rcases List.mem_cons.mp hy with rfl | hy'
        · omega
        · exact hmax y hy'

/-- above every peptide set there is a maximal one -/
theorem exists_max_above (P : List (Prot α β)) (hwf : WF P) (q : α) (Sq : List β) (hq : (q, Sq) ∈ P) :
    ∃ q' S', (q', S') ∈ P ∧ Sq ⊆ S' ∧ isMaxB P S' = true := by
  have hne : P.filter (fun e => subsetB Sq e.2) ≠ [] := by
    intro h0
    have : (q, Sq) ∈ P.filter (fun e => subsetB Sq e.2) :=
      List.mem_filter.mpr ⟨hq, (subsetB_iff _ _).mpr (fun _ h => h)⟩
    rw [h0] at this
    simp at this
  obtain ⟨⟨q', S'⟩, hx, hmax⟩ := exists_max_length _ hne
  rw [List.mem_filter, subsetB_iff] at hx
  refine ⟨q', S', hx.1, hx.2, ?_⟩
  rw [isMaxB_iff]
  intro q2 S2 hq2 hsub
  have h2 : (q2, S2) ∈ P.filter (fun e => subsetB Sq e.2) :=
    List.mem_filter.mpr ⟨hq2, (subsetB_iff _ _).mpr (fun p hp => hsub (hx.2 hp))⟩
  exact subset_of_subset_of_length_le S' S2 (hwf.peps q' S' hx.1).2 hsub (hmax _ h2)

theorem mem_specGroups (P : List (Prot α β)) (k : GKey α) (S : List β) :
    (k, S) ∈ specGroups P ↔ ∃ r ∈ specReps P P, k = membersOf P r.2 ∧ S = r.2 := by
  unfold specGroups
  simp only [List.mem_map, Prod.mk.injEq]
  constructor
  · rintro ⟨r, hr, h1, h2⟩; exact ⟨r, hr, h1.symm, h2.symm⟩
  · rintro ⟨r, hr, h1, h2⟩; exact ⟨r, hr, h1.symm, h2.symm⟩

/-- the executable declarative spec is a maximal-subset grouping -/
theorem specGroups_isGrouping (P : List (Prot α β)) (hwf : WF P) : IsGrouping P (specGroups P) := by
  have hrep : ∀ r ∈ specReps P P, r ∈ P ∧ ∀ q Sq, (q, Sq) ∈ P → r.2 ⊆ Sq → Sq ⊆ r.2 := by
    intro r hr
    obtain ⟨h1, h2⟩ := specReps_sub P P r hr
    exact ⟨h1, (isMaxB_iff P r.2).mp h2⟩
  have hself : ∀ r ∈ specReps P P, r.1 ∈ membersOf P r.2 := by
    intro r hr
    exact (mem_membersOf _ _ _).mpr ⟨r.2, (hrep r hr).1, fun _ h => h⟩
  have hpw := specReps_pairwise P P
  have hsym : ∀ a b : Prot α β, ¬ (a.2 ⊆ b.2 ∧ b.2 ⊆ a.2) → ¬ (b.2 ⊆ a.2 ∧ a.2 ⊆ b.2) := by
    intro a b h hc; exact h ⟨hc.2, hc.1⟩
  constructor
  · -- keys_nodup
    unfold specGroups
    rw [List.map_map]
    show (List.map (fun r : Prot α β => membersOf P r.2) (specReps P P)).Nodup
    rw [List.Nodup, List.pairwise_map]
    refine List.Pairwise.imp_of_mem ?_ hpw
    intro a b ha hb hab heq
    apply hab
    have h1 := hself a ha
    rw [heq, mem_membersOf] at h1
    obtain ⟨Sq, hq, hsub⟩ := h1
    have : Sq = a.2 := val_unique _ hwf.names _ _ _ hq (hrep a ha).1
    subst this
    exact ⟨hsub, (hrep a ha).2 b.1 b.2 (hrep b hb).1 hsub⟩
  · -- member_nodup
    intro k S hk
    obtain ⟨r, _, rfl, _⟩ := (mem_specGroups P k S).mp hk
    unfold membersOf
    exact hwf.names.sublist (List.Sublist.map _ List.filter_sublist)
  · -- founder
    intro k S hk
    obtain ⟨r, hr, rfl, rfl⟩ := (mem_specGroups P k S).mp hk
    exact ⟨r.1, hself r hr, (hrep r hr).1⟩
  · -- members
    intro k S hk q
    obtain ⟨r, hr, rfl, rfl⟩ := (mem_specGroups P k S).mp hk
    exact mem_membersOf _ _ _
  · -- covered
    intro q Sq hq
    obtain ⟨q', S', hq', hsub, hmax⟩ := exists_max_above P hwf q Sq hq
    obtain ⟨r, hr, hc⟩ := specReps_complete P P (q', S') hq' hmax
    refine ⟨membersOf P r.2, r.2, (mem_specGroups _ _ _).mpr ⟨r, hr, rfl, rfl⟩, ?_⟩
    exact (mem_membersOf _ _ _).mpr ⟨Sq, hq, fun p hp => hc.2 (hsub hp)⟩
  · -- anti
    intro k1 S1 k2 S2 h1 h2 hsub
    obtain ⟨r1, hr1, rfl, rfl⟩ := (mem_specGroups P k1 S1).mp h1
    obtain ⟨r2, hr2, rfl, rfl⟩ := (mem_specGroups P k2 S2).mp h2
    by_cases heq : r1 = r2
    · rw [heq]
    · exact absurd (⟨hsub, (hrep r1 hr1).2 r2.1 r2.2 (hrep r2 hr2).1 hsub⟩ : r1.2 ⊆ r2.2 ∧ r2.2 ⊆ r1.2)
        (pairwise_forall_symm hsym _ hpw r1 hr1 r2 hr2 heq)

/-- the peptide dicts computed directly from a grouping are its consistent peptide maps -/
theorem spec_isPeptideMap (P : List (Prot α β)) (hwf : WF P) (gs : List (Group α β))
    (hg : IsGrouping P gs) :
    IsPeptideMap P gs (uniqueOf gs (allPeps P)) (sharedOf gs (allPeps P)) := by
  let pm : List (PepEntry α β) := (allPeps P).map (fun p => (p, (groupsOf gs p).map (·.1)))
  have hu : uniqueOf gs (allPeps P) = uniquePeps pm := by
    simp only [uniqueOf, uniquePeps, pm, List.filter_map, List.map_map, Function.comp_def,
      List.length_map]
  have hs : sharedOf gs (allPeps P) = sharedPeps pm := by
    simp only [sharedOf, sharedPeps, pm, List.filter_map, Function.comp_def, List.length_map]
  have hkeys : pm.map (·.1) = allPeps P := by
    simp [pm, List.map_map, Function.comp_def]
  have hPI : PI (⟨gs, pm⟩ : St α β) [] := by
    constructor
    · show (pm.map (·.1)).Nodup
      rw [hkeys]; exact nodup_toSet _
    · intro p ks hp
      simp only [pm, List.mem_map, Prod.mk.injEq] at hp
      obtain ⟨p', _, rfl, rfl⟩ := hp
      constructor
      · unfold groupsOf
        exact hg.keys_nodup.sublist (List.Sublist.map _ List.filter_sublist)
      · intro key
        unfold groupsOf InG InT
        simp only [List.mem_map, List.mem_filter, decide_eq_true_eq]
        constructor
        · rintro ⟨⟨k, S⟩, ⟨hk, hpS⟩, rfl⟩
          exact Or.inl ⟨S, hk, hpS⟩
        · rintro (⟨S, hk, hpS⟩ | ⟨q, S, hq, _⟩)
          · exact ⟨(key, S), ⟨hk, hpS⟩, rfl⟩
          · simp at hq
  rw [hu, hs]
  exact isPeptideMap_of_PI (st := ⟨gs, pm⟩) hwf hg hPI
    (fun p => by show p ∈ pm.map (·.1) ↔ _; rw [hkeys]; exact mem_allPeps P p)

end Mk.Grouping
