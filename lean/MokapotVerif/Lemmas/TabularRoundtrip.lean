import MokapotVerif.Lemmas.TabularCombinators
/-!
# Lemmas on writing and reading back (C13)
-/
namespace Mk.Tabular
variable {α β σ : Type}

theorem rezip_rows (cols : List Name) (rows : List (Row β)) (hk : ∀ r ∈ rows, rowKeys r = cols) :
    (rows.map rowVals).map (fun l => cols.zip l) = rows := by
  rw [List.map_map]
  conv => rhs; rw [← List.map_id rows]
  apply List.map_congr_left
  intro r hr
  simp only [Function.comp, id]
  rw [← hk r hr]
  exact zip_keys_vals r

/-- reading a text file back: header `cols`, lines = the cells of `rows` -/
theorem csv_readback (cols : List Name) (hne : cols ≠ []) (rows : List (Row β))
    (hk : ∀ r ∈ rows, rowKeys r = cols) :
    (csvReader ⟨cols, rows.map rowVals⟩).read none = some ⟨cols, indexFrom 0 rows⟩ := by
  have := csvRead_eq (⟨cols, rows.map rowVals⟩ : CsvFile β) hne none
  simp only [csvReader, this, colsOK, Option.elim_none, if_true, selectDF_none, CsvFile.table, CsvFile.rows,
    rezip_rows cols rows hk]

/-- reading a Parquet file back -/
theorem pq_readback (cols : List Name) (groups : List (List (Row β)))
    (hk : ∀ g ∈ groups, ∀ r ∈ g, rowKeys r = cols) :
    (pqReader ⟨cols, groups.map (fun g => g.map rowVals)⟩).read none = some ⟨cols, indexFrom 0 groups.flatten⟩ := by
  have hrows : (⟨cols, groups.map (fun g => g.map rowVals)⟩ : PqFile β).rows = groups.flatten := by
    simp only [PqFile.rows]
    rw [← List.map_flatten, rezip_rows cols groups.flatten]
    intro r hr
    obtain ⟨g, hg, hrg⟩ := List.mem_flatten.mp hr
    exact hk g hg r hrg
  have := (pqReader_readsTable (⟨cols, groups.map (fun g => g.map rowVals)⟩ : PqFile β)).read none
    (by simp [colsOK]) (by simp)
  rw [this, selectDF_none]
  simp only [PqFile.table, hrows]

theorem argOK_dataframe (a : Arg β) (h : argOK Kind.dataframe a = true) : ∃ f, a = Arg.frame f := by
  cases a with
  | frame f => exact ⟨f, rfl⟩
  | dict r => simp [argOK] at h
  | dictList rs => simp [argOK] at h
  | record r => simp [argOK] at h

/-- whatever `from_suffix` returns (buffered or not), running it is running the
bare writer on frames that carry the writer's columns and, together, exactly the
appended rows in order -/
theorem fromSuffix_frames (w : Writer σ β) (cols : List Name) (k : Kind) (size : Nat) (s0 : σ)
    (args : List (Arg β))
    (hargs : ∀ a ∈ args, ArgWF cols (if 1 < size then k else Kind.dataframe) a) :
    ∃ frames : List (WFrame β), runFromSuffix w k size s0 args = runWriter w s0 frames
      ∧ (∀ f ∈ frames, f.names = cols ∧ ∀ r ∈ f.rows, rowKeys r = cols)
      ∧ frames.flatMap (fun f => f.rows) = args.flatMap Arg.rows := by
  unfold runFromSuffix
  by_cases hs : 1 < size
  · simp only [hs, if_true] at hargs ⊢
    refine ⟨_, runBuffered_eq w cols k size (by omega) s0 args hargs, ?_, ?_⟩
    · intro f hf
      obtain ⟨b, hb, rfl⟩ := List.mem_map.mp hf
      refine ⟨rfl, fun r hr => ?_⟩
      have hflat := (emitted_isChunking size (by omega) (args.map Arg.rows)).1
      have hmem : r ∈ (args.map Arg.rows).flatten := by
        rw [← hflat]; exact List.mem_flatten.mpr ⟨b, hb, hr⟩
      obtain ⟨l, hl, hrl⟩ := List.mem_flatten.mp hmem
      obtain ⟨a, ha, rfl⟩ := List.mem_map.mp hl
      exact (hargs a ha).2.1 r hrl
    · rw [List.flatMap_def, List.map_map]
      have hflat := (emitted_isChunking size (by omega) (args.map Arg.rows)).1
      simpa [List.flatMap_def, Function.comp_def] using hflat
  · simp only [hs, if_false] at hargs ⊢
    have hall : ∀ a ∈ args, argFrame a = some ⟨a.names, a.rows⟩ := by
      intro a ha
      obtain ⟨f, rfl⟩ := argOK_dataframe a (hargs a ha).1
      rfl
    rw [optAll_congr_some args hall, Option.bind_some]
    refine ⟨_, rfl, ?_, ?_⟩
    · intro f hf
      obtain ⟨a, ha, rfl⟩ := List.mem_map.mp hf
      exact ⟨(hargs a ha).2.2 (by simp), (hargs a ha).2.1⟩
    · simp [List.flatMap_def, List.map_map, Function.comp_def]

end Mk.Tabular
