import MokapotVerif.Model.Calibrate
import MokapotVerif.Lemmas.QvaluesSort
import Mathlib.Order.Monotone.Basic
import Mathlib.Tactic.Ring
import Mathlib.Tactic.FieldSimp
/-! Helper lemmas for C11 (function level): labels, minimum, median, the affine map. -/
namespace Mk.Calibrate

/-! ## order -/

theorem calLe_totalPre (desc : Bool) : TotalPre (calLe desc) := by
  constructor
  · intro a b; cases desc <;> simp [calLe] <;> exact le_total _ _
  · intro a b c; cases desc <;> simp [calLe] <;> intro h1 h2
    · exact le_trans h2 h1
    · exact le_trans h1 h2

/-! ## labels -/

/-- the label of one row according to the defining-formula q-value -/
def labF (desc : Bool) (thr : Rat) (xs : List (Rat × Bool)) (x : Rat × Bool) : Int :=
  if x.2 = false then -1 else if qSpec (calLe desc) xs x.1 ≤ thr then 1 else 0

theorem updateLabels_eq (desc : Bool) (thr : Rat) (xs : List (Rat × Bool)) :
    updateLabels (calLe desc) thr xs = xs.map (labF desc thr xs) := by
  unfold updateLabels
  rw [tdc_eq_spec_aux (calLe desc) (calLe_totalPre desc)]
  apply List.ext_getElem
  · simp
  · intro i h1 h2
    have hi : i < xs.length := by simpa using h2
    simp only [List.getElem_zipWith, List.getElem_map, labelOf, labF]
    cases xs[i].2 <;> simp
    split <;> rename_i h
    · rw [if_neg (not_le.mpr h)]
    · rw [if_pos (not_lt.mp h)]

theorem labF_eq_one (desc : Bool) (thr : Rat) (xs : List (Rat × Bool)) (x : Rat × Bool) :
    (labF desc thr xs x == 1) = (x.2 && decide (qSpec (calLe desc) xs x.1 ≤ thr)) := by
  unfold labF
  cases x.2 <;> simp
  by_cases h : qSpec (calLe desc) xs x.1 ≤ thr <;> simp [h]

theorem labF_eq_neg_one (desc : Bool) (thr : Rat) (xs : List (Rat × Bool)) (x : Rat × Bool) :
    (labF desc thr xs x == -1) = !x.2 := by
  unfold labF
  cases x.2 <;> simp
  by_cases h : qSpec (calLe desc) xs x.1 ≤ thr <;> simp [h]

theorem selectLab_map (l : Int) (g : Rat × Bool → Int) (xs : List (Rat × Bool)) :
    selectLab l (xs.map (fun x => x.1)) (xs.map g) = (xs.filter (fun x => g x == l)).map (fun x => x.1) := by
  unfold selectLab
  induction xs with
  | nil => simp
  | cons x rest ih =>
    simp only [List.map_cons, List.zip_cons_cons, List.filter_cons]
    by_cases h : (g x == l) = true
    · simp only [h, if_true, List.map_cons]; rw [ih]
    · simp only [h]; simpa using ih

theorem selectLab_pos (desc : Bool) (thr : Rat) (xs : List (Rat × Bool)) :
    selectLab 1 (xs.map (fun x => x.1)) (updateLabels (calLe desc) thr xs) = accepted desc thr xs := by
  rw [updateLabels_eq, selectLab_map]
  unfold accepted
  congr 1
  apply List.filter_congr
  intro x _
  exact labF_eq_one desc thr xs x

theorem selectLab_neg (desc : Bool) (thr : Rat) (xs : List (Rat × Bool)) :
    selectLab (-1) (xs.map (fun x => x.1)) (updateLabels (calLe desc) thr xs) = decoys xs := by
  rw [updateLabels_eq, selectLab_map]
  unfold decoys
  congr 1
  apply List.filter_congr
  intro x _
  exact labF_eq_neg_one desc thr xs x

/-! ## minimum -/

theorem minFrom_spec (x : Rat) (xs : List Rat) :
    (minFrom x xs = x ∨ minFrom x xs ∈ xs) ∧ minFrom x xs ≤ x ∧ ∀ y ∈ xs, minFrom x xs ≤ y := by
  unfold minFrom
  induction xs generalizing x with
  | nil => simp
  | cons y ys ih =>
    simp only [List.foldl_cons]
    obtain ⟨h1, h2, h3⟩ := ih (min x y)
    refine ⟨?_, le_trans h2 (min_le_left _ _), ?_⟩
    · rcases h1 with h | h
      · rcases min_choice x y with hm | hm
        · left; rw [h, hm]
        · right; rw [h, hm]; simp
      · right; exact List.mem_cons_of_mem _ h
    · intro z hz
      rcases List.mem_cons.mp hz with rfl | hz
      · exact le_trans h2 (min_le_right _ _)
      · exact h3 z hz

theorem minList_eq_none (l : List Rat) : minList l = none ↔ l = [] := by
  cases l <;> simp [minList]

theorem minList_isLeast {l : List Rat} {t : Rat} (h : minList l = some t) : IsLeastOf l t := by
  cases l with
  | nil => simp [minList] at h
  | cons x xs =>
    simp only [minList, Option.some.injEq] at h
    subst h
    obtain ⟨h1, h2, h3⟩ := minFrom_spec x xs
    constructor
    · rcases h1 with h | h
      · rw [h]; simp
      · exact List.mem_cons_of_mem _ h
    · intro b hb
      rcases List.mem_cons.mp hb with rfl | hb
      · exact h2
      · exact h3 b hb

theorem isLeastOf_unique {l : List Rat} {a b : Rat} (ha : IsLeastOf l a) (hb : IsLeastOf l b) : a = b :=
  le_antisymm (ha.2 b hb.1) (hb.2 a ha.1)

/-! ## order statistics and the median -/

theorem isOrderStat_perm {l l' : List Rat} (h : l.Perm l') (k : Nat) (a : Rat) :
    IsOrderStat l k a ↔ IsOrderStat l' k a := by
  unfold IsOrderStat
  rw [h.mem_iff, h.countP_eq, h.countP_eq]

theorem isOrderStat_unique {l : List Rat} {k : Nat} {a b : Rat}
    (ha : IsOrderStat l k a) (hb : IsOrderStat l k b) : a = b := by
  have key : ∀ {a b : Rat}, IsOrderStat l k a → IsOrderStat l k b → ¬ a < b := by
    intro a b ha hb hlt
    have : l.countP (fun x => decide (x ≤ a)) ≤ l.countP (fun x => decide (x < b)) := by
      apply List.countP_mono_left
      intro x _ hx
      simp only [decide_eq_true_eq] at hx ⊢
      exact lt_of_le_of_lt hx hlt
    have h1 := ha.2.2
    have h2 := hb.2.1
    omega
  rcases lt_trichotomy a b with h | h | h
  · exact absurd h (key ha hb)
  · exact h
  · exact absurd h (key hb ha)

/-- in an ascending list the entry at position `k` is the order statistic of rank `k` -/
theorem sorted_getElem_isOrderStat (s : List Rat) (hs : s.Pairwise (fun a b => a ≤ b)) (k : Nat)
    (hk : k < s.length) : IsOrderStat s k s[k] := by
  induction s generalizing k with
  | nil => simp at hk
  | cons a s' ih =>
    rw [List.pairwise_cons] at hs
    obtain ⟨ha, hs'⟩ := hs
    cases k with
    | zero =>
      simp only [List.getElem_cons_zero]
      refine ⟨by simp, ?_, ?_⟩
      · have : (a :: s').countP (fun x => decide (x < a)) = 0 := by
          rw [List.countP_eq_zero]
          intro x hx
          simp only [decide_eq_true_eq, not_lt]
          rcases List.mem_cons.mp hx with rfl | hx
          · exact le_refl _
          · exact ha x hx
        omega
      · rw [List.countP_cons]
        simp
    | succ k =>
      simp only [List.getElem_cons_succ]
      have hk' : k < s'.length := by simpa using hk
      obtain ⟨h1, h2, h3⟩ := ih hs' k hk'
      refine ⟨List.mem_cons_of_mem _ h1, ?_, ?_⟩
      · rw [List.countP_cons]
        split <;> omega
      · rw [List.countP_cons]
        have : decide (a ≤ s'[k]) = true := by
          simp only [decide_eq_true_eq]
          exact ha _ h1
        simp only [this, if_true]
        omega

theorem insertAsc_perm (a : Rat) (l : List Rat) : (insertAsc a l).Perm (a :: l) := by
  induction l with
  | nil => simp [insertAsc]
  | cons b l ih =>
    simp only [insertAsc]
    split
    · exact List.Perm.refl _
    · exact (List.Perm.cons b ih).trans (List.Perm.swap a b l)

theorem sortAsc_perm (l : List Rat) : (sortAsc l).Perm l := by
  induction l with
  | nil => simp [sortAsc]
  | cons a l ih => exact (insertAsc_perm a (sortAsc l)).trans (List.Perm.cons a ih)

theorem insertAsc_sorted (a : Rat) (l : List Rat) (h : l.Pairwise (fun x y => x ≤ y)) :
    (insertAsc a l).Pairwise (fun x y => x ≤ y) := by
  induction l with
  | nil => simp [insertAsc]
  | cons b l ih =>
    rw [List.pairwise_cons] at h
    simp only [insertAsc]
    split
    · rename_i hab
      rw [List.pairwise_cons]
      refine ⟨?_, List.pairwise_cons.mpr h⟩
      intro x hx
      rcases List.mem_cons.mp hx with rfl | hx
      · exact hab
      · exact le_trans hab (h.1 x hx)
    · rename_i hab
      rw [List.pairwise_cons]
      refine ⟨?_, ih h.2⟩
      intro x hx
      rcases List.mem_cons.mp ((insertAsc_perm a l).mem_iff.mp hx) with rfl | hx
      · exact le_of_lt (not_le.mp hab)
      · exact h.1 x hx

theorem sortAsc_sorted (l : List Rat) : (sortAsc l).Pairwise (fun a b => a ≤ b) := by
  induction l with
  | nil => simp [sortAsc]
  | cons a l ih => exact insertAsc_sorted a _ ih

theorem medianSorted_eq_none (s : List Rat) : medianSorted s = none ↔ s = [] := by
  unfold medianSorted
  constructor
  · intro h
    by_cases h0 : s.length = 0
    · exact List.eq_nil_of_length_eq_zero h0
    · simp only [h0, if_false] at h
      split at h <;> simp at h
  · intro h; simp [h]

theorem medianSorted_spec (s : List Rat) (hs : s.Pairwise (fun a b => a ≤ b)) (m : Rat)
    (h : medianSorted s = some m) : IsMedianOf s m := by
  unfold medianSorted at h
  by_cases h0 : s.length = 0
  · simp [h0] at h
  · simp only [h0, if_false] at h
    have hpos : 0 < s.length := Nat.pos_of_ne_zero h0
    by_cases hodd : s.length % 2 = 1
    · simp only [hodd, if_true, Option.some.injEq] at h
      have hk : s.length / 2 < s.length := by omega
      have hget : s.getD (s.length / 2) 0 = s[s.length / 2] := by
        simp [List.getD_eq_getElem?_getD, hk]
      refine ⟨s[s.length / 2], s[s.length / 2], ?_, sorted_getElem_isOrderStat s hs _ hk, ?_⟩
      · have : (s.length - 1) / 2 = s.length / 2 := by omega
        rw [this]; exact sorted_getElem_isOrderStat s hs _ hk
      · rw [← h, hget]; ring
    · simp only [hodd, if_false, Option.some.injEq] at h
      have hk : s.length / 2 < s.length := by omega
      have hk' : s.length / 2 - 1 < s.length := by omega
      have hget : s.getD (s.length / 2) 0 = s[s.length / 2] := by
        simp [List.getD_eq_getElem?_getD, hk]
      have hget' : s.getD (s.length / 2 - 1) 0 = s[s.length / 2 - 1] := by
        simp [List.getD_eq_getElem?_getD, hk']
      refine ⟨s[s.length / 2 - 1], s[s.length / 2], ?_, sorted_getElem_isOrderStat s hs _ hk, ?_⟩
      · have : (s.length - 1) / 2 = s.length / 2 - 1 := by omega
        rw [this]; exact sorted_getElem_isOrderStat s hs _ hk'
      · rw [← h, hget, hget']

theorem isMedianOf_perm {l l' : List Rat} (h : l.Perm l') (m : Rat) : IsMedianOf l m ↔ IsMedianOf l' m := by
  unfold IsMedianOf
  rw [h.length_eq]
  constructor
  · rintro ⟨a, b, ha, hb, hm⟩
    exact ⟨a, b, (isOrderStat_perm h _ _).mp ha, (isOrderStat_perm h _ _).mp hb, hm⟩
  · rintro ⟨a, b, ha, hb, hm⟩
    exact ⟨a, b, (isOrderStat_perm h _ _).mpr ha, (isOrderStat_perm h _ _).mpr hb, hm⟩

theorem isMedianOf_unique {l : List Rat} {m m' : Rat} (h : IsMedianOf l m) (h' : IsMedianOf l m') : m = m' := by
  obtain ⟨a, b, ha, hb, rfl⟩ := h
  obtain ⟨a', b', ha', hb', rfl⟩ := h'
  rw [isOrderStat_unique ha ha', isOrderStat_unique hb hb']

theorem median_eq_none (l : List Rat) : median l = none ↔ l = [] := by
  unfold median
  rw [medianSorted_eq_none]
  constructor
  · intro h
    have := (sortAsc_perm l).length_eq
    rw [h] at this
    exact List.eq_nil_of_length_eq_zero this.symm
  · intro h; subst h; simp [sortAsc]

theorem median_spec {l : List Rat} {m : Rat} (h : median l = some m) : IsMedianOf l m :=
  (isMedianOf_perm (sortAsc_perm l) m).mp (medianSorted_spec _ (sortAsc_sorted l) m h)

theorem median_of_isMedianOf {l : List Rat} {m : Rat} (hne : l ≠ []) (h : IsMedianOf l m) : median l = some m := by
  cases hm : median l with
  | none => exact absurd ((median_eq_none l).mp hm) hne
  | some m' => rw [isMedianOf_unique (median_spec hm) h]

/-! ## the affine map -/

theorem calF_anchor_zero (t d : Rat) : calF t d t = 0 := by simp [calF]

theorem calF_anchor_neg_one (t d : Rat) (h : t ≠ d) : calF t d d = -1 := by
  unfold calF
  have h' : t - d ≠ 0 := sub_ne_zero.mpr h
  rw [← neg_sub t d, neg_div, div_self h']

theorem calF_affine (t d s : Rat) : calF t d s = (1 / (t - d)) * s + (-t / (t - d)) := by
  unfold calF; ring

theorem calF_strictMono (t d : Rat) (h : d < t) : StrictMono (calF t d) := by
  intro a b hab
  unfold calF
  have hpos : 0 < (t - d)⁻¹ := inv_pos.mpr (sub_pos.mpr h)
  rw [div_eq_mul_inv, div_eq_mul_inv]
  exact mul_lt_mul_of_pos_right (by linarith) hpos

theorem calF_strictAnti (t d : Rat) (h : t < d) : StrictAnti (calF t d) := by
  intro a b hab
  unfold calF
  have hneg : (t - d)⁻¹ < 0 := inv_lt_zero.mpr (sub_neg.mpr h)
  rw [div_eq_mul_inv, div_eq_mul_inv]
  exact mul_lt_mul_of_neg_right (by linarith) hneg

theorem calOne_none (t s : Rat) : calOne t none s = XR.nan := rfl

theorem calOne_ne (t d s : Rat) (h : t ≠ d) : calOne t (some d) s = XR.fin (calF t d s) := by
  have h' : t - d ≠ 0 := sub_ne_zero.mpr h
  simp [calOne, xdiv, h', calF]

theorem calOne_eq (t s : Rat) :
    calOne t (some t) s = if t < s then XR.pinf else if s < t then XR.ninf else XR.nan := by
  simp [calOne, xdiv]

/-! ## `calibrate` in terms of the declarative ingredients -/

theorem calibrate_unfold (desc : Bool) (thr : Rat) (xs : List (Rat × Bool)) :
    calibrate desc thr xs =
      Option.elim (minList (accepted desc thr xs)) (Except.error CalErr.noPositive)
        (fun t => Except.ok (xs.map (fun x => calOne t (median (decoys xs)) x.1))) := by
  unfold calibrate calibrateWith
  rw [selectLab_pos, selectLab_neg]
  simp only [List.map_map]
  rfl

theorem calibrate_error_iff (desc : Bool) (thr : Rat) (xs : List (Rat × Bool)) :
    calibrate desc thr xs = Except.error CalErr.noPositive ↔ accepted desc thr xs = [] := by
  rw [calibrate_unfold]
  cases h : minList (accepted desc thr xs) with
  | none => simp [(minList_eq_none _).mp h]
  | some t =>
    have : accepted desc thr xs ≠ [] := fun h0 => by rw [h0] at h; simp [minList] at h
    simp [this]

theorem calibrate_ok (desc : Bool) (thr : Rat) (xs : List (Rat × Bool)) (t : Rat)
    (ht : IsLeastOf (accepted desc thr xs) t) :
    calibrate desc thr xs = Except.ok (xs.map (fun x => calOne t (median (decoys xs)) x.1)) := by
  rw [calibrate_unfold]
  cases h : minList (accepted desc thr xs) with
  | none => rw [(minList_eq_none _).mp h] at ht; exact absurd ht.1 (by simp)
  | some t' => rw [isLeastOf_unique ht (minList_isLeast h)]; rfl

theorem calibrate_ok_iff (desc : Bool) (thr : Rat) (xs : List (Rat × Bool)) :
    (∃ out, calibrate desc thr xs = Except.ok out) ↔ accepted desc thr xs ≠ [] := by
  rw [calibrate_unfold]
  cases h : minList (accepted desc thr xs) with
  | none => simp [(minList_eq_none _).mp h]
  | some t =>
    have : accepted desc thr xs ≠ [] := fun h0 => by rw [h0] at h; simp [minList] at h
    simp [this]

theorem calibrate_error_kind {desc : Bool} {thr : Rat} {xs : List (Rat × Bool)} {e : CalErr}
    (h : calibrate desc thr xs = Except.error e) : e = CalErr.noPositive ∧ accepted desc thr xs = [] := by
  have hu := calibrate_unfold desc thr xs
  cases hm : minList (accepted desc thr xs) with
  | none =>
    rw [hm] at hu
    rw [hu] at h
    simp only [Option.elim, Except.error.injEq] at h
    exact ⟨h.symm, (minList_eq_none _).mp hm⟩
  | some t =>
    rw [hm] at hu
    rw [hu] at h
    simp [Option.elim] at h

theorem exists_least_of_ne_nil {l : List Rat} (h : l ≠ []) : ∃ t, IsLeastOf l t := by
  cases hm : minList l with
  | none => exact absurd ((minList_eq_none l).mp hm) h
  | some t => exact ⟨t, minList_isLeast hm⟩

theorem mem_accepted (desc : Bool) (thr : Rat) (xs : List (Rat × Bool)) (s : Rat) :
    s ∈ accepted desc thr xs ↔ ∃ x ∈ xs, x.1 = s ∧ x.2 = true ∧ qSpec (calLe desc) xs x.1 ≤ thr := by
  unfold accepted
  simp only [List.mem_map, List.mem_filter, Bool.and_eq_true, decide_eq_true_eq]
  constructor
  · rintro ⟨x, ⟨hx, h1, h2⟩, rfl⟩; exact ⟨x, hx, rfl, h1, h2⟩
  · rintro ⟨x, hx, rfl, h1, h2⟩; exact ⟨x, ⟨hx, h1, h2⟩, rfl⟩

/-! ## q-values only depend on the order of the scores -/

theorem tdc_order_invariant {α β : Type} (le : α → α → Bool) (hle : TotalPre le)
    (le' : β → β → Bool) (hle' : TotalPre le') (f : α → β)
    (hf : ∀ a b, le' (f a) (f b) = le a b) (xs : List (α × Bool)) :
    tdc le' (xs.map (fun x => (f x.1, x.2))) = tdc le xs := by
  rw [tdc_eq_spec_aux le hle, tdc_eq_spec_aux le' hle', List.map_map]
  apply List.map_congr_left
  intro x _
  simp only [Function.comp]
  unfold qSpec cntT cntD
  simp only [List.filter_map, List.map_map, List.countP_map, Function.comp_def, hf]

theorem calLe_strictMono (f : Rat → Rat) (hf : StrictMono f) (a b : Rat) :
    calLe true (f a) (f b) = calLe true a b := by
  simp [calLe, hf.le_iff_le]

end Mk.Calibrate
