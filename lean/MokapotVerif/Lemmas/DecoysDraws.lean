import MokapotVerif.Lemmas.DecoysMain
/-! Helper lemmas for C18: arbitrary enzymes (the regex as a parameter) and the stateful
refinement of `_shuffle_proteins` (the `perms` dict, the retry loop around
`np.random.permutation`, the call counter). -/
namespace Mk.Decoys
variable {α β : Type}

/-! ### arbitrary enzymes -/

theorem cleavageSites_eq_of (cut block : α → Bool) (seq : List α) :
    cleavageSites cut block seq = cleavageSitesOf (matchEnds cut block 0) seq := rfl

theorem matchEnds_endsOK (cut block : α → Bool) : EndsOK (matchEnds cut block 0) := by
  intro seq
  refine ⟨(matchEnds_pairwise cut block seq 0).imp (fun h => Nat.le_of_lt h), ?_⟩
  intro s hs
  have := (matchEnds_bounds cut block seq 0 s hs).2
  omega

theorem cleavageSitesOf_ok {ends : List α → List Nat} (h : EndsOK ends) (seq : List α) :
    SitesOK seq.length (cleavageSitesOf ends seq) := by
  obtain ⟨hpw, hb⟩ := h seq
  unfold cleavageSitesOf SitesOK
  constructor
  · refine List.pairwise_cons.mpr ⟨fun _ _ => Nat.zero_le _, ?_⟩
    refine List.pairwise_append.mpr ⟨hpw, by simp, ?_⟩
    intro a ha b hb'
    simp at hb'
    subst hb'
    exact hb a ha
  · intro s hs
    rcases List.mem_cons.mp hs with rfl | hs
    · exact Nat.zero_le _
    · rcases List.mem_append.mp hs with hs | hs
      · exact hb s hs
      · simp at hs; omega

theorem sitesOKb_iff (n : Nat) (sites : List Nat) : sitesOKb n sites = true ↔ SitesOK n sites := by
  induction sites with
  | nil => simp [sitesOKb, SitesOK]
  | cons s rest ih =>
    cases rest with
    | nil => simp [sitesOKb, SitesOK]
    | cons e rest2 =>
      simp only [sitesOKb, Bool.and_eq_true, decide_eq_true_eq, ih]
      constructor
      · rintro ⟨⟨hse, hsn⟩, hok⟩
        refine ⟨List.pairwise_cons.mpr ⟨?_, hok.1⟩, ?_⟩
        · intro x hx
          rcases List.mem_cons.mp hx with rfl | hx
          · exact hse
          · exact Nat.le_trans hse ((List.pairwise_cons.mp hok.1).1 x hx)
        · intro x hx
          rcases List.mem_cons.mp hx with rfl | hx
          · exact hsn
          · exact hok.2 x hx
      · intro hok
        exact ⟨⟨(List.pairwise_cons.mp hok.1).1 e (by simp), hok.2 s (by simp)⟩, hok.tail⟩

/-- the peptide-wise statement for any well-formed site list -/
theorem decoy_slice_sites {perms : Nat → List Nat} (hp : PermFamily perms) (sites : List Nat) (seq : List α)
    (hok : SitesOK seq.length (0 :: sites)) (i : Nat) (hi : i + 1 < (0 :: sites).length) :
    slice (specLoop perms (0 :: sites) seq) (0 :: sites)[i] (0 :: sites)[i + 1]
      = shufflePeptide perms (slice seq (0 :: sites)[i] (0 :: sites)[i + 1]) := by
  have := specLoop_slice hp sites 0 [] seq (by simpa using hok) rfl i hi
  simpa using this

theorem pepsOK_eq_at [BEq α] (cut block : α → Bool) (reverse : Bool) (t d : List α) :
    pepsOK cut block reverse t d = pepsOKAt (cleavageSites cut block t) reverse t d := rfl

/-- the checker for explicit sites accepts every decoy the model can produce -/
theorem pepsOKAt_spec [BEq α] [LawfulBEq α] {drawn : Nat → List Nat} (hp : PermFamily drawn) (reverse : Bool)
    (sites : List Nat) (seq : List α) (hok : SitesOK seq.length (0 :: sites)) :
    pepsOKAt (0 :: sites) reverse seq (specLoop (permsOf reverse drawn) (0 :: sites) seq) = true := by
  have hp' := permsOf_family reverse hp
  unfold pepsOKAt
  simp only [Bool.and_eq_true, beq_iff_eq, List.all_eq_true]
  refine ⟨⟨specLoop_length hp' _ _, List.isPerm_iff.mpr (specLoop_perm hp' _ _)⟩, ?_⟩
  intro p hpair
  obtain ⟨i, hi, rfl⟩ := mem_pairs hpair
  simp only
  rw [decoy_slice_sites hp' sites seq hok i hi]
  exact pepOK_shuffle hp reverse _

theorem shuffleProteinE_closed {perms : Nat → List Nat} (hp : PermFamily perms) (pre : List Char)
    {ends : List Char → List Nat} (he : EndsOK ends) (t : List Char × List Char) :
    shuffleProteinE perms pre ends t = some (decoySpecE perms pre ends t) := by
  unfold shuffleProteinE decoySpecE
  have := shuffleLoop_sites hp (ends t.2 ++ [t.2.length]) t.2 (cleavageSitesOf_ok he t.2)
  unfold cleavageSitesOf
  rw [this]; rfl

theorem shuffleProteinsE_closed {perms : Nat → List Nat} (hp : PermFamily perms) (pre : List Char)
    {ends : List Char → List Nat} (he : EndsOK ends) (ts : List (List Char × List Char)) :
    shuffleProteinsE perms pre ends ts = some (ts.map (decoySpecE perms pre ends)) := by
  unfold shuffleProteinsE
  have : ts.map (shuffleProteinE perms pre ends)
      = ts.map (fun t => some (decoySpecE perms pre ends t)) := by
    apply List.map_congr_left
    intro t _
    exact shuffleProteinE_closed hp pre he t
  rw [this, sequenceOpt_map_some]

theorem makeDecoysE_class (perms : Nat → List Nat) (pre : List Char) (cut block : Char → Bool) (concat : Bool)
    (w : Nat) (files : List (List Char)) :
    makeDecoysE perms pre (matchEnds cut block 0) concat w files
      = makeDecoys perms pre cut block concat w files := rfl

theorem decoySpecE_class (perms : Nat → List Nat) (pre : List Char) (cut block : Char → Bool) :
    decoySpecE perms pre (matchEnds cut block 0) = decoySpec perms pre cut block := rfl

/-- `make_decoys` end to end for an arbitrary enzyme -/
theorem makeDecoysE_reread {perms : Nat → List Nat} (hp : PermFamily perms) (pre : List Char)
    (hpre : NameOK pre) {ends : List Char → List Nat} (he : EndsOK ends) (concat : Bool) (w : Nat) (hw : 1 ≤ w)
    (files : List (List Char)) (ts : List (List Char × List Char))
    (hparse : parseFasta files = some ts) (hgt : ∀ t ∈ ts, '>' ∉ t.2) :
    makeDecoysE perms pre ends concat w files
        = some (renderFasta w ((if concat then ts else []) ++ ts.map (decoySpecE perms pre ends))) ∧
      parseFasta [renderFasta w ((if concat then ts else []) ++ ts.map (decoySpecE perms pre ends))]
        = some ((if concat then ts else []) ++ ts.map (decoySpecE perms pre ends)) := by
  have hclean := parseFasta_clean hparse
  have htOK : ∀ t ∈ ts, NameOK t.1 ∧ SeqOK t.2 := fun t ht =>
    ⟨(hclean t ht).1, fun c hc => ⟨(hclean t ht).2 c hc, fun h0 => hgt t ht (h0 ▸ hc)⟩⟩
  have hdOK : ∀ d ∈ ts.map (decoySpecE perms pre ends), NameOK d.1 ∧ SeqOK d.2 := by
    intro d hd
    obtain ⟨t, ht, rfl⟩ := List.mem_map.mp hd
    obtain ⟨hn, hs⟩ := htOK t ht
    constructor
    · intro c hc
      rcases List.mem_append.mp hc with hc | hc
      · exact hpre c hc
      · exact hn c hc
    · intro c hc
      exact hs c ((specLoop_perm hp _ _).mem_iff.mp hc)
  constructor
  · unfold makeDecoysE decoyEntriesE
    rw [hparse]
    simp only [Option.bind_some, shuffleProteinsE_closed hp pre he]
    cases concat <;> simp
  · apply parseFasta_renderFasta_any w hw
    · intro e he'
      rcases List.mem_append.mp he' with he' | he'
      · cases concat
        · simp at he'
        · exact htOK e (by simpa using he')
      · exact hdOK e he'

/-! ### the `perms` dict -/

/-- `d'` holds every entry of `d` (the dict only grows, nothing is overwritten) -/
def DictExt (d d' : PermDict) : Prop := ∀ n p, d.lookup n = some p → d'.lookup n = some p

theorem DictExt.refl (d : PermDict) : DictExt d d := fun _ _ h => h

theorem DictExt.trans {a b c : PermDict} (h1 : DictExt a b) (h2 : DictExt b c) : DictExt a c :=
  fun n p h => h2 n p (h1 n p h)

/-- every entry is a permutation of `0..n-1` for its key `n`, and the reversal in reversal mode -/
def DictValid (reverse : Bool) (d : PermDict) : Prop :=
  ∀ n p, d.lookup n = some p → p.Perm (List.range n) ∧ (reverse = true → p = revPerm n)

theorem lookup_cons_ne {m n : Nat} (p : List Nat) (d : PermDict) (h : m ≠ n) :
    List.lookup m ((n, p) :: d) = List.lookup m d := by
  have : (m == n) = false := by simp [h]
  rw [List.lookup_cons, this]

theorem lookup_cons_eq (n : Nat) (p : List Nat) (d : PermDict) :
    List.lookup n ((n, p) :: d) = some p := by
  rw [List.lookup_cons]; simp

theorem permFor_ext (reverse : Bool) (rng : Nat → Nat → List Nat) (n : Nat) (st : DrawState) :
    DictExt st.1 (permFor reverse rng n st).2.1 := by
  unfold permFor
  cases h : st.1.lookup n with
  | some p => exact DictExt.refl _
  | none =>
    intro m q hm
    simp only [permForAux]
    by_cases hmn : m = n
    · subst hmn; rw [h] at hm; cases hm
    · rw [lookup_cons_ne _ _ hmn]; exact hm

theorem permFor_lookup (reverse : Bool) (rng : Nat → Nat → List Nat) (n : Nat) (st : DrawState) :
    (permFor reverse rng n st).2.1.lookup n = some (permFor reverse rng n st).1 := by
  unfold permFor
  cases h : st.1.lookup n with
  | some p => simpa [permForAux] using h
  | none => simp only [permForAux]; exact lookup_cons_eq _ _ _

theorem famOfDict_of_lookup (reverse : Bool) {d : PermDict} {n : Nat} {p : List Nat}
    (h : d.lookup n = some p) : famOfDict reverse d n = p := by
  unfold famOfDict; rw [h]; rfl

theorem stepPair_congr {f g : Nat → List Nat} (cur : List α) (s e : Nat)
    (h : ¬ (e - 1 - (s + 1) ≤ 1) → f (e - 1 - (s + 1)) = g (e - 1 - (s + 1))) :
    stepPair f cur s e = stepPair g cur s e := by
  unfold stepPair
  by_cases hc : e - 1 - (s + 1) ≤ 1
  · rw [if_pos hc, if_pos hc]
  · rw [if_neg hc, if_neg hc, h hc]

theorem stateAfterPair_ext (reverse : Bool) (rng : Nat → Nat → List Nat) (st : DrawState) (s e : Nat) :
    DictExt st.1 (stateAfterPair reverse rng st s e).1 := by
  unfold stateAfterPair
  split
  · exact DictExt.refl _
  · exact permFor_ext _ _ _ _

/-- one step: the stateful step is the stateless one under any dict that contains the
state reached -/
theorem stepPairS_eq (reverse : Bool) (rng : Nat → Nat → List Nat) (st : DrawState) (cur : List α) (s e : Nat)
    (D : PermDict) (hD : DictExt (stateAfterPair reverse rng st s e).1 D) :
    stepPairS reverse rng st cur s e
      = (stepPair (famOfDict reverse D) cur s e).map (fun o => (o, stateAfterPair reverse rng st s e)) := by
  unfold stepPairS stepPair stateAfterPair at *
  by_cases hc : e - 1 - (s + 1) ≤ 1
  · simp only [if_pos hc]; rfl
  · simp only [if_neg hc] at hD ⊢
    have hl := hD _ _ (permFor_lookup reverse rng (e - 1 - (s + 1)) st)
    rw [famOfDict_of_lookup reverse hl, Option.map_map]
    rfl

theorem stateAfterLoop_ext (reverse : Bool) (rng : Nat → Nat → List Nat) (sites : List Nat) :
    ∀ st : DrawState, DictExt st.1 (stateAfterLoop reverse rng sites st).1 := by
  induction sites with
  | nil => intro st; exact DictExt.refl _
  | cons s tl ih =>
    intro st
    cases tl with
    | nil => exact DictExt.refl _
    | cons e rest =>
      simp only [stateAfterLoop]
      exact (stateAfterPair_ext reverse rng st s e).trans (ih _)

/-- **refinement of the loop**: threading the dict through the loop gives what the stateless
loop gives under (any extension of) the final dict — also when an `IndexError` is raised -/
theorem shuffleLoopS_eq (reverse : Bool) (rng : Nat → Nat → List Nat) (sites : List Nat) :
    ∀ (cur : List α) (st : DrawState) (D : PermDict),
      DictExt (stateAfterLoop reverse rng sites st).1 D →
      shuffleLoopS reverse rng sites cur st
        = (shuffleLoop (famOfDict reverse D) sites cur).map
            (fun o => (o, stateAfterLoop reverse rng sites st)) := by
  induction sites with
  | nil => intro cur st D _; rfl
  | cons s tl ih =>
    intro cur st D hD
    cases tl with
    | nil => rfl
    | cons e rest =>
      simp only [stateAfterLoop] at hD
      have hD1 : DictExt (stateAfterPair reverse rng st s e).1 D :=
        (stateAfterLoop_ext reverse rng (e :: rest) _).trans hD
      simp only [shuffleLoopS, shuffleLoop, stateAfterLoop, stepPairS_eq reverse rng st cur s e D hD1]
      cases stepPair (famOfDict reverse D) cur s e with
      | none => rfl
      | some o =>
        simp only [Option.map_some, Option.bind_some]
        exact ih o _ D hD

theorem stateAfterProteins_ext (reverse : Bool) (rng : Nat → Nat → List Nat) (ends : List Char → List Nat)
    (ps : List (List Char × List Char)) :
    ∀ st : DrawState, DictExt st.1 (stateAfterProteins reverse rng ends ps st).1 := by
  induction ps with
  | nil => intro st; exact DictExt.refl _
  | cons p ps ih =>
    intro st
    simp only [stateAfterProteins]
    exact (stateAfterLoop_ext reverse rng _ st).trans (ih _)

/-- **refinement of `_shuffle_proteins`** -/
theorem shuffleProteinsS_eq (reverse : Bool) (rng : Nat → Nat → List Nat) (pre : List Char)
    (ends : List Char → List Nat) (ps : List (List Char × List Char)) :
    ∀ (st : DrawState) (D : PermDict),
      DictExt (stateAfterProteins reverse rng ends ps st).1 D →
      shuffleProteinsS reverse rng pre ends ps st
        = (shuffleProteinsE (famOfDict reverse D) pre ends ps).map
            (fun o => (o, stateAfterProteins reverse rng ends ps st)) := by
  induction ps with
  | nil => intro st D _; rfl
  | cons p ps ih =>
    intro st D hD
    simp only [stateAfterProteins] at hD
    have hD1 : DictExt (stateAfterLoop reverse rng (cleavageSitesOf ends p.2) st).1 D :=
      (stateAfterProteins_ext reverse rng ends ps _).trans hD
    simp only [shuffleProteinsS, stateAfterProteins, shuffleLoopS_eq reverse rng _ p.2 st D hD1]
    have hE : shuffleProteinsE (famOfDict reverse D) pre ends (p :: ps)
        = optCons ((shuffleLoop (famOfDict reverse D) (cleavageSitesOf ends p.2) p.2).map
            (fun s => (pre ++ p.1, s))) (shuffleProteinsE (famOfDict reverse D) pre ends ps) := rfl
    rw [hE]
    cases shuffleLoop (famOfDict reverse D) (cleavageSitesOf ends p.2) p.2 with
    | none => simp [optCons]
    | some o =>
      simp only [Option.map_some, Option.bind_some]
      rw [ih _ D hD]
      cases shuffleProteinsE (famOfDict reverse D) pre ends ps with
      | none => simp [optCons]
      | some q => simp [optCons]

/-! ### validity of the dict -/

theorem retryLoop_perm {rng : Nat → Nat → List Nat} (hr : RngOK rng) (n : Nat) :
    ∀ (fuel k : Nat) (perm : List Nat), perm.Perm (List.range n) →
      (retryLoop rng n fuel k perm).1.Perm (List.range n) := by
  intro fuel
  induction fuel with
  | zero => intro k perm h; exact h
  | succ f ih =>
    intro k perm h
    simp only [retryLoop]
    split
    · exact ih _ _ (hr k n)
    · exact h

theorem retryLoop_count (rng : Nat → Nat → List Nat) (n : Nat) :
    ∀ (fuel k : Nat) (perm : List Nat),
      k ≤ (retryLoop rng n fuel k perm).2 ∧ (retryLoop rng n fuel k perm).2 ≤ k + fuel := by
  intro fuel
  induction fuel with
  | zero => intro k perm; simp [retryLoop]
  | succ f ih =>
    intro k perm
    simp only [retryLoop]
    split
    · have := ih (k + 1) (rng k n); omega
    · simp

/-- the loop ends with the identity only when it started with it and every one of the
`fuel` draws was the identity -/
theorem retryLoop_identity (rng : Nat → Nat → List Nat) (n : Nat) :
    ∀ (fuel k : Nat) (perm : List Nat), (retryLoop rng n fuel k perm).1 = List.range n →
      perm = List.range n ∧ ∀ j, j < fuel → rng (k + j) n = List.range n := by
  intro fuel
  induction fuel with
  | zero => intro k perm h; exact ⟨h, fun j hj => absurd hj (Nat.not_lt_zero _)⟩
  | succ f ih =>
    intro k perm h
    simp only [retryLoop] at h
    split at h
    · rename_i hp
      obtain ⟨h0, hrest⟩ := ih _ _ h
      refine ⟨hp, ?_⟩
      intro j hj
      cases j with
      | zero => simpa using h0
      | succ j' =>
        have := hrest j' (by omega)
        rwa [show k + 1 + j' = k + (j' + 1) by omega] at this
    · rename_i hp
      exact absurd h hp

/-- the first non-identity draw is the one kept -/
theorem retryLoop_first (rng : Nat → Nat → List Nat) (n : Nat) :
    ∀ (fuel k j : Nat), j < fuel → (∀ i, i < j → rng (k + i) n = List.range n) →
      rng (k + j) n ≠ List.range n →
      retryLoop rng n fuel k (List.range n) = (rng (k + j) n, k + j + 1) := by
  intro fuel
  induction fuel with
  | zero => intro k j hj; exact absurd hj (Nat.not_lt_zero _)
  | succ f ih =>
    intro k j hj hid hne
    simp only [retryLoop, if_pos]
    cases j with
    | zero =>
      simp only [Nat.add_zero] at hne ⊢
      cases f with
      | zero => rfl
      | succ f' => simp only [retryLoop, if_neg hne]
    | succ j' =>
      have h0 : rng k n = List.range n := by simpa using hid 0 (by omega)
      rw [h0]
      have := ih (k + 1) j' (by omega)
        (fun i hi => by
          have := hid (i + 1) (by omega)
          rwa [show k + (i + 1) = k + 1 + i by omega] at this)
        (by rwa [show k + 1 + j' = k + (j' + 1) by omega])
      rw [this]
      congr 1
      · rw [show k + 1 + j' = k + (j' + 1) by omega]
      · omega

theorem newPerm_valid (reverse : Bool) {rng : Nat → Nat → List Nat} (hr : RngOK rng) (n k : Nat) :
    (newPerm reverse rng n k).1.Perm (List.range n) ∧
      (reverse = true → (newPerm reverse rng n k).1 = revPerm n) := by
  unfold newPerm
  cases reverse with
  | true => exact ⟨revPerm_family n, fun _ => rfl⟩
  | false =>
    refine ⟨?_, fun h => by cases h⟩
    exact retryLoop_perm hr n 100 k _ (List.Perm.refl _)

theorem newPerm_reverse_count (rng : Nat → Nat → List Nat) (n k : Nat) :
    (newPerm true rng n k).2 = k := rfl

theorem permFor_valid (reverse : Bool) {rng : Nat → Nat → List Nat} (hr : RngOK rng) (n : Nat)
    (st : DrawState) (hv : DictValid reverse st.1) : DictValid reverse (permFor reverse rng n st).2.1 := by
  unfold permFor
  cases h : st.1.lookup n with
  | some p => exact hv
  | none =>
    intro m q hm
    simp only [permForAux] at hm
    by_cases hmn : m = n
    · subst hmn
      rw [lookup_cons_eq] at hm
      cases hm
      exact newPerm_valid reverse hr _ _
    · rw [lookup_cons_ne _ _ hmn] at hm
      exact hv m q hm

theorem stateAfterPair_valid (reverse : Bool) {rng : Nat → Nat → List Nat} (hr : RngOK rng)
    (st : DrawState) (s e : Nat) (hv : DictValid reverse st.1) :
    DictValid reverse (stateAfterPair reverse rng st s e).1 := by
  unfold stateAfterPair
  split
  · exact hv
  · exact permFor_valid reverse hr _ st hv

theorem stateAfterLoop_valid (reverse : Bool) {rng : Nat → Nat → List Nat} (hr : RngOK rng)
    (sites : List Nat) : ∀ st : DrawState, DictValid reverse st.1 →
      DictValid reverse (stateAfterLoop reverse rng sites st).1 := by
  induction sites with
  | nil => intro st hv; exact hv
  | cons s tl ih =>
    intro st hv
    cases tl with
    | nil => exact hv
    | cons e rest =>
      simp only [stateAfterLoop]
      exact ih _ (stateAfterPair_valid reverse hr st s e hv)

theorem stateAfterProteins_valid (reverse : Bool) {rng : Nat → Nat → List Nat} (hr : RngOK rng)
    (ends : List Char → List Nat) (ps : List (List Char × List Char)) :
    ∀ st : DrawState, DictValid reverse st.1 →
      DictValid reverse (stateAfterProteins reverse rng ends ps st).1 := by
  induction ps with
  | nil => intro st hv; exact hv
  | cons p ps ih =>
    intro st hv
    simp only [stateAfterProteins]
    exact ih _ (stateAfterLoop_valid reverse hr _ st hv)

theorem dictValid_nil (reverse : Bool) : DictValid reverse [] := by
  intro n p h; simp at h

theorem famOfDict_family {reverse : Bool} {d : PermDict} (hv : DictValid reverse d) :
    PermFamily (famOfDict reverse d) := by
  intro n
  unfold famOfDict
  cases h : d.lookup n with
  | some p => exact (hv n p h).1
  | none =>
    cases reverse with
    | true => exact revPerm_family n
    | false => exact List.Perm.refl _

theorem famOfDict_reverse {d : PermDict} (hv : DictValid true d) : famOfDict true d = revPerm := by
  funext n
  unfold famOfDict
  cases h : d.lookup n with
  | some p => exact (hv n p h).2 rfl
  | none => rfl

theorem famOfDict_permsOf {reverse : Bool} {d : PermDict} (hv : DictValid reverse d) :
    permsOf reverse (famOfDict reverse d) = famOfDict reverse d := by
  cases reverse with
  | false => rfl
  | true => rw [famOfDict_reverse hv]; rfl

/-! ### reversal makes no call of the generator -/

theorem permFor_reverse_count (rng : Nat → Nat → List Nat) (n : Nat) (st : DrawState) :
    (permFor true rng n st).2.2 = st.2 := by
  unfold permFor
  cases st.1.lookup n <;> rfl

theorem stateAfterPair_reverse_count (rng : Nat → Nat → List Nat) (st : DrawState) (s e : Nat) :
    (stateAfterPair true rng st s e).2 = st.2 := by
  unfold stateAfterPair
  split
  · rfl
  · exact permFor_reverse_count rng _ st

theorem stateAfterLoop_reverse_count (rng : Nat → Nat → List Nat) (sites : List Nat) :
    ∀ st : DrawState, (stateAfterLoop true rng sites st).2 = st.2 := by
  induction sites with
  | nil => intro st; rfl
  | cons s tl ih =>
    intro st
    cases tl with
    | nil => rfl
    | cons e rest =>
      simp only [stateAfterLoop]
      rw [ih, stateAfterPair_reverse_count]

theorem stateAfterProteins_reverse_count (rng : Nat → Nat → List Nat) (ends : List Char → List Nat)
    (ps : List (List Char × List Char)) :
    ∀ st : DrawState, (stateAfterProteins true rng ends ps st).2 = st.2 := by
  induction ps with
  | nil => intro st; rfl
  | cons p ps ih =>
    intro st
    simp only [stateAfterProteins]
    rw [ih, stateAfterLoop_reverse_count]

/-! ### the file-level checker -/

theorem zipWith_map_all {γ δ : Type} (f : γ → δ) (P : γ → δ → Bool) (l : List γ)
    (h : ∀ t ∈ l, P t (f t) = true) : (List.zipWith P l (l.map f)).all id = true := by
  rw [List.zipWith_map_right, List.zipWith_self, List.all_eq_true]
  intro b hb
  obtain ⟨t, ht, rfl⟩ := List.mem_map.mp hb
  exact h t ht

/-- the file-level checker accepts what the model writes (any enzyme; no site comparison) -/
theorem fileOK_spec {drawn : Nat → List Nat} (hp : PermFamily drawn) (reverse concat : Bool) (pre : List Char)
    {ends : List Char → List Nat} (he : EndsOK ends) (ts : List (List Char × List Char)) :
    fileOK pre (cleavageSitesOf ends) none reverse concat ts
      ((if concat then ts else []) ++ ts.map (decoySpecE (permsOf reverse drawn) pre ends)) = true := by
  unfold fileOK
  have hdrop : ((if concat then ts else []) ++ ts.map (decoySpecE (permsOf reverse drawn) pre ends)).drop
      (if concat then ts.length else 0) = ts.map (decoySpecE (permsOf reverse drawn) pre ends) := by
    cases concat <;> simp
  rw [hdrop]
  simp only [Bool.and_eq_true, beq_iff_eq, Bool.or_eq_true, Bool.not_eq_true']
  refine ⟨⟨⟨?_, ?_⟩, ?_⟩, ?_⟩
  · cases concat <;> simp
  · cases concat <;> simp
  · simp [List.map_map, Function.comp_def, decoySpecE]
  · apply zipWith_map_all
    intro t _
    simp only [Option.map_none, Option.getD_none, Bool.and_true, decoySpecE]
    exact pepsOKAt_spec hp reverse _ t.2 (cleavageSitesOf_ok he t.2)

/-- …and, for a residue-class enzyme, with identical cleavage sites demanded as well -/
theorem fileOK_spec_class {drawn : Nat → List Nat} (hp : PermFamily drawn) (reverse concat : Bool)
    (pre : List Char) (cut : Char → Bool) (ts : List (List Char × List Char)) :
    fileOK pre (cleavageSites cut noBlock) (some cut) reverse concat ts
      ((if concat then ts else []) ++ ts.map (decoySpec (permsOf reverse drawn) pre cut noBlock)) = true := by
  unfold fileOK
  have hdrop : ((if concat then ts else []) ++ ts.map (decoySpec (permsOf reverse drawn) pre cut noBlock)).drop
      (if concat then ts.length else 0) = ts.map (decoySpec (permsOf reverse drawn) pre cut noBlock) := by
    cases concat <;> simp
  rw [hdrop]
  simp only [Bool.and_eq_true, beq_iff_eq, Bool.or_eq_true, Bool.not_eq_true']
  refine ⟨⟨⟨?_, ?_⟩, ?_⟩, ?_⟩
  · cases concat <;> simp
  · cases concat <;> simp
  · simp [List.map_map, Function.comp_def, decoySpec]
  · apply zipWith_map_all
    intro t _
    simp only [Option.map_some, Option.getD_some, decoySpec, Bool.and_eq_true, beq_iff_eq]
    have := seqOK_spec hp reverse cut t.2
    unfold seqOK at this
    simp only [Bool.and_eq_true, beq_iff_eq] at this
    exact ⟨by rw [← pepsOK_eq_at]; exact this.1, this.2⟩

end Mk.Decoys
