import MokapotVerif.Model.Fit
import Mathlib.Data.List.Perm.Basic
/-! Helper lemmas for C12: `gather`/`argsort` bookkeeping and the loop invariant. -/
namespace Mk.Fit
variable {α β γ ρ θ : Type}

/-! ### gather -/

theorem gather_nil (xs : List β) : gather xs [] = [] := rfl

theorem gather_cons (xs : List β) (i : Nat) (idx : List Nat) :
    gather xs (i :: idx) = (xs[i]?).toList ++ gather xs idx := by
  simp only [gather, List.filterMap_cons]
  cases xs[i]? <;> simp

theorem gather_map (f : β → γ) (xs : List β) (idx : List Nat) :
    gather (xs.map f) idx = (gather xs idx).map f := by
  induction idx with
  | nil => rfl
  | cons i idx ih =>
    rw [gather_cons, gather_cons, ih, List.getElem?_map]
    cases xs[i]? <;> simp

theorem gather_append (xs : List β) (a b : List Nat) : gather xs (a ++ b) = gather xs a ++ gather xs b := by
  simp [gather, List.filterMap_append]

theorem gather_range_le (xs : List β) : ∀ k, k ≤ xs.length → gather xs (List.range k) = xs.take k := by
  intro k
  induction k with
  | zero => intro _; simp [gather]
  | succ k ih =>
    intro hk
    rw [List.range_succ, gather_append, ih (by omega), gather_cons, gather_nil]
    have hk' : k < xs.length := by omega
    rw [List.getElem?_eq_getElem hk', List.take_add_one, List.getElem?_eq_getElem hk']
    rfl

theorem gather_range (xs : List β) : gather xs (List.range xs.length) = xs := by
  rw [gather_range_le xs _ (Nat.le_refl _), List.take_length]

/-- all indices in range: gather is a plain map -/
theorem gather_eq_map (xs : List β) (idx : List Nat) (h : ∀ i ∈ idx, i < xs.length) :
    (gather xs idx).length = idx.length ∧ ∀ j : Nat, (gather xs idx)[j]? = (idx[j]?).bind (fun (i : Nat) => xs[i]?) := by
  induction idx with
  | nil => simp [gather]
  | cons i idx ih =>
    have hi : i < xs.length := h i (by simp)
    obtain ⟨h1, h2⟩ := ih (fun j hj => h j (by simp [hj]))
    rw [gather_cons, List.getElem?_eq_getElem hi]
    refine ⟨by simp [h1], ?_⟩
    intro j
    cases j with
    | zero => simp [List.getElem?_eq_getElem hi]
    | succ j => simpa using h2 j

theorem gather_length (xs : List β) (idx : List Nat) (h : ∀ i ∈ idx, i < xs.length) :
    (gather xs idx).length = idx.length := (gather_eq_map xs idx h).1

/-- composition of index arrays: `xs[s][t] = xs[s[t]]` -/
theorem gather_gather (xs : List β) (s t : List Nat) (hs : ∀ i ∈ s, i < xs.length) :
    gather (gather xs s) t = gather xs (gather s t) := by
  induction t with
  | nil => rfl
  | cons j t ih =>
    rw [gather_cons, gather_cons, ih, (gather_eq_map xs s hs).2 j]
    cases hj : s[j]? with
    | none => simp
    | some i => simp [gather_cons]

theorem gather_zip (xs : List β) (ys : List γ) (idx : List Nat) (hx : ∀ i ∈ idx, i < xs.length)
    (hy : ∀ i ∈ idx, i < ys.length) :
    (gather xs idx).zip (gather ys idx) = gather (xs.zip ys) idx := by
  induction idx with
  | nil => rfl
  | cons i idx ih =>
    have hi := hx i (by simp)
    have hi' := hy i (by simp)
    rw [gather_cons, gather_cons, gather_cons, List.getElem?_eq_getElem hi, List.getElem?_eq_getElem hi',
      List.getElem?_eq_getElem (by simp; omega)]
    simp [ih (fun j hj => hx j (by simp [hj])) (fun j hj => hy j (by simp [hj]))]

theorem getElem?_zip' (xs : List β) (ys : List γ) (i : Nat) :
    (xs.zip ys)[i]? = (xs[i]?).bind (fun x => (ys[i]?).map (fun y => (x, y))) := by
  induction xs generalizing ys i with
  | nil => simp
  | cons x xs ih =>
    cases ys with
    | nil => cases i <;> simp
    | cons y ys =>
      cases i with
      | zero => simp
      | succ i => simpa using ih ys i

theorem perm_range_lt {s : List Nat} {n : Nat} (h : s.Perm (List.range n)) : ∀ i ∈ s, i < n := by
  intro i hi
  exact List.mem_range.mp (h.mem_iff.mp hi)

theorem gather_perm (xs : List β) (s : List Nat) (h : s.Perm (List.range xs.length)) :
    (gather xs s).Perm xs := by
  have : (gather xs s).Perm (gather xs (List.range xs.length)) := List.Perm.filterMap _ h
  rwa [gather_range] at this

/-! ### argsort -/

theorem insKey_perm (a : Nat × Nat) (l : List (Nat × Nat)) : (insKey a l).Perm (a :: l) := by
  induction l with
  | nil => simp [insKey]
  | cons b l ih =>
    simp only [insKey]
    split
    · exact List.Perm.refl _
    · exact (List.Perm.cons b ih).trans (List.Perm.swap a b l)

theorem isortKey_perm (l : List (Nat × Nat)) : (isortKey l).Perm l := by
  induction l with
  | nil => simp [isortKey]
  | cons a l ih => exact (insKey_perm a _).trans (List.Perm.cons a ih)

theorem insKey_sorted (a : Nat × Nat) (l : List (Nat × Nat)) (h : l.Pairwise (fun x y => x.1 ≤ y.1)) :
    (insKey a l).Pairwise (fun x y => x.1 ≤ y.1) := by
  induction l with
  | nil => simp [insKey]
  | cons b l ih =>
    simp only [insKey]
    rw [List.pairwise_cons] at h
    split
    · rename_i hab
      refine List.Pairwise.cons ?_ (List.Pairwise.cons h.1 h.2)
      intro y hy
      rcases List.mem_cons.mp hy with rfl | hy
      · exact hab
      · exact Nat.le_trans hab (h.1 y hy)
    · rename_i hab
      refine List.Pairwise.cons ?_ (ih h.2)
      intro y hy
      rcases List.mem_cons.mp ((insKey_perm a l).mem_iff.mp hy) with rfl | hy
      · omega
      · exact h.1 y hy

theorem isortKey_sorted (l : List (Nat × Nat)) : (isortKey l).Pairwise (fun x y => x.1 ≤ y.1) := by
  induction l with
  | nil => simp [isortKey]
  | cons a l ih => exact insKey_sorted a _ ih

/-- indexing the values with the indices of tagged pairs returns the values -/
theorem gather_snd_of_mem_zipIdx (s : List Nat) (l : List (Nat × Nat)) (h : ∀ p ∈ l, p ∈ s.zipIdx) :
    gather s (l.map (·.2)) = l.map (·.1) := by
  induction l with
  | nil => rfl
  | cons p l ih =>
    have hp := h p (by simp)
    obtain ⟨v, i⟩ := p
    rw [List.mem_zipIdx_iff_getElem?] at hp
    simp only at hp
    rw [List.map_cons, gather_cons, ih (fun q hq => h q (by simp [hq]))]
    simp [hp]

theorem range_sorted (n : Nat) : (List.range n).Pairwise (fun a b => a ≤ b) :=
  (List.pairwise_lt_range (n := n)).imp (fun h => Nat.le_of_lt h)

/-- for a permutation of `0..n-1`, `s[argsort s]` is `0..n-1` -/
theorem gather_argsort (s : List Nat) (n : Nat) (h : s.Perm (List.range n)) :
    gather s (argsort s) = List.range n := by
  unfold argsort
  rw [gather_snd_of_mem_zipIdx s _ (fun p hp => (isortKey_perm _).mem_iff.mp hp)]
  apply List.Perm.eq_of_pairwise (le := fun a b => a ≤ b)
  · intro a b _ _ h1 h2; exact Nat.le_antisymm h1 h2
  · have := isortKey_sorted s.zipIdx
    rw [List.pairwise_map]
    exact this
  · exact range_sorted n
  · have h1 : ((isortKey s.zipIdx).map (·.1)).Perm (s.zipIdx.map (·.1)) := (isortKey_perm _).map _
    have h2 : s.zipIdx.map (·.1) = s := by simp
    rw [h2] at h1
    exact h1.trans h

theorem argsort_perm (s : List Nat) : (argsort s).Perm (List.range s.length) := by
  unfold argsort
  have h1 : ((isortKey s.zipIdx).map (·.2)).Perm (s.zipIdx.map (·.2)) := (isortKey_perm _).map _
  have h2 : s.zipIdx.map (·.2) = List.range s.length := by
    simp [List.zipIdx_map_snd, List.range_eq_range']
  rwa [h2] at h1

theorem argsort_range (n : Nat) : argsort (List.range n) = List.range n := by
  have h := gather_argsort (List.range n) n (List.Perm.refl _)
  have hp := argsort_perm (List.range n)
  rw [List.length_range] at hp
  have hlt : ∀ i ∈ argsort (List.range n), i < n := perm_range_lt hp
  -- gather (range n) idx = idx when all idx < n
  have : ∀ idx : List Nat, (∀ i ∈ idx, i < n) → gather (List.range n) idx = idx := by
    intro idx
    induction idx with
    | nil => intro _; rfl
    | cons i idx ih =>
      intro hi
      rw [gather_cons, ih (fun j hj => hi j (by simp [hj]))]
      have : i < n := hi i (by simp)
      simp [this]
  rw [this _ hlt] at h
  exact h

end Mk.Fit
