import MokapotVerif.Lemmas.PinTsvMisc
/-!
# The header helper, text-mode reading, the command line tool and the CLI loop over several files
-/
namespace Mk

/-! ## `parse_pin_header_columns` -/

/-- `pin_to_valid_tsv` uses the helper: the inlined computation of
`pinAfterHeader` is `parseHeaderCols` followed by the body -/
theorem pinAfterHeader_eq_parseHeaderCols (sepC : Char) (sepP : Str) (header : Str) (rest : List Str) :
    pinAfterHeader sepC sepP header rest =
      (parseHeaderCols sepC header).bind
        (fun p => (pinBody sepC sepP p.2 p.1 rest).map (fun out => (header ++ ['\n']) :: out)) := by
  unfold pinAfterHeader parseHeaderCols
  simp only []
  split <;> rfl

theorem DocWF.parseHeaderCols {sepC : Char} {d : PinDoc} (h : DocWF sepC d) :
    Mk.parseHeaderCols sepC (d.headerLine sepC) = .ok (d.cols.length, d.cols.idxOf proteinsName) := by
  unfold Mk.parseHeaderCols
  simp only []
  rw [h.strip_header, splitOn_joinWith sepC d.cols h.cols_ne_nil (fun f hf => (h.cols f hf).1)]
  have hc : d.cols.contains proteinsName = true := by simpa using h.proteins
  rw [if_pos hc]

/-- stripping the header beforehand (as `pin_to_valid_tsv` does) changes nothing -/
theorem parseHeaderCols_strip (sepC : Char) (header : Str) (h : chomp (chomp header) = chomp header) :
    parseHeaderCols sepC (chomp header) = parseHeaderCols sepC header := by
  unfold parseHeaderCols
  rw [h]

/-- `list.index` returns the first occurrence -/
theorem getElem?_ne_of_lt_idxOf (l : List Str) (a : Str) (j : Nat) (h : j < l.idxOf a) : l[j]? ≠ some a := by
  induction l generalizing j with
  | nil => simp at h
  | cons x xs ih =>
    rw [List.idxOf_cons] at h
    cases hx : x == a with
    | true => simp [hx] at h
    | false =>
      simp only [hx, cond_false] at h
      cases j with
      | zero =>
        simp only [List.getElem?_cons_zero, ne_eq, Option.some.injEq]
        intro e; simp [e] at hx
      | succ k => simpa using ih k (by omega)

/-! ## universal newlines -/

theorem univNlAux_append (b : Bool) (l rest : Str) (h : ∀ c ∈ l, c ≠ '\r' ∧ c ≠ '\n') :
    univNlAux b (l ++ rest) = l ++ univNlAux (b && l.isEmpty) rest := by
  induction l generalizing b with
  | nil => simp
  | cons c cs ih =>
    have hc := h c (by simp)
    have := ih false (fun x hx => h x (by simp [hx]))
    simp only [List.cons_append, univNlAux, if_neg hc.1, if_neg hc.2, this, List.isEmpty_cons,
      Bool.and_false, Bool.false_and]

theorem univNlAux_plain (b : Bool) (l : Str) (h : ∀ c ∈ l, c ≠ '\r' ∧ c ≠ '\n') : univNlAux b l = l := by
  have := univNlAux_append b l [] h
  simpa [univNlAux] using this

/-- a text without carriage returns is read as it is -/
theorem univNl_of_noCR (x : Str) (h : '\r' ∉ x) : univNl x = x := by
  unfold univNl
  induction x with
  | nil => rfl
  | cons c cs ih =>
    have hc : c ≠ '\r' := by intro e; apply h; simp [e]
    have := ih (by intro hm; apply h; simp [hm])
    by_cases hn : c = '\n'
    · simp only [univNlAux, if_neg hc, if_pos hn, this]; simp [hn]
    · simp only [univNlAux, if_neg hc, if_neg hn, this]

theorem renderLinesT_lf (ls : List Str) (tr : Bool) : renderLinesT ['\n'] ls tr = renderLines ls tr := by
  induction ls with
  | nil => rfl
  | cons l r ih =>
    cases r with
    | nil => rfl
    | cons l' r =>
      simp only [renderLinesT, renderLines] at ih ⊢
      rw [ih]; simp

private theorem mem_ne {l : Str} (h : '\r' ∉ l ∧ '\n' ∉ l) : ∀ c ∈ l, c ≠ '\r' ∧ c ≠ '\n' := by
  intro c hc
  exact ⟨fun e => h.1 (e ▸ hc), fun e => h.2 (e ▸ hc)⟩

theorem univNlAux_renderLinesT_lf (ls : List Str) (tr : Bool) (h : ∀ l ∈ ls, '\r' ∉ l ∧ '\n' ∉ l) :
    univNlAux false (renderLinesT ['\n'] ls tr) = renderLines ls tr := by
  induction ls with
  | nil => rfl
  | cons l r ih =>
    have hl := mem_ne (h l (by simp))
    cases r with
    | nil =>
      cases tr
      · simpa [renderLinesT, renderLines] using univNlAux_plain false l hl
      · simp [renderLinesT, renderLines, univNlAux_append false l _ hl, univNlAux]
    | cons l' r =>
      have := ih (fun x hx => h x (by simp [hx]))
      simp only [renderLinesT, renderLines, List.append_assoc, List.singleton_append]
      rw [univNlAux_append false l _ hl]
      simp only [Bool.false_and, univNlAux]
      simp [this]

theorem univNlAux_renderLinesT_crlf (ls : List Str) (tr : Bool) (h : ∀ l ∈ ls, '\r' ∉ l ∧ '\n' ∉ l) :
    univNlAux false (renderLinesT ['\r', '\n'] ls tr) = renderLines ls tr := by
  induction ls with
  | nil => rfl
  | cons l r ih =>
    have hl := mem_ne (h l (by simp))
    cases r with
    | nil =>
      cases tr
      · simpa [renderLinesT, renderLines] using univNlAux_plain false l hl
      · simp [renderLinesT, renderLines, univNlAux_append false l _ hl, univNlAux]
    | cons l' r =>
      have := ih (fun x hx => h x (by simp [hx]))
      simp only [renderLinesT, renderLines, List.append_assoc, List.cons_append, List.nil_append]
      rw [univNlAux_append false l _ hl]
      simp only [Bool.false_and, univNlAux]
      simp [this]

theorem univNlAux_renderLinesT_cr (b : Bool) (ls : List Str) (tr : Bool) (h : ∀ l ∈ ls, '\r' ∉ l ∧ '\n' ∉ l) :
    univNlAux b (renderLinesT ['\r'] ls tr) = renderLines ls tr := by
  induction ls generalizing b with
  | nil => cases b <;> rfl
  | cons l r ih =>
    have hl := mem_ne (h l (by simp))
    cases r with
    | nil =>
      cases tr
      · simpa [renderLinesT, renderLines] using univNlAux_plain b l hl
      · simp [renderLinesT, renderLines, univNlAux_append b l _ hl, univNlAux]
    | cons l' r =>
      have := ih true (fun x hx => h x (by simp [hx]))
      simp only [renderLinesT, renderLines, List.append_assoc, List.singleton_append]
      rw [univNlAux_append b l _ hl]
      simp only [univNlAux]
      simp [this]

/-- lines without `'\r'`/`'\n'` stored with any of the three terminators are
read back as the same lines terminated by `'\n'` -/
theorem univNl_renderLinesT (t : Str) (ht : t ∈ lineTerminators) (ls : List Str) (tr : Bool)
    (h : ∀ l ∈ ls, '\r' ∉ l ∧ '\n' ∉ l) : univNl (renderLinesT t ls tr) = renderLines ls tr := by
  unfold univNl
  simp only [lineTerminators, List.mem_cons, List.not_mem_nil, or_false] at ht
  rcases ht with rfl | rfl | rfl
  · exact univNlAux_renderLinesT_lf ls tr h
  · exact univNlAux_renderLinesT_crlf ls tr h
  · exact univNlAux_renderLinesT_cr false ls tr h

/-! ## documents without carriage returns -/

theorem noCRs_iff (s : Str) : noCRs s = true ↔ '\r' ∉ s := by simp [noCRs]

theorem not_mem_joinWith_cr (sep : Str) (fs : List Str) (hs : '\r' ∉ sep) (hf : ∀ f ∈ fs, '\r' ∉ f) :
    '\r' ∉ joinWith sep fs := by
  intro hm
  rcases mem_joinWith _ _ _ hm with h' | ⟨f, hf', hc⟩
  · exact hs h'
  · exact hf f hf' hc

structure DocNoCR (d : PinDoc) : Prop where
  hpadL : '\r' ∉ d.hpadL
  hpadR : '\r' ∉ d.hpadR
  cols : ∀ f ∈ d.cols, '\r' ∉ f
  dd : ∀ x, d.dd = some x → '\r' ∉ x
  rows : ∀ r ∈ d.rows, '\r' ∉ r.padL ∧ '\r' ∉ r.padR ∧ ∀ f ∈ r.fields, '\r' ∉ f

theorem noCR_iff (d : PinDoc) : d.noCR = true ↔ DocNoCR d := by
  constructor
  · intro h
    simp only [PinDoc.noCR, PinRow.noCR, Bool.and_eq_true, List.all_eq_true, noCRs_iff] at h
    obtain ⟨⟨⟨⟨h1, h2⟩, h3⟩, h4⟩, h5⟩ := h
    refine ⟨h1, h2, h3, ?_, fun r hr => ⟨(h5 r hr).1.1, (h5 r hr).1.2, (h5 r hr).2⟩⟩
    intro x hx
    rw [hx] at h4
    simpa [noCRs_iff] using h4
  · intro h
    simp only [PinDoc.noCR, PinRow.noCR, Bool.and_eq_true, List.all_eq_true, noCRs_iff]
    refine ⟨⟨⟨⟨h.hpadL, h.hpadR⟩, h.cols⟩, ?_⟩, fun r hr => ⟨⟨(h.rows r hr).1, (h.rows r hr).2.1⟩, (h.rows r hr).2.2⟩⟩
    cases hd : d.dd with
    | none => rfl
    | some x => simpa [noCRs_iff] using h.dd x hd

theorem DocNoCR.lines {d : PinDoc} (h : DocNoCR d) (sepC : Char) (hs : sepC ≠ '\r') :
    ∀ l ∈ d.lines sepC, '\r' ∉ l := by
  have hsep : '\r' ∉ [sepC] := by simpa using hs.symm
  intro l hl
  unfold PinDoc.lines at hl
  simp only [List.mem_cons, List.mem_append, Option.mem_toList, List.mem_map] at hl
  rcases hl with rfl | hl | ⟨r, hr, rfl⟩
  · intro hm
    unfold PinDoc.headerLine at hm
    simp only [List.mem_append] at hm
    rcases hm with (hm | hm) | hm
    · exact h.hpadL hm
    · exact not_mem_joinWith_cr _ _ hsep h.cols hm
    · exact h.hpadR hm
  · exact h.dd l hl
  · intro hm
    obtain ⟨h1, h2, h3⟩ := h.rows r hr
    unfold PinRow.line at hm
    simp only [List.mem_append] at hm
    rcases hm with (hm | hm) | hm
    · exact h1 hm
    · exact not_mem_joinWith_cr _ _ hsep h3 hm
    · exact h2 hm

theorem DocNoCR.converted {d : PinDoc} (h : DocNoCR d) (sepP : Str) (hp : '\r' ∉ sepP) :
    DocNoCR (d.converted sepP) := by
  refine ⟨by simp [PinDoc.converted], by simp [PinDoc.converted], h.cols, ?_, ?_⟩
  · intro x hx; simp [PinDoc.converted] at hx
  · intro r' hr'
    rw [converted_rows] at hr'
    obtain ⟨r, hr, rfl⟩ := List.mem_map.mp hr'
    obtain ⟨_, _, h3⟩ := h.rows r hr
    refine ⟨by simp [PinRow.converted], by simp [PinRow.converted], ?_⟩
    intro f hf
    rw [PinRow.converted_fields] at hf
    unfold PinRow.tsvFields at hf
    simp only [List.mem_append, List.mem_singleton] at hf
    rcases hf with (hf | hf) | hf
    · exact h3 f (by simp [PinRow.fields, hf])
    · subst hf
      exact not_mem_joinWith_cr _ _ hp (fun g hg => h3 g (by simp [PinRow.fields, hg]))
    · exact h3 f (by simp [PinRow.fields, hf])

theorem edgeOk_of_noCR (fs : List Str) (hne : fs ≠ []) (h : ∀ f ∈ fs, '\r' ∉ f) : edgeOk fs = true := by
  rcases List.eq_nil_or_concat fs with e | ⟨init, g, e⟩
  · exact absurd e hne
  · rw [List.concat_eq_append] at e
    subst e
    rw [edgeOk_append_singleton]
    intro hl
    exact h g (by simp) (List.mem_of_getLast? hl)

/-- without carriage returns in the document and the protein separator no converted row ends with one -/
theorem DocNoCR.tsvEdgeOk {d : PinDoc} (h : DocNoCR d) (sepP : Str) (hp : '\r' ∉ sepP) :
    tsvEdgeOk sepP d = true := by
  have hc := h.converted sepP hp
  unfold Mk.tsvEdgeOk
  rw [List.all_eq_true]
  intro r hr
  have := (hc.rows (r.converted sepP) (by rw [converted_rows]; exact List.mem_map_of_mem hr)).2.2
  rw [PinRow.converted_fields] at this
  exact edgeOk_of_noCR _ (by simp [PinRow.tsvFields]) this

/-- a document stored with `"\n"`, `"\r\n"` or `"\r"` line ends is read (text
mode) as its `'\n'`-terminated PIN text -/
theorem DocWF.read_file {sepC : Char} {d : PinDoc} (h : DocWF sepC d) (hc : DocNoCR d) (hs : sepC ≠ '\r')
    (t : Str) (ht : t ∈ lineTerminators) : univNl (renderPinT sepC t d) = renderPin sepC d := by
  unfold renderPinT renderPin
  exact univNl_renderLinesT t ht _ _ (fun l hl => ⟨hc.lines sepC hs l hl, h.lines_no_nl l hl⟩)

theorem DocWF.read_pin {sepC : Char} {d : PinDoc} (h : DocWF sepC d) (hc : DocNoCR d) (hs : sepC ≠ '\r') :
    univNl (renderPin sepC d) = renderPin sepC d := by
  have := h.read_file hc hs ['\n'] (by simp [lineTerminators])
  unfold renderPinT at this
  rwa [renderLinesT_lf] at this

/-- the conversion's output contains no carriage return, so it is read back as it is -/
theorem DocWF.read_tsv {sepC : Char} {d : PinDoc} (h : DocWF sepC d) (hc : DocNoCR d) (hs : sepC ≠ '\r')
    (sepP : Str) (hp : sepPOk sepC sepP = true) (hp' : '\r' ∉ sepP) (hf : firstTsvRowOk sepC sepP d = true) :
    univNl (renderTsv sepC sepP d) = renderTsv sepC sepP d := by
  have := (h.converted sepP hp hf (hc.tsvEdgeOk sepP hp')).read_pin (hc.converted sepP hp') hs
  rwa [renderPin_converted] at this

/-! ## the command line tool -/

theorem DocWF.toolMain {sepC : Char} {d : PinDoc} (h : DocWF sepC d) (hc : DocNoCR d) (hs : sepC ≠ '\r')
    (sepP : Str) (t : Str) (ht : t ∈ lineTerminators) (old : Str) :
    Mk.toolMain (some sepC) (some sepP) (renderPinT sepC t d) old = .ok (renderTsv sepC sepP d) := by
  unfold Mk.toolMain
  rw [h.read_file hc hs t ht]
  exact h.pinToTsv sepP

/-! ## the verify step on stored files -/

theorem DocWF.verifyStepFile {d : PinDoc} (h : DocWF '\t' d) (hc : DocNoCR d)
    (hf : firstTsvRowOk '\t' [':'] d = true) (t : Str) (ht : t ∈ lineTerminators) :
    ∃ out, Mk.verifyStepFile (renderPinT '\t' t d) = .ok out ∧ isValid '\t' (univNl out) = .ok true ∧
      Mk.verifyStepFile out = .ok out ∧
      ((isValid '\t' (renderPin '\t' d) = .ok true ∧ out = renderPinT '\t' t d) ∨
       (isValid '\t' (renderPin '\t' d) = .ok false ∧ out = renderTsv '\t' [':'] d)) := by
  have hr := h.read_file hc (by decide) t ht
  obtain ⟨out, h1, h2, h3⟩ := h.verifyStep hf
  rcases h3 with ⟨hv, rfl⟩ | ⟨hv, rfl⟩
  · refine ⟨renderPinT '\t' t d, ?_, ?_, ?_, Or.inl ⟨hv, rfl⟩⟩
    · unfold Mk.verifyStepFile; rw [hr, hv]; rfl
    · rw [hr]; exact hv
    · unfold Mk.verifyStepFile; rw [hr, hv]; rfl
  · have ho := h.read_tsv hc (by decide) [':'] (by decide) (by decide) hf
    refine ⟨renderTsv '\t' [':'] d, ?_, ?_, ?_, Or.inr ⟨hv, rfl⟩⟩
    · unfold Mk.verifyStepFile; rw [hr, hv]
      simp only [Except.bind]
      exact h.pinToTsv [':']
    · rw [ho]; exact h2
    · unfold Mk.verifyStepFile; rw [ho, h2]; rfl

/-- without carriage returns the stored file and the text are the same thing:
the file form of the step is the text form -/
theorem verifyStepFile_of_noCR (x : Str) (h : '\r' ∉ x) : verifyStepFile x = verifyStep x := by
  unfold verifyStepFile verifyStep
  rw [univNl_of_noCR x h]

/-! ## the loop over several files -/

theorem verifyFilesLoop_ok_iff (files outs : List Str) :
    verifyFilesLoop files = .ok outs ↔
      outs.length = files.length ∧
      ∀ i (h1 : i < files.length) (h2 : i < outs.length), verifyStepFile files[i] = .ok outs[i] := by
  induction files generalizing outs with
  | nil =>
    cases outs with
    | nil => simp [verifyFilesLoop]
    | cons o os => simp [verifyFilesLoop]
  | cons f fs ih =>
    unfold verifyFilesLoop
    cases hf : verifyStepFile f with
    | error e =>
      simp only [Except.bind]
      constructor
      · intro h; cases h
      · rintro ⟨hl, hall⟩
        cases outs with
        | nil => simp at hl
        | cons o os =>
          have := hall 0 (by simp) (by simp)
          simp [hf] at this
    | ok o =>
      simp only [Except.bind]
      cases hr : verifyFilesLoop fs with
      | error e =>
        simp only [Except.map]
        constructor
        · intro h; cases h
        · rintro ⟨hl, hall⟩
          cases outs with
          | nil => simp at hl
          | cons o' os =>
            have : verifyFilesLoop fs = .ok os := by
              rw [ih]
              refine ⟨by simpa using hl, ?_⟩
              intro i h1 h2
              have h' := hall (i + 1) (by simp; omega) (by simp; omega)
              simp only [List.getElem_cons_succ] at h'
              exact h'
            rw [hr] at this; cases this
      | ok os' =>
        simp only [Except.map, Except.ok.injEq]
        have ih' := (ih os').mp hr
        constructor
        · rintro rfl
          refine ⟨by simp [ih'.1], ?_⟩
          intro i h1 h2
          cases i with
          | zero => simpa using hf
          | succ j => simpa using ih'.2 j (by simpa using h1) (by simpa using h2)
        · rintro ⟨hl, hall⟩
          cases outs with
          | nil => simp at hl
          | cons o' os =>
            have h0 := hall 0 (by simp) (by simp)
            simp only [List.getElem_cons_zero, hf, Except.ok.injEq] at h0
            have : verifyFilesLoop fs = .ok os := by
              rw [ih]
              refine ⟨by simpa using hl, ?_⟩
              intro i h1 h2
              have h' := hall (i + 1) (by simp; omega) (by simp; omega)
              simp only [List.getElem_cons_succ] at h'
              exact h'
            rw [hr] at this
            cases this
            rw [h0]

end Mk
