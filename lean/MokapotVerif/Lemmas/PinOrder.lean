import MokapotVerif.Lemmas.Pin
/-! Helper lemmas for C10: the specification does not depend on the order of the columns. -/
namespace Mk.Pin

theorem keys_unique {cols : List (Name × List Cell)} (hnd : (cols.map (·.1)).Nodup) {c : Name}
    {a b : List Cell} (ha : (c, a) ∈ cols) (hb : (c, b) ∈ cols) : a = b := by
  induction cols with
  | nil => cases ha
  | cons p rest ih =>
    rw [List.map_cons, List.nodup_cons] at hnd
    rcases List.mem_cons.mp ha with ha | ha <;> rcases List.mem_cons.mp hb with hb | hb
    · rw [← ha] at hb; exact (Prod.mk.inj hb).2.symm
    · exfalso; apply hnd.1; rw [← ha]; exact List.mem_map.mpr ⟨(c, b), hb, rfl⟩
    · exfalso; apply hnd.1; rw [← hb]; exact List.mem_map.mpr ⟨(c, a), ha, rfl⟩
    · exact ih hnd.2 ha hb

theorem header_perm {t t' : Table} (hp : t'.cols.Perm t.cols) : t'.header.Perm t.header :=
  hp.map _

theorem column_perm {t t' : Table} (hp : t'.cols.Perm t.cols) (hnd : t.header.Nodup) {c : Name}
    (hc : c ∈ t.header) : t'.column c = t.column c := by
  obtain ⟨a, ha, ha'⟩ := column_of_mem_header t hc
  obtain ⟨b, hb, hb'⟩ := column_of_mem_header t' ((header_perm hp).mem_iff.mpr hc)
  rw [ha', hb']
  exact keys_unique hnd (hp.mem_iff.mp hb) ha

theorem nrows_perm {t t' : Table} (hp : t'.cols.Perm t.cols) (hrows : ∀ p ∈ t.cols, p.2.length = t.nrows)
    (hn : 0 < t.nrows) : t'.nrows = t.nrows := by
  unfold Table.nrows
  cases hc : t'.cols with
  | nil =>
    have : t.cols = [] := by rw [hc] at hp; exact List.Perm.eq_nil (hp.symm)
    unfold Table.nrows at hn; rw [this] at hn; simp at hn
  | cons p rest =>
    have hmem : p ∈ t.cols := hp.mem_iff.mp (by rw [hc]; exact List.mem_cons_self)
    have := hrows p hmem
    unfold Table.nrows at this
    simpa using this

theorem countLower_perm {hdr hdr' : List Name} (hp : hdr'.Perm hdr) (q : Name) :
    countLower hdr' q = countLower hdr q := hp.countP_eq _

theorem perm_short_eq {l l' : List Name} (hp : l'.Perm l) (hl : l.length ≤ 1) : l' = l := by
  have hlen := hp.length_eq
  match l, l', hl, hlen, hp with
  | [], [], _, _, _ => rfl
  | [a], [b], _, _, hp =>
    have : b ∈ [a] := hp.mem_iff.mp List.mem_cons_self
    simp at this; rw [this]

theorem pick_perm {hdr hdr' : List Name} (hp : hdr'.Perm hdr) {q : Name} (h : countLower hdr q ≤ 1) :
    pick hdr' q = pick hdr q := by
  have h' : countLower hdr' q ≤ 1 := by rw [countLower_perm hp]; exact h
  have e := perm_short_eq (hp.filter (fun c => lowerName c == q))
    (by rw [← List.countP_eq_length_filter]; exact h)
  rw [filter_pick h, filter_pick h'] at e
  cases h1 : pick hdr' q <;> cases h2 : pick hdr q <;> rw [h1, h2] at e <;> simp_all

theorem pickD_perm {hdr hdr' : List Name} (hp : hdr'.Perm hdr) {q : Name} (h : countLower hdr q ≤ 1) :
    pickD hdr' q = pickD hdr q := by
  unfold pickD; rw [pick_perm hp h]

theorem isReserved_perm {hdr hdr' : List Name} (hp : hdr'.Perm hdr) (c : Name) :
    isReserved hdr' c = isReserved hdr c := by
  unfold isReserved chargeReserved
  rw [hp.countP_eq]

theorem specSpectrum_perm {hdr hdr' : List Name} (hp : hdr'.Perm hdr) (h : HeaderOk hdr) :
    specSpectrum hdr' = specSpectrum hdr := by
  obtain ⟨_, _, _, _, r5⟩ := req_count h
  obtain ⟨o1, _, o3, o4, _⟩ := opt_count h
  unfold specSpectrum
  simp only [List.filterMap_cons, List.filterMap_nil, pick_perm hp o1, pick_perm hp (Nat.le_of_eq r5),
    pick_perm hp o4, pick_perm hp o3]

/-- a permutation of the columns of a well-formed table is well-formed -/
theorem wellFormed_perm {t t' : Table} (h : WellFormed t) (hp : t'.cols.Perm t.cols) : WellFormed t' := by
  have hh := header_perm hp
  have hn := nrows_perm hp h.rows h.nonempty
  refine ⟨hh.nodup_iff.mpr h.nodup, ?_, by rw [hn]; exact h.nonempty, ?_, ?_, ?_⟩
  · intro p hp'; rw [hn]; exact h.rows p (hp.mem_iff.mp hp')
  · intro q hq; rw [countLower_perm hh]; exact h.required q hq
  · intro q hq; rw [countLower_perm hh]; exact h.optional q hq
  · have r4 := (req_count (wf_headerOk h)).2.2.2.1
    have hl : pickD t.header nLabel ∈ t.header := (default_within (wf_headerOk h)).labels
    rw [pickD_perm hh (Nat.le_of_eq r4), column_perm hp h.nodup hl]
    exact h.label

/-- the specified dataset of a column-permuted table: same spectrum key, same
spectra rows, same targets, the same features in the new file order -/
theorem specDataset_perm {t t' : Table} (h : WellFormed t) (hp : t'.cols.Perm t.cols) :
    (specDataset t').spectrum = (specDataset t).spectrum ∧
    (specDataset t').spectra = (specDataset t).spectra ∧
    (specDataset t').targets = (specDataset t).targets ∧
    (specDataset t').features = t'.header.filter (fun c => (specDataset t).features.contains c) := by
  have hh := header_perm hp
  have hok := wf_headerOk h
  have hw := default_within hok
  have r4 := (req_count hok).2.2.2.1
  refine ⟨specSpectrum_perm hh hok, ?_, ?_, ?_⟩
  · show (specSpectrum t'.header).map (fun c => (c, t'.column c)) = (specSpectrum t.header).map (fun c => (c, t.column c))
    rw [specSpectrum_perm hh hok]
    apply List.map_congr_left
    intro x hx
    rw [← default_spectra hok] at hx
    rw [column_perm hp h.nodup (within_spectra hw x hx)]
  · show (t'.column (pickD t'.header nLabel)).map Cell.isTarget = (t.column (pickD t.header nLabel)).map Cell.isTarget
    have hl : pickD t.header nLabel ∈ t.header := hw.labels
    rw [pickD_perm hh (Nat.le_of_eq r4), column_perm hp h.nodup hl]
  · show specFeatures t' = _
    unfold specFeatures
    apply List.filter_congr
    intro x hx
    have hx' : x ∈ t.header := hh.mem_iff.mp hx
    show _ = (specFeatures t).contains x
    unfold specFeatures hasMissing
    rw [isReserved_perm hh, column_perm hp h.nodup hx']
    rw [Bool.eq_iff_iff, List.contains_iff_mem, List.mem_filter]
    simp [hx']

end Mk.Pin
