import MokapotVerif.Lemmas.FitLabels
/-! Helper lemmas for C12: the hyper-parameter search step (`_find_hyperparameters`) in front of the loop. -/
namespace Mk.Fit
variable {α β γ ρ θ π : Type}

/-- the search ignores the order of its examples -/
def SearchPermInvariant (hs : HyperSearch ρ θ π) : Prop :=
  ∀ a b : List (ρ × Bool), a.Perm b → hs.search a = hs.search b

/-- the permutation actually applied to rows and labels -/
def appliedOrder (shuffle : Bool) (perm : List Nat) (n : Nat) : List Nat := if shuffle then perm else List.range n

theorem appliedOrder_perm (shuffle : Bool) (perm : List Nat) (n : Nat) (hp : perm.Perm (List.range n)) :
    (appliedOrder shuffle perm n).Perm (List.range n) := by
  unfold appliedOrder
  split
  · exact hp
  · exact List.Perm.refl _

/-- the loop part of `fitLoopCv` is `fitLoop` started from the state `findHyper` returns (no hypothesis) -/
theorem fitLoopCv_loop (hs : HyperSearch ρ θ π) (needsCv : Bool) (est : Est ρ α θ) (relabel : List α → List Int)
    (shuffle : Bool) (perm : List Nat) (k : Nat) (th0 : θ) (rows : List ρ) (start : List Int) :
    (fitLoopCv hs needsCv est relabel shuffle perm k th0 rows start).loop
      = fitLoop est relabel shuffle perm k
          (findHyper hs needsCv th0 (if shuffle then gather rows (if shuffle then perm else List.range start.length) else rows)
            (if shuffle then gather start (if shuffle then perm else List.range start.length) else start)).theta
          rows start := rfl

theorem findHyper_theta (hs : HyperSearch ρ θ π) (needsCv : Bool) (th0 : θ) (feat : List ρ) (labels : List Int) :
    (findHyper hs needsCv th0 feat labels).theta = cvTheta hs needsCv th0 (trainSet feat labels) := by
  unfold findHyper cvTheta
  split <;> rfl

theorem findHyper_searches (hs : HyperSearch ρ θ π) (needsCv : Bool) (th0 : θ) (feat : List ρ) (labels : List Int) :
    (findHyper hs needsCv th0 feat labels).searches = if needsCv then [trainSet feat labels] else [] := by
  unfold findHyper
  split <;> rfl

theorem findHyper_needsCv (hs : HyperSearch ρ θ π) (needsCv : Bool) (th0 : θ) (feat : List ρ) (labels : List Int) :
    (findHyper hs needsCv th0 feat labels).needsCv = false := by
  unfold findHyper
  split <;> rfl

/-- the examples the search is given, in the bookkeeping-free form -/
theorem shuffled_trainSet (shuffle : Bool) (perm : List Nat) (rows : List ρ) (start : List Int)
    (hp : perm.Perm (List.range rows.length)) (hst : start.length = rows.length) :
    trainSet (if shuffle then gather rows (if shuffle then perm else List.range start.length) else rows)
        (if shuffle then gather start (if shuffle then perm else List.range start.length) else start)
      = cvSpec (appliedOrder shuffle perm rows.length) rows start := by
  unfold cvSpec appliedOrder
  cases shuffle with
  | true =>
    simp only [if_true]
    exact trainSet_gather rows start perm (perm_range_lt hp) (by rw [hst]; exact perm_range_lt hp)
  | false =>
    simp only [Bool.false_eq_true, if_false]
    exact trainSet_eq_range rows start hst.symm

/-- `fitLoopCv` in closed form -/
theorem fitLoopCv_eq (hs : HyperSearch ρ θ π) (needsCv : Bool) (est : Est ρ α θ) (relabel : List α → List Int)
    (shuffle : Bool) (perm : List Nat) (k : Nat) (th0 : θ) (rows : List ρ) (start : List Int)
    (hp : perm.Perm (List.range rows.length)) (hst : start.length = rows.length) :
    fitLoopCv hs needsCv est relabel shuffle perm k th0 rows start
      = ⟨if needsCv then [cvSpec (appliedOrder shuffle perm rows.length) rows start] else [], false,
          fitLoop est relabel shuffle perm k
            (cvTheta hs needsCv th0 (cvSpec (appliedOrder shuffle perm rows.length) rows start)) rows start⟩ := by
  have h := shuffled_trainSet shuffle perm rows start hp hst
  show (⟨(findHyper hs needsCv th0 _ _).searches, (findHyper hs needsCv th0 _ _).needsCv, _⟩ : FitResCv ρ θ) = _
  rw [findHyper_searches, findHyper_needsCv, h]
  congr 1
  have hl := fitLoopCv_loop hs needsCv est relabel shuffle perm k th0 rows start
  rw [findHyper_theta, h] at hl
  exact hl

theorem cvSpec_perm {o1 o2 : List Nat} (h : o1.Perm o2) (rows : List ρ) (start : List Int) :
    (cvSpec o1 rows start).Perm (cvSpec o2 rows start) := List.Perm.filterMap _ h

/-- membership in the bookkeeping-free example list: the pair of some PSM with its own label -/
theorem mem_cvSpec (order : List Nat) (rows : List ρ) (start : List Int) (p : ρ × Bool) :
    p ∈ cvSpec order rows start ↔ ∃ i ∈ order, pairAt rows start i = some p := by
  unfold cvSpec
  rw [List.mem_filterMap]

theorem pairAt_eq_some_iff (rows : List ρ) (L : List Int) (i : Nat) (p : ρ × Bool) :
    pairAt rows L i = some p ↔ ∃ l, rows[i]? = some p.1 ∧ L[i]? = some l ∧ l ≠ 0 ∧ p.2 = (l == 1) := by
  unfold pairAt
  rw [getElem?_zip']
  obtain ⟨r, b⟩ := p
  cases hr : rows[i]? with
  | none => simp
  | some r' =>
    cases hl : L[i]? with
    | none => simp
    | some l =>
      by_cases h0 : l = 0
      · simp [pairOf, h0]
      · simp [pairOf, h0]
        intro _
        exact eq_comm

end Mk.Fit
