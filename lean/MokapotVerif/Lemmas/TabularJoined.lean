import MokapotVerif.Lemmas.TabularRoundtrip
/-!
# Lemmas on the column-joining reader (C13)
-/
namespace Mk.Tabular
variable {α β γ : Type}

/-! ## `optAll`, `rounds` -/

theorem optAll_cons_some {x : Option α} {xs : List (Option α)} {l : List α} (h : optAll (x :: xs) = some l) :
    ∃ a as, x = some a ∧ optAll xs = some as ∧ l = a :: as := by
  cases x with
  | none => simp [optAll] at h
  | some a =>
    cases hx : optAll xs with
    | none => simp [optAll, hx] at h
    | some as =>
      simp only [optAll, hx, Option.bind_some, Option.map_some, Option.some.injEq] at h
      exact ⟨a, as, rfl, rfl, h.symm⟩

theorem optAll_none_of_mem (xs : List (Option α)) (h : none ∈ xs) : optAll xs = none := by
  induction xs with
  | nil => simp at h
  | cons x xs ih =>
    cases x with
    | none => rfl
    | some a =>
      have : none ∈ xs := by simpa using h
      simp [optAll, ih this]

theorem optAll_length {xs : List (Option α)} {l : List α} (h : optAll xs = some l) : l.length = xs.length := by
  induction xs generalizing l with
  | nil => simp [optAll] at h; subst h; rfl
  | cons x xs ih =>
    obtain ⟨a, as, _, h2, rfl⟩ := optAll_cons_some h
    simp [ih h2]

/-- a stream that is already exhausted ends the lock-step iteration at once -/
theorem rounds_of_nil_mem (fuel : Nat) (ls : List (List α)) (h : [] ∈ ls) : rounds fuel ls = [] := by
  cases fuel with
  | zero => rfl
  | succ f =>
    have : heads ls = none := by
      apply optAll_none_of_mem
      exact List.mem_map.mpr ⟨[], h, rfl⟩
    simp [rounds, this]

/-- lock-step iteration over streams that are maps of one common list -/
theorem rounds_map (fs : List (γ → α)) (hfs : fs ≠ []) :
    ∀ (xs : List γ) (fuel : Nat), xs.length ≤ fuel →
      rounds fuel (fs.map (fun f => xs.map f)) = xs.map (fun x => fs.map (fun f => f x)) := by
  intro xs
  induction xs with
  | nil =>
    intro fuel _
    apply rounds_of_nil_mem
    obtain ⟨f, hf⟩ := List.exists_mem_of_ne_nil fs hfs
    exact List.mem_map.mpr ⟨f, hf, rfl⟩
  | cons x xs ih =>
    intro fuel hfuel
    obtain ⟨fuel', rfl⟩ : ∃ f', fuel = f' + 1 := ⟨fuel - 1, by simp at hfuel; omega⟩
    have hheads : heads (fs.map (fun f => f x :: xs.map f)) = some (fs.map (fun f => f x)) := by
      simp only [heads, List.map_map, Function.comp_def, List.head?_cons]
      exact optAll_map_some _ _
    have htails : (fs.map (fun f => f x :: xs.map f)).map List.tail = fs.map (fun f => xs.map f) := by
      simp [List.map_map, Function.comp_def]
    simp only [List.map_cons]
    rw [rounds, hheads, Option.elim_some, htails, ih fuel' (by simp at hfuel; omega)]

/-! ## positional lemmas -/

theorem slice_range_map (n a c : Nat) (φ : Nat → α) :
    (((List.range n).map φ).drop a).take c = (List.range (min c (n - a))).map (fun j => φ (a + j)) := by
  apply List.ext_getElem?
  intro i
  simp only [List.getElem?_take, List.getElem?_drop, List.getElem?_map]
  by_cases hi : i < c
  · simp only [hi, if_true]
    by_cases h2 : a + i < n
    · rw [List.getElem?_range h2, List.getElem?_range (by omega)]
      rfl
    · rw [List.getElem?_eq_none (by simp; omega), List.getElem?_eq_none (by simp; omega)]
      rfl
  · simp only [hi, if_false]
    rw [List.getElem?_eq_none (by simp; omega)]
    rfl

theorem rows_eq_range (d : DF β) :
    d.rows = (List.range d.rows.length).map (fun j => (d.index.getD j 0, rowAt d j)) := by
  apply List.ext_getElem
  · simp
  · intro i h1 h2
    simp only [List.getElem_map, List.getElem_range, DF.index, rowAt, List.getD_eq_getElem?_getD,
      List.getElem?_map, List.getElem?_eq_getElem h1, Option.map_some, Option.getD_some]

theorem rowAt_hzip (a b : DF β) (hab : a.rows.length = b.rows.length) (j : Nat) :
    rowAt (hzip a b) j = rowAt a j ++ rowAt b j := by
  unfold rowAt hzip
  simp only [List.getElem?_zipWith]
  by_cases hj : j < a.rows.length
  · rw [List.getElem?_eq_getElem hj, List.getElem?_eq_getElem (by omega)]
    rfl
  · rw [List.getElem?_eq_none (by omega), List.getElem?_eq_none (by omega)]
    rfl

theorem zipWith_map_fst (f : IRow β → IRow β → Row β) (l1 l2 : List (IRow β)) (h : l1.length ≤ l2.length) :
    (List.zipWith (fun x y => (x.1, f x y)) l1 l2).map (fun ir => ir.1) = l1.map (fun ir => ir.1) := by
  induction l1 generalizing l2 with
  | nil => rfl
  | cons x xs ih =>
    cases l2 with
    | nil => simp at h
    | cons y ys =>
      simp only [List.zipWith_cons_cons, List.map_cons]
      rw [ih ys (by simpa using h)]

theorem index_length (d : DF β) : d.index.length = d.rows.length := by simp [DF.index]

theorem hzip_index (a b : DF β) (h : a.index = b.index) : (hzip a b).index = a.index := by
  have hl : a.rows.length = b.rows.length := by rw [← index_length, ← index_length, h]
  unfold DF.index hzip
  exact zipWith_map_fst (fun x y => x.2 ++ y.2) a.rows b.rows (by omega)

/-! ## `pd.concat(axis=1)` of same-index frames is the specified join -/

theorem joinDF_single (d : DF β) : joinDF d.index [d] = d := by
  cases d with
  | mk names rows =>
    have := rows_eq_range (⟨names, rows⟩ : DF β)
    simp only [joinDF, List.flatMap_cons, List.flatMap_nil, List.append_nil, index_length]
    congr 1
    exact this.symm

theorem joinDF_hzip (idx : List Nat) (a d : DF β) (ds : List (DF β)) (h : a.rows.length = d.rows.length) :
    joinDF idx (hzip a d :: ds) = joinDF idx (a :: d :: ds) := by
  unfold joinDF
  congr 1
  · simp [hzip, List.flatMap_cons, List.append_assoc]
  · apply List.map_congr_left
    intro j _
    simp only [List.flatMap_cons, rowAt_hzip a d h, List.append_assoc]

theorem hcatFold_some_index (ds : List (DF β)) (acc G : DF β) (h : hcatFold acc ds = some G) :
    ∀ d ∈ ds, d.index = acc.index := by
  induction ds generalizing acc with
  | nil => intro d hd; simp at hd
  | cons d ds ih =>
    simp only [hcatFold, hcat2] at h
    split at h
    · rename_i hidx
      simp only [Option.bind_some] at h
      intro x hx
      rcases List.mem_cons.mp hx with rfl | hx
      · exact hidx.symm
      · rw [ih _ h x hx, hzip_index acc d hidx]
    · simp at h

theorem hcatFold_same_index (ds : List (DF β)) (acc : DF β) (h : ∀ d ∈ ds, d.index = acc.index) :
    hcatFold acc ds = some (joinDF acc.index (acc :: ds)) := by
  induction ds generalizing acc with
  | nil => simp [hcatFold, joinDF_single]
  | cons d ds ih =>
    have hd : acc.index = d.index := (h d (by simp)).symm
    have hl : acc.rows.length = d.rows.length := by rw [← index_length, ← index_length, hd]
    simp only [hcatFold, hcat2, hd, if_true, Option.bind_some]
    have hi := hzip_index acc d hd
    rw [ih (hzip acc d) (fun x hx => by rw [hi]; exact h x (List.mem_cons_of_mem _ hx)), hi,
      joinDF_hzip _ acc d ds hl, hd]

/-- `pd.concat(frames, axis=1)` succeeds in the model exactly on frames with one
common index, and then is the specified join -/
theorem hcatAll_eq (d : DF β) (ds : List (DF β)) (G : DF β) (h : hcatAll (d :: ds) = some G) :
    (∀ x ∈ ds, x.index = d.index) ∧ G = joinDF d.index (d :: ds) := by
  simp only [hcatAll] at h
  have hidx := hcatFold_some_index ds d G h
  rw [hcatFold_same_index ds d hidx] at h
  exact ⟨hidx, (Option.some.inj h).symm⟩

/-! ## slices -/

/-- the `k`-th size-`c` slice of a frame -/
def sliceDF (c k : Nat) (d : DF β) : DF β := ⟨d.names, (d.rows.drop (k * c)).take c⟩

theorem splitDF_pos (e : Bool) (c : Nat) (hc : 1 ≤ c) (d : DF β) (h : d.rows ≠ []) :
    splitDF e c d = (List.range ((d.rows.length + c - 1) / c)).map (fun k => sliceDF c k d) := by
  have : d.rows.isEmpty = false := by
    cases hh : d.rows with
    | nil => exact absurd hh h
    | cons _ _ => rfl
  simp only [splitDF, this, Bool.false_eq_true, if_false, chunks_eq_slices c hc, List.map_map]
  rfl

theorem sliceDF_index (c k : Nat) (d : DF β) : (sliceDF c k d).index = (d.index.drop (k * c)).take c := by
  simp [sliceDF, DF.index, List.map_take, List.map_drop]

theorem selectDF_sliceDF (cols : Option (List Name)) (c k : Nat) (d : DF β) :
    selectDF cols (sliceDF c k d) = sliceDF c k (selectDF cols d) := by
  simp [selectDF, sliceDF, List.map_take, List.map_drop]

theorem rowAt_sliceDF (c k j : Nat) (d : DF β) (hj : j < c) : rowAt (sliceDF c k d) j = rowAt d (k * c + j) := by
  simp [rowAt, sliceDF, List.getElem?_take, hj, List.getElem?_drop]

theorem joinDF_slice (idx : List Nat) (Fs : List (DF β)) (c k : Nat) :
    joinDF ((idx.drop (k * c)).take c) (Fs.map (sliceDF c k)) = sliceDF c k (joinDF idx Fs) := by
  unfold joinDF sliceDF
  simp only [List.flatMap_map]
  congr 1
  rw [slice_range_map idx.length (k * c) c]
  simp only [List.length_take, List.length_drop]
  apply List.map_congr_left
  intro j hj
  have hj' : j < c := by
    have := List.mem_range.mp hj
    omega
  congr 1
  · simp [List.getD_eq_getElem?_getD, List.getElem?_take, hj', List.getElem?_drop]
  · simp only [List.flatMap_def]
    congr 1
    apply List.map_congr_left
    intro F _
    exact rowAt_sliceDF c k j F hj'

/-! ## the chunk streams of the sub-readers -/

theorem streams_of_reads (c : Nat) (hc : 1 ≤ c) (cols : Option (List Name)) :
    ∀ (rs : List (Reader β)), (∀ r ∈ rs, ChunkOK r) → ∀ Fs,
      optAll (rs.map (fun r => r.read (subsetCols r.names cols))) = some Fs →
      ∃ es : List Bool, es.length = Fs.length
        ∧ optAll (rs.map (fun r => r.chunked c (subsetCols r.names cols)))
            = some (List.zipWith (fun e F => splitDF e c F) es Fs) := by
  intro rs
  induction rs with
  | nil =>
    intro _ Fs hF
    simp only [List.map_nil, optAll, Option.some.injEq] at hF
    subst hF
    exact ⟨[], rfl, rfl⟩
  | cons r rs ih =>
    intro h Fs hF
    obtain ⟨F, Fs', h1, h2, rfl⟩ := optAll_cons_some hF
    obtain ⟨es, hlen, hes⟩ := ih (fun x hx => h x (List.mem_cons_of_mem _ hx)) Fs' h2
    obtain ⟨e, he⟩ := h r (by simp) c hc _ F h1
    refine ⟨e :: es, by simp [hlen], ?_⟩
    simp only [List.map_cons, optAll, he, hes, Option.bind_some, Option.map_some, List.zipWith_cons_cons]

theorem zipWith_ignore_left (f : γ → α → β) (g : α → β) (es : List γ) (xs : List α) (hlen : es.length = xs.length)
    (h : ∀ x ∈ xs, ∀ e, f e x = g x) : List.zipWith f es xs = xs.map g := by
  induction xs generalizing es with
  | nil => simp
  | cons x xs ih =>
    cases es with
    | nil => simp at hlen
    | cons e es =>
      simp only [List.zipWith_cons_cons, List.map_cons]
      rw [h x (by simp) e, ih es (by simpa using hlen) (fun y hy => h y (List.mem_cons_of_mem _ hy))]

/-! ## the joined reader -/

theorem joined_chunkOK (rs : List (Reader β)) (h : ∀ r ∈ rs, ChunkOK r) : ChunkOK (joinedReader rs) := by
  intro c hc cols F hF
  simp only [joinedReader, joinedRead] at hF ⊢
  cases hFs : optAll (rs.map (fun r => r.read (subsetCols r.names cols))) with
  | none => simp [hFs] at hF
  | some Fs =>
    simp only [hFs, Option.bind_some] at hF
    cases Fs with
    | nil => simp [hcatAll] at hF
    | cons F1 Frest =>
      cases hG : hcatAll (F1 :: Frest) with
      | none => simp [hG] at hF
      | some G =>
        simp only [hG, Option.bind_some, frameRead] at hF
        split at hF
        · rename_i hok
          cases hF
          obtain ⟨hidx, hGeq⟩ := hcatAll_eq F1 Frest G hG
          have hrs : rs ≠ [] := by
            intro e
            have := optAll_length hFs
            simp [e] at this
          have hrse : rs.isEmpty = false := by
            cases hh : rs with
            | nil => exact absurd hh hrs
            | cons _ _ => rfl
          obtain ⟨es, hlen, hes⟩ := streams_of_reads c hc cols rs h _ hFs
          simp only [joinedChunked, hrse, Bool.false_eq_true, if_false, hes, Option.bind_some]
          have hidxAll : ∀ x ∈ F1 :: Frest, x.index = F1.index := by
            intro x hx
            rcases List.mem_cons.mp hx with rfl | hx
            · rfl
            · exact hidx x hx
          have hlenAll : ∀ x ∈ F1 :: Frest, x.rows.length = F1.rows.length := by
            intro x hx
            rw [← index_length, ← index_length, hidxAll x hx]
          have hGrows : G.rows.length = F1.rows.length := by
            rw [hGeq]; simp [joinDF, index_length]
          have hGnames : ∀ k, (sliceDF c k G).names = G.names := fun _ => rfl
          by_cases hn : F1.rows = []
          · -- no rows at all: every stream is empty or a single empty chunk
            have hFrows : (selectDF cols G).rows = [] := by
              have : G.rows = [] := List.eq_nil_of_length_eq_zero (by rw [hGrows, hn]; rfl)
              simp [selectDF, this]
            have hsplit : ∀ x ∈ F1 :: Frest, ∀ e, splitDF e c x = if e then [x] else [] := by
              intro x hx e
              have : x.rows = [] := List.eq_nil_of_length_eq_zero (by rw [hlenAll x hx, hn]; rfl)
              simp [splitDF, this]
            by_cases hall : ∀ e ∈ es, e = true
            · refine ⟨true, ?_⟩
              have hstreams : List.zipWith (fun e F => splitDF e c F) es (F1 :: Frest)
                  = ((F1 :: Frest).map (fun (F : DF β) (_ : Unit) => F)).map (fun f => [()].map f) := by
                rw [List.map_map]
                cases es with
                | nil => simp at hlen
                | cons e0 es0 =>
                  have he0 : e0 = true := hall e0 (by simp)
                  subst he0
                  simp only [List.zipWith_cons_cons, List.map_cons, hsplit F1 (by simp) true, if_true]
                  congr 1
                  have : ∀ (l : List Bool) (xs : List (DF β)), l.length = xs.length → (∀ e ∈ l, e = true) →
                      (∀ x ∈ xs, ∀ e, splitDF e c x = if e then [x] else []) →
                      List.zipWith (fun e F => splitDF e c F) l xs
                        = xs.map ((fun f => [()].map f) ∘ fun (F : DF β) (_ : Unit) => F) := by
                    intro l
                    induction l with
                    | nil => intro xs hl _ _; cases xs <;> simp_all
                    | cons e l ihl =>
                      intro xs hl hal hsp
                      cases xs with
                      | nil => simp at hl
                      | cons x xs =>
                        have : e = true := hal e (by simp)
                        subst this
                        simp only [List.zipWith_cons_cons, List.map_cons, hsp x (by simp) true, if_true]
                        congr 1
                        exact ihl xs (by simpa using hl) (fun e he => hal e (List.mem_cons_of_mem _ he))
                          (fun y hy => hsp y (List.mem_cons_of_mem _ hy))
                  exact this es0 Frest (by simpa using hlen) (fun e he => hall e (List.mem_cons_of_mem _ he))
                    (fun y hy => hsplit y (List.mem_cons_of_mem _ hy))
              rw [hstreams]
              have hfuel : ((((F1 :: Frest).map (fun (F : DF β) (_ : Unit) => F)).map (fun f => [()].map f)).headD []).length = 1 := by
                simp
              rw [hfuel, rounds_map _ (by simp) [()] 1 (by simp)]
              simp only [List.map_cons, List.map_nil, List.map_map, Function.comp_def, List.map_id', optAll]
              simp only [frameRead, Option.bind_some, Option.map_some, splitDF, hFrows, List.isEmpty_nil,
                if_true, List.map_id']
              simp only [hG, Option.bind_some, hok, if_true]
            · refine ⟨false, ?_⟩
              have hex : ∃ e ∈ es, e = false := by
                by_cases hx : ∃ e ∈ es, e = false
                · exact hx
                · exfalso
                  apply hall
                  intro e he
                  cases e with
                  | true => rfl
                  | false => exact absurd ⟨false, he, rfl⟩ hx
              have hmem : [] ∈ List.zipWith (fun e F => splitDF e c F) es (F1 :: Frest) := by
                obtain ⟨e, he, hef⟩ := hex
                subst hef
                obtain ⟨i, hi, hie⟩ := List.getElem_of_mem he
                have hi2 : i < (F1 :: Frest).length := by rw [← hlen]; exact hi
                have : (List.zipWith (fun e F => splitDF e c F) es (F1 :: Frest))[i]'(by simp [hlen]; omega)
                    = splitDF es[i] c (F1 :: Frest)[i] := by simp
                rw [hie, hsplit _ (List.getElem_mem hi2) false] at this
                simp only [Bool.false_eq_true, if_false] at this
                rw [← this]
                exact List.getElem_mem _
              rw [rounds_of_nil_mem _ _ hmem]
              simp [optAll, splitDF, hFrows]
          · -- at least one row: all streams are the slices `0 … m-1`
            refine ⟨false, ?_⟩
            have hne : ∀ x ∈ F1 :: Frest, x.rows ≠ [] := by
              intro x hx e
              have := hlenAll x hx
              rw [e] at this
              exact hn (List.eq_nil_of_length_eq_zero this.symm)
            have hstreams : List.zipWith (fun e F => splitDF e c F) es (F1 :: Frest)
                = ((F1 :: Frest).map (fun (F : DF β) (k : Nat) => sliceDF c k F)).map
                    (fun f => (List.range ((F1.rows.length + c - 1) / c)).map f) := by
              rw [List.map_map]
              apply zipWith_ignore_left _ _ es _ hlen
              intro x hx e
              rw [splitDF_pos e c hc x (hne x hx), hlenAll x hx]
              rfl
            rw [hstreams]
            have hfuel : (((((F1 :: Frest).map (fun (F : DF β) (k : Nat) => sliceDF c k F)).map
                (fun f => (List.range ((F1.rows.length + c - 1) / c)).map f)).headD []).length)
                = (List.range ((F1.rows.length + c - 1) / c)).length := by simp
            rw [hfuel, rounds_map _ (by simp) _ _ (Nat.le_refl _)]
            simp only [List.map_map, Function.comp_def]
            have hround : ∀ k ∈ List.range ((F1.rows.length + c - 1) / c),
                ((hcatAll ((F1 :: Frest).map (fun F => sliceDF c k F))).bind (fun d => frameRead d cols))
                  = some (sliceDF c k (selectDF cols G)) := by
              intro k _
              have hsl : hcatAll ((F1 :: Frest).map (fun F => sliceDF c k F))
                  = some (sliceDF c k G) := by
                simp only [List.map_cons, hcatAll]
                rw [hcatFold_same_index]
                · rw [sliceDF_index, hGeq, ← joinDF_slice]
                  rfl
                · intro x hx
                  obtain ⟨y, hy, rfl⟩ := List.mem_map.mp hx
                  rw [sliceDF_index, sliceDF_index, hidx y hy]
              rw [hsl, Option.bind_some]
              simp only [frameRead, hGnames, hok, if_true, selectDF_sliceDF]
            rw [optAll_congr_some _ hround]
            have hFne : (selectDF cols G).rows ≠ [] := by
              intro e
              have : G.rows = [] := by simpa [selectDF] using e
              rw [this] at hGrows
              exact hn (List.eq_nil_of_length_eq_zero hGrows.symm)
            rw [splitDF_pos false c hc _ hFne]
            have : (selectDF cols G).rows.length = F1.rows.length := by simp [selectDF, hGrows]
            rw [this]
        · cases hF

/-! ## the joined reader reads the joined table -/

theorem reorder_nil (cs : List Name) : reorder cs ([] : Row β) = [] := by
  unfold reorder
  induction cs with
  | nil => rfl
  | cons c cs ih => simp [List.filterMap_cons, ih]

theorem pick_nil (cols : Option (List Name)) : pick cols ([] : Row β) = [] := by
  cases cols with
  | none => rfl
  | some cs => exact reorder_nil cs

theorem rowAt_selectDF (cols : Option (List Name)) (t : DF β) (j : Nat) :
    rowAt (selectDF cols t) j = pick cols (rowAt t j) := by
  unfold rowAt selectDF
  simp only [List.getElem?_map]
  cases t.rows[j]? with
  | none => simp [pick_nil]
  | some ir => rfl

theorem rowAt_keys (t : DF β) (hwf : t.WF) (j : Nat) : rowAt t j = [] ∨ rowKeys (rowAt t j) = t.names := by
  unfold rowAt
  cases h : t.rows[j]? with
  | none => left; rfl
  | some ir =>
    right
    have hm : ir ∈ t.rows := List.mem_of_getElem? h
    simpa [rowKeys] using hwf.2 ir hm

theorem selectDF_index (cols : Option (List Name)) (t : DF β) : (selectDF cols t).index = t.index := by
  simp [selectDF, DF.index, List.map_map, Function.comp_def]

theorem lookup_flatMap_reorder (cs : List Name) (c : Name) (hc : c ∈ cs) (j : Nat) (ts : List (DF β))
    (hk : ∀ t ∈ ts, rowAt t j = [] ∨ rowKeys (rowAt t j) = t.names) :
    (ts.flatMap (fun t => reorder (t.names.filter (fun n => cs.contains n)) (rowAt t j))).lookup c
      = (ts.flatMap (fun t => rowAt t j)).lookup c := by
  induction ts with
  | nil => rfl
  | cons t ts ih =>
    simp only [List.flatMap_cons, List.lookup_append]
    rw [ih (fun x hx => hk x (List.mem_cons_of_mem _ hx))]
    congr 1
    rcases hk t (by simp) with h0 | hkeys
    · rw [h0, reorder_nil]
    · by_cases hmem : c ∈ t.names
      · apply lookup_reorder
        simp only [List.mem_filter, List.contains_iff_mem]
        exact ⟨hmem, by simpa using hc⟩
      · rw [lookup_reorder_not_mem _ _ _ (by
          simp only [List.mem_filter, not_and]
          intro h; exact absurd h hmem), lookup_of_not_mem_keys _ c (by rw [hkeys]; exact hmem)]

theorem subsetCols_ok (names : List Name) (cols : Option (List Name)) : colsOK names (subsetCols names cols) = true := by
  cases cols with
  | none => rfl
  | some cs =>
    simp only [subsetCols, Option.map_some, colsOK, Option.elim_some]
    apply (hasAll_iff _ _).mpr
    intro c hc
    exact (List.mem_filter.mp hc).1

theorem DF.ext' {a b : DF β} (h1 : a.names = b.names) (h2 : a.rows = b.rows) : a = b := by
  cases a; cases b; simp_all

theorem selectDF_joinDF_rows (cs : List Name) (idx : List Nat) (ds : List (DF β)) :
    (selectDF (some cs) (joinDF idx ds)).rows
      = (List.range idx.length).map (fun j => (idx.getD j 0, reorder cs (ds.flatMap (fun d => rowAt d j)))) := by
  simp [selectDF, joinDF, pick]

/-- selecting from the join of the sub-selections is selecting from the join -/
theorem select_join_select (cs : List Name) (idx : List Nat) (ts : List (DF β)) (hwf : ∀ t ∈ ts, t.WF) :
    selectDF (some cs) (joinDF idx (ts.map (fun t => selectDF (subsetCols t.names (some cs)) t)))
      = selectDF (some cs) (joinDF idx ts) := by
  apply DF.ext'
  · rfl
  · rw [selectDF_joinDF_rows, selectDF_joinDF_rows]
    apply List.map_congr_left
    intro j _
    congr 1
    apply reorder_congr
    intro c hc
    rw [List.flatMap_map]
    have := lookup_flatMap_reorder cs c hc j ts (fun t ht => rowAt_keys t (hwf t ht) j)
    rw [← this]
    congr 2
    funext t
    rw [rowAt_selectDF]
    rfl

/-- **the joined reader reads the column-wise join of the tables its sub-readers
read**, provided these all carry the same index labels -/
theorem joined_readsTable (rts : List (Reader β × DF β × Bool)) (hne : rts ≠ []) (idx : List Nat)
    (h : ∀ p ∈ rts, ReadsTable p.1 p.2.1 p.2.2 ∧ p.2.1.WF ∧ p.2.1.index = idx) :
    ReadsTable (joinedReader (rts.map (fun p => p.1))) (joinDF idx (rts.map (fun p => p.2.1)))
      (rts.all (fun p => p.2.2)) where
  names := by
    simp only [joinedReader, joinDF, List.map_map, List.flatMap_def]
    congr 1
    apply List.map_congr_left
    intro p hp
    exact (h p hp).1.names
  read := by
    intro cols hok han
    -- the sub-reads
    have hsub : ∀ p ∈ rts, p.1.read (subsetCols p.1.names cols)
        = some (selectDF (subsetCols p.2.1.names cols) p.2.1) := by
      intro p hp
      have hp' := h p hp
      rw [hp'.1.names]
      apply hp'.1.read _ (subsetCols_ok _ _)
      intro hnone
      have hc : cols = none := by
        cases cols with
        | none => rfl
        | some cs => simp [subsetCols] at hnone
      have := han hc
      rw [List.all_eq_true] at this
      exact this p hp
    obtain ⟨p0, prest, rfl⟩ : ∃ p0 prest, rts = p0 :: prest := by
      cases rts with
      | nil => exact absurd rfl hne
      | cons a b => exact ⟨a, b, rfl⟩
    simp only [joinedReader, joinedRead, List.map_map, Function.comp_def]
    rw [optAll_congr_some _ hsub, Option.bind_some]
    simp only [List.map_cons, hcatAll]
    rw [hcatFold_same_index]
    · simp only [Option.bind_some, selectDF_index, (h p0 (by simp)).2.2]
      -- header check and the final selection
      have hnames : colsOK (joinDF idx (selectDF (subsetCols p0.2.1.names cols) p0.2.1 ::
          prest.map (fun p => selectDF (subsetCols p.2.1.names cols) p.2.1))).names cols = true := by
        cases cols with
        | none =>
          simpa [joinDF, selectDF, subsetCols, outNames, colsOK] using hok
        | some cs =>
          apply (hasAll_iff _ _).mpr
          intro c hc
          have hcT := (hasAll_iff _ _).mp hok c hc
          simp only [joinDF, List.map_cons, List.flatMap_cons, List.mem_append, List.mem_flatMap,
            List.mem_map] at hcT
          simp only [joinDF, List.flatMap_cons, List.mem_append, List.mem_flatMap, List.mem_map, selectDF,
            subsetCols, Option.map_some, outNames, Option.elim_some, id]
          rcases hcT with h1 | ⟨t, ⟨p, hp, rfl⟩, h2⟩
          · left
            exact List.mem_filter.mpr ⟨h1, by simpa using hc⟩
          · right
            exact ⟨_, ⟨p, hp, rfl⟩, List.mem_filter.mpr ⟨h2, by simpa using hc⟩⟩
      simp only [frameRead, hnames, if_true, Option.some.injEq]
      cases cols with
      | none =>
        simp [subsetCols, selectDF_none]
      | some cs =>
        have := select_join_select cs idx ((p0 :: prest).map (fun p => p.2.1)) (by
          intro t ht
          obtain ⟨p, hp, rfl⟩ := List.mem_map.mp ht
          exact (h p hp).2.1)
        simpa [List.map_map, Function.comp_def] using this
    · intro x hx
      obtain ⟨p, hp, rfl⟩ := List.mem_map.mp hx
      rw [selectDF_index, selectDF_index, (h p (List.mem_cons_of_mem _ hp)).2.2, (h p0 (by simp)).2.2]
  readNone := by
    intro han
    have : ∃ p ∈ rts, p.2.2 = false := by
      by_cases hx : ∃ p ∈ rts, p.2.2 = false
      · exact hx
      · exfalso
        have : rts.all (fun p => p.2.2) = true := by
          rw [List.all_eq_true]
          intro p hp
          cases hb : p.2.2 with
          | true => rfl
          | false => exact absurd ⟨p, hp, hb⟩ hx
        rw [this] at han
        cases han
    obtain ⟨p, hp, hpf⟩ := this
    have hnone := (h p hp).1.readNone hpf
    simp only [joinedReader, joinedRead, List.map_map, Function.comp_def]
    rw [optAll_none_of_mem]
    · rfl
    · apply List.mem_map.mpr
      exact ⟨p, hp, by simpa [subsetCols] using hnone⟩

/-- the join of well-formed same-index tables with pairwise distinct column
names is well-formed -/
theorem joinDF_wf (idx : List Nat) (ts : List (DF β)) (hwf : ∀ t ∈ ts, t.WF) (hidx : ∀ t ∈ ts, t.index = idx)
    (hnodup : (ts.flatMap (fun t => t.names)).Nodup) : (joinDF idx ts).WF := by
  refine ⟨hnodup, ?_⟩
  intro ir hir
  simp only [joinDF, List.mem_map, List.mem_range] at hir
  obtain ⟨j, hj, rfl⟩ := hir
  simp only [List.flatMap_def, List.map_flatten, List.map_map]
  congr 1
  apply List.map_congr_left
  intro t ht
  simp only [Function.comp]
  rcases rowAt_keys t (hwf t ht) j with h0 | hk
  · have hlen : t.rows.length = idx.length := by rw [← index_length, hidx t ht]
    have hjt : j < t.rows.length := by omega
    have h0' := h0
    unfold rowAt at h0'
    rw [List.getElem?_eq_getElem hjt] at h0'
    simp only [Option.map_some, Option.getD_some] at h0'
    have hk := (hwf t ht).2 _ (List.getElem_mem hjt)
    rw [h0'] at hk
    rw [h0]
    exact hk
  · simpa [rowKeys] using hk

end Mk.Tabular
