import MokapotVerif.Lemmas.PinOrder
import MokapotVerif.Model.PinExt
/-! Helper lemmas for C10 (extension): calls of `read_pin` / `read_percolator`
with keyword arguments.  Core Lean only. -/
namespace Mk.Pin

/-! ### look-up of a column named by the caller -/

theorem nodup_of_map_nodup {α β : Type} {f : α → β} {l : List α} (h : (l.map f).Nodup) : l.Nodup := by
  induction l with
  | nil => exact List.nodup_nil
  | cons x xs ih =>
    rw [List.map_cons, List.nodup_cons] at h
    exact List.nodup_cons.mpr ⟨fun hx => h.1 (List.mem_map_of_mem hx), ih h.2⟩

theorem pick_map_sublist (hdr : List Name) (q : Name) :
    ((pick hdr q).toList.map lowerName).Sublist [q] := by
  cases hp : pick hdr q with
  | none => exact List.nil_sublist _
  | some x =>
    have := List.find?_some hp
    have hl : lowerName x = q := by simpa using this
    simp [hl]

theorem filter_beq_of_nodup {l : List Name} (hnd : l.Nodup) {a : Name} (ha : a ∈ l) :
    l.filter (fun x => x == a) = [a] := by
  induction l with
  | nil => cases ha
  | cons x rest ih =>
    rw [List.nodup_cons] at hnd
    by_cases hxa : x = a
    · subst hxa
      rw [List.filter_cons_of_pos (by simp)]
      congr 1
      rw [List.filter_eq_nil_iff]
      intro y hy hyx
      have : y = x := by simpa using hyx
      subst this
      exact hnd.1 hy
    · have hne : (x == a) = false := by simpa using hxa
      rw [List.filter_cons_of_neg (by simp [hne])]
      rcases List.mem_cons.mp ha with h | h
      · exact absurd h.symm hxa
      · exact ih hnd.2 h

theorem foundColumns_exact (q : Name) (hdr : List Name) :
    foundColumns false q hdr = hdr.filter (fun x => x == q) := by
  unfold foundColumns strCompare; simp

/-- the look-up of an optional role returns the specified column -/
theorem findOptionalColumn_spec {hdr : List Name} (hnd : hdr.Nodup) {q : Name} (hq : lowerName q = q)
    {a : Option Name} (h : argOk a hdr q = true) :
    findOptionalColumn a hdr q = .ok (specOptional a hdr q) := by
  cases a with
  | none =>
    have h' : countLower hdr q ≤ 1 := by simpa [argOk] using h
    exact findOptionalColumn_default hq h'
  | some c =>
    have h' : orDefault (some c) q ∈ hdr := by simpa [argOk] using h
    unfold findOptionalColumn specOptional
    simp only [Option.isSome_some, Option.isNone_some, if_true]
    rw [foundColumns_exact, filter_beq_of_nodup hnd h']
    rfl

/-- a successful look-up with a name given by the caller returns that name,
which is a column of the file (exact letter case) -/
theorem findOptionalColumn_some_ok {hdr : List Name} {q c : Name} {o : Option Name}
    (h : findOptionalColumn (some c) hdr q = .ok o) :
    o = some (orDefault (some c) q) ∧ orDefault (some c) q ∈ hdr := by
  unfold findOptionalColumn at h
  simp only [Option.isSome_some, Option.isNone_some] at h
  rw [foundColumns_exact] at h
  generalize hl : hdr.filter (fun x => x == orDefault (some c) q) = l at h
  cases l with
  | nil => simp [pickUnique] at h
  | cons x rest =>
    cases rest with
    | nil =>
      simp only [pickUnique, Except.ok.injEq] at h
      have hx : x ∈ hdr.filter (fun x => x == orDefault (some c) q) := by rw [hl]; exact List.mem_cons_self
      rw [List.mem_filter] at hx
      have : x = orDefault (some c) q := by simpa using hx.2
      subst this
      exact ⟨h.symm, hx.1⟩
    | cons y r => simp [pickUnique] at h

/-- hypotheses on the header and the arguments under which all look-ups succeed -/
structure ArgsOk (args : PinArgs) (hdr : List Name) : Prop where
  nodup : hdr.Nodup
  required : ∀ q ∈ requiredNames, countLower hdr q = 1
  filename : argOk args.filename hdr nFilename = true
  calcmass : argOk args.calcmass hdr nCalcmass = true
  expmass : argOk args.expmass hdr nExpmass = true
  rt : argOk args.rt hdr nRetTime = true
  charge : argOk args.charge hdr nChargeColumn = true

theorem argsOk_req {args : PinArgs} {hdr : List Name} (h : ArgsOk args hdr) :
    countLower hdr nSpecid = 1 ∧ countLower hdr nPeptide = 1 ∧ countLower hdr nProteins = 1 ∧
    countLower hdr nLabel = 1 ∧ countLower hdr nScannr = 1 :=
  ⟨h.required _ (by simp [requiredNames]), h.required _ (by simp [requiredNames]),
   h.required _ (by simp [requiredNames]), h.required _ (by simp [requiredNames]),
   h.required _ (by simp [requiredNames])⟩

/-- the look-ups of an admissible call return the specified classification -/
theorem lookupColumns_args {args : PinArgs} {hdr : List Name} (h : ArgsOk args hdr) :
    lookupColumns args hdr = .ok (specClassified args hdr) := by
  obtain ⟨l1, l2, l3, l4, l5, l6, l7, l8, l9, l10, l11, l12, l13⟩ := lower_lit
  obtain ⟨r1, r2, r3, r4, r5⟩ := argsOk_req h
  unfold lookupColumns
  rw [findRequiredColumn_ok l1 r1, findRequiredColumn_ok l2 r2, findRequiredColumn_ok l3 r3,
    findRequiredColumn_ok l4 r4, findRequiredColumn_ok l5 r5]
  simp only [bind, Except.bind]
  rw [findOptionalColumn_spec h.nodup l9 h.filename, findOptionalColumn_spec h.nodup l10 h.calcmass,
    findOptionalColumn_spec h.nodup l11 h.expmass, findOptionalColumn_spec h.nodup l12 h.rt,
    findOptionalColumn_spec h.nodup l13 h.charge]
  simp only [findColumns, foundColumns_lower l6, foundColumns_lower l7, foundColumns_lower l8]
  rfl

/-! ### the chosen names are non-empty -/

theorem orDefault_some_nonempty {c q : Name} (hq : q.isEmpty = false) :
    (orDefault (some c) q).isEmpty = false := by
  by_cases hc : c.isEmpty = true
  · simp [orDefault, hc, hq]
  · simp [orDefault, hc]

theorem specOptional_nonempty {a : Option Name} {hdr : List Name} {q : Name} (_hq : lowerName q = q)
    (hqe : q.isEmpty = false) (h : argOk a hdr q = true) {x : Name}
    (hx : x ∈ (specOptional a hdr q).toList) : x.isEmpty = false := by
  cases a with
  | some c =>
    have : x = orDefault (some c) q := by simpa [specOptional] using hx
    subst this
    exact orDefault_some_nonempty hqe
  | none =>
    have h' : countLower hdr q ≤ 1 := by simpa [argOk] using h
    have hx' : x ∈ (pick hdr q).toList := by simpa [specOptional] using hx
    have hl := ((mem_pick_iff h').mp hx').2
    cases hxe : x.isEmpty with
    | false => rfl
    | true =>
      rw [lowerName_nil_of_isEmpty hxe] at hl
      rw [← hl] at hqe
      cases hqe

theorem spec_spectra_nonempty {args : PinArgs} {hdr : List Name} (h : ArgsOk args hdr) :
    (specClassified args hdr).spectra.any (fun s => s.isEmpty) = false := by
  obtain ⟨_, _, _, _, _, _, _, _, l9, _, l11, l12, _⟩ := lower_lit
  obtain ⟨_, _, _, _, r5⟩ := argsOk_req h
  rw [List.any_eq_false]
  intro c hc he
  unfold Classified.spectra specClassified at hc
  simp only [List.mem_append, List.mem_singleton] at hc
  rcases hc with ((hc | hc) | hc) | hc
  · have := specOptional_nonempty l9 (by decide) h.filename hc; rw [he] at this; cases this
  · subst hc
    obtain ⟨x, hx, _, hl⟩ := pick_some_of_count r5
    unfold pickD at he; rw [hx] at he
    simp only [Option.getD_some] at he
    have := lowerName_nil_of_isEmpty he
    rw [hl] at this
    exact absurd this (by decide)
  · have := specOptional_nonempty l12 (by decide) h.rt hc; rw [he] at this; cases this
  · have := specOptional_nonempty l11 (by decide) h.expmass hc; rw [he] at this; cases this

/-! ### metadata and features of the specified classification -/

theorem spec_nonfeat (args : PinArgs) (hdr : List Name) :
    (specClassified args hdr).nonfeat hdr = specMetadataArgs args hdr := by
  unfold Classified.nonfeat Classified.chargeMeta specMetadataArgs severalCharge
  rw [altCharge_length]
  unfold specClassified levelNames
  simp only [List.map_cons, List.map_nil, List.flatMap_cons, List.flatMap_nil, List.append_nil,
    decide_eq_true_eq, List.append_assoc]

theorem spec_level (args : PinArgs) (hdr : List Name) :
    (specClassified args hdr).level
      = [pickD hdr nPeptide] ++ levelNames.flatMap (fun q => hdr.filter (fun c => lowerName c == q)) := by
  unfold Classified.level specClassified levelNames
  simp only [List.flatMap_cons, List.flatMap_nil, List.append_nil, List.append_assoc]

theorem mem_toList_iff_beq {o : Option Name} {c : Name} : c ∈ o.toList ↔ (o == some c) = true := by
  cases o with
  | none => simp
  | some x =>
    simp only [Option.toList_some, List.mem_singleton, beq_iff_eq, Option.some.injEq]
    exact eq_comm

/-- a column of the file is metadata iff it is reserved in the call -/
theorem spec_nonfeat_contains {args : PinArgs} {hdr : List Name} (h : ArgsOk args hdr) {c : Name}
    (hc : c ∈ hdr) : ((specClassified args hdr).nonfeat hdr).contains c = reservedArgs args hdr c := by
  obtain ⟨r1, r2, r3, r4, r5⟩ := argsOk_req h
  rw [Bool.eq_iff_iff, List.contains_iff_mem]
  unfold Classified.nonfeat Classified.chargeMeta
  rw [altCharge_length]
  have p1 := pickD_eq_iff r1 hc
  have p2 := pickD_eq_iff r2 hc
  have p3 := pickD_eq_iff r3 hc
  have p4 := pickD_eq_iff r4 hc
  have p5 := pickD_eq_iff r5 hc
  have f1 : c ∈ (specClassified args hdr).modpep ↔ lowerName c = nModifiedpeptide := by
    unfold specClassified; simp [List.mem_filter, hc]
  have f2 : c ∈ (specClassified args hdr).precursors ↔ lowerName c = nPrecursor := by
    unfold specClassified; simp [List.mem_filter, hc]
  have f3 : c ∈ (specClassified args hdr).pepgroups ↔ lowerName c = nPeptidegroup := by
    unfold specClassified; simp [List.mem_filter, hc]
  have g0 : (specClassified args hdr).specid = pickD hdr nSpecid := rfl
  have g1 : (specClassified args hdr).scan = pickD hdr nScannr := rfl
  have g2 : (specClassified args hdr).peptides = pickD hdr nPeptide := rfl
  have g3 : (specClassified args hdr).proteins = pickD hdr nProteins := rfl
  have g4 : (specClassified args hdr).labels = pickD hdr nLabel := rfl
  have g5 : (specClassified args hdr).filename = specOptional args.filename hdr nFilename := rfl
  have g6 : (specClassified args hdr).calcmass = specOptional args.calcmass hdr nCalcmass := rfl
  have g7 : (specClassified args hdr).expmass = specOptional args.expmass hdr nExpmass := rfl
  have g8 : (specClassified args hdr).rt = specOptional args.rt hdr nRetTime := rfl
  have g9 : (specClassified args hdr).charge = specOptional args.charge hdr nChargeColumn := rfl
  rw [g0, g1, g2, g3, g4, g5, g6, g7, g8, g9]
  unfold reservedArgs requiredNames levelNames severalCharge
  by_cases hb : 1 < hdr.countP (fun x => nCharge.isPrefixOf (lowerName x))
  · simp only [hb, if_true, decide_true, Bool.and_true, List.mem_append, List.mem_cons, List.not_mem_nil,
      or_false, f1, f2, f3, mem_toList_iff_beq, List.cons_append, List.nil_append, List.contains_iff_mem,
      Bool.or_eq_true]
    rw [eq_comm (a := c) (b := pickD hdr nSpecid), eq_comm (a := c) (b := pickD hdr nScannr),
      eq_comm (a := c) (b := pickD hdr nPeptide), eq_comm (a := c) (b := pickD hdr nProteins),
      eq_comm (a := c) (b := pickD hdr nLabel), p1, p2, p3, p4, p5]
    grind
  · simp only [hb, if_false, decide_false, Bool.and_false, List.mem_append, List.mem_cons, List.not_mem_nil,
      or_false, f1, f2, f3, mem_toList_iff_beq, List.cons_append, List.nil_append, List.contains_iff_mem,
      Bool.or_eq_true, Bool.false_eq_true]
    rw [eq_comm (a := c) (b := pickD hdr nSpecid), eq_comm (a := c) (b := pickD hdr nScannr),
      eq_comm (a := c) (b := pickD hdr nPeptide), eq_comm (a := c) (b := pickD hdr nProteins),
      eq_comm (a := c) (b := pickD hdr nLabel), p1, p2, p3, p4, p5]
    grind

/-! ### the generic core: any successful look-up -/

/-- the dataset the scan produces for a classification `k` and a target column `tg` -/
def scanDataset (t : Table) (k : Classified) (tg : List Bool) : Dataset :=
  { columns := t.header, target := k.labels, spectrum := k.spectra, peptide := k.peptides,
    protein := k.proteins,
    features := t.header.filter (fun c => !(k.nonfeat t.header).contains c && !hasMissing t c),
    metadata := k.nonfeat t.header,
    level := k.level, filename := k.filename, scan := k.scan, specid := k.specid,
    calcmass := k.calcmass, expmass := k.expmass, rt := k.rt, charge := k.charge,
    spectra := k.spectra.map (fun c => (c, t.column c)), targets := tg }

/-- **Generic core**: whatever the keyword arguments, once the look-ups have
succeeded with classification `k` (spectrum-key names non-empty) on a table
whose columns have the same positive length, the model fails or succeeds as
`convert_targets_column` does on the label column and returns `scanDataset` —
for every column-chunk size, row-chunk size and completion order. -/
theorem readPercolatorSched_of_lookup {args : PinArgs} {t : Table} {k : Classified}
    (hk : lookupColumns args t.header = .ok k) (hne : k.spectra.any (fun s => s.isEmpty) = false)
    (hrows : ∀ p ∈ t.cols, p.2.length = t.nrows) (hn : 0 < t.nrows)
    {c r : Nat} (hc : 0 < c) (hr : 0 < r)
    (order : List (List Name) → List (List Name)) (hord : ∀ l, (order l).Perm l) :
    readPercolatorSched args c r t order
      = (convertTargets (t.column k.labels)).bind (fun tg => .ok (scanDataset t k tg)) := by
  have hw := lookupColumns_within hk
  unfold readPercolatorSched
  rw [hk]
  simp only [Except.bind]
  rw [if_neg (by rw [hne]; simp), if_neg (by omega)]
  have hm : 0 < numRowChunks t.nrows r := numRowChunks_pos hn hr
  have hcount : (order (featSlices k t.header c)).countP (hasIds (k.spectra ++ [k.labels])) = 1 := by
    rw [(hord _).countP_eq]
    exact countP_hasIds_idChunks hc _ _ (by simp) (ids_not_features _ _)
  rw [flatMap_scanFrames, hcount]
  simp only [List.replicate_one, List.flatten_singleton]
  have hcol : ∀ x ∈ t.header,
      concatCol ((List.range (numRowChunks t.nrows r)).map (fun k c => cellsOf t r k c)) x = t.column x := by
    intro x hx
    have := concatCol_frames t hr x
    rwa [column_length t hrows hx] at this
  unfold assemble
  rw [range_map_isEmpty hm]
  simp only [Bool.false_eq_true, if_false]
  rw [hcol _ hw.labels]
  congr 1
  funext tg
  rw [datasetChecks_mkDataset t hw]
  simp only [if_true]
  congr 1
  unfold mkDataset scanDataset
  have hfeat : (k.features t.header).filter
      (fun f => !((featSlices k t.header c).map
        (scanDrop t (k.spectra ++ [k.labels]) r (numRowChunks t.nrows r))).flatten.contains f)
      = t.header.filter (fun c => !(k.nonfeat t.header).contains c && !hasMissing t c) := by
    unfold Classified.features
    rw [List.filter_filter]
    apply List.filter_congr
    intro x hx
    by_cases hmem : x ∈ k.nonfeat t.header
    · have h1 : (k.nonfeat t.header).contains x = true := by simpa using hmem
      simp only [h1]; simp
    · have h1 : (k.nonfeat t.header).contains x = false := by simpa using hmem
      have hxf : x ∈ k.features t.header := by
        unfold Classified.features
        rw [List.mem_filter]; exact ⟨hx, by simp [hmem]⟩
      have hxi : x ∉ k.spectra ++ [k.labels] := fun hxi => ids_not_features _ _ x hxi hxf
      have hiff := mem_scanDrop_iff t hc hr (k.features t.header) (k.spectra ++ [k.labels]) hxf hxi
        (column_length t hrows hx)
      rw [List.flatMap_def] at hiff
      have e : ((featSlices k t.header c).map
          (scanDrop t (k.spectra ++ [k.labels]) r (numRowChunks t.nrows r))).flatten.contains x
          = hasMissing t x := by
        rw [Bool.eq_iff_iff, List.contains_iff_mem]; exact hiff
      simp only [h1, e]; simp
  have hspec : k.spectra.map
      (fun c => (c, concatCol ((List.range (numRowChunks t.nrows r)).map (fun k c => cellsOf t r k c)) c))
      = k.spectra.map (fun c => (c, t.column c)) := by
    apply List.map_congr_left
    intro x hx
    rw [hcol x (within_spectra hw x hx)]
  rw [hfeat, hspec]

/-! ### admissible calls -/

theorem wfArgs_argsOk {args : PinArgs} {t : Table} (h : WellFormedArgs args t) : ArgsOk args t.header :=
  ⟨h.nodup, h.required, h.filename, h.calcmass, h.expmass, h.rt, h.charge⟩

/-- the specified dataset with a given target column -/
def specDatasetArgsT (args : PinArgs) (t : Table) (tg : List Bool) : Dataset :=
  { specDatasetArgs args t with targets := tg }

theorem scanDataset_spec {args : PinArgs} {t : Table} (h : ArgsOk args t.header) (tg : List Bool) :
    scanDataset t (specClassified args t.header) tg = specDatasetArgsT args t tg := by
  unfold scanDataset specDatasetArgsT specDatasetArgs
  have hfeat : t.header.filter
      (fun c => !((specClassified args t.header).nonfeat t.header).contains c && !hasMissing t c)
      = t.header.filter (fun c => !reservedArgs args t.header c && !hasMissing t c) := by
    apply List.filter_congr
    intro x hx
    rw [spec_nonfeat_contains h hx]
  rw [hfeat, spec_nonfeat, spec_level]
  rfl

/-- **Core statement for calls with keyword arguments.** -/
theorem readPercolatorSched_args_core {args : PinArgs} {t : Table} (hok : ArgsOk args t.header)
    (hrows : ∀ p ∈ t.cols, p.2.length = t.nrows) (hn : 0 < t.nrows)
    {c r : Nat} (hc : 0 < c) (hr : 0 < r)
    (order : List (List Name) → List (List Name)) (hord : ∀ l, (order l).Perm l) :
    readPercolatorSched args c r t order
      = (convertTargets (t.column (pickD t.header nLabel))).bind
          (fun tg => .ok (specDatasetArgsT args t tg)) := by
  rw [readPercolatorSched_of_lookup (lookupColumns_args hok) (spec_spectra_nonempty hok) hrows hn hc hr
    order hord]
  have hlab : (specClassified args t.header).labels = pickD t.header nLabel := rfl
  rw [hlab]
  congr 1
  funext tg
  rw [scanDataset_spec hok]

/-- **Main statement for calls with keyword arguments.** -/
theorem readPercolatorSched_wfArgs {args : PinArgs} {t : Table} (h : WellFormedArgs args t)
    {c r : Nat} (hc : 0 < c) (hr : 0 < r)
    (order : List (List Name) → List (List Name)) (hord : ∀ l, (order l).Perm l) :
    readPercolatorSched args c r t order = .ok (specDatasetArgs args t) := by
  rw [readPercolatorSched_args_core (wfArgs_argsOk h) h.rows h.nonempty hc hr order hord,
    convertTargets_ok h.label]
  rfl

/-- a well-formed table is an admissible call with default arguments -/
theorem wellFormed_wfArgs {t : Table} (h : WellFormed t) : WellFormedArgs {} t := by
  obtain ⟨o1, o2, o3, o4, o5⟩ := opt_count (wf_headerOk h)
  obtain ⟨r1, r2, r3, r4, r5⟩ := req_count (wf_headerOk h)
  refine ⟨h.nodup, h.rows, h.nonempty, h.required, ?_, ?_, ?_, ?_, ?_, ?_, h.label⟩
  · simpa [argOk] using o1
  · simpa [argOk] using o2
  · simpa [argOk] using o3
  · simpa [argOk] using o4
  · simpa [argOk] using o5
  · -- the identifier columns have pairwise different lower-cased names
    apply nodup_of_map_nodup (f := lowerName)
    have hsub : ((specSpectrumArgs {} t.header ++ [pickD t.header nLabel]).map lowerName).Sublist
        [nFilename, nScannr, nRetTime, nExpmass, nLabel] := by
      unfold specSpectrumArgs specOptional
      rw [pickD_toList r5, pickD_toList r4]
      simp only [Option.isSome_none, Bool.false_eq_true, if_false, List.map_append]
      have e : [nFilename, nScannr, nRetTime, nExpmass, nLabel]
          = [nFilename] ++ [nScannr] ++ [nRetTime] ++ [nExpmass] ++ [nLabel] := rfl
      rw [e]
      exact ((((pick_map_sublist _ _).append (pick_map_sublist _ _)).append (pick_map_sublist _ _)).append
        (pick_map_sublist _ _)).append (pick_map_sublist _ _)
    exact List.Nodup.sublist hsub (by decide)

/-- executable admissibility check = `WellFormedArgs` -/
theorem wellFormedArgsB_iff (args : PinArgs) (t : Table) : wellFormedArgsB args t = true ↔ WellFormedArgs args t := by
  unfold wellFormedArgsB
  simp only [Bool.and_eq_true, decide_eq_true_eq, List.all_eq_true, beq_iff_eq]
  constructor
  · rintro ⟨⟨⟨⟨⟨⟨⟨⟨⟨⟨h1, h2⟩, h3⟩, h4⟩, h5⟩, h6⟩, h7⟩, h8⟩, h9⟩, h10⟩, h11⟩
    exact ⟨h1, h2, h3, h4, h5, h6, h7, h8, h9, h10, h11⟩
  · rintro ⟨h1, h2, h3, h4, h5, h6, h7, h8, h9, h10, h11⟩
    exact ⟨⟨⟨⟨⟨⟨⟨⟨⟨⟨h1, h2⟩, h3⟩, h4⟩, h5⟩, h6⟩, h7⟩, h8⟩, h9⟩, h10⟩, h11⟩

/-! ### converse: successful look-ups make the call admissible -/

theorem findOptional_ok_argOk {q : Name} (hq : lowerName q = q) {hdr : List Name} {a o : Option Name}
    (h : findOptionalColumn a hdr q = .ok o) : argOk a hdr q = true := by
  cases a with
  | none =>
    have := findOptional_default_ok_count hq h
    simpa [argOk] using this
  | some c =>
    have := (findOptionalColumn_some_ok h).2
    simpa [argOk] using this

/-- if the look-ups succeed on a header with distinct names, the call is admissible -/
theorem lookupColumns_ok_argsOk {args : PinArgs} {hdr : List Name} {k : Classified} (hnd : hdr.Nodup)
    (h : lookupColumns args hdr = .ok k) : ArgsOk args hdr := by
  have hreq := lookupColumns_ok_required h
  obtain ⟨_, _, _, _, _, _, _, _, l9, l10, l11, l12, l13⟩ := lower_lit
  unfold lookupColumns at h
  obtain ⟨a1, h1, h⟩ := bind_ok h
  obtain ⟨a2, h2, h⟩ := bind_ok h
  obtain ⟨a3, h3, h⟩ := bind_ok h
  obtain ⟨a4, h4, h⟩ := bind_ok h
  obtain ⟨a5, h5, h⟩ := bind_ok h
  obtain ⟨o1, g1, h⟩ := bind_ok h
  obtain ⟨o2, g2, h⟩ := bind_ok h
  obtain ⟨o3, g3, h⟩ := bind_ok h
  obtain ⟨o4, g4, h⟩ := bind_ok h
  obtain ⟨o5, g5, h⟩ := bind_ok h
  exact ⟨hnd, hreq, findOptional_ok_argOk l9 g1, findOptional_ok_argOk l10 g2, findOptional_ok_argOk l11 g3,
    findOptional_ok_argOk l12 g4, findOptional_ok_argOk l13 g5⟩

/-- an argument naming a column that the file does not have (exact letter case) makes the look-ups fail -/
theorem lookupColumns_unknown_arg {args : PinArgs} {hdr : List Name}
    (h : (∃ c, args.filename = some c ∧ orDefault (some c) nFilename ∉ hdr) ∨
         (∃ c, args.calcmass = some c ∧ orDefault (some c) nCalcmass ∉ hdr) ∨
         (∃ c, args.expmass = some c ∧ orDefault (some c) nExpmass ∉ hdr) ∨
         (∃ c, args.rt = some c ∧ orDefault (some c) nRetTime ∉ hdr) ∨
         (∃ c, args.charge = some c ∧ orDefault (some c) nChargeColumn ∉ hdr)) :
    ∃ e, lookupColumns args hdr = .error e := by
  cases hk : lookupColumns args hdr with
  | error e => exact ⟨e, rfl⟩
  | ok k =>
    exfalso
    unfold lookupColumns at hk
    obtain ⟨a1, h1, hk⟩ := bind_ok hk
    obtain ⟨a2, h2, hk⟩ := bind_ok hk
    obtain ⟨a3, h3, hk⟩ := bind_ok hk
    obtain ⟨a4, h4, hk⟩ := bind_ok hk
    obtain ⟨a5, h5, hk⟩ := bind_ok hk
    obtain ⟨o1, g1, hk⟩ := bind_ok hk
    obtain ⟨o2, g2, hk⟩ := bind_ok hk
    obtain ⟨o3, g3, hk⟩ := bind_ok hk
    obtain ⟨o4, g4, hk⟩ := bind_ok hk
    obtain ⟨o5, g5, hk⟩ := bind_ok hk
    rcases h with ⟨c, hc, hn⟩ | ⟨c, hc, hn⟩ | ⟨c, hc, hn⟩ | ⟨c, hc, hn⟩ | ⟨c, hc, hn⟩
    · rw [hc] at g1; exact hn (findOptionalColumn_some_ok g1).2
    · rw [hc] at g2; exact hn (findOptionalColumn_some_ok g2).2
    · rw [hc] at g3; exact hn (findOptionalColumn_some_ok g3).2
    · rw [hc] at g4; exact hn (findOptionalColumn_some_ok g4).2
    · rw [hc] at g5; exact hn (findOptionalColumn_some_ok g5).2

end Mk.Pin
