import MokapotVerif.Lemmas.MergeSpec
/-! C14: what `get_chunked_data_iterator` / `merge_readers` / `read` hand on (frames of the
yielded rows; the unfinished frame is lost when `ValueError` propagates). -/
namespace Mk.Merge
variable {α : Type}

/-- invariant of the frame loop, for a pending frame `acc` shorter than `c` -/
theorem kmFramesGo_facts (c : Nat) (err : Bool) (xs : List α) :
    ∀ acc : List α, acc.length < c →
      (kmFramesGo c err acc xs).flatten <+: acc ++ xs ∧
      (err = false → (kmFramesGo c err acc xs).flatten = acc ++ xs) ∧
      (∀ f ∈ kmFramesGo c err acc xs, f ≠ [] ∧ f.length ≤ c ∧ (err = true → f.length = c)) ∧
      (err = true → (acc ++ xs).length < (kmFramesGo c err acc xs).flatten.length + c) := by
  induction xs with
  | nil =>
    intro acc hacc
    cases err
    · by_cases he : acc = []
      · subst he; simp [kmFramesGo]
      · have he' : acc.isEmpty = false := by simpa using he
        have hk : kmFramesGo c false acc ([] : List α) = [acc] := by simp [kmFramesGo, he']
        rw [hk]
        refine ⟨by simp, fun _ => by simp, ?_, fun h => by cases h⟩
        intro f hf
        have : f = acc := by simpa using hf
        subst this
        exact ⟨he, Nat.le_of_lt hacc, fun h => by cases h⟩
    · simp [kmFramesGo]; omega
  | cons x xs ih =>
    intro acc hacc
    have hc : 0 < c := by omega
    unfold kmFramesGo
    by_cases hfull : ((acc ++ [x]).length == c) = true
    · simp only [hfull, if_true]
      have hlen : (acc ++ [x]).length = c := by simpa using hfull
      obtain ⟨h1, h2, h3, h4⟩ := ih [] (by simpa using hc)
      simp only [List.nil_append] at h1 h2 h4
      refine ⟨?_, ?_, ?_, ?_⟩
      · simp only [List.flatten_cons]
        have : acc ++ x :: xs = (acc ++ [x]) ++ xs := by simp
        rw [this]
        exact (List.prefix_append_right_inj _).mpr h1
      · intro he
        simp only [List.flatten_cons, h2 he]; simp
      · intro f hf
        rcases List.mem_cons.mp hf with rfl | hf
        · refine ⟨by simp, Nat.le_of_eq hlen, fun _ => hlen⟩
        · exact h3 f hf
      · intro he
        have := h4 he
        simp only [List.flatten_cons, List.length_append, List.length_cons, List.length_nil] at this hlen ⊢
        omega
    · simp only [hfull, Bool.false_eq_true, if_false]
      have hlen : (acc ++ [x]).length ≠ c := by simpa using hfull
      have hlt : (acc ++ [x]).length < c := by
        simp only [List.length_append, List.length_cons, List.length_nil] at hlen ⊢; omega
      obtain ⟨h1, h2, h3, h4⟩ := ih (acc ++ [x]) hlt
      have e : acc ++ [x] ++ xs = acc ++ x :: xs := by simp
      rw [e] at h1 h2 h4
      exact ⟨h1, h2, h3, h4⟩

/-- with frames of one row (`merge_readers`) nothing is ever pending, so nothing is lost -/
theorem kmFramesGo_one (err : Bool) (xs : List α) :
    (kmFramesGo 1 err [] xs).flatten = xs := by
  induction xs with
  | nil => cases err <;> simp [kmFramesGo]
  | cons x xs ih => simp [kmFramesGo, ih]

theorem nonIncr_of_prefix {le : α → α → Bool} {xs ys : List α} (h : xs <+: ys)
    (hy : NonIncr le ys) : NonIncr le xs :=
  List.Pairwise.sublist h.sublist hy

theorem sortedAs_of_prefix {le : α → α → Bool} {desc : Bool} {xs ys : List α} (h : xs <+: ys)
    (hy : SortedAs le desc ys) : SortedAs le desc xs := by
  cases desc
  · simp only [SortedAs, Bool.false_eq_true, if_false] at hy ⊢; exact nonIncr_of_prefix h hy
  · simp only [SortedAs, if_true] at hy ⊢; exact nonIncr_of_prefix h hy

end Mk.Merge
