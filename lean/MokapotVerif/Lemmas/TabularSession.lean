import MokapotVerif.Lemmas.TabularJoined
/-!
# Lemmas on writer objects in use (C13 extension): one call at a time, context
managers, `auto_finalize`, one-shot `write`, the separator option
-/
namespace Mk.Tabular
variable {α β γ σ : Type}

/-! ## `optAll` over a comprehension, position by position -/

theorem optAll_map_getElem? (f : α → Option γ) :
    ∀ (l : List α) (l' : List γ), optAll (l.map f) = some l' →
      l'.length = l.length ∧ ∀ (j : Nat) a, l[j]? = some a → ∃ b, f a = some b ∧ l'[j]? = some b := by
  intro l
  induction l with
  | nil =>
    intro l' h
    simp only [List.map_nil, optAll, Option.some.injEq] at h
    subst h
    exact ⟨rfl, fun j a hj => by simp at hj⟩
  | cons x xs ih =>
    intro l' h
    obtain ⟨b, bs, hb, hbs, rfl⟩ := optAll_cons_some (by simpa using h)
    obtain ⟨hl, hget⟩ := ih bs hbs
    refine ⟨by simp [hl], ?_⟩
    intro j a hj
    cases j with
    | zero =>
      simp only [List.getElem?_cons_zero, Option.some.injEq] at hj
      subst hj
      exact ⟨b, hb, by simp⟩
    | succ j =>
      simp only [List.getElem?_cons_succ] at hj ⊢
      exact hget j a hj

theorem optAll_map_isSome (f : α → Option γ) :
    ∀ (l : List α), (∀ a ∈ l, (f a).isSome = true) → (optAll (l.map f)).isSome = true := by
  intro l
  induction l with
  | nil => intro _; rfl
  | cons x xs ih =>
    intro h
    have hx := h x (by simp)
    have hxs := ih (fun a ha => h a (List.mem_cons_of_mem _ ha))
    obtain ⟨b, hb⟩ := Option.isSome_iff_exists.mp hx
    obtain ⟨bs, hbs⟩ := Option.isSome_iff_exists.mp hxs
    simp [optAll, hb, hbs]

/-! ## the writer `from_suffix` returns, call by call = `runFromSuffix` -/

theorem foldOpt_plainAppend (w : Writer σ β) (b : Option (WFrame β)) :
    ∀ (args : List (Arg β)) (s : σ),
      foldOpt (plainAppend w) (b, s) args
        = (optAll (args.map argFrame)).bind (fun fs => (foldOpt w.append s fs).map (fun s' => (b, s'))) := by
  intro args
  induction args with
  | nil => intro s; simp [foldOpt, optAll]
  | cons a as ih =>
    intro s
    simp only [foldOpt, plainAppend, List.map_cons, optAll]
    cases ha : argFrame a with
    | none => simp
    | some f =>
      simp only [Option.bind_some]
      cases hw : w.append s f with
      | none =>
        simp only [Option.map_none, Option.bind_none]
        cases optAll (as.map argFrame) with
        | none => rfl
        | some fs => simp [foldOpt, hw]
      | some s1 =>
        simp only [Option.map_some, Option.bind_some]
        rw [ih s1]
        cases optAll (as.map argFrame) with
        | none => rfl
        | some fs => simp [foldOpt, hw]

theorem fsAppend_buffered (w : Writer σ β) (k : Kind) (size : Nat) (h : 1 < size) :
    fsAppend w k size = bufAppend w k size := by
  funext st a; simp [fsAppend, h]

theorem fsAppend_plain (w : Writer σ β) (k : Kind) (size : Nat) (h : ¬ 1 < size) :
    fsAppend w k size = plainAppend w := by
  funext st a; simp [fsAppend, h]

theorem fsFinalize_buffered (w : Writer σ β) (k : Kind) (size : Nat) (h : 1 < size) :
    fsFinalize w k size = bufFinalize w k size := by
  funext st; simp [fsFinalize, h]

theorem fsFinalize_plain (w : Writer σ β) (k : Kind) (size : Nat) (h : ¬ 1 < size) :
    fsFinalize w k size = fun st => (w.fin st.2).map (fun s => (st.1, s)) := by
  funext st; simp [fsFinalize, h]

/-- using the writer object call by call (`initialize`, `append_data`…,
`finalize`; or `with writer:`) is `runFromSuffix` -/
theorem runSess_fromSuffix (w : Writer σ β) (k : Kind) (size : Nat) (s0 : σ) (args : List (Arg β)) :
    (runSess (fromSuffixSess w k size) (none, s0) args).map (fun p => p.2) = runFromSuffix w k size s0 args := by
  unfold runSess fromSuffixSess runFromSuffix
  by_cases hs : 1 < size
  · simp only [hs, if_true, fsInit, fsAppend_buffered w k size hs, fsFinalize_buffered w k size hs, runBuffered]
    cases w.init s0 with
    | none => rfl
    | some s =>
      simp only [Option.map_some, Option.bind_some]
      cases foldOpt (bufAppend w k size) (none, s) args with
      | none => rfl
      | some st => simp
  · simp only [hs, if_false, fsInit, fsAppend_plain w k size hs, fsFinalize_plain w k size hs, runWriter]
    cases hi : w.init s0 with
    | none =>
      simp only [Option.map_none, Option.bind_none]
      cases optAll (args.map argFrame) <;> rfl
    | some s =>
      simp only [Option.map_some, Option.bind_some]
      rw [foldOpt_plainAppend w none args s]
      cases optAll (args.map argFrame) with
      | none => rfl
      | some fs =>
        simp only [Option.bind_some]
        cases foldOpt w.append s fs with
        | none => rfl
        | some s1 =>
          simp only [Option.map_some, Option.bind_some]
          cases w.fin s1 <;> rfl

/-! ## several writers, appends interleaved -/

theorem argsFor_cons_self (j : Nat) (a : Arg β) (prog : List (Nat × Arg β)) :
    argsFor j ((j, a) :: prog) = a :: argsFor j prog := by
  simp [argsFor]

theorem argsFor_cons_ne (i j : Nat) (a : Arg β) (prog : List (Nat × Arg β)) (h : i ≠ j) :
    argsFor j ((i, a) :: prog) = argsFor j prog := by
  have : (i == j) = false := by simpa using h
  simp [argsFor, this]

theorem stepAt_eq_some {ws ws' : List (Sess σ β × σ)} {i : Nat} {a : Arg β} (h : stepAt ws (i, a) = some ws') :
    ∃ q t, ws[i]? = some q ∧ q.1.app q.2 a = some t ∧ ws' = ws.set i (q.1, t) := by
  unfold stepAt at h
  cases hq : ws[i]? with
  | none => simp [hq] at h
  | some q =>
    simp only [hq, Option.bind_some] at h
    cases ht : q.1.app q.2 a with
    | none => simp [ht] at h
    | some t =>
      simp only [ht, Option.map_some, Option.some.injEq] at h
      exact ⟨q, t, rfl, ht, h.symm⟩

/-- the body of the `with` block, seen from writer number `j`: it received its
own appends, in order, and nothing else -/
theorem stepAt_fold_get :
    ∀ (prog : List (Nat × Arg β)) (st st' : List (Sess σ β × σ)), foldOpt stepAt st prog = some st' →
      st'.length = st.length
        ∧ ∀ j p, st[j]? = some p →
            ∃ t, foldOpt p.1.app p.2 (argsFor j prog) = some t ∧ st'[j]? = some (p.1, t) := by
  intro prog
  induction prog with
  | nil =>
    intro st st' h
    simp only [foldOpt, Option.some.injEq] at h
    subst h
    exact ⟨rfl, fun j p hp => ⟨p.2, by simp [argsFor, foldOpt], by simpa using hp⟩⟩
  | cons ia rest ih =>
    intro st st' h
    obtain ⟨i, a⟩ := ia
    simp only [foldOpt] at h
    cases h1 : stepAt st (i, a) with
    | none => simp [h1] at h
    | some s1 =>
      simp only [h1, Option.bind_some] at h
      obtain ⟨q, t0, hq, ht0, rfl⟩ := stepAt_eq_some h1
      obtain ⟨hlen, hget⟩ := ih _ st' h
      refine ⟨by simpa using hlen, ?_⟩
      intro j p hp
      have hi : i < st.length := by
        rcases List.getElem?_eq_some_iff.mp hq with ⟨hlt, _⟩
        exact hlt
      by_cases hji : i = j
      · subst hji
        have hpq : p = q := by rw [hq] at hp; exact (Option.some.inj hp).symm
        subst hpq
        have hset : (st.set i (p.1, t0))[i]? = some (p.1, t0) := by
          simp [List.getElem?_set_self hi]
        obtain ⟨t, h1', h2'⟩ := hget i (p.1, t0) hset
        refine ⟨t, ?_, h2'⟩
        rw [argsFor_cons_self]
        simp only [foldOpt, ht0, Option.bind_some]
        exact h1'
      · have hset : (st.set i (q.1, t0))[j]? = some p := by
          rw [List.getElem?_set_ne hji]; exact hp
        obtain ⟨t, h1', h2'⟩ := hget j p hset
        exact ⟨t, by rw [argsFor_cons_ne i j a rest hji]; exact h1', h2'⟩

/-- … and the body succeeds as soon as every writer would accept its own appends -/
theorem stepAt_fold_isSome :
    ∀ (prog : List (Nat × Arg β)) (st : List (Sess σ β × σ)), (∀ q ∈ prog, q.1 < st.length) →
      (∀ j p, st[j]? = some p → (foldOpt p.1.app p.2 (argsFor j prog)).isSome = true) →
      (foldOpt stepAt st prog).isSome = true := by
  intro prog
  induction prog with
  | nil => intro st _ _; rfl
  | cons ia rest ih =>
    intro st hidx hsolo
    obtain ⟨i, a⟩ := ia
    have hi : i < st.length := hidx (i, a) (by simp)
    have hq : st[i]? = some st[i] := List.getElem?_eq_getElem hi
    have h0 := hsolo i st[i] hq
    rw [argsFor_cons_self] at h0
    simp only [foldOpt] at h0
    cases ht0 : (st[i]).1.app (st[i]).2 a with
    | none => simp [ht0] at h0
    | some t0 =>
      simp only [ht0, Option.bind_some] at h0
      have hstep : stepAt st (i, a) = some (st.set i ((st[i]).1, t0)) := by
        simp [stepAt, hq, ht0]
      simp only [foldOpt, hstep, Option.bind_some]
      apply ih
      · intro q hq'
        simpa using hidx q (List.mem_cons_of_mem _ hq')
      · intro j p hp
        by_cases hji : i = j
        · subst hji
          rw [List.getElem?_set_self hi] at hp
          cases hp
          exact h0
        · rw [List.getElem?_set_ne hji] at hp
          have := hsolo j p hp
          rwa [argsFor_cons_ne i j a rest hji] at this

/-- **`auto_finalize`, one direction**: when the block completes, every writer is
in the state it would be in had it been used alone with its own appends -/
theorem runAuto_solo (ws : List (Sess σ β × σ)) (prog : List (Nat × Arg β)) (out : List σ)
    (h : runAuto ws prog = some out) :
    out.length = ws.length
      ∧ ∀ j p, ws[j]? = some p → ∃ t, runSess p.1 p.2 (argsFor j prog) = some t ∧ out[j]? = some t := by
  unfold runAuto at h
  cases h0 : enterAll ws with
  | none => simp [h0] at h
  | some st0 =>
    simp only [h0, Option.bind_some] at h
    cases h1 : foldOpt stepAt st0 prog with
    | none => simp [h1] at h
    | some st1 =>
      simp only [h1, Option.bind_some] at h
      cases h2 : exitAll st1 with
      | none => simp [h2] at h
      | some st2 =>
        simp only [h2, Option.map_some, Option.some.injEq] at h
        subst h
        obtain ⟨l0, g0⟩ := optAll_map_getElem? _ ws st0 h0
        obtain ⟨l1, g1⟩ := stepAt_fold_get prog st0 st1 h1
        obtain ⟨l2, g2⟩ := optAll_map_getElem? _ st1 st2 h2
        refine ⟨by simp [l0, l1, l2], ?_⟩
        intro j p hp
        obtain ⟨b0, hb0, hs0⟩ := g0 j p hp
        cases he : p.1.enter p.2 with
        | none => simp [he] at hb0
        | some t0 =>
          simp only [he, Option.map_some, Option.some.injEq] at hb0
          subst hb0
          obtain ⟨t1, hf, hs1⟩ := g1 j (p.1, t0) hs0
          obtain ⟨b2, hb2, hs2⟩ := g2 j (p.1, t1) hs1
          cases hx : p.1.exit t1 with
          | none => simp [hx] at hb2
          | some t2 =>
            simp only [hx, Option.map_some, Option.some.injEq] at hb2
            subst hb2
            refine ⟨t2, ?_, by simp [List.getElem?_map, hs2]⟩
            simp only [runSess, he, Option.bind_some] at hf ⊢
            simp [hf, hx]

/-- **`auto_finalize`, other direction**: the block completes whenever every
writer, used alone with its own appends, would -/
theorem runAuto_isSome (ws : List (Sess σ β × σ)) (prog : List (Nat × Arg β))
    (hidx : ∀ q ∈ prog, q.1 < ws.length)
    (hsolo : ∀ j p, ws[j]? = some p → (runSess p.1 p.2 (argsFor j prog)).isSome = true) :
    (runAuto ws prog).isSome = true := by
  -- what a solo run succeeding means, stage by stage
  have stages : ∀ j p, ws[j]? = some p →
      ∃ t0 t1 t2, p.1.enter p.2 = some t0 ∧ foldOpt p.1.app t0 (argsFor j prog) = some t1 ∧ p.1.exit t1 = some t2 := by
    intro j p hp
    have := hsolo j p hp
    unfold runSess at this
    cases he : p.1.enter p.2 with
    | none => simp [he] at this
    | some t0 =>
      simp only [he, Option.bind_some] at this
      cases hf : foldOpt p.1.app t0 (argsFor j prog) with
      | none => simp [hf] at this
      | some t1 =>
        simp only [hf, Option.bind_some] at this
        obtain ⟨t2, ht2⟩ := Option.isSome_iff_exists.mp this
        exact ⟨t0, t1, t2, rfl, hf, ht2⟩
  have hen : (enterAll ws).isSome = true := by
    unfold enterAll
    apply optAll_map_isSome
    intro p hp
    obtain ⟨j, hj⟩ := List.getElem?_of_mem hp
    obtain ⟨t0, _, _, he, _, _⟩ := stages j p hj
    simp [he]
  obtain ⟨st0, h0⟩ := Option.isSome_iff_exists.mp hen
  obtain ⟨l0, g0⟩ := optAll_map_getElem? _ ws st0 h0
  -- every entered writer corresponds to a writer of `ws`
  have back0 : ∀ (j : Nat) (q : Sess σ β × σ), st0[j]? = some q → ∃ (p : Sess σ β × σ) (t0 : σ), ws[j]? = some p ∧ p.1.enter p.2 = some t0 ∧ q = (p.1, t0) := by
    intro j q hq
    have hj : j < ws.length := by
      rw [← l0]; exact (List.getElem?_eq_some_iff.mp hq).1
    obtain ⟨b, hb, hs⟩ := g0 j ws[j] (List.getElem?_eq_getElem hj)
    cases he : (ws[j]).1.enter (ws[j]).2 with
    | none => simp [he] at hb
    | some t0 =>
      simp only [he, Option.map_some, Option.some.injEq] at hb
      rw [hq] at hs
      exact ⟨ws[j], t0, List.getElem?_eq_getElem hj, he, by rw [Option.some.inj hs, ← hb]⟩
  have hbody : (foldOpt stepAt st0 prog).isSome = true := by
    apply stepAt_fold_isSome
    · intro q hq; rw [l0]; exact hidx q hq
    · intro j q hq
      obtain ⟨p, t0, hp, he, rfl⟩ := back0 j q hq
      obtain ⟨t0', t1, _, he', hf, _⟩ := stages j p hp
      rw [he] at he'
      cases he'
      simp [hf]
  obtain ⟨st1, h1⟩ := Option.isSome_iff_exists.mp hbody
  obtain ⟨l1, g1⟩ := stepAt_fold_get prog st0 st1 h1
  have hex : (exitAll st1).isSome = true := by
    unfold exitAll
    apply optAll_map_isSome
    intro q hq
    obtain ⟨j, hj⟩ := List.getElem?_of_mem hq
    have hj0 : j < st0.length := by
      rw [← l1]; exact (List.getElem?_eq_some_iff.mp hj).1
    obtain ⟨p, t0, hp, he, hq0⟩ := back0 j st0[j] (List.getElem?_eq_getElem hj0)
    obtain ⟨t1, hf, hs1⟩ := g1 j st0[j] (List.getElem?_eq_getElem hj0)
    obtain ⟨t0', t1', t2, he', hf', hx⟩ := stages j p hp
    rw [he] at he'
    cases he'
    rw [hq0] at hf hs1
    simp only at hf hs1
    rw [hf'] at hf
    cases hf
    rw [hj] at hs1
    cases hs1
    simp [hx]
  obtain ⟨st2, h2⟩ := Option.isSome_iff_exists.mp hex
  simp [runAuto, h0, h1, h2]

/-! ## the text writer with a separator -/

theorem csvSep_fold (cols : List Name) (sep : String) (frames : List (WFrame β))
    (h : ∀ f ∈ frames, f.names = cols) (file : CsvFile β) :
    foldOpt (csvWriterSep cols sep).append (some ⟨sep, file⟩) frames
      = some (some ⟨sep, ⟨file.header, file.lines ++ frames.flatMap (fun f => f.rows.map rowVals)⟩⟩) := by
  induction frames generalizing file with
  | nil => simp [foldOpt]
  | cons f fs ih =>
    have hf := h f (by simp)
    simp only [foldOpt, csvWriterSep, hf, if_true, Option.elim_some, Option.bind_some]
    have := ih (fun g hg => h g (List.mem_cons_of_mem _ hg))
      ⟨file.header, file.lines ++ f.rows.map rowVals⟩
    simp only [csvWriterSep] at this
    rw [this]
    simp [List.flatMap_cons, List.append_assoc]

/-- whatever the file held (any separator, any lines), the run leaves header and
appended lines, written with the writer's separator -/
theorem csvSep_run (cols : List Name) (sep : String) (old : Option (SepFile β)) (frames : List (WFrame β))
    (h : ∀ f ∈ frames, f.names = cols) :
    runWriter (csvWriterSep cols sep) old frames
      = some (some ⟨sep, ⟨cols, frames.flatMap (fun f => f.rows.map rowVals)⟩⟩) := by
  have := csvSep_fold cols sep frames h ⟨cols, []⟩
  simp only [runWriter]
  show ((csvWriterSep cols sep).init old).bind _ = _
  simp only [csvWriterSep, Option.bind_some] at this ⊢
  rw [this]
  simp

/-! ## one-shot `write` -/

theorem csvWrite1_eq (cols : List Name) (old : Option (CsvFile β)) (f : WFrame β) (hn : f.names = cols) :
    csvWrite1 cols old f = some (some ⟨cols, f.rows.map rowVals⟩) := by
  simp only [csvWrite1, baseWrite, hn, if_true]
  rw [csv_run cols old [f] (by simp [hn])]
  simp

theorem writeFromSuffix_eq (inner : σ → WFrame β → Option σ) (size : Nat) (s0 : σ) (f : WFrame β) :
    writeFromSuffix inner size s0 f = inner s0 f := by
  unfold writeFromSuffix bufWrite1
  by_cases hs : 1 < size
  · simp only [hs, if_true]
    cases inner s0 f <;> rfl
  · simp [hs]

end Mk.Tabular
