import MokapotVerif.Model.Grouping
import Mathlib.Data.List.Nodup
import Mathlib.Data.List.Perm.Subperm
/-! Helper lemmas for C16: the set / dict primitives of `Model/Grouping.lean`. -/
set_option linter.unusedSectionVars false
namespace Mk.Grouping
variable {α β γ : Type} [DecidableEq α] [DecidableEq β] [DecidableEq γ]

/-! ### `set.add`, `set(...)` -/

theorem mem_setAdd (s : List γ) (x y : γ) : y ∈ setAdd s x ↔ y ∈ s ∨ y = x := by
  unfold setAdd
  split <;> rename_i h
  · constructor
    · intro hy; exact Or.inl hy
    · rintro (hy | rfl)
      · exact hy
      · exact h
  · simp

theorem nodup_setAdd (s : List γ) (x : γ) (h : s.Nodup) : (setAdd s x).Nodup := by
  unfold setAdd
  split <;> rename_i hx
  · exact h
  · rw [List.nodup_append]
    refine ⟨h, List.nodup_singleton x, ?_⟩
    intro a ha b hb
    simp at hb
    subst hb
    intro hab
    subst hab
    exact hx ha

theorem mem_foldl_setAdd (l : List γ) : ∀ (acc : List γ) (y : γ),
    y ∈ l.foldl setAdd acc ↔ y ∈ acc ∨ y ∈ l := by
  induction l with
  | nil => intro acc y; simp
  | cons a l ih =>
    intro acc y
    simp only [List.foldl_cons, ih, mem_setAdd, List.mem_cons]
    constructor
    · rintro ((h | h) | h)
      · exact Or.inl h
      · exact Or.inr (Or.inl h)
      · exact Or.inr (Or.inr h)
    · rintro (h | h | h)
      · exact Or.inl (Or.inl h)
      · exact Or.inl (Or.inr h)
      · exact Or.inr h

theorem nodup_foldl_setAdd (l : List γ) : ∀ (acc : List γ), acc.Nodup → (l.foldl setAdd acc).Nodup := by
  induction l with
  | nil => intro acc h; simpa using h
  | cons a l ih =>
    intro acc h
    simp only [List.foldl_cons]
    exact ih _ (nodup_setAdd _ _ h)

theorem mem_toSet (l : List γ) (y : γ) : y ∈ toSet l ↔ y ∈ l := by
  unfold toSet
  rw [mem_foldl_setAdd]
  simp

theorem nodup_toSet (l : List γ) : (toSet l).Nodup := nodup_foldl_setAdd l [] List.nodup_nil

/-! ### dict lookups -/

theorem pmGet_of_mem (pm : List (PepEntry α β)) (h : (pm.map (·.1)).Nodup) (p : β) (ks : List (GKey α))
    (hm : (p, ks) ∈ pm) : pmGet pm p = ks := by
  induction pm with
  | nil => simp at hm
  | cons e rest ih =>
    simp only [List.map_cons, List.nodup_cons] at h
    unfold pmGet
    rcases List.mem_cons.mp hm with rfl | hm'
    · simp
    · have : e.1 ≠ p := by
        intro he
        apply h.1
        rw [he]
        exact List.mem_map.mpr ⟨(p, ks), hm', rfl⟩
      simp only [this, if_false]
      exact ih h.2 hm'

theorem gGet_of_mem (g : List (Group α β)) (h : (g.map (·.1)).Nodup) (m : GKey α) (S : List β)
    (hm : (m, S) ∈ g) : gGet g m = S := by
  induction g with
  | nil => simp at hm
  | cons e rest ih =>
    simp only [List.map_cons, List.nodup_cons] at h
    unfold gGet
    rcases List.mem_cons.mp hm with rfl | hm'
    · simp
    · have : e.1 ≠ m := by
        intro he
        apply h.1
        rw [he]
        exact List.mem_map.mpr ⟨(m, S), hm', rfl⟩
      simp only [this, if_false]
      exact ih h.2 hm'

theorem exists_mem_of_mem_map_fst {κ ν : Type} (l : List (κ × ν)) (k : κ) (h : k ∈ l.map (·.1)) :
    ∃ v, (k, v) ∈ l := by
  obtain ⟨e, he, rfl⟩ := List.mem_map.mp h
  exact ⟨e.2, he⟩

/-- in an association list with distinct keys, a key determines its value -/
theorem val_unique {κ ν : Type} (l : List (κ × ν)) (h : (l.map (·.1)).Nodup) (k : κ) (v w : ν)
    (hv : (k, v) ∈ l) (hw : (k, w) ∈ l) : v = w := by
  have := List.inj_on_of_nodup_map h hv hw rfl
  exact (Prod.mk.inj this).2

/-! ### `set.intersection` -/

theorem mem_interAll (L : List (List γ)) (hL : L ≠ []) (k : γ) :
    k ∈ interAll L ↔ ∀ t ∈ L, k ∈ t := by
  cases L with
  | nil => exact absurd rfl hL
  | cons s rest =>
    simp [interAll, List.mem_filter, List.all_eq_true]

theorem nodup_interAll (L : List (List γ)) (h : ∀ t ∈ L, t.Nodup) : (interAll L).Nodup := by
  cases L with
  | nil => simp [interAll]
  | cons s rest =>
    simp only [interAll]
    exact (h s (by simp)).filter _

/-! ### the `proteins` dict and the two sorts -/

theorem dictSet_new (d : List (Prot α β)) (k : α) (v : List β) (h : k ∉ d.map (·.1)) :
    dictSet d k v = d ++ [(k, v)] := by
  unfold dictSet
  have : d.any (fun e => decide (e.1 = k)) = false := by
    rw [List.any_eq_false]
    intro e he
    simp only [decide_eq_true_eq]
    intro hk
    exact h (List.mem_map.mpr ⟨e, he, hk⟩)
  simp [this]

theorem foldl_dictSet_nodup (l : List (Prot α β)) : ∀ (acc : List (Prot α β)),
    ((acc ++ l).map (·.1)).Nodup → l.foldl (fun d e => dictSet d e.1 e.2) acc = acc ++ l := by
  induction l with
  | nil => intro acc _; simp
  | cons e l ih =>
    intro acc h
    simp only [List.foldl_cons]
    have hk : e.1 ∉ acc.map (·.1) := by
      intro hk
      rw [List.map_append, List.nodup_append] at h
      exact h.2.2 _ hk _ (by simp) rfl
    rw [dictSet_new _ _ _ hk, ih]
    · simp
    · simpa using h

/-- with distinct names the `proteins` dict is the list of entries that have peptides -/
theorem buildProteins_of_nodup (entries : List (Prot α β))
    (h : ((entries.filter (fun e => !e.2.isEmpty)).map (·.1)).Nodup) :
    buildProteins entries = entries.filter (fun e => !e.2.isEmpty) := by
  unfold buildProteins
  rw [foldl_dictSet_nodup _ [] (by simpa using h)]
  simp

theorem sortProteins_perm (P : List (Prot α β)) : (sortProteins P).Perm P :=
  (List.mergeSort_perm _ _).trans (List.mergeSort_perm _ _)

theorem sortProteins_sorted (P : List (Prot α β)) :
    (sortProteins P).Pairwise (fun a b => b.2.length ≤ a.2.length) := by
  unfold sortProteins
  have := List.pairwise_mergeSort (le := fun (a b : Prot α β) => decide (b.2.length ≤ a.2.length))
    (fun a b c hab hbc => by
      simp only [decide_eq_true_eq] at *
      omega)
    (fun a b => by
      simp only [Bool.or_eq_true, decide_eq_true_eq]
      omega)
    (P.mergeSort (fun a b => decide (a.2.length ≤ b.2.length)))
  exact this.imp (fun h => by simpa using h)

/-! ### set inclusion with cardinalities -/

/-- a duplicate-free list that is included in a list which is not longer has the same elements -/
theorem subset_of_subset_of_length_le (A B : List β) (hA : A.Nodup) (hAB : A ⊆ B)
    (hlen : B.length ≤ A.length) : B ⊆ A := by
  have hsp : A.Subperm B := List.subperm_of_subset hA hAB
  exact (hsp.perm_of_length_le hlen).symm.subset

theorem subsetB_iff (A B : List β) : subsetB A B = true ↔ A ⊆ B := by
  unfold subsetB
  rw [List.all_eq_true]
  constructor
  · intro h a ha
    simpa using h a ha
  · intro h a ha
    simpa using h ha

end Mk.Grouping
