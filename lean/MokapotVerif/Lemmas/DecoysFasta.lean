import MokapotVerif.Lemmas.Decoys
/-! Helper lemmas for C18 (FASTA text): re-reading what `make_decoys` writes. -/
namespace Mk.Decoys
variable {α β : Type}

/-! ### chunks (`textwrap.wrap`) -/

theorem chunksAux_flatten (w : Nat) (hw : 1 ≤ w) (fuel : Nat) (l : List α) (h : l.length ≤ fuel) :
    (chunksAux w fuel l).flatten = l := by
  induction fuel generalizing l with
  | zero =>
    have : l = [] := List.eq_nil_of_length_eq_zero (by omega)
    subst this; rfl
  | succ n ih =>
    unfold chunksAux
    cases l with
    | nil => simp
    | cons x t =>
      simp only [List.isEmpty_cons, Bool.false_eq_true, if_false, List.flatten_cons]
      rw [ih _ (by simp at h ⊢; omega), List.take_append_drop]

theorem chunksAux_mem (w : Nat) (hw : 1 ≤ w) (fuel : Nat) (l : List α) :
    ∀ c ∈ chunksAux w fuel l, c ≠ [] ∧ ∀ x ∈ c, x ∈ l := by
  induction fuel generalizing l with
  | zero => intro c hc; simp [chunksAux] at hc
  | succ n ih =>
    intro c hc
    unfold chunksAux at hc
    cases l with
    | nil => simp at hc
    | cons x t =>
      simp only [List.isEmpty_cons, Bool.false_eq_true, if_false] at hc
      rcases List.mem_cons.mp hc with rfl | hc
      · refine ⟨?_, fun y hy => List.mem_of_mem_take hy⟩
        intro h0
        have := congrArg List.length h0
        simp at this; omega
      · obtain ⟨h1, h2⟩ := ih _ c hc
        exact ⟨h1, fun y hy => List.mem_of_mem_drop (h2 y hy)⟩

theorem chunks_flatten (w : Nat) (hw : 1 ≤ w) (l : List α) : (chunks w l).flatten = l :=
  chunksAux_flatten w hw _ l (Nat.le_refl _)

theorem chunks_mem (w : Nat) (hw : 1 ≤ w) (l : List α) :
    ∀ c ∈ chunks w l, c ≠ [] ∧ ∀ x ∈ c, x ∈ l := chunksAux_mem w hw _ l

theorem chunks_nil (w : Nat) : chunks w ([] : List α) = [] := rfl

/-! ### universal newlines -/

theorem univNL_id (l : List Char) (h : '\r' ∉ l) : univNL l = l := by
  induction l with
  | nil => rfl
  | cons c t ih =>
    have hc : c ≠ '\r' := fun h0 => h (by simp [h0])
    have ht : '\r' ∉ t := fun h0 => h (by simp [h0])
    cases t with
    | nil => simp [univNL, hc]
    | cons d u =>
      simp only [univNL, hc, false_and, if_false]
      rw [ih ht]

/-! ### `split("\n>")` -/

def prependHead (b : List Char) : List (List Char) → List (List Char)
  | [] => [b]
  | l :: ls => (b ++ l) :: ls

theorem splitRecords_cons_cons (c d : Char) (rest : List Char) :
    splitRecords (c :: d :: rest)
      = if c = '\n' ∧ d = '>' then [] :: splitRecords rest else consHead c (splitRecords (d :: rest)) := by
  rw [splitRecords]

theorem splitRecords_ne_nil (l : List Char) : splitRecords l ≠ [] := by
  induction l using splitRecords.induct with
  | case1 => simp [splitRecords]
  | case2 c => simp [splitRecords]
  | case3 c d rest h ih => simp [splitRecords, h]
  | case4 c d rest h ih =>
    simp only [splitRecords, h, if_false]
    cases hh : splitRecords (d :: rest) with
    | nil => exact absurd hh ih
    | cons _ _ => simp [consHead]

/-- a prefix without `\n` cannot contain or start a separator -/
theorem splitRecords_prefix (n Y : List Char) (hn : '\n' ∉ n) :
    splitRecords (n ++ Y) = prependHead n (splitRecords Y) := by
  induction n with
  | nil =>
    cases h : splitRecords Y with
    | nil => exact absurd h (splitRecords_ne_nil Y)
    | cons _ _ => simp [prependHead, h]
  | cons c t ih =>
    have hc : c ≠ '\n' := fun h0 => hn (by simp [h0])
    have ht : '\n' ∉ t := fun h0 => hn (by simp [h0])
    have iht := ih ht
    cases hty : t ++ Y with
    | nil =>
      have h1 : t = [] := (List.append_eq_nil_iff.mp hty).1
      have h2 : Y = [] := (List.append_eq_nil_iff.mp hty).2
      subst h1 h2
      simp [splitRecords, prependHead]
    | cons d u =>
      rw [List.cons_append, hty, splitRecords_cons_cons]
      simp only [hc, false_and, if_false]
      rw [← hty, iht]
      cases h : splitRecords Y with
      | nil => exact absurd h (splitRecords_ne_nil Y)
      | cons _ _ => simp [prependHead, consHead]

/-- a stretch without `>` followed by the separator ends the record there -/
theorem splitRecords_sep (t rest : List Char) (ht : '>' ∉ t) :
    splitRecords (t ++ '\n' :: '>' :: rest) = t :: splitRecords rest := by
  induction t with
  | nil => simp [splitRecords]
  | cons c u ih =>
    have hu : '>' ∉ u := fun h0 => ht (by simp [h0])
    cases u with
    | nil =>
      simp only [List.cons_append, List.nil_append]
      rw [splitRecords_cons_cons]
      rw [if_neg (by intro h; exact absurd h.2 (by decide))]
      have := ih hu
      simp only [List.nil_append] at this
      rw [this]; rfl
    | cons d v =>
      have hd : d ≠ '>' := fun h0 => ht (by simp [h0])
      simp only [List.cons_append]
      rw [splitRecords_cons_cons]
      rw [if_neg (by intro h; exact hd h.2)]
      have := ih hu
      simp only [List.cons_append] at this
      rw [this]; rfl

theorem splitRecords_last (t : List Char) (ht : '>' ∉ t) : splitRecords t = [t] := by
  induction t with
  | nil => rfl
  | cons c u ih =>
    have hu : '>' ∉ u := fun h0 => ht (by simp [h0])
    cases u with
    | nil => rfl
    | cons d v =>
      have hd : d ≠ '>' := fun h0 => ht (by simp [h0])
      rw [splitRecords_cons_cons]
      rw [if_neg (by intro h; exact hd h.2), ih hu]; rfl

/-- record bodies: `(n, t)` with no `\n` in `n` and no `>` in `t` -/
theorem splitRecords_join (bs : List (List Char × List Char))
    (h : ∀ b ∈ bs, '\n' ∉ b.1 ∧ '>' ∉ b.2) (hne : bs ≠ []) :
    splitRecords (joinWith ['\n', '>'] (bs.map (fun b => b.1 ++ b.2))) = bs.map (fun b => b.1 ++ b.2) := by
  induction bs with
  | nil => exact absurd rfl hne
  | cons b rest ih =>
    obtain ⟨hb1, hb2⟩ := h b (by simp)
    cases rest with
    | nil =>
      simp only [List.map_cons, List.map_nil, joinWith]
      rw [splitRecords_prefix _ _ hb1, splitRecords_last _ hb2]; rfl
    | cons b2 rest2 =>
      have ih' := ih (fun x hx => h x (by simp [hx])) (by simp)
      simp only [List.map_cons, joinWith] at ih' ⊢
      rw [List.append_assoc, List.append_assoc, splitRecords_prefix _ _ hb1]
      simp only [List.cons_append, List.nil_append]
      rw [splitRecords_sep _ _ hb2, ih']; rfl

/-! ### `splitlines` -/

def BreakFree (l : List Char) : Prop := ∀ c ∈ l, isBreak c = false

theorem splitLines_line (n Z : List Char) (hn : BreakFree n) :
    splitLines (n ++ '\n' :: Z) = n :: splitLines Z := by
  induction n with
  | nil => simp [splitLines, isBreak]
  | cons c t ih =>
    have hc : isBreak c = false := hn c (by simp)
    have ht : BreakFree t := fun x hx => hn x (by simp [hx])
    simp only [List.cons_append, splitLines, hc, Bool.false_eq_true, if_false]
    rw [ih ht]; rfl

theorem splitLines_single (x : List Char) (hx : BreakFree x) (hne : x ≠ []) : splitLines x = [x] := by
  induction x with
  | nil => exact absurd rfl hne
  | cons c t ih =>
    have hc : isBreak c = false := hx c (by simp)
    have ht : BreakFree t := fun y hy => hx y (by simp [hy])
    simp only [splitLines, hc, Bool.false_eq_true, if_false]
    cases t with
    | nil => rfl
    | cons d u => rw [ih ht (by simp)]; rfl

theorem splitLines_join (cs : List (List Char)) (h : ∀ c ∈ cs, c ≠ [] ∧ BreakFree c) :
    splitLines (joinWith ['\n'] cs) = cs := by
  induction cs with
  | nil => rfl
  | cons x rest ih =>
    obtain ⟨hx1, hx2⟩ := h x (by simp)
    cases rest with
    | nil => exact splitLines_single x hx2 hx1
    | cons y rest2 =>
      have ih' := ih (fun c hc => h c (by simp [hc]))
      simp only [joinWith] at ih' ⊢
      rw [List.append_assoc]
      simp only [List.cons_append, List.nil_append]
      rw [splitLines_line _ _ hx2, ih']

/-! ### entries -/

/-- names as the parser returns them: no blank, no line break -/
def NameOK (n : List Char) : Prop := ∀ c ∈ n, c ≠ ' ' ∧ isBreak c = false
/-- sequences for which re-reading is promised: no line break, no `>` -/
def SeqOK (s : List Char) : Prop := ∀ c ∈ s, isBreak c = false ∧ c ≠ '>'

/-- record body of an entry: everything after the leading `>` -/
def body (w : Nat) (e : List Char × List Char) : List Char × List Char :=
  (e.1, '\n' :: joinWith ['\n'] (chunks w e.2))

theorem firstToken_id (n : List Char) (h : ∀ c ∈ n, c ≠ ' ') : firstToken n = n := by
  unfold firstToken
  induction n with
  | nil => rfl
  | cons c t ih =>
    have hc : c ≠ ' ' := h c (by simp)
    simp only [List.takeWhile_cons, bne_iff_ne, ne_eq, hc, not_false_eq_true, if_true]
    rw [ih (fun x hx => h x (by simp [hx]))]

theorem parseProtein_body (w : Nat) (hw : 1 ≤ w) (e : List Char × List Char)
    (hn : NameOK e.1) (hs : SeqOK e.2) :
    parseProtein ((body w e).1 ++ (body w e).2) = some e := by
  unfold parseProtein body
  simp only
  have hnb : BreakFree e.1 := fun c hc => (hn c hc).2
  rw [splitLines_line _ _ hnb, splitLines_join]
  · have hfl := chunks_flatten w hw e.2
    cases hch : chunks w e.2 with
    | nil =>
      rw [hch] at hfl
      simp only [parseEntry]
      rw [firstToken_id _ (fun c hc => (hn c hc).1)]
      simp at hfl
      rw [← hfl]
    | cons l rest =>
      rw [hch] at hfl
      simp only [parseEntry]
      rw [firstToken_id _ (fun c hc => (hn c hc).1), hfl]
  · intro c hc
    obtain ⟨h1, h2⟩ := chunks_mem w hw e.2 c hc
    exact ⟨h1, fun x hx => (hs x (h2 x hx)).1⟩

theorem not_mem_joinWith_nl {x : Char} (hx : x ≠ '\n') (cs : List (List Char)) (h : ∀ c ∈ cs, x ∉ c) :
    x ∉ joinWith ['\n'] cs := by
  induction cs with
  | nil => simp [joinWith]
  | cons a rest ih =>
    cases rest with
    | nil => simpa [joinWith] using h a (by simp)
    | cons b rest2 =>
      have ih' := ih (fun c hc => h c (by simp [hc]))
      simp only [joinWith, List.mem_append, not_or]
      refine ⟨⟨h a (by simp), by simp [hx]⟩, ih'⟩

theorem body_ok (w : Nat) (hw : 1 ≤ w) (e : List Char × List Char) (hn : NameOK e.1) (hs : SeqOK e.2) :
    '\n' ∉ (body w e).1 ∧ '>' ∉ (body w e).2 := by
  constructor
  · intro h
    have := (hn _ h).2
    simp [isBreak] at this
  · unfold body
    simp only [List.mem_cons, not_or]
    refine ⟨by decide, ?_⟩
    apply not_mem_joinWith_nl (by decide)
    intro c hc hmem
    exact (hs _ ((chunks_mem w hw e.2 c hc).2 _ hmem)).2 rfl

theorem renderEntry_eq (w : Nat) (e : List Char × List Char) :
    renderEntry w e = '>' :: ((body w e).1 ++ (body w e).2) := by
  simp [renderEntry, body]

theorem joinWith_gt (bs : List (List Char)) (hne : bs ≠ []) :
    joinWith ['\n'] (bs.map (fun b => '>' :: b)) = '>' :: joinWith ['\n', '>'] bs := by
  induction bs with
  | nil => exact absurd rfl hne
  | cons b rest ih =>
    cases rest with
    | nil => simp [joinWith]
    | cons b2 rest2 =>
      have ih' := ih (by simp)
      simp only [List.map_cons, joinWith] at ih' ⊢
      rw [ih']; simp

theorem renderFasta_eq (w : Nat) (es : List (List Char × List Char)) (hne : es ≠ []) :
    renderFasta w es = '>' :: joinWith ['\n', '>'] ((es.map (body w)).map (fun b => b.1 ++ b.2)) := by
  unfold renderFasta
  have : es.map (renderEntry w) = ((es.map (body w)).map (fun b => b.1 ++ b.2)).map (fun b => '>' :: b) := by
    simp [List.map_map, Function.comp_def, renderEntry_eq]
  rw [this, joinWith_gt _ (by simpa using hne)]

theorem not_mem_joinWith {x : Char} (sep : List Char) (hx : x ∉ sep) (cs : List (List Char))
    (h : ∀ c ∈ cs, x ∉ c) : x ∉ joinWith sep cs := by
  induction cs with
  | nil => simp [joinWith]
  | cons a rest ih =>
    cases rest with
    | nil => simpa [joinWith] using h a (by simp)
    | cons b rest2 =>
      have ih' := ih (fun c hc => h c (by simp [hc]))
      simp only [joinWith, List.mem_append, not_or]
      exact ⟨⟨h a (by simp), hx⟩, ih'⟩

theorem renderFasta_no_cr (w : Nat) (hw : 1 ≤ w) (es : List (List Char × List Char))
    (h : ∀ e ∈ es, NameOK e.1 ∧ SeqOK e.2) : '\r' ∉ renderFasta w es := by
  unfold renderFasta
  apply not_mem_joinWith _ (by decide)
  intro c hc
  obtain ⟨e, he, rfl⟩ := List.mem_map.mp hc
  obtain ⟨hn, hs⟩ := h e he
  unfold renderEntry
  simp only [List.cons_append, List.mem_cons, List.mem_append, not_or]
  refine ⟨by decide, ?_, by decide, ?_⟩
  · intro hm
    have := (hn _ hm).2
    simp [isBreak] at this
  · apply not_mem_joinWith _ (by decide)
    intro c hc hm
    have := (hs _ ((chunks_mem w hw e.2 c hc).2 _ hm)).1
    simp [isBreak] at this

theorem sequenceOpt_parse_bodies (w : Nat) (hw : 1 ≤ w) (es : List (List Char × List Char))
    (h : ∀ e ∈ es, NameOK e.1 ∧ SeqOK e.2) :
    sequenceOpt ((((es.map (body w)).map (fun b => b.1 ++ b.2))).map parseProtein) = some es := by
  induction es with
  | nil => rfl
  | cons e rest ih =>
    obtain ⟨hn, hs⟩ := h e (by simp)
    simp only [List.map_cons, sequenceOpt]
    rw [parseProtein_body w hw e hn hs, ih (fun x hx => h x (by simp [hx]))]
    rfl

/-- a text that begins with `>`: putting a line break in front and dropping the piece before the
first separator is the same as dropping the `>` -/
theorem splitRecords_nl_headed (g : List Char) (h : g.head? = some '>') :
    (splitRecords ('\n' :: g)).drop 1 = splitRecords (g.drop 1) := by
  cases g with
  | nil => simp at h
  | cons c b =>
    simp only [List.head?_cons, Option.some.injEq] at h
    subst h
    rw [splitRecords_cons_cons, if_pos ⟨rfl, rfl⟩]
    rfl

/-- **round trip**: reading the rendered text gives back the entries (also none at all: the empty
file denotes no protein) -/
theorem parseFasta_renderFasta_any (w : Nat) (hw : 1 ≤ w) (es : List (List Char × List Char))
    (h : ∀ e ∈ es, NameOK e.1 ∧ SeqOK e.2) :
    parseFasta [renderFasta w es] = some es := by
  cases es with
  | nil => rfl
  | cons e0 rest =>
    have hne : e0 :: rest ≠ [] := by simp
    unfold parseFasta parseFastaFiles
    simp only [List.map_cons, List.map_nil, joinWith]
    rw [univNL_id _ (renderFasta_no_cr w hw _ h), renderFasta_eq w _ hne]
    rw [splitRecords_nl_headed _ rfl]
    simp only [List.drop_succ_cons, List.drop_zero]
    rw [splitRecords_join]
    · exact sequenceOpt_parse_bodies w hw _ h
    · intro b hb
      obtain ⟨e, he, rfl⟩ := List.mem_map.mp hb
      obtain ⟨hn, hs⟩ := h e he
      exact body_ok w hw e hn hs
    · simpa using hne

theorem parseFasta_renderFasta (w : Nat) (hw : 1 ≤ w) (es : List (List Char × List Char))
    (_hne : es ≠ []) (h : ∀ e ∈ es, NameOK e.1 ∧ SeqOK e.2) :
    parseFasta [renderFasta w es] = some es :=
  parseFasta_renderFasta_any w hw es h

/-! ### what the parser returns is clean -/

theorem mem_consHead {c : Char} {L : List (List Char)} {l : List Char} (h : l ∈ consHead c L) :
    (l = [c] ∧ L = []) ∨ (∃ l', l' ∈ L ∧ l = c :: l') ∨ l ∈ L := by
  cases L with
  | nil => left; simpa [consHead] using h
  | cons a rest =>
    simp only [consHead, List.mem_cons] at h
    rcases h with rfl | h
    · right; left; exact ⟨a, by simp, rfl⟩
    · right; right; simp [h]

theorem splitLines_breakFree (raw : List Char) : ∀ l ∈ splitLines raw, BreakFree l := by
  induction raw with
  | nil => intro l hl; simp [splitLines] at hl
  | cons c rest ih =>
    intro l hl
    simp only [splitLines] at hl
    split at hl
    · rcases List.mem_cons.mp hl with rfl | hl
      · intro x hx; simp at hx
      · exact ih l hl
    · rename_i hc
      have hc' : isBreak c = false := by simpa using hc
      rcases mem_consHead hl with ⟨rfl, _⟩ | ⟨l', hl', rfl⟩ | hl
      · intro x hx; simp at hx; subst hx; exact hc'
      · intro x hx
        rcases List.mem_cons.mp hx with rfl | hx
        · exact hc'
        · exact ih l' hl' x hx
      · exact ih l hl

theorem mem_takeWhile_ne_space {c : Char} {h : List Char} (hc : c ∈ h.takeWhile (fun c => c != ' ')) :
    c ≠ ' ' ∧ c ∈ h := by
  induction h with
  | nil => simp at hc
  | cons d t ih =>
    rw [List.takeWhile_cons] at hc
    split at hc
    · rename_i hd
      rcases List.mem_cons.mp hc with rfl | hc
      · exact ⟨by simpa using hd, by simp⟩
      · exact ⟨(ih hc).1, List.mem_cons_of_mem _ (ih hc).2⟩
    · simp at hc

theorem firstToken_nameOK (h : List Char) (hb : BreakFree h) : NameOK (firstToken h) := by
  intro c hc
  unfold firstToken at hc
  have := mem_takeWhile_ne_space hc
  exact ⟨this.1, hb c this.2⟩

theorem parseEntry_clean {lines : List (List Char)} {e : List Char × List Char}
    (hl : ∀ l ∈ lines, BreakFree l) (h : parseEntry lines = some e) : NameOK e.1 ∧ BreakFree e.2 := by
  cases lines with
  | nil => simp [parseEntry] at h
  | cons hd rest =>
    cases rest with
    | nil =>
      simp only [parseEntry, Option.some.injEq] at h
      subst h
      exact ⟨firstToken_nameOK hd (hl hd (by simp)), fun c hc => by simp at hc⟩
    | cons l rest2 =>
      simp only [parseEntry, Option.some.injEq] at h
      subst h
      refine ⟨firstToken_nameOK hd (hl hd (by simp)), ?_⟩
      intro c hc
      obtain ⟨ln, hln, hcl⟩ := List.mem_flatten.mp hc
      exact hl ln (List.mem_cons_of_mem _ hln) c hcl

theorem sequenceOpt_mem {l : List (Option β)} {r : List β} (h : sequenceOpt l = some r) :
    ∀ e ∈ r, some e ∈ l := by
  induction l generalizing r with
  | nil => simp [sequenceOpt] at h; subst h; simp
  | cons x xs ih =>
    cases x with
    | none => simp [sequenceOpt, optCons] at h
    | some a =>
      cases hxs : sequenceOpt xs with
      | none => simp [sequenceOpt, optCons, hxs] at h
      | some t =>
        simp [sequenceOpt, optCons, hxs] at h
        subst h
        intro e he
        rcases List.mem_cons.mp he with rfl | he
        · simp
        · exact List.mem_cons_of_mem _ (ih hxs e he)

theorem sequenceOpt_ne_nil {l : List (Option β)} {r : List β} (h : sequenceOpt l = some r) (hl : l ≠ []) :
    r ≠ [] := by
  intro hr
  have := sequenceOpt_eq_some_length h
  subst hr
  exact hl (List.eq_nil_of_length_eq_zero this.symm)

/-- (an input without any record — only empty files, blank lines — parses to no protein at all,
so nothing is said about `ts ≠ []`) -/
theorem parseFasta_clean {files : List (List Char)} {ts : List (List Char × List Char)}
    (h : parseFasta files = some ts) : ∀ t ∈ ts, NameOK t.1 ∧ BreakFree t.2 := by
  unfold parseFasta at h
  intro t ht
  have := sequenceOpt_mem h t ht
  obtain ⟨raw, _, hraw⟩ := List.mem_map.mp this
  exact parseEntry_clean (splitLines_breakFree raw) hraw

end Mk.Decoys
