import MokapotVerif.Model.FsRunSized
import MokapotVerif.Lemmas.FsRunExtRun
/-!
# Helper lemmas for the second extension of C09: chunk files written vs merged, sizes, the SQLite
result database
-/
namespace Mk.FsRun

/-! ## general: a read that passes the check reads a known or a written name -/

theorem mem_knownStep_cases {known : List Name} {op : Op} {n : Name} (h : n ∈ knownStep known op) :
    n ∈ known ∨ n ∈ writesOp op := by
  cases op with
  | trunc m f =>
    simp only [knownStep, writesOp, List.mem_cons, List.not_mem_nil, or_false] at h ⊢
    exact h.symm
  | append m f => exact Or.inl h
  | read m => exact Or.inl h
  | unlink m =>
    simp only [knownStep, writesOp, List.mem_cons, List.not_mem_nil, or_false] at h ⊢
    exact h.symm
  | move s d =>
    simp only [knownStep, writesOp, List.mem_cons, List.not_mem_nil, or_false] at h ⊢
    rcases h with h | h | h
    · exact Or.inr (Or.inl h)
    · exact Or.inr (Or.inr h)
    · exact Or.inl h
  | globRead p => exact Or.inl h

/-- in a program that passes the check every file read is known at the start or written by the
program itself -/
theorem read_known_or_written (known : List Name) (p : List Op) (n : Name)
    (hw : wellInit known p = true) (hr : Op.read n ∈ p) : n ∈ known ∨ n ∈ writes p := by
  induction p generalizing known with
  | nil => simp at hr
  | cons op rest ih =>
    simp only [wellInit, Bool.and_eq_true] at hw
    rcases List.mem_cons.mp hr with h | h
    · subst h
      simp only [okStep, decide_eq_true_eq] at hw
      exact Or.inl hw.1
    · rcases ih _ hw.2 h with h' | h'
      · rcases mem_knownStep_cases h' with h'' | h''
        · exact Or.inl h''
        · exact Or.inr (by simp only [writes, List.flatMap_cons, List.mem_append]; exact Or.inl h'')
      · exact Or.inr (by
          simp only [writes, List.flatMap_cons, List.mem_append]
          exact Or.inr h')

theorem wellInit_prefix (known : List Name) (p q : List Op) (h : wellInit known (p ++ q) = true) :
    wellInit known p = true := by
  rw [wellInit_append, Bool.and_eq_true] at h
  exact h.1

/-- the value read from a file the program has not written before is the file's initial content -/
theorem exec_read_unwritten (fs : FS) (outs : Outs) (pre : List Op) (n : Name)
    (h : n ∉ writes pre) :
    (exec fs outs (pre ++ [Op.read n])).2 = (exec fs outs pre).2 ++ [FS.content fs n] := by
  rw [exec_append]
  simp only [exec, step]
  rw [content_congr (exec_frame fs outs pre n h)]

/-! ## one collection: written vs merged chunk files -/

section kw
variable (prot : Bool) (nl : Nat) (decoys : Bool) (init : Bool) (c : Coll)

theorem collOpsKW_self : collOpsKW prot nl decoys init c c.k = collOps prot nl decoys init c := rfl

theorem mem_xphase3 (p : Option Nat) {k i : Nat} (hi : i < k) :
    Op.read (chunkOf p i) ∈ xphase3 p k := by
  simp only [xphase3, List.mem_map, List.mem_range]
  exact ⟨i, hi, rfl⟩

/-- the operations up to and including the merge -/
def kwHead (kw : Nat) : List Op :=
  (if init then xphase1 c.pfx (nlp prot nl) decoys c.hdr else []) ++
    (xphase2 c.pfx kw c.data ++ xphase3 c.pfx c.k)

/-- … and after it -/
def kwTail : List Op :=
  phase4 nl c.lvhdr c.lvdata ++ (xphase5 c.pfx c.k ++
    (protOps prot nl c.pdata ++ xphase6 c.pfx (nlp prot nl) decoys c.res c.resd))

theorem collOpsKW_split (kw : Nat) :
    collOpsKW prot nl decoys init c kw = kwHead prot nl decoys init c kw ++ kwTail prot nl decoys c := by
  simp only [collOpsKW, kwHead, kwTail, List.append_assoc]

/-- no chunk file of index `≥ kw` is written before the merge -/
theorem not_written_before_merge (kw i : Nat) (hi : kw ≤ i) :
    chunkOf c.pfx i ∉ writes (kwHead prot nl decoys init c kw) := by
  intro h
  simp only [kwHead, writes_append, List.mem_append, writes_xphase3, List.not_mem_nil,
    or_false] at h
  rcases h with h | h
  · cases init
    · simp [writes] at h
    · simp only [if_true] at h
      obtain ⟨l, _, h | ⟨_, h⟩⟩ := writes_xphase1 _ _ _ _ h
      · exact chunkOf_ne_targetOf _ _ _ _ h
      · exact chunkOf_ne_decoyOf _ _ _ _ h
  · obtain ⟨j, hj, h⟩ := writes_xphase2 _ _ _ h
    rw [chunkOf_inj] at h
    omega

/-- **fewer chunk files written than merged**: the check fails (whatever follows), unless the
missing file's name was already known -/
theorem wellInit_collOpsKW_short (known : List Name) (kw : Nat) (hk : kw < c.k)
    (hn : chunkOf c.pfx kw ∉ known) (rest : List Op) :
    wellInit known (collOpsKW prot nl decoys init c kw ++ rest) = false := by
  cases hw : wellInit known (collOpsKW prot nl decoys init c kw ++ rest) with
  | false => rfl
  | true =>
    exfalso
    rw [collOpsKW_split, List.append_assoc] at hw
    have h1 := wellInit_prefix _ _ _ hw
    have hr : Op.read (chunkOf c.pfx kw) ∈ kwHead prot nl decoys init c kw := by
      simp only [kwHead, List.mem_append]
      exact Or.inr (Or.inr (mem_xphase3 _ hk))
    rcases read_known_or_written _ _ _ h1 hr with h | h
    · exact hn h
    · exact not_written_before_merge prot nl decoys init c kw kw (Nat.le_refl _) h

/-- the merged chunk files are unlinked, written by this run or not -/
theorem absent_collOpsKW_chunk (kw : Nat) (b : Bool) {i : Nat} (hi : i < c.k) :
    absentAfter (chunkOf c.pfx i) b (collOpsKW prot nl decoys init c kw) = true := by
  unfold collOpsKW
  rw [absentAfter_append, absentAfter_append, absentAfter_append, absentAfter_append,
    absentAfter_append, absentAfter_append]
  rw [absentAfter_of_not_writes _ _ (xphase6 c.pfx (nlp prot nl) decoys c.res c.resd),
    absentAfter_of_not_writes _ _ (protOps prot nl c.pdata)]
  · apply absentAfter_of_unlink _ _ _ (mem_xphase5 _ _ hi)
    intro op hop
    simp only [xphase5, List.mem_map] at hop
    obtain ⟨j, _, rfl⟩ := hop
    simp [absentStep]
  · intro h
    exact chunkOf_ne_level _ _ _ (writes_protOps nl c.pdata h).2
  · intro h
    obtain ⟨l, _, h | ⟨_, h⟩ | h⟩ := writes_xphase6 _ _ _ _ _ h
    · exact chunkOf_ne_targetOf _ _ _ _ h
    · exact chunkOf_ne_decoyOf _ _ _ _ h
    · exact chunkOf_ne_level _ _ _ h

end kw

/-! ## the loop -/

theorem runOpsKW_eq_runOps (prot : Bool) (nl : Nat) (decoys : Bool) (req : Bool) (seen : Bool)
    (cs : List (Coll × Nat)) (h : ∀ e ∈ cs, e.2 = e.1.k) :
    runOpsKW prot nl decoys req seen cs = runOps prot nl decoys req seen (cs.map (·.1)) := by
  induction cs generalizing seen with
  | nil => rfl
  | cons e rest ih =>
    simp only [runOpsKW, List.map_cons, runOps]
    rw [h e (by simp), collOpsKW_self, ih _ (fun e' he' => h e' (List.mem_cons_of_mem _ he'))]

/-! ## the repaired loop -/

theorem runOpsChecked_complete (prot : Bool) (nl : Nat) (decoys : Bool) (req : Bool) (seen : Bool)
    (cs : List (Coll × Nat)) (h : ∀ e ∈ cs, e.2 = e.1.k) :
    runOpsChecked prot nl decoys req seen cs
      = (runOps prot nl decoys req seen (cs.map (·.1)), true) := by
  induction cs generalizing seen with
  | nil => rfl
  | cons e rest ih =>
    have he := h e (by simp)
    have ih' := ih (seen || e.1.pfx.isNone) (fun e' he' => h e' (List.mem_cons_of_mem _ he'))
    simp only [runOpsChecked, he, if_true, ih', List.map_cons, runOps]
    rfl

theorem runOpsChecked_true (prot : Bool) (nl : Nat) (decoys : Bool) (req : Bool) (seen : Bool)
    (cs : List (Coll × Nat)) (h : (runOpsChecked prot nl decoys req seen cs).2 = true) :
    ∀ e ∈ cs, e.2 = e.1.k := by
  induction cs generalizing seen with
  | nil => intro e he; simp at he
  | cons e rest ih =>
    by_cases hk : e.2 = e.1.k
    · simp only [runOpsChecked, hk, if_true] at h
      intro e' he'
      rcases List.mem_cons.mp he' with rfl | he'
      · exact hk
      · exact ih _ h e' he'
    · simp [runOpsChecked, hk] at h

section refused
variable (prot : Bool) (nl : Nat) (decoys : Bool) (init : Bool) (c : Coll) (kw : Nat)

/-- a refused collection only truncates and unlinks: it reads nothing, appends to nothing -/
theorem ops_refusedCollOps {op : Op} (h : op ∈ refusedCollOps prot nl decoys init c kw) :
    (∃ n f, op = .trunc n f) ∨ (∃ n, op = .unlink n) := by
  simp only [refusedCollOps, List.mem_append] at h
  rcases h with h | h | h
  · cases init
    · simp at h
    · simp only [if_true] at h
      simp only [xphase1, List.mem_flatMap] at h
      obtain ⟨l, _, h⟩ := h
      rcases mem_xinitLevelOps _ _ _ h with h | ⟨_, h⟩ <;> exact Or.inl ⟨_, _, h⟩
  · simp only [xphase2, List.mem_map] at h
    obtain ⟨i, _, rfl⟩ := h
    exact Or.inl ⟨_, _, rfl⟩
  · simp only [xphase5, List.mem_map] at h
    obtain ⟨i, _, rfl⟩ := h
    exact Or.inr ⟨_, rfl⟩

theorem wellInit_refusedCollOps (known : List Name) :
    wellInit known (refusedCollOps prot nl decoys init c kw) = true := by
  apply wellInit_of_forall
  intro op hop
  rcases ops_refusedCollOps prot nl decoys init c kw hop with ⟨n, f, rfl⟩ | ⟨n, rfl⟩ <;> rfl

/-- the chunk files it wrote are unlinked again -/
theorem absent_refusedCollOps_chunk (b : Bool) {i : Nat} (hi : i < kw) :
    absentAfter (chunkOf c.pfx i) b (refusedCollOps prot nl decoys init c kw) = true := by
  unfold refusedCollOps
  rw [absentAfter_append, absentAfter_append]
  apply absentAfter_of_unlink _ _ _ (mem_xphase5 _ _ hi)
  intro op hop
  simp only [xphase5, List.mem_map] at hop
  obtain ⟨j, _, rfl⟩ := hop
  simp [absentStep]

end refused

/-! ## sizes -/

theorem writtenCount_eq_iff (nrows nscores c : Nat) :
    writtenCount nrows nscores c = chunkCount nscores c ↔
      chunkCount nscores c ≤ chunkCount nrows c := by
  unfold writtenCount
  omega

theorem writtenCount_lt_iff (nrows nscores c : Nat) :
    writtenCount nrows nscores c < chunkCount nscores c ↔
      chunkCount nrows c < chunkCount nscores c := by
  unfold writtenCount
  omega

theorem lensAgree_self (n c : Nat) : lensAgree n n c = true := by
  simp [lensAgree]

/-- `chunkCount` of `q * c + r` with `r < c` -/
theorem chunkCount_decomp (c q r : Nat) (hr : r < c) :
    chunkCount (q * c + r) c = q + (if r = 0 then 0 else 1) := by
  have hc : 0 < c := by omega
  unfold chunkCount
  by_cases h0 : r = 0
  · subst h0
    simp only [Nat.add_zero, if_true]
    have : q * c + c - 1 = (c - 1) + q * c := by omega
    rw [this, Nat.add_mul_div_right _ _ hc, Nat.div_eq_of_lt (by omega)]
    omega
  · simp only [h0, if_false]
    have : q * c + r + c - 1 = (r - 1) + (q + 1) * c := by
      rw [Nat.add_mul]; omega
    rw [this, Nat.add_mul_div_right _ _ hc, Nat.div_eq_of_lt (by omega)]
    omega

theorem chunkCount_mul (c q : Nat) (hc : 0 < c) : chunkCount (q * c) c = q := by
  have := chunkCount_decomp c q 0 hc
  simpa using this

theorem chunkCount_mono (c : Nat) {a b : Nat} (h : a ≤ b) : chunkCount a c ≤ chunkCount b c := by
  unfold chunkCount
  exact Nat.div_le_div_right (by omega)

/-- more than `q` full chunks of items need more than `q` chunks -/
theorem lt_chunkCount (c q n : Nat) (hc : 0 < c) (h : q * c < n) : q < chunkCount n c := by
  have h1 : chunkCount (q * c + 1) c ≤ chunkCount n c := chunkCount_mono c h
  by_cases hc1 : c = 1
  · subst hc1
    unfold chunkCount at *
    simp at *
    omega
  · have := chunkCount_decomp c q 1 (by omega)
    simp at this
    omega

/-- a table whose row count is a multiple of the chunk size, with a longer score array: every
written chunk gets a full score slice (no `ValueError`), and there are more score chunks than
table chunks -/
theorem multiple_longer_short (c q nscores : Nat) (hc : 0 < c) (h : q * c < nscores) :
    lensAgree (q * c) nscores c = true ∧ writtenCount (q * c) nscores c = q ∧
      q < chunkCount nscores c := by
  have hq : q < chunkCount nscores c := lt_chunkCount c q nscores hc h
  have hw : writtenCount (q * c) nscores c = q := by
    unfold writtenCount
    rw [chunkCount_mul c q hc]
    omega
  refine ⟨?_, hw, hq⟩
  simp only [lensAgree, hw, List.all_eq_true, List.mem_range, beq_iff_eq]
  intro i hi
  unfold sliceLen
  have h1 : (i + 1) * c ≤ q * c := Nat.mul_le_mul_right c hi
  have h2 : (i + 1) * c = i * c + c := by rw [Nat.add_mul]; omega
  omega

/-! ## the SQLite result database -/

section sql
variable (nl : Nat) (decoys : Bool) (db : Name) (c : Coll)

theorem mem_sqlFinishLevelOps {p : Option Nat} {res : Nat → Outs → List Nat} {op : Op} {l : Nat}
    (h : op ∈ sqlFinishLevelOps p decoys db res l) :
    op = .read (.level l) ∨ op = .append db (res l) ∨ op = .unlink (targetOf p l) ∨
      (decoys = true ∧ op = .unlink (decoyOf p l)) ∨ op = .unlink (.level l) := by
  simp only [sqlFinishLevelOps, List.mem_cons, List.mem_append, List.not_mem_nil, or_false] at h
  rcases h with h | h | h | h | h
  · exact Or.inl h
  · exact Or.inr (Or.inl h)
  · exact Or.inr (Or.inr (Or.inl h))
  · cases decoys
    · simp at h
    · simp only [if_true, List.mem_singleton] at h
      exact Or.inr (Or.inr (Or.inr (Or.inl ⟨rfl, h⟩)))
  · exact Or.inr (Or.inr (Or.inr (Or.inr h)))

theorem mem_sqlPhase6 {p : Option Nat} {res : Nat → Outs → List Nat} {op : Op} {n : Nat}
    (h : op ∈ sqlPhase6 p n decoys db res) :
    ∃ l, l < n ∧ (op = .read (.level l) ∨ op = .append db (res l) ∨ op = .unlink (targetOf p l) ∨
      (decoys = true ∧ op = .unlink (decoyOf p l)) ∨ op = .unlink (.level l)) := by
  simp only [sqlPhase6, List.mem_flatMap, List.mem_range] at h
  obtain ⟨l, hl, h⟩ := h
  exact ⟨l, hl, mem_sqlFinishLevelOps decoys db h⟩

theorem mem_sqlPhase6_unlink_target {p : Option Nat} {res : Nat → Outs → List Nat} {n l : Nat}
    (hl : l < n) : Op.unlink (targetOf p l) ∈ sqlPhase6 p n decoys db res := by
  simp only [sqlPhase6, List.mem_flatMap, List.mem_range]
  exact ⟨l, hl, by simp [sqlFinishLevelOps]⟩

theorem mem_sqlPhase6_unlink_decoy {p : Option Nat} {res : Nat → Outs → List Nat} {n l : Nat}
    (hl : l < n) (hd : decoys = true) : Op.unlink (decoyOf p l) ∈ sqlPhase6 p n decoys db res := by
  simp only [sqlPhase6, List.mem_flatMap, List.mem_range]
  exact ⟨l, hl, by simp [sqlFinishLevelOps, hd]⟩

theorem mem_sqlPhase6_unlink_level {p : Option Nat} {res : Nat → Outs → List Nat} {n l : Nat}
    (hl : l < n) : Op.unlink (.level l) ∈ sqlPhase6 p n decoys db res := by
  simp only [sqlPhase6, List.mem_flatMap, List.mem_range]
  exact ⟨l, hl, by simp [sqlFinishLevelOps]⟩

theorem writes_sqlPhase6 {p : Option Nat} {res : Nat → Outs → List Nat} {n : Nat} {m : Name}
    (h : m ∈ writes (sqlPhase6 p n decoys db res)) :
    m = db ∨ ∃ l, l < n ∧ (m = targetOf p l ∨ (decoys = true ∧ m = decoyOf p l) ∨ m = .level l) := by
  rw [mem_writes_iff] at h
  obtain ⟨op, hop, hm⟩ := h
  obtain ⟨l, hl, h | h | h | ⟨hd, h⟩ | h⟩ := mem_sqlPhase6 decoys db hop <;> subst h <;>
    simp only [writesOp, List.mem_singleton, List.not_mem_nil] at hm
  · exact Or.inl hm
  · exact Or.inr ⟨l, hl, Or.inl hm⟩
  · exact Or.inr ⟨l, hl, Or.inr (Or.inl ⟨hd, hm⟩)⟩
  · exact Or.inr ⟨l, hl, Or.inr (Or.inr hm)⟩

theorem wellInit_sqlPhase6 (p : Option Nat) (res : Nat → Outs → List Nat) (n : Nat)
    (known : List Name) (hdb : db ∈ known) (h : ∀ l, l < n → Name.level l ∈ known) :
    wellInit known (sqlPhase6 p n decoys db res) = true := by
  apply wellInit_flatMap
  intro l hl
  have h1 := h l (List.mem_range.mp hl)
  cases decoys <;> simp [sqlFinishLevelOps, wellInit, okStep, knownStep, h1, hdb]

/-- with the database known (a declared input) the operation list passes the check -/
theorem wellInit_collOpsSql (known : List Name) (hdb : db ∈ known) :
    wellInit known (collOpsSql nl decoys db c) = true := by
  unfold collOpsSql
  rw [wellInit_append, wellInit_append, wellInit_append, wellInit_append, wellInit_append]
  simp only [Bool.and_eq_true]
  refine ⟨wellInit_xphase1 _ _ _ _ _, wellInit_xphase2 _ _ _ _, ?_,
    wellInit_phase4 nl c.lvhdr c.lvdata _, wellInit_xphase5 _ _ _, ?_⟩
  · apply wellInit_xphase3
    intro i hi
    exact mem_knownAfter_of_op (mem_xphase2 _ _ _ hi) (by simp [knownStep])
  · apply wellInit_sqlPhase6
    · iterate 5 apply mem_knownAfter_of_mem
      exact hdb
    · intro l hl
      apply mem_knownAfter_of_mem
      exact mem_knownAfter_of_op (mem_phase4 nl c.lvhdr c.lvdata hl) (by simp [knownStep])

theorem writes_collOpsSql {m : Name} (h : m ∈ writes (collOpsSql nl decoys db c)) :
    m = db ∨ (∃ i, i < c.k ∧ m = chunkOf c.pfx i) ∨
      ∃ l, l < nl ∧ (m = targetOf c.pfx l ∨ (decoys = true ∧ m = decoyOf c.pfx l) ∨ m = .level l) := by
  simp only [collOpsSql, writes_append, List.mem_append, writes_xphase3, List.not_mem_nil,
    false_or] at h
  rcases h with h | h | h | h | h
  · obtain ⟨l, hl, h⟩ := writes_xphase1 _ _ _ _ h
    refine Or.inr (Or.inr ⟨l, hl, ?_⟩)
    rcases h with h | h
    · exact Or.inl h
    · exact Or.inr (Or.inl h)
  · exact Or.inr (Or.inl (writes_xphase2 _ _ _ h))
  · obtain ⟨l, hl, h⟩ := writes_phase4 nl c.lvhdr c.lvdata h
    exact Or.inr (Or.inr ⟨l, hl, Or.inr (Or.inr h)⟩)
  · exact Or.inr (Or.inl (writes_xphase5 _ _ h))
  · rcases writes_sqlPhase6 decoys db h with h | h
    · exact Or.inl h
    · exact Or.inr (Or.inr h)

/-- the database is distinct from every file name of the run -/
def DbApart (db : Name) : Prop :=
  (∀ q i, db ≠ chunkOf q i) ∧ (∀ l, db ≠ .level l) ∧ (∀ q l, db ≠ targetOf q l) ∧
    (∀ q l, db ≠ decoyOf q l)

theorem dbApart_dbName : DbApart dbName := by
  refine ⟨?_, ?_, ?_, ?_⟩
  · intro q i; cases q <;> simp [dbName, chunkOf]
  · intro l; simp [dbName]
  · intro q l; cases q <;> simp [dbName, targetOf]
  · intro q l; cases q <;> simp [dbName, decoyOf]

/-- nothing in the last phase re-creates a result, level or chunk file -/
theorem absentStep_sqlPhase6 (n : Name) (hn : n ≠ db) {op : Op}
    (hop : op ∈ sqlPhase6 c.pfx nl decoys db c.res) : absentStep n true op = true := by
  obtain ⟨l, _, h | h | h | ⟨_, h⟩ | h⟩ := mem_sqlPhase6 decoys db hop <;> subst h <;>
    simp [absentStep]
  exact fun h => absurd h.symm hn

theorem absent_collOpsSql_of_unlink (n : Name) (hn : n ≠ db) (b : Bool)
    (hu : Op.unlink n ∈ sqlPhase6 c.pfx nl decoys db c.res) :
    absentAfter n b (collOpsSql nl decoys db c) = true := by
  unfold collOpsSql
  rw [absentAfter_append, absentAfter_append, absentAfter_append, absentAfter_append,
    absentAfter_append]
  exact absentAfter_of_unlink _ _ _ hu
    (fun op hop => absentStep_sqlPhase6 nl decoys db c n hn hop)

theorem absent_collOpsSql_chunk (hdb : DbApart db) (b : Bool) {i : Nat} (hi : i < c.k) :
    absentAfter (chunkOf c.pfx i) b (collOpsSql nl decoys db c) = true := by
  unfold collOpsSql
  rw [absentAfter_append, absentAfter_append, absentAfter_append, absentAfter_append,
    absentAfter_append]
  rw [absentAfter_of_not_writes _ _ (sqlPhase6 c.pfx nl decoys db c.res)]
  · apply absentAfter_of_unlink _ _ _ (mem_xphase5 _ _ hi)
    intro op hop
    simp only [xphase5, List.mem_map] at hop
    obtain ⟨j, _, rfl⟩ := hop
    simp [absentStep]
  · intro h
    rcases writes_sqlPhase6 decoys db h with h | ⟨l, _, h | ⟨_, h⟩ | h⟩
    · exact hdb.1 _ _ h.symm
    · exact chunkOf_ne_targetOf _ _ _ _ h
    · exact chunkOf_ne_decoyOf _ _ _ _ h
    · exact chunkOf_ne_level _ _ _ h

end sql

end Mk.FsRun
