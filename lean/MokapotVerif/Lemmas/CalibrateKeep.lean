import MokapotVerif.Model.CalibrateKeep
import MokapotVerif.Lemmas.CalibrateScale
/-! Helper lemmas for C11 (third pass): `pred_total`, `feat_total` and the decision of brew.py:277. -/
namespace Mk.Calibrate

/-! ## `pred_total` counts the targets the defining formula accepts -/

theorem predCount_eq_accepted (thr : Rat) (scores : List Rat) (rows : List FRow) :
    predCount thr scores rows = acceptedCount thr scores rows := by
  unfold predCount acceptedCount
  rw [updateLabels_eq, List.count_eq_countP, List.countP_map, List.countP_eq_length_filter]
  congr 1
  apply List.filter_congr
  intro x _
  simpa [Function.comp] using labF_eq_one true thr _ x

theorem predTotal_eq_accepted (thr : Rat) (fin : List (List Rat)) (colls : List (List FRow)) :
    predTotal thr fin colls = acceptedTotal thr fin colls := by
  induction fin generalizing colls with
  | nil => cases colls <;> rfl
  | cons s ss ih =>
    cases colls with
    | nil => rfl
    | cons r rs => simp only [predTotal, acceptedTotal, ih, predCount_eq_accepted]

/-- `pred_total` sees the rows only through their target flags -/
theorem predTotal_targets (thr : Rat) (fin : List (List Rat)) (colls colls' : List (List FRow))
    (h : colls'.map (fun rows => rows.map (fun r => r.target)) = colls.map (fun rows => rows.map (fun r => r.target))) :
    predTotal thr fin colls' = predTotal thr fin colls := by
  induction fin generalizing colls colls' with
  | nil => cases colls <;> cases colls' <;> rfl
  | cons s ss ih =>
    cases colls with
    | nil => cases colls' with
      | nil => rfl
      | cons _ _ => simp at h
    | cons r rs => cases colls' with
      | nil => simp at h
      | cons r' rs' =>
        simp only [List.map_cons, List.cons.injEq] at h
        simp only [predTotal, predCount, h.1, ih rs rs' h.2]

theorem rescaleFolds_targets (A B : Nat → Rat) (colls : List (List FRow)) :
    (colls.map (rescaleFolds A B)).map (fun rows => rows.map (fun r => r.target))
      = colls.map (fun rows => rows.map (fun r => r.target)) := by
  simp [rescaleFolds, rescaleRow, Function.comp_def]

/-! ## `feat_total` -/

theorem maxFirstFrom_snd (best : Nat × Nat) (i : Nat) (l : List Nat) :
    (maxFirstFrom best i l).2 = max best.2 (l.foldr max 0) := by
  induction l generalizing best i with
  | nil => simp [maxFirstFrom]
  | cons v l ih =>
    unfold maxFirstFrom
    split <;> rename_i h
    · rw [ih]; simp only [List.foldr_cons]; omega
    · rw [ih]; simp only [List.foldr_cons]; omega

theorem bestFeatOf_snd (ms : List (Bool × Nat)) : (bestFeatOf ms).2 = maxFeatPass ms := by
  unfold bestFeatOf maxFeatPass
  cases h : ms.map (fun m => m.2) with
  | nil => rfl
  | cons v l => simp [bestFeatOfList, maxFirstFrom_snd]

/-- the index returned with the maximum is the *first* position holding it -/
theorem maxFirstFrom_fst (best : Nat × Nat) (i : Nat) (l : List Nat) (hb : best.1 < i) :
    let r := maxFirstFrom best i l
    (r = best ∧ ∀ v ∈ l, v ≤ best.2) ∨
    (∃ (j : Nat) (hj : j < l.length), r = (i + j, l[j]) ∧ best.2 < l[j] ∧
      (∀ j' (hj' : j' < j), l[j'] < l[j]) ∧ ∀ v ∈ l, v ≤ l[j]) := by
  induction l generalizing best i with
  | nil => left; simp [maxFirstFrom]
  | cons v l ih =>
    unfold maxFirstFrom
    split <;> rename_i h
    · rcases ih (i, v) (i + 1) (by simp) with ⟨h1, h2⟩ | ⟨j, hj, h1, h2, h3, h4⟩
      · right
        refine ⟨0, by simp, ?_, by simpa using h, fun j' hj' => absurd hj' (by omega), ?_⟩
        · simpa using h1
        · intro w hw
          rcases List.mem_cons.mp hw with rfl | hw
          · simp
          · simpa using h2 w hw
      · right
        refine ⟨j + 1, by simp; omega, ?_, ?_, ?_, ?_⟩
        · simp only [List.getElem_cons_succ]; rw [h1]; congr 1; omega
        · simp only [List.getElem_cons_succ]; simp only at h2; omega
        · intro j' hj'
          cases j' with
          | zero => simpa using h2
          | succ j' => simpa using h3 j' (by omega)
        · intro w hw
          rcases List.mem_cons.mp hw with rfl | hw
          · simp only [List.getElem_cons_succ]; simp only at h2; omega
          · simpa using h4 w hw
    · have hv : v ≤ best.2 := by omega
      rcases ih best (i + 1) (by omega) with ⟨h1, h2⟩ | ⟨j, hj, h1, h2, h3, h4⟩
      · left
        refine ⟨h1, ?_⟩
        intro w hw
        rcases List.mem_cons.mp hw with rfl | hw
        · exact hv
        · exact h2 w hw
      · right
        refine ⟨j + 1, by simp; omega, ?_, ?_, ?_, ?_⟩
        · simp only [List.getElem_cons_succ]; rw [h1]; congr 1; omega
        · simpa using h2
        · intro j' hj'
          cases j' with
          | zero => simp only [List.getElem_cons_zero, List.getElem_cons_succ]; omega
          | succ j' => simpa using h3 j' (by omega)
        · intro w hw
          rcases List.mem_cons.mp hw with rfl | hw
          · simp only [List.getElem_cons_succ]; omega
          · simpa using h4 w hw

theorem allOverride_iff (ms : List (Bool × Nat)) : allOverride ms = true ↔ ∀ m ∈ ms, m.1 = true := by
  simp [allOverride]

theorem featTotal_le_iff (ms : List (Bool × Nat)) (p : Nat) :
    featTotal ms ≤ p ↔ ((∀ m ∈ ms, m.1 = true) ∨ maxFeatPass ms ≤ p) := by
  unfold featTotal
  by_cases h : allOverride ms = true
  · simp only [h, if_true, Nat.zero_le, true_iff]
    exact Or.inl ((allOverride_iff ms).mp h)
  · simp only [h, bestFeatOf_snd]
    constructor
    · intro hle; exact Or.inr hle
    · rintro (ho | hle)
      · exact absurd ((allOverride_iff ms).mpr ho) h
      · simpa using hle

/-! ## the decision -/

theorem keepDecision_kept_iff (ms : List (Bool × Nat)) (p : Nat) (sc : List (List XR)) :
    keepDecision ms p sc = BrewOut.kept sc ↔ featTotal ms ≤ p := by
  unfold keepDecision
  by_cases h : p < featTotal ms
  · simp [h]
  · simp [h]; omega

theorem brewReturn_of_ok (c : Nat) (dfs : List Bool) (thr : Rat) (ms : List (Bool × Nat))
    (colls : List (List FRow)) (sc : List (List XR)) (h : predictColls c dfs thr colls = Except.ok sc) :
    brewReturn c dfs thr ms colls =
      Except.ok (Option.map (fun fin => keepDecision ms (predTotal thr fin colls) sc) (allFinColls sc)) := by
  unfold brewReturn
  rw [h]
  rfl

theorem brewReturn_of_error (c : Nat) (dfs : List Bool) (thr : Rat) (ms : List (Bool × Nat))
    (colls : List (List FRow)) (e : CalErr) (h : predictColls c dfs thr colls = Except.error e) :
    brewReturn c dfs thr ms colls = Except.error e := by
  unfold brewReturn
  rw [h]
  rfl

end Mk.Calibrate
