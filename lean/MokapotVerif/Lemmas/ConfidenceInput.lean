import MokapotVerif.Model.ConfidenceInput
import MokapotVerif.Lemmas.ConfidenceRun
import MokapotVerif.Lemmas.ConfidenceRollup
/-! Helper lemmas for the score column, repeated calls and the roll-up tool's buffered writers (C03). -/
namespace Mk

/-! ### the score column -/

theorem confAssignChunk_eq (tab : List Row) (sc : List Int) (h : tab.length = sc.length) :
    confAssignChunk tab sc = some (List.zipWith confSetScore tab sc) := by
  unfold confAssignChunk
  rw [if_pos h]

/-- the `zip` of the separately chunked table and score vector gives every row its own score -/
theorem confAttachGo_chunks (c : Nat) (hc : 0 < c) :
    ∀ (fuel : Nat) (tab : List Row) (scores : List Int),
      tab.length = scores.length → tab.length ≤ fuel →
      confAttachGo (chunksFuel c fuel tab) (chunksFuel c fuel scores)
        = some (chunksFuel c fuel (List.zipWith confSetScore tab scores)) := by
  intro fuel
  induction fuel with
  | zero =>
    intro tab scores _ _
    simp [chunksFuel, confAttachGo]
  | succ n ih =>
    intro tab scores h1 h2
    cases tab with
    | nil =>
      have hs : scores = [] := List.eq_nil_of_length_eq_zero (by simpa using h1.symm)
      subst hs
      simp [chunksFuel, confAttachGo]
    | cons r rest =>
      cases scores with
      | nil => simp at h1
      | cons s ss =>
        have hl : (List.take c (r :: rest)).length = (List.take c (s :: ss)).length := by
          simp only [List.length_take]; omega
        have hz : List.zipWith confSetScore (r :: rest) (s :: ss)
            = confSetScore r s :: List.zipWith confSetScore rest ss := rfl
        rw [hz]
        simp only [chunksFuel, confAttachGo]
        rw [confAssignChunk_eq _ _ hl]
        simp only [Option.bind_some]
        rw [ih]
        · simp only [Option.map_some]
          rw [← hz, List.take_zipWith, List.drop_zipWith]
        · simp only [List.length_drop]; omega
        · simp only [List.length_drop, List.length_cons] at *; omega

theorem confAttach_eq (c : Nat) (hc : 0 < c) (tab : List Row) (scores : List Int)
    (h : tab.length = scores.length) :
    confAttach c tab scores = some (chunksOf c (List.zipWith confSetScore tab scores)) := by
  unfold confAttach chunksOf
  have hl : (List.zipWith confSetScore tab scores).length = tab.length := by
    simp [List.length_zipWith, h]
  rw [hl, ← h]
  exact confAttachGo_chunks c hc tab.length tab scores h (le_refl _)

theorem zipWith_confSetScore_neg : ∀ (tab : List Row) (scores : List Int),
    List.zipWith confSetScore tab (scores.map (fun s => -s))
      = (List.zipWith confSetScore tab scores).map rowNeg := by
  intro tab
  induction tab with
  | nil => intro scores; simp
  | cons r rest ih =>
    intro scores
    cases scores with
    | nil => simp
    | cons s ss =>
      simp only [List.map_cons, List.zipWith_cons_cons, ih]
      simp [confSetScore, rowNeg]

/-! ### the buffered writer -/

theorem ToolBuf.close_drain (b : Nat) : ∀ (fuel : Nat) (s : ToolBuf),
    (ToolBuf.drain b fuel s).close = s.close := by
  intro fuel
  induction fuel with
  | zero => intro s; rfl
  | succ n ih =>
    intro s
    unfold ToolBuf.drain
    split
    · rw [ih]
      simp [ToolBuf.close, List.append_assoc]
    · rfl

theorem ToolBuf.close_push (b : Nat) (s : ToolBuf) (r : Row) :
    (s.push b r).close = s.close ++ [r] := by
  unfold ToolBuf.push
  rw [ToolBuf.close_drain]
  simp [ToolBuf.close]

/-- a buffer that has been drained holds fewer than `b` rows (for `b ≥ 1` and enough fuel):
the rows handed to the file writer come in slices of exactly `b` -/
theorem ToolBuf.drain_lt (b : Nat) (hb : 0 < b) : ∀ (fuel : Nat) (s : ToolBuf),
    s.buf.length ≤ fuel → (ToolBuf.drain b fuel s).buf.length < b ∨ (ToolBuf.drain b fuel s).buf.length = 0 := by
  intro fuel
  induction fuel with
  | zero =>
    intro s h
    right
    simp only [ToolBuf.drain]
    omega
  | succ n ih =>
    intro s h
    unfold ToolBuf.drain
    split
    · apply ih
      simp only [List.length_drop]
      omega
    · rename_i hn
      left
      omega

/-- what the loop without a buffer sees of a level -/
def absToolLvl (p : List Nat × ToolBuf) : LvlState := (p.1, p.2.close.reverse)

theorem absToolLvl_step (b idx : Nat) (p : List Nat × ToolBuf) (r : Row) :
    absToolLvl (toolLevelStepB b idx p r) = levelStep idx (absToolLvl p) r := by
  unfold toolLevelStepB levelStep absToolLvl
  split
  · rfl
  · simp [ToolBuf.close_push]

theorem absToolLvl_foldl (b idx : Nat) : ∀ (xs : List Row) (p : List Nat × ToolBuf),
    absToolLvl (xs.foldl (toolLevelStepB b idx) p) = xs.foldl (levelStep idx) (absToolLvl p) := by
  intro xs
  induction xs with
  | nil => intro p; rfl
  | cons x rest ih => intro p; simp only [List.foldl_cons]; rw [ih, absToolLvl_step]

/-- the buffer is invisible: the temporary level file holds the first row per id, in stream order -/
theorem toolLevelRowsB_eq (b : Nat) (cands : List RollupName) (merged : List Row) (lv : RollupName) :
    toolLevelRowsB b cands merged lv = toolLevelRows cands merged lv := by
  unfold toolLevelRowsB toolLevelRows
  have h := absToolLvl_foldl b (rollupKeyIdx cands lv) merged ([], ToolBuf.empty)
  have h2 := congrArg Prod.snd h
  simp only [absToolLvl] at h2
  rw [levelStep_snd] at h2
  have h3 : ([] : List Row) ++ ([] : List Row) = [] := rfl
  have := congrArg List.reverse h2
  simp only [List.reverse_reverse, ToolBuf.empty, ToolBuf.close, h3, List.reverse_nil, List.append_nil] at this
  simpa [ToolBuf.close, ToolBuf.empty] using this

/-! ### `append_to_output_file` -/

/-- a collection with a prefix of its own that no other collection of the call uses: its files
hold what they held before (when the caller asked for appending, nothing otherwise) followed by
its rows -/
theorem collsSpec_prefixed_app (decoys : Bool) (m : Nat) (app : Bool) :
    ∀ (colls : List (Option Nat × List (List Row))) (u : Bool) (fs : ConfFS),
      (confPrefixes colls).Nodup →
      ∀ k ∈ colls, k.1 ≠ none → ∀ n, confOwnFile decoys m k.1 n = true →
        (collsSpec decoys m app u colls fs).1 n
          = some ((if app then (fs n).getD [] else []) ++ confTdPart n.decoy (k.2.getD n.level [])) := by
  intro colls
  induction colls with
  | nil => intro u fs _ k hk; simp at hk
  | cons k0 rest ih =>
    intro u fs hnd k hk hsome n hown
    simp only [collsSpec]
    have hother : ∀ k0' : Option Nat × List (List Row), k0'.1.isSome = true →
        (∀ k' ∈ rest, k'.1 ≠ k0'.1) → ∀ n', confOwnFile decoys m k0'.1 n' = true →
        ∀ k' ∈ rest, confOwnFile decoys m k'.1 n' = false := by
      intro k0' _ hne n' hown' k' hk'
      cases ho : confOwnFile decoys m k'.1 n'
      · rfl
      · exfalso
        have hp := ((confOwnFile_iff decoys m k0'.1 n').mp hown').1
        have hp' := ((confOwnFile_iff decoys m k'.1 n').mp ho).1
        exact hne k' hk' (hp'.symm.trans hp)
    rcases List.mem_cons.mp hk with rfl | hk'
    · have hk0 : k.1.isSome = true := by
        cases hk1 : k.1 <;> simp_all
      have hk0n : k.1.isNone = false := by
        cases hk1 : k.1 <;> simp_all
      rw [collsSpec_frame]
      · cases app <;> simp [collSpec, hown, confAppendHere, hk0n]
      · apply hother k hk0 _ n hown
        intro k' hk' he
        unfold confPrefixes at hnd
        rw [List.filter_cons, if_pos hk0, List.map_cons, List.nodup_cons] at hnd
        apply hnd.1
        refine List.mem_map.mpr ⟨k', List.mem_filter.mpr ⟨hk', ?_⟩, he⟩
        rw [he]; exact hk0
    · have hnd' : (confPrefixes rest).Nodup := by
        unfold confPrefixes at hnd ⊢
        rw [List.filter_cons] at hnd
        split at hnd
        · rw [List.map_cons, List.nodup_cons] at hnd; exact hnd.2
        · exact hnd
      rw [ih _ _ hnd' k hk' hsome n hown]
      -- the first collection does not touch `n`: it has another prefix (or none)
      have hk0 : confOwnFile decoys m k0.1 n = false := by
        cases ho : confOwnFile decoys m k0.1 n
        · rfl
        · exfalso
          have hp := ((confOwnFile_iff decoys m k.1 n).mp hown).1
          have hp' := ((confOwnFile_iff decoys m k0.1 n).mp ho).1
          have he : k0.1 = k.1 := hp'.symm.trans hp
          have hks : k.1.isSome = true := by
            cases hk1 : k.1 <;> simp_all
          have hk0s : k0.1.isSome = true := by rw [he]; exact hks
          unfold confPrefixes at hnd
          rw [List.filter_cons, if_pos hk0s, List.map_cons, List.nodup_cons] at hnd
          apply hnd.1
          rw [he]
          exact List.mem_map.mpr ⟨k, List.mem_filter.mpr ⟨hk', hks⟩, rfl⟩
      simp [collSpec, hk0]

end Mk
