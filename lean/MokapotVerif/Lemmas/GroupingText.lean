import MokapotVerif.Model.GroupingText
import MokapotVerif.Lemmas.GroupingStr
import MokapotVerif.Lemmas.DecoysInput
import MokapotVerif.Props.C18Input
import Mathlib.Data.List.Perm.Basic
/-!
# Helper lemmas for `Props/C16Text.lean`: the ascending stable sort before the decoy loop,
a process whose step ignores its state.
-/
namespace Mk.Grouping
variable {α β : Type}

theorem sortAsc_perm (P : List (Prot α β)) : (sortAsc P).Perm P := List.mergeSort_perm _ _

theorem sortAsc_sorted (P : List (Prot α β)) :
    (sortAsc P).Pairwise (fun a b => a.2.length ≤ b.2.length) := by
  have h := List.pairwise_mergeSort (le := fun a b : Prot α β => decide (a.2.length ≤ b.2.length))
    (fun a b c hab hbc => by
      simp only [decide_eq_true_eq] at hab hbc ⊢; omega)
    (fun a b => by
      simp only [Bool.or_eq_true, decide_eq_true_eq]; omega) P
  simpa [sortAsc] using h

/-- stability: two proteins that stand in this order in the dict and whose sizes are in
ascending order keep their order -/
theorem sortAsc_stable (P : List (Prot α β)) (a b : Prot α β) (hab : [a, b].Sublist P)
    (hle : a.2.length ≤ b.2.length) : [a, b].Sublist (sortAsc P) := by
  unfold sortAsc
  exact List.pair_sublist_mergeSort
    (fun a b c hab hbc => by
      simp only [decide_eq_true_eq] at hab hbc ⊢; omega)
    (fun a b => by
      simp only [Bool.or_eq_true, decide_eq_true_eq]; omega)
    (by simpa using hle) hab

theorem decoyMap_perm (isDecoy : α → Bool) (mkDecoy : α → α) {P Q : List (Prot α β)} (h : P.Perm Q) :
    (decoyMap isDecoy mkDecoy P).Perm (decoyMap isDecoy mkDecoy Q) := by
  unfold decoyMap
  exact (h.filter _).map _

theorem toSet_eq_nil {γ : Type} [DecidableEq γ] {l : List γ} : toSet l = [] ↔ l = [] := by
  have h := toSet_isEmpty l
  constructor
  · intro h0
    rw [h0] at h
    exact List.isEmpty_iff.mp h.symm
  · intro h0; subst h0; rfl

/-! ### the reader on input that begins with `>` -/

theorem joinWith_head_gt (gs : List (List Char)) (hne : gs ≠ [])
    (h : ∀ g ∈ gs, g.head? = some '>') : ∃ rest, Mk.Decoys.joinWith ['\n'] gs = '>' :: rest := by
  cases gs with
  | nil => exact absurd rfl hne
  | cons g tl =>
    have hg := h g (by simp)
    cases g with
    | nil => simp at hg
    | cons c b =>
      simp only [List.head?_cons, Option.some.injEq] at hg
      subst hg
      cases tl with
      | nil => exact ⟨b, rfl⟩
      | cons g2 tl2 => exact ⟨b ++ ['\n'] ++ Mk.Decoys.joinWith ['\n'] (g2 :: tl2), by simp [Mk.Decoys.joinWith]⟩

/-- when the joined text begins with `>` the repaired reader splits what follows that `>` (what the
line did before the repair, and what `Mk.Decoys.parseFastaFiles` does in either version) -/
theorem parseFilesR_headed (files : List (List Char)) (rest : List Char)
    (h : Mk.Decoys.joinWith ['\n'] (files.map Mk.Decoys.univNL) = '>' :: rest) :
    parseFilesR files = Mk.Decoys.splitRecords rest := by
  unfold parseFilesR
  rw [h]
  simp [Mk.Decoys.splitRecords]

set_option linter.unusedTactic false in
set_option linter.unreachableTactic false in
theorem parseFilesR_eq_decoys (files : List (List Char)) (rest : List Char)
    (h : Mk.Decoys.joinWith ['\n'] (files.map Mk.Decoys.univNL) = '>' :: rest) :
    parseFilesR files = Mk.Decoys.parseFastaFiles files := by
  rw [parseFilesR_headed files rest h]
  unfold Mk.Decoys.parseFastaFiles
  rw [h]
  all_goals (first | rfl | simp [Mk.Decoys.splitRecords])

/-- **the reader on laid-out FASTA input** (the declarative input description of C18): the proteins
of all records in file and record order -/
theorem parseFastaR_fasta_input (fss : List (Mk.Decoys.Eol × List Mk.Decoys.FastaRec)) (hne : fss ≠ [])
    (hfile : ∀ p ∈ fss, p.2 ≠ []) (hok : ∀ p ∈ fss, ∀ r ∈ p.2, Mk.Decoys.RecOK r) :
    parseFastaR (fss.map (fun p => Mk.Decoys.encodeEol p.1 (Mk.Decoys.fastaFileText p.2)))
      = some ((fss.flatMap (·.2)).map Mk.Decoys.FastaRec.entry) := by
  have hh : ∀ g ∈ (fss.map (fun p => Mk.Decoys.encodeEol p.1 (Mk.Decoys.fastaFileText p.2))).map Mk.Decoys.univNL,
      g.head? = some '>' := by
    intro g hg
    obtain ⟨f, hf, rfl⟩ := List.mem_map.mp hg
    obtain ⟨p, hp, rfl⟩ := List.mem_map.mp hf
    rw [Mk.Decoys.univNL_encodeEol p.1 _ (Mk.Decoys.fastaFileText_no_cr p.2 (hok p hp))]
    exact Mk.Decoys.fastaFileText_head p.2 (hfile p hp)
  obtain ⟨rest, hrest⟩ := joinWith_head_gt _ (by simpa using hne) hh
  have h := Mk.Decoys.C18_fasta_input_parse fss hne hfile hok
  unfold Mk.Decoys.parseFasta at h
  unfold parseFastaR
  rw [parseFilesR_eq_decoys _ rest hrest]
  exact h

/-- a process whose step hands the state on untouched returns, call by call, the results of
the calls taken alone -/
theorem runProcess_stateless {σ κ ρ : Type} (f : κ → ρ) (s : σ) (calls : List κ) :
    runProcess (fun st c => (st, f c)) s calls = calls.map f := by
  induction calls generalizing s with
  | nil => rfl
  | cons c cs ih => simp [runProcess, ih]

end Mk.Grouping
