import MokapotVerif.Lemmas.PinTsvPass2
import MokapotVerif.Model.PinTsvEdge
/-!
# Lemmas for the third pass of C19 (empty edge fields, agreement of converter and validity test)
-/
namespace Mk

theorem takeWhile_all (p : Char → Bool) (l : Str) : ∀ c ∈ l.takeWhile p, p c = true := by
  induction l with
  | nil => intro c hc; cases hc
  | cons x l ih =>
    intro c hc
    by_cases hx : p x = true
    · rw [List.takeWhile_cons_of_pos hx] at hc
      rcases List.mem_cons.mp hc with rfl | h
      · exact hx
      · exact ih c h
    · rw [List.takeWhile_cons_of_neg hx] at hc; cases hc

/-- what `chomp` removes consists of line terminator characters -/
theorem chomp_split (l : Str) : ∃ b, l = chomp l ++ b ∧ ∀ c ∈ b, isEol c = true := by
  refine ⟨(l.reverse.takeWhile isEol).reverse, ?_, ?_⟩
  · unfold chomp
    rw [← List.reverse_append, List.takeWhile_append_dropWhile, List.reverse_reverse]
  · intro c hc
    rw [List.mem_reverse] at hc
    exact takeWhile_all isEol _ c hc

/-- the converter (which looks at the line without its terminator) and `is_valid_tsv` (which looks at
the raw line) recognise the same lines as DefaultDirection lines -/
theorem isDD_chomp (l : Str) : isDD (chomp l) = isDD l := by
  obtain ⟨b, hb, hall⟩ := chomp_split l
  conv => rhs; rw [hb]
  exact (isDD_append_pad (chomp l) b (fun c hc => isEol_not_space c (hall c hc))).symm

theorem lineEnds_eol (e : Str) (he : e ∈ lineEnds) : ∀ c ∈ e, isEol c = true := by
  simp only [lineEnds, List.mem_cons, List.not_mem_nil, or_false] at he
  rcases he with rfl | rfl | rfl
  · intro c hc; cases hc
  · intro c hc; simp at hc; subst hc; decide
  · intro c hc; simp at hc; rcases hc with rfl | rfl <;> decide

/-- what may follow a line (carriage returns) never holds the column separator -/
theorem padOk_not_mem (sepC : Char) (p : Str) (hs : isEol sepC = false) (h : padOk p = true) : sepC ∉ p := by
  intro hm
  have := ((padOk_iff p).mp h).1 sepC hm
  rw [hs] at this
  cases this

/-- a plain, rectangular document without DefaultDirection line is its own table -/
theorem renderTsv_of_plain_valid (sepC : Char) (sepP : Str) (d : PinDoc)
    (hL : d.hpadL = []) (hrL : ∀ r ∈ d.rows, r.padL = [])
    (hp : d.plain = true) (hv : docValidSpec d = true) :
    renderTsv sepC sepP d = renderPin sepC d := by
  simp only [PinDoc.plain, Bool.and_eq_true, List.isEmpty_iff, List.all_eq_true] at hp
  obtain ⟨⟨h1, h2⟩, h3⟩ := hp
  simp only [docValidSpec, PinDoc.rectangular, Bool.and_eq_true, Option.isNone_iff_eq_none,
    List.all_eq_true, beq_iff_eq] at hv
  obtain ⟨hdd, hrect⟩ := hv
  unfold renderTsv renderTable specTable renderPin PinDoc.lines PinDoc.headerLine
  rw [h3, hdd, hL, h1]
  simp only [List.map_cons, List.map_map, Option.toList_none, List.nil_append, List.append_nil]
  congr 2
  apply List.map_congr_left
  intro r hr
  simp only [Function.comp, PinRow.line, PinRow.tsvFields, PinRow.fields]
  rw [hrL r hr, h2 r hr]
  have h1p := hrect r hr
  obtain ⟨x, hx⟩ := List.length_eq_one_iff.mp h1p
  rw [hx]
  simp [joinWith]

end Mk
