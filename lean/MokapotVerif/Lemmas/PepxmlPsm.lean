import MokapotVerif.Lemmas.PepxmlMods
/-!
# `_parse_psm`: the loop over child elements decomposes by element kind;
nested generators flatten to the document-order list of hits.
-/
namespace Mk.Pepxml

/-! ### the fold over children -/

theorem foldl_childStep_proteins (pfx : Str) (cs : List Child) (p : Psm) :
    (cs.foldl (childStep pfx) p).proteins = p.proteins ++ (cs.filterMap childAlt).map accession := by
  induction cs generalizing p with
  | nil => simp
  | cons c cs ih =>
    rw [List.foldl_cons, ih]
    cases c <;> simp [childStep, childAlt, List.filterMap_cons]

theorem foldl_childStep_label (pfx : Str) (cs : List Child) (p : Psm) :
    (cs.foldl (childStep pfx) p).label
      = (p.label || ((cs.filterMap childAlt).map accession).any (fun a => !isDecoyAcc pfx a)) := by
  induction cs generalizing p with
  | nil => simp
  | cons c cs ih =>
    rw [List.foldl_cons, ih]
    cases c with
    | mods ms => simp [childStep, childAlt, List.filterMap_cons]
    | score n v => simp [childStep, childAlt, List.filterMap_cons]
    | alt a =>
      cases hl : p.label <;> simp [childStep, childAlt, relabel, hl]

theorem foldl_childStep_peptide (pfx : Str) (cs : List Child) (p : Psm) :
    (cs.foldl (childStep pfx) p).peptide = (cs.filterMap childMods).foldl insertMods p.peptide := by
  induction cs generalizing p with
  | nil => simp
  | cons c cs ih =>
    rw [List.foldl_cons, ih]
    cases c <;> simp [childStep, childMods, List.filterMap_cons]

def scoreStep (d : List (String × Cell)) (kv : String × Num) : List (String × Cell) :=
  dictSet kv.1 (.text kv.2) d

theorem foldl_childStep_feats (pfx : Str) (cs : List Child) (p : Psm) :
    (cs.foldl (childStep pfx) p).feats = (cs.filterMap childScore).foldl scoreStep p.feats := by
  induction cs generalizing p with
  | nil => simp
  | cons c cs ih =>
    rw [List.foldl_cons, ih]
    cases c <;> simp [childStep, childScore, scoreStep, List.filterMap_cons]

theorem foldl_childStep_fixed (pfx : Str) (cs : List Child) (p : Psm) :
    let q := cs.foldl (childStep pfx) p
    q.msDataFile = p.msDataFile ∧ q.scan = p.scan ∧ q.charge = p.charge ∧ q.retTime = p.retTime ∧
      q.expMass = p.expMass ∧ q.calcMass = p.calcMass := by
  induction cs generalizing p with
  | nil => simp
  | cons c cs ih =>
    simp only [List.foldl_cons]
    have := ih (childStep pfx p c)
    cases c <;> simpa [childStep] using this

/-! ### the insertion-ordered dict -/

theorem lookup_cons_ite {β : Type} (k' a : String) (b : β) (es : List (String × β)) :
    List.lookup k' ((a, b) :: es) = if k' = a then some b else es.lookup k' := by
  by_cases h : k' = a
  · simp [List.lookup, h]
  · have : (k' == a) = false := by simpa using h
    simp [List.lookup, this, h]

theorem lookup_dictSet (k k' : String) (v : Cell) (d : List (String × Cell)) :
    (dictSet k v d).lookup k' = if k' = k then some v else d.lookup k' := by
  induction d with
  | nil => simp [dictSet, lookup_cons_ite]
  | cons kv rest ih =>
    obtain ⟨a, b⟩ := kv
    unfold dictSet
    by_cases h : a = k
    · subst h
      by_cases h' : k' = a <;> simp [lookup_cons_ite, h']
    · simp only [h, if_false, lookup_cons_ite, ih]
      by_cases h' : k' = a
      · subst h'
        simp [h]
      · simp [h']

theorem keys_dictSet (k : String) (v : Cell) (d : List (String × Cell)) :
    (dictSet k v d).map (·.1) = addKey (d.map (·.1)) k := by
  induction d with
  | nil => simp [dictSet, addKey]
  | cons kv rest ih =>
    unfold dictSet
    by_cases h : kv.1 = k
    · simp [h, addKey]
    · have hk : ¬ k = kv.1 := fun e => h e.symm
      by_cases hm : k ∈ rest.map (·.1)
      · have : addKey (rest.map (·.1)) k = rest.map (·.1) := by simp [addKey, hm]
        simp [h, ih, addKey, hm]
      · have : addKey (rest.map (·.1)) k = rest.map (·.1) ++ [k] := by simp [addKey, hm]
        simp only [h, if_false, List.map_cons, ih, addKey, List.contains_iff_mem, List.mem_cons, hk,
          hm, or_self, List.cons_append]

/-- the value stored under `k` after all scores: the last score named `k`,
else what was there before -/
theorem lookup_foldl_scoreStep (scores : List (String × Num)) (d : List (String × Cell)) (k : String) :
    (scores.foldl scoreStep d).lookup k = ((scores.reverse.lookup k).map Cell.text).or (d.lookup k) := by
  induction scores generalizing d with
  | nil => simp
  | cons kv rest ih =>
    rw [List.foldl_cons, ih]
    obtain ⟨n, v⟩ := kv
    simp only [scoreStep, lookup_dictSet, List.reverse_cons]
    rw [List.lookup_append]
    cases h : rest.reverse.lookup k with
    | some w => simp
    | none =>
      by_cases hk : k = n
      · simp [hk, List.lookup]
      · have : (k == n) = false := by simpa using hk
        simp [hk, List.lookup, this]

theorem keys_foldl_scoreStep (scores : List (String × Num)) (d : List (String × Cell)) :
    (scores.foldl scoreStep d).map (·.1) = (scores.map (·.1)).foldl addKey (d.map (·.1)) := by
  induction scores generalizing d with
  | nil => simp
  | cons kv rest ih => rw [List.foldl_cons, ih, List.map_cons, List.foldl_cons, scoreStep, keys_dictSet]

/-! ### key unions -/

theorem mem_addKey (acc : List String) (k k' : String) : k' ∈ addKey acc k ↔ k' ∈ acc ∨ k' = k := by
  unfold addKey
  by_cases h : k ∈ acc
  · simp only [List.contains_iff_mem, h, if_true]
    constructor
    · exact Or.inl
    · rintro (h' | rfl)
      · exact h'
      · exact h
  · simp [h]

theorem nodup_addKey (acc : List String) (k : String) (h : acc.Nodup) : (addKey acc k).Nodup := by
  unfold addKey
  by_cases hk : k ∈ acc
  · simpa [hk] using h
  · simp only [List.contains_iff_mem, hk, if_false]
    rw [List.nodup_append]
    exact ⟨h, by simp, by
      intro a ha b hb
      simp at hb
      subst hb
      exact fun e => hk (e ▸ ha)⟩

theorem mem_foldl_addKey (ks acc : List String) (k : String) :
    k ∈ ks.foldl addKey acc ↔ k ∈ acc ∨ k ∈ ks := by
  induction ks generalizing acc with
  | nil => simp
  | cons a ks ih =>
    rw [List.foldl_cons, ih, mem_addKey]
    simp only [List.mem_cons]
    tauto

theorem nodup_foldl_addKey (ks acc : List String) (h : acc.Nodup) : (ks.foldl addKey acc).Nodup := by
  induction ks generalizing acc with
  | nil => simpa
  | cons a ks ih => exact ih _ (nodup_addKey acc a h)

theorem mem_unionKeys (ks : List String) (k : String) : k ∈ unionKeys ks ↔ k ∈ ks := by
  simp [unionKeys, mem_foldl_addKey]

theorem nodup_unionKeys (ks : List String) : (unionKeys ks).Nodup :=
  nodup_foldl_addKey ks [] List.nodup_nil

end Mk.Pepxml
