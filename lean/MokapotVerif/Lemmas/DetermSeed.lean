import MokapotVerif.Lemmas.Determ
/-! Helper lemmas for C08 (second pass): draw sequences (`runDraws` lengths, prefixes) and the seed argument of
the confidence run (`runSeeded`). -/
namespace Mk.Determ
variable {σ ν : Type}

theorem runDraws_length (G : Gen σ ν) (s : σ) (ds : List Draw) : (runDraws G s ds).1.length = ds.length := by
  induction ds generalizing s with
  | nil => rfl
  | cons d ds ih => simp [runDraws_cons, ih]

theorem runDraws_append' (G : Gen σ ν) (s : σ) (a b : List Draw) :
    runDraws G s (a ++ b) =
      ((runDraws G s a).1 ++ (runDraws G (runDraws G s a).2 b).1, (runDraws G (runDraws G s a).2 b).2) := by
  induction a generalizing s with
  | nil => simp [runDraws_nil]
  | cons d ds ih => simp [runDraws_cons, ih]

/-- the values of a prefix of the requests are a prefix of the values -/
theorem runDraws_take (G : Gen σ ν) (s : σ) (a b : List Draw) :
    (runDraws G s (a ++ b)).1.take a.length = (runDraws G s a).1 := by
  rw [runDraws_append']
  simp [← runDraws_length G s a]

theorem runSeeded_nil (G : Gen σ ν) (arg : SeedArg σ) (s : σ) : runSeeded G arg s [] = ([], s) := rfl

theorem runSeeded_cons (G : Gen σ ν) (arg : SeedArg σ) (s : σ) (d : Draw) (ds : List Draw) :
    runSeeded G arg s (d :: ds) =
      ((seededStep G arg s d).1 :: (runSeeded G arg (seededStep G arg s d).2 ds).1,
       (runSeeded G arg (seededStep G arg s d).2 ds).2) := rfl

/-- an int seed: every shuffle is the first draw of a generator in the state the seed determines; the caller
has no generator that could be advanced -/
theorem runSeeded_seed (G : Gen σ ν) (init s : σ) (ds : List Draw) :
    runSeeded G (.seed init) s ds = (ds.map (fun d => (G.step init d).1), s) := by
  induction ds with
  | nil => rfl
  | cons d ds ih => simp [runSeeded_cons, seededStep, ih]

/-- a Generator object: the shuffles are consecutive draws on the caller's generator -/
theorem runSeeded_gen (G : Gen σ ν) (s : σ) (ds : List Draw) : runSeeded G .gen s ds = runDraws G s ds := by
  induction ds generalizing s with
  | nil => rfl
  | cons d ds ih => simp [runSeeded_cons, runDraws_cons, seededStep, ih]

theorem confDraws_append (hasDecoys : Bool) (nTargets : Nat) (a b : List Nat) :
    confDraws hasDecoys nTargets (a ++ b) = confDraws hasDecoys nTargets a ++ confDraws hasDecoys nTargets b := by
  simp [confDraws]

theorem protDraws_length (hasDecoys : Bool) (nTargets nRows : Nat) :
    (protDraws hasDecoys nTargets nRows).length = if hasDecoys then 1 else 2 := by
  cases hasDecoys <;> simp [protDraws]

end Mk.Determ
