import MokapotVerif.Lemmas.FsRun
/-!
# Helper lemmas for C09: the operation list of `assign_confidence` — which operations it
contains, which names it writes, that it is well-initialised, and that its intermediates are
removed last.
-/
namespace Mk.FsRun

variable (k nl : Nat) (decoys : Bool) (hdr data lvhdr lvdata res resd : Nat → Outs → List Nat)

/-! ## membership of the initialising / removing operations -/

theorem mem_phase1_target {l : Nat} (hl : l < nl) :
    Op.trunc (.target l) (hdr l) ∈ phase1 nl decoys hdr := by
  simp only [phase1, List.mem_flatMap, List.mem_range]
  exact ⟨l, hl, by simp [initLevelOps]⟩

theorem mem_phase1_decoy {l : Nat} (hl : l < nl) (hd : decoys = true) :
    Op.trunc (.decoy l) (hdr l) ∈ phase1 nl decoys hdr := by
  simp only [phase1, List.mem_flatMap, List.mem_range]
  exact ⟨l, hl, by simp [initLevelOps, hd]⟩

theorem mem_phase2 {i : Nat} (hi : i < k) : Op.trunc (.chunk i) (data i) ∈ phase2 k data := by
  simp only [phase2, List.mem_map, List.mem_range]
  exact ⟨i, hi, rfl⟩

theorem mem_phase4 {l : Nat} (hl : l < nl) :
    Op.trunc (.level l) (lvhdr l) ∈ phase4 nl lvhdr lvdata := by
  simp only [phase4, List.mem_flatMap, List.mem_range]
  exact ⟨l, hl, by simp [levelOps]⟩

theorem mem_phase5 {i : Nat} (hi : i < k) : Op.unlink (.chunk i) ∈ phase5 k := by
  simp only [phase5, List.mem_map, List.mem_range]
  exact ⟨i, hi, rfl⟩

theorem mem_phase6 {l : Nat} (hl : l < nl) :
    Op.unlink (.level l) ∈ phase6 nl decoys res resd := by
  simp only [phase6, List.mem_flatMap, List.mem_range]
  exact ⟨l, hl, by simp [finishLevelOps]⟩

/-! ## the names written -/

theorem writes_append (p q : List Op) : writes (p ++ q) = writes p ++ writes q := by
  simp [writes]

theorem mem_writes_iff (p : List Op) (n : Name) : n ∈ writes p ↔ ∃ op ∈ p, n ∈ writesOp op := by
  simp [writes, List.mem_flatMap]

theorem writes_phase1 {n : Name} (h : n ∈ writes (phase1 nl decoys hdr)) :
    ∃ l, l < nl ∧ (n = .target l ∨ (decoys = true ∧ n = .decoy l)) := by
  rw [mem_writes_iff] at h
  obtain ⟨op, hop, hn⟩ := h
  simp only [phase1, List.mem_flatMap, List.mem_range] at hop
  obtain ⟨l, hl, hop⟩ := hop
  refine ⟨l, hl, ?_⟩
  cases decoys <;> simp only [initLevelOps, List.mem_cons, List.not_mem_nil, or_false,
    if_true, if_false, Bool.false_eq_true] at hop
  · subst hop; simp only [writesOp, List.mem_singleton] at hn; exact Or.inl hn
  · rcases hop with rfl | rfl <;> simp only [writesOp, List.mem_singleton] at hn
    · exact Or.inl hn
    · exact Or.inr ⟨rfl, hn⟩

theorem writes_phase2 {n : Name} (h : n ∈ writes (phase2 k data)) : ∃ i, i < k ∧ n = .chunk i := by
  rw [mem_writes_iff] at h
  obtain ⟨op, hop, hn⟩ := h
  simp only [phase2, List.mem_map, List.mem_range] at hop
  obtain ⟨i, hi, rfl⟩ := hop
  simp only [writesOp, List.mem_singleton] at hn
  exact ⟨i, hi, hn⟩

theorem writes_phase3 : writes (phase3 k) = [] := by
  simp [writes, phase3, writesOp]

theorem writes_phase4 {n : Name} (h : n ∈ writes (phase4 nl lvhdr lvdata)) :
    ∃ l, l < nl ∧ n = .level l := by
  rw [mem_writes_iff] at h
  obtain ⟨op, hop, hn⟩ := h
  simp only [phase4, List.mem_flatMap, List.mem_range] at hop
  obtain ⟨l, hl, hop⟩ := hop
  simp only [levelOps, List.mem_cons, List.not_mem_nil, or_false] at hop
  rcases hop with rfl | rfl <;> simp only [writesOp, List.mem_singleton] at hn <;>
    exact ⟨l, hl, hn⟩

theorem writes_phase5 {n : Name} (h : n ∈ writes (phase5 k)) : ∃ i, i < k ∧ n = .chunk i := by
  rw [mem_writes_iff] at h
  obtain ⟨op, hop, hn⟩ := h
  simp only [phase5, List.mem_map, List.mem_range] at hop
  obtain ⟨i, hi, rfl⟩ := hop
  simp only [writesOp, List.mem_singleton] at hn
  exact ⟨i, hi, hn⟩

/-- the operations of phase 6 for one level -/
theorem mem_finishLevelOps {op : Op} {l : Nat} (h : op ∈ finishLevelOps decoys res resd l) :
    op = .read (.level l) ∨ op = .append (.target l) (res l) ∨
      (decoys = true ∧ op = .append (.decoy l) (resd l)) ∨ op = .unlink (.level l) := by
  cases decoys <;> simp only [finishLevelOps, List.mem_cons, List.mem_append, List.not_mem_nil,
    or_false, false_or, if_true, if_false, Bool.false_eq_true] at h
  · rcases h with h | h | h
    · exact Or.inl h
    · exact Or.inr (Or.inl h)
    · exact Or.inr (Or.inr (Or.inr h))
  · rcases h with h | h | h | h
    · exact Or.inl h
    · exact Or.inr (Or.inl h)
    · exact Or.inr (Or.inr (Or.inl ⟨rfl, h⟩))
    · exact Or.inr (Or.inr (Or.inr h))

theorem writes_phase6 {n : Name} (h : n ∈ writes (phase6 nl decoys res resd)) :
    ∃ l, l < nl ∧ (n = .target l ∨ (decoys = true ∧ n = .decoy l) ∨ n = .level l) := by
  rw [mem_writes_iff] at h
  obtain ⟨op, hop, hn⟩ := h
  simp only [phase6, List.mem_flatMap, List.mem_range] at hop
  obtain ⟨l, hl, hop⟩ := hop
  refine ⟨l, hl, ?_⟩
  rcases mem_finishLevelOps decoys res resd hop with rfl | rfl | ⟨hd, rfl⟩ | rfl <;>
    simp only [writesOp, List.mem_singleton, List.not_mem_nil] at hn
  · exact Or.inl hn
  · exact Or.inr (Or.inl ⟨hd, hn⟩)
  · exact Or.inr (Or.inr hn)

/-- every name the run writes is one of its own chunk, level or result files -/
theorem writes_confidenceProg {n : Name}
    (h : n ∈ writes (confidenceProg k nl decoys hdr data lvhdr lvdata res resd)) :
    (∃ i, i < k ∧ n = .chunk i) ∨
      ∃ l, l < nl ∧ (n = .target l ∨ (decoys = true ∧ n = .decoy l) ∨ n = .level l) := by
  simp only [confidenceProg, writes_append, List.mem_append, writes_phase3, List.not_mem_nil,
    false_or] at h
  rcases h with h | h | h | h | h
  · obtain ⟨l, hl, h⟩ := writes_phase1 nl decoys hdr h
    refine Or.inr ⟨l, hl, ?_⟩
    rcases h with h | h
    · exact Or.inl h
    · exact Or.inr (Or.inl h)
  · exact Or.inl (writes_phase2 k data h)
  · obtain ⟨l, hl, h⟩ := writes_phase4 nl lvhdr lvdata h
    exact Or.inr ⟨l, hl, Or.inr (Or.inr h)⟩
  · exact Or.inl (writes_phase5 k h)
  · exact Or.inr (writes_phase6 nl decoys res resd h)

/-! ## well-initialised -/

theorem wellInit_phase1 (known : List Name) : wellInit known (phase1 nl decoys hdr) = true := by
  apply wellInit_flatMap
  intro l _
  cases decoys <;> simp [initLevelOps, wellInit, okStep]

theorem wellInit_phase2 (known : List Name) : wellInit known (phase2 k data) = true := by
  apply wellInit_of_forall
  intro op hop
  simp only [phase2, List.mem_map] at hop
  obtain ⟨i, _, rfl⟩ := hop
  rfl

theorem wellInit_phase3 (known : List Name) (h : ∀ i, i < k → Name.chunk i ∈ known) :
    wellInit known (phase3 k) = true := by
  apply wellInit_of_forall
  intro op hop
  simp only [phase3, List.mem_map, List.mem_range] at hop
  obtain ⟨i, hi, rfl⟩ := hop
  simp only [okStep, decide_eq_true_eq]
  exact h i hi

theorem wellInit_phase4 (known : List Name) :
    wellInit known (phase4 nl lvhdr lvdata) = true := by
  apply wellInit_flatMap
  intro l _
  simp [levelOps, wellInit, okStep, knownStep]

theorem wellInit_phase5 (known : List Name) : wellInit known (phase5 k) = true := by
  apply wellInit_of_forall
  intro op hop
  simp only [phase5, List.mem_map] at hop
  obtain ⟨i, _, rfl⟩ := hop
  rfl

theorem wellInit_phase6 (known : List Name)
    (h : ∀ l, l < nl → Name.level l ∈ known ∧ Name.target l ∈ known ∧
      (decoys = true → Name.decoy l ∈ known)) :
    wellInit known (phase6 nl decoys res resd) = true := by
  apply wellInit_flatMap
  intro l hl
  obtain ⟨h1, h2, h3⟩ := h l (List.mem_range.mp hl)
  cases decoys
  · simp [finishLevelOps, wellInit, okStep, knownStep, h1, h2]
  · simp [finishLevelOps, wellInit, okStep, knownStep, h1, h2, h3 rfl]

theorem wellInit_confidenceProg (known : List Name) :
    wellInit known (confidenceProg k nl decoys hdr data lvhdr lvdata res resd) = true := by
  unfold confidenceProg
  rw [wellInit_append, wellInit_append, wellInit_append, wellInit_append, wellInit_append]
  simp only [Bool.and_eq_true]
  refine ⟨wellInit_phase1 nl decoys hdr _, wellInit_phase2 k data _, ?_,
    wellInit_phase4 nl lvhdr lvdata _, wellInit_phase5 k _, ?_⟩
  · apply wellInit_phase3
    intro i hi
    exact mem_knownAfter_of_op (mem_phase2 k data hi) (by simp [knownStep])
  · apply wellInit_phase6
    intro l hl
    refine ⟨?_, ?_, ?_⟩
    · apply mem_knownAfter_of_mem
      exact mem_knownAfter_of_op (mem_phase4 nl lvhdr lvdata hl) (by simp [knownStep])
    · iterate 4 apply mem_knownAfter_of_mem
      exact mem_knownAfter_of_op (mem_phase1_target nl decoys hdr hl) (by simp [knownStep])
    · intro hd
      iterate 4 apply mem_knownAfter_of_mem
      exact mem_knownAfter_of_op (mem_phase1_decoy nl decoys hdr hl hd) (by simp [knownStep])

/-- result files are known at the end -/
theorem target_mem_knownAfter (known : List Name) {l : Nat} (hl : l < nl) :
    Name.target l ∈
      knownAfter known (confidenceProg k nl decoys hdr data lvhdr lvdata res resd) := by
  unfold confidenceProg
  rw [knownAfter_append]
  apply mem_knownAfter_of_mem
  exact mem_knownAfter_of_op (mem_phase1_target nl decoys hdr hl) (by simp [knownStep])

theorem decoy_mem_knownAfter (known : List Name) {l : Nat} (hl : l < nl) (hd : decoys = true) :
    Name.decoy l ∈
      knownAfter known (confidenceProg k nl decoys hdr data lvhdr lvdata res resd) := by
  unfold confidenceProg
  rw [knownAfter_append]
  apply mem_knownAfter_of_mem
  exact mem_knownAfter_of_op (mem_phase1_decoy nl decoys hdr hl hd) (by simp [knownStep])

/-! ## the intermediates are removed last -/

theorem absent_chunk (b : Bool) {i : Nat} (hi : i < k) :
    absentAfter (.chunk i) b (confidenceProg k nl decoys hdr data lvhdr lvdata res resd)
      = true := by
  unfold confidenceProg
  rw [absentAfter_append, absentAfter_append, absentAfter_append, absentAfter_append,
    absentAfter_append]
  rw [absentAfter_of_not_writes _ _ (phase6 nl decoys res resd)]
  · apply absentAfter_of_unlink _ _ _ (mem_phase5 k hi)
    intro op hop
    simp only [phase5, List.mem_map] at hop
    obtain ⟨j, _, rfl⟩ := hop
    simp [absentStep]
  · intro h
    obtain ⟨l, _, h⟩ := writes_phase6 nl decoys res resd h
    rcases h with h | ⟨_, h⟩ | h <;> exact Name.noConfusion h

theorem absent_level (b : Bool) {l : Nat} (hl : l < nl) :
    absentAfter (.level l) b (confidenceProg k nl decoys hdr data lvhdr lvdata res resd)
      = true := by
  unfold confidenceProg
  rw [absentAfter_append, absentAfter_append, absentAfter_append, absentAfter_append,
    absentAfter_append]
  apply absentAfter_of_unlink _ _ _ (mem_phase6 nl decoys res resd hl)
  intro op hop
  simp only [phase6, List.mem_flatMap] at hop
  obtain ⟨l', _, hop⟩ := hop
  rcases mem_finishLevelOps decoys res resd hop with rfl | rfl | ⟨_, rfl⟩ | rfl <;>
    simp [absentStep]

/-! ## the result files are created and never removed -/

/-- the only files the run unlinks are its own chunk and level files; it moves nothing -/
theorem ops_confidenceProg {op : Op}
    (h : op ∈ confidenceProg k nl decoys hdr data lvhdr lvdata res resd) :
    (∃ n f, op = .trunc n f) ∨ (∃ n f, op = .append n f) ∨ (∃ n, op = .read n) ∨
      (∃ i, op = .unlink (.chunk i)) ∨ (∃ l, op = .unlink (.level l)) := by
  simp only [confidenceProg, List.mem_append] at h
  rcases h with h | h | h | h | h | h
  · simp only [phase1, List.mem_flatMap] at h
    obtain ⟨l, _, h⟩ := h
    cases decoys <;> simp only [initLevelOps, List.mem_cons, List.not_mem_nil, or_false,
      if_true, if_false, Bool.false_eq_true] at h
    · exact Or.inl ⟨_, _, h⟩
    · rcases h with h | h <;> exact Or.inl ⟨_, _, h⟩
  · simp only [phase2, List.mem_map] at h
    obtain ⟨i, _, rfl⟩ := h
    exact Or.inl ⟨_, _, rfl⟩
  · simp only [phase3, List.mem_map] at h
    obtain ⟨i, _, rfl⟩ := h
    exact Or.inr (Or.inr (Or.inl ⟨_, rfl⟩))
  · simp only [phase4, List.mem_flatMap, levelOps, List.mem_cons, List.not_mem_nil,
      or_false] at h
    obtain ⟨l, _, h | h⟩ := h
    · exact Or.inl ⟨_, _, h⟩
    · exact Or.inr (Or.inl ⟨_, _, h⟩)
  · simp only [phase5, List.mem_map] at h
    obtain ⟨i, _, rfl⟩ := h
    exact Or.inr (Or.inr (Or.inr (Or.inl ⟨_, rfl⟩)))
  · simp only [phase6, List.mem_flatMap] at h
    obtain ⟨l, _, h⟩ := h
    rcases mem_finishLevelOps decoys res resd h with rfl | rfl | ⟨_, rfl⟩ | rfl
    · exact Or.inr (Or.inr (Or.inl ⟨_, rfl⟩))
    · exact Or.inr (Or.inl ⟨_, _, rfl⟩)
    · exact Or.inr (Or.inl ⟨_, _, rfl⟩)
    · exact Or.inr (Or.inr (Or.inr (Or.inr ⟨_, rfl⟩)))

theorem present_of_trunc (b : Bool) (n : Name) (f : Outs → List Nat)
    (hn : (∀ i, n ≠ .chunk i) ∧ (∀ l, n ≠ .level l))
    (hm : Op.trunc n f ∈ confidenceProg k nl decoys hdr data lvhdr lvdata res resd) :
    presentAfter n b (confidenceProg k nl decoys hdr data lvhdr lvdata res resd) = true := by
  apply presentAfter_of_trunc n f b _ hm
  intro op hop
  rcases ops_confidenceProg k nl decoys hdr data lvhdr lvdata res resd hop with
    ⟨m, g, rfl⟩ | ⟨m, g, rfl⟩ | ⟨m, rfl⟩ | ⟨i, rfl⟩ | ⟨l, rfl⟩
  · simp [presentStep]
  · simp [presentStep]
  · rfl
  · simp [presentStep, Ne.symm (hn.1 i)]
  · simp [presentStep, Ne.symm (hn.2 l)]

theorem mem_confidenceProg_target {l : Nat} (hl : l < nl) :
    Op.trunc (.target l) (hdr l) ∈ confidenceProg k nl decoys hdr data lvhdr lvdata res resd :=
  List.mem_append_left _ (mem_phase1_target nl decoys hdr hl)

theorem mem_confidenceProg_decoy {l : Nat} (hl : l < nl) (hd : decoys = true) :
    Op.trunc (.decoy l) (hdr l) ∈ confidenceProg k nl decoys hdr data lvhdr lvdata res resd :=
  List.mem_append_left _ (mem_phase1_decoy nl decoys hdr hl hd)

end Mk.FsRun
