import MokapotVerif.Model.Pin
/-! Helper lemmas for C10: `create_chunks` and `create_chunks_with_identifier`. Core Lean only. -/
namespace Mk.Pin
variable {α : Type}

theorem createChunks_nil (c : Nat) : createChunks ([] : List α) c = [] := by
  unfold createChunks
  have : (([] : List α).length + c - 1) / c = 0 := by
    cases c with
    | zero => simp
    | succ n => simp [Nat.div_eq_of_lt]
  rw [this]; rfl

theorem numChunks_succ {n c : Nat} (hc : 0 < c) (hn : 0 < n) :
    (n + c - 1) / c = (n - c + c - 1) / c + 1 := by
  have h1 : n + c - 1 = (n - 1) + c := by omega
  rw [h1, Nat.add_div_right _ hc]
  congr 1
  by_cases h : c ≤ n
  · have : n - c + c - 1 = n - 1 := by omega
    rw [this]
  · have h2 : n - c + c - 1 = c - 1 := by omega
    rw [h2, Nat.div_eq_of_lt (by omega), Nat.div_eq_of_lt (by omega)]

/-- one step of the chunking loop -/
theorem createChunks_step {c : Nat} (hc : 0 < c) (xs : List α) (h : xs ≠ []) :
    createChunks xs c = xs.take c :: createChunks (xs.drop c) c := by
  have hn : 0 < xs.length := List.length_pos_iff.mpr h
  unfold createChunks
  rw [numChunks_succ hc hn, List.range_succ_eq_map, List.map_cons, List.map_map]
  simp only [Nat.zero_mul, List.drop_zero, List.length_drop]
  congr 1
  apply List.map_congr_left
  intro k _
  simp only [Function.comp, Nat.succ_eq_add_one, List.drop_drop]
  congr 2
  rw [Nat.add_mul]; omega

/-- induction along the chunking loop -/
theorem chunk_induction {motive : List α → Prop} {c : Nat} (hc : 0 < c) (nil : motive [])
    (step : ∀ xs, xs ≠ [] → motive (xs.drop c) → motive xs) : ∀ xs, motive xs := by
  intro xs
  generalize hn : xs.length = n
  induction n using Nat.strongRecOn generalizing xs with
  | _ n ih =>
    by_cases h : xs = []
    · subst h; exact nil
    · apply step xs h
      have hpos : 0 < xs.length := List.length_pos_iff.mpr h
      exact ih (xs.drop c).length (by rw [List.length_drop]; omega) _ rfl

/-- the chunks concatenate to the input -/
theorem createChunks_flatten {c : Nat} (hc : 0 < c) (xs : List α) :
    (createChunks xs c).flatten = xs := by
  induction xs using chunk_induction hc with
  | nil => rw [createChunks_nil]; rfl
  | step xs h ih =>
    rw [createChunks_step hc xs h, List.flatten_cons, ih, List.take_append_drop]

theorem mem_of_mem_createChunks {c : Nat} (hc : 0 < c) {xs ch : List α} {x : α}
    (hch : ch ∈ createChunks xs c) (hx : x ∈ ch) : x ∈ xs := by
  have : x ∈ (createChunks xs c).flatten := List.mem_flatten.mpr ⟨ch, hch, hx⟩
  rwa [createChunks_flatten hc] at this

/-- every chunk is non-empty and has at most `c` elements -/
theorem createChunks_sizes {c : Nat} (hc : 0 < c) (xs : List α) :
    ∀ ch ∈ createChunks xs c, 0 < ch.length ∧ ch.length ≤ c := by
  induction xs using chunk_induction hc with
  | nil => rw [createChunks_nil]; intro ch h; cases h
  | step xs h ih =>
    rw [createChunks_step hc xs h]
    intro ch hch
    rcases List.mem_cons.mp hch with rfl | hch
    · have hpos : 0 < xs.length := List.length_pos_iff.mpr h
      rw [List.length_take]; omega
    · exact ih ch hch

/-- when the remainder rule of the repaired code holds, chunking `pre ++ ids`
puts all of `ids` into the last chunk and only elements of `pre` into the others -/
theorem createChunks_suffix {c : Nat} (hc : 0 < c) (ids : List α) (hne : ids ≠ []) (hle : ids.length ≤ c) :
    ∀ (xs pre : List α), xs = pre ++ ids → (xs.length % c = 0 ∨ ids.length ≤ xs.length % c) →
      ∃ init last, createChunks xs c = init ++ [last] ∧ (∀ ch ∈ init, ∀ x ∈ ch, x ∈ pre) ∧
        (∀ x ∈ ids, x ∈ last) := by
  intro xs
  induction xs using chunk_induction hc with
  | nil =>
    intro pre h
    have : ids = [] := (List.append_eq_nil_iff.mp h.symm).2
    exact absurd this hne
  | step xs h ih =>
    intro pre hx hmod
    rw [createChunks_step hc xs h]
    have hlen : xs.length = pre.length + ids.length := by rw [hx, List.length_append]
    have hidpos : 0 < ids.length := List.length_pos_iff.mpr hne
    by_cases hsmall : xs.length ≤ c
    · refine ⟨[], xs, ?_, ?_, ?_⟩
      · rw [List.drop_of_length_le hsmall, createChunks_nil, List.take_of_length_le hsmall]; rfl
      · intro ch hch; cases hch
      · intro x hxi; rw [hx]; exact List.mem_append_right _ hxi
    · have hgt : c < xs.length := by omega
      have hmodeq : xs.length % c = (xs.length - c) % c := Nat.mod_eq_sub_mod (by omega)
      have hpre : c ≤ pre.length := by
        rcases hmod with h0 | h1
        · have hdvd : c ∣ xs.length - c := Nat.dvd_of_mod_eq_zero (by rw [← hmodeq]; exact h0)
          have := Nat.le_of_dvd (by omega) hdvd
          omega
        · have := Nat.mod_le (xs.length - c) c
          omega
      have hdrop : xs.drop c = pre.drop c ++ ids := by
        rw [hx, List.drop_append_of_le_length hpre]
      have htake : xs.take c = pre.take c := by
        rw [hx, List.take_append_of_le_length hpre]
      have hmod' : (xs.drop c).length % c = 0 ∨ ids.length ≤ (xs.drop c).length % c := by
        rw [List.length_drop, ← hmodeq]; exact hmod
      obtain ⟨init, last, h1, h2, h3⟩ := ih (pre.drop c) hdrop hmod'
      refine ⟨xs.take c :: init, last, ?_, ?_, h3⟩
      · rw [h1]; rfl
      · intro ch hch x hxc
        rcases List.mem_cons.mp hch with rfl | hch
        · rw [htake] at hxc; exact List.mem_of_mem_take hxc
        · exact List.mem_of_mem_drop (h2 ch hch x hxc)

/-- **cover**: the chunks of the repaired function concatenate to `data ++ ids` -/
theorem idChunks_flatten {c : Nat} (hc : 0 < c) (data ids : List α) :
    (idChunks data ids c).flatten = data ++ ids := by
  unfold idChunks
  split
  · exact createChunks_flatten hc _
  · rw [List.flatten_append, createChunks_flatten hc]; simp

/-- structure of the chunks of the repaired function: only the last chunk
holds identifier columns, and it holds all of them -/
theorem idChunks_struct {c : Nat} (hc : 0 < c) (data ids : List α) (hne : ids ≠ []) :
    ∃ init last, idChunks data ids c = init ++ [last] ∧ (∀ ch ∈ init, ∀ x ∈ ch, x ∈ data) ∧
      (∀ x ∈ ids, x ∈ last) := by
  unfold idChunks
  split
  · rename_i h
    have := createChunks_suffix hc ids hne h.1 (data ++ ids) data rfl (by
      rw [List.length_append]; exact h.2)
    exact this
  · exact ⟨createChunks data c, ids, rfl, fun ch hch x hx => mem_of_mem_createChunks hc hch hx,
      fun x hx => hx⟩

end Mk.Pin
