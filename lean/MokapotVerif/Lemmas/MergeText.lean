import MokapotVerif.Model.MergeText
import MokapotVerif.Lemmas.MergePaths
import MokapotVerif.Lemmas.MergeMap
/-! C14, third pass: `text_columns` — what the text reader does to identifier cells. -/
namespace Mk.Merge
variable {β σ ν : Type}

theorem tcReadChunk_true (infer : List σ → Option (List ν)) (chunk : List (β × σ)) :
    tcReadChunk infer true chunk = chunk.map tcKeep := by
  simp [tcReadChunk]

theorem tcRowIterText_true (infer : List σ → Option (List ν)) (c : Nat) (hc : 0 < c)
    (xs : List (β × σ)) : tcRowIterText infer true c xs = xs.map tcKeep := by
  unfold tcRowIterText
  have : (kmChunks c xs).map (tcReadChunk infer true) = (kmChunks c xs).map (List.map tcKeep) :=
    List.map_congr_left (fun ch _ => tcReadChunk_true infer ch)
  rw [this, ← List.map_flatten, kmChunks_flatten c hc]

theorem tcReadFile_true (infer : List σ → Option (List ν)) (c : Nat) (hc : 0 < c)
    (f : String × List (β × σ)) : tcReadFile infer true c f = f.2.map tcKeep := by
  unfold tcReadFile
  split
  · rw [kmRowIter_eq c hc]
  · exact tcRowIterText_true infer c hc f.2

theorem tcReadFile_parquet (infer : List σ → Option (List ν)) (tc : Bool) (c : Nat) (hc : 0 < c)
    (f : String × List (β × σ)) (h : kmIsParquet f.1 = true) :
    tcReadFile infer tc c f = f.2.map tcKeep := by
  unfold tcReadFile
  rw [if_pos h, kmRowIter_eq c hc]

/-- the type inference hands back one value per cell -/
def InferLen (infer : List σ → Option (List ν)) : Prop :=
  ∀ l vs, infer l = some vs → vs.length = l.length

theorem tcWithInferred_fst (chunk : List (β × σ)) (o : Option (List ν))
    (h : ∀ vs, o = some vs → vs.length = chunk.length) :
    (tcWithInferred chunk o).map (·.1) = chunk.map (·.1) := by
  cases o with
  | none => simp [tcWithInferred, tcKeep]
  | some vs =>
    have hl := h vs rfl
    simp only [tcWithInferred]
    rw [List.map_fst_zip]
    simp [hl]

theorem tcReadChunk_fst (infer : List σ → Option (List ν)) (hi : InferLen infer) (tc : Bool)
    (chunk : List (β × σ)) : (tcReadChunk infer tc chunk).map (·.1) = chunk.map (·.1) := by
  unfold tcReadChunk
  split
  · simp [tcKeep]
  · exact tcWithInferred_fst chunk _ (fun vs h => by simpa using hi _ vs h)

theorem tcRowIterText_fst (infer : List σ → Option (List ν)) (hi : InferLen infer) (tc : Bool)
    (c : Nat) (hc : 0 < c) (xs : List (β × σ)) :
    (tcRowIterText infer tc c xs).map (·.1) = xs.map (·.1) := by
  unfold tcRowIterText
  rw [List.map_flatten, List.map_map]
  have : (kmChunks c xs).map ((List.map (·.1)) ∘ tcReadChunk infer tc)
      = (kmChunks c xs).map (List.map (·.1)) :=
    List.map_congr_left (fun ch _ => tcReadChunk_fst infer hi tc ch)
  rw [this, ← List.map_flatten, kmChunks_flatten c hc]

theorem tcReadFile_fst (infer : List σ → Option (List ν)) (hi : InferLen infer) (tc : Bool)
    (c : Nat) (hc : 0 < c) (f : String × List (β × σ)) :
    (tcReadFile infer tc c f).map (·.1) = f.2.map (·.1) := by
  unfold tcReadFile
  split
  · rw [kmRowIter_eq c hc]; simp [tcKeep]
  · exact tcRowIterText_fst infer hi tc c hc f.2

/-- identifier spellings for the examples: (looks numeric?, payload); a chunk of numeric-looking cells
is re-read as numbers -/
def exInfer (l : List (Bool × Nat)) : Option (List Nat) :=
  if l.all (·.1) then some (l.map (·.2)) else none

end Mk.Merge
