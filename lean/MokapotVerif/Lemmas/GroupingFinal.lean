import MokapotVerif.Lemmas.GroupingInv
/-! From the loop invariant to the relational specification (C16). -/
set_option linter.unusedSectionVars false
namespace Mk.Grouping
variable {α β : Type} [DecidableEq α] [DecidableEq β]

/-! ### initial state -/

theorem GI_nil : GI ([] : List (Group α β)) [] [] [] := by
  constructor <;> simp

theorem pepmap0_keys (entries : List (Prot α β)) : (pepmap0 entries).map (·.1) = allPeps entries := by
  simp [pepmap0, List.map_map, Function.comp_def]

theorem mem_allPeps (entries : List (Prot α β)) (p : β) :
    p ∈ allPeps entries ↔ ∃ q S, (q, S) ∈ entries ∧ p ∈ S := by
  unfold allPeps
  rw [mem_toSet, List.mem_flatMap]
  constructor
  · rintro ⟨⟨q, S⟩, he, hp⟩; exact ⟨q, S, he, hp⟩
  · rintro ⟨q, S, he, hp⟩; exact ⟨(q, S), he, hp⟩

theorem PI_init (entries srt : List (Prot α β))
    (hsrt : ∀ e, e ∈ srt ↔ e ∈ entries ∧ e.2 ≠ []) : PI ⟨[], pepmap0 entries⟩ srt := by
  constructor
  · simp only [pepmap0_keys]
    exact nodup_toSet _
  · intro p ks hp
    simp only [pepmap0, List.mem_map, Prod.mk.injEq] at hp
    obtain ⟨p', _, rfl, rfl⟩ := hp
    refine ⟨nodup_toSet _, ?_⟩
    intro key
    rw [mem_toSet]
    simp only [List.mem_map, List.mem_filter, decide_eq_true_eq]
    unfold InG InT
    constructor
    · rintro ⟨⟨q, S⟩, ⟨he, hpS⟩, rfl⟩
      refine Or.inr ⟨q, S, (hsrt _).mpr ⟨he, ?_⟩, rfl, hpS⟩
      intro h0; simp only at h0 hpS; rw [h0] at hpS; simp at hpS
    · rintro (⟨S, hk, _⟩ | ⟨q, S, hq, rfl, hpS⟩)
      · simp at hk
      · exact ⟨(q, S), ⟨((hsrt _).mp hq).1, hpS⟩, rfl⟩

/-- the well-formed proteins of a FASTA: the entries that have peptides -/
def protsOf (entries : List (Prot α β)) : List (Prot α β) := entries.filter (fun e => !e.2.isEmpty)

theorem mem_protsOf (entries : List (Prot α β)) (e : Prot α β) :
    e ∈ protsOf entries ↔ e ∈ entries ∧ e.2 ≠ [] := by
  unfold protsOf
  rw [List.mem_filter]
  simp

/-- the state after the loop -/
def finalSt (enum : Nat → List (GKey α) → List (GKey α)) (entries srt : List (Prot α β)) : St α β :=
  groupGo enum ⟨[], pepmap0 entries⟩ srt

theorem run_inv (enum : Nat → List (GKey α) → List (GKey α)) (henum : ∀ n s, (enum n s).Perm s)
    (entries srt : List (Prot α β)) (hwf : WF (protsOf entries))
    (hperm : srt.Perm (protsOf entries))
    (hsorted : srt.Pairwise (fun a b => b.2.length ≤ a.2.length)) :
    GI (finalSt enum entries srt).grouped srt [] [] ∧ PI (finalSt enum entries srt) [] ∧
      groupGoSafe enum ⟨[], pepmap0 entries⟩ srt = true := by
  have hmem : ∀ e, e ∈ srt ↔ e ∈ entries ∧ e.2 ≠ [] := by
    intro e; rw [hperm.mem_iff, mem_protsOf]
  have := groupGo_inv enum henum srt [] ⟨[], pepmap0 entries⟩
    (by simpa using (hperm.map (·.1)).nodup_iff.mpr hwf.names)
    (by
      intro q S hq
      simp only [List.nil_append] at hq
      exact hwf.peps q S (hperm.mem_iff.mp hq))
    (by simpa using hsorted)
    (by
      intro q S hq p hp
      simp only [List.nil_append] at hq
      simp only [pepmap0_keys, mem_allPeps]
      exact ⟨q, S, ((hmem _).mp hq).1, hp⟩)
    GI_nil (PI_init entries srt hmem)
  simpa [finalSt] using this

theorem finalSt_keys (enum : Nat → List (GKey α) → List (GKey α)) (entries srt : List (Prot α β)) (p : β) :
    p ∈ (finalSt enum entries srt).pepmap.map (·.1) ↔ ∃ q S, (q, S) ∈ protsOf entries ∧ p ∈ S := by
  unfold finalSt
  rw [groupGo_keys, pepmap0_keys, mem_allPeps]
  constructor
  · rintro ⟨q, S, he, hp⟩
    refine ⟨q, S, (mem_protsOf _ _).mpr ⟨he, ?_⟩, hp⟩
    intro h0; simp only at h0; rw [h0] at hp; simp at hp
  · rintro ⟨q, S, he, hp⟩
    exact ⟨q, S, ((mem_protsOf _ _).mp he).1, hp⟩

/-! ### invariant ⇒ relational specification -/

theorem isGrouping_of_GI {g : List (Group α β)} {done P : List (Prot α β)}
    (h : GI g done [] []) (hmem : ∀ e, e ∈ done ↔ e ∈ P) : IsGrouping P g := by
  constructor
  · exact h.keys_nodup
  · exact h.knd
  · intro k S hk
    obtain ⟨q, hq1, hq2⟩ := h.founder k S hk
    exact ⟨q, List.mem_of_mem_head? hq1, (hmem _).mp hq2⟩
  · intro k S hk q
    constructor
    · intro hqk
      have := h.named k S hk q hqk
      simp only [List.append_nil] at this
      obtain ⟨Sq, hq⟩ := exists_mem_of_mem_map_fst _ _ this
      exact ⟨Sq, (hmem _).mp hq, (h.members k S hk q Sq hq).mp hqk⟩
    · rintro ⟨Sq, hq, hsub⟩
      exact (h.members k S hk q Sq ((hmem _).mpr hq)).mpr hsub
  · intro q Sq hq
    exact h.covered q Sq ((hmem _).mpr hq)
  · exact h.anti

/-- the peptide set of a group is that of its *first* member (the founder) -/
theorem founder_is_head {g : List (Group α β)} {done : List (Prot α β)}
    (h : GI g done [] []) (k : GKey α) (S : List β) (hk : (k, S) ∈ g) :
    ∃ q, k.head? = some q ∧ (q, S) ∈ done := h.founder k S hk

theorem eq_singleton_of_nodup {γ : Type} (ks : List γ) (k : γ) (hnd : ks.Nodup) (hk : k ∈ ks)
    (hall : ∀ x ∈ ks, x = k) : ks = [k] := by
  cases ks with
  | nil => simp at hk
  | cons a t =>
    have ha : a = k := hall a (by simp)
    subst ha
    cases t with
    | nil => rfl
    | cons b t' =>
      have hb : b = a := hall b (by simp)
      subst hb
      simp at hnd

theorem two_of_nodup {γ : Type} (ks : List γ) (hnd : ks.Nodup) (hne : ks ≠ []) (hlen : ks.length ≠ 1) :
    ∃ a b, a ≠ b ∧ a ∈ ks ∧ b ∈ ks := by
  cases ks with
  | nil => exact absurd rfl hne
  | cons a t =>
    cases t with
    | nil => simp at hlen
    | cons b t' =>
      refine ⟨a, b, ?_, by simp, by simp⟩
      intro hab; subst hab; simp at hnd

theorem mem_uniquePeps (pm : List (PepEntry α β)) (p : β) (k : GKey α) :
    (p, k) ∈ uniquePeps pm ↔ (p, [k]) ∈ pm := by
  unfold uniquePeps
  simp only [List.mem_map, List.mem_filter, decide_eq_true_eq, Prod.mk.injEq]
  constructor
  · rintro ⟨⟨p', ks⟩, ⟨he, hlen⟩, rfl, rfl⟩
    obtain ⟨a, ha⟩ := List.length_eq_one_iff.mp hlen
    simp only at ha
    subst ha
    simpa using he
  · intro h
    exact ⟨(p, [k]), ⟨h, rfl⟩, rfl, rfl⟩

theorem mem_sharedPeps (pm : List (PepEntry α β)) (e : PepEntry α β) :
    e ∈ sharedPeps pm ↔ e ∈ pm ∧ e.2.length ≠ 1 := by
  unfold sharedPeps
  simp [List.mem_filter]

theorem isPeptideMap_of_PI {P : List (Prot α β)} {st : St α β} (hwf : WF P)
    (hG : IsGrouping P st.grouped) (hP : PI st [])
    (hkeys : ∀ p, p ∈ st.pepmap.map (·.1) ↔ ∃ q S, (q, S) ∈ P ∧ p ∈ S) :
    IsPeptideMap P st.grouped (uniquePeps st.pepmap) (sharedPeps st.pepmap) := by
  have hmem : ∀ p ks, (p, ks) ∈ st.pepmap → ∀ k, k ∈ ks ↔ ∃ S, (k, S) ∈ st.grouped ∧ p ∈ S := by
    intro p ks hp k
    rw [(hP.pm p ks hp).2 k]
    unfold InG InT
    constructor
    · rintro (h | ⟨q, S, hq, _⟩)
      · exact h
      · simp at hq
    · intro h; exact Or.inl h
  have hnd : ∀ p ks, (p, ks) ∈ st.pepmap → ks.Nodup := fun p ks hp => (hP.pm p ks hp).1
  have hex : ∀ p, (∃ q S, (q, S) ∈ P ∧ p ∈ S) → ∃ ks, (p, ks) ∈ st.pepmap := by
    intro p h
    exact exists_mem_of_mem_map_fst _ _ ((hkeys p).mpr h)
  have hgrp : ∀ k S p, (k, S) ∈ st.grouped → p ∈ S → ∃ q S, (q, S) ∈ P ∧ p ∈ S := by
    intro k S p hk hp
    obtain ⟨q, _, hq⟩ := hG.founder k S hk
    exact ⟨q, S, hq, hp⟩
  have hne : ∀ p ks, (p, ks) ∈ st.pepmap → ks ≠ [] := by
    intro p ks hp h0
    obtain ⟨q, S, hq, hpS⟩ := (hkeys p).mp (List.mem_map.mpr ⟨(p, ks), hp, rfl⟩)
    obtain ⟨k, S', hk, hqk⟩ := hG.covered q S hq
    obtain ⟨Sq, hq', hsub⟩ := (hG.members k S' hk q).mp hqk
    have : Sq = S := val_unique _ hwf.names _ _ _ hq' hq
    subst this
    have := (hmem p ks hp k).mpr ⟨S', hk, hsub hpS⟩
    rw [h0] at this
    simp at this
  constructor
  · -- unique_iff
    intro p k
    rw [mem_uniquePeps]
    constructor
    · intro h
      have hm := hmem p [k] h
      refine ⟨(hm k).mp (by simp), ?_⟩
      intro k' S' hk' hpS'
      have := (hm k').mpr ⟨S', hk', hpS'⟩
      simpa using this
    · rintro ⟨⟨S, hk, hpS⟩, huniq⟩
      obtain ⟨ks, hks⟩ := hex p (hgrp k S p hk hpS)
      have : ks = [k] := by
        apply eq_singleton_of_nodup ks k (hnd p ks hks)
        · exact (hmem p ks hks k).mpr ⟨S, hk, hpS⟩
        · intro x hx
          obtain ⟨S', hx', hpS'⟩ := (hmem p ks hks x).mp hx
          exact huniq x S' hx' hpS'
      rw [this] at hks
      exact hks
  · -- shared_iff
    intro p
    constructor
    · intro h
      obtain ⟨⟨p', ks⟩, he, rfl⟩ := List.mem_map.mp h
      rw [mem_sharedPeps] at he
      obtain ⟨a, b, hab, ha, hb⟩ := two_of_nodup ks (hnd _ ks he.1) (hne _ ks he.1) he.2
      obtain ⟨S1, h1, hp1⟩ := (hmem _ ks he.1 a).mp ha
      obtain ⟨S2, h2, hp2⟩ := (hmem _ ks he.1 b).mp hb
      exact ⟨a, S1, b, S2, h1, h2, hab, hp1, hp2⟩
    · rintro ⟨k1, S1, k2, S2, h1, h2, hne12, hp1, hp2⟩
      obtain ⟨ks, hks⟩ := hex p (hgrp k1 S1 p h1 hp1)
      refine List.mem_map.mpr ⟨(p, ks), (mem_sharedPeps _ _).mpr ⟨hks, ?_⟩, rfl⟩
      intro hlen
      obtain ⟨a, ha⟩ := List.length_eq_one_iff.mp hlen
      simp only at ha
      have e1 := (hmem p ks hks k1).mpr ⟨S1, h1, hp1⟩
      have e2 := (hmem p ks hks k2).mpr ⟨S2, h2, hp2⟩
      rw [ha] at e1 e2
      simp only [List.mem_singleton] at e1 e2
      exact hne12 (e1.trans e2.symm)
  · -- shared_all
    intro p ks h
    rw [mem_sharedPeps] at h
    exact ⟨hnd p ks h.1, hmem p ks h.1⟩
  · -- keys_nodup
    have hperm : ((uniquePeps st.pepmap).map (·.1) ++ (sharedPeps st.pepmap).map (·.1)).Perm
        (st.pepmap.map (·.1)) := by
      unfold uniquePeps sharedPeps
      rw [List.map_map]
      have : ((fun e : β × GKey α => e.1) ∘ fun e : PepEntry α β => (e.1, e.2.headD [])) = (·.1) := rfl
      rw [this, ← List.map_append]
      exact (List.filter_append_perm _ _).map _
    exact hperm.nodup_iff.mpr hP.keys
  · -- recorded
    intro p
    rw [← hkeys p]
    constructor
    · rintro (h | h)
      · obtain ⟨⟨p', k⟩, he, rfl⟩ := List.mem_map.mp h
        exact List.mem_map.mpr ⟨(p', [k]), (mem_uniquePeps _ _ _).mp he, rfl⟩
      · obtain ⟨e, he, rfl⟩ := List.mem_map.mp h
        exact List.mem_map.mpr ⟨e, ((mem_sharedPeps _ _).mp he).1, rfl⟩
    · intro h
      obtain ⟨⟨p', ks⟩, he, rfl⟩ := List.mem_map.mp h
      by_cases hlen : ks.length = 1
      · obtain ⟨a, ha⟩ := List.length_eq_one_iff.mp hlen
        subst ha
        exact Or.inl (List.mem_map.mpr ⟨(p', a), (mem_uniquePeps _ _ _).mpr he, rfl⟩)
      · exact Or.inr (List.mem_map.mpr ⟨(p', ks), (mem_sharedPeps _ _).mpr ⟨he, hlen⟩, rfl⟩)


/-! ### the relational specification determines the result (order independence) -/

theorem SameInput.symm {P P' : List (Prot α β)} (h : SameInput P P') : SameInput P' P := by
  constructor
  · intro q S' hq
    obtain ⟨S, hS, hiff⟩ := h.2 q S' hq
    exact ⟨S, hS, fun p => (hiff p).symm⟩
  · intro q S hq
    obtain ⟨S', hS', hiff⟩ := h.1 q S hq
    exact ⟨S', hS', fun p => (hiff p).symm⟩

theorem SameInput.of_perm {P P' : List (Prot α β)} (h : P.Perm P') : SameInput P P' :=
  ⟨fun _ S hq => ⟨S, h.mem_iff.mp hq, fun _ => Iff.rfl⟩,
   fun _ S hq => ⟨S, h.mem_iff.mpr hq, fun _ => Iff.rfl⟩⟩

theorem sameInput_of_sameInputB {P P' : List (Prot α β)} (h : sameInputB P P' = true) : SameInput P P' := by
  unfold sameInputB at h
  simp only [Bool.and_eq_true, List.all_eq_true, List.any_eq_true, decide_eq_true_eq, subsetB_iff] at h
  constructor
  · intro q S hq
    obtain ⟨⟨q', S'⟩, he', ⟨hq', h1⟩, h2⟩ := h.1 (q, S) hq
    simp only at hq' h1 h2
    subst hq'
    exact ⟨S', he', fun p => ⟨fun hp => h1 hp, fun hp => h2 hp⟩⟩
  · intro q S' hq
    obtain ⟨⟨q', S⟩, he, ⟨hq', h1⟩, h2⟩ := h.2 (q, S') hq
    simp only at hq' h1 h2
    subst hq'
    exact ⟨S, he, fun p => ⟨fun hp => h1 hp, fun hp => h2 hp⟩⟩

theorem sameGroups_half {P P' : List (Prot α β)} {g g' : List (Group α β)}
    (hwf : WF P) (hwf' : WF P') (hs : SameInput P P') (h : IsGrouping P g) (h' : IsGrouping P' g')
    (k : GKey α) (S : List β) (hk : (k, S) ∈ g) :
    ∃ k' S', (k', S') ∈ g' ∧ (∀ q, q ∈ k ↔ q ∈ k') ∧ ∀ p, p ∈ S ↔ p ∈ S' := by
  obtain ⟨q, hqk, hqP⟩ := h.founder k S hk
  obtain ⟨S0, hq0, hS0⟩ := hs.1 q S hqP
  obtain ⟨k', S', hk', hqk'⟩ := h'.covered q S0 hq0
  obtain ⟨Sq, hq1, hsub1⟩ := (h'.members k' S' hk' q).mp hqk'
  have e1 : Sq = S0 := val_unique _ hwf'.names _ _ _ hq1 hq0
  subst e1
  have hSS' : S ⊆ S' := fun p hp => hsub1 ((hS0 p).mp hp)
  obtain ⟨q', hq'k', hq'P'⟩ := h'.founder k' S' hk'
  obtain ⟨S1, hq'1, hS1⟩ := hs.2 q' S' hq'P'
  obtain ⟨k2, S2, hk2, hq'k2⟩ := h.covered q' S1 hq'1
  obtain ⟨Sq', hq2, hsub2⟩ := (h.members k2 S2 hk2 q').mp hq'k2
  have e2 : Sq' = S1 := val_unique _ hwf.names _ _ _ hq2 hq'1
  subst e2
  have hS'S2 : S' ⊆ S2 := fun p hp => hsub2 ((hS1 p).mpr hp)
  have hkk2 : k = k2 := h.anti k S k2 S2 hk hk2 (fun p hp => hS'S2 (hSS' hp))
  subst hkk2
  have e3 : S2 = S := val_unique _ h.keys_nodup _ _ _ hk2 hk
  subst e3
  have hSeq : ∀ p, p ∈ S2 ↔ p ∈ S' := fun p => ⟨fun hp => hSS' hp, fun hp => hS'S2 hp⟩
  refine ⟨k', S', hk', ?_, hSeq⟩
  intro x
  rw [h.members k S2 hk x, h'.members k' S' hk' x]
  constructor
  · rintro ⟨Sx, hx, hsub⟩
    obtain ⟨Sx', hx', hiff⟩ := hs.1 x Sx hx
    exact ⟨Sx', hx', fun p hp => (hSeq p).mp (hsub ((hiff p).mpr hp))⟩
  · rintro ⟨Sx', hx', hsub⟩
    obtain ⟨Sx, hx, hiff⟩ := hs.2 x Sx' hx'
    exact ⟨Sx, hx, fun p hp => (hSeq p).mpr (hsub ((hiff p).mp hp))⟩

/-- two maximal-subset groupings of the same input are the same, as sets of
(member set, peptide set) -/
theorem isGrouping_unique {P P' : List (Prot α β)} {g g' : List (Group α β)}
    (hwf : WF P) (hwf' : WF P') (hs : SameInput P P') (h : IsGrouping P g) (h' : IsGrouping P' g') :
    SameGroups g g' := by
  constructor
  · exact sameGroups_half hwf hwf' hs h h'
  · intro k' S' hk'
    obtain ⟨k, S, hk, h1, h2⟩ := sameGroups_half hwf' hwf hs.symm h' h k' S' hk'
    exact ⟨k, S, hk, fun q => (h1 q).symm, fun p => (h2 p).symm⟩

theorem SameGroups.symm {g g' : List (Group α β)} (h : SameGroups g g') : SameGroups g' g := by
  constructor
  · intro k' S' hk'
    obtain ⟨k, S, hk, h1, h2⟩ := h.2 k' S' hk'
    exact ⟨k, S, hk, fun q => (h1 q).symm, fun p => (h2 p).symm⟩
  · intro k S hk
    obtain ⟨k', S', hk', h1, h2⟩ := h.1 k S hk
    exact ⟨k', S', hk', fun q => (h1 q).symm, fun p => (h2 p).symm⟩

/-- the unique-peptide maps of two equal groupings agree (up to the order of
the member names inside a group name) -/
theorem unique_equiv {P P' : List (Prot α β)} {g g' : List (Group α β)}
    {u u' : List (β × GKey α)} {s s' : List (PepEntry α β)}
    (hg : SameGroups g g') (h : IsGrouping P g) (h' : IsGrouping P' g')
    (hm : IsPeptideMap P g u s) (hm' : IsPeptideMap P' g' u' s') (p : β) (k : GKey α)
    (hpk : (p, k) ∈ u) : ∃ k', (p, k') ∈ u' ∧ ∀ q, q ∈ k ↔ q ∈ k' := by
  obtain ⟨⟨S, hk, hpS⟩, huniq⟩ := (hm.unique_iff p k).mp hpk
  obtain ⟨k', S', hk', hkk', hSS'⟩ := hg.1 k S hk
  refine ⟨k', (hm'.unique_iff p k').mpr ⟨⟨S', hk', (hSS' p).mp hpS⟩, ?_⟩, hkk'⟩
  intro k'' S'' hk'' hpS''
  obtain ⟨k3, S3, hk3, _, hS3⟩ := hg.2 k'' S'' hk''
  have e : k3 = k := huniq k3 S3 hk3 ((hS3 p).mpr hpS'')
  subst e
  have e2 : S3 = S := val_unique _ h.keys_nodup _ _ _ hk3 hk
  subst e2
  exact h'.anti k'' S'' k' S' hk'' hk' (fun x hx => (hSS' x).mp ((hS3 x).mpr hx))

theorem shared_equiv {P P' : List (Prot α β)} {g g' : List (Group α β)}
    {u u' : List (β × GKey α)} {s s' : List (PepEntry α β)}
    (hg : SameGroups g g') (h : IsGrouping P g) (h' : IsGrouping P' g')
    (hm : IsPeptideMap P g u s) (hm' : IsPeptideMap P' g' u' s') (p : β)
    (hp : p ∈ s.map (·.1)) : p ∈ s'.map (·.1) := by
  obtain ⟨k1, S1, k2, S2, h1, h2, hne, hp1, hp2⟩ := (hm.shared_iff p).mp hp
  obtain ⟨k1', S1', h1', _, hS1⟩ := hg.1 k1 S1 h1
  obtain ⟨k2', S2', h2', _, hS2⟩ := hg.1 k2 S2 h2
  refine (hm'.shared_iff p).mpr ⟨k1', S1', k2', S2', h1', h2', ?_, (hS1 p).mp hp1, (hS2 p).mp hp2⟩
  intro hkk
  subst hkk
  have e : S1' = S2' := val_unique _ h'.keys_nodup _ _ _ h1' h2'
  subst e
  exact hne (h.anti k1 S1 k2 S2 h1 h2 (fun x hx => (hS2 x).mpr ((hS1 x).mp hx)))

theorem shared_groups_equiv {P P' : List (Prot α β)} {g g' : List (Group α β)}
    {u u' : List (β × GKey α)} {s s' : List (PepEntry α β)}
    (hg : SameGroups g g') (hm : IsPeptideMap P g u s) (hm' : IsPeptideMap P' g' u' s')
    (p : β) (ks ks' : List (GKey α)) (h1 : (p, ks) ∈ s) (h2 : (p, ks') ∈ s') :
    ∀ k ∈ ks, ∃ k' ∈ ks', ∀ q, q ∈ k ↔ q ∈ k' := by
  intro k hk
  obtain ⟨S, hkS, hpS⟩ := ((hm.shared_all p ks h1).2 k).mp hk
  obtain ⟨k', S', hk', hkk', hSS'⟩ := hg.1 k S hkS
  exact ⟨k', ((hm'.shared_all p ks' h2).2 k').mpr ⟨S', hk', (hSS' p).mp hpS⟩, hkk'⟩

/-! ### decoy pairing -/

theorem mem_decoyMap (isDecoy : α → Bool) (mkDecoy : α → α) (P : List (Prot α β)) (t d : α) :
    (t, d) ∈ decoyMap isDecoy mkDecoy P ↔ (∃ S, (t, S) ∈ P) ∧ isDecoy t = false ∧ d = mkDecoy t := by
  unfold decoyMap
  simp only [List.mem_map, List.mem_filter, Bool.not_eq_true', Prod.mk.injEq]
  constructor
  · rintro ⟨⟨q, S⟩, ⟨he, hd⟩, rfl, rfl⟩
    exact ⟨⟨S, he⟩, hd, rfl⟩
  · rintro ⟨⟨S, he⟩, hd, rfl⟩
    exact ⟨(t, S), ⟨he, hd⟩, rfl, rfl⟩

theorem hasDecoys_iff (isDecoy : α → Bool) (mkDecoy : α → α) (P : List (Prot α β)) :
    hasDecoys isDecoy mkDecoy P = true ↔
      ∃ t S S', (t, S) ∈ P ∧ isDecoy t = false ∧ (mkDecoy t, S') ∈ P := by
  unfold hasDecoys
  simp only [List.any_eq_true, Bool.and_eq_true, Bool.not_eq_true', decide_eq_true_eq]
  constructor
  · rintro ⟨⟨t, S⟩, he, hd, ⟨d, S'⟩, hd', hdd⟩
    simp only at hdd hd
    subst hdd
    exact ⟨t, S, S', he, hd, hd'⟩
  · rintro ⟨t, S, S', he, hd, hd'⟩
    exact ⟨(t, S), he, hd, (mkDecoy t, S'), hd', rfl⟩

theorem buildProteins_eq (entries : List (Prot α β)) (hwf : WF (protsOf entries)) :
    buildProteins entries = protsOf entries :=
  buildProteins_of_nodup entries hwf.names

theorem readFastaOf_eq_some (isDecoy : α → Bool) (mkDecoy : α → α)
    (enum : Nat → List (GKey α) → List (GKey α)) (entries srt : List (Prot α β)) (o : Out α β)
    (h : readFastaOf isDecoy mkDecoy enum entries srt = some o) :
    o.peptideMap = uniquePeps (finalSt enum entries srt).pepmap ∧
    o.shared = sharedPeps (finalSt enum entries srt).pepmap ∧
    o.proteinMap = decoyMap isDecoy mkDecoy (buildProteins entries) ∧
    o.hasDecoys = hasDecoys isDecoy mkDecoy (buildProteins entries) ∧
    o.groups = (finalSt enum entries srt).grouped := by
  unfold readFastaOf at h
  split at h
  · simp at h
  · simp only [Option.some.injEq] at h
    subst h
    exact ⟨rfl, rfl, rfl, rfl, rfl⟩

theorem readFastaOf_eq_none_iff (isDecoy : α → Bool) (mkDecoy : α → α)
    (enum : Nat → List (GKey α) → List (GKey α)) (entries srt : List (Prot α β)) :
    readFastaOf isDecoy mkDecoy enum entries srt = none ↔
      ∀ q S, (q, S) ∈ buildProteins entries → isDecoy q = true := by
  unfold readFastaOf
  split <;> rename_i h
  · simp only [true_iff]
    rw [List.all_eq_true] at h
    intro q S hq
    exact h (q, S) hq
  · simp only [reduceCtorEq, false_iff]
    intro hall
    apply h
    rw [List.all_eq_true]
    intro e he
    exact hall e.1 e.2 he

end Mk.Grouping
