import MokapotVerif.Lemmas.SrcPy
import MokapotVerif.Generated.Src
/-!
# The translated `_cleave` (Generated/Src.lean) runs like the model `Mk.cleave`

Loop by loop, innermost first.  Natural numbers of the model are embedded into
Python's `int` by `Py.ofN`; the `set` is its insertion log on both sides.
-/
namespace Mk.Src
open Mk Mk.Py

/-- the semi loop (`for idx in range(1, len(peptide))`, with `break` and `continue`) -/
theorem cleave_loop3_eq (lo hi : Nat) (pep : Str) :
    ∀ (idxs : List Nat) (acc : List Str), (∀ i ∈ idxs, 1 ≤ i ∧ i ≤ pep.length) →
      forT (cleave_loop3 (lo : Int) (hi : Int) pep) (idxs.map ofN) acc = acc ++ semiLoop lo hi pep idxs
  | [], acc, _ => by simp [forT, semiLoop]
  | i :: rest, acc, h => by
    have hi1 := h i (List.mem_cons_self ..)
    have ih := cleave_loop3_eq lo hi pep rest
    have hrest : ∀ j ∈ rest, 1 ≤ j ∧ j ≤ pep.length := fun j hj => h j (List.mem_cons_of_mem _ hj)
    simp only [List.map_cons, forT, cleave_loop3, semiLoop, len_eq, ofN]
    by_cases h1 : pep.length - i < lo
    · have : ((pep.length : Int) - (i : Int) < (lo : Int)) := by omega
      simp [h1, this]
    · have n1 : ¬ ((pep.length : Int) - (i : Int) < (lo : Int)) := by omega
      by_cases h2 : pep.length - i > hi
      · have : ((pep.length : Int) - (i : Int) > (hi : Int)) := by omega
        simp only [h1, n1, h2, this, decide_true, decide_false, if_true, if_false, Bool.false_eq_true]
        exact ih acc hrest
      · have n2 : ¬ ((pep.length : Int) - (i : Int) > (hi : Int)) := by omega
        simp only [h1, n1, h2, n2, decide_false, if_false, Bool.false_eq_true, setUnion]
        rw [ih _ hrest, pyFrom_ofN, pyUpTo_neg _ _ hi1.1]
        simp

theorem range'_bounds (n : Nat) : ∀ i ∈ List.range' 1 (n - 1), 1 ≤ i ∧ i ≤ n := by
  intro i hi
  rw [List.mem_range'_1] at hi
  omega

theorem startswith_M (pep : Str) : startswith pep (['M'] : Str) = (pep.head? == some 'M') := by
  cases pep with
  | nil => simp [startswith, List.isPrefixOf]
  | cons c cs =>
    by_cases h : c = 'M'
    · subst h; simp [startswith, List.isPrefixOf]
    · have h' : ¬ 'M' = c := fun e => h e.symm
      have e1 : ('M' == c) = false := by simp [h']
      have e2 : (c == 'M') = false := by simp [h]
      simp [startswith, List.isPrefixOf]; rw [e1, e2]

/-- the clip branch, as the merged `if` of the translation -/
theorem clip_eq (lo : Nat) (clip : Bool) (si : Nat) (pep : Str) (acc : List Str) :
    (if (clip && (!((si : Int) != 0)) && (startswith pep (['M'] : Str))) then
        if decide ((len (pyFrom pep (1 : Int))) ≥ (lo : Int)) then setAdd acc (pyFrom pep (1 : Int)) else acc
      else acc) = acc ++ clipPeps lo clip si pep := by
  have e1 : pyFrom pep (1 : Int) = pep.drop 1 := pyFrom_ofN pep 1
  have e2 : (!((si : Int) != 0)) = (si == 0) := by
    cases si with
    | zero => simp
    | succ n => simp; omega
  rw [e1, e2, startswith_M]
  unfold clipPeps setAdd
  by_cases hc : (clip && si == 0 && pep.head? == some 'M') = true
  · simp only [hc, if_true, len_eq]
    by_cases hl : (pep.drop 1).length ≥ lo
    · have : ((pep.drop 1).length : Int) ≥ (lo : Int) := by omega
      simp [this]; split <;> simp
    · have : ¬ ((pep.drop 1).length : Int) ≥ (lo : Int) := by omega
      simp [this]; split <;> simp
  · simp [hc]

/-- one iteration of the middle loop (`diff_idx = d`) -/
theorem cleave_loop2_eq (seq : Str) (sites : List Nat) (lo hi : Nat) (semi clip : Bool)
    (si ss d : Nat) (acc : List Str) :
    cleave_loop2 seq (sites.map ofN) (lo : Int) (hi : Int) semi clip (si : Int) (ss : Int) acc (d : Int)
      = Step.next (acc ++ pepsAt seq sites lo hi semi clip si ss d) := by
  unfold cleave_loop2 pepsAt
  simp only [len_eq, List.length_map]
  by_cases hout : sites.length ≤ si + d
  · have : ((si : Int) + (d : Int) ≥ (sites.length : Int)) := by omega
    simp [this, List.getElem?_eq_none hout]
  · have n0 : ¬ ((si : Int) + (d : Int) ≥ (sites.length : Int)) := by omega
    have hlt : si + d < sites.length := by omega
    have hidx : index? (sites.map ofN) ((si : Int) + (d : Int)) = some (ofN sites[si + d]) := by
      have : ((si : Int) + (d : Int)) = ((si + d : Nat) : Int) := by omega
      rw [this, index?_ofN]; simp [hlt]
    simp only [n0, decide_false, Bool.false_eq_true, if_false, hidx, ofOpt_some,
      List.getElem?_eq_getElem hlt, Option.toList_some, List.flatMap_cons, List.flatMap_nil, List.append_nil]
    rw [show pySlice seq (ss : Int) (ofN sites[si + d]) = slice seq ss sites[si + d] from pySlice_str _ _ _]
    generalize slice seq ss sites[si + d] = pep
    unfold pepsOf
    by_cases hlen : (pep.length < lo || pep.length > hi) = true
    · have : (decide ((pep.length : Int) < (lo : Int)) || decide ((pep.length : Int) > (hi : Int))) = true := by
        simp at hlen ⊢; omega
      simp [hlen, this]
    · have : ¬ (decide ((pep.length : Int) < (lo : Int)) || decide ((pep.length : Int) > (hi : Int))) = true := by
        simp at hlen ⊢; omega
      simp only [hlen, this, if_false, Bool.false_eq_true]
      rw [clip_eq]
      cases semi with
      | false => simp [setAdd]
      | true =>
        have hr : range (1 : Int) (pep.length : Int) = (List.range' 1 (pep.length - 1)).map ofN :=
          range_eq _ _ 1 (pep.length - 1) rfl (by omega)
        simp only [if_true, hr]
        rw [cleave_loop3_eq lo hi pep _ _ (range'_bounds _)]
        simp [setAdd]

/-- one iteration of the outer loop (`start_idx, start_site = si, ss`) -/
theorem cleave_loop1_eq (seq : Str) (sites : List Nat) (mc lo hi : Nat) (semi clip : Bool)
    (si ss : Nat) (acc : List Str) :
    cleave_loop1 seq (sites.map ofN) (mc : Int) (lo : Int) (hi : Int) semi clip acc ((si : Int), ofN ss)
      = Step.next (acc ++ (List.range' 1 (mc + 1)).flatMap (fun d => pepsAt seq sites lo hi semi clip si ss d)) := by
  unfold cleave_loop1
  have hr : range (1 : Int) ((mc : Int) + (2 : Int)) = (List.range' 1 (mc + 1)).map ofN :=
    range_eq _ _ 1 (mc + 1) rfl (by omega)
  simp only [hr]
  rw [forM_map_next _ ofN (fun d => pepsAt seq sites lo hi semi clip si ss d) _
    (fun a d _ => cleave_loop2_eq seq sites lo hi semi clip si ss d a)]
  rfl

/-- the translated `_cleave` never raises and returns the model's insertion log -/
theorem cleave_eq (seq : Str) (sites : List Nat) (mc lo hi : Nat) (semi clip : Bool) :
    Src.cleave seq (sites.map ofN) (mc : Int) (lo : Int) (hi : Int) semi clip
      = some (Mk.cleave seq sites mc lo hi semi clip) := by
  unfold Src.cleave Mk.cleave
  rw [enumerate_map]
  simp only []
  rw [forM_map_next _ (fun p : Nat × Nat => ((p.2 : Int), ofN p.1))
    (fun si => (List.range' 1 (mc + 1)).flatMap (fun d => pepsAt seq sites lo hi semi clip si.2 si.1 d)) _
    (fun a p _ => cleave_loop1_eq seq sites mc lo hi semi clip p.2 p.1 a)]
  simp

end Mk.Src
