import MokapotVerif.Model.Picked
import MokapotVerif.Lemmas.QvaluesSort
import Mathlib.Data.List.Perm.Basic
/-! Helper lemmas for C15: `keepLast` (drop_duplicates keep="last"), the sort
comparison, and the entries specification. -/
namespace Mk.Picked
variable {α : Type}

/-! ## `keepLast` -/

theorem keepLast_sublist (P : Proteins) (l : List (Entry α)) : (keepLast P l).Sublist l := by
  induction l with
  | nil => simp [keepLast]
  | cons e rest ih =>
    simp only [keepLast]
    split
    · exact ih.cons _
    · exact ih.cons_cons _

theorem mem_of_mem_keepLast {P : Proteins} {l : List (Entry α)} {e : Entry α}
    (h : e ∈ keepLast P l) : e ∈ l := (keepLast_sublist P l).subset h

theorem any_key_iff (P : Proteins) (rest : List (Entry α)) (e : Entry α) :
    rest.any (fun r => r.key P == e.key P) = true ↔ ∃ r ∈ rest, r.key P = e.key P := by
  simp [List.any_eq_true]

theorem keepLast_keys_nodup (P : Proteins) (l : List (Entry α)) :
    ((keepLast P l).map (fun e => e.key P)).Nodup := by
  induction l with
  | nil => simp [keepLast]
  | cons e rest ih =>
    simp only [keepLast]
    split
    · exact ih
    · rename_i h
      rw [List.map_cons, List.nodup_cons]
      refine ⟨?_, ih⟩
      intro hmem
      obtain ⟨r, hr, hk⟩ := List.mem_map.mp hmem
      exact h ((any_key_iff P rest e).mpr ⟨r, mem_of_mem_keepLast hr, hk⟩)

theorem keepLast_covers (P : Proteins) (l : List (Entry α)) :
    ∀ r ∈ l, ∃ e ∈ keepLast P l, e.key P = r.key P := by
  induction l with
  | nil => simp
  | cons x rest ih =>
    intro r hr
    simp only [keepLast]
    split
    · rename_i h
      rcases List.mem_cons.mp hr with rfl | hr
      · obtain ⟨r', hr', hk⟩ := (any_key_iff P rest r).mp h
        obtain ⟨e, he, hke⟩ := ih r' hr'
        exact ⟨e, he, hke.trans hk⟩
      · exact ih r hr
    · rcases List.mem_cons.mp hr with rfl | hr
      · exact ⟨r, List.mem_cons_self, rfl⟩
      · obtain ⟨e, he, hke⟩ := ih r hr
        exact ⟨e, List.mem_cons_of_mem _ he, hke⟩

/-- within one pair key the arrangement is ascending by score -/
def KeySorted (le : α → α → Bool) (P : Proteins) (l : List (Entry α)) : Prop :=
  l.Pairwise (fun a b => a.key P = b.key P → le a.score b.score = true)

theorem keepLast_max (le : α → α → Bool) (hrefl : ∀ a, le a a = true) (P : Proteins)
    (l : List (Entry α)) (hs : KeySorted le P l) :
    ∀ e ∈ keepLast P l, ∀ r ∈ l, r.key P = e.key P → le r.score e.score = true := by
  induction l with
  | nil => simp [keepLast]
  | cons x rest ih =>
    have hs' := List.pairwise_cons.mp hs
    intro e he r hr hk
    simp only [keepLast] at he
    split at he
    · have her : e ∈ rest := mem_of_mem_keepLast he
      rcases List.mem_cons.mp hr with rfl | hr
      · exact hs'.1 e her hk
      · exact ih hs'.2 e he r hr hk
    · rename_i h
      rcases List.mem_cons.mp he with rfl | he
      · rcases List.mem_cons.mp hr with rfl | hr
        · exact hrefl _
        · exact absurd ((any_key_iff P rest e).mpr ⟨r, hr, hk⟩) h
      · have her : e ∈ rest := mem_of_mem_keepLast he
        rcases List.mem_cons.mp hr with rfl | hr
        · exact absurd ((any_key_iff P rest r).mpr ⟨e, her, hk.symm⟩) h
        · exact ih hs'.2 e he r hr hk

/-- `keepLast` of any key-sorted arrangement of `R` meets the specification -/
theorem pickedOf_spec (le : α → α → Bool) (hrefl : ∀ a, le a a = true) (P : Proteins)
    (R sorted : List (Entry α)) (hperm : sorted.Perm R) (hs : KeySorted le P sorted) :
    SpecEntries le P R (pickedOf P sorted) := by
  refine ⟨keepLast_keys_nodup P sorted, ?_, ?_⟩
  · intro r hr
    obtain ⟨e, he, hk⟩ := keepLast_covers P sorted r (hperm.mem_iff.mpr hr)
    exact List.mem_map.mpr ⟨e, he, hk⟩
  · intro e he
    refine ⟨hperm.mem_iff.mp (mem_of_mem_keepLast he), ?_⟩
    intro r hr hk
    exact keepLast_max le hrefl P sorted hs e he r (hperm.mem_iff.mpr hr) hk

/-! ## the string order and the sort comparison -/

theorem strLe_refl (a : List Char) : strLe a a = true := by
  induction a with
  | nil => simp [strLe]
  | cons x xs ih => simp [strLe, ih]

theorem strLe_total (a b : List Char) : strLe a b = true ∨ strLe b a = true := by
  induction a generalizing b with
  | nil => left; simp [strLe]
  | cons x xs ih =>
    cases b with
    | nil => right; simp [strLe]
    | cons y ys =>
      by_cases hxy : x = y
      · subst hxy; simpa [strLe] using ih ys
      · have hyx : ¬ y = x := fun h => hxy h.symm
        simp only [strLe, hxy, hyx, if_false, decide_eq_true_eq]
        exact Char.le_total x y

theorem strLe_antisymm (a b : List Char) (h1 : strLe a b = true) (h2 : strLe b a = true) : a = b := by
  induction a generalizing b with
  | nil => cases b with
    | nil => rfl
    | cons y ys => simp [strLe] at h2
  | cons x xs ih =>
    cases b with
    | nil => simp [strLe] at h1
    | cons y ys =>
      by_cases hxy : x = y
      · subst hxy
        simp only [strLe, if_true] at h1 h2
        rw [ih ys h1 h2]
      · have hyx : ¬ y = x := fun h => hxy h.symm
        simp only [strLe, hxy, hyx, if_false, decide_eq_true_eq] at h1 h2
        exact absurd (Char.le_antisymm h1 h2) hxy

theorem strLe_trans (a b c : List Char) (h1 : strLe a b = true) (h2 : strLe b c = true) :
    strLe a c = true := by
  induction a generalizing b c with
  | nil => simp [strLe]
  | cons x xs ih =>
    cases b with
    | nil => simp [strLe] at h1
    | cons y ys =>
      cases c with
      | nil => simp [strLe] at h2
      | cons z zs =>
        by_cases hxy : x = y
        · subst hxy
          by_cases hxz : x = z
          · subst hxz
            simp only [strLe, if_true] at h1 h2 ⊢
            exact ih ys zs h1 h2
          · simp only [strLe, if_true, hxz, if_false] at h1 h2 ⊢
            exact h2
        · by_cases hyz : y = z
          · subst hyz
            simp only [strLe, hxy, if_false] at h1 ⊢
            exact h1
          · simp only [strLe, hxy, hyz, if_false, decide_eq_true_eq] at h1 h2
            have hxz : ¬ x = z := by
              intro h; subst h
              exact hxy (Char.le_antisymm h1 h2)
            simp only [strLe, hxz, if_false, decide_eq_true_eq]
            exact Char.le_trans h1 h2

theorem sortCmp_total (le : α → α → Bool) (hle : TotalPre le) (P : Proteins) (a b : Entry α) :
    (sortCmp le P a b || sortCmp le P b a) = true := by
  unfold sortCmp
  by_cases h : a.key P = b.key P
  · simp only [h, if_true, Bool.or_eq_true]
    exact hle.total _ _
  · have h' : ¬ b.key P = a.key P := fun e => h e.symm
    simp only [h, h', if_false, Bool.or_eq_true]
    exact strLe_total _ _

theorem sortCmp_trans (le : α → α → Bool) (hle : TotalPre le) (P : Proteins) (a b c : Entry α)
    (h1 : sortCmp le P a b = true) (h2 : sortCmp le P b c = true) : sortCmp le P a c = true := by
  unfold sortCmp at *
  by_cases hab : a.key P = b.key P
  · by_cases hbc : b.key P = c.key P
    · have hac : a.key P = c.key P := hab.trans hbc
      simp only [hab, hbc, if_true] at h1 h2 ⊢
      exact hle.trans _ _ _ h1 h2
    · have hac : ¬ a.key P = c.key P := fun e => hbc (hab.symm.trans e)
      simp only [hbc, hac, if_false] at h2 ⊢
      rw [hab]; exact h2
  · by_cases hbc : b.key P = c.key P
    · have hac : ¬ a.key P = c.key P := fun e => hab (e.trans hbc.symm)
      simp only [hab, hac, if_false] at h1 ⊢
      rw [← hbc]; exact h1
    · simp only [hab, hbc, if_false] at h1 h2
      by_cases hac : a.key P = c.key P
      · exfalso
        rw [← hac] at h2
        exact hab (strLe_antisymm _ _ h1 h2)
      · simp only [hac, if_false]
        exact strLe_trans _ _ _ h1 h2

theorem mergeSort_keySorted (le : α → α → Bool) (hle : TotalPre le) (P : Proteins) (R : List (Entry α)) :
    KeySorted le P (R.mergeSort (sortCmp le P)) := by
  have h := List.pairwise_mergeSort (le := sortCmp le P) (sortCmp_trans le hle P) (sortCmp_total le hle P) R
  refine h.imp ?_
  intro a b hab hk
  unfold sortCmp at hab
  simpa [hk] using hab

end Mk.Picked

namespace Mk.Picked
variable {α : Type}

/-! ## the decidable spec checker -/

theorem nodupB_iff (l : List (List Char)) : nodupB l = true ↔ l.Nodup := by
  induction l with
  | nil => simp [nodupB]
  | cons k ks ih => simp [nodupB, ih, List.nodup_cons]

theorem specCheck_iff [DecidableEq α] (le : α → α → Bool) (P : Proteins) (R out : List (Entry α)) :
    specCheck le P R out = 0 ↔ SpecEntries le P R out := by
  unfold specCheck SpecEntries
  rw [← nodupB_iff]
  by_cases c1 : nodupB (out.map fun e => e.key P) = true
  · by_cases c2 : (R.all fun r => (out.map fun e => e.key P).contains (r.key P)) = true
    · have c2' : ∀ r ∈ R, r.key P ∈ out.map fun e => e.key P := by
        intro r hr
        have := List.all_eq_true.mp c2 r hr
        simpa using this
      by_cases c3 : (out.all fun e => decide (e ∈ R)) = true
      · have c3' : ∀ e ∈ out, e ∈ R := by
          intro e he
          simpa using List.all_eq_true.mp c3 e he
        by_cases c4 : (out.all fun e => R.all fun r => !(r.key P == e.key P) || le r.score e.score) = true
        · have c4' : ∀ e ∈ out, ∀ r ∈ R, r.key P = e.key P → le r.score e.score = true := by
            intro e he r hr hk
            have := List.all_eq_true.mp (List.all_eq_true.mp c4 e he) r hr
            simpa [hk] using this
          simp only [c1, c2, c3, c4, Bool.not_true, Bool.false_eq_true, if_false, true_and]
          exact ⟨fun _ => ⟨c2', fun e he => ⟨c3' e he, c4' e he⟩⟩, fun _ => trivial⟩
        · simp only [c1, c2, c3, c4, Bool.not_true, Bool.false_eq_true, if_false, Bool.not_false, if_true]
          constructor
          · intro h; exact absurd h (by decide)
          · intro h
            exfalso; apply c4
            rw [List.all_eq_true]; intro e he
            rw [List.all_eq_true]; intro r hr
            by_cases hk : r.key P = e.key P
            · simp [hk, (h.2.2 e he).2 r hr hk]
            · simp [hk]
      · simp only [c1, c2, c3, Bool.not_true, Bool.false_eq_true, if_false, Bool.not_false, if_true]
        constructor
        · intro h; exact absurd h (by decide)
        · intro h
          exfalso; apply c3
          rw [List.all_eq_true]; intro e he
          simpa using (h.2.2 e he).1
    · simp only [c1, c2, Bool.not_true, Bool.false_eq_true, if_false, Bool.not_false, if_true]
      constructor
      · intro h; exact absurd h (by decide)
      · intro h
        exfalso; apply c2
        rw [List.all_eq_true]; intro r hr
        simpa using h.2.1 r hr
  · have c1' : nodupB (out.map fun e => e.key P) = false := by simpa using c1
    constructor
    · intro h; rw [c1'] at h; simp at h
    · intro h; exact absurd h.1 c1

/-! ## the specification determines the entries when scores are tie-free -/

/-- no two candidate rows of one pair have equivalent scores -/
def TieFree (le : α → α → Bool) (P : Proteins) (R : List (Entry α)) : Prop :=
  ∀ a ∈ R, ∀ b ∈ R, a.key P = b.key P → le a.score b.score = true → le b.score a.score = true → a = b

theorem nodup_of_map_nodup {β γ : Type} {f : β → γ} {l : List β} (h : (l.map f).Nodup) : l.Nodup := by
  induction l with
  | nil => exact List.nodup_nil
  | cons x xs ih =>
    rw [List.map_cons, List.nodup_cons] at h
    rw [List.nodup_cons]
    exact ⟨fun hx => h.1 (List.mem_map.mpr ⟨x, hx, rfl⟩), ih h.2⟩

theorem spec_unique (le : α → α → Bool) (P : Proteins) (R o1 o2 : List (Entry α))
    (htf : TieFree le P R) (h1 : SpecEntries le P R o1) (h2 : SpecEntries le P R o2) : o1.Perm o2 := by
  have sub : ∀ (a b : List (Entry α)), SpecEntries le P R a → SpecEntries le P R b → ∀ e ∈ a, e ∈ b := by
    intro a b ha hb e he
    obtain ⟨heR, hmax⟩ := ha.2.2 e he
    obtain ⟨e', he', hk⟩ := List.mem_map.mp (hb.2.1 e heR)
    obtain ⟨heR', hmax'⟩ := hb.2.2 e' he'
    have : e = e' := htf e heR e' heR' hk.symm (hmax' e heR hk.symm) (hmax e' heR' hk)
    rw [this]; exact he'
  apply (List.perm_ext_iff_of_nodup (nodup_of_map_nodup h1.1) (nodup_of_map_nodup h2.1)).mpr
  intro e
  exact ⟨sub o1 o2 h1 h2 e, sub o2 o1 h2 h1 e⟩

/-! ## candidate rows -/

theorem stripCol_length (col : List (List Char)) : (stripCol col).length = col.length := by
  unfold stripCol caseRule
  split <;> simp

theorem mem_retained_annotate_iff (P : Proteins) (dmap : List (List Char × List Char))
    (rows : List (Row α)) (e : Entry α) :
    e ∈ retained (annotate P dmap rows) ↔
      ∃ (i : Nat) (r : Row α), rows[i]? = some r ∧ (stripCol (rows.map (fun r => r.peptide)))[i]? = some e.stripped ∧
        e.peptide = r.peptide ∧ e.score = r.score ∧ e.target = r.target ∧
        groupOf P dmap e.stripped = some e.group := by
  unfold retained annotate
  rw [List.mem_filterMap]
  constructor
  · rintro ⟨x, hx, hxe⟩
    obtain ⟨rs, hrs, rfl⟩ := List.mem_map.mp hx
    obtain ⟨i, hi⟩ := List.mem_iff_getElem?.mp hrs
    rw [List.getElem?_zip_eq_some] at hi
    simp only [toEntry, Option.map_eq_some_iff] at hxe
    obtain ⟨g, hg, rfl⟩ := hxe
    exact ⟨i, rs.1, hi.1, hi.2, rfl, rfl, rfl, hg⟩
  · rintro ⟨i, r, hr, hs, hp, hsc, ht, hg⟩
    refine ⟨⟨r, e.stripped, groupOf P dmap e.stripped⟩, ?_, ?_⟩
    · apply List.mem_map.mpr
      refine ⟨(r, e.stripped), ?_, rfl⟩
      apply List.mem_iff_getElem?.mpr
      exact ⟨i, by rw [List.getElem?_zip_eq_some]; exact ⟨hr, hs⟩⟩
    · simp only [toEntry, hg, Option.map_some]
      cases e; simp_all

/-- annotated rows whose group was looked up through `groupOf` -/
def Annotated (P : Proteins) (dmap : List (List Char × List Char)) (xs : List (ARow α)) : Prop :=
  ∀ x ∈ xs, x.group = groupOf P dmap x.stripped

theorem annotate_annotated (P : Proteins) (dmap : List (List Char × List Char)) (rows : List (Row α)) :
    Annotated P dmap (annotate P dmap rows) := by
  intro x hx
  unfold annotate at hx
  obtain ⟨rs, _, rfl⟩ := List.mem_map.mp hx
  rfl

theorem retained_filter_shared (P : Proteins) (dmap : List (List Char × List Char)) (xs : List (ARow α))
    (hx : Annotated P dmap xs) (hsh : ∀ s ∈ P.shared, groupOf P dmap s = none) :
    retained (xs.filter (fun x => !P.shared.contains x.stripped)) = retained xs := by
  unfold retained
  induction xs with
  | nil => rfl
  | cons x rest ih =>
    have ih' := ih (fun y hy => hx y (List.mem_cons_of_mem _ hy))
    by_cases hc : P.shared.contains x.stripped = true
    · have hmem : x.stripped ∈ P.shared := by simpa using hc
      have hg : x.group = none := by rw [hx x List.mem_cons_self]; exact hsh _ hmem
      rw [List.filter_cons_of_neg (by simpa using hmem), ih', List.filterMap_cons]
      simp [toEntry, hg]
    · rw [List.filter_cons_of_pos (by simpa using hc), List.filterMap_cons, List.filterMap_cons, ih']

theorem retained_not_shared (P : Proteins) (dmap : List (List Char × List Char)) (xs : List (ARow α))
    (hx : Annotated P dmap xs) (hsh : ∀ s ∈ P.shared, groupOf P dmap s = none) :
    ∀ e ∈ retained xs, e.stripped ∉ P.shared := by
  intro e he hmem
  unfold retained at he
  obtain ⟨x, hxm, hxe⟩ := List.mem_filterMap.mp he
  simp only [toEntry, Option.map_eq_some_iff] at hxe
  obtain ⟨g, hg, rfl⟩ := hxe
  have := hx x hxm
  rw [hsh _ hmem] at this
  rw [this] at hg
  exact absurd hg (by simp)

/-! ## pair keys -/

theorem lookup_mirror (pre : List Char) (names : List (List Char)) (n : List Char) :
    (names.map (fun m => (m, pre ++ m))).lookup n = if n ∈ names then some (pre ++ n) else none := by
  induction names with
  | nil => simp
  | cons m ms ih =>
    rw [List.map_cons, List.lookup_cons]
    by_cases h : n = m
    · subst h; simp
    · have h' : (n == m) = false := by simpa using h
      rw [h', ih]
      have : (n ∈ m :: ms) = (n ∈ ms) := by simp [h]
      simp only [this]

theorem startsSep_cons_cons (c d : Char) (r : List Char) :
    startsSep (c :: d :: r) = (c == ',' && d == ' ') := by
  by_cases hc : c = ','
  · subst hc
    by_cases hd : d = ' '
    · subst hd; rfl
    · have : (d == ' ') = false := by simpa using hd
      simp only [this, Bool.and_false]
      unfold startsSep
      split
      · rename_i heq; injection heq with _ h2; injection h2 with h3 _; exact absurd h3 hd
      · rfl
  · have : (c == ',') = false := by simpa using hc
    simp only [this, Bool.false_and]
    unfold startsSep
    split
    · rename_i heq; injection heq with h1 _; exact absurd h1 hc
    · rfl

theorem startsSep_singleton (c : Char) : startsSep [c] = false := by
  unfold startsSep
  split
  · rename_i heq; injection heq with _ h2; cases h2
  · rfl

theorem firstMember_prefixGo (pre : List Char) (ac : Bool) (g : List Char) (hac : ac = true → g.head? ≠ some ' ') :
    firstMember (prefixGo pre ac g) = firstMember g := by
  induction g generalizing ac with
  | nil => simp [prefixGo]
  | cons c rest ih =>
    have h1 : (ac && c == ' ') = false := by
      cases ac
      · rfl
      · have := hac rfl
        simp at this
        simp [this]
    simp only [prefixGo, h1, Bool.false_eq_true, if_false]
    cases rest with
    | nil => simp [prefixGo, firstMember, startsSep_singleton]
    | cons d rest' =>
      have hX : ∃ X, prefixGo pre (c == ',') (d :: rest') = d :: X := by
        simp only [prefixGo]
        split
        · exact ⟨_, rfl⟩
        · exact ⟨_, rfl⟩
      obtain ⟨X, hX⟩ := hX
      by_cases hs : (c == ',' && d == ' ') = true
      · rw [firstMember, firstMember, hX, startsSep_cons_cons, startsSep_cons_cons, hs]
        simp
      · have hs' : (c == ',' && d == ' ') = false := by simpa using hs
        have e1 : firstMember (c :: prefixGo pre (c == ',') (d :: rest'))
            = c :: firstMember (prefixGo pre (c == ',') (d :: rest')) := by
          rw [firstMember, hX, startsSep_cons_cons, hs']; simp
        have e2 : firstMember (c :: d :: rest') = c :: firstMember (d :: rest') := by
          rw [firstMember, startsSep_cons_cons, hs']; simp
        rw [e1, e2]
        congr 1
        apply ih
        intro hc
        simp only [List.head?_cons, ne_eq, Option.some.injEq]
        intro hd
        rw [hc, hd] at hs'
        simp at hs'

theorem firstMember_append_of_noComma (pre X : List Char) (hpre : ∀ c ∈ pre, c ≠ ',') :
    firstMember (pre ++ X) = pre ++ firstMember X := by
  induction pre with
  | nil => rfl
  | cons c cs ih =>
    have hc : c ≠ ',' := hpre c (List.mem_cons_self ..)
    have hs : startsSep (c :: (cs ++ X)) = false := by
      cases h : cs ++ X with
      | nil => exact startsSep_singleton c
      | cons d r =>
        rw [startsSep_cons_cons]
        have : (c == ',') = false := by simpa using hc
        simp [this]
    rw [List.cons_append, firstMember, hs]
    simp only [Bool.false_eq_true, if_false, List.cons_append]
    rw [ih (fun d hd => hpre d (List.mem_cons_of_mem _ hd))]

theorem firstMember_prefixGroup (pre g : List Char) (hpre : ∀ c ∈ pre, c ≠ ',') :
    firstMember (prefixGroup pre g) = pre ++ firstMember g := by
  unfold prefixGroup
  rw [firstMember_append_of_noComma pre _ hpre, firstMember_prefixGo pre false g (by simp)]

/-! ## protein-level q-values -/

theorem proteinLevel_eq (le : α → α → Bool) (hle : TotalPre le) (entries arr : List (Entry α))
    (hperm : arr.Perm entries) :
    proteinLevel (tdc le) arr = arr.map (fun e => (e, qSpec le (entryLabels entries) e.score)) := by
  unfold proteinLevel
  rw [tdc_eq_spec_aux le hle]
  have hp : (entryLabels arr).Perm (entryLabels entries) := hperm.map _
  unfold entryLabels at *
  rw [List.map_map]
  apply List.ext_getElem
  · simp
  · intro i h1 h2
    simp only [List.getElem_zip, List.getElem_map, Function.comp]
    rw [qSpec_perm le hp]

end Mk.Picked

namespace Mk.Picked
variable {α : Type}

/-! ## the pipeline before `groupby_max` -/

theorem candidates_ok {P : Proteins} {dm : List (List Char × List Char)} {rows : List (Row α)}
    {R : List (Entry α)} (h : candidates P dm rows = .ok R) :
    R = retained (annotate P (decoyMap P dm) rows) ∧ R ≠ [] ∧ pairingKeyError P dm = false ∧
      tooManyUnmapped P (annotate P (decoyMap P dm) rows) = false ∧
      tooManyDecoys P (annotate P (decoyMap P dm) rows) = false := by
  unfold candidates at h
  split at h
  · cases h
  · split at h
    · cases h
    · split at h
      · cases h
      · split at h
        · cases h
        · rename_i h1 h2 h3 h4
          injection h with h
          subst h
          refine ⟨rfl, ?_, by simpa using h1, by simpa using h2, by simpa using h3⟩
          intro hnil
          rw [hnil] at h4
          exact h4 rfl

theorem candidates_of_ok (P : Proteins) (dm : List (List Char × List Char)) (rows : List (Row α))
    (h1 : pairingKeyError P dm = false)
    (h2 : tooManyUnmapped P (annotate P (decoyMap P dm) rows) = false)
    (h3 : tooManyDecoys P (annotate P (decoyMap P dm) rows) = false)
    (h4 : retained (annotate P (decoyMap P dm) rows) ≠ []) :
    candidates P dm rows = .ok (retained (annotate P (decoyMap P dm) rows)) := by
  unfold candidates
  have h4' : (retained (annotate P (decoyMap P dm) rows)).isEmpty = false := by
    cases hR : retained (annotate P (decoyMap P dm) rows) with
    | nil => exact absurd hR h4
    | cons _ _ => rfl
  simp [h1, h2, h3, h4']

theorem countP_eq_zero_of_forall {β : Type} (p : β → Bool) (l : List β) (h : ∀ x ∈ l, p x = false) :
    l.countP p = 0 := by
  rw [List.countP_eq_zero]
  intro x hx
  simp [h x hx]

/-- when every row is either mapped or a known shared peptide no error is raised -/
theorem no_error_of_no_bad (P : Proteins) (xs : List (ARow α)) (h : ∀ x ∈ xs, isBad P x = false) :
    tooManyUnmapped P xs = false ∧ tooManyDecoys P xs = false := by
  have h0 : xs.countP (isBad P) = 0 := countP_eq_zero_of_forall _ _ h
  have h1 : xs.countP (fun x => isBad P x && x.row.target) = 0 :=
    countP_eq_zero_of_forall _ _ (fun x hx => by simp [h x hx])
  unfold tooManyUnmapped tooManyDecoys
  rw [h0, h1]
  constructor
  · simp
  · cases P.hasDecoys
    · rfl
    · simp

theorem lookup_mem {β γ : Type} [BEq β] [LawfulBEq β] (k : β) (v : γ) (l : List (β × γ))
    (h : l.lookup k = some v) : (k, v) ∈ l := by
  induction l with
  | nil => simp at h
  | cons x xs ih =>
    obtain ⟨a, b⟩ := x
    rw [List.lookup_cons] at h
    by_cases hk : (k == a) = true
    · rw [hk] at h
      have hka : k = a := by simpa using hk
      simp only [Option.some.injEq] at h
      subst hka; subst h
      exact List.mem_cons_self
    · have hk' : (k == a) = false := by simpa using hk
      rw [hk'] at h
      exact List.mem_cons_of_mem _ (ih h)

/-- where a group comes from: the unique-peptide map, or (target-only FASTA) the
mirrored group of the target peptide that `match_decoy` paired with the sequence -/
theorem groupOf_origin (P : Proteins) (dm : List (List Char × List Char)) (s g : List Char)
    (h : groupOf P (decoyMap P dm) s = some g) :
    P.peptideMap.lookup s = some g ∨
      (P.hasDecoys = false ∧ P.peptideMap.lookup s = none ∧
        ∃ t gt, (s, t) ∈ dm ∧ P.peptideMap.lookup t = some gt ∧ g = prefixGroup P.decoyPrefix gt) := by
  unfold groupOf at h
  cases hl : P.peptideMap.lookup s with
  | some g' =>
    rw [hl] at h
    simp only [Option.orElse_some, Option.some.injEq] at h
    left; rw [h]
  | none =>
    rw [hl] at h
    simp only [Option.orElse_none] at h
    right
    unfold decoyMap at h
    cases hd : P.hasDecoys with
    | true => rw [hd] at h; simp at h
    | false =>
      rw [hd] at h
      simp only [Bool.false_eq_true, if_false] at h
      have hm := lookup_mem _ _ _ h
      obtain ⟨dt, hdt, hitem⟩ := List.mem_filterMap.mp hm
      unfold decoyItem at hitem
      simp only [Option.map_eq_some_iff] at hitem
      obtain ⟨gt, hgt, heq⟩ := hitem
      have e1 : dt.1 = s := congrArg Prod.fst heq
      have e2 : prefixGroup P.decoyPrefix gt = g := congrArg Prod.snd heq
      refine ⟨rfl, rfl, dt.2, gt, ?_, hgt, e2.symm⟩
      rw [← e1]; exact hdt

end Mk.Picked
