import MokapotVerif.Model.Determ
import Mathlib.Data.List.Perm.Basic
/-! Helper lemmas for C08: the worker pool (non-interference of tasks that own their generator cell)
and loops over sets that fill an insertion-ordered dictionary. -/
namespace Mk.Determ
variable {σ ν : Type}

/-! ### pointwise update -/

theorem upd_same {α : Type} (f : Nat → α) (i : Nat) (v : α) : upd f i v i = v := by simp [upd]

theorem upd_other {α : Type} (f : Nat → α) (i j : Nat) (v : α) (h : j ≠ i) : upd f i v j = f j := by
  simp [upd, h]

/-! ### one scheduling step -/

theorem stepTask_nil (G : Gen σ ν) (cell : Nat → Nat) (st : Pool σ ν) (i : Nat) (h : st.pending i = []) :
    stepTask G cell st i = st := by
  simp [stepTask, h, stepReq]

theorem stepTask_cons (G : Gen σ ν) (cell : Nat → Nat) (st : Pool σ ν) (i : Nat) (d : Draw) (rest : List Draw)
    (h : st.pending i = d :: rest) : stepTask G cell st i = fire G cell st i d rest := by
  simp [stepTask, h, stepReq]

/-- a step of another task that owns another cell does not change what task `i` sees -/
theorem stepTask_other (G : Gen σ ν) (cell : Nat → Nat) (st : Pool σ ν) (i j : Nat) (hij : j ≠ i)
    (hc : cell j ≠ cell i) :
    (stepTask G cell st j).heap (cell i) = st.heap (cell i) ∧
    (stepTask G cell st j).pending i = st.pending i ∧
    (stepTask G cell st j).out i = st.out i := by
  cases hp : st.pending j with
  | nil => rw [stepTask_nil G cell st j hp]; exact ⟨rfl, rfl, rfl⟩
  | cons d rest =>
    rw [stepTask_cons G cell st j d rest hp]
    refine ⟨?_, ?_, ?_⟩
    · exact upd_other _ _ _ _ (Ne.symm hc)
    · exact upd_other _ _ _ _ (Ne.symm hij)
    · exact upd_other _ _ _ _ (Ne.symm hij)

/-- a step never changes a cell that the stepping task does not own -/
theorem stepTask_heap_other (G : Gen σ ν) (cell : Nat → Nat) (st : Pool σ ν) (j c : Nat) (hc : cell j ≠ c) :
    (stepTask G cell st j).heap c = st.heap c := by
  cases hp : st.pending j with
  | nil => rw [stepTask_nil G cell st j hp]
  | cons d rest =>
    rw [stepTask_cons G cell st j d rest hp]
    exact upd_other _ _ _ _ (Ne.symm hc)

theorem runPool_cons (G : Gen σ ν) (cell : Nat → Nat) (st : Pool σ ν) (j : Nat) (sched : List Nat) :
    runPool G cell st (j :: sched) = runPool G cell (stepTask G cell st j) sched := rfl

/-- a cell owned by no task keeps its state under every schedule -/
theorem runPool_heap_unowned (G : Gen σ ν) (cell : Nat → Nat) (c : Nat) (hc : ∀ j, cell j ≠ c)
    (sched : List Nat) (st : Pool σ ν) : (runPool G cell st sched).heap c = st.heap c := by
  induction sched generalizing st with
  | nil => rfl
  | cons j rest ih => rw [runPool_cons, ih, stepTask_heap_other G cell st j c (hc j)]

theorem runDraws_nil (G : Gen σ ν) (s : σ) : runDraws G s [] = ([], s) := rfl

theorem runDraws_cons (G : Gen σ ν) (s : σ) (d : Draw) (ds : List Draw) :
    runDraws G s (d :: ds) =
      ((G.step s d).1 :: (runDraws G (G.step s d).2 ds).1, (runDraws G (G.step s d).2 ds).2) := rfl

/-- **what task `i` has received, the state of its cell and what it still has to ask for, under ANY
schedule**: exactly what a run of its first `min (#times scheduled) (#requests)` requests, alone, on its
own cell gives — whatever the other tasks do in between. -/
theorem runPool_task (G : Gen σ ν) (cell : Nat → Nat) (hinj : ∀ a b, a ≠ b → cell a ≠ cell b) (i : Nat)
    (sched : List Nat) (st : Pool σ ν) :
    (runPool G cell st sched).out i =
        st.out i ++ (runDraws G (st.heap (cell i)) ((st.pending i).take (min (sched.count i) (st.pending i).length))).1 ∧
    (runPool G cell st sched).heap (cell i) =
        (runDraws G (st.heap (cell i)) ((st.pending i).take (min (sched.count i) (st.pending i).length))).2 ∧
    (runPool G cell st sched).pending i = (st.pending i).drop (min (sched.count i) (st.pending i).length) := by
  induction sched generalizing st with
  | nil => simp [runPool, runDraws_nil]
  | cons j rest ih =>
    rw [runPool_cons]
    by_cases hji : j = i
    · subst hji
      cases hp : st.pending j with
      | nil =>
        rw [stepTask_nil G cell st j hp]
        have := ih st
        simp only [hp, List.length_nil, Nat.min_zero, List.take_nil, List.drop_nil, runDraws_nil,
          List.append_nil] at this ⊢
        exact this
      | cons d ds =>
        rw [stepTask_cons G cell st j d ds hp]
        have h := ih (fire G cell st j d ds)
        have hpend : (fire G cell st j d ds).pending j = ds := upd_same _ _ _
        have hheap : (fire G cell st j d ds).heap (cell j) = (G.step (st.heap (cell j)) d).2 := upd_same _ _ _
        have hout : (fire G cell st j d ds).out j = st.out j ++ [(G.step (st.heap (cell j)) d).1] := upd_same _ _ _
        rw [hpend, hheap, hout] at h
        have hcount : (j :: rest).count j = rest.count j + 1 := by simp
        have hmin : min (rest.count j + 1) (d :: ds).length = min (rest.count j) ds.length + 1 := by
          simp only [List.length_cons]; omega
        rw [hcount, hmin, List.take_succ_cons, List.drop_succ_cons, runDraws_cons]
        refine ⟨?_, h.2.1, h.2.2⟩
        rw [h.1, List.append_assoc]
        rfl
    · have hc : cell j ≠ cell i := hinj j i hji
      obtain ⟨h1, h2, h3⟩ := stepTask_other G cell st i j hji hc
      have h := ih (stepTask G cell st j)
      rw [h1, h2, h3] at h
      have hcount : (j :: rest).count i = rest.count i := by
        simp [hji]
      rw [hcount]
      exact h

/-- complete schedules: every task `j < k` gets to make all its requests -/
theorem completeFor_le (k : Nat) (reqs : Nat → List Draw) (sched : List Nat) (h : completeFor k reqs sched = true)
    (j : Nat) (hj : j < k) : (reqs j).length ≤ sched.count j := by
  unfold completeFor at h
  rw [List.all_eq_true] at h
  have := h j (List.mem_range.mpr hj)
  simpa using this

/-! ### dictionaries filled in a loop over a set -/

variable {κ α : Type} [DecidableEq κ]

theorem dGet_dSet (d : List (κ × α)) (k k' : κ) (v : α) :
    dGet (dSet d k v) k' = if k = k' then some v else dGet d k' := by
  induction d with
  | nil =>
    by_cases h : k = k' <;> simp [dSet, dGet, h]
  | cons p rest ih =>
    obtain ⟨a, b⟩ := p
    by_cases hak : a = k
    · subst hak
      by_cases h : a = k' <;> simp [dSet, dGet, h]
    · by_cases hak' : a = k'
      · subst hak'
        have : ¬ k = a := fun h => hak h.symm
        simp [dSet, dGet, hak, this]
      · simp [dSet, dGet, hak, hak', ih]

theorem dKeys_dSet (d : List (κ × α)) (k : κ) (v : α) :
    dKeys (dSet d k v) = if k ∈ dKeys d then dKeys d else dKeys d ++ [k] := by
  induction d with
  | nil => simp [dSet, dKeys]
  | cons p rest ih =>
    obtain ⟨a, b⟩ := p
    by_cases hak : a = k
    · subst hak
      simp [dSet, dKeys]
    · have hka : ¬ k = a := fun h => hak h.symm
      simp only [dSet, hak, if_false, dKeys, List.map_cons, List.mem_cons, hka, false_or] at ih ⊢
      by_cases hm : k ∈ rest.map Prod.fst
      · simp only [hm, if_true] at ih ⊢
        rw [ih]
      · simp only [hm, if_false] at ih ⊢
        rw [ih]
        rfl

theorem keyedLoop_cons (f : κ → Option α → α) (d : List (κ × α)) (a : κ) (ks : List κ) :
    keyedLoop f d (a :: ks) = keyedLoop f (dUpd f d a) ks := rfl

/-- **content of the dictionary after the loop** (declarative): the entry of every enumerated key is the
body applied to its old entry, every other entry is untouched — no reference to the enumeration order. -/
theorem dGet_keyedLoop (f : κ → Option α → α) (ks : List κ) (hnd : ks.Nodup) (d : List (κ × α)) (k : κ) :
    dGet (keyedLoop f d ks) k = if k ∈ ks then some (f k (dGet d k)) else dGet d k := by
  induction ks generalizing d with
  | nil => simp [keyedLoop]
  | cons a rest ih =>
    rw [keyedLoop_cons, ih (List.nodup_cons.mp hnd).2]
    have ha : a ∉ rest := (List.nodup_cons.mp hnd).1
    unfold dUpd
    rw [dGet_dSet]
    by_cases hak : a = k
    · subst hak
      simp [ha]
    · have hka : ¬ k = a := fun h => hak h.symm
      simp [hak, hka]

/-- **key order of the dictionary after the loop**: the old keys, then the new keys *in enumeration order* -/
theorem dKeys_keyedLoop (f : κ → Option α → α) (ks : List κ) (hnd : ks.Nodup) (d : List (κ × α)) :
    dKeys (keyedLoop f d ks) = dKeys d ++ ks.filter (fun k => decide (k ∉ dKeys d)) := by
  induction ks generalizing d with
  | nil => simp [keyedLoop]
  | cons a rest ih =>
    rw [keyedLoop_cons, ih (List.nodup_cons.mp hnd).2]
    have ha : a ∉ rest := (List.nodup_cons.mp hnd).1
    unfold dUpd
    rw [dKeys_dSet]
    by_cases hm : a ∈ dKeys d
    · simp [hm]
    · simp only [hm, if_false, List.filter_cons, decide_not, List.append_assoc, List.cons_append,
        List.nil_append]
      congr 2
      apply List.filter_congr
      intro x hx
      have hxa : x ≠ a := fun h => ha (h ▸ hx)
      simp [hxa]

end Mk.Determ
