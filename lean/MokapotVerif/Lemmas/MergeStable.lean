import MokapotVerif.Lemmas.MergeSpec
/-! C14: the tie rule of the two merges.  The index scan returns the *first* index of a
maximal current row, hence on non-increasing inputs the merge loop is the stable sort by
decreasing score of the concatenated inputs (`stableSortDesc`). -/
namespace Mk.Merge
variable {α : Type}

/-! ## the scan returns the first maximal index -/

theorem scanBest_first (le : α → α → Bool) (hle : TotalPre le) (xs : List α) :
    ∀ (pre : List α) (b : α) (bi : Nat), pre[bi]? = some b → (∀ y ∈ pre, le y b = true) →
      (∀ y ∈ pre.take bi, le b y = false) →
      ∃ x, (pre ++ xs)[scanBest (ltMax le) b bi pre.length xs]? = some x ∧
        (∀ y ∈ pre ++ xs, le y x = true) ∧
        ∀ y ∈ (pre ++ xs).take (scanBest (ltMax le) b bi pre.length xs), le x y = false := by
  induction xs with
  | nil =>
    intro pre b bi hb hall hfirst
    exact ⟨b, by simpa [scanBest] using hb, by simpa using hall, by simpa [scanBest] using hfirst⟩
  | cons x xs ih =>
    intro pre b bi hb hall hfirst
    have hbi : bi < pre.length := by
      rcases List.getElem?_eq_some_iff.mp hb with ⟨h, _⟩; exact h
    unfold scanBest
    by_cases hlt : ltMax le b x = true
    · simp only [hlt, if_true]
      have hxb : le x b = false := by simpa [ltMax] using hlt
      have hbx : le b x = true := by
        rcases hle.total b x with h | h
        · exact h
        · simp [h] at hxb
      have h1 : (pre ++ [x])[pre.length]? = some x := by simp
      have h2 : ∀ y ∈ pre ++ [x], le y x = true := by
        intro y hy
        rcases List.mem_append.mp hy with hy | hy
        · exact hle.trans _ _ _ (hall y hy) hbx
        · have : y = x := by simpa using hy
          subst this; exact hle.refl _
      have h3 : ∀ y ∈ (pre ++ [x]).take pre.length, le x y = false := by
        intro y hy
        rw [List.take_left'] at hy
        · cases hxy : le x y with
          | false => rfl
          | true =>
            have := hle.trans _ _ _ hxy (hall y hy)
            simp [this] at hxb
        · rfl
      obtain ⟨z, hz1, hz2, hz3⟩ := ih (pre ++ [x]) x pre.length h1 h2 h3
      refine ⟨z, ?_, ?_, ?_⟩
      · simpa [List.append_assoc] using hz1
      · simpa [List.append_assoc] using hz2
      · simpa [List.append_assoc] using hz3
    · simp only [hlt, Bool.false_eq_true, if_false]
      have hxb : le x b = true := by
        simp only [ltMax, Bool.not_eq_true', Bool.not_eq_false] at hlt; exact hlt
      have h1 : (pre ++ [x])[bi]? = some b := by
        rw [List.getElem?_append_left hbi]; exact hb
      have h2 : ∀ y ∈ pre ++ [x], le y b = true := by
        intro y hy
        rcases List.mem_append.mp hy with hy | hy
        · exact hall y hy
        · have : y = x := by simpa using hy
          subst this; exact hxb
      have h3 : ∀ y ∈ (pre ++ [x]).take bi, le b y = false := by
        intro y hy
        rw [List.take_append_of_le_length (Nat.le_of_lt hbi)] at hy
        exact hfirst y hy
      obtain ⟨z, hz1, hz2, hz3⟩ := ih (pre ++ [x]) b bi h1 h2 h3
      refine ⟨z, ?_, ?_, ?_⟩
      · simpa [List.append_assoc] using hz1
      · simpa [List.append_assoc] using hz2
      · simpa [List.append_assoc] using hz3

/-- the chosen index holds a maximal element and every element before it is strictly smaller -/
theorem argFirst_first (le : α → α → Bool) (hle : TotalPre le) (xs : List α) (h : xs ≠ []) :
    ∃ x, xs[argFirst (ltMax le) xs]? = some x ∧ (∀ y ∈ xs, le y x = true) ∧
      ∀ y ∈ xs.take (argFirst (ltMax le) xs), le x y = false := by
  cases xs with
  | nil => exact absurd rfl h
  | cons x xs =>
    have := scanBest_first le hle xs [x] x 0 (by simp) (by
      intro y hy
      have : y = x := by simpa using hy
      subst this; exact hle.refl _) (by simp)
    simpa [argFirst] using this

/-- one step of the loop: the chosen input is maximal, and all inputs in front of it have a
strictly smaller current row -/
theorem step_first (le : α → α → Bool) (hle : TotalPre le) (st : List (Src α)) (h : st ≠ []) :
    ∃ A s B, st = A ++ s :: B ∧ srcAt st (argFirst (ltMax le) (st.map (·.1))) = [s] ∧
      advanceAt st (argFirst (ltMax le) (st.map (·.1))) = A ++ nextSrc s ++ B ∧
      (∀ t ∈ st, le t.1 s.1 = true) ∧ ∀ a ∈ A, le s.1 a.1 = false := by
  have hne : st.map (·.1) ≠ [] := by simpa using h
  have hl := argFirst_lt (ltMax le) (st.map (·.1)) hne
  rw [List.length_map] at hl
  obtain ⟨x, hx, hmax, hfirst⟩ := argFirst_first le hle (st.map (·.1)) hne
  refine ⟨st.take (argFirst (ltMax le) (st.map (·.1))), st[argFirst (ltMax le) (st.map (·.1))],
    st.drop (argFirst (ltMax le) (st.map (·.1)) + 1), ?_, srcAt_eq st _ hl, ?_, ?_, ?_⟩
  · rw [← List.drop_eq_getElem_cons hl, List.take_append_drop]
  · unfold advanceAt
    rw [srcAt_eq st _ hl]
    simp
  · have hx' : x = (st[argFirst (ltMax le) (st.map (·.1))]).1 := by
      rw [List.getElem?_map, List.getElem?_eq_getElem hl] at hx
      simpa using hx.symm
    intro t ht
    rw [← hx']
    exact hmax t.1 (List.mem_map.mpr ⟨t, ht, rfl⟩)
  · have hx' : x = (st[argFirst (ltMax le) (st.map (·.1))]).1 := by
      rw [List.getElem?_map, List.getElem?_eq_getElem hl] at hx
      simpa using hx.symm
    intro a ha
    rw [← hx']
    apply hfirst a.1
    rw [← List.map_take]
    exact List.mem_map.mpr ⟨a, ha, rfl⟩

/-! ## the stable sort -/

theorem mem_insDesc (le : α → α → Bool) (x a : α) (l : List α) :
    a ∈ insDesc le x l ↔ a = x ∨ a ∈ l := by
  induction l with
  | nil => simp [insDesc]
  | cons y ys ih =>
    unfold insDesc
    split
    · simp only [List.mem_cons, ih]
      constructor
      · rintro (h | h | h)
        · exact Or.inr (Or.inl h)
        · exact Or.inl h
        · exact Or.inr (Or.inr h)
      · rintro (h | h | h)
        · exact Or.inr (Or.inl h)
        · exact Or.inl h
        · exact Or.inr (Or.inr h)
    · simp

theorem mem_stableSortDesc (le : α → α → Bool) (a : α) (l : List α) :
    a ∈ stableSortDesc le l ↔ a ∈ l := by
  induction l with
  | nil => simp [stableSortDesc]
  | cons y ys ih =>
    have : stableSortDesc le (y :: ys) = insDesc le y (stableSortDesc le ys) := rfl
    rw [this, mem_insDesc, ih]
    simp

theorem stableSortDesc_cons (le : α → α → Bool) (x : α) (l : List α) :
    stableSortDesc le (x :: l) = insDesc le x (stableSortDesc le l) := rfl

/-- a row that scores at least as high as every row of `l` is inserted at the front -/
theorem insDesc_front (le : α → α → Bool) (m : α) (l : List α) (h : ∀ y ∈ l, le y m = true) :
    insDesc le m l = m :: l := by
  cases l with
  | nil => rfl
  | cons y ys =>
    have : le y m = true := h y (by simp)
    simp [insDesc, this]

/-- a maximal row that scores strictly higher than everything in front of it comes first -/
theorem stableSortDesc_extract (le : α → α → Bool) (m : α) (Y : List α)
    (hY : ∀ y ∈ Y, le y m = true) :
    ∀ X : List α, (∀ x ∈ X, le m x = false) →
      stableSortDesc le (X ++ m :: Y) = m :: stableSortDesc le (X ++ Y) := by
  intro X
  induction X with
  | nil =>
    intro _
    simp only [List.nil_append, stableSortDesc_cons]
    exact insDesc_front le m _ (fun y hy => hY y ((mem_stableSortDesc le y Y).mp hy))
  | cons x X ih =>
    intro hX
    have hmx : le m x = false := hX x (by simp)
    have ih' := ih (fun y hy => hX y (by simp [hy]))
    simp only [List.cons_append, stableSortDesc_cons, ih']
    simp [insDesc, hmx]

/-- every row of a non-increasing open input scores at most its current row -/
theorem rows_le_cur {le : α → α → Bool} (hle : TotalPre le) (s : Src α)
    (hs : NonIncr le (srcRows s)) : ∀ x ∈ srcRows s, le x s.1 = true := by
  intro x hx
  rcases List.mem_cons.mp hx with rfl | hx
  · exact hle.refl _
  · exact (List.pairwise_cons.mp hs).1 x hx

theorem nonIncr_next {le : α → α → Bool} (s : Src α) (hs : NonIncr le (srcRows s)) :
    ∀ t ∈ nextSrc s, NonIncr le (srcRows t) := by
  obtain ⟨c, rest⟩ := s
  cases rest with
  | nil => intro t ht; simp [nextSrc] at ht
  | cons n rest =>
    intro t ht
    have : t = (n, rest) := by simpa [nextSrc] using ht
    subst this
    exact (List.pairwise_cons.mp hs).2

/-- on non-increasing inputs the loop of `merge_sort` is the stable sort by decreasing score
of the rows still to be delivered, taken input after input -/
theorem mergeLoop_stable (le : α → α → Bool) (hle : TotalPre le) :
    ∀ (fuel : Nat) (st : List (Src α)), srcTotal st ≤ fuel →
      (∀ s ∈ st, NonIncr le (srcRows s)) →
      mergeLoop le fuel st = stableSortDesc le (st.flatMap srcRows) := by
  intro fuel
  induction fuel with
  | zero =>
    intro st h _
    have := srcTotal_eq_zero (Nat.le_zero.mp h)
    subst this; simp [mergeLoop, stableSortDesc]
  | succ n ih =>
    intro st h hall
    by_cases he : st = []
    · subst he; simp [mergeLoop, stableSortDesc]
    · obtain ⟨A, s, B, hst, hcur, hadv, hmax, hfirst⟩ := step_first le hle st he
      rw [mergeLoop_unfold le n st A B s he hcur hadv]
      have hfuel : srcTotal (A ++ nextSrc s ++ B) ≤ n := by
        have := srcTotal_step A B s
        rw [← hst] at this; omega
      have hs : NonIncr le (srcRows s) := hall s (by rw [hst]; simp)
      have hall' : ∀ t ∈ A ++ nextSrc s ++ B, NonIncr le (srcRows t) := by
        intro t ht
        rcases List.mem_append.mp ht with ht | ht
        · rcases List.mem_append.mp ht with ht | ht
          · exact hall t (by rw [hst]; simp [ht])
          · exact nonIncr_next s hs t ht
        · exact hall t (by rw [hst]; simp [ht])
      rw [ih _ hfuel hall', hst]
      have e1 : (A ++ s :: B).flatMap srcRows
          = A.flatMap srcRows ++ s.1 :: (s.2 ++ B.flatMap srcRows) := by
        simp [List.flatMap_append, List.flatMap_cons, srcRows]
      have e2 : (A ++ nextSrc s ++ B).flatMap srcRows
          = A.flatMap srcRows ++ (s.2 ++ B.flatMap srcRows) := by
        simp [List.flatMap_append, nextSrc_rows]
      rw [e1, e2]
      symm
      apply stableSortDesc_extract
      · intro y hy
        rcases List.mem_append.mp hy with hy | hy
        · exact rows_le_cur hle s hs y (List.mem_cons_of_mem _ hy)
        · obtain ⟨b, hb, hyb⟩ := List.mem_flatMap.mp hy
          have hbst : b ∈ st := by rw [hst]; simp [hb]
          exact hle.trans _ _ _ (rows_le_cur hle b (hall b hbst) y hyb) (hmax b hbst)
      · intro x hx
        obtain ⟨a, ha, hxa⟩ := List.mem_flatMap.mp hx
        have hast : a ∈ st := by rw [hst]; simp [ha]
        have hxle : le x a.1 = true := rows_le_cur hle a (hall a hast) x hxa
        cases hsx : le s.1 x with
        | false => rfl
        | true =>
          have := hle.trans _ _ _ hsx hxle
          rw [hfirst a ha] at this
          exact absurd this (by simp)

/-! ## the stable sort is a sort (so the characterisation above is not vacuous) -/

theorem insDesc_perm (le : α → α → Bool) (x : α) (l : List α) : (insDesc le x l).Perm (x :: l) := by
  induction l with
  | nil => simp [insDesc]
  | cons y ys ih =>
    unfold insDesc
    split
    · exact (List.Perm.cons y ih).trans (List.Perm.swap x y ys)
    · exact List.Perm.refl _

theorem stableSortDesc_perm (le : α → α → Bool) (l : List α) : (stableSortDesc le l).Perm l := by
  induction l with
  | nil => simp [stableSortDesc]
  | cons y ys ih =>
    rw [stableSortDesc_cons]
    exact (insDesc_perm le y _).trans (List.Perm.cons y ih)

theorem insDesc_sorted (le : α → α → Bool) (hle : TotalPre le) (x : α) (l : List α)
    (hl : NonIncr le l) : NonIncr le (insDesc le x l) := by
  induction l with
  | nil => simp [insDesc, NonIncr]
  | cons y ys ih =>
    have hys : NonIncr le ys := (List.pairwise_cons.mp hl).2
    have hy : ∀ z ∈ ys, le z y = true := (List.pairwise_cons.mp hl).1
    unfold insDesc
    by_cases hyx : le y x = true
    · simp only [hyx, Bool.not_true, Bool.false_eq_true, if_false]
      unfold NonIncr
      rw [List.pairwise_cons]
      refine ⟨?_, hl⟩
      intro z hz
      rcases List.mem_cons.mp hz with rfl | hz
      · exact hyx
      · exact hle.trans _ _ _ (hy z hz) hyx
    · have hyx' : le y x = false := by simpa using hyx
      have hxy : le x y = true := by
        rcases hle.total x y with h | h
        · exact h
        · simp [h] at hyx'
      simp only [hyx', Bool.not_false, if_true]
      unfold NonIncr
      rw [List.pairwise_cons]
      refine ⟨?_, ih hys⟩
      intro z hz
      rcases (mem_insDesc le x z ys).mp hz with rfl | hz
      · exact hxy
      · exact hy z hz

theorem stableSortDesc_sorted (le : α → α → Bool) (hle : TotalPre le) (l : List α) :
    NonIncr le (stableSortDesc le l) := by
  induction l with
  | nil => simp [stableSortDesc, NonIncr]
  | cons y ys ih =>
    rw [stableSortDesc_cons]
    exact insDesc_sorted le hle y _ ih

/-- stability: the rows of one score class keep the order in which they were written -/
theorem insDesc_filter (le : α → α → Bool) (hle : TotalPre le) (t x : α) (l : List α)
    (hl : NonIncr le l) :
    (insDesc le x l).filter (fun r => le t r && le r t)
      = (x :: l).filter (fun r => le t r && le r t) := by
  induction l with
  | nil => simp [insDesc]
  | cons y ys ih =>
    have hys : NonIncr le ys := (List.pairwise_cons.mp hl).2
    unfold insDesc
    by_cases hyx : le y x = true
    · simp [hyx]
    · have hyx' : le y x = false := by simpa using hyx
      simp only [hyx', Bool.not_false, if_true]
      -- `y` scores strictly higher than `x`: they are not in the same class
      by_cases hx : (le t x && le x t) = true
      · have hy : (le t y && le y t) = false := by
          cases hyt : le y t with
          | false => simp
          | true =>
            have h1 : le t x = true := by
              simp only [Bool.and_eq_true] at hx; exact hx.1
            have := hle.trans _ _ _ hyt h1
            rw [hyx'] at this; exact absurd this (by simp)
        rw [List.filter_cons, hy, ih hys]
        simp only [Bool.false_eq_true, if_false]
        rw [List.filter_cons, hx, List.filter_cons, hx]
        simp only [if_true]
        rw [List.filter_cons, hy]
        simp
      · have hx' : (le t x && le x t) = false := by simpa using hx
        simp only [List.filter_cons, ih hys, hx', Bool.false_eq_true, if_false]

theorem stableSortDesc_filter (le : α → α → Bool) (hle : TotalPre le) (t : α) (l : List α) :
    (stableSortDesc le l).filter (fun r => le t r && le r t)
      = l.filter (fun r => le t r && le r t) := by
  induction l with
  | nil => simp [stableSortDesc]
  | cons y ys ih =>
    rw [stableSortDesc_cons, insDesc_filter le hle t y _ (stableSortDesc_sorted le hle ys),
      List.filter_cons, List.filter_cons, ih]

end Mk.Merge
