import MokapotVerif.Model.PepsHist
import MokapotVerif.Lemmas.PepsKernel
/-! Helper lemmas for `Props/C06Hist.lean` (histogram side of C06, NNLS systems). -/
namespace Mk.Peps

/-! ## counts are functions of the multiset -/

theorem cumBelow_perm {xs ys : List Rat} (h : xs.Perm ys) (e : Rat) : cumBelow xs e = cumBelow ys e :=
  h.countP_eq _

theorem cumUpTo_perm {xs ys : List Rat} (h : xs.Perm ys) (e : Rat) : cumUpTo xs e = cumUpTo ys e :=
  h.countP_eq _

theorem histCum_perm {xs ys : List Rat} (h : xs.Perm ys) : ∀ edges, histCum xs edges = histCum ys edges := by
  intro edges
  induction edges with
  | nil => rfl
  | cons e rest ih =>
    cases rest with
    | nil => simp [histCum, cumUpTo_perm h]
    | cons e' rest' => simp only [histCum, cumBelow_perm h, ih]

theorem histCounts_perm {xs ys : List Rat} (h : xs.Perm ys) (edges : List Rat) :
    histCounts xs edges = histCounts ys edges := by
  unfold histCounts
  rw [histCum_perm h]

theorem targetScores_perm {xs ys : List Psm} (h : ys.Perm xs) : (targetScores ys).Perm (targetScores xs) :=
  (h.filter _).map _

theorem decoyScores_perm {xs ys : List Psm} (h : ys.Perm xs) : (decoyScores ys).Perm (decoyScores xs) :=
  (h.filter _).map _

theorem histFitOf_perm (k : HistKern) (edges : List Rat) {xs ys : List Psm} (h : ys.Perm xs) :
    histFitOf k edges ys = histFitOf k edges xs := by
  simp only [histFitOf]
  rw [histCounts_perm (targetScores_perm h) edges, histCounts_perm (decoyScores_perm h) edges]

/-! ## cumulative histogram = bin membership -/

theorem cumBelow_split (xs : List Rat) (a b : Rat) (hab : a ≤ b) :
    cumBelow xs b = cumBelow xs a + xs.countP (inBin a b false) := by
  unfold cumBelow
  induction xs with
  | nil => simp
  | cons x rest ih =>
    simp only [List.countP_cons, ih, inBin]
    by_cases h1 : x < a
    · have h2 : x < b := lt_of_lt_of_le h1 hab
      have h3 : ¬ a ≤ x := not_le.mpr h1
      simp [h1, h2, h3]
      omega
    · by_cases h2 : x < b
      · have h3 : a ≤ x := not_lt.mp h1
        simp [h1, h2, h3]
        omega
      · have h3 : a ≤ x := not_lt.mp h1
        simp [h1, h2, h3]

theorem cumUpTo_split (xs : List Rat) (a b : Rat) (hab : a ≤ b) :
    cumUpTo xs b = cumBelow xs a + xs.countP (inBin a b true) := by
  unfold cumUpTo cumBelow
  induction xs with
  | nil => simp
  | cons x rest ih =>
    simp only [List.countP_cons, ih, inBin]
    by_cases h1 : x < a
    · have h2 : x ≤ b := le_of_lt (lt_of_lt_of_le h1 hab)
      have h3 : ¬ a ≤ x := not_le.mpr h1
      simp [h1, h2, h3]
      omega
    · by_cases h2 : x ≤ b
      · have h3 : a ≤ x := not_lt.mp h1
        simp [h1, h2, h3]
        omega
      · have h3 : a ≤ x := not_lt.mp h1
        simp [h1, h2, h3]

theorem histCounts_eq_spec (xs : List Rat) : ∀ edges : List Rat, edges.Pairwise (· ≤ ·) →
    histCounts xs edges = (histSpec xs edges).map (fun c => (c : Int)) := by
  intro edges
  induction edges with
  | nil => intro _; rfl
  | cons a rest ih =>
    intro hp
    cases rest with
    | nil => rfl
    | cons b rest' =>
      have hab : a ≤ b := (List.pairwise_cons.mp hp).1 b (by simp)
      have hrest := (List.pairwise_cons.mp hp).2
      have ih' := ih hrest
      cases rest' with
      | nil =>
        simp only [histCounts, histCum, diffNat, histSpec, List.map_cons, List.map_nil]
        rw [cumUpTo_split xs a b hab]
        simp
      | cons c rest'' =>
        simp only [histCounts, histCum, diffNat, histSpec, List.map_cons] at ih' ⊢
        rw [ih', cumBelow_split xs a b hab]
        simp

/-! ## every value inside the edges is counted once -/

theorem intSum_diffNat : ∀ (l : List Nat) (a : Nat), intSum (diffNat (a :: l)) = ((a :: l).getLast (by simp) : Int) - a := by
  intro l
  induction l with
  | nil => intro a; simp [diffNat, intSum]
  | cons b rest ih =>
    intro a
    simp only [diffNat, intSum, List.foldr_cons] at ih ⊢
    rw [ih b]
    rw [List.getLast_cons (List.cons_ne_nil b rest)]
    omega

theorem histCum_head (xs : List Rat) (a b : Rat) (rest : List Rat) :
    histCum xs (a :: b :: rest) = cumBelow xs a :: histCum xs (b :: rest) := rfl

theorem histCum_ne_nil (xs : List Rat) (a : Rat) (rest : List Rat) : histCum xs (a :: rest) ≠ [] := by
  cases rest <;> simp [histCum]

theorem histCum_getLast (xs : List Rat) : ∀ (a : Rat) (rest : List Rat),
    (histCum xs (a :: rest)).getLast (histCum_ne_nil xs a rest) = cumUpTo xs ((a :: rest).getLast (by simp)) := by
  intro a rest
  induction rest generalizing a with
  | nil => simp [histCum]
  | cons b rest' ih =>
    simp only [histCum_head]
    rw [List.getLast_cons (histCum_ne_nil xs b rest'), ih b]
    rw [List.getLast_cons (List.cons_ne_nil b rest')]

theorem intSum_histCounts (xs : List Rat) (a b : Rat) (rest : List Rat) :
    intSum (histCounts xs (a :: b :: rest)) =
      (cumUpTo xs ((b :: rest).getLast (by simp)) : Int) - cumBelow xs a := by
  unfold histCounts
  rw [histCum_head, intSum_diffNat]
  rw [List.getLast_cons (histCum_ne_nil xs b rest), histCum_getLast]

theorem cumBelow_zero (xs : List Rat) (a : Rat) (h : ∀ x ∈ xs, a ≤ x) : cumBelow xs a = 0 := by
  unfold cumBelow
  rw [List.countP_eq_zero]
  intro x hx
  simpa using h x hx

theorem cumUpTo_all (xs : List Rat) (b : Rat) (h : ∀ x ∈ xs, x ≤ b) : cumUpTo xs b = xs.length := by
  unfold cumUpTo
  rw [List.countP_eq_length]
  intro x hx
  simpa using h x hx

/-! ## midpoints -/

theorem histMid_length : ∀ edges : List Rat, (histMid edges).length = edges.length - 1 := by
  intro edges
  induction edges with
  | nil => rfl
  | cons a rest ih =>
    cases rest with
    | nil => rfl
    | cons b rest' =>
      simp only [histMid, List.length_cons] at ih ⊢
      omega

theorem histMid_mem_between : ∀ (edges : List Rat), edges.Pairwise (· < ·) → ∀ m ∈ histMid edges,
    ∃ a ∈ edges, ∃ b ∈ edges, a < m ∧ m < b := by
  intro edges
  induction edges with
  | nil => intro _ m hm; simp [histMid] at hm
  | cons a rest ih =>
    intro hp m hm
    cases rest with
    | nil => simp [histMid] at hm
    | cons b rest' =>
      have hab : a < b := (List.pairwise_cons.mp hp).1 b (by simp)
      simp only [histMid, List.mem_cons] at hm
      rcases hm with rfl | hm
      · refine ⟨a, by simp, b, by simp, ?_, ?_⟩ <;> linarith
      · obtain ⟨x, hx, y, hy, h1, h2⟩ := ih (List.pairwise_cons.mp hp).2 m hm
        exact ⟨x, List.mem_cons_of_mem _ hx, y, List.mem_cons_of_mem _ hy, h1, h2⟩

theorem histMid_pairwise : ∀ (edges : List Rat), edges.Pairwise (· < ·) → (histMid edges).Pairwise (· < ·) := by
  intro edges
  induction edges with
  | nil => intro _; simp [histMid]
  | cons a rest ih =>
    intro hp
    cases rest with
    | nil => simp [histMid]
    | cons b rest' =>
      have hab : a < b := (List.pairwise_cons.mp hp).1 b (by simp)
      have hrest := (List.pairwise_cons.mp hp).2
      simp only [histMid]
      refine List.pairwise_cons.mpr ⟨?_, ih hrest⟩
      intro m hm
      obtain ⟨x, hx, _, _, h1, _⟩ := histMid_mem_between (b :: rest') hrest m hm
      have hbx : b ≤ x := by
        rcases List.mem_cons.mp hx with rfl | hx'
        · exact le_refl _
        · exact le_of_lt ((List.pairwise_cons.mp hrest).1 x hx')
      linarith

/-! ## the rows of the fit_nnls system -/

theorem dotRat_cons (r : Rat) (row : List Rat) (x : Rat) (d : List Rat) :
    dotRat (r :: row) (x :: d) = r * x + dotRat row d := by
  simp [dotRat]

/-- `Σ_j [k + j ≤ i] · c · d_j = c · Σ (d.take (i + 1 - k))` -/
theorem dot_lower (c : Rat) (i : Nat) : ∀ (d : List Rat) (k : Nat),
    dotRat ((List.range' k d.length).map (fun j => if j ≤ i then c else 0)) d = c * (d.take (i + 1 - k)).sum := by
  intro d
  induction d with
  | nil => intro k; simp [dotRat]
  | cons x rest ih =>
    intro k
    simp only [List.length_cons, List.range'_succ, List.map_cons, dotRat_cons]
    rw [ih (k + 1)]
    by_cases hk : k ≤ i
    · have : i + 1 - k = (i + 1 - (k + 1)) + 1 := by omega
      rw [this, List.take_succ_cons, List.sum_cons]
      simp [hk]
      ring
    · have h0 : i + 1 - k = 0 := by omega
      have h1 : i + 1 - (k + 1) = 0 := by omega
      rw [h0, h1]
      simp [hk]

end Mk.Peps
