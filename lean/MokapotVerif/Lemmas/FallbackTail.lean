import MokapotVerif.Model.FallbackTail
import MokapotVerif.Lemmas.QvaluesSort
import Mathlib.Order.Lattice
import Mathlib.Algebra.Order.Field.Rat
import Mathlib.Tactic.Linarith
/-! Helper lemmas for the end-to-end model of the tail of `brew` (C07 extension). -/
namespace Mk.Fallback
open Mk

/-! ### the two score orders -/

theorem leDir_totalPre (desc : Bool) : TotalPre (leDir desc) := by
  constructor
  · intro a b; cases desc <;> simp [leDir] <;> omega
  · intro a b c; cases desc <;> simp [leDir] <;> omega

theorem leUp_eq : leUp = leDir true := by
  funext a b; simp [leUp, leDir]

theorem leUp_totalPre : TotalPre leUp := leUp_eq ▸ leDir_totalPre true

/-! ### the accepted-target count is the declarative count -/

theorem zipWith_map_self {β γ δ : Type} (f : β → γ → δ) (h : β → γ) (xs : List β) :
    List.zipWith f xs (xs.map h) = xs.map (fun x => f x (h x)) := by
  induction xs with
  | nil => rfl
  | cons x rest ih => simp [ih]

theorem count_one_map {β : Type} (g : β → Int) (xs : List β) :
    (xs.map g).count 1 = xs.countP (fun x => g x == 1) := by
  induction xs with
  | nil => rfl
  | cons x rest ih =>
    simp only [List.map_cons, List.count_cons, List.countP_cons, ih]

theorem labelOf_eq_one (thr : Rat) (t : Bool) (q : Rat) :
    (labelOf thr t q == 1) = (t && Decidable.decide (q ≤ thr)) := by
  unfold labelOf
  cases t
  · simp
  · by_cases h : q > thr
    · simp [h, not_le.mpr h]
    · simp [h, not_lt.mp h]

theorem accepted_eq_spec {α : Type} (le : α → α → Bool) (hle : TotalPre le) (thr : Rat)
    (xs : List (α × Bool)) : accepted le thr xs = acceptedSpec le thr xs := by
  unfold accepted acceptedSpec updateLabels
  rw [tdc_eq_spec_aux le hle, zipWith_map_self, count_one_map]
  apply List.countP_congr
  intro x _
  simp [labelOf_eq_one]

/-! ### label decoding -/

theorem decodeLabel_eq (l : RawLabel) :
    decodeLabel l = if labelOk l then some (isTargetRaw l) else none := by
  cases l with
  | bool b => simp [decodeLabel, labelOk, isTargetRaw]
  | int i =>
    simp only [decodeLabel, labelOk, isTargetRaw]
    by_cases h : i < -1 ∨ i > 1
    · have : ¬ (-1 ≤ i ∧ i ≤ 1) := by omega
      simp [h, this]
    · have : (-1 ≤ i ∧ i ≤ 1) := by omega
      simp [h, this]

theorem decodeColl_ok {α : Type} (c : List (α × RawLabel)) (h : ∀ x ∈ c, labelOk x.2 = true) :
    decodeColl c = some (c.map (fun x => (x.1, isTargetRaw x.2))) := by
  unfold decodeColl
  induction c with
  | nil => simp
  | cons x rest ih =>
    have hx : decodeLabel x.2 = some (isTargetRaw x.2) := by
      rw [decodeLabel_eq, h x (by simp)]; rfl
    have := ih (fun y hy => h y (List.mem_cons_of_mem _ hy))
    simp [List.mapM_cons, hx, this]

theorem decodeColl_bad {α : Type} (c : List (α × RawLabel)) (x : α × RawLabel) (hx : x ∈ c)
    (hbad : labelOk x.2 = false) : decodeColl c = none := by
  unfold decodeColl
  induction c with
  | nil => simp at hx
  | cons y rest ih =>
    rcases List.mem_cons.mp hx with rfl | hmem
    · have : decodeLabel x.2 = none := by rw [decodeLabel_eq, hbad]; rfl
      simp [List.mapM_cons, this]
    · have := ih hmem
      simp only [List.mapM_cons, this]
      cases decodeLabel y.2 <;> simp

theorem predTotal_ok {α : Type} (le : α → α → Bool) (thr : Rat) (colls : List (List (α × RawLabel)))
    (h : ∀ c ∈ colls, ∀ x ∈ c, labelOk x.2 = true) :
    predTotal le thr colls
      = some ((colls.map (fun c => accepted le thr (c.map (fun x => (x.1, isTargetRaw x.2))))).sum) := by
  unfold predTotal
  induction colls with
  | nil => simp
  | cons c rest ih =>
    have hc := decodeColl_ok c (h c (by simp))
    have := ih (fun c' hc' => h c' (List.mem_cons_of_mem _ hc'))
    simp only [Option.map_eq_some_iff] at this
    obtain ⟨l, hl, hsum⟩ := this
    simp [List.mapM_cons, hc, hl, hsum]

theorem predTotal_bad {α : Type} (le : α → α → Bool) (thr : Rat) (colls : List (List (α × RawLabel)))
    (c : List (α × RawLabel)) (hc : c ∈ colls) (x : α × RawLabel) (hx : x ∈ c)
    (hbad : labelOk x.2 = false) : predTotal le thr colls = none := by
  unfold predTotal
  induction colls with
  | nil => simp at hc
  | cons c' rest ih =>
    rcases List.mem_cons.mp hc with rfl | hmem
    · simp [List.mapM_cons, decodeColl_bad c x hx hbad]
    · have := ih hmem
      simp only [Option.map_eq_none_iff] at this
      simp only [List.mapM_cons, this]
      cases (decodeColl c').map (accepted le thr) <;> simp

/-! ### the tail of `brew` unfolded over the declarative count -/

theorem mem_scoredRows_label (sc : List Int) (c : Coll) (x : Int × RawLabel) (hx : x ∈ scoredRows sc c) :
    x.2 ∈ c.labels := by
  unfold scoredRows at hx
  exact (List.of_mem_zip hx).2

theorem labelsOk_zip (colls : List Coll) (h : labelsOk colls = true) (scores : List (List Int)) :
    ∀ c ∈ (scores.zip colls).map (fun sc => scoredRows sc.1 sc.2), ∀ x ∈ c, labelOk x.2 = true := by
  intro c hc x hx
  obtain ⟨sc, hsc, rfl⟩ := List.mem_map.mp hc
  have hcoll : sc.2 ∈ colls := (List.of_mem_zip hsc).2
  have hl := mem_scoredRows_label sc.1 sc.2 x hx
  unfold labelsOk at h
  rw [List.all_eq_true] at h
  have := h sc.2 hcoll
  rw [List.all_eq_true] at this
  exact this _ hl

theorem tailPred_ok (thr : Rat) (colls : List Coll) (h : labelsOk colls = true) (scores : List (List Int)) :
    tailPred thr colls scores = some (totalAccepted thr colls scores) := by
  unfold tailPred totalAccepted collAccepted
  rw [predTotal_ok leUp thr _ (labelsOk_zip colls h scores)]
  simp only [List.map_map, Function.comp_def, accepted_eq_spec leUp leUp_totalPre]

/-- the tail of `brew` when every stored label is in range: the decision taken on the declarative
count of the compared scores -/
theorem brewTail_unfold (ms : List FoldModel) (thr : Rat) (colls : List Coll) (h : labelsOk colls = true) :
    brewTail ms thr colls
      = some (returnOf ms colls (decide ms (totalAccepted thr colls (tailScores ms colls)))) := by
  unfold brewTail
  rw [tailPred_ok thr colls h]
  rfl

/-- whenever `pred_total` is computed at all it is the declarative count -/
theorem tailPred_some (thr : Rat) (colls : List Coll) (scores : List (List Int)) (p : Nat)
    (h : tailPred thr colls scores = some p) : p = totalAccepted thr colls scores := by
  by_cases hall : ∀ c ∈ (scores.zip colls).map (fun sc => scoredRows sc.1 sc.2), ∀ x ∈ c, labelOk x.2 = true
  · have := predTotal_ok leUp thr _ hall
    unfold tailPred at h
    rw [this] at h
    injection h with h
    rw [← h]
    unfold totalAccepted collAccepted
    simp only [List.map_map, Function.comp_def, accepted_eq_spec leUp leUp_totalPre]
  · push Not at hall
    obtain ⟨c, hc, x, hx, hbad⟩ := hall
    have := predTotal_bad leUp thr _ c hc x hx (by simpa using hbad)
    unfold tailPred at h
    rw [this] at h
    cases h

theorem brewTail_some (ms : List FoldModel) (thr : Rat) (colls : List Coll)
    (out : List (List Int) × List Bool) (h : brewTail ms thr colls = some out) :
    out = returnOf ms colls (decide ms (totalAccepted thr colls (tailScores ms colls))) := by
  unfold brewTail at h
  cases hp : tailPred thr colls (tailScores ms colls) with
  | none => simp [hp] at h
  | some p =>
    rw [hp] at h
    simp only [Option.map_some] at h
    injection h with h
    rw [← h, tailPred_some thr colls _ p hp]

theorem tailScores_length (ms : List FoldModel) (colls : List Coll) :
    (tailScores ms colls).length = colls.length := by
  unfold tailScores
  split <;> simp

/-- collections whose model scores have one entry per row (as `brew` builds them) -/
def WellFormed (colls : List Coll) : Prop := ∀ c ∈ colls, c.modelScores.length = c.labels.length

theorem zip_map_self_mem {β γ : Type} (g : β → γ) (l : List β) (b : β) (hb : b ∈ l) :
    (g b, b) ∈ (l.map g).zip l := by
  induction l with
  | nil => simp at hb
  | cons y rest ih =>
    rcases List.mem_cons.mp hb with rfl | hm
    · simp
    · simp only [List.map_cons, List.zip_cons_cons, List.mem_cons]
      exact Or.inr (ih hm)

theorem mem_zip_of_length_eq {β γ : Type} (l₁ : List β) (l₂ : List γ) (hlen : l₁.length = l₂.length)
    (y : γ) (hy : y ∈ l₂) : ∃ x, (x, y) ∈ l₁.zip l₂ := by
  induction l₂ generalizing l₁ with
  | nil => simp at hy
  | cons z rest ih =>
    cases l₁ with
    | nil => simp at hlen
    | cons w ws =>
      rcases List.mem_cons.mp hy with rfl | hm
      · exact ⟨w, by simp⟩
      · obtain ⟨x, hx⟩ := ih ws (by simpa using hlen) hm
        exact ⟨x, by simp [hx]⟩

theorem brewTail_bad (ms : List FoldModel) (thr : Rat) (colls : List Coll) (hwf : WellFormed colls)
    (h : labelsOk colls = false) : brewTail ms thr colls = none := by
  unfold labelsOk at h
  obtain ⟨c, hc, hcbad⟩ := List.all_eq_false.mp h
  have hcbad' : c.labels.all labelOk = false := by simpa using hcbad
  obtain ⟨l, hl, hlbad⟩ := List.all_eq_false.mp hcbad'
  have hlbad' : labelOk l = false := by simpa using hlbad
  unfold brewTail tailPred
  -- the collection `c` is paired with a score list of the same length
  have hpair : ∃ sc, (sc, c) ∈ (tailScores ms colls).zip colls ∧ sc.length = c.labels.length := by
    unfold tailScores
    split
    · exact ⟨c.modelScores, zip_map_self_mem (·.modelScores) colls c hc, hwf c hc⟩
    · exact ⟨zerosLike c, zip_map_self_mem zerosLike colls c hc, by simp [zerosLike]⟩
  obtain ⟨sc, hsc, hlen⟩ := hpair
  obtain ⟨s, hs⟩ := mem_zip_of_length_eq sc c.labels hlen l hl
  have := predTotal_bad leUp thr ((tailScores ms colls).zip colls |>.map (fun sc => scoredRows sc.1 sc.2))
    (scoredRows sc c) (List.mem_map.mpr ⟨(sc, c), hsc, rfl⟩) (s, l) hs hlbad'
  rw [this]
  rfl

/-! ### all scores equal: everything or nothing is accepted -/

theorem minOver_const (v : Rat) (ys : List Rat) (hne : ys ≠ []) (h : ∀ y ∈ ys, y = v) :
    minOver ys = min v 1 := by
  apply le_antisymm
  · have hm := (le_minOver_iff (minOver ys) ys).mp le_rfl
    obtain ⟨y, hy⟩ := List.exists_mem_of_ne_nil ys hne
    exact le_min (h y hy ▸ hm.2 y hy) hm.1
  · rw [le_minOver_iff]
    exact ⟨min_le_right _ _, fun y hy => h y hy ▸ min_le_left _ _⟩

theorem qSpec_const {α : Type} (le : α → α → Bool) (xs : List (α × Bool))
    (h : ∀ x ∈ xs, ∀ y ∈ xs, le x.1 y.1 = true) (x : α × Bool) (hx : x ∈ xs) :
    qSpec le xs x.1 = min (fdrRaw (xs.countP (·.2)) (xs.countP (fun y => !y.2))) 1 := by
  unfold qSpec
  apply minOver_const
  · intro hnil
    have : x ∈ xs.filter (fun t => le t.1 x.1) := List.mem_filter.mpr ⟨hx, h x hx x hx⟩
    have hmap := List.map_eq_nil_iff.mp hnil
    rw [hmap] at this
    simp at this
  · intro y hy
    obtain ⟨t, ht, rfl⟩ := List.mem_map.mp hy
    have htm : t ∈ xs := (List.mem_filter.mp ht).1
    unfold cntT cntD
    congr 1
    · apply List.countP_congr
      intro z hz
      simp [h t htm z hz]
    · apply List.countP_congr
      intro z hz
      simp [h t htm z hz]

theorem acceptedSpec_const {α : Type} (le : α → α → Bool) (thr : Rat)
    (xs : List (α × Bool)) (h : ∀ x ∈ xs, ∀ y ∈ xs, le x.1 y.1 = true) :
    acceptedSpec le thr xs
      = if min (fdrRaw (xs.countP (·.2)) (xs.countP (fun y => !y.2))) 1 ≤ thr then xs.countP (·.2) else 0 := by
  unfold acceptedSpec
  split
  · rename_i hq
    apply List.countP_congr
    intro x hx
    rw [qSpec_const le xs h x hx]
    simp [hq]
  · rename_i hq
    rw [List.countP_eq_zero]
    intro x hx
    rw [qSpec_const le xs h x hx]
    simp [hq]

/-! ### direction handling of the confidence pipeline -/

theorem rankScore_invol (desc : Bool) (s : Int) : rankScore desc (rankScore desc s) = s := by
  cases desc <;> simp [rankScore]

theorem leUp_rankScore (desc : Bool) (a b : Int) :
    leUp (rankScore desc a) (rankScore desc b) = leDir desc a b := by
  cases desc <;> simp [leUp, leDir, rankScore]

end Mk.Fallback
