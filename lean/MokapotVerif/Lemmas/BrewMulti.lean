import MokapotVerif.Model.BrewMulti
import MokapotVerif.Lemmas.BrewPredict
/-!
# Helper lemmas for the multi-collection part of C02: `make_train_sets`
-/
namespace Mk.Brew

/-! ## the complement loop -/

theorem rangeDiff_append (lo mid hi : Nat) (fold : List Nat) (h1 : lo ≤ mid) (h2 : mid ≤ hi) :
    rangeDiff lo mid fold ++ rangeDiff mid hi fold = rangeDiff lo hi fold := by
  unfold rangeDiff
  rw [← List.filter_append]
  congr 1
  have h := @List.range'_append_1 lo (mid - lo) (hi - mid)
  have e1 : lo + (mid - lo) = mid := by omega
  have e2 : mid - lo + (hi - mid) = hi - lo := by omega
  rw [e1, e2] at h
  exact h

/-- the inner loop of `make_train_sets` changes nothing: whatever `chunk_range`, the indices
collected are those of `range(k, ds)` outside the held-out fold -/
theorem complementLoop_eq (cr ds : Nat) (fold : List Nat) :
    ∀ (fuel k : Nat), complementLoop cr ds fold fuel k = rangeDiff k ds fold := by
  intro fuel
  induction fuel with
  | zero => intro k; rfl
  | succ n ih =>
    intro k
    simp only [complementLoop]
    split
    · rw [ih]
      exact rangeDiff_append k (k + cr) ds fold (by omega) (by omega)
    · rfl

theorem trainFile_eq (ds : Nat) (fold : List Nat) : trainFile ds fold = complement ds fold := by
  unfold trainFile
  rw [complementLoop_eq]
  unfold rangeDiff complement
  rw [List.range_eq_range']
  rfl

/-! ## `zip(*…)` -/

theorem minLenAux_const {α : Type} (n : Nat) : ∀ (xss : List (List α)),
    (∀ xs ∈ xss, xs.length = n) → minLenAux n xss = n := by
  intro xss
  induction xss with
  | nil => intro _; rfl
  | cons xs rest ih =>
    intro h
    simp only [minLenAux]
    rw [h xs (by simp), Nat.min_self]
    exact ih (fun ys hys => h ys (List.mem_cons_of_mem _ hys))

theorem zipLen_const {α : Type} (n : Nat) (xss : List (List α)) (hne : xss ≠ [])
    (h : ∀ xs ∈ xss, xs.length = n) : zipLen xss = n := by
  cases xss with
  | nil => exact absurd rfl hne
  | cons xs rest =>
    simp only [zipLen]
    rw [h xs (by simp)]
    exact minLenAux_const n rest (fun ys hys => h ys (List.mem_cons_of_mem _ hys))

/-! ## the caps -/

theorem sum_range_caps (q r K : Nat) : ∀ m : Nat,
    ((List.range m).map (fun i => q + (if i + 1 = K then r else 0))).sum =
      q * m + (if 1 ≤ K ∧ K ≤ m then r else 0) := by
  intro m
  induction m with
  | zero =>
    have : ¬ (1 ≤ K ∧ K ≤ 0) := by omega
    rw [if_neg this]
    simp
  | succ n ih =>
    rw [List.range_succ, List.map_append, List.sum_append, ih]
    simp only [List.map_cons, List.map_nil, List.sum_cons, List.sum_nil, Nat.add_zero]
    by_cases h1 : n + 1 = K
    · have : ¬ (1 ≤ K ∧ K ≤ n) := by omega
      have h2 : (1 ≤ K ∧ K ≤ n + 1) := by omega
      rw [if_neg this, if_pos h1, if_pos h2, Nat.mul_succ]
      omega
    · rw [if_neg h1]
      by_cases h3 : 1 ≤ K ∧ K ≤ n
      · have h4 : 1 ≤ K ∧ K ≤ n + 1 := by omega
        rw [if_pos h3, if_pos h4, Nat.mul_succ]
        omega
      · have h4 : ¬ (1 ≤ K ∧ K ≤ n + 1) := by omega
        rw [if_neg h3, if_neg h4, Nat.mul_succ]
        omega

/-- the per-file caps add up to `subset_max_train` -/
theorem perFileCaps_sum (c K : Nat) (hK : 0 < K) : (perFileCaps c K).sum = c := by
  unfold perFileCaps
  rw [sum_range_caps]
  have h : 1 ≤ K ∧ K ≤ K := ⟨hK, Nat.le_refl _⟩
  rw [if_pos h]
  have := Nat.div_mul_le_self c K
  omega

theorem perFileCaps_length (c K : Nat) : (perFileCaps c K).length = K := by
  simp [perFileCaps]

theorem getD_le_sum : ∀ (l : List Nat) (i : Nat), l.getD i 0 ≤ l.sum := by
  intro l
  induction l with
  | nil => intro i; simp
  | cons x rest ih =>
    intro i
    cases i with
    | zero => simp
    | succ k =>
      have := ih k
      simp only [List.getD_cons_succ, List.sum_cons]
      omega

/-! ## `mapM` over `zipIdx` -/

theorem zipIdx_getD {β : Type} (l : List β) (k : Nat) (hk : k < l.length) (d : β × Nat) :
    l.zipIdx.getD k d = (l[k], k) := by
  rw [List.getD_eq_getElem?_getD, List.getElem?_eq_getElem (by simpa using hk)]
  simp

theorem mapM_zipIdx_some {β γ : Type} (g : β × Nat → Option γ) (l : List β) (out : List γ)
    (h : l.zipIdx.mapM g = some out) :
    out.length = l.length ∧ ∀ (k : Nat) (hk : k < l.length) (d : γ), g (l[k], k) = some (out.getD k d) := by
  have hf := mapM_some_forall₂ g _ _ h
  have hl := hf.length_eq
  simp only [List.length_zipIdx] at hl
  refine ⟨hl.symm, ?_⟩
  intro k hk d
  have := forall₂_getD hf k (by simpa using hk) (l[k], k) d
  rw [zipIdx_getD l k hk] at this
  exact this

theorem mapM_range_some {γ : Type} (g : Nat → Option γ) (n : Nat) (out : List γ)
    (h : (List.range n).mapM g = some out) :
    out.length = n ∧ ∀ (k : Nat), k < n → ∀ d : γ, g k = some (out.getD k d) := by
  have hf := mapM_some_forall₂ g _ _ h
  have hl := hf.length_eq
  simp only [List.length_range] at hl
  refine ⟨hl.symm, ?_⟩
  intro k hk d
  have := forall₂_getD hf k (by simpa using hk) 0 d
  rw [List.getD_eq_getElem?_getD, List.getElem?_range hk] at this
  exact this

/-! ## `rng.choice` -/

/-- what `Generator.choice(a, c, replace=False)` may draw: `c` distinct positions of `a` -/
def ValidDraw (n c : Nat) (pos : List Nat) : Prop :=
  pos.length = c ∧ pos.Nodup ∧ ∀ j ∈ pos, j < n

theorem choice_some (a : List Nat) (c : Nat) (pos out : List Nat) (h : choice a c pos = some out) :
    c ≤ a.length ∧ out = pos.map (fun j => a.getD j 0) := by
  unfold choice at h
  split at h
  · exact absurd h (by simp)
  · exact ⟨by omega, (Option.some.inj h).symm⟩

theorem choice_props (a : List Nat) (c : Nat) (pos out : List Nat) (ha : a.Nodup)
    (hv : ValidDraw a.length c pos) (h : choice a c pos = some out) :
    out.length = c ∧ out.Nodup ∧ ∀ i ∈ out, i ∈ a := by
  obtain ⟨_, rfl⟩ := choice_some a c pos out h
  obtain ⟨hl, hnd, hlt⟩ := hv
  refine ⟨by simpa using hl, ?_, ?_⟩
  · rw [List.nodup_map_iff_inj_on hnd]
    intro x hx y hy hxy
    have hx' := hlt x hx
    have hy' := hlt y hy
    rw [List.getD_eq_getElem?_getD, List.getD_eq_getElem?_getD, List.getElem?_eq_getElem hx',
      List.getElem?_eq_getElem hy'] at hxy
    simp only [Option.getD_some] at hxy
    exact (ha.getElem_inj_iff).mp hxy
  · intro i hi
    rw [List.mem_map] at hi
    obtain ⟨j, hj, rfl⟩ := hi
    have hj' := hlt j hj
    rw [List.getD_eq_getElem?_getD, List.getElem?_eq_getElem hj']
    exact List.getElem_mem hj'

end Mk.Brew

namespace Mk.Brew

/-! ## `capFold`, `makeTrainSets` -/

theorem capFold_some (caps : List Nat) (enums : List (List Nat)) (draws : List (Nat → List Nat))
    (out : List (List Nat)) (h : capFold caps enums draws = some out) :
    out.length = enums.length ∧ ∀ (k : Nat) (hk : k < enums.length),
      (((0 < caps.length ∧ caps.sum < (enums.map List.length).sum) ∧ k < caps.length) →
        choice enums[k] (caps.getD k 0) ((draws.getD k (fun _ => [])) enums[k].length) =
          some (out.getD k [])) ∧
      (¬ ((0 < caps.length ∧ caps.sum < (enums.map List.length).sum) ∧ k < caps.length) →
        out.getD k [] = enums[k]) := by
  unfold capFold at h
  split at h
  · rename_i hc
    simp only [Bool.and_eq_true, decide_eq_true_eq] at hc
    obtain ⟨hlen, hk⟩ := mapM_zipIdx_some _ enums out h
    refine ⟨hlen, ?_⟩
    intro k hk'
    have := hk k hk' []
    unfold capEntry at this
    simp only [] at this
    constructor
    · rintro ⟨_, hkc⟩
      rw [if_pos hkc] at this
      unfold capFile at this
      have hlt : caps.getD k 0 < (enums.map List.length).sum :=
        Nat.lt_of_le_of_lt (getD_le_sum caps k) hc.2
      rw [if_pos hlt] at this
      exact this
    · intro hn
      have hkc : ¬ k < caps.length := fun hkc => hn ⟨hc, hkc⟩
      rw [if_neg hkc] at this
      exact (Option.some.inj this).symm
  · rename_i hc
    simp only [Bool.and_eq_true, decide_eq_true_eq] at hc
    have := Option.some.inj h
    subst this
    refine ⟨rfl, ?_⟩
    intro k hk
    constructor
    · rintro ⟨hcc, _⟩
      exact absurd hcc hc
    · intro _
      rw [List.getD_eq_getElem?_getD, List.getElem?_eq_getElem hk]
      rfl

theorem foldEnums_length (testIdx : List (List (List Nat))) (dataSize : List Nat)
    (enum : Nat → Nat → List Nat → List Nat) (f : Nat) :
    (foldEnums testIdx dataSize enum f).length = dataSize.length := by
  simp [foldEnums]

theorem foldEnums_getElem (testIdx : List (List (List Nat))) (dataSize : List Nat)
    (enum : Nat → Nat → List Nat → List Nat) (f k : Nat) (hk : k < dataSize.length) :
    (foldEnums testIdx dataSize enum f)[k]'(by rw [foldEnums_length]; exact hk) =
      enum f k (complement (dataSize.getD k 0) (heldOut testIdx k f)) := by
  unfold foldEnums heldOut
  simp only [List.getElem_map, List.getElem_zipIdx, Nat.zero_add, trainFile_eq]
  have : dataSize.getD k 0 = dataSize[k] := by simp [hk]
  rw [this]

theorem foldEnums_total (testIdx : List (List (List Nat))) (dataSize : List Nat)
    (enum : Nat → Nat → List Nat → List Nat) (henum : ∀ f k l, (enum f k l).Perm l) (f : Nat) :
    ((foldEnums testIdx dataSize enum f).map List.length).sum = trainTotal testIdx dataSize f := by
  unfold foldEnums trainTotal heldOut
  rw [List.map_map]
  congr 1
  apply List.map_congr_left
  intro dk _
  simp only [Function.comp, trainFile_eq]
  exact (henum f dk.2 _).length_eq

theorem capsOf_length (cap : Option Nat) (K : Nat) :
    (capsOf cap K).length = if cap.isSome then K else 0 := by
  cases cap with
  | none => simp [capsOf]
  | some c => simp [capsOf, perFileCaps_length]

/-- the test of brew.py:346-348 in terms of the rule `capApplies` (there is at least one file) -/
theorem cap_branch_iff (cap : Option Nat) (K total : Nat) (hK : 0 < K) :
    (0 < (capsOf cap K).length ∧ (capsOf cap K).sum < total) ↔ capApplies cap total = true := by
  cases cap with
  | none => simp [capsOf, capApplies]
  | some c =>
    simp only [capsOf, capApplies, Option.elim_some, perFileCaps_length, perFileCaps_sum c K hK,
      decide_eq_true_eq]
    constructor
    · exact fun h => h.2
    · exact fun h => ⟨hK, h⟩

/-- hypothesis on the `rng.choice` draws: wherever the population is large enough the generator
returns that many distinct positions of it -/
def DrawsValid (cap : Option Nat) (K : Nat) (draw : Nat → Nat → Nat → List Nat) : Prop :=
  ∀ f k n, (capsOf cap K).getD k 0 ≤ n → ValidDraw n ((capsOf cap K).getD k 0) (draw f k n)

theorem complement_nodup (ds : Nat) (fold : List Nat) : (complement ds fold).Nodup :=
  List.nodup_range.filter _

/-- every entry of the result of `make_train_sets` -/
theorem makeTrainSets_entry (testIdx : List (List (List Nat))) (cap : Option Nat) (dataSize : List Nat)
    (enum : Nat → Nat → List Nat → List Nat) (draw : Nat → Nat → Nat → List Nat)
    (henum : ∀ f k l, (enum f k l).Perm l) (hdraw : DrawsValid cap dataSize.length draw)
    (trains : List (List (List Nat)))
    (h : makeTrainSets testIdx cap dataSize enum draw = some trains) :
    trains.length = zipLen testIdx ∧ ∀ f, f < zipLen testIdx →
      (trains.getD f []).length = dataSize.length ∧ ∀ k, k < dataSize.length →
        ((trains.getD f []).getD k []).Nodup ∧
        (∀ i ∈ (trains.getD f []).getD k [], i ∈ complement (dataSize.getD k 0) (heldOut testIdx k f)) ∧
        (capApplies cap (trainTotal testIdx dataSize f) = true →
          ((trains.getD f []).getD k []).length = (capsOf cap dataSize.length).getD k 0) ∧
        (capApplies cap (trainTotal testIdx dataSize f) = false →
          ((trains.getD f []).getD k []).Perm (complement (dataSize.getD k 0) (heldOut testIdx k f))) := by
  unfold makeTrainSets at h
  obtain ⟨hlen, hf⟩ := mapM_range_some _ _ _ h
  refine ⟨hlen, ?_⟩
  intro f hfl
  obtain ⟨hl2, hk⟩ := capFold_some _ _ _ _ (hf f hfl [])
  rw [foldEnums_length] at hl2
  refine ⟨hl2, ?_⟩
  intro k hkl
  have hK : 0 < dataSize.length := by omega
  obtain ⟨hyes, hno⟩ := hk k (by rw [foldEnums_length]; exact hkl)
  rw [foldEnums_total testIdx dataSize enum henum f, foldEnums_getElem testIdx dataSize enum f k hkl,
    cap_branch_iff cap dataSize.length _ hK] at hyes hno
  have hperm := henum f k (complement (dataSize.getD k 0) (heldOut testIdx k f))
  by_cases hc : capApplies cap (trainTotal testIdx dataSize f) = true
  · have hkc : k < (capsOf cap dataSize.length).length := by
      rw [capsOf_length]
      cases cap with
      | none => simp [capApplies] at hc
      | some c => simpa using hkl
    have hch := hyes ⟨hc, hkc⟩
    rw [List.getD_eq_getElem?_getD (l := (List.range dataSize.length).map (draw f)),
      List.getElem?_map, List.getElem?_range hkl] at hch
    simp only [Option.map_some, Option.getD_some] at hch
    obtain ⟨hcle, _⟩ := choice_some _ _ _ _ hch
    have hv := hdraw f k _ hcle
    obtain ⟨h1, h2, h3⟩ := choice_props _ _ _ _ (hperm.nodup_iff.mpr (complement_nodup _ _)) hv hch
    refine ⟨h2, fun i hi => hperm.mem_iff.mp (h3 i hi), fun _ => h1, fun hcf => ?_⟩
    rw [hc] at hcf
    exact absurd hcf (by simp)
  · have heq := hno (fun hh => hc hh.1)
    rw [heq]
    refine ⟨hperm.nodup_iff.mpr (complement_nodup _ _), fun i hi => hperm.mem_iff.mp hi,
      fun hh => absurd hh hc, fun _ => hperm⟩

end Mk.Brew

namespace Mk.Brew

theorem choice_isSome (a : List Nat) (c : Nat) (pos : List Nat) :
    (choice a c pos).isSome ↔ c ≤ a.length := by
  unfold choice
  split
  · simp only [Option.isSome_none, Bool.false_eq_true, false_iff]; omega
  · simp only [Option.isSome_some, true_iff]; omega

theorem capFold_isSome (caps : List Nat) (enums : List (List Nat)) (draws : List (Nat → List Nat))
    (hlen : caps.length = 0 ∨ caps.length = enums.length) :
    (capFold caps enums draws).isSome ↔
      ((0 < caps.length ∧ caps.sum < (enums.map List.length).sum) →
        ∀ (k : Nat) (hk : k < enums.length), caps.getD k 0 ≤ enums[k].length) := by
  unfold capFold
  split
  · rename_i hc
    simp only [Bool.and_eq_true, decide_eq_true_eq] at hc
    rw [mapM_isSome_iff]
    constructor
    · intro h _ k hk
      have := h (enums[k], k) (List.mem_zipIdx_iff_getElem?.mpr (by simp [hk]))
      unfold capEntry at this
      simp only [] at this
      have hkc : k < caps.length := by omega
      rw [if_pos hkc] at this
      unfold capFile at this
      rw [if_pos (Nat.lt_of_le_of_lt (getD_le_sum caps k) hc.2)] at this
      exact (choice_isSome _ _ _).mp this
    · intro h p hp
      obtain ⟨a, k⟩ := p
      have hak := List.mem_zipIdx_iff_getElem?.mp hp
      have hk : k < enums.length := by
        by_contra hcon
        rw [List.getElem?_eq_none (by omega)] at hak
        simp at hak
      rw [List.getElem?_eq_getElem hk] at hak
      have hak' := Option.some.inj hak
      unfold capEntry
      simp only []
      have hkc : k < caps.length := by omega
      rw [if_pos hkc]
      unfold capFile
      rw [if_pos (Nat.lt_of_le_of_lt (getD_le_sum caps k) hc.2)]
      rw [choice_isSome]
      have hak'' : enums[k] = a := hak'
      rw [← hak'']
      exact h hc k hk
  · rename_i hc
    simp only [Bool.and_eq_true, decide_eq_true_eq] at hc
    simp only [Option.isSome_some, true_iff]
    intro hcc
    exact absurd hcc hc

/-- `make_train_sets` returns (no `ValueError` from `rng.choice`) exactly when, in every fold to
which the cap applies, every file has at least its share of training indices -/
theorem makeTrainSets_isSome (testIdx : List (List (List Nat))) (cap : Option Nat) (dataSize : List Nat)
    (enum : Nat → Nat → List Nat → List Nat) (draw : Nat → Nat → Nat → List Nat)
    (henum : ∀ f k l, (enum f k l).Perm l) (hK : 0 < dataSize.length) :
    (makeTrainSets testIdx cap dataSize enum draw).isSome ↔
      ∀ f, f < zipLen testIdx → capApplies cap (trainTotal testIdx dataSize f) = true →
        ∀ k, k < dataSize.length → (capsOf cap dataSize.length).getD k 0 ≤
          (complement (dataSize.getD k 0) (heldOut testIdx k f)).length := by
  unfold makeTrainSets
  rw [mapM_isSome_iff]
  have hcl : ∀ f, (capsOf cap dataSize.length).length = 0 ∨
      (capsOf cap dataSize.length).length = (foldEnums testIdx dataSize enum f).length := by
    intro f
    rw [capsOf_length, foldEnums_length]
    cases cap <;> simp
  constructor
  · intro h f hf hc k hk
    have := (capFold_isSome _ _ _ (hcl f)).mp (h f (List.mem_range.mpr hf))
    rw [foldEnums_total testIdx dataSize enum henum f, cap_branch_iff cap dataSize.length _ hK] at this
    have := this hc k (by rw [foldEnums_length]; exact hk)
    rw [foldEnums_getElem testIdx dataSize enum f k hk, (henum f k _).length_eq] at this
    exact this
  · intro h f hf
    rw [capFold_isSome _ _ _ (hcl f), foldEnums_total testIdx dataSize enum henum f,
      cap_branch_iff cap dataSize.length _ hK]
    intro hc k hk
    rw [foldEnums_length] at hk
    rw [foldEnums_getElem testIdx dataSize enum f k hk, (henum f k _).length_eq]
    exact h f (List.mem_range.mp hf) hc k hk

end Mk.Brew
