import MokapotVerif.Model.FsRunExt
import MokapotVerif.Lemmas.FsRunProg
/-!
# Helper lemmas for the extension of C09: names of a collection, the phases with a prefix, the
protein level, one collection (`collOps`): names written, well-initialised, made known,
removed, created.
-/
namespace Mk.FsRun

/-! ## names -/

@[simp] theorem chunkOf_inj (p : Option Nat) (i j : Nat) : chunkOf p i = chunkOf p j ↔ i = j := by
  cases p <;> simp [chunkOf]

@[simp] theorem targetOf_inj (p : Option Nat) (i j : Nat) : targetOf p i = targetOf p j ↔ i = j := by
  cases p <;> simp [targetOf]

@[simp] theorem decoyOf_inj (p : Option Nat) (i j : Nat) : decoyOf p i = decoyOf p j ↔ i = j := by
  cases p <;> simp [decoyOf]

@[simp] theorem chunkOf_ne_level (p : Option Nat) (i l : Nat) : chunkOf p i ≠ .level l := by
  cases p <;> simp [chunkOf]

@[simp] theorem level_ne_chunkOf (p : Option Nat) (i l : Nat) : Name.level l ≠ chunkOf p i := by
  cases p <;> simp [chunkOf]

@[simp] theorem targetOf_ne_level (p : Option Nat) (i l : Nat) : targetOf p i ≠ .level l := by
  cases p <;> simp [targetOf]

@[simp] theorem level_ne_targetOf (p : Option Nat) (i l : Nat) : Name.level l ≠ targetOf p i := by
  cases p <;> simp [targetOf]

@[simp] theorem decoyOf_ne_level (p : Option Nat) (i l : Nat) : decoyOf p i ≠ .level l := by
  cases p <;> simp [decoyOf]

@[simp] theorem level_ne_decoyOf (p : Option Nat) (i l : Nat) : Name.level l ≠ decoyOf p i := by
  cases p <;> simp [decoyOf]

@[simp] theorem chunkOf_ne_targetOf (p q : Option Nat) (i l : Nat) : chunkOf p i ≠ targetOf q l := by
  cases p <;> cases q <;> simp [chunkOf, targetOf]

@[simp] theorem targetOf_ne_chunkOf (p q : Option Nat) (i l : Nat) : targetOf q l ≠ chunkOf p i := by
  cases p <;> cases q <;> simp [chunkOf, targetOf]

@[simp] theorem chunkOf_ne_decoyOf (p q : Option Nat) (i l : Nat) : chunkOf p i ≠ decoyOf q l := by
  cases p <;> cases q <;> simp [chunkOf, decoyOf]

@[simp] theorem decoyOf_ne_chunkOf (p q : Option Nat) (i l : Nat) : decoyOf q l ≠ chunkOf p i := by
  cases p <;> cases q <;> simp [chunkOf, decoyOf]

@[simp] theorem targetOf_ne_decoyOf (p q : Option Nat) (i l : Nat) : targetOf p i ≠ decoyOf q l := by
  cases p <;> cases q <;> simp [targetOf, decoyOf]

@[simp] theorem decoyOf_ne_targetOf (p q : Option Nat) (i l : Nat) : decoyOf q l ≠ targetOf p i := by
  cases p <;> cases q <;> simp [targetOf, decoyOf]

theorem nlp_false (nl : Nat) : nlp false nl = nl := rfl
theorem nlp_true (nl : Nat) : nlp true nl = nl + 1 := rfl

theorem le_nlp (prot : Bool) (nl : Nat) : nl ≤ nlp prot nl := by
  cases prot <;> simp [nlp]

theorem lt_nlp_cases {prot : Bool} {nl l : Nat} (h : l < nlp prot nl) :
    l < nl ∨ (prot = true ∧ l = nl) := by
  cases prot
  · exact Or.inl h
  · simp only [nlp, if_true] at h
    by_cases h' : l < nl
    · exact Or.inl h'
    · exact Or.inr ⟨rfl, by omega⟩

/-! ## "made known by the program", whatever was known before -/

theorem made_known {K : List Name} {p : List Op} {n : Name} (h : n ∈ knownAfter [] p) :
    n ∈ knownAfter K p :=
  knownAfter_mono (k₁ := []) (fun _ hh => absurd hh (by simp)) p n h

theorem known_append_left {K : List Name} {p q : List Op} {n : Name} (h : n ∈ knownAfter K p) :
    n ∈ knownAfter K (p ++ q) := by
  rw [knownAfter_append]; exact mem_knownAfter_of_mem q n h

theorem known_append_right {K : List Name} {p q : List Op} {n : Name} (h : n ∈ knownAfter [] q) :
    n ∈ knownAfter K (p ++ q) := by
  rw [knownAfter_append]; exact made_known h

theorem made_of_op {p : List Op} {op : Op} {n : Name} (hop : op ∈ p) (hn : n ∈ knownStep [] op) :
    n ∈ knownAfter [] p :=
  mem_knownAfter_of_op hop hn

/-- a name known at the end was known at the start or is written by the program -/
theorem known_imp_writes (n : Name) (K : List Name) (q : List Op) (h : n ∈ knownAfter K q) :
    n ∈ K ∨ n ∈ writes q := by
  induction q generalizing K with
  | nil => exact Or.inl h
  | cons op rest ih =>
    rcases ih _ h with h' | h'
    · cases op <;> simp only [knownStep, List.mem_cons] at h'
      · rcases h' with h' | h'
        · exact Or.inr (by simp [writes, writesOp, h'])
        · exact Or.inl h'
      · exact Or.inl h'
      · exact Or.inl h'
      · rcases h' with h' | h'
        · exact Or.inr (by simp [writes, writesOp, h'])
        · exact Or.inl h'
      · rcases h' with h' | h' | h'
        · exact Or.inr (by simp [writes, writesOp, h'])
        · exact Or.inr (by simp [writes, writesOp, h'])
        · exact Or.inl h'
      · exact Or.inl h'
    · exact Or.inr (by
        simp only [writes, List.flatMap_cons, List.mem_append]
        exact Or.inr h')

/-- the first operation that is not allowed makes the whole check fail -/
theorem wellInit_false_of_split (known : List Name) (p : List Op) (op : Op) (q : List Op)
    (h : okStep (knownAfter known p) op = false) : wellInit known (p ++ op :: q) = false := by
  rw [wellInit_append]
  simp [wellInit, h]

/-! ## the phases with a prefix: the same phases when there is none -/

theorem xphase1_none (n : Nat) (decoys : Bool) (hdr : Nat → Outs → List Nat) :
    xphase1 none n decoys hdr = phase1 n decoys hdr := rfl

theorem xphase2_none (k : Nat) (data : Nat → Outs → List Nat) :
    xphase2 none k data = phase2 k data := rfl

theorem xphase3_none (k : Nat) : xphase3 none k = phase3 k := rfl

theorem xphase5_none (k : Nat) : xphase5 none k = phase5 k := rfl

theorem xphase6_none (n : Nat) (decoys : Bool) (res resd : Nat → Outs → List Nat) :
    xphase6 none n decoys res resd = phase6 n decoys res resd := rfl

/-- one collection without prefix, result writers initialised, no protein level: the base model -/
theorem collOps_base (k nl : Nat) (decoys : Bool)
    (hdr data lvhdr lvdata res resd : Nat → Outs → List Nat) (pdata : Outs → List Nat) :
    collOps false nl decoys true ⟨none, k, hdr, data, lvhdr, lvdata, res, resd, pdata⟩
      = confidenceProg k nl decoys hdr data lvhdr lvdata res resd := by
  simp [collOps, confidenceProg, protOps, nlp, xphase1_none, xphase2_none, xphase3_none,
    xphase5_none, xphase6_none]

section phases
variable (p : Option Nat) (k n nl : Nat) (decoys : Bool)
  (hdr data lvhdr lvdata res resd : Nat → Outs → List Nat) (pdata : Outs → List Nat)

/-! ## membership -/

theorem mem_xphase1_target {l : Nat} (hl : l < n) :
    Op.trunc (targetOf p l) (hdr l) ∈ xphase1 p n decoys hdr := by
  simp only [xphase1, List.mem_flatMap, List.mem_range]
  exact ⟨l, hl, by simp [xinitLevelOps]⟩

theorem mem_xphase1_decoy {l : Nat} (hl : l < n) (hd : decoys = true) :
    Op.trunc (decoyOf p l) (hdr l) ∈ xphase1 p n decoys hdr := by
  simp only [xphase1, List.mem_flatMap, List.mem_range]
  exact ⟨l, hl, by simp [xinitLevelOps, hd]⟩

theorem mem_xphase2 {i : Nat} (hi : i < k) :
    Op.trunc (chunkOf p i) (data i) ∈ xphase2 p k data := by
  simp only [xphase2, List.mem_map, List.mem_range]
  exact ⟨i, hi, rfl⟩

theorem mem_xphase5 {i : Nat} (hi : i < k) : Op.unlink (chunkOf p i) ∈ xphase5 p k := by
  simp only [xphase5, List.mem_map, List.mem_range]
  exact ⟨i, hi, rfl⟩

theorem mem_xphase6_unlink {l : Nat} (hl : l < n) :
    Op.unlink (.level l) ∈ xphase6 p n decoys res resd := by
  simp only [xphase6, List.mem_flatMap, List.mem_range]
  exact ⟨l, hl, by simp [xfinishLevelOps]⟩

theorem mem_xphase6_target {l : Nat} (hl : l < n) :
    Op.append (targetOf p l) (res l) ∈ xphase6 p n decoys res resd := by
  simp only [xphase6, List.mem_flatMap, List.mem_range]
  exact ⟨l, hl, by simp [xfinishLevelOps]⟩

theorem mem_xphase6_decoy {l : Nat} (hl : l < n) (hd : decoys = true) :
    Op.append (decoyOf p l) (resd l) ∈ xphase6 p n decoys res resd := by
  simp only [xphase6, List.mem_flatMap, List.mem_range]
  exact ⟨l, hl, by simp [xfinishLevelOps, hd]⟩

/-- the operations of the last phase for one level -/
theorem mem_xfinishLevelOps {op : Op} {l : Nat} (h : op ∈ xfinishLevelOps p decoys res resd l) :
    op = .read (.level l) ∨ op = .append (targetOf p l) (res l) ∨
      (decoys = true ∧ op = .append (decoyOf p l) (resd l)) ∨ op = .unlink (.level l) := by
  cases decoys <;> simp only [xfinishLevelOps, List.mem_cons, List.mem_append, List.not_mem_nil,
    or_false, false_or, if_true, if_false, Bool.false_eq_true] at h
  · rcases h with h | h | h
    · exact Or.inl h
    · exact Or.inr (Or.inl h)
    · exact Or.inr (Or.inr (Or.inr h))
  · rcases h with h | h | h | h
    · exact Or.inl h
    · exact Or.inr (Or.inl h)
    · exact Or.inr (Or.inr (Or.inl ⟨rfl, h⟩))
    · exact Or.inr (Or.inr (Or.inr h))

theorem mem_xinitLevelOps {op : Op} {l : Nat} (h : op ∈ xinitLevelOps p decoys hdr l) :
    op = .trunc (targetOf p l) (hdr l) ∨ (decoys = true ∧ op = .trunc (decoyOf p l) (hdr l)) := by
  cases decoys <;> simp only [xinitLevelOps, List.mem_cons, List.not_mem_nil, or_false,
    if_true, if_false, Bool.false_eq_true] at h
  · exact Or.inl h
  · rcases h with h | h
    · exact Or.inl h
    · exact Or.inr ⟨rfl, h⟩

/-! ## names written -/

theorem writes_xphase1 {m : Name} (h : m ∈ writes (xphase1 p n decoys hdr)) :
    ∃ l, l < n ∧ (m = targetOf p l ∨ (decoys = true ∧ m = decoyOf p l)) := by
  rw [mem_writes_iff] at h
  obtain ⟨op, hop, hn⟩ := h
  simp only [xphase1, List.mem_flatMap, List.mem_range] at hop
  obtain ⟨l, hl, hop⟩ := hop
  refine ⟨l, hl, ?_⟩
  rcases mem_xinitLevelOps p decoys hdr hop with rfl | ⟨hd, rfl⟩ <;>
    simp only [writesOp, List.mem_singleton] at hn
  · exact Or.inl hn
  · exact Or.inr ⟨hd, hn⟩

theorem writes_xphase2 {m : Name} (h : m ∈ writes (xphase2 p k data)) :
    ∃ i, i < k ∧ m = chunkOf p i := by
  rw [mem_writes_iff] at h
  obtain ⟨op, hop, hn⟩ := h
  simp only [xphase2, List.mem_map, List.mem_range] at hop
  obtain ⟨i, hi, rfl⟩ := hop
  simp only [writesOp, List.mem_singleton] at hn
  exact ⟨i, hi, hn⟩

theorem writes_xphase3 : writes (xphase3 p k) = [] := by
  simp [writes, xphase3, writesOp]

theorem writes_xphase5 {m : Name} (h : m ∈ writes (xphase5 p k)) :
    ∃ i, i < k ∧ m = chunkOf p i := by
  rw [mem_writes_iff] at h
  obtain ⟨op, hop, hn⟩ := h
  simp only [xphase5, List.mem_map, List.mem_range] at hop
  obtain ⟨i, hi, rfl⟩ := hop
  simp only [writesOp, List.mem_singleton] at hn
  exact ⟨i, hi, hn⟩

theorem writes_protOps {prot : Bool} {m : Name} (h : m ∈ writes (protOps prot nl pdata)) :
    prot = true ∧ m = .level nl := by
  cases prot
  · simp [protOps, writes] at h
  · simp only [protOps, protLevelOps, if_true, writes, List.flatMap_cons, List.flatMap_nil,
      writesOp, List.nil_append, List.append_nil, List.mem_singleton] at h
    exact ⟨rfl, h⟩

theorem writes_xphase6 {m : Name} (h : m ∈ writes (xphase6 p n decoys res resd)) :
    ∃ l, l < n ∧ (m = targetOf p l ∨ (decoys = true ∧ m = decoyOf p l) ∨ m = .level l) := by
  rw [mem_writes_iff] at h
  obtain ⟨op, hop, hn⟩ := h
  simp only [xphase6, List.mem_flatMap, List.mem_range] at hop
  obtain ⟨l, hl, hop⟩ := hop
  refine ⟨l, hl, ?_⟩
  rcases mem_xfinishLevelOps p decoys res resd hop with rfl | rfl | ⟨hd, rfl⟩ | rfl <;>
    simp only [writesOp, List.mem_singleton, List.not_mem_nil] at hn
  · exact Or.inl hn
  · exact Or.inr (Or.inl ⟨hd, hn⟩)
  · exact Or.inr (Or.inr hn)

/-! ## well-initialised -/

theorem wellInit_xphase1 (known : List Name) : wellInit known (xphase1 p n decoys hdr) = true := by
  apply wellInit_flatMap
  intro l _
  cases decoys <;> simp [xinitLevelOps, wellInit, okStep]

theorem wellInit_xphase2 (known : List Name) : wellInit known (xphase2 p k data) = true := by
  apply wellInit_of_forall
  intro op hop
  simp only [xphase2, List.mem_map] at hop
  obtain ⟨i, _, rfl⟩ := hop
  rfl

theorem wellInit_xphase3 (known : List Name) (h : ∀ i, i < k → chunkOf p i ∈ known) :
    wellInit known (xphase3 p k) = true := by
  apply wellInit_of_forall
  intro op hop
  simp only [xphase3, List.mem_map, List.mem_range] at hop
  obtain ⟨i, hi, rfl⟩ := hop
  simp only [okStep, decide_eq_true_eq]
  exact h i hi

theorem wellInit_xphase5 (known : List Name) : wellInit known (xphase5 p k) = true := by
  apply wellInit_of_forall
  intro op hop
  simp only [xphase5, List.mem_map] at hop
  obtain ⟨i, _, rfl⟩ := hop
  rfl

theorem wellInit_protOps (prot : Bool) (known : List Name)
    (h : prot = true → Name.level 1 ∈ known) : wellInit known (protOps prot nl pdata) = true := by
  cases prot
  · rfl
  · simp [protOps, protLevelOps, wellInit, okStep, h rfl]

theorem wellInit_xphase6 (known : List Name)
    (h : ∀ l, l < n → Name.level l ∈ known ∧ targetOf p l ∈ known ∧
      (decoys = true → decoyOf p l ∈ known)) :
    wellInit known (xphase6 p n decoys res resd) = true := by
  apply wellInit_flatMap
  intro l hl
  obtain ⟨h1, h2, h3⟩ := h l (List.mem_range.mp hl)
  cases decoys
  · simp [xfinishLevelOps, wellInit, okStep, knownStep, h1, h2]
  · simp [xfinishLevelOps, wellInit, okStep, knownStep, h1, h2, h3 rfl]

end phases

/-! ## one collection -/

section coll
variable (prot : Bool) (nl : Nat) (decoys : Bool) (init : Bool) (c : Coll)

/-- every name a collection writes is one of its chunk files, a level file or one of its
result files -/
theorem writes_collOps {m : Name} (h : m ∈ writes (collOps prot nl decoys init c)) :
    (∃ i, i < c.k ∧ m = chunkOf c.pfx i) ∨
      ∃ l, l < nlp prot nl ∧
        (m = targetOf c.pfx l ∨ (decoys = true ∧ m = decoyOf c.pfx l) ∨ m = .level l) := by
  simp only [collOps, writes_append, List.mem_append, writes_xphase3, List.not_mem_nil,
    false_or] at h
  rcases h with h | h | h | h | h | h
  · cases init
    · simp [writes] at h
    · simp only [if_true] at h
      obtain ⟨l, hl, h⟩ := writes_xphase1 _ _ _ _ h
      refine Or.inr ⟨l, hl, ?_⟩
      rcases h with h | h
      · exact Or.inl h
      · exact Or.inr (Or.inl h)
  · exact Or.inl (writes_xphase2 _ _ _ h)
  · obtain ⟨l, hl, h⟩ := writes_phase4 nl c.lvhdr c.lvdata h
    exact Or.inr ⟨l, Nat.lt_of_lt_of_le hl (le_nlp prot nl), Or.inr (Or.inr h)⟩
  · exact Or.inl (writes_xphase5 _ _ h)
  · obtain ⟨hpt, hm⟩ := writes_protOps nl c.pdata h
    exact Or.inr ⟨nl, by simp [nlp, hpt], Or.inr (Or.inr hm)⟩
  · exact Or.inr (writes_xphase6 _ _ _ _ _ h)

/-- a collection passes the check when (a) its result files are already known in case it does
not initialise them and (b) the protein level finds a peptide level written by this run -/
theorem wellInit_collOps (known : List Name)
    (hinit : init = false → ∀ l, l < nlp prot nl →
      targetOf c.pfx l ∈ known ∧ (decoys = true → decoyOf c.pfx l ∈ known))
    (hp : prot = true → 2 ≤ nl) :
    wellInit known (collOps prot nl decoys init c) = true := by
  unfold collOps
  rw [wellInit_append, wellInit_append, wellInit_append, wellInit_append, wellInit_append,
    wellInit_append]
  simp only [Bool.and_eq_true]
  refine ⟨?_, wellInit_xphase2 _ _ _ _, ?_, wellInit_phase4 nl c.lvhdr c.lvdata _,
    wellInit_xphase5 _ _ _, ?_, ?_⟩
  · cases init
    · rfl
    · exact wellInit_xphase1 _ _ _ _ _
  · apply wellInit_xphase3
    intro i hi
    exact mem_knownAfter_of_op (mem_xphase2 _ _ _ hi) (by simp [knownStep])
  · apply wellInit_protOps
    intro hpt
    apply mem_knownAfter_of_mem
    exact mem_knownAfter_of_op (mem_phase4 nl c.lvhdr c.lvdata (l := 1) (by have := hp hpt; omega))
      (by simp [knownStep])
  · apply wellInit_xphase6
    intro l hl
    refine ⟨?_, ?_, ?_⟩
    · rcases lt_nlp_cases hl with hl' | ⟨hpt, rfl⟩
      · apply mem_knownAfter_of_mem
        apply mem_knownAfter_of_mem
        exact mem_knownAfter_of_op (mem_phase4 nl c.lvhdr c.lvdata hl') (by simp [knownStep])
      · subst hpt
        exact mem_knownAfter_of_op (p := protOps true l c.pdata)
          (op := Op.trunc (.level l) c.pdata) (by simp [protOps, protLevelOps])
          (by simp [knownStep])
    · iterate 5 apply mem_knownAfter_of_mem
      cases init
      · simp only [Bool.false_eq_true, if_false, knownAfter]
        exact (hinit rfl l hl).1
      · simp only [if_true]
        exact mem_knownAfter_of_op (mem_xphase1_target _ _ _ _ hl) (by simp [knownStep])
    · intro hd
      iterate 5 apply mem_knownAfter_of_mem
      cases init
      · simp only [Bool.false_eq_true, if_false, knownAfter]
        exact (hinit rfl l hl).2 hd
      · simp only [if_true]
        exact mem_knownAfter_of_op (mem_xphase1_decoy _ _ _ _ hl hd) (by simp [knownStep])

/-- without a peptide level written by this run (`nl ≤ 1`: `do_rollup=False`) the protein level
reads a level file this run has not written: the check fails -/
theorem wellInit_collOps_prot_noRollup (known : List Name) (h1 : nl ≤ 1)
    (hk : Name.level 1 ∉ known) (hi : init = true) :
    wellInit known (collOps true nl decoys init c) = false := by
  subst hi
  unfold collOps
  rw [wellInit_append, wellInit_append, wellInit_append, wellInit_append, wellInit_append,
    wellInit_append]
  have hnot : Name.level 1 ∉ knownAfter (knownAfter (knownAfter (knownAfter (knownAfter known
      (xphase1 c.pfx (nlp true nl) decoys c.hdr)) (xphase2 c.pfx c.k c.data)) (xphase3 c.pfx c.k))
      (phase4 nl c.lvhdr c.lvdata)) (xphase5 c.pfx c.k) := by
    intro hmem
    have key := known_imp_writes (Name.level 1)
    rcases key _ _ hmem with h | h
    · rcases key _ _ h with h | h
      · rcases key _ _ h with h | h
        · rcases key _ _ h with h | h
          · rcases key _ _ h with h | h
            · exact hk h
            · obtain ⟨l, _, h | ⟨_, h⟩⟩ := writes_xphase1 _ _ _ _ h
              · exact level_ne_targetOf _ _ _ h
              · exact level_ne_decoyOf _ _ _ h
          · obtain ⟨i, _, h⟩ := writes_xphase2 _ _ _ h
            exact level_ne_chunkOf _ _ _ h
        · simp [writes_xphase3] at h
      · obtain ⟨l, hl, h⟩ := writes_phase4 nl c.lvhdr c.lvdata h
        cases h; omega
    · obtain ⟨i, _, h⟩ := writes_xphase5 _ _ h
      exact level_ne_chunkOf _ _ _ h
  simp [protOps, protLevelOps, wellInit, okStep, hnot]

/-- result files are known after a collection (initialised by it, or known before) -/
theorem target_known_collOps (known : List Name) {l : Nat} (hl : l < nlp prot nl)
    (h : init = true ∨ targetOf c.pfx l ∈ known) :
    targetOf c.pfx l ∈ knownAfter known (collOps prot nl decoys init c) := by
  rcases h with h | h
  · subst h
    unfold collOps
    apply known_append_left
    simp only [if_true]
    exact mem_knownAfter_of_op (mem_xphase1_target _ _ _ _ hl) (by simp [knownStep])
  · exact mem_knownAfter_of_mem _ _ h

theorem decoy_known_collOps (known : List Name) {l : Nat} (hl : l < nlp prot nl)
    (hd : decoys = true) (h : init = true ∨ decoyOf c.pfx l ∈ known) :
    decoyOf c.pfx l ∈ knownAfter known (collOps prot nl decoys init c) := by
  rcases h with h | h
  · subst h
    unfold collOps
    apply known_append_left
    simp only [if_true]
    exact mem_knownAfter_of_op (mem_xphase1_decoy _ _ _ _ hl hd) (by simp [knownStep])
  · exact mem_knownAfter_of_mem _ _ h

/-! ### the intermediates are removed last -/

theorem absent_collOps_chunk (b : Bool) {i : Nat} (hi : i < c.k) :
    absentAfter (chunkOf c.pfx i) b (collOps prot nl decoys init c) = true := by
  unfold collOps
  rw [absentAfter_append, absentAfter_append, absentAfter_append, absentAfter_append,
    absentAfter_append, absentAfter_append]
  rw [absentAfter_of_not_writes _ _ (xphase6 c.pfx (nlp prot nl) decoys c.res c.resd),
    absentAfter_of_not_writes _ _ (protOps prot nl c.pdata)]
  · apply absentAfter_of_unlink _ _ _ (mem_xphase5 _ _ hi)
    intro op hop
    simp only [xphase5, List.mem_map] at hop
    obtain ⟨j, _, rfl⟩ := hop
    simp [absentStep]
  · intro h
    exact chunkOf_ne_level _ _ _ (writes_protOps nl c.pdata h).2
  · intro h
    obtain ⟨l, _, h | ⟨_, h⟩ | h⟩ := writes_xphase6 _ _ _ _ _ h
    · exact chunkOf_ne_targetOf _ _ _ _ h
    · exact chunkOf_ne_decoyOf _ _ _ _ h
    · exact chunkOf_ne_level _ _ _ h

theorem absent_collOps_level (b : Bool) {l : Nat} (hl : l < nlp prot nl) :
    absentAfter (.level l) b (collOps prot nl decoys init c) = true := by
  unfold collOps
  rw [absentAfter_append, absentAfter_append, absentAfter_append, absentAfter_append,
    absentAfter_append, absentAfter_append]
  apply absentAfter_of_unlink _ _ _ (mem_xphase6_unlink _ _ _ _ _ hl)
  intro op hop
  simp only [xphase6, List.mem_flatMap] at hop
  obtain ⟨l', _, hop⟩ := hop
  rcases mem_xfinishLevelOps _ _ _ _ hop with rfl | rfl | ⟨_, rfl⟩ | rfl <;>
    simp [absentStep]

/-- once absent, a name that is a chunk name (of any collection) or a level name of the run is
absent after any further collection: either that collection does not touch it, or the name is
one of its own intermediates -/
theorem absent_collOps_keep_chunk (q : Option Nat) (i : Nat) :
    absentAfter (chunkOf q i) true (collOps prot nl decoys init c) = true := by
  by_cases hw : chunkOf q i ∈ writes (collOps prot nl decoys init c)
  · rcases writes_collOps prot nl decoys init c hw with ⟨j, hj, h⟩ | ⟨l, _, h | ⟨_, h⟩ | h⟩
    · rw [h]; exact absent_collOps_chunk prot nl decoys init c true hj
    · exact absurd h (chunkOf_ne_targetOf _ _ _ _)
    · exact absurd h (chunkOf_ne_decoyOf _ _ _ _)
    · exact absurd h (chunkOf_ne_level _ _ _)
  · exact absentAfter_of_not_writes _ _ _ hw

/-! ### the result files are created and never removed -/

/-- the only files a collection unlinks are chunk and level files; it moves nothing -/
theorem ops_collOps {op : Op} (h : op ∈ collOps prot nl decoys init c) :
    (∃ n f, op = .trunc n f) ∨ (∃ n f, op = .append n f) ∨ (∃ n, op = .read n) ∨
      (∃ i, op = .unlink (chunkOf c.pfx i)) ∨ (∃ l, op = .unlink (.level l)) := by
  simp only [collOps, List.mem_append] at h
  rcases h with h | h | h | h | h | h | h
  · cases init
    · simp at h
    · simp only [if_true, xphase1, List.mem_flatMap] at h
      obtain ⟨l, _, h⟩ := h
      rcases mem_xinitLevelOps _ _ _ h with h | ⟨_, h⟩ <;> exact Or.inl ⟨_, _, h⟩
  · simp only [xphase2, List.mem_map] at h
    obtain ⟨i, _, rfl⟩ := h
    exact Or.inl ⟨_, _, rfl⟩
  · simp only [xphase3, List.mem_map] at h
    obtain ⟨i, _, rfl⟩ := h
    exact Or.inr (Or.inr (Or.inl ⟨_, rfl⟩))
  · simp only [phase4, List.mem_flatMap, levelOps, List.mem_cons, List.not_mem_nil,
      or_false] at h
    obtain ⟨l, _, h | h⟩ := h
    · exact Or.inl ⟨_, _, h⟩
    · exact Or.inr (Or.inl ⟨_, _, h⟩)
  · simp only [xphase5, List.mem_map] at h
    obtain ⟨i, _, rfl⟩ := h
    exact Or.inr (Or.inr (Or.inr (Or.inl ⟨_, rfl⟩)))
  · cases prot
    · simp [protOps] at h
    · simp only [protOps, protLevelOps, if_true, List.mem_cons, List.not_mem_nil, or_false] at h
      rcases h with h | h
      · exact Or.inr (Or.inr (Or.inl ⟨_, h⟩))
      · exact Or.inl ⟨_, _, h⟩
  · simp only [xphase6, List.mem_flatMap] at h
    obtain ⟨l, _, h⟩ := h
    rcases mem_xfinishLevelOps _ _ _ _ h with rfl | rfl | ⟨_, rfl⟩ | rfl
    · exact Or.inr (Or.inr (Or.inl ⟨_, rfl⟩))
    · exact Or.inr (Or.inl ⟨_, _, rfl⟩)
    · exact Or.inr (Or.inl ⟨_, _, rfl⟩)
    · exact Or.inr (Or.inr (Or.inr (Or.inr ⟨_, rfl⟩)))

/-- a name that is neither a chunk nor a level name stays present through a collection -/
theorem present_collOps_keep (n : Name) (hn : (∀ q i, n ≠ chunkOf q i) ∧ (∀ l, n ≠ .level l)) :
    ∀ op ∈ collOps prot nl decoys init c, presentStep n true op = true := by
  intro op hop
  rcases ops_collOps prot nl decoys init c hop with
    ⟨m, g, rfl⟩ | ⟨m, g, rfl⟩ | ⟨m, rfl⟩ | ⟨i, rfl⟩ | ⟨l, rfl⟩
  · simp [presentStep]
  · simp [presentStep]
  · rfl
  · simp [presentStep, Ne.symm (hn.1 c.pfx i)]
  · simp [presentStep, Ne.symm (hn.2 l)]

/-- a program that appends to `n` and never removes it leaves `n` present -/
theorem presentAfter_of_append (n : Name) (f : Outs → List Nat) (b : Bool) (p : List Op)
    (hu : Op.append n f ∈ p) (h : ∀ op ∈ p, presentStep n true op = true) :
    presentAfter n b p = true := by
  induction p generalizing b with
  | nil => simp at hu
  | cons op rest ih =>
    simp only [presentAfter]
    rcases List.mem_cons.mp hu with hop | hu
    · subst hop
      simp only [presentStep, if_true]
      exact presentAfter_true n rest (fun o ho => h o (List.mem_cons_of_mem _ ho))
    · exact ih _ hu (fun o ho => h o (List.mem_cons_of_mem _ ho))

theorem presentAfter_append (n : Name) (b : Bool) (p q : List Op) :
    presentAfter n b (p ++ q) = presentAfter n (presentAfter n b p) q := by
  induction p generalizing b with
  | nil => rfl
  | cons op rest ih => simp only [List.cons_append, presentAfter, ih]

theorem mem_collOps_target {l : Nat} (hl : l < nlp prot nl) :
    Op.append (targetOf c.pfx l) (c.res l) ∈ collOps prot nl decoys init c := by
  unfold collOps
  iterate 6 apply List.mem_append_right
  exact mem_xphase6_target _ _ _ _ _ hl

theorem mem_collOps_decoy {l : Nat} (hl : l < nlp prot nl) (hd : decoys = true) :
    Op.append (decoyOf c.pfx l) (c.resd l) ∈ collOps prot nl decoys init c := by
  unfold collOps
  iterate 6 apply List.mem_append_right
  exact mem_xphase6_decoy _ _ _ _ _ hl hd

theorem present_collOps_target (b : Bool) {l : Nat} (hl : l < nlp prot nl) :
    presentAfter (targetOf c.pfx l) b (collOps prot nl decoys init c) = true :=
  presentAfter_of_append _ _ b _ (mem_collOps_target prot nl decoys init c hl)
    (present_collOps_keep prot nl decoys init c _
      ⟨fun _ _ => targetOf_ne_chunkOf _ _ _ _, fun _ => targetOf_ne_level _ _ _⟩)

theorem present_collOps_decoy (b : Bool) {l : Nat} (hl : l < nlp prot nl) (hd : decoys = true) :
    presentAfter (decoyOf c.pfx l) b (collOps prot nl decoys init c) = true :=
  presentAfter_of_append _ _ b _ (mem_collOps_decoy prot nl decoys init c hl hd)
    (present_collOps_keep prot nl decoys init c _
      ⟨fun _ _ => decoyOf_ne_chunkOf _ _ _ _, fun _ => decoyOf_ne_level _ _ _⟩)

end coll

end Mk.FsRun
