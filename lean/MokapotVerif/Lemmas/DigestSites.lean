import MokapotVerif.Lemmas.Digest
/-!
The list of cleavage sites as a filtered range, and the translation between
*indices into the list of sites* (what `_cleave` iterates over) and *positions in
the sequence* (what the specification talks about).
-/
namespace Mk

/-! ## `matchEnds` enumerates the match ends in increasing order -/

theorem endsAt_cons_one (e : Enzyme) (c : Char) (rest : List Char) :
    endsAt e (c :: rest) 1 = isCut e c rest := by
  unfold endsAt isCut
  cases rest <;> simp

theorem endsAt_cons_succ (e : Enzyme) (c : Char) (rest : List Char) (j : Nat) :
    endsAt e (c :: rest) (j + 2) = endsAt e rest (j + 1) := by
  unfold endsAt
  simp

theorem matchEnds_eq_filter (e : Enzyme) (off : Nat) (seq : List Char) :
    matchEnds e off seq
      = ((List.range seq.length).filter (fun j => endsAt e seq (j + 1))).map (· + (off + 1)) := by
  induction seq generalizing off with
  | nil => simp [matchEnds]
  | cons c rest ih =>
    have hf : ((fun j => endsAt e (c :: rest) (j + 1)) ∘ Nat.succ) = (fun j => endsAt e rest (j + 1)) := by
      funext j; simp [Function.comp, endsAt_cons_succ]
    have hm : ((fun x => x + (off + 1)) ∘ Nat.succ) = (fun x => x + (off + 1 + 1)) := by
      funext j; simp [Function.comp]; omega
    simp only [matchEnds, List.length_cons, List.range_succ_eq_map, List.filter_cons, Nat.zero_add,
      endsAt_cons_one, List.filter_map, hf, ih (off + 1)]
    split <;> simp [List.map_map, hm]

/-- cleavage positions other than the C-terminal end: 0 and every match end -/
def innerSite (e : Enzyme) (seq : List Char) (p : Nat) : Bool := p == 0 || endsAt e seq p

theorem inner_eq_filter (e : Enzyme) (seq : List Char) :
    0 :: matchEnds e 0 seq = (List.range (seq.length + 1)).filter (innerSite e seq) := by
  have hf : (innerSite e seq ∘ Nat.succ) = (fun j => endsAt e seq (j + 1)) := by
    funext j; simp [Function.comp, innerSite]
  rw [matchEnds_eq_filter, List.range_succ_eq_map, List.filter_cons]
  simp [innerSite, List.filter_map, hf]

theorem cleavageSites_eq (e : Enzyme) (seq : List Char) :
    cleavageSites e seq = (List.range (seq.length + 1)).filter (innerSite e seq) ++ [seq.length] := by
  unfold cleavageSites
  rw [← inner_eq_filter]; rfl

/-! ## index in a filtered range = number of earlier hits -/

/-- number of positions `< x` satisfying `P` -/
def rank (P : Nat → Bool) (x : Nat) : Nat := (List.range x).countP P

theorem rank_succ (P : Nat → Bool) (x : Nat) : rank P (x + 1) = rank P x + (if P x then 1 else 0) := by
  unfold rank
  rw [List.range_succ, List.countP_append]
  simp [List.countP_cons]

theorem rank_mono (P : Nat → Bool) {x y : Nat} (h : x ≤ y) : rank P x ≤ rank P y := by
  induction h with
  | refl => exact Nat.le_refl _
  | step _ ih => rw [rank_succ]; omega

theorem length_filter_range (P : Nat → Bool) (m : Nat) : ((List.range m).filter P).length = rank P m := by
  unfold rank; rw [List.countP_eq_length_filter]

theorem getElem?_singleton_some (m k x : Nat) : [m][k]? = some x ↔ k = 0 ∧ m = x := by
  cases k <;> simp

theorem getElem?_filter_range (P : Nat → Bool) (m i x : Nat) :
    ((List.range m).filter P)[i]? = some x ↔ x < m ∧ P x = true ∧ rank P x = i := by
  induction m with
  | zero => simp
  | succ m ih =>
    rw [List.range_succ, List.filter_append]
    by_cases hi : i < ((List.range m).filter P).length
    · rw [List.getElem?_append_left hi, ih]
      rw [length_filter_range] at hi
      constructor
      · rintro ⟨h1, h2, h3⟩; exact ⟨by omega, h2, h3⟩
      · rintro ⟨h1, h2, h3⟩
        refine ⟨?_, h2, h3⟩
        by_cases hx : x = m
        · subst hx; omega
        · omega
    · have hi' : ((List.range m).filter P).length ≤ i := Nat.le_of_not_lt hi
      rw [List.getElem?_append_right hi']
      rw [length_filter_range] at hi' ⊢
      constructor
      · intro h
        by_cases hP : P m = true
        · simp only [List.filter_cons, hP, if_true, List.filter_nil] at h
          rw [getElem?_singleton_some] at h
          obtain ⟨h0, h⟩ := h
          subst h
          exact ⟨by omega, hP, by omega⟩
        · simp [hP] at h
      · rintro ⟨h1, h2, h3⟩
        have hxm : x = m := by
          apply Decidable.byContradiction
          intro hne
          have : x < m := by omega
          have := rank_mono P (show x + 1 ≤ m by omega)
          rw [rank_succ, h2] at this
          simp at this; omega
        subst hxm
        simp [h2, h3]

/-! ## sites: index ↔ position -/

theorem sites_getElem? (e : Enzyme) (seq : List Char) (j b : Nat) :
    (cleavageSites e seq)[j]? = some b ↔
      (b ≤ seq.length ∧ innerSite e seq b = true ∧ rank (innerSite e seq) b = j)
        ∨ (j = rank (innerSite e seq) (seq.length + 1) ∧ b = seq.length) := by
  rw [cleavageSites_eq]
  by_cases hj : j < ((List.range (seq.length + 1)).filter (innerSite e seq)).length
  · rw [List.getElem?_append_left hj, getElem?_filter_range]
    rw [length_filter_range] at hj
    constructor
    · rintro ⟨h1, h2, h3⟩; exact Or.inl ⟨by omega, h2, h3⟩
    · rintro (⟨h1, h2, h3⟩ | ⟨h1, h2⟩)
      · exact ⟨by omega, h2, h3⟩
      · omega
  · have hj' := Nat.le_of_not_lt hj
    rw [List.getElem?_append_right hj']
    rw [length_filter_range] at hj hj' ⊢
    constructor
    · intro h
      rw [getElem?_singleton_some] at h
      exact Or.inr ⟨by omega, h.2.symm⟩
    · rintro (⟨h1, h2, h3⟩ | ⟨h1, h2⟩)
      · exfalso
        have := rank_mono (innerSite e seq) (show b + 1 ≤ seq.length + 1 by omega)
        rw [rank_succ, h2] at this
        simp at this; omega
      · subst h1 h2; simp

theorem innerSite_zero (e : Enzyme) (seq : List Char) : innerSite e seq 0 = true := by
  simp [innerSite]

theorem isSite_eq_inner (e : Enzyme) (seq : List Char) (p : Nat) (h : p ≠ seq.length) :
    isSite e seq p = innerSite e seq p := by
  unfold isSite innerSite
  have : (p == seq.length) = false := by simpa using h
  rw [this]; simp

theorem rank_pos (e : Enzyme) (seq : List Char) {a : Nat} (h : 0 < a) : 0 < rank (innerSite e seq) a := by
  have := rank_mono (innerSite e seq) (show 0 + 1 ≤ a by omega)
  rw [rank_succ, innerSite_zero] at this
  simp at this; omega

/-- missed cleavages between two positions = difference of ranks − 1 -/
theorem missed_rank (e : Enzyme) (seq : List Char) (a b : Nat) (hab : a < b) (hb : b ≤ seq.length) :
    missed e seq a b + rank (innerSite e seq) (a + 1) = rank (innerSite e seq) b := by
  obtain ⟨c, rfl⟩ : ∃ c, b = a + 1 + c := ⟨b - (a + 1), by omega⟩
  clear hab
  induction c with
  | zero =>
    have : missed e seq a (a + 1) = 0 := by
      unfold missed
      rw [List.countP_eq_zero]
      intro p hp
      rw [List.mem_range] at hp
      simp; omega
    rw [Nat.add_zero]; omega
  | succ c ih =>
    have ih := ih (by omega)
    have hstep : missed e seq a (a + 1 + c + 1)
        = missed e seq a (a + 1 + c) + (if innerSite e seq (a + 1 + c) then 1 else 0) := by
      unfold missed
      rw [List.range_succ, List.countP_append]
      have hab' : a < a + 1 + c := by omega
      simp [List.countP_cons, hab', isSite_eq_inner e seq (a + 1 + c) (by omega)]
    rw [show a + 1 + (c + 1) = a + 1 + c + 1 by omega, hstep, rank_succ _ (a + 1 + c)]; omega

end Mk
