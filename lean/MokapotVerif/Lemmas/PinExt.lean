import MokapotVerif.Lemmas.PinArgs
/-! Helper lemmas for C10 (extension): several files, the row index of the
spectra data frame, numeric label columns.  Core Lean only. -/
namespace Mk.Pin

/-! ### several files -/

theorem readPinFrom_cons (args : PinArgs) (c r : Nat) (orders : Nat → List (List Name) → List (List Name))
    (i : Nat) (t : Table) (ts : List Table) :
    readPinFrom args c r orders i (t :: ts)
      = (readPercolatorSched args c r t (orders i)).bind fun d =>
          (readPinFrom args c r orders (i + 1) ts).bind fun ds => .ok (d :: ds) := rfl

/-- all files admissible: one specified dataset per file, in the order given -/
theorem readPinFrom_wf {args : PinArgs} {c r : Nat} (hc : 0 < c) (hr : 0 < r)
    (orders : Nat → List (List Name) → List (List Name)) (hord : ∀ i l, (orders i l).Perm l) :
    ∀ (ts : List Table) (i : Nat), (∀ t ∈ ts, WellFormedArgs args t) →
      readPinFrom args c r orders i ts = .ok (ts.map (specDatasetArgs args)) := by
  intro ts
  induction ts with
  | nil => intro i _; rfl
  | cons t rest ih =>
    intro i h
    rw [readPinFrom_cons, readPercolatorSched_wfArgs (h t List.mem_cons_self) hc hr _ (hord i),
      ih (i + 1) (fun t' ht' => h t' (List.mem_cons_of_mem _ ht'))]
    rfl

/-- the first file that fails ends the call with its error -/
theorem readPinFrom_first_error {args : PinArgs} {c r : Nat}
    (orders : Nat → List (List Name) → List (List Name)) :
    ∀ (pre : List Table) (i : Nat) (t : Table) (post : List Table) (e : PinErr),
      (∀ j (h : j < pre.length), ∃ d, readPercolatorSched args c r pre[j] (orders (i + j)) = .ok d) →
      readPercolatorSched args c r t (orders (i + pre.length)) = .error e →
      readPinFrom args c r orders i (pre ++ t :: post) = .error e := by
  intro pre
  induction pre with
  | nil =>
    intro i t post e _ he
    simp only [List.nil_append, List.length_nil, Nat.add_zero] at he ⊢
    rw [readPinFrom_cons, he]; rfl
  | cons p rest ih =>
    intro i t post e hok he
    obtain ⟨d, hd⟩ := hok 0 (by simp)
    simp only [List.getElem_cons_zero, Nat.add_zero] at hd
    rw [List.cons_append, readPinFrom_cons, hd]
    simp only [Except.bind]
    rw [ih (i + 1) t post e
      (fun j hj => by
        have := hok (j + 1) (by simp; omega)
        simpa [Nat.add_assoc, Nat.add_comm 1 j] using this)
      (by simpa [Nat.add_assoc, Nat.add_comm 1 rest.length] using he)]

/-- a successful call returns one dataset per file, the `j`-th being the parse of the `j`-th file -/
theorem readPinFrom_ok {args : PinArgs} {c r : Nat} (orders : Nat → List (List Name) → List (List Name)) :
    ∀ (ts : List Table) (i : Nat) (ds : List Dataset), readPinFrom args c r orders i ts = .ok ds →
      ds.length = ts.length ∧
      ∀ j (h : j < ts.length), ∃ d, ds[j]? = some d ∧
        readPercolatorSched args c r ts[j] (orders (i + j)) = .ok d := by
  intro ts
  induction ts with
  | nil =>
    intro i ds h
    simp only [readPinFrom, Except.ok.injEq] at h
    subst h
    exact ⟨rfl, fun j hj => absurd hj (by simp)⟩
  | cons t rest ih =>
    intro i ds h
    rw [readPinFrom_cons] at h
    obtain ⟨d, hd, h⟩ := bind_ok h
    obtain ⟨ds', hds', h⟩ := bind_ok h
    simp only [Except.ok.injEq] at h
    subst h
    obtain ⟨hl, hj⟩ := ih (i + 1) ds' hds'
    refine ⟨by simp [hl], ?_⟩
    intro j hjlt
    cases j with
    | zero => exact ⟨d, rfl, by simpa using hd⟩
    | succ j' =>
      obtain ⟨d', h1, h2⟩ := hj j' (by simpa using hjlt)
      refine ⟨d', by simpa using h1, ?_⟩
      simpa [Nat.add_assoc, Nat.add_comm 1 j'] using h2

/-! ### the row index -/

theorem flatMap_scanIndexFrames (ids : List Name) (n r m : Nat) (chunks : List (List Name)) :
    chunks.flatMap (scanIndexFrames ids n r m)
      = (List.replicate (chunks.countP (hasIds ids)) ((List.range m).map (chunkIndex n r))).flatten := by
  induction chunks with
  | nil => rfl
  | cons ch rest ih =>
    rw [List.flatMap_cons, ih, List.countP_cons]
    unfold scanIndexFrames
    by_cases h : hasIds ids ch = true
    · simp [h, List.replicate_succ]
    · simp [h]

/-- the row chunks number the rows of the file consecutively -/
theorem chunkIndex_flatten {r : Nat} (hr : 0 < r) (n : Nat) :
    ((List.range (numRowChunks n r)).map (chunkIndex n r)).flatten = List.range n := by
  have h : (List.range (numRowChunks (List.range n).length r)).map (chunkIndex n r)
      = createChunks (List.range n) r := rfl
  rw [List.length_range] at h
  rw [h, createChunks_flatten hr]

/-- the index of the spectra data frame is `0 … n-1` whenever the look-ups succeed -/
theorem spectraIndexSched_of_lookup {args : PinArgs} {t : Table} {k : Classified}
    (hk : lookupColumns args t.header = .ok k) (hne : k.spectra.any (fun s => s.isEmpty) = false)
    {c r : Nat} (hc : 0 < c) (hr : 0 < r)
    (order : List (List Name) → List (List Name)) (hord : ∀ l, (order l).Perm l) :
    spectraIndexSched args c r t order = .ok (List.range t.nrows) := by
  unfold spectraIndexSched
  rw [hk]
  simp only [Except.bind]
  rw [if_neg (by rw [hne]; simp), if_neg (by omega)]
  have hcount : (order (featSlices k t.header c)).countP (hasIds (k.spectra ++ [k.labels])) = 1 := by
    rw [(hord _).countP_eq]
    exact countP_hasIds_idChunks hc _ _ (by simp) (ids_not_features _ _)
  rw [flatMap_scanIndexFrames, hcount]
  simp only [List.replicate_one, List.flatten_singleton]
  rw [chunkIndex_flatten hr]

/-- the model of the index fails exactly when the look-ups / chunk sizes make the parse fail early -/
theorem spectraIndexSched_error_of_lookup {args : PinArgs} {t : Table} {e : PinErr}
    (hk : lookupColumns args t.header = .error e) (c r : Nat)
    (order : List (List Name) → List (List Name)) :
    spectraIndexSched args c r t order = .error e := by
  unfold spectraIndexSched; rw [hk]; rfl

/-! ### numeric label columns -/

theorem all_map_ofCell_isBool (cells : List Cell) :
    (cells.map LCell.ofCell).all LCell.isBool = cells.all Cell.isBool := by
  rw [List.all_map]
  congr 1
  funext c
  cases c <;> rfl

theorem all_map_ofCell_isNum (cells : List Cell) :
    (cells.map LCell.ofCell).all LCell.isNum = cells.all Cell.isInt := by
  rw [List.all_map]
  congr 1
  funext c
  cases c <;> rfl

theorem trunc_ofCell (c : Cell) : (LCell.ofCell c).trunc = c.intVal := by cases c <;> rfl
theorem boolVal_ofCell (c : Cell) : (LCell.ofCell c).boolVal = c.boolVal := by cases c <;> rfl
theorem isWhole_ofCell (c : Cell) : (LCell.ofCell c).isWhole = true := by cases c <;> rfl

/-- on columns without floats the extended label conversion is the one of `Model/Pin.lean` -/
theorem convertTargetsNum_ofCell (cells : List Cell) :
    convertTargetsNum (cells.map LCell.ofCell) = convertTargets cells := by
  unfold convertTargetsNum convertTargets
  rw [all_map_ofCell_isBool, all_map_ofCell_isNum]
  simp only [List.any_map, List.map_map]
  have e0 : (fun c : LCell => !c.isWhole) ∘ LCell.ofCell = fun _ : Cell => false := by
    funext c; simp [isWhole_ofCell]
  have e1 : (fun c : LCell => decide (c.trunc < -1)) ∘ LCell.ofCell = fun c : Cell => decide (c.intVal < -1) := by
    funext c; simp [trunc_ofCell]
  have e2 : (fun c : LCell => decide (c.trunc > 1)) ∘ LCell.ofCell = fun c : Cell => decide (c.intVal > 1) := by
    funext c; simp [trunc_ofCell]
  have e3 : LCell.boolVal ∘ LCell.ofCell = Cell.boolVal := by
    funext c; simp [boolVal_ofCell]
  have e4 : (fun c : LCell => c.trunc == 1) ∘ LCell.ofCell = fun c : Cell => c.intVal == 1 := by
    funext c; simp [trunc_ofCell]
  rw [e0, e1, e2, e3, e4]
  have : cells.any (fun _ => false) = false := by simp
  rw [this, Bool.false_or]

/-- a float `n/d` (`d > 0`) is a whole number whose cast lies in {-1, 0, 1} iff it is 1, 0 or -1 -/
theorem frac_whole_range_iff (n : Int) {d : Nat} (hd : 0 < d) :
    (Int.tdiv n d * (d : Int) = n ∧ -1 ≤ Int.tdiv n d ∧ Int.tdiv n d ≤ 1)
      ↔ (n = d ∨ n = 0 ∨ n = -(d : Int)) := by
  have hd' : (d : Int) ≠ 0 := by omega
  constructor
  · rintro ⟨h1, h2, h3⟩
    have hq : Int.tdiv n d = 1 ∨ Int.tdiv n d = 0 ∨ Int.tdiv n d = -1 := by omega
    rcases hq with hq | hq | hq <;> rw [hq] at h1 <;> omega
  · rintro (h | h | h)
    · subst h; rw [Int.tdiv_self hd']; omega
    · subst h; rw [Int.zero_tdiv]; omega
    · subst h; rw [Int.neg_tdiv, Int.tdiv_self hd']; omega

/-- per cell: whole and in range iff the value is 1, 0 or -1 -/
theorem cell_ok_iff_isPm1 {c : LCell} (hn : c.isNum = true) (hd : c.denPos = true) :
    (c.isWhole = true ∧ -1 ≤ c.trunc ∧ c.trunc ≤ 1) ↔ c.isPm1 = true := by
  cases c with
  | na => cases hn
  | bool b => cases hn
  | str s => cases hn
  | int i =>
    simp only [LCell.isWhole, LCell.trunc, LCell.isPm1, true_and, Bool.or_eq_true, beq_iff_eq]
    omega
  | frac n d =>
    have hd' : 0 < d := by simpa [LCell.denPos] using hd
    simp only [LCell.isWhole, LCell.trunc, LCell.isPm1, Bool.or_eq_true, beq_iff_eq]
    rw [frac_whole_range_iff n hd', or_assoc]

/-- the target flag computed by the code on an admissible numeric cell -/
theorem trunc_eq_one_of_isPm1 {c : LCell} (hp : c.isPm1 = true) (hd : c.denPos = true) :
    (c.trunc == 1) = c.isTarget := by
  cases c with
  | na => cases hp
  | bool b => cases hp
  | str s => cases hp
  | int i => rfl
  | frac n d =>
    have hd' : 0 < d := by simpa [LCell.denPos] using hd
    have hne : (d : Int) ≠ 0 := by omega
    simp only [LCell.isPm1, Bool.or_eq_true, beq_iff_eq] at hp
    simp only [LCell.trunc, LCell.isTarget]
    rw [Bool.eq_iff_iff, beq_iff_eq, beq_iff_eq]
    rcases hp with (h | h) | h
    · subst h; rw [Int.tdiv_self hne]; simp
    · subst h; rw [Int.zero_tdiv]; constructor <;> intro h <;> omega
    · subst h; rw [Int.neg_tdiv, Int.tdiv_self hne]; constructor <;> intro h <;> omega

/-- **the code as it now is accepts exactly the admissible label columns**: booleans, or
numbers (integers or floats) every one of which is exactly 1, 0 or -1 -/
theorem convertTargetsNum_ok_iff {cells : List LCell} (hd : ∀ c ∈ cells, c.denPos = true) :
    (∃ bs, convertTargetsNum cells = .ok bs) ↔ labelOkNum cells = true := by
  unfold convertTargetsNum labelOkNum
  by_cases hb : cells.all LCell.isBool = true
  · simp [hb]
  · have hb' : cells.all LCell.isBool = false := by simpa using hb
    simp only [hb', Bool.false_eq_true, if_false, Bool.false_or]
    by_cases hn : cells.all LCell.isNum = true
    · simp only [hn, Bool.not_true, Bool.false_eq_true, if_false]
      have key : ((cells.any (fun c => !c.isWhole) || cells.any (fun c => decide (c.trunc < -1))
          || cells.any (fun c => decide (c.trunc > 1))) = false) ↔ cells.all LCell.isPm1 = true := by
        rw [Bool.or_eq_false_iff, Bool.or_eq_false_iff, List.any_eq_false, List.any_eq_false,
          List.any_eq_false, List.all_eq_true]
        constructor
        · rintro ⟨⟨h1, h2⟩, h3⟩ c hc
          apply (cell_ok_iff_isPm1 (List.all_eq_true.mp hn c hc) (hd c hc)).mp
          have a1 := h1 c hc
          have a2 := h2 c hc
          have a3 := h3 c hc
          simp only [Bool.not_eq_true', Bool.not_eq_false, decide_eq_true_eq] at a1 a2 a3
          exact ⟨a1, by omega, by omega⟩
        · intro h
          have h' := fun c hc => (cell_ok_iff_isPm1 (List.all_eq_true.mp hn c hc) (hd c hc)).mpr (h c hc)
          refine ⟨⟨fun c hc => by simp [(h' c hc).1], fun c hc => ?_⟩, fun c hc => ?_⟩
          · have := (h' c hc).2.1; simp only [decide_eq_true_eq]; omega
          · have := (h' c hc).2.2; simp only [decide_eq_true_eq]; omega
      by_cases hp : cells.all LCell.isPm1 = true
      · rw [if_neg (by rw [key.mpr hp]; simp)]
        simp [hp]
      · have : ¬ ((cells.any (fun c => !c.isWhole) || cells.any (fun c => decide (c.trunc < -1))
            || cells.any (fun c => decide (c.trunc > 1))) = false) := fun h => hp (key.mp h)
        rw [if_pos ((Bool.eq_false_or_eq_true _).resolve_right this)]
        simp [hp]
    · have hn' : cells.all LCell.isNum = false := by simpa using hn
      have hp : cells.all LCell.isPm1 = false := by
        cases hpp : cells.all LCell.isPm1 with
        | false => rfl
        | true =>
          exfalso; apply hn
          rw [List.all_eq_true] at hpp ⊢
          exact fun c hc => by
            have := hpp c hc
            cases c <;> first | rfl | cases this
      simp [hn', hp]

/-- on an admissible column the targets are the cells that are `true` / 1 / 1.0 -/
theorem convertTargetsNum_ok {cells : List LCell} (hd : ∀ c ∈ cells, c.denPos = true)
    (h : labelOkNum cells = true) : convertTargetsNum cells = .ok (cells.map LCell.isTarget) := by
  obtain ⟨bs, hbs⟩ := (convertTargetsNum_ok_iff hd).mpr h
  rw [hbs]
  unfold convertTargetsNum at hbs
  by_cases hb : cells.all LCell.isBool = true
  · rw [if_pos hb] at hbs
    simp only [Except.ok.injEq] at hbs
    subst hbs
    congr 1
    apply List.map_congr_left
    intro c hc
    have := List.all_eq_true.mp hb c hc
    cases c <;> first | rfl | cases this
  · rw [if_neg hb] at hbs
    have hp : cells.all LCell.isPm1 = true := by
      unfold labelOkNum at h
      rcases Bool.or_eq_true_iff.mp h with h | h
      · exact absurd h hb
      · exact h
    split at hbs
    · cases hbs
    split at hbs
    · cases hbs
    simp only [Except.ok.injEq] at hbs
    subst hbs
    congr 1
    apply List.map_congr_left
    intro c hc
    exact trunc_eq_one_of_isPm1 (List.all_eq_true.mp hp c hc) (hd c hc)

/-- a strict label conversion (what the documentation of `convert_targets_column`
promises: "raises if the column contains values other than -1, 0, or 1") -/
def convertTargetsStrict (cells : List LCell) : Except PinErr (List Bool) :=
  if cells.all LCell.isBool then .ok (cells.map LCell.boolVal)
  else if !cells.all LCell.isNum then .error .labelCast
  else if !cells.all LCell.isPm1 then .error .labelRange
  else .ok (cells.map (fun c => c.trunc == 1))

theorem isNum_of_isPm1 {c : LCell} (h : c.isPm1 = true) : c.isNum = true := by
  cases c <;> first | rfl | cases h

/-- the strict conversion accepts exactly the admissible label columns -/
theorem convertTargetsStrict_ok_iff (cells : List LCell) :
    (∃ bs, convertTargetsStrict cells = .ok bs) ↔ labelOkNum cells = true := by
  unfold convertTargetsStrict labelOkNum
  by_cases hb : cells.all LCell.isBool = true
  · simp [hb]
  · have hb' : cells.all LCell.isBool = false := by simpa using hb
    simp only [hb', Bool.false_eq_true, if_false, Bool.false_or]
    by_cases hp : cells.all LCell.isPm1 = true
    · have hn : cells.all LCell.isNum = true := by
        rw [List.all_eq_true] at hp ⊢
        exact fun c hc => isNum_of_isPm1 (hp c hc)
      simp [hp, hn]
    · have hp' : cells.all LCell.isPm1 = false := by simpa using hp
      by_cases hn : cells.all LCell.isNum = true
      · simp [hp', hn]
      · have hn' : cells.all LCell.isNum = false := by simpa using hn
        simp [hp', hn']

end Mk.Pin
