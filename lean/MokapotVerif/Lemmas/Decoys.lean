import MokapotVerif.Model.Decoys
/-! Helper lemmas for C18 (shuffling part): the index-based, in-place loop of
`_shuffle_proteins` equals the peptide-wise description `specLoop`. -/
namespace Mk.Decoys
variable {α β : Type}

theorem sequenceOpt_map_some (f : β → α) (l : List β) :
    sequenceOpt (l.map (fun x => some (f x))) = some (l.map f) := by
  induction l with
  | nil => rfl
  | cons x xs ih => simp [sequenceOpt, ih, optCons]

theorem sequenceOpt_eq_some_length {l : List (Option β)} {r : List β}
    (h : sequenceOpt l = some r) : r.length = l.length := by
  induction l generalizing r with
  | nil => simp [sequenceOpt] at h; subst h; rfl
  | cons x xs ih =>
    cases x with
    | none => simp [sequenceOpt, optCons] at h
    | some a =>
      cases hxs : sequenceOpt xs with
      | none => simp [sequenceOpt, optCons, hxs] at h
      | some t =>
        simp [sequenceOpt, optCons, hxs] at h
        subst h
        simp [ih hxs]

/-! ### permutations by index lists -/

theorem permuteBy_range'_aux (I A : List α) :
    (List.range' A.length I.length).filterMap (fun i => (A ++ I)[i]?) = I := by
  induction I generalizing A with
  | nil => simp
  | cons x I ih =>
    rw [List.length_cons, List.range'_succ, List.filterMap_cons]
    have h1 : (A ++ x :: I)[A.length]? = some x := by simp
    rw [h1]
    have h2 : A ++ x :: I = (A ++ [x]) ++ I := by simp
    have := ih (A ++ [x])
    simp only [List.length_append, List.length_cons, List.length_nil] at this
    rw [h2]
    simpa using this

theorem permuteBy_range (I : List α) : permuteBy (List.range I.length) I = I := by
  have := permuteBy_range'_aux I ([] : List α)
  simpa [permuteBy, List.range_eq_range'] using this

theorem permuteBy_perm {p : List Nat} {I : List α} (h : p.Perm (List.range I.length)) :
    (permuteBy p I).Perm I := by
  have := h.filterMap (fun i => I[i]?)
  rw [show List.filterMap (fun i => I[i]?) (List.range I.length) = I from permuteBy_range I] at this
  exact this

theorem permuteBy_length {p : List Nat} {I : List α} (h : p.Perm (List.range I.length)) :
    (permuteBy p I).length = I.length := (permuteBy_perm h).length_eq

theorem perm_range_lt {p : List Nat} {n : Nat} (h : p.Perm (List.range n)) : ∀ i ∈ p, i < n := by
  intro i hi
  exact List.mem_range.mp (h.mem_iff.mp hi)

theorem permuteBy_revPerm (I : List α) : permuteBy (revPerm I.length) I = I.reverse := by
  unfold permuteBy revPerm
  rw [List.filterMap_reverse]
  exact congrArg List.reverse (permuteBy_range I)

theorem revPerm_family : PermFamily revPerm := fun _ => List.reverse_perm _

theorem permsOf_family (reverse : Bool) {drawn : Nat → List Nat} (h : PermFamily drawn) :
    PermFamily (permsOf reverse drawn) := by
  unfold permsOf; cases reverse
  · simpa using h
  · simpa using revPerm_family

/-! ### one peptide -/

theorem peptide_decomp (pep : List α) (h : 2 ≤ pep.length) :
    ∃ x I y, pep = x :: (I ++ [y]) := by
  cases pep with
  | nil => simp at h
  | cons x t =>
    have ht : t ≠ [] := by intro h0; subst h0; simp at h
    exact ⟨x, t.dropLast, t.getLast ht, by rw [List.dropLast_concat_getLast]⟩

theorem interior_decomp (x y : α) (I : List α) : interior (x :: (I ++ [y])) = I := by
  simp [interior]

theorem shufflePeptide_decomp (perms : Nat → List Nat) (x y : α) (I : List α) (h : 2 ≤ I.length) :
    shufflePeptide perms (x :: (I ++ [y])) = x :: (permuteBy (perms I.length) I ++ [y]) := by
  unfold shufflePeptide
  rw [if_neg (by simp; omega), interior_decomp]
  simp

theorem shufflePeptide_short (perms : Nat → List Nat) (pep : List α) (h : pep.length ≤ 3) :
    shufflePeptide perms pep = pep := by
  unfold shufflePeptide; rw [if_pos h]

/-- case analysis used everywhere: a peptide is short (kept) or `x :: I ++ [y]` with `2 ≤ |I|` -/
theorem peptide_cases (pep : List α) :
    pep.length ≤ 3 ∨ ∃ x I y, pep = x :: (I ++ [y]) ∧ 2 ≤ I.length := by
  by_cases h : pep.length ≤ 3
  · exact Or.inl h
  · obtain ⟨x, I, y, rfl⟩ := peptide_decomp pep (by omega)
    refine Or.inr ⟨x, I, y, rfl, ?_⟩
    simp at h; omega

theorem shufflePeptide_perm {perms : Nat → List Nat} (hp : PermFamily perms) (pep : List α) :
    (shufflePeptide perms pep).Perm pep := by
  rcases peptide_cases pep with h | ⟨x, I, y, rfl, hI⟩
  · rw [shufflePeptide_short _ _ h]
  · rw [shufflePeptide_decomp _ _ _ _ hI]
    exact ((permuteBy_perm (hp _)).append_right _).cons _

theorem shufflePeptide_length {perms : Nat → List Nat} (hp : PermFamily perms) (pep : List α) :
    (shufflePeptide perms pep).length = pep.length := (shufflePeptide_perm hp pep).length_eq

theorem shufflePeptide_head? {perms : Nat → List Nat} (pep : List α) :
    (shufflePeptide perms pep).head? = pep.head? := by
  rcases peptide_cases pep with h | ⟨x, I, y, rfl, hI⟩
  · rw [shufflePeptide_short _ _ h]
  · rw [shufflePeptide_decomp _ _ _ _ hI]; rfl

theorem getLast?_cons_concat (x y : α) (l : List α) : (x :: (l ++ [y])).getLast? = some y := by
  rw [← List.cons_append, List.getLast?_append]; simp

theorem shufflePeptide_getLast? {perms : Nat → List Nat} (pep : List α) :
    (shufflePeptide perms pep).getLast? = pep.getLast? := by
  rcases peptide_cases pep with h | ⟨x, I, y, rfl, hI⟩
  · rw [shufflePeptide_short _ _ h]
  · rw [shufflePeptide_decomp _ _ _ _ hI]
    rw [getLast?_cons_concat, getLast?_cons_concat]

theorem shufflePeptide_interior_rev (pep : List α) :
    interior (shufflePeptide revPerm pep) = (interior pep).reverse := by
  rcases peptide_cases pep with h | ⟨x, I, y, rfl, hI⟩
  · rw [shufflePeptide_short _ _ h]
    -- interiors of length ≤ 1 are their own reversal
    have : (interior pep).length ≤ 1 := by simp [interior]; omega
    generalize interior pep = J at this
    match J, this with
    | [], _ => rfl
    | [a], _ => rfl
    | _ :: _ :: _, h => simp at h
  · rw [shufflePeptide_decomp _ _ _ _ hI, interior_decomp, interior_decomp, permuteBy_revPerm]

/-! ### the loop -/

theorem gather_eq (A I B : List α) (p : List Nat) (h : ∀ i ∈ p, i < I.length) :
    gather (A ++ I ++ B) A.length p = some (permuteBy p I) := by
  unfold gather permuteBy
  induction p with
  | nil => rfl
  | cons i p ih =>
    have hi : i < I.length := h i (by simp)
    have h1 : (A ++ I ++ B)[i + A.length]? = some I[i] := by
      rw [List.append_assoc, Nat.add_comm, List.getElem?_append_right (by omega)]
      simp [List.getElem?_append_left hi]
    have h2 : I[i]? = some I[i] := by simp [hi]
    simp only [List.map_cons, sequenceOpt, List.filterMap_cons, h1, h2]
    rw [ih (fun j hj => h j (by simp [hj]))]
    rfl

theorem stepPair_eq {perms : Nat → List Nat} (hp : PermFamily perms) (P pep R : List α) :
    stepPair perms (P ++ pep ++ R) P.length (P.length + pep.length)
      = some (P ++ shufflePeptide perms pep ++ R) := by
  rcases peptide_cases pep with h | ⟨x, I, y, rfl, hI⟩
  · rw [shufflePeptide_short _ _ h]
    unfold stepPair
    rw [if_pos (by omega)]
  · rw [shufflePeptide_decomp _ _ _ _ hI]
    unfold stepPair
    have hlen : P.length + (x :: (I ++ [y])).length - 1 - (P.length + 1) = I.length := by
      simp; omega
    rw [hlen, if_neg (by omega)]
    have hcur : P ++ x :: (I ++ [y]) ++ R = (P ++ [x]) ++ I ++ (y :: R) := by simp
    have hA : (P ++ [x]).length = P.length + 1 := by simp
    rw [hcur, ← hA, gather_eq _ _ _ _ (perm_range_lt (hp _))]
    simp only [Option.map_some, sliceAssign]
    congr 1
    have h1 : List.take (P ++ [x]).length (P ++ [x] ++ I ++ y :: R) = P ++ [x] := by
      rw [List.append_assoc]; exact List.take_left' rfl
    have h2 : List.drop (P.length + (x :: (I ++ [y])).length - 1) (P ++ [x] ++ I ++ y :: R) = y :: R := by
      apply List.drop_left'
      simp
    rw [h1, h2]; simp

/-- sites are non-decreasing and do not exceed `n` -/
def SitesOK (n : Nat) (sites : List Nat) : Prop :=
  sites.Pairwise (· ≤ ·) ∧ ∀ s ∈ sites, s ≤ n

theorem SitesOK.tail {n s : Nat} {sites : List Nat} (h : SitesOK n (s :: sites)) : SitesOK n sites :=
  ⟨(List.pairwise_cons.mp h.1).2, fun t ht => h.2 t (by simp [ht])⟩

theorem specLoop_length {perms : Nat → List Nat} (hp : PermFamily perms) (sites : List Nat) (R : List α) :
    (specLoop perms sites R).length = R.length := by
  induction sites generalizing R with
  | nil => rfl
  | cons s rest ih =>
    cases rest with
    | nil => rfl
    | cons e rest =>
      simp only [specLoop, List.length_append, shufflePeptide_length hp, ih]
      rw [← List.length_append, List.take_append_drop]

theorem specLoop_perm {perms : Nat → List Nat} (hp : PermFamily perms) (sites : List Nat) (R : List α) :
    (specLoop perms sites R).Perm R := by
  induction sites generalizing R with
  | nil => exact List.Perm.refl _
  | cons s rest ih =>
    cases rest with
    | nil => exact List.Perm.refl _
    | cons e rest =>
      simp only [specLoop]
      have := (shufflePeptide_perm hp (R.take (e - s))).append (ih (R.drop (e - s)))
      rwa [List.take_append_drop] at this

/-- **model = peptide-wise description**: running the in-place loop over the sites
`s0 :: sites` on `P ++ R` (where `P` is the part before `s0`) leaves `P` alone and
turns `R` into `specLoop … R`; in particular the loop never raises. -/
theorem shuffleLoop_eq_spec {perms : Nat → List Nat} (hp : PermFamily perms) (sites : List Nat) :
    ∀ (s0 : Nat) (P R : List α), SitesOK (P.length + R.length) (s0 :: sites) → P.length = s0 →
      shuffleLoop perms (s0 :: sites) (P ++ R) = some (P ++ specLoop perms (s0 :: sites) R) := by
  induction sites with
  | nil => intro s0 P R _ _; rfl
  | cons e rest ih =>
    intro s0 P R hok hP
    have hse : s0 ≤ e := (List.pairwise_cons.mp hok.1).1 e (by simp)
    have hen : e ≤ P.length + R.length := hok.2 e (by simp)
    have hpl : (R.take (e - s0)).length = e - s0 := by simp; omega
    have hR : P ++ R = P ++ R.take (e - s0) ++ R.drop (e - s0) := by
      rw [List.append_assoc, List.take_append_drop]
    have he : e = P.length + (R.take (e - s0)).length := by rw [hpl]; omega
    have hstep := stepPair_eq hp P (R.take (e - s0)) (R.drop (e - s0))
    rw [← he, ← hR, hP] at hstep
    simp only [shuffleLoop, hstep, Option.bind_some]
    have hlen' : (P ++ shufflePeptide perms (R.take (e - s0))).length = e := by
      rw [List.length_append, shufflePeptide_length hp]; omega
    have := ih e (P ++ shufflePeptide perms (R.take (e - s0))) (R.drop (e - s0)) (by
      have h := hok.tail
      rw [hlen']
      have : e + (R.drop (e - s0)).length = P.length + R.length := by simp; omega
      rw [this]; exact h) hlen'
    rw [this]
    simp [specLoop]

end Mk.Decoys
