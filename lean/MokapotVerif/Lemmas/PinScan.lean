import MokapotVerif.Lemmas.PinChunks
/-! Helper lemmas for C10: the chunked scan for missing values and the frames
appended to the spectra data frame. Core Lean only. -/
namespace Mk.Pin

theorem lookup_of_mem_map (cols : List (Name × List Cell)) {c : Name} (h : c ∈ cols.map (·.1)) :
    ∃ cells, (c, cells) ∈ cols ∧ (cols.lookup c).getD [] = cells := by
  induction cols with
  | nil => cases h
  | cons p rest ih =>
    obtain ⟨n, cells⟩ := p
    by_cases hcn : c = n
    · subst hcn
      exact ⟨cells, List.mem_cons_self, by simp [List.lookup]⟩
    · have hmem : c ∈ rest.map (·.1) := by
        rcases List.mem_cons.mp h with h | h
        · exact absurd h hcn
        · exact h
      obtain ⟨cells', h1, h2⟩ := ih hmem
      refine ⟨cells', List.mem_cons_of_mem _ h1, ?_⟩
      have : (c == n) = false := by simpa using hcn
      simp only [List.lookup, this]
      exact h2

/-- a name of the header has a column in the table -/
theorem column_of_mem_header (t : Table) {c : Name} (h : c ∈ t.header) :
    ∃ cells, (c, cells) ∈ t.cols ∧ t.column c = cells :=
  lookup_of_mem_map t.cols h

theorem column_length (t : Table) (hrows : ∀ p ∈ t.cols, p.2.length = t.nrows) {c : Name}
    (h : c ∈ t.header) : (t.column c).length = t.nrows := by
  obtain ⟨cells, h1, h2⟩ := column_of_mem_header t h
  rw [h2]; exact hrows _ h1

/-- the row chunks of a column are `createChunks` of the column -/
theorem rowChunks_eq (t : Table) (r : Nat) (c : Name) :
    (List.range (numRowChunks (t.column c).length r)).map (fun k => cellsOf t r k c)
      = createChunks (t.column c) r := rfl

/-- scanning a column row chunk by row chunk finds exactly its missing values -/
theorem naInColumn_eq (t : Table) {r : Nat} (hr : 0 < r) (c : Name) :
    naInColumn t r (numRowChunks (t.column c).length r) c = hasMissing t c := by
  unfold naInColumn hasMissing
  have h := rowChunks_eq t r c
  have : (List.range (numRowChunks (t.column c).length r)).any (fun k => (cellsOf t r k c).any Cell.isNa)
      = ((List.range (numRowChunks (t.column c).length r)).map (fun k => cellsOf t r k c)).any
          (fun x => x.any Cell.isNa) := by
    rw [List.any_map]; rfl
  rw [this, h, ← List.any_flatten, createChunks_flatten hr]

/-- the frames of all row chunks, concatenated, give back the column -/
theorem concatCol_frames (t : Table) {r : Nat} (hr : 0 < r) (c : Name) :
    concatCol ((List.range (numRowChunks (t.column c).length r)).map (fun k c => cellsOf t r k c)) c
      = t.column c := by
  unfold concatCol
  rw [List.flatMap_def, List.map_map]
  have : ((fun f : Name → List Cell => f c) ∘ fun k c => cellsOf t r k c) = fun k => cellsOf t r k c := rfl
  rw [this, rowChunks_eq, createChunks_flatten hr]

theorem numRowChunks_pos {n r : Nat} (hn : 0 < n) (hr : 0 < r) : 0 < numRowChunks n r := by
  unfold numRowChunks
  apply Nat.div_pos (by omega) hr

/-- the frames a list of tasks appends: as many copies of the row-chunk frames
as there are chunks holding all identifier columns -/
theorem flatMap_scanFrames (t : Table) (ids : List Name) (r m : Nat) (chunks : List (List Name)) :
    chunks.flatMap (scanFrames t ids r m)
      = (List.replicate (chunks.countP (hasIds ids)) ((List.range m).map (fun k c => cellsOf t r k c))).flatten := by
  induction chunks with
  | nil => rfl
  | cons ch rest ih =>
    rw [List.flatMap_cons, ih, List.countP_cons]
    unfold scanFrames
    by_cases h : hasIds ids ch = true
    · simp [h, List.replicate_succ]
    · simp [h]

/-- with the repaired chunking exactly one column chunk holds all identifier columns -/
theorem countP_hasIds_idChunks {α : Type} [BEq α] [LawfulBEq α] {c : Nat} (hc : 0 < c) (data ids : List α) (hne : ids ≠ [])
    (hdis : ∀ x ∈ ids, x ∉ data) : (idChunks data ids c).countP (hasIds ids) = 1 := by
  obtain ⟨init, last, h1, h2, h3⟩ := idChunks_struct hc data ids hne
  rw [h1, List.countP_append]
  have hinit : init.countP (hasIds ids) = 0 := by
    rw [List.countP_eq_zero]
    intro ch hch hhas
    obtain ⟨x, rest, rfl⟩ := List.exists_cons_of_ne_nil hne
    have hx : x ∈ ch := by
      have := (List.all_eq_true.mp hhas) x List.mem_cons_self
      simpa using this
    exact hdis x List.mem_cons_self (h2 ch hch x hx)
  have hlast : hasIds ids last = true := by
    apply List.all_eq_true.mpr
    intro x hx
    simpa using h3 x hx
  rw [hinit]
  simp [hlast]

/-- membership in the scanned columns for a non-identifier column -/
theorem mem_scannedCols {ids chunk : List Name} {f : Name} (hf : f ∉ ids) :
    f ∈ scannedCols ids chunk ↔ f ∈ chunk := by
  unfold scannedCols
  split
  · simp [List.mem_filter, hf]
  · rfl

/-- **the chunked scan is exact**: a non-identifier column of the data is
reported by some task iff it has a missing value — for every column chunk
size and every row chunk size -/
theorem mem_scanDrop_iff (t : Table) {c r : Nat} (hc : 0 < c) (hr : 0 < r) (data ids : List Name)
    {f : Name} (hfd : f ∈ data) (hfi : f ∉ ids) (hlen : (t.column f).length = t.nrows) :
    f ∈ (idChunks data ids c).flatMap (scanDrop t ids r (numRowChunks t.nrows r)) ↔ hasMissing t f = true := by
  rw [List.mem_flatMap]
  constructor
  · rintro ⟨ch, _, hf⟩
    unfold scanDrop at hf
    rw [List.mem_filter] at hf
    rw [← hlen, naInColumn_eq t hr] at hf
    exact hf.2
  · intro hm
    have hmem : f ∈ (idChunks data ids c).flatten := by
      rw [idChunks_flatten hc]; exact List.mem_append_left _ hfd
    obtain ⟨ch, hch, hfc⟩ := List.mem_flatten.mp hmem
    refine ⟨ch, hch, ?_⟩
    unfold scanDrop
    rw [List.mem_filter]
    refine ⟨(mem_scannedCols hfi).mpr hfc, ?_⟩
    rw [← hlen, naInColumn_eq t hr]; exact hm

end Mk.Pin
