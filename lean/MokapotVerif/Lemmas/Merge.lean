import MokapotVerif.Model.Merge
import MokapotVerif.Lemmas.Qvalues
import Mathlib.Data.List.Perm.Basic
/-! Helper lemmas for C14 (k-way merge): chunked reading is the identity on the row
sequence, the index scan returns a valid index of a maximal element, and one step of
either merge loop splits the state as `A ++ s :: B ↦ A ++ nextSrc s ++ B`. -/
namespace Mk.Merge
variable {α : Type}

/-- the reversed order is again a total preorder (ascending mode = descending mode on it) -/
theorem totalPre_dual {le : α → α → Bool} (h : TotalPre le) : TotalPre (fun a b => le b a) :=
  ⟨fun a b => (h.total a b).symm, fun a b c h1 h2 => h.trans c b a h2 h1⟩

/-- non-increasing w.r.t. `le` (every later row scores at most every earlier one) -/
def NonIncr (le : α → α → Bool) (xs : List α) : Prop := xs.Pairwise (fun a b => le b a = true)

/-- sorted as declared to the table merger -/
def SortedAs (le : α → α → Bool) (desc : Bool) (xs : List α) : Prop :=
  if desc then NonIncr le xs else NonIncr (fun a b => le b a) xs

/-! ## chunked reading -/

theorem kmChunksFuel_flatten (c : Nat) (hc : 0 < c) :
    ∀ (fuel : Nat) (xs : List α), xs.length ≤ fuel → (kmChunksFuel c fuel xs).flatten = xs := by
  intro fuel
  induction fuel with
  | zero =>
    intro xs h
    have : xs = [] := List.length_eq_zero_iff.mp (Nat.le_zero.mp h)
    subst this; rfl
  | succ n ih =>
    intro xs h
    unfold kmChunksFuel
    by_cases he : xs.isEmpty
    · have : xs = [] := List.isEmpty_iff.mp he
      subst this; rfl
    · simp only [he]
      have hne : xs ≠ [] := by simpa using he
      have hpos : 0 < xs.length := List.length_pos_iff.mpr hne
      have hd : (xs.drop c).length ≤ n := by rw [List.length_drop]; omega
      simp only [Bool.false_eq_true, if_false, List.flatten_cons, ih _ hd, List.take_append_drop]

theorem kmChunks_flatten (c : Nat) (hc : 0 < c) (xs : List α) : (kmChunks c xs).flatten = xs :=
  kmChunksFuel_flatten c hc _ xs (Nat.le_refl _)

theorem kmRowIter_eq (c : Nat) (hc : 0 < c) (xs : List α) : kmRowIter c xs = xs :=
  kmChunks_flatten c hc xs

theorem kmChunksFuel_bounds (c : Nat) (hc : 0 < c) :
    ∀ (fuel : Nat) (xs : List α), ∀ ch ∈ kmChunksFuel c fuel xs, ch ≠ [] ∧ ch.length ≤ c := by
  intro fuel
  induction fuel with
  | zero => intro xs ch h; simp [kmChunksFuel] at h
  | succ n ih =>
    intro xs ch h
    unfold kmChunksFuel at h
    by_cases he : xs.isEmpty
    · simp [he] at h
    · simp only [he, Bool.false_eq_true, if_false, List.mem_cons] at h
      have hne : xs ≠ [] := by simpa using he
      rcases h with rfl | h
      · constructor
        · intro h0
          have := List.take_eq_nil_iff.mp h0
          rcases this with h1 | h1
          · omega
          · exact hne h1
        · rw [List.length_take]; omega
      · exact ih _ ch h

/-! ## the index scan -/

theorem scanBest_lt (better : α → α → Bool) (xs : List α) :
    ∀ (b : α) (bi i : Nat), bi < i → scanBest better b bi i xs < i + xs.length := by
  induction xs with
  | nil => intro b bi i h; simpa [scanBest] using h
  | cons x xs ih =>
    intro b bi i h
    unfold scanBest
    split
    · have := ih x i (i + 1) (Nat.lt_succ_self i)
      simp only [List.length_cons]; omega
    · have := ih b bi (i + 1) (by omega)
      simp only [List.length_cons]; omega

theorem argFirst_lt (better : α → α → Bool) (xs : List α) (h : xs ≠ []) :
    argFirst better xs < xs.length := by
  cases xs with
  | nil => exact absurd rfl h
  | cons x xs =>
    have := scanBest_lt better xs x 0 1 (by omega)
    simp only [argFirst, List.length_cons]; omega

theorem scanBest_spec (le : α → α → Bool) (hle : TotalPre le) (xs : List α) :
    ∀ (pre : List α) (b : α) (bi : Nat), pre[bi]? = some b → (∀ y ∈ pre, le y b = true) →
      ∃ x, (pre ++ xs)[scanBest (ltMax le) b bi pre.length xs]? = some x ∧
        ∀ y ∈ pre ++ xs, le y x = true := by
  induction xs with
  | nil =>
    intro pre b bi hb hall
    exact ⟨b, by simpa [scanBest] using hb, by simpa using hall⟩
  | cons x xs ih =>
    intro pre b bi hb hall
    have hbi : bi < pre.length := by
      rcases List.getElem?_eq_some_iff.mp hb with ⟨h, _⟩; exact h
    unfold scanBest
    by_cases hlt : ltMax le b x = true
    · simp only [hlt, if_true]
      have hbx : le b x = true := by
        rcases hle.total b x with h | h
        · exact h
        · simp [ltMax, h] at hlt
      have h1 : (pre ++ [x])[pre.length]? = some x := by simp
      have h2 : ∀ y ∈ pre ++ [x], le y x = true := by
        intro y hy
        rcases List.mem_append.mp hy with hy | hy
        · exact hle.trans _ _ _ (hall y hy) hbx
        · have : y = x := by simpa using hy
          subst this; exact hle.refl _
      obtain ⟨z, hz1, hz2⟩ := ih (pre ++ [x]) x pre.length h1 h2
      refine ⟨z, ?_, ?_⟩
      · simpa [List.append_assoc] using hz1
      · simpa [List.append_assoc] using hz2
    · simp only [hlt, Bool.false_eq_true, if_false]
      have hxb : le x b = true := by
        simp only [ltMax, Bool.not_eq_true', Bool.not_eq_false] at hlt; exact hlt
      have h1 : (pre ++ [x])[bi]? = some b := by
        rw [List.getElem?_append_left hbi]; exact hb
      have h2 : ∀ y ∈ pre ++ [x], le y b = true := by
        intro y hy
        rcases List.mem_append.mp hy with hy | hy
        · exact hall y hy
        · have : y = x := by simpa using hy
          subst this; exact hxb
      obtain ⟨z, hz1, hz2⟩ := ih (pre ++ [x]) b bi h1 h2
      refine ⟨z, ?_, ?_⟩
      · simpa [List.append_assoc] using hz1
      · simpa [List.append_assoc] using hz2

/-- the chosen index holds a maximal element -/
theorem argFirst_spec (le : α → α → Bool) (hle : TotalPre le) (xs : List α) (h : xs ≠ []) :
    ∃ x, xs[argFirst (ltMax le) xs]? = some x ∧ ∀ y ∈ xs, le y x = true := by
  cases xs with
  | nil => exact absurd rfl h
  | cons x xs =>
    have := scanBest_spec le hle xs [x] x 0 (by simp) (by
      intro y hy
      have : y = x := by simpa using hy
      subst this; exact hle.refl _)
    simpa [argFirst] using this

end Mk.Merge
