import MokapotVerif.Model.ConfidenceRollup
import MokapotVerif.Lemmas.ConfidenceBatch
/-! Helper lemmas for the roll-up tool as a whole (C03). -/
namespace Mk

theorem rollupRetag_sorted (t : Bool) (f : List Row) (h : SortedRows f) : SortedRows (rollupRetag t f) := by
  unfold SortedRows rollupRetag at *
  exact List.pairwise_map.mpr h

theorem rollupRetag_ne_nil (t : Bool) (f : List Row) (h : f ≠ []) : rollupRetag t f ≠ [] := by
  cases f with
  | nil => exact absurd rfl h
  | cons x rest => simp [rollupRetag]

theorem rollupRetag_id (t : Bool) : ∀ (f : List Row), (∀ r ∈ f, r.target = t) → rollupRetag t f = f := by
  intro f
  induction f with
  | nil => intro _; rfl
  | cons x rest ih =>
    intro h
    have hx : x.target = t := h x (by simp)
    have := ih (fun r hr => h r (List.mem_cons_of_mem _ hr))
    unfold rollupRetag at this ⊢
    rw [List.map_cons, this]
    congr 1
    cases x
    simp_all

theorem levelSpec_perm_input (key : Row → Nat) (input input' out : List Row)
    (hp : input.Perm input') (h : LevelSpec key input out) : LevelSpec key input' out :=
  ⟨h.1, h.2.1, fun r hr => hp.mem_iff.mp (h.2.2.1 r hr),
    fun r hr => h.2.2.2 r (hp.mem_iff.mpr hr)⟩

theorem strict_scores_inj : ∀ (l : List Row), l.Pairwise (fun a b => b.score < a.score) →
    ∀ a ∈ l, ∀ b ∈ l, a.score = b.score → a = b := by
  intro l
  induction l with
  | nil => intro _ a ha; simp at ha
  | cons x rest ih =>
    intro h a ha b hb hab
    have hx := (List.pairwise_cons.mp h).1
    have hr := (List.pairwise_cons.mp h).2
    rcases List.mem_cons.mp ha with rfl | ha' <;> rcases List.mem_cons.mp hb with rfl | hb'
    · rfl
    · exact absurd hab (ne_of_gt (hx b hb'))
    · exact absurd hab.symm (ne_of_gt (hx a ha'))
    · exact ih hr a ha' b hb' hab

/-- a best-first arrangement of the rows of a strictly decreasing list is that list -/
theorem sorted_perm_strict_eq (l out : List Row) (hl : l.Pairwise (fun a b => b.score < a.score))
    (hp : out.Perm l) (hs : SortedRows out) : out = l := by
  have hinj := strict_scores_inj l hl
  have ndl : l.Nodup := hl.imp (fun {a b} h => by intro e; rw [e] at h; exact lt_irrefl _ h)
  have ndo : out.Nodup := hp.nodup_iff.mpr ndl
  have strict : out.Pairwise (fun a b => b.score < a.score) := by
    refine (hs.and ndo).imp_of_mem ?_
    intro a b ha hb hab
    rcases lt_or_eq_of_le hab.1 with h | h
    · exact h
    · exact absurd (hinj _ (hp.mem_iff.mp hb) _ (hp.mem_iff.mp ha) h) (Ne.symm hab.2)
  exact List.Perm.eq_of_pairwise (le := fun a b => b.score < a.score)
    (fun a b _ _ hab hba => absurd (lt_trans hab hba) (lt_irrefl _)) strict hl hp

end Mk
