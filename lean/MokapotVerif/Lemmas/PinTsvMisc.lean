import MokapotVerif.Lemmas.PinTsvIdem
/-!
# Header line, line counts, the CLI verify step
-/
namespace Mk

theorem head_pyLines_append_nl (l rest : Str) (h : '\n' ∉ l) :
    (pyLines (l ++ '\n' :: rest)).head? = some (l ++ ['\n']) := by
  rw [pyLines_append_nl l rest h]; rfl

theorem renderLines_cons_true (H : Str) (rest : List Str) :
    renderLines (H :: rest) true = H ++ '\n' :: renderLines rest true := by
  cases rest with
  | nil => rfl
  | cons a b => rfl

theorem DocWF.header_no_nl {sepC : Char} {d : PinDoc} (h : DocWF sepC d) : '\n' ∉ joinWith [sepC] d.cols := by
  intro hm
  rcases mem_joinWith _ _ _ hm with h' | ⟨f, hf, hc⟩
  · simp at h'; exact h.sep h'.symm
  · exact (h.cols f hf).2 hc

theorem DocWF.out_head {sepC : Char} {d : PinDoc} (h : DocWF sepC d) (sepP : Str) :
    (pyLines (renderTsv sepC sepP d)).head? = some (joinWith [sepC] d.cols ++ ['\n']) := by
  unfold renderTsv renderTable specTable
  rw [List.map_cons, renderLines_cons_true]
  exact head_pyLines_append_nl _ _ h.header_no_nl

theorem DocWF.lines_two {sepC : Char} {d : PinDoc} (h : DocWF sepC d) :
    ∃ x r, d.lines sepC = d.headerLine sepC :: x :: r := by
  unfold PinDoc.lines
  rcases h.nonempty with h' | h'
  · cases hd : d.dd with
    | none => rw [hd] at h'; simp at h'
    | some x => exact ⟨x, _, rfl⟩
  · cases hd : d.dd with
    | some x => exact ⟨x, _, rfl⟩
    | none =>
      cases hr : d.rows with
      | nil => exact absurd hr h'
      | cons r rs => exact ⟨r.line sepC, rs.map (PinRow.line sepC), rfl⟩

theorem DocWF.in_head {sepC : Char} {d : PinDoc} (h : DocWF sepC d) :
    (pyLines (renderPin sepC d)).head? = some (d.headerLine sepC ++ ['\n']) := by
  obtain ⟨x, r, e⟩ := h.lines_two
  unfold renderPin
  rw [e]
  simp only [renderLines]
  exact head_pyLines_append_nl _ _ (h.lines_no_nl _ (by rw [e]; simp))

/-! ## line count, for every input -/

theorem secondOut_length (sepC : Char) (sepP : Str) (idx nCol : Nat) (s : Str) :
    (secondOut sepC sepP idx nCol s).length = if isDD s then 0 else 1 := by
  unfold secondOut; split <;> rfl

/-- whatever the input: when the conversion succeeds it performs one write
for the header and one per further line, except a second line that starts
with `DefaultDirection` -/
theorem pinToTsvLines_length (sepC : Char) (sepP : Str) (ls out : List Str)
    (h : pinToTsvLines sepC sepP ls = .ok out) :
    out.length + (if ((ls[1]?.map (fun l => isDD (chomp l))).getD false) then 1 else 0) = ls.length := by
  cases ls with
  | nil => simp [pinToTsvLines] at h
  | cons a r =>
    simp only [pinToTsvLines, pinAfterHeader] at h
    split at h
    · cases r with
      | nil => simp [pinBody, Except.map] at h
      | cons l2 more =>
        simp only [pinBody, Except.map, Except.ok.injEq] at h
        subst h
        simp only [List.length_cons, List.length_append, List.length_map, secondOut_length,
          List.getElem?_cons_succ, List.getElem?_cons_zero, Option.map_some, Option.getD_some]
        split <;> omega
    · cases h

/-! ## the CLI verify step -/

theorem isValid_ok_of_two (sepC : Char) (text : Str) (h : 2 ≤ (pyLines text).length) :
    isValid sepC text = .ok (validSpecB sepC (pyLines text)) := by
  unfold isValid
  rw [isValidLines_spec, if_neg (by omega)]

theorem DocWF.two_lines {sepC : Char} {d : PinDoc} (h : DocWF sepC d) :
    2 ≤ (pyLines (renderPin sepC d)).length := by
  unfold renderPin
  rw [pyLines_renderLines _ _ h.lines_no_nl h.last_ok]
  obtain ⟨x, r, e⟩ := h.lines_two
  rw [e]
  cases r with
  | nil => simp [addNl]
  | cons y r => simp [addNl]

/-- after the verify step the file is a valid TSV: it either was one already
(and is untouched) or is replaced by the conversion -/
theorem DocWF.verifyStep {d : PinDoc} (h : DocWF '\t' d) (hf : firstTsvRowOk '\t' [':'] d = true) :
    ∃ out, Mk.verifyStep (renderPin '\t' d) = .ok out ∧ isValid '\t' out = .ok true ∧
      ((isValid '\t' (renderPin '\t' d) = .ok true ∧ out = renderPin '\t' d) ∨
       (isValid '\t' (renderPin '\t' d) = .ok false ∧ out = renderTsv '\t' [':'] d)) := by
  have hv := isValid_ok_of_two '\t' _ h.two_lines
  unfold Mk.verifyStep
  rw [hv]
  cases hb : validSpecB '\t' (pyLines (renderPin '\t' d)) with
  | true =>
    refine ⟨renderPin '\t' d, rfl, ?_, Or.inl ⟨rfl, rfl⟩⟩
    rw [hv, hb]
  | false =>
    refine ⟨renderTsv '\t' [':'] d, ?_, h.output_valid [':'] (by decide) hf, Or.inr ⟨rfl, rfl⟩⟩
    simp only [Except.bind]
    exact h.pinToTsv [':']

end Mk
