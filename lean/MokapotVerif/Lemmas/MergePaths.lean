import MokapotVerif.Lemmas.MergeSpec
/-! C14, second pass: the suffix dispatch of `merge_sort`, Parquet row groups, scores that are ±∞. -/
namespace Mk.Merge
variable {α : Type}

theorem kmRowIterGroups_eq (g c : Nat) (hg : 0 < g) (hc : 0 < c) (xs : List α) :
    kmRowIterGroups g c xs = xs := by
  unfold kmRowIterGroups
  have : (kmChunks g xs).map (kmRowIter c) = kmChunks g xs := by
    conv => rhs; rw [← List.map_id (kmChunks g xs)]
    exact List.map_congr_left (fun ys _ => kmRowIter_eq c hc ys)
  rw [this, kmChunks_flatten g hg]

theorem map_kmRowIterGroups (g c : Nat) (hg : 0 < g) (hc : 0 < c) (files : List (List α)) :
    files.map (kmRowIterGroups g c) = files := by
  conv => rhs; rw [← List.map_id files]
  exact List.map_congr_left (fun xs _ => kmRowIterGroups_eq g c hg hc xs)

theorem kmergeFiles_eq (le : α → α → Bool) (c : Nat) (hc : 0 < c) (files : List (List α)) :
    kmergeFiles le c files = kmerge le files := by
  unfold kmergeFiles
  congr 1
  conv => rhs; rw [← List.map_id files]
  exact List.map_congr_left (fun xs _ => kmRowIter_eq c hc xs)

/-- the dispatch succeeds (every file is readable by the chosen iterator) -/
def pathsReadable (files : List (String × List α)) : Bool :=
  files.all (fun f => kmReadable (kmIsParquet ((files.map (·.1)).headD "")) f.1)

theorem kmergePaths_eq (le : α → α → Bool) (c : Nat) (files : List (String × List α)) :
    kmergePaths le c files
      = if pathsReadable files then kmergeFiles le c (files.map (·.2)) else none := rfl

theorem pathsReadable_of_same (b : Bool) (files : List (String × List α))
    (h : ∀ f ∈ files, kmIsParquet f.1 = b) : pathsReadable files = true := by
  unfold pathsReadable
  rw [List.all_eq_true]
  intro f hf
  cases files with
  | nil => cases hf
  | cons f0 rest =>
    have h0 := h f0 (by simp)
    have h1 := h f hf
    simp [kmReadable, h0, h1]

theorem pathsReadable_text_first (s : String) (xs : List α) (rest : List (String × List α))
    (h : kmIsParquet s = false) : pathsReadable ((s, xs) :: rest) = true := by
  unfold pathsReadable
  rw [List.all_eq_true]
  intro f _
  simp [kmReadable, h]

theorem pathsReadable_false_iff (files : List (String × List α)) :
    pathsReadable files = false ↔
      kmIsParquet ((files.map (·.1)).headD "") = true ∧ ∃ f ∈ files, kmIsParquet f.1 = false := by
  unfold pathsReadable
  rw [List.all_eq_false]
  generalize kmIsParquet ((files.map (·.1)).headD "") = p
  constructor
  · rintro ⟨f, hf, h⟩
    cases p with
    | false => exact absurd rfl h
    | true =>
      refine ⟨rfl, f, hf, ?_⟩
      cases hq : kmIsParquet f.1 with
      | false => rfl
      | true => exact absurd (by simp [kmReadable, hq]) h
  · rintro ⟨hp, f, hf, hq⟩
    subst hp
    exact ⟨f, hf, by simp [kmReadable, hq]⟩

/-! ## ±∞ -/

theorem xle_total (a b : XScore) : xle a b = true ∨ xle b a = true := by
  cases a <;> cases b <;> simp [xle]; omega

theorem xle_trans (a b c : XScore) (h1 : xle a b = true) (h2 : xle b c = true) : xle a c = true := by
  cases a <;> cases b <;> cases c <;> simp_all [xle]; omega

end Mk.Merge
