import MokapotVerif.Lemmas.TabularSession
/-!
# Lemmas on writer objects that are used again, and on several writer objects
for one file (C13, second pass)

The key notion is a *clean* buffer: `None` (fresh object) or an empty frame / list
/ record array (what a completed session may leave behind).  A clean buffer
behaves like `None`, a completed session leaves a clean buffer, `write` does not
touch the buffer — so whatever a writer object did before, as long as every use
was completed, the next use sees the file writer only.
-/
namespace Mk.Tabular
variable {α β σ : Type}

/-! ## clean buffers -/

/-- a buffer without pending rows (and, for frame / record buffers, with the
writer's columns) -/
def Clean (cols : List Name) (k : Kind) (buf : Option (WFrame β)) : Prop :=
  ∀ b, buf = some b → b.rows = [] ∧ (k ≠ Kind.dicts → b.names = cols)

theorem clean_none (cols : List Name) (k : Kind) : Clean cols k (none : Option (WFrame β)) := by
  intro b h; cases h

theorem clean_bufWF {cols : List Name} {k : Kind} {buf : Option (WFrame β)} (h : Clean cols k buf) :
    ∀ b, buf = some b → BufWF cols k b := by
  intro b hb
  obtain ⟨h1, h2⟩ := h b hb
  exact ⟨fun r hr => (by rw [h1] at hr; cases hr), h2⟩

theorem clean_bufRows {cols : List Name} {k : Kind} {buf : Option (WFrame β)} (h : Clean cols k buf) :
    bufRows buf = [] := by
  cases buf with
  | none => rfl
  | some b => exact (h b rfl).1

theorem set_of_getElem? {l : List α} {j : Nat} {b : α} (h : l[j]? = some b) : l.set j b = l := by
  induction l generalizing j with
  | nil => rfl
  | cons x xs ih =>
    cases j with
    | zero =>
      simp only [List.getElem?_cons_zero, Option.some.injEq] at h
      subst h; rfl
    | succ j =>
      simp only [List.getElem?_cons_succ] at h
      simp [ih h]

theorem foldOpt_singleton (f : σ → α → Option σ) (s : σ) (a : α) : foldOpt f s [a] = f s a := by
  simp only [foldOpt]
  cases f s a <;> rfl

/-! ## `finalize` of a buffered writer, in closed form -/

theorem bufFinalize_eq (w : Writer σ β) (cols : List Name) (k : Kind) (size : Nat) (hs : 1 ≤ size)
    (buf : Option (WFrame β)) (hwf : ∀ b, buf = some b → BufWF cols k b)
    (hlt : (bufRows buf).length < size) (s : σ) :
    bufFinalize w k size (buf, s) =
      if (bufRows buf).isEmpty then (w.fin s).map (fun s' => (buf, s'))
      else ((w.append s ⟨cols, bufRows buf⟩).bind w.fin).map (fun s' => (none, s')) := by
  cases buf with
  | none =>
    simp only [bufFinalize, forceFlush, bufRows, Option.elim_none, Option.bind_some, List.isEmpty_nil, if_true]
  | some b =>
    have hb := hwf b rfl
    have hlt : b.rows.length < size := hlt
    show bufFinalize w k size (some b, s) = if b.rows.isEmpty then (w.fin s).map (fun s' => (some b, s'))
      else ((w.append s ⟨cols, b.rows⟩).bind w.fin).map (fun s' => (none, s'))
    have hloop := flushLoop_eq w cols k size hs b.rows.length b s hb
    rw [cutFull_short size _ _ hlt] at hloop
    simp only [List.map_nil, foldOpt, Option.map_some] at hloop
    simp only [bufFinalize, forceFlush, Option.elim_some, hloop, Option.bind_some]
    by_cases he3 : b.rows.isEmpty = true
    · rw [if_pos he3, if_pos he3]
      simp only [Option.bind_some]
    · have he : b.rows ≠ [] := by
        intro h; rw [h] at he3; exact he3 rfl
      rw [if_neg he3, if_neg he3]
      rw [emitFrame_wf cols k b hb b.rows he (fun r hr => hr)]
      cases w.append s ⟨cols, b.rows⟩ with
      | none => rfl
      | some s2 =>
        simp only [Option.map_some, Option.bind_some]

/-! ## one segment: `append_data(a₁); …; finalize()` on an object with a clean buffer -/

/-- buffered object -/
theorem bufSegment_eq (w : Writer σ β) (cols : List Name) (k : Kind) (size : Nat) (hs : 1 ≤ size)
    (buf : Option (WFrame β)) (hclean : Clean cols k buf) (s : σ) (args : List (Arg β))
    (hargs : ∀ a ∈ args, ArgWF cols k a) :
    ∃ buf', Clean cols k buf' ∧
      (foldOpt (bufAppend w k size) (buf, s) args).bind (bufFinalize w k size)
        = ((foldOpt w.append s ((emitted size (args.map Arg.rows)).map (fun rows => ⟨cols, rows⟩))).bind w.fin).map
            (fun s' => (buf', s')) := by
  obtain ⟨buf', h1, h2, _, h4⟩ := bufFold_eq w cols k size hs args buf s (clean_bufWF hclean) hargs
  have hspec := emittedAppends_spec size hs (args.map Arg.rows) []
  rw [clean_bufRows hclean] at h2 h4
  simp only [List.length_nil] at hspec
  have hlt : (bufRows buf').length < size := by rw [h2]; exact hspec.2.2 (by omega)
  rw [h4]
  unfold emitted
  cases hfo : foldOpt w.append s ((emittedAppends size [] (args.map Arg.rows)).1.map
      (fun rows => (⟨cols, rows⟩ : WFrame β))) with
  | none =>
    refine ⟨none, clean_none cols k, ?_⟩
    simp only [Option.map_none, Option.bind_none]
    split
    · rw [hfo]; rfl
    · rw [List.map_append, foldOpt_append, hfo]; rfl
  | some s1 =>
    simp only [Option.map_some, Option.bind_some]
    rw [bufFinalize_eq w cols k size hs buf' h1 hlt s1, h2]
    cases he : (emittedAppends size [] (args.map Arg.rows)).2.isEmpty with
    | true =>
      refine ⟨buf', ?_, ?_⟩
      · intro b hb
        refine ⟨?_, (h1 b hb).2⟩
        subst hb
        have : b.rows = (emittedAppends size [] (args.map Arg.rows)).2 := h2
        rw [this]
        exact List.isEmpty_iff.mp he
      · simp only [if_true, hfo, Option.bind_some]
    | false =>
      refine ⟨none, clean_none cols k, ?_⟩
      simp only [Bool.false_eq_true, if_false, List.map_append, foldOpt_append, hfo, Option.bind_some,
        List.map_cons, List.map_nil, foldOpt_singleton]

/-- unbuffered object: the buffer is never looked at -/
theorem plainSegment_eq (w : Writer σ β) (b : Option (WFrame β)) (s : σ) (args : List (Arg β)) :
    (foldOpt (plainAppend w) (b, s) args).bind (fun st => (w.fin st.2).map (fun s' => (st.1, s')))
      = ((optAll (args.map argFrame)).bind (fun fs => (foldOpt w.append s fs).bind w.fin)).map (fun s' => (b, s')) := by
  rw [foldOpt_plainAppend w b args s]
  cases optAll (args.map argFrame) with
  | none => rfl
  | some fs =>
    simp only [Option.bind_some]
    cases foldOpt w.append s fs with
    | none => rfl
    | some s1 =>
      simp only [Option.map_some, Option.bind_some]

/-- the buffer kind that matters for an object `(buffer_type, buffer_size)` -/
def okind (o : Kind × Nat) : Kind := if 1 < o.2 then o.1 else Kind.dataframe

/-- the frames an object hands to the file writer for well-formed appends: the
size-`buffer_size` chunks of all rows when buffered, the appended frames otherwise -/
def framesOf (cols : List Name) (o : Kind × Nat) (args : List (Arg β)) : List (WFrame β) :=
  if 1 < o.2 then (emitted o.2 (args.map Arg.rows)).map (fun rows => ⟨cols, rows⟩)
  else args.map (fun a => ⟨a.names, a.rows⟩)

theorem framesOf_wf (cols : List Name) (o : Kind × Nat) (args : List (Arg β))
    (hargs : ∀ a ∈ args, ArgWF cols (okind o) a) :
    (∀ f ∈ framesOf cols o args, f.names = cols ∧ ∀ r ∈ f.rows, rowKeys r = cols)
      ∧ (framesOf cols o args).flatMap (fun f => f.rows) = args.flatMap Arg.rows := by
  unfold framesOf
  unfold okind at hargs
  by_cases hs : 1 < o.2
  · simp only [hs, if_true] at hargs ⊢
    have hflat := (emitted_isChunking o.2 (by omega) (args.map Arg.rows)).1
    constructor
    · intro f hf
      obtain ⟨b, hb, rfl⟩ := List.mem_map.mp hf
      refine ⟨rfl, fun r hr => ?_⟩
      have hmem : r ∈ (args.map Arg.rows).flatten := by
        rw [← hflat]; exact List.mem_flatten.mpr ⟨b, hb, hr⟩
      obtain ⟨l, hl, hrl⟩ := List.mem_flatten.mp hmem
      obtain ⟨a, ha, rfl⟩ := List.mem_map.mp hl
      exact (hargs a ha).2.1 r hrl
    · rw [List.flatMap_def, List.map_map]
      simpa [List.flatMap_def, Function.comp_def] using hflat
  · simp only [hs, if_false] at hargs ⊢
    constructor
    · intro f hf
      obtain ⟨a, ha, rfl⟩ := List.mem_map.mp hf
      exact ⟨(hargs a ha).2.2 (by simp), (hargs a ha).2.1⟩
    · simp [List.flatMap_def, List.map_map, Function.comp_def]

/-- **one segment on a clean object = the file writer fed with the object's frames** -/
theorem segment_eq (w : Writer σ β) (cols : List Name) (o : Kind × Nat) (buf : Option (WFrame β))
    (hclean : Clean cols o.1 buf) (s : σ) (args : List (Arg β)) (hargs : ∀ a ∈ args, ArgWF cols (okind o) a) :
    ∃ buf', Clean cols o.1 buf' ∧
      (foldOpt (fsAppend w o.1 o.2) (buf, s) args).bind (fsFinalize w o.1 o.2)
        = ((foldOpt w.append s (framesOf cols o args)).bind w.fin).map (fun s' => (buf', s')) := by
  unfold framesOf
  unfold okind at hargs
  by_cases hs : 1 < o.2
  · simp only [hs, if_true] at hargs ⊢
    rw [fsAppend_buffered w o.1 o.2 hs, fsFinalize_buffered w o.1 o.2 hs]
    exact bufSegment_eq w cols o.1 o.2 (by omega) buf hclean s args hargs
  · simp only [hs, if_false] at hargs ⊢
    rw [fsAppend_plain w o.1 o.2 hs, fsFinalize_plain w o.1 o.2 hs]
    refine ⟨buf, hclean, ?_⟩
    have hall : ∀ a ∈ args, argFrame a = some ⟨a.names, a.rows⟩ := by
      intro a ha
      obtain ⟨f, rfl⟩ := argOK_dataframe a (hargs a ha).1
      rfl
    rw [plainSegment_eq w buf s args, optAll_congr_some args hall, Option.bind_some]

/-! ## calls on one object of a file -/

theorem objFold_apps (w : Writer σ β) (inner : σ → WFrame β → Option σ) (o : Kind × Nat) :
    ∀ (args : List (Arg β)) (st : Option (WFrame β) × σ),
      foldOpt (objStep w inner o) st (args.map Call.app) = foldOpt (fsAppend w o.1 o.2) st args := by
  intro args
  induction args with
  | nil => intro st; rfl
  | cons a as ih =>
    intro st
    simp only [List.map_cons, foldOpt, objStep]
    cases fsAppend w o.1 o.2 st a with
    | none => rfl
    | some st' => simp only [Option.bind_some]; exact ih st'

theorem objFold_segment (w : Writer σ β) (inner : σ → WFrame β → Option σ) (o : Kind × Nat)
    (st : Option (WFrame β) × σ) (args : List (Arg β)) :
    foldOpt (objStep w inner o) st (args.map Call.app ++ [Call.fin])
      = (foldOpt (fsAppend w o.1 o.2) st args).bind (fsFinalize w o.1 o.2) := by
  rw [foldOpt_append, objFold_apps]
  cases foldOpt (fsAppend w o.1 o.2) st args with
  | none => rfl
  | some st' => simp only [Option.bind_some, foldOpt_singleton, objStep]

/-- calls that all go to object `j`: the other buffers are not touched -/
theorem fileFold_obj (w : Writer σ β) (inner : σ → WFrame β → Option σ) (objs : List (Kind × Nat)) (j : Nat)
    (o : Kind × Nat) (ho : objs[j]? = some o) :
    ∀ (cs : List (Call β)) (bufs : List (Option (WFrame β))) (b : Option (WFrame β)) (s : σ), bufs[j]? = some b →
      foldOpt (fileStep w inner objs) (bufs, s) (cs.map (fun c => (j, c)))
        = (foldOpt (objStep w inner o) (b, s) cs).map (fun p => (bufs.set j p.1, p.2)) := by
  intro cs
  induction cs with
  | nil =>
    intro bufs b s hb
    simp [foldOpt, set_of_getElem? hb]
  | cons c cs ih =>
    intro bufs b s hb
    have hj : j < bufs.length := (List.getElem?_eq_some_iff.mp hb).1
    simp only [List.map_cons, foldOpt, fileStep, ho, hb, Option.bind_some]
    cases objStep w inner o (b, s) c with
    | none => rfl
    | some p =>
      simp only [Option.map_some, Option.bind_some]
      rw [ih (bufs.set j p.1) p.1 p.2 (by simp [List.getElem?_set_self hj])]
      cases foldOpt (objStep w inner o) (p.1, p.2) cs with
      | none => rfl
      | some q => simp [List.set_set]

/-! ## the invariant of a file with its writer objects between uses -/

/-- one buffer per object, every buffer clean -/
def FileInv (cols : List Name) (objs : List (Kind × Nat)) (bufs : List (Option (WFrame β))) : Prop :=
  bufs.length = objs.length ∧ ∀ (j : Nat) (b : Option (WFrame β)) (o : Kind × Nat), bufs[j]? = some b → objs[j]? = some o → Clean cols (Prod.fst o) b

theorem fileInv_fresh (cols : List Name) (objs : List (Kind × Nat)) :
    FileInv cols objs (objs.map (fun _ => (none : Option (WFrame β)))) := by
  refine ⟨by simp, ?_⟩
  intro j b o hb _
  simp only [List.getElem?_map, Option.map_eq_some_iff] at hb
  obtain ⟨_, _, rfl⟩ := hb
  exact clean_none cols o.1

theorem fileInv_set {cols : List Name} {objs : List (Kind × Nat)} {bufs : List (Option (WFrame β))}
    (h : FileInv cols objs bufs) {j : Nat} {o : Kind × Nat} (ho : objs[j]? = some o) {b' : Option (WFrame β)}
    (hc : Clean cols o.1 b') : FileInv cols objs (bufs.set j b') := by
  refine ⟨by simpa using h.1, ?_⟩
  intro j' b o' hb ho'
  by_cases hjj : j = j'
  · subst hjj
    have hj : j < bufs.length := by
      rw [h.1]; exact (List.getElem?_eq_some_iff.mp ho).1
    rw [List.getElem?_set_self hj] at hb
    cases hb
    rw [ho] at ho'
    cases ho'
    exact hc
  · rw [List.getElem?_set_ne hjj] at hb
    exact h.2 j' b o' hb ho'

theorem fileInv_get {cols : List Name} {objs : List (Kind × Nat)} {bufs : List (Option (WFrame β))}
    (h : FileInv cols objs bufs) {j : Nat} {o : Kind × Nat} (ho : objs[j]? = some o) :
    ∃ b, bufs[j]? = some b ∧ Clean cols o.1 b := by
  have hj : j < bufs.length := by
    rw [h.1]; exact (List.getElem?_eq_some_iff.mp ho).1
  exact ⟨bufs[j], List.getElem?_eq_getElem hj, h.2 j _ o (List.getElem?_eq_getElem hj) ho⟩

/-! ## what a use of the file does to the storage -/

/-- a segment, seen from the storage -/
def segSigma (w : Writer σ β) (cols : List Name) (objs : List (Kind × Nat)) (s : σ) (seg : Nat × List (Arg β)) :
    Option σ :=
  objs[seg.1]?.bind (fun o => (foldOpt w.append s (framesOf cols o seg.2)).bind w.fin)

/-- an episode, seen from the storage -/
def epSigma (w : Writer σ β) (inner : σ → WFrame β → Option σ) (cols : List Name) (objs : List (Kind × Nat)) (s : σ) :
    Episode β → Option σ
  | .run _ segs => (w.init s).bind (fun s1 => foldOpt (segSigma w cols objs) s1 segs)
  | .write _ f => inner s f

/-- a well-formed segment: an existing object, appends that suit it -/
def SegWF (cols : List Name) (objs : List (Kind × Nat)) (seg : Nat × List (Arg β)) : Prop :=
  ∃ o, objs[seg.1]? = some o ∧ ∀ a ∈ seg.2, ArgWF cols (okind o) a

/-- a well-formed episode -/
def Episode.WF (cols : List Name) (objs : List (Kind × Nat)) : Episode β → Prop
  | .run j0 segs => j0 < objs.length ∧ ∀ seg ∈ segs, SegWF cols objs seg
  | .write j f => j < objs.length ∧ f.names = cols ∧ ∀ r ∈ f.rows, rowKeys r = cols

theorem segCalls_eq (seg : Nat × List (Arg β)) :
    segCalls seg = (seg.2.map Call.app ++ [Call.fin]).map (fun c => (seg.1, c)) := by
  simp [segCalls, List.map_append, List.map_map, Function.comp_def]

theorem seg_fold (w : Writer σ β) (inner : σ → WFrame β → Option σ) (cols : List Name) (objs : List (Kind × Nat))
    (bufs : List (Option (WFrame β))) (hinv : FileInv cols objs bufs) (s : σ) (seg : Nat × List (Arg β))
    (hseg : SegWF cols objs seg) :
    ∃ bufs', FileInv cols objs bufs' ∧
      foldOpt (fileStep w inner objs) (bufs, s) (segCalls seg)
        = (segSigma w cols objs s seg).map (fun s' => (bufs', s')) := by
  obtain ⟨o, ho, hargs⟩ := hseg
  obtain ⟨b, hb, hclean⟩ := fileInv_get hinv ho
  obtain ⟨b', hclean', heq⟩ := segment_eq w cols o b hclean s seg.2 hargs
  refine ⟨bufs.set seg.1 b', fileInv_set hinv ho hclean', ?_⟩
  rw [segCalls_eq, fileFold_obj w inner objs seg.1 o ho _ bufs b s hb, objFold_segment, heq]
  simp only [segSigma, ho, Option.bind_some]
  cases (foldOpt w.append s (framesOf cols o seg.2)).bind w.fin <;> rfl

theorem segs_fold (w : Writer σ β) (inner : σ → WFrame β → Option σ) (cols : List Name) (objs : List (Kind × Nat)) :
    ∀ (segs : List (Nat × List (Arg β))) (bufs : List (Option (WFrame β))) (s : σ), FileInv cols objs bufs →
      (∀ seg ∈ segs, SegWF cols objs seg) →
      ∃ bufs', FileInv cols objs bufs' ∧
        foldOpt (fileStep w inner objs) (bufs, s) (segs.flatMap segCalls)
          = (foldOpt (segSigma w cols objs) s segs).map (fun s' => (bufs', s')) := by
  intro segs
  induction segs with
  | nil => intro bufs s hinv _; exact ⟨bufs, hinv, rfl⟩
  | cons seg rest ih =>
    intro bufs s hinv hwf
    obtain ⟨bufs1, hinv1, h1⟩ := seg_fold w inner cols objs bufs hinv s seg (hwf seg (by simp))
    simp only [List.flatMap_cons, foldOpt_append, h1, foldOpt]
    cases hs : segSigma w cols objs s seg with
    | none => exact ⟨bufs, hinv, rfl⟩
    | some s1 =>
      simp only [Option.map_some, Option.bind_some]
      exact ih bufs1 s1 hinv1 (fun x hx => hwf x (List.mem_cons_of_mem _ hx))

/-- **an episode on a file whose objects are all clean: the storage sees the file
writer fed with the objects' frames, and all objects are clean again** -/
theorem episode_fold (w : Writer σ β) (inner : σ → WFrame β → Option σ) (cols : List Name) (objs : List (Kind × Nat))
    (bufs : List (Option (WFrame β))) (hinv : FileInv cols objs bufs) (s : σ) (e : Episode β)
    (hwf : e.WF cols objs) :
    ∃ bufs', FileInv cols objs bufs' ∧
      foldOpt (fileStep w inner objs) (bufs, s) e.calls = (epSigma w inner cols objs s e).map (fun s' => (bufs', s')) := by
  cases e with
  | run j0 segs =>
    obtain ⟨hj0, hsegs⟩ := hwf
    have ho : objs[j0]? = some objs[j0] := List.getElem?_eq_getElem hj0
    obtain ⟨b, hb, _⟩ := fileInv_get hinv ho
    simp only [Episode.calls, foldOpt, fileStep, ho, hb, Option.bind_some, objStep, fsInit, epSigma]
    cases w.init s with
    | none => exact ⟨bufs, hinv, rfl⟩
    | some s1 =>
      simp only [Option.map_some, Option.bind_some, set_of_getElem? hb]
      exact segs_fold w inner cols objs segs bufs s1 hinv hsegs
  | write j f =>
    obtain ⟨hj, _, _⟩ := hwf
    have ho : objs[j]? = some objs[j] := List.getElem?_eq_getElem hj
    obtain ⟨b, hb, _⟩ := fileInv_get hinv ho
    refine ⟨bufs, hinv, ?_⟩
    simp only [Episode.calls, foldOpt_singleton, fileStep, ho, hb, Option.bind_some, objStep, fsWrite, bufWrite1, epSigma]
    split <;> (cases inner s f <;> simp [set_of_getElem? hb])

theorem episodes_fold (w : Writer σ β) (inner : σ → WFrame β → Option σ) (cols : List Name) (objs : List (Kind × Nat)) :
    ∀ (eps : List (Episode β)) (bufs : List (Option (WFrame β))) (s : σ), FileInv cols objs bufs →
      (∀ e ∈ eps, e.WF cols objs) →
      ∃ bufs', FileInv cols objs bufs' ∧
        foldOpt (fileStep w inner objs) (bufs, s) (eps.flatMap Episode.calls)
          = (foldOpt (epSigma w inner cols objs) s eps).map (fun s' => (bufs', s')) := by
  intro eps
  induction eps with
  | nil => intro bufs s hinv _; exact ⟨bufs, hinv, rfl⟩
  | cons e rest ih =>
    intro bufs s hinv hwf
    obtain ⟨bufs1, hinv1, h1⟩ := episode_fold w inner cols objs bufs hinv s e (hwf e (by simp))
    simp only [List.flatMap_cons, foldOpt_append, h1, foldOpt]
    cases hs : epSigma w inner cols objs s e with
    | none => exact ⟨bufs, hinv, rfl⟩
    | some s1 =>
      simp only [Option.map_some, Option.bind_some]
      exact ih bufs1 s1 hinv1 (fun x hx => hwf x (List.mem_cons_of_mem _ hx))

/-! ## text files: every segment continues the file, `initialize` / `write` start it anew -/

theorem csv_segs (cols : List Name) (objs : List (Kind × Nat)) :
    ∀ (segs : List (Nat × List (Arg β))) (file : CsvFile β), (∀ seg ∈ segs, SegWF cols objs seg) →
      foldOpt (segSigma (csvWriter cols) cols objs) (some file) segs
        = some (some ⟨file.header,
            file.lines ++ (segs.flatMap (fun seg => seg.2.flatMap Arg.rows)).map rowVals⟩) := by
  intro segs
  induction segs with
  | nil => intro file _; simp [foldOpt]
  | cons seg rest ih =>
    intro file hwf
    obtain ⟨o, ho, hargs⟩ := hwf seg (by simp)
    obtain ⟨hfr, hrows⟩ := framesOf_wf cols o seg.2 hargs
    have hfold := csv_fold cols (framesOf cols o seg.2) (fun f hf => (hfr f hf).1) file
    have hl : (framesOf cols o seg.2).flatMap (fun f => f.rows.map rowVals)
        = ((framesOf cols o seg.2).flatMap (fun f => f.rows)).map rowVals := by
      simp [List.flatMap_def, List.map_flatten, List.map_map, Function.comp_def]
    have hstep : segSigma (csvWriter cols) cols objs (some file) seg
        = some (some ⟨file.header, file.lines ++ (seg.2.flatMap Arg.rows).map rowVals⟩) := by
      have hw : (csvWriter cols : Writer (Option (CsvFile β)) β).append = csvAppend cols := rfl
      simp only [segSigma, ho, Option.bind_some]
      rw [hw, hfold, hl, hrows]
      rfl
    simp only [foldOpt, hstep, Option.bind_some]
    rw [ih _ (fun x hx => hwf x (List.mem_cons_of_mem _ hx))]
    simp [List.flatMap_cons, List.append_assoc]

/-- **whatever the file held, a well-formed episode leaves the header and exactly
the episode's rows** -/
theorem csv_episode (cols : List Name) (objs : List (Kind × Nat)) (s : Option (CsvFile β)) (e : Episode β)
    (hwf : e.WF cols objs) :
    epSigma (csvWriter cols) (csvWrite1 cols) cols objs s e = some (some ⟨cols, e.rows.map rowVals⟩) := by
  cases e with
  | run j0 segs =>
    simp only [epSigma, csvWriter, csvInit, Option.bind_some, Episode.rows]
    have := csv_segs cols objs segs ⟨cols, []⟩ hwf.2
    simp only [csvWriter, List.nil_append] at this
    exact this
  | write j f =>
    simp only [epSigma, Episode.rows]
    exact csvWrite1_eq cols s f hwf.2.1

theorem csv_episodes_last (cols : List Name) (objs : List (Kind × Nat)) :
    ∀ (eps : List (Episode β)) (s : Option (CsvFile β)) (last : Episode β), (∀ e ∈ eps, e.WF cols objs) →
      last.WF cols objs →
      foldOpt (epSigma (csvWriter cols) (csvWrite1 cols) cols objs) s (eps ++ [last])
        = some (some ⟨cols, last.rows.map rowVals⟩) := by
  intro eps
  induction eps with
  | nil =>
    intro s last _ hl
    simp only [List.nil_append, foldOpt_singleton]
    exact csv_episode cols objs s last hl
  | cons e rest ih =>
    intro s last hwf hl
    simp only [List.cons_append, foldOpt, csv_episode cols objs s e (hwf e (by simp)), Option.bind_some]
    exact ih _ last (fun x hx => hwf x (List.mem_cons_of_mem _ hx)) hl

/-! ## Parquet files: one object per use (the open `ParquetWriter` belongs to the object) -/

theorem epSigma_session (w : Writer σ β) (inner : σ → WFrame β → Option σ) (cols : List Name)
    (objs : List (Kind × Nat)) (j : Nat) (o : Kind × Nat) (ho : objs[j]? = some o) (s : σ) (args : List (Arg β)) :
    epSigma w inner cols objs s (Use.episode j (Use.session args)) = runWriter w s (framesOf cols o args) := by
  simp only [Use.episode, epSigma, runWriter, foldOpt_singleton, segSigma, ho, Option.bind_some]

/-- a well-formed use of object `o` -/
def Use.WF (cols : List Name) (o : Kind × Nat) : Use β → Prop
  | .session args => ∀ a ∈ args, ArgWF cols (okind o) a
  | .write f => f.names = cols ∧ ∀ r ∈ f.rows, rowKeys r = cols

theorem use_wf (cols : List Name) (objs : List (Kind × Nat)) (j : Nat) (o : Kind × Nat) (ho : objs[j]? = some o)
    (u : Use β) (h : u.WF cols o) : (Use.episode j u).WF cols objs := by
  have hj : j < objs.length := (List.getElem?_eq_some_iff.mp ho).1
  cases u with
  | session args =>
    refine ⟨hj, ?_⟩
    intro seg hseg
    simp only [List.mem_singleton] at hseg
    subst hseg
    exact ⟨o, ho, h⟩
  | write f => exact ⟨hj, h⟩

/-- the rows a use hands over -/
def Use.rows : Use β → List (Row β)
  | .session args => args.flatMap Arg.rows
  | .write f => f.rows

theorem use_rows (j : Nat) (u : Use β) : (Use.episode j u).rows = u.rows := by
  cases u <;> simp [Use.episode, Episode.rows, Use.rows]

theorem pq_use (cols : List Name) (hn : cols.Nodup) (o : Kind × Nat) (s : Option (PqDisk β)) (u : Use β)
    (hwf' : u.WF cols o) :
    ∃ groups : List (List (Row β)), (∀ g ∈ groups, ∀ r ∈ g, rowKeys r = cols) ∧ groups.flatten = u.rows ∧
      epSigma (pqWriter cols) (pqWrite1 cols) cols [o] s (Use.episode 0 u)
        = some (some ⟨⟨cols, groups.map (fun g => g.map rowVals)⟩, false⟩) := by
  have ho : [o][0]? = some o := rfl
  cases u with
  | session args =>
    obtain ⟨hfr, hrows⟩ := framesOf_wf cols o args hwf'
    refine ⟨(framesOf cols o args).map (fun f => f.rows), ?_, ?_, ?_⟩
    · intro g hg r hr
      obtain ⟨f, hf, rfl⟩ := List.mem_map.mp hg
      exact (hfr f hf).2 r hr
    · rw [← List.flatMap_def, hrows]; rfl
    · rw [epSigma_session _ _ cols [o] 0 o ho, pq_run cols hn s _ (fun f hf => (hfr f hf).2)]
      simp [List.map_map, Function.comp_def]
  | write f =>
    refine ⟨[f.rows], ?_, by simp [Use.rows], ?_⟩
    · intro g hg r hr
      simp only [List.mem_singleton] at hg
      subst hg
      exact hwf'.2 r hr
    · simp [Use.episode, epSigma, pqWrite1, hwf'.1]

theorem pq_uses_last (cols : List Name) (hn : cols.Nodup) (o : Kind × Nat) :
    ∀ (uses : List (Use β)) (s : Option (PqDisk β)) (last : Use β), (∀ u ∈ uses, u.WF cols o) → last.WF cols o →
      ∃ groups : List (List (Row β)), (∀ g ∈ groups, ∀ r ∈ g, rowKeys r = cols) ∧ groups.flatten = last.rows ∧
        foldOpt (epSigma (pqWriter cols) (pqWrite1 cols) cols [o]) s ((uses ++ [last]).map (Use.episode 0))
          = some (some ⟨⟨cols, groups.map (fun g => g.map rowVals)⟩, false⟩) := by
  intro uses
  induction uses with
  | nil =>
    intro s last _ hl
    obtain ⟨groups, h1, h2, h3⟩ := pq_use cols hn o s last hl
    exact ⟨groups, h1, h2, by simpa [foldOpt_singleton] using h3⟩
  | cons u rest ih =>
    intro s last hwf hl
    obtain ⟨_, _, _, hu⟩ := pq_use cols hn o s u (hwf u (by simp))
    obtain ⟨groups, h1, h2, h3⟩ := ih _ last (fun x hx => hwf x (List.mem_cons_of_mem _ hx)) hl
    refine ⟨groups, h1, h2, ?_⟩
    simp only [List.cons_append, List.map_cons, foldOpt, hu, Option.bind_some]
    exact h3

/-- the rows of a well-formed episode carry the writer's columns -/
theorem episode_rows_keys (cols : List Name) (objs : List (Kind × Nat)) (e : Episode β) (hwf : e.WF cols objs) :
    ∀ r ∈ e.rows, rowKeys r = cols := by
  cases e with
  | run j0 segs =>
    intro r hr
    simp only [Episode.rows, List.mem_flatMap] at hr
    obtain ⟨seg, hseg, a, ha, hra⟩ := hr
    obtain ⟨o, _, hargs⟩ := hwf.2 seg hseg
    exact (hargs a ha).2.1 r hra
  | write j f => exact hwf.2.2

/-- clean buffers hold no rows -/
theorem fileInv_rows {cols : List Name} {objs : List (Kind × Nat)} {bufs : List (Option (WFrame β))}
    (h : FileInv cols objs bufs) : ∀ b ∈ bufs, bufRows b = [] := by
  intro b hb
  obtain ⟨j, hj⟩ := List.getElem?_of_mem hb
  have hlt : j < objs.length := by
    rw [← h.1]; exact (List.getElem?_eq_some_iff.mp hj).1
  exact clean_bufRows (h.2 j b objs[j] hj (List.getElem?_eq_getElem hlt))

end Mk.Tabular
